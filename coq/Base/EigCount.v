(* Counting eigenvalues with multiplicity, without determinants or dimension theory.

   Setting: a commutative ring without zero divisors, 1 <> 0, decidable equality (every field with decidable equality,
   e.g. Qc, the classical reals, and their complexifications).  Function matrices of Base/FMat.v.

   A is diagonalised by a two-sided invertible Phi:  A Phi = Phi diag(lam).
   The eigen-solver contract:  A V = V diag(d)  and  W V = I  (the returned eigenvector matrix has independent columns).

   eig_count_simple : if lam_0 .. lam_{n-1} are pairwise different, then [d_0 .. d_{n-1}] is a Permutation of
                      [lam_0 .. lam_{n-1}] (each true eigenvalue exactly once, nothing else), through an explicit
                      bijection sigma, and column k of V is a non-zero multiple of column sigma(k) of Phi.
   eig_count_border : the same when only lam_0 .. lam_{r-1} are simple and lam_r = .. = lam_{n-1} = mu (one possibly
                      repeated eigenvalue, e.g. the zero border of a companion matrix); here V W = I is needed too.
   eig_in_spectrum  : every eigenvalue of A with a non-zero eigenvector is one of the lam_i.

   Idea: U = Phi^-1 V satisfies (lam_i - d_k) U_ik = 0 and has the left inverse W Phi.  A column of U is not zero, so
   d_k = lam_i for some i; if lam_i is simple the column is supported on coordinate i only, and two such columns with the
   same i would be proportional, against the left inverse.  Injective + pigeonhole (NoDup / incl / length) = bijective.
   Everything here is closed under the global context. *)
From Coq Require Import List Arith Lia Ring Field Setoid Morphisms Permutation Bool.
From PyOMA.Base Require Import Carrier FMat Cplx.
Import ListNotations.

(* ---------- list facts ---------- *)
Lemma NoDup_map_inj {X Y:Type} (f:X -> Y) (l:list X) :
  (forall x y, In x l -> In y l -> f x = f y -> x = y) -> NoDup l -> NoDup (map f l).
Proof.
  intros Hinj Hnd. induction Hnd as [|a l Ha Hnd IH]; cbn [map]; constructor.
  - intros Hin. apply in_map_iff in Hin. destruct Hin as [b [Eb Hb]].
    assert (E: b = a) by (apply Hinj; [right; exact Hb|left; reflexivity|exact Eb]). subst b. contradiction.
  - apply IH. intros x y Hx Hy. apply Hinj; right; assumption.
Qed.
Lemma filter_split_perm {X:Type} (f:X -> bool) (l:list X) :
  Permutation l (filter f l ++ filter (fun x => negb (f x)) l).
Proof.
  induction l as [|a l IH]; cbn [filter]; [constructor|]. destruct (f a); cbn [negb app].
  - constructor. exact IH.
  - apply Permutation_cons_app. exact IH.
Qed.
Lemma map_const_repeat {X Y:Type} (f:X -> Y) (c:Y) (l:list X) :
  (forall x, In x l -> f x = c) -> map f l = repeat c (length l).
Proof.
  induction l as [|a l IH]; intros H; [reflexivity|]. cbn [map length repeat].
  rewrite (H a) by (left; reflexivity). rewrite IH by (intros x Hx; apply H; right; exact Hx). reflexivity.
Qed.

Section EC.
Variable R:Type. Variable K:Ops R.
Hypothesis Rth : ring_theory (o0 K) (o1 K) (oadd K) (omul K) (osub K) (oopp K) (@eq R).
Add Ring RrEC : Rth.
Local Open Scope K_scope.
Notation "0" := (o0 K) : K_scope. Notation "1" := (o1 K) : K_scope.
Infix "+" := (oadd K) : K_scope. Infix "*" := (omul K) : K_scope. Infix "-" := (osub K) : K_scope.
Notation fm := (fmul K). Notation fI := (fid K).
Let assoc := fmul_assoc R K Rth.
Let idl := fmul_id_l R K Rth.
Let idr := fmul_id_r R K Rth.

Hypothesis Hint : forall a b:R, a * b = 0 -> a = 0 \/ b = 0.
Hypothesis H10 : 1 <> 0.
Hypothesis Rdec : forall x y:R, {x = y} + {x <> y}.

Definition ediag (d:nat -> R) : fmat R := fun i j => if Nat.eqb i j then d i else 0.

(* ---------- sums with a single non-zero term ---------- *)
Lemma sumn_allz n (f:nat -> R) : (forall k, (k < n)%nat -> f k = 0) -> sumn K n f = 0.
Proof. intros H. rewrite (sumn_ext R K n f (fun _ => 0) H). apply (sumn_zero R K Rth). Qed.
Lemma sumn_single n i (f:nat -> R) : (i < n)%nat -> (forall j, (j < n)%nat -> j <> i -> f j = 0) -> sumn K n f = f i.
Proof.
  induction n; intros Hi Hz; [lia|]. cbn [sumn]. destruct (Nat.eq_dec i n) as [->|Hne].
  - rewrite (sumn_allz n f) by (intros k Hk; apply Hz; lia). ring.
  - rewrite IHn by (try lia; intros j Hj Hji; apply Hz; lia). rewrite (Hz n) by lia. ring.
Qed.
Lemma fmul_ediag_r n (A:fmat R) d i j : (j < n)%nat -> fm n A (ediag d) i j = A i j * d j.
Proof.
  intros Hj. unfold fmul, ediag. rewrite (sumn_single n j _ Hj).
  - rewrite Nat.eqb_refl. reflexivity.
  - intros k Hk Hne. destruct (Nat.eqb_spec k j); [contradiction|ring].
Qed.
Lemma fmul_ediag_l n d (B:fmat R) i j : (i < n)%nat -> fm n (ediag d) B i j = d i * B i j.
Proof.
  intros Hi. unfold fmul, ediag. rewrite (sumn_single n i _ Hi).
  - rewrite Nat.eqb_refl. reflexivity.
  - intros k Hk Hne. destruct (Nat.eqb_spec i k); [congruence|ring].
Qed.

(* ---------- bounded search for a non-zero entry ---------- *)
Fixpoint fnz (f:nat -> R) (n:nat) : nat :=
  match n with O => O | S m => if Rdec (f m) 0 then fnz f m else m end.
Lemma fnz_spec f n : (forall i, (i < n)%nat -> f i = 0) \/ ((fnz f n < n)%nat /\ f (fnz f n) <> 0).
Proof.
  induction n; [left; intros; lia|]. cbn [fnz]. destruct (Rdec (f n) 0) as [E|E].
  - destruct IHn as [H|[H1 H2]].
    + left. intros i Hi. destruct (Nat.eq_dec i n) as [->|Hne]; [exact E|apply H; lia].
    + right. split; [lia|exact H2].
  - right. split; [lia|exact E].
Qed.

(* ================= combinatorial core: an intertwiner U between diag(lam) and diag(d) with a left inverse ================= *)
Section Comb.
Variables (n:nat) (lam d:nat -> R) (U Wp:fmat R).
Hypothesis HU : forall i k, (i < n)%nat -> (k < n)%nat -> lam i * U i k = U i k * d k.
Hypothesis HL : feq n n (fm n Wp U) fI.

Definition simple (i:nat) : Prop := forall j, (j < n)%nat -> j <> i -> lam j <> lam i.
Definition sigma (k:nat) : nat := fnz (fun i => U i k) n.

Lemma U_support i k : (i < n)%nat -> (k < n)%nat -> U i k <> 0 -> lam i = d k.
Proof.
  intros Hi Hk Hnz.
  assert (E: (lam i - d k) * U i k = 0).
  { transitivity (lam i * U i k - U i k * d k); [ring|]. rewrite (HU i k Hi Hk). ring. }
  destruct (Hint _ _ E) as [E0|E0]; [|contradiction].
  transitivity ((lam i - d k) + d k); [ring|]. rewrite E0. ring.
Qed.

Lemma sigma_spec k : (k < n)%nat -> (sigma k < n)%nat /\ U (sigma k) k <> 0.
Proof.
  intros Hk. unfold sigma. destruct (fnz_spec (fun i => U i k) n) as [Hz|H]; [exfalso|exact H].
  pose proof (HL k k Hk Hk) as E. unfold fmul, fid in E. rewrite Nat.eqb_refl in E.
  rewrite sumn_allz in E; [apply H10; symmetry; exact E|].
  intros i Hi. cbn beta in Hz. rewrite (Hz i Hi). ring.
Qed.
Lemma sigma_eig k : (k < n)%nat -> d k = lam (sigma k).
Proof. intros Hk. destruct (sigma_spec k Hk) as [H1 H2]. symmetry. apply U_support; assumption. Qed.

(* a column that meets a simple eigenvalue is supported on that coordinate only *)
Lemma col_supp i k : (i < n)%nat -> (k < n)%nat -> simple i -> U i k <> 0 -> forall j, (j < n)%nat -> j <> i -> U j k = 0.
Proof.
  intros Hi Hk Hs Hnz j Hj Hne. destruct (Rdec (U j k) 0) as [E|E]; [exact E|exfalso].
  apply (Hs j Hj Hne). rewrite (U_support j k Hj Hk E), (U_support i k Hi Hk Hnz). reflexivity.
Qed.
Lemma sigma_simple i k : (i < n)%nat -> (k < n)%nat -> simple i -> U i k <> 0 -> sigma k = i.
Proof.
  intros Hi Hk Hs Hnz. destruct (sigma_spec k Hk) as [H1 H2].
  destruct (Nat.eq_dec (sigma k) i) as [E|E]; [exact E|exfalso].
  apply H2. apply (col_supp i k Hi Hk Hs Hnz); assumption.
Qed.
(* two columns cannot share a simple eigenvalue *)
Lemma no_share i k k' : (i < n)%nat -> (k < n)%nat -> (k' < n)%nat -> simple i -> U i k <> 0 -> U i k' <> 0 -> k = k'.
Proof.
  intros Hi Hk Hk' Hs Hnz Hnz'. destruct (Nat.eq_dec k k') as [E|Hne]; [exact E|exfalso].
  pose proof (HL k k Hk Hk) as E1. pose proof (HL k k' Hk Hk') as E2. unfold fmul, fid in E1, E2.
  rewrite Nat.eqb_refl in E1. destruct (Nat.eqb_spec k k') as [|_]; [contradiction|].
  rewrite (sumn_single n i _ Hi) in E1.
  2:{ intros j Hj Hji. rewrite (col_supp i k Hi Hk Hs Hnz j Hj Hji). ring. }
  rewrite (sumn_single n i _ Hi) in E2.
  2:{ intros j Hj Hji. rewrite (col_supp i k' Hi Hk' Hs Hnz' j Hj Hji). ring. }
  destruct (Hint _ _ E2) as [E0|E0]; [|contradiction].
  apply H10. rewrite <- E1, E0. ring.
Qed.

(* all eigenvalues simple: sigma is a bijection of [0,n) *)
Theorem comb_simple : (forall i, (i < n)%nat -> simple i) ->
  (forall k k', (k < n)%nat -> (k' < n)%nat -> sigma k = sigma k' -> k = k') /\
  (forall i, (i < n)%nat -> exists k, (k < n)%nat /\ sigma k = i) /\
  Permutation (tab n d) (tab n lam).
Proof.
  intros Hs.
  assert (Hinj: forall k k', (k < n)%nat -> (k' < n)%nat -> sigma k = sigma k' -> k = k').
  { intros k k' Hk Hk' E. destruct (sigma_spec k Hk) as [H1 H2]. destruct (sigma_spec k' Hk') as [H1' H2'].
    apply (no_share (sigma k) k k' H1 Hk Hk' (Hs _ H1) H2). rewrite E. exact H2'. }
  assert (HP: Permutation (map sigma (seq 0 n)) (seq 0 n)).
  { apply NoDup_Permutation_bis.
    - apply NoDup_map_inj; [|apply seq_NoDup].
      intros x y Hx Hy. apply in_seq in Hx. apply in_seq in Hy. apply Hinj; lia.
    - rewrite map_length. apply Nat.le_refl.
    - intros i Hi. apply in_map_iff in Hi. destruct Hi as [k [<- Hk]]. apply in_seq in Hk.
      apply in_seq. destruct (sigma_spec k) as [H1 _]; lia. }
  split; [exact Hinj|split].
  - intros i Hi. assert (Hin: In i (map sigma (seq 0 n))).
    { apply (Permutation_in i (Permutation_sym HP)). apply in_seq. lia. }
    apply in_map_iff in Hin. destruct Hin as [k [E Hk]]. apply in_seq in Hk. exists k. split; [lia|exact E].
  - unfold tab. rewrite <- (Permutation_map lam HP). rewrite map_map.
    rewrite (map_ext_in d (fun k => lam (sigma k))); [reflexivity|].
    intros k Hk. apply in_seq in Hk. apply sigma_eig. lia.
Qed.

(* the first r eigenvalues simple, the others all equal to mu: needs the right inverse as well *)
Theorem comb_border r mu : (r <= n)%nat ->
  (forall i, (i < r)%nat -> simple i) ->
  (forall i, (r <= i < n)%nat -> lam i = mu) ->
  feq n n (fm n U Wp) fI ->
  (forall k k', (k < n)%nat -> (k' < n)%nat -> (sigma k < r)%nat -> sigma k = sigma k' -> k = k') /\
  (forall i, (i < r)%nat -> exists k, (k < n)%nat /\ sigma k = i) /\
  Permutation (tab n d) (tab r lam ++ repeat mu (n - r)) /\
  Permutation (tab n d) (tab n lam).
Proof.
  intros Hr Hs Hmu HR.
  assert (Hinj: forall k k', (k < n)%nat -> (k' < n)%nat -> (sigma k < r)%nat -> sigma k = sigma k' -> k = k').
  { intros k k' Hk Hk' Hlt E. destruct (sigma_spec k Hk) as [H1 H2]. destruct (sigma_spec k' Hk') as [H1' H2'].
    apply (no_share (sigma k) k k' H1 Hk Hk' (Hs _ Hlt) H2). rewrite E. exact H2'. }
  assert (Hsur: forall i, (i < r)%nat -> exists k, (k < n)%nat /\ sigma k = i).
  { intros i Hi. assert (Hin: (i < n)%nat) by lia.
    destruct (fnz_spec (fun k => U i k) n) as [Hz|[H1 H2]].
    - exfalso. pose proof (HR i i Hin Hin) as E. unfold fmul, fid in E. rewrite Nat.eqb_refl in E.
      rewrite sumn_allz in E; [apply H10; symmetry; exact E|].
      intros k Hk. cbn beta in Hz. rewrite (Hz k Hk). ring.
    - exists (fnz (fun k => U i k) n). split; [exact H1|]. apply sigma_simple; [exact Hin|exact H1|apply Hs; exact Hi|exact H2]. }
  set (inS := fun k => Nat.ltb (sigma k) r).
  set (S := filter inS (seq 0 n)). set (Sc := filter (fun k => negb (inS k)) (seq 0 n)).
  assert (HSin: forall k, In k S <-> (k < n)%nat /\ (sigma k < r)%nat).
  { intros k. unfold S. rewrite filter_In, in_seq. unfold inS. rewrite Nat.ltb_lt. lia. }
  assert (HP: Permutation (map sigma S) (seq 0 r)).
  { apply NoDup_Permutation.
    - apply NoDup_map_inj; [|apply NoDup_filter; apply seq_NoDup].
      intros x y Hx Hy E. apply HSin in Hx. apply HSin in Hy. apply Hinj; tauto.
    - apply seq_NoDup.
    - intros i. rewrite in_map_iff, in_seq. split.
      + intros [k [<- Hk]]. apply HSin in Hk. lia.
      + intros Hi. destruct (Hsur i) as [k [Hk E]]; [lia|]. exists k. split; [exact E|]. apply HSin. lia. }
  assert (HlenS: length S = r).
  { rewrite <- (map_length sigma S). rewrite (Permutation_length HP). apply seq_length. }
  pose proof (filter_split_perm inS (seq 0 n)) as Hsplit. fold S Sc in Hsplit.
  assert (HlenSc: length Sc = (n - r)%nat).
  { pose proof (Permutation_length Hsplit) as E. rewrite seq_length, app_length in E. lia. }
  assert (HdSc: map d Sc = repeat mu (n - r)).
  { rewrite <- HlenSc. apply map_const_repeat. intros k Hk. unfold Sc in Hk. rewrite filter_In, in_seq in Hk.
    destruct Hk as [Hk Hb]. unfold inS in Hb. rewrite negb_true_iff, Nat.ltb_ge in Hb.
    rewrite (sigma_eig k) by lia. apply Hmu. destruct (sigma_spec k) as [H1 _]; lia. }
  assert (HdS: Permutation (map d S) (tab r lam)).
  { unfold tab. rewrite <- (Permutation_map lam HP). rewrite map_map.
    rewrite (map_ext_in d (fun k => lam (sigma k))); [reflexivity|].
    intros k Hk. apply HSin in Hk. apply sigma_eig. lia. }
  assert (HP1: Permutation (tab n d) (tab r lam ++ repeat mu (n - r))).
  { unfold tab at 1. rewrite (Permutation_map d Hsplit). rewrite map_app. rewrite HdSc.
    apply Permutation_app_tail. exact HdS. }
  split; [exact Hinj|split; [exact Hsur|split; [exact HP1|]]].
  rewrite HP1. unfold tab. replace n with (r + (n - r))%nat at 2 by lia. rewrite seq_app, map_app. cbn [Nat.add].
  rewrite (map_const_repeat lam mu (seq r (n - r))).
  - rewrite seq_length. reflexivity.
  - intros i Hi. apply in_seq in Hi. apply Hmu. lia.
Qed.
End Comb.

(* ================= diagonalisable A, eigen-solver output (V, d) with W V = I ================= *)
Section Diag.
Variables (n:nat) (A Phi Phii V W:fmat R) (lam d:nat -> R).
Hypothesis HPhi : feq n n (fm n A Phi) (fm n Phi (ediag lam)).
Hypothesis HPr : feq n n (fm n Phi Phii) fI.
Hypothesis HPl : feq n n (fm n Phii Phi) fI.

Lemma Phii_A : feq n n (fm n Phii A) (fm n (ediag lam) Phii).
Proof.
  assert (E1: feq n n (fm n (fm n Phii A) Phi) (ediag lam)).
  { rewrite (assoc n n n n Phii A Phi). rewrite HPhi. rewrite <- (assoc n n n n Phii Phi). rewrite HPl. apply idl. }
  rewrite <- (idr n n (fm n Phii A)). rewrite <- HPr. rewrite <- (assoc n n n n (fm n Phii A) Phi Phii).
  rewrite E1. reflexivity.
Qed.

(* every eigenvalue of A (with a non-zero eigenvector) is one of the lam_i *)
Theorem eig_in_spectrum_core (mu:R) (v:fmat R) :
  feq n 1 (fm n A v) (fscal K mu v) -> ~ feq n 1 v (fzero K) -> exists i, (i < n)%nat /\ mu = lam i.
Proof.
  intros He Hnz. set (u := fm n Phii v).
  assert (Hu: feq n 1 (fm n (ediag lam) u) (fscal K mu u)).
  { unfold u. rewrite <- (assoc n n n 1%nat (ediag lam) Phii v). rewrite <- Phii_A.
    rewrite (assoc n n n 1%nat Phii A v). rewrite He. apply (fmul_scal_r R K Rth n n 1%nat). }
  assert (Hv: feq n 1 (fm n Phi u) v).
  { unfold u. rewrite <- (assoc n n n 1%nat Phi Phii v). rewrite HPr. apply idl. }
  destruct (fnz_spec (fun i => u i 0%nat) n) as [Hz|[H1 H2]].
  - exfalso. apply Hnz. rewrite <- Hv. intros i c Hi Hc. assert (c = 0%nat) by lia; subst c.
    unfold fmul at 1, fzero. apply sumn_allz. intros k Hk. cbn beta in Hz. rewrite (Hz k Hk). ring.
  - exists (fnz (fun i => u i 0%nat) n). split; [exact H1|].
    set (i0 := fnz (fun i => u i 0%nat) n) in *. cbn beta in H2.
    pose proof (Hu i0 0%nat H1 Nat.lt_0_1) as E. rewrite (fmul_ediag_l n lam u i0 0%nat H1) in E. unfold fscal in E.
    assert (E': (lam i0 - mu) * u i0 0%nat = 0).
    { transitivity (lam i0 * u i0 0%nat - mu * u i0 0%nat); [ring|]. rewrite E. ring. }
    destruct (Hint _ _ E') as [E0|E0]; [|contradiction].
    transitivity (mu + (lam i0 - mu)); [rewrite E0; ring|ring].
Qed.

Hypothesis HV : feq n n (fm n A V) (fm n V (ediag d)).
Hypothesis HWl : feq n n (fm n W V) fI.

Definition Umat : fmat R := fm n Phii V.
Definition Wpmat : fmat R := fm n W Phi.

Lemma U_intertwine : forall i k, (i < n)%nat -> (k < n)%nat -> lam i * Umat i k = Umat i k * d k.
Proof.
  assert (E: feq n n (fm n (ediag lam) Umat) (fm n Umat (ediag d))).
  { unfold Umat. rewrite <- (assoc n n n n (ediag lam) Phii V). rewrite <- Phii_A.
    rewrite (assoc n n n n Phii A V). rewrite HV. rewrite <- (assoc n n n n Phii V). reflexivity. }
  intros i k Hi Hk. pose proof (E i k Hi Hk) as E1.
  rewrite (fmul_ediag_l n lam Umat i k Hi), (fmul_ediag_r n Umat d i k Hk) in E1. exact E1.
Qed.
Lemma Wp_U : feq n n (fm n Wpmat Umat) fI.
Proof.
  unfold Wpmat, Umat. rewrite (assoc n n n n W Phi (fm n Phii V)). rewrite <- (assoc n n n n Phi Phii V).
  rewrite HPr. rewrite (idl n n V). exact HWl.
Qed.
Lemma Phi_U : feq n n (fm n Phi Umat) V.
Proof. unfold Umat. rewrite <- (assoc n n n n Phi Phii V). rewrite HPr. apply idl. Qed.
Lemma U_Wp : feq n n (fm n V W) fI -> feq n n (fm n Umat Wpmat) fI.
Proof.
  intros HWr. unfold Wpmat, Umat. rewrite (assoc n n n n Phii V (fm n W Phi)). rewrite <- (assoc n n n n V W Phi).
  rewrite HWr. rewrite (idl n n Phi). exact HPl.
Qed.

(* column k of V is the column sigma(k) of Phi times the non-zero factor U (sigma k) k, when lam (sigma k) is simple *)
Lemma V_column k : (k < n)%nat -> simple n lam (sigma n Umat k) ->
  Umat (sigma n Umat k) k <> 0 /\ forall a, (a < n)%nat -> V a k = Phi a (sigma n Umat k) * Umat (sigma n Umat k) k.
Proof.
  intros Hk Hs. destruct (sigma_spec n Umat Wpmat Wp_U k Hk) as [H1 H2]. split; [exact H2|].
  intros a Ha. rewrite <- (Phi_U a k Ha Hk). unfold fmul at 1. apply (sumn_single n (sigma n Umat k) (fun j => Phi a j * Umat j k) H1).
  intros j Hj Hne. rewrite (col_supp n lam d Umat U_intertwine (sigma n Umat k) k H1 Hk Hs H2 j Hj Hne). ring.
Qed.
End Diag.

(* ---------- packaged statements ---------- *)
Theorem eig_in_spectrum n (A Phi Phii:fmat R) (lam:nat -> R) :
  feq n n (fm n A Phi) (fm n Phi (ediag lam)) -> feq n n (fm n Phi Phii) fI -> feq n n (fm n Phii Phi) fI ->
  forall (mu:R) (v:fmat R), feq n 1 (fm n A v) (fscal K mu v) -> ~ feq n 1 v (fzero K) -> exists i, (i < n)%nat /\ mu = lam i.
Proof. intros HPhi HPr HPl mu v. apply (eig_in_spectrum_core n A Phi Phii lam HPhi HPr HPl). Qed.

Theorem eig_count_simple n (A Phi Phii V W:fmat R) (lam d:nat -> R) :
  feq n n (fm n A Phi) (fm n Phi (ediag lam)) -> feq n n (fm n Phi Phii) fI -> feq n n (fm n Phii Phi) fI ->
  (forall i j, (i < n)%nat -> (j < n)%nat -> i <> j -> lam i <> lam j) ->
  feq n n (fm n A V) (fm n V (ediag d)) -> feq n n (fm n W V) fI ->
  exists (sg:nat -> nat) (c:nat -> R),
    (forall k, (k < n)%nat -> (sg k < n)%nat) /\
    (forall k k', (k < n)%nat -> (k' < n)%nat -> sg k = sg k' -> k = k') /\
    (forall i, (i < n)%nat -> exists k, (k < n)%nat /\ sg k = i) /\
    (forall k, (k < n)%nat -> d k = lam (sg k)) /\
    (forall k, (k < n)%nat -> c k <> 0 /\ forall a, (a < n)%nat -> V a k = Phi a (sg k) * c k) /\
    Permutation (tab n d) (tab n lam).
Proof.
  intros HPhi HPr HPl Hdist HV HWl.
  set (U := Umat n Phii V). set (Wp := Wpmat n Phi W).
  pose proof (U_intertwine n A Phi Phii V lam d HPhi HPr HPl HV) as HU. fold U in HU.
  pose proof (Wp_U n Phi Phii V W HPr HWl) as HL. fold U Wp in HL.
  assert (Hs: forall i, (i < n)%nat -> simple n lam i).
  { intros i Hi j Hj Hne. apply Hdist; assumption. }
  destruct (comb_simple n lam d U Wp HU HL Hs) as [Hinj [Hsur HP]].
  exists (sigma n U), (fun k => U (sigma n U k) k).
  split; [intros k Hk; apply (sigma_spec n U Wp HL k Hk)|].
  split; [exact Hinj|split; [exact Hsur|]].
  split; [intros k Hk; apply (sigma_eig n lam d U Wp HU HL k Hk)|].
  split; [|exact HP].
  intros k Hk. apply (V_column n A Phi Phii V W lam d HPhi HPr HPl HV HWl k Hk).
  apply Hs. apply (sigma_spec n U Wp HL k Hk).
Qed.

Theorem eig_count_border n r (mu:R) (A Phi Phii V W:fmat R) (lam d:nat -> R) :
  (r <= n)%nat ->
  feq n n (fm n A Phi) (fm n Phi (ediag lam)) -> feq n n (fm n Phi Phii) fI -> feq n n (fm n Phii Phi) fI ->
  (forall i j, (i < r)%nat -> (j < n)%nat -> i <> j -> lam i <> lam j) ->
  (forall i, (r <= i < n)%nat -> lam i = mu) ->
  feq n n (fm n A V) (fm n V (ediag d)) -> feq n n (fm n W V) fI -> feq n n (fm n V W) fI ->
  exists (sg:nat -> nat) (c:nat -> R),
    (forall k, (k < n)%nat -> (sg k < n)%nat /\ d k = lam (sg k)) /\
    (forall k k', (k < n)%nat -> (k' < n)%nat -> (sg k < r)%nat -> sg k = sg k' -> k = k') /\
    (forall i, (i < r)%nat -> exists k, (k < n)%nat /\ sg k = i) /\
    (forall k, (k < n)%nat -> (sg k < r)%nat -> c k <> 0 /\ forall a, (a < n)%nat -> V a k = Phi a (sg k) * c k) /\
    Permutation (tab n d) (tab r lam ++ repeat mu (n - r)) /\
    Permutation (tab n d) (tab n lam).
Proof.
  intros Hr HPhi HPr HPl Hdist Hmu HV HWl HWr.
  set (U := Umat n Phii V). set (Wp := Wpmat n Phi W).
  pose proof (U_intertwine n A Phi Phii V lam d HPhi HPr HPl HV) as HU. fold U in HU.
  pose proof (Wp_U n Phi Phii V W HPr HWl) as HL. fold U Wp in HL.
  pose proof (U_Wp n Phi Phii V W HPl HWr) as HR. fold U Wp in HR.
  assert (Hs: forall i, (i < r)%nat -> simple n lam i).
  { intros i Hi j Hj Hne Heq. apply (Hdist i j Hi Hj); [congruence|symmetry; exact Heq]. }
  destruct (comb_border n lam d U Wp HU HL r mu Hr Hs Hmu HR) as [Hinj [Hsur [HP1 HP2]]].
  exists (sigma n U), (fun k => U (sigma n U k) k).
  split; [intros k Hk; split; [apply (sigma_spec n U Wp HL k Hk)|apply (sigma_eig n lam d U Wp HU HL k Hk)]|].
  split; [exact Hinj|split; [exact Hsur|]].
  split; [|split; [exact HP1|exact HP2]].
  intros k Hk Hlt. apply (V_column n A Phi Phii V W lam d HPhi HPr HPl HV HWl k Hk). apply Hs. exact Hlt.
Qed.

(* the same through a similarity: (A_hat, C_hat) = (Ti A T, C T) identified instead of (A, C); the solver runs on A_hat.
   Column k of C_hat V is a non-zero multiple of the true observed shape C Phi[:, sg k]. *)
Theorem eig_count_similar l n (A Cm Ah Ch T Ti Phi Phii V W:fmat R) (lam d:nat -> R) :
  feq n n (fm n T Ti) fI -> feq n n (fm n Ti T) fI ->
  feq n n Ah (fm n Ti (fm n A T)) -> feq l n Ch (fm n Cm T) ->
  feq n n (fm n A Phi) (fm n Phi (ediag lam)) -> feq n n (fm n Phi Phii) fI -> feq n n (fm n Phii Phi) fI ->
  (forall i j, (i < n)%nat -> (j < n)%nat -> i <> j -> lam i <> lam j) ->
  feq n n (fm n Ah V) (fm n V (ediag d)) -> feq n n (fm n W V) fI ->
  exists (sg:nat -> nat) (c:nat -> R),
    (forall k, (k < n)%nat -> (sg k < n)%nat) /\
    (forall k k', (k < n)%nat -> (k' < n)%nat -> sg k = sg k' -> k = k') /\
    (forall i, (i < n)%nat -> exists k, (k < n)%nat /\ sg k = i) /\
    (forall k, (k < n)%nat -> d k = lam (sg k)) /\
    (forall k, (k < n)%nat -> c k <> 0 /\ forall i, (i < l)%nat -> fm n Ch V i k = fm n Cm Phi i (sg k) * c k) /\
    Permutation (tab n d) (tab n lam).
Proof.
  intros H1 H2 H3 H4 HPhi HPr HPl Hdist HV HWl.
  set (V' := fm n T V). set (W' := fm n W Ti).
  assert (E: feq n n (fm n A T) (fm n T Ah)).
  { rewrite H3. rewrite <- (assoc n n n n T Ti). rewrite H1. rewrite (idl n n). reflexivity. }
  assert (HV': feq n n (fm n A V') (fm n V' (ediag d))).
  { unfold V'. rewrite <- (assoc n n n n A T V). rewrite E. rewrite (assoc n n n n T Ah V).
    rewrite HV. rewrite <- (assoc n n n n T V). reflexivity. }
  assert (HW': feq n n (fm n W' V') fI).
  { unfold W', V'. rewrite (assoc n n n n W Ti). rewrite <- (assoc n n n n Ti T V).
    rewrite H2. rewrite (idl n n V). exact HWl. }
  destruct (eig_count_simple n A Phi Phii V' W' lam d HPhi HPr HPl Hdist HV' HW')
    as [sg [c [Hb [Hinj [Hsur [Hd [Hc HP]]]]]]].
  exists sg, c. split; [exact Hb|split; [exact Hinj|split; [exact Hsur|split; [exact Hd|split; [|exact HP]]]]].
  intros k Hk. destruct (Hc k Hk) as [Hc0 Hcol]. split; [exact Hc0|].
  intros i Hi.
  assert (E1: fm n Ch V i k = fm n Cm V' i k).
  { rewrite (fmul_ext R K l n n _ _ V V H4 (feq_refl R n n V) i k Hi Hk).
    unfold V'. apply (assoc l n n n Cm T V i k Hi Hk). }
  rewrite E1. unfold fmul at 1 2.
  rewrite <- (sumn_scal_r R K Rth). apply sumn_ext. intros a Ha.
  rewrite (Hcol a Ha). ring.
Qed.
End EC.

Arguments ediag {R} K d.

(* ================= where the three carrier hypotheses hold ================= *)
(* a field with decidable equality has no zero divisors *)
Section FieldDomain.
Variable R:Type. Variable K:Ops R.
Hypothesis Fth : field_theory (o0 K) (o1 K) (oadd K) (omul K) (osub K) (oopp K) (odiv K) (oinv K) (@eq R).
Hypothesis Rdec : forall x y:R, {x = y} + {x <> y}.
Add Field FfEC : Fth.
Lemma field_integral (a b:R) : omul K a b = o0 K -> a = o0 K \/ b = o0 K.
Proof.
  intros E. destruct (Rdec a (o0 K)) as [Ea|Ea]; [left; exact Ea|right].
  transitivity (odiv K (omul K a b) a); [field; exact Ea|]. rewrite E. field. exact Ea.
Qed.
Lemma field_one_neq_zero : o1 K <> o0 K.
Proof. exact (F_1_neq_0 Fth). Qed.
End FieldDomain.

(* the complexification of a formally real domain (a^2 + b^2 = 0 only for a = b = 0) is again a domain *)
Section CplxDomain.
Variable R:Type. Variable K:Ops R.
Hypothesis Rth : ring_theory (o0 K) (o1 K) (oadd K) (omul K) (osub K) (oopp K) (@eq R).
Add Ring RrECc : Rth.
Hypothesis Hint : forall a b:R, omul K a b = o0 K -> a = o0 K \/ b = o0 K.
Hypothesis H10 : o1 K <> o0 K.
Hypothesis Rdec : forall x y:R, {x = y} + {x <> y}.
Hypothesis Hreal : forall a b:R, oadd K (omul K a a) (omul K b b) = o0 K -> a = o0 K.

Lemma cnorm2_zero (x:C R) : cnorm2 K x = o0 K -> x = c0 K.
Proof.
  destruct x as [a b]. unfold cnorm2, c0; cbn [cre cim fst snd]. intros E. f_equal.
  - apply (Hreal a b). exact E.
  - apply (Hreal b a). rewrite <- E. ring.
Qed.
Lemma cplx_integral (x y:C R) : omul (COps K) x y = o0 (COps K) -> x = o0 (COps K) \/ y = o0 (COps K).
Proof.
  cbn [COps omul o0]. intros E.
  assert (En: omul K (cnorm2 K x) (cnorm2 K y) = o0 K).
  { rewrite <- (cnorm2_mul R K Rth). rewrite E. unfold cnorm2, c0; cbn [cre cim fst snd]. ring. }
  destruct (Hint _ _ En) as [E0|E0]; [left|right]; apply cnorm2_zero; exact E0.
Qed.
Lemma cplx_one_neq_zero : o1 (COps K) <> o0 (COps K).
Proof. cbn [COps o1 o0]. unfold c1, c0. intros E. apply H10. injection E as E. exact E. Qed.
Lemma cplx_dec (x y:C R) : {x = y} + {x <> y}.
Proof.
  destruct x as [a b], y as [c e]. destruct (Rdec a c) as [E1|E1]; [|right; intros E; injection E as E _; contradiction].
  destruct (Rdec b e) as [E2|E2]; [left; subst; reflexivity|right; intros E; injection E as _ E; contradiction].
Qed.
End CplxDomain.

(* the canonical rationals *)
From Coq Require Import QArith Qcanon Lqa.
Lemma qc_integral (a b:Qc) : omul QcOps a b = o0 QcOps -> a = o0 QcOps \/ b = o0 QcOps.
Proof. cbn [QcOps omul o0]. apply Qcmult_integral. Qed.
Lemma qc_one_neq_zero : o1 QcOps <> o0 QcOps.
Proof. cbn [QcOps o1 o0]. intros E. discriminate E. Qed.
Lemma q_formally_real (a b:Q) : (a * a + b * b == 0)%Q -> (a == 0)%Q.
Proof. intros E. nra. Qed.
Lemma qc_formally_real (a b:Qc) : oadd QcOps (omul QcOps a a) (omul QcOps b b) = o0 QcOps -> a = o0 QcOps.
Proof.
  cbn [QcOps oadd omul o0]. intros E. apply Qc_is_canon. apply (q_formally_real a b).
  assert (E2: ((a * a + b * b)%Qc == 0%Qc)%Q) by (rewrite E; reflexivity).
  unfold Qcplus, Qcmult in E2. unfold Q2Qc in E2. cbn [this] in E2.
  rewrite !Qred_correct in E2. exact E2.
Qed.

(* decidable pointwise equality of Qc / Gaussian-rational function matrices, for concrete instances *)
Definition ec_feqb (m n:nat) (A B:fmat Qc) : bool :=
  forallb (fun i => forallb (fun j => Qc_eq_bool (A i j) (B i j)) (seq 0 n)) (seq 0 m).
Lemma ec_feqb_sound m n A B : ec_feqb m n A B = true -> feq m n A B.
Proof.
  unfold ec_feqb. intros H i j Hi Hj. rewrite forallb_forall in H.
  assert (H1 := H i ltac:(apply in_seq; lia)). rewrite forallb_forall in H1.
  assert (H2 := H1 j ltac:(apply in_seq; lia)). apply Qc_eq_bool_correct. exact H2.
Qed.
Definition ec_cfeqb (m n:nat) (A B:fmat (C Qc)) : bool :=
  forallb (fun i => forallb (fun j => Qc_eq_bool (cre (A i j)) (cre (B i j)) && Qc_eq_bool (cim (A i j)) (cim (B i j))) (seq 0 n)) (seq 0 m).
Lemma ec_cfeqb_sound m n A B : ec_cfeqb m n A B = true -> feq m n A B.
Proof.
  unfold ec_cfeqb. intros H i j Hi Hj. rewrite forallb_forall in H.
  assert (H1 := H i ltac:(apply in_seq; lia)). rewrite forallb_forall in H1.
  assert (H2 := H1 j ltac:(apply in_seq; lia)). apply andb_true_iff in H2. destruct H2 as [Hr Hc].
  apply (c_eq Qc); apply Qc_eq_bool_correct; assumption.
Qed.
