(* Complex numbers as pairs over a carrier: Gaussian rationals execute exactly. *)
From Coq Require Import List Arith ZArith QArith Qcanon Lia Ring Field.
From PyOMA.Base Require Import Carrier.

Section C.
Variable R:Type. Variable K:Ops R.
Local Open Scope K_scope.
Notation "0" := (o0 K) : K_scope. Notation "1" := (o1 K) : K_scope.
Infix "+" := (oadd K) : K_scope. Infix "*" := (omul K) : K_scope. Infix "-" := (osub K) : K_scope.
Notation "- x" := (oopp K x) : K_scope. Infix "/" := (odiv K) : K_scope.

Definition C := (R * R)%type.
Definition cre (z:C) := fst z.
Definition cim (z:C) := snd z.
Definition c0 : C := (0, 0).
Definition c1 : C := (1, 0).
Definition cadd (x y:C) : C := (cre x + cre y, cim x + cim y).
Definition csub (x y:C) : C := (cre x - cre y, cim x - cim y).
Definition copp (x:C) : C := (- cre x, - cim x).
Definition cmul (x y:C) : C := (cre x * cre y - cim x * cim y, cre x * cim y + cim x * cre y).
Definition cconj (x:C) : C := (cre x, - cim x).
Definition cnorm2 (x:C) : R := cre x * cre x + cim x * cim x.
Definition cscal (a:R) (x:C) : C := (a * cre x, a * cim x).
Definition cinv (x:C) : C := (cre x / cnorm2 x, - cim x / cnorm2 x).
Definition cdiv (x y:C) : C := cmul x (cinv y).
Definition cofR (a:R) : C := (a, 0).

Definition COps : Ops C := {| o0:=c0; o1:=c1; oadd:=cadd; omul:=cmul; osub:=csub; oopp:=copp; odiv:=cdiv; oinv:=cinv |}.

Hypothesis Rth : ring_theory 0 1 (oadd K) (omul K) (osub K) (oopp K) (@eq R).
Add Ring RrC : Rth.

Lemma c_eq (x y:C) : cre x = cre y -> cim x = cim y -> x = y.
Proof. destruct x, y; cbn; intros -> ->; reflexivity. Qed.

Lemma CRth : ring_theory (o0 COps) (o1 COps) (oadd COps) (omul COps) (osub COps) (oopp COps) (@eq C).
Proof.
  constructor; cbn; intros; apply c_eq; cbn; ring.
Qed.

Lemma cconj_invol x : cconj (cconj x) = x.
Proof. apply c_eq; cbn; ring. Qed.
Lemma cconj_add x y : cconj (cadd x y) = cadd (cconj x) (cconj y).
Proof. apply c_eq; cbn; ring. Qed.
Lemma cconj_mul x y : cconj (cmul x y) = cmul (cconj x) (cconj y).
Proof. apply c_eq; cbn; ring. Qed.
Lemma cnorm2_mul x y : cnorm2 (cmul x y) = cnorm2 x * cnorm2 y.
Proof. unfold cnorm2; cbn; ring. Qed.
Lemma cnorm2_conj x : cnorm2 (cconj x) = cnorm2 x.
Proof. unfold cnorm2; cbn; ring. Qed.
Lemma cmul_conj x : cmul (cconj x) x = cofR (cnorm2 x).
Proof. apply c_eq; unfold cnorm2; cbn; ring. Qed.
End C.

Arguments C R : clear implicits.
Arguments cre {R} z. Arguments cim {R} z.
Arguments c0 {R} K. Arguments c1 {R} K.
Arguments cadd {R} K x y. Arguments csub {R} K x y. Arguments copp {R} K x. Arguments cmul {R} K x y.
Arguments cconj {R} K x. Arguments cnorm2 {R} K x. Arguments cscal {R} K a x. Arguments cinv {R} K x.
Arguments cdiv {R} K x y. Arguments cofR {R} K a. Arguments COps {R} K.

(* inverse law over a field in which a*a+b*b = 0 forces a = b = 0 (Qc, R) *)
Section CF.
Variable R:Type. Variable K:Ops R.
Hypothesis Fth : field_theory (o0 K) (o1 K) (oadd K) (omul K) (osub K) (oopp K) (odiv K) (oinv K) (@eq R).
Add Field FfC : Fth.
Lemma cinv_l (x:C R) : cnorm2 K x <> o0 K -> cmul K (cinv K x) x = c1 K.
Proof. destruct x as [a b]. unfold cmul, cinv, c1, cnorm2, cre, cim; cbn [fst snd]. intros H. f_equal; field; exact H. Qed.
End CF.

Definition QcC := COps QcOps.
