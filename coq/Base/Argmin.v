(* NaN-aware first-index argmin over option Q with its full specification. *)
From Coq Require Import List Arith ZArith QArith Lia Bool.
Import ListNotations.
Open Scope Q_scope.

(* first index of the minimum of (option Q) list, None = NaN skipped; returns None if all NaN *)
Fixpoint argmin_from (l:list (option Q)) (i:nat) (best:option (nat*Q)) : option (nat*Q) :=
  match l with
  | [] => best
  | None :: r => argmin_from r (S i) best
  | Some d :: r =>
      match best with
      | None => argmin_from r (S i) (Some (i,d))
      | Some (_,b) => if Qlt_le_dec d b then argmin_from r (S i) (Some (i,d)) else argmin_from r (S i) best
      end
  end.
Definition nanargmin l := argmin_from l 0%nat None.

Definition is_first_argmin (l:list (option Q)) (k:nat) (d:Q) : Prop :=
  nth_error l k = Some (Some d) /\
  (forall j e, nth_error l j = Some (Some e) -> d <= e) /\
  (forall j e, (j<k)%nat -> nth_error l j = Some (Some e) -> d < e).

Lemma argmin_from_spec : forall l i best pre,
  length pre = i ->
  match best with
  | None => forall j, (j<i)%nat -> nth_error pre j = Some None
  | Some (k,d) => is_first_argmin pre k d
  end ->
  match argmin_from l i best with
  | None => forall j, (j < i + length l)%nat -> nth_error (pre++l) j = Some None
  | Some (k,d) => is_first_argmin (pre++l) k d
  end.
Proof.
  induction l as [|x r IH]; intros i best pre Hlen Hb; cbn [argmin_from].
  - rewrite app_nil_r. destruct best as [[k d]|]; [exact Hb|]. intros j Hj. apply Hb. cbn in Hj. lia.
  - replace (pre ++ x :: r) with ((pre ++ [x]) ++ r) by (rewrite <- app_assoc; reflexivity).
    replace (i + length (x::r))%nat with (S i + length r)%nat by (cbn; lia).
    assert (Hlen' : length (pre ++ [x]) = S i) by (rewrite app_length; cbn; lia).
    destruct x as [d|].
    + destruct best as [[k b]|].
      * destruct (Qlt_le_dec d b) as [Hlt|Hle].
        -- apply (IH (S i) (Some (i,d)) (pre++[Some d]) Hlen').
           destruct Hb as (Hk & Hmin & Hfirst). repeat split.
           ++ rewrite nth_error_app2 by lia. rewrite Hlen, Nat.sub_diag. reflexivity.
           ++ intros j e Hj. destruct (Nat.lt_ge_cases j i) as [Hji|Hji].
              ** rewrite nth_error_app1 in Hj by lia. apply Qlt_le_weak. eapply Qlt_le_trans; [exact Hlt| eapply Hmin; exact Hj].
              ** rewrite nth_error_app2 in Hj by lia. destruct (j - length pre)%nat as [|m] eqn:E; cbn in Hj.
                 --- inversion Hj. apply Qle_refl.
                 --- destruct m; discriminate.
           ++ intros j e Hji Hj. rewrite nth_error_app1 in Hj by lia. eapply Qlt_le_trans; [exact Hlt| eapply Hmin; exact Hj].
        -- apply (IH (S i) (Some (k,b)) (pre++[Some d]) Hlen').
           destruct Hb as (Hk & Hmin & Hfirst).
           assert (Hki: (k < i)%nat) by (rewrite <- Hlen; apply nth_error_Some; rewrite Hk; discriminate).
           repeat split.
           ++ rewrite nth_error_app1 by lia. exact Hk.
           ++ intros j e Hj. destruct (Nat.lt_ge_cases j i) as [Hji|Hji].
              ** rewrite nth_error_app1 in Hj by lia. eapply Hmin; exact Hj.
              ** rewrite nth_error_app2 in Hj by lia. destruct (j - length pre)%nat as [|m] eqn:E; cbn in Hj.
                 --- inversion Hj; subst. exact Hle.
                 --- destruct m; discriminate.
           ++ intros j e Hjk Hj. rewrite nth_error_app1 in Hj by lia. eapply Hfirst; eassumption.
      * apply (IH (S i) (Some (i,d)) (pre++[Some d]) Hlen'). repeat split.
        ++ rewrite nth_error_app2 by lia. rewrite Hlen, Nat.sub_diag. reflexivity.
        ++ intros j e Hj. destruct (Nat.lt_ge_cases j i) as [Hji|Hji].
           ** rewrite nth_error_app1 in Hj by lia. rewrite Hb in Hj by lia. discriminate.
           ** rewrite nth_error_app2 in Hj by lia. destruct (j - length pre)%nat as [|m] eqn:E; cbn in Hj.
              --- inversion Hj. apply Qle_refl.
              --- destruct m; discriminate.
        ++ intros j e Hji Hj. rewrite nth_error_app1 in Hj by lia. rewrite Hb in Hj by lia. discriminate.
    + apply (IH (S i) best (pre++[None]) Hlen').
      destruct best as [[k b]|].
      * destruct Hb as (Hk & Hmin & Hfirst).
        assert (Hki: (k < i)%nat) by (rewrite <- Hlen; apply nth_error_Some; rewrite Hk; discriminate).
        repeat split.
        ++ rewrite nth_error_app1 by lia. exact Hk.
        ++ intros j e Hj. destruct (Nat.lt_ge_cases j i) as [Hji|Hji].
           ** rewrite nth_error_app1 in Hj by lia. eapply Hmin; exact Hj.
           ** rewrite nth_error_app2 in Hj by lia. destruct (j - length pre)%nat as [|m] eqn:E; cbn in Hj; [discriminate|destruct m; discriminate].
        ++ intros j e Hjk Hj. rewrite nth_error_app1 in Hj by lia. eapply Hfirst; eassumption.
      * intros j Hj. destruct (Nat.lt_ge_cases j i) as [Hji|Hji].
        ++ rewrite nth_error_app1 by lia. apply Hb; lia.
        ++ rewrite nth_error_app2 by lia. replace (j - length pre)%nat with 0%nat by lia. reflexivity.
Qed.

Theorem nanargmin_spec l :
  match nanargmin l with
  | None => forall j, (j < length l)%nat -> nth_error l j = Some None
  | Some (k,d) => is_first_argmin l k d
  end.
Proof. apply (argmin_from_spec l 0%nat None [] eq_refl). intros j Hj; lia. Qed.

Definition Qlt_bool (a b:Q) : bool := negb (Qle_bool b a).
Lemma Qlt_bool_iff a b : Qlt_bool a b = true <-> a < b.
Proof. unfold Qlt_bool. rewrite negb_true_iff. split.
  - intros H. apply Qnot_le_lt. intros Hle. apply Qle_bool_iff in Hle. congruence.
  - intros H. destruct (Qle_bool b a) eqn:E; [|reflexivity]. apply Qle_bool_iff in E. exfalso. apply (Qlt_not_le _ _ H E). Qed.
Lemma Qlt_bool_false_iff a b : Qlt_bool a b = false <-> b <= a.
Proof. unfold Qlt_bool. rewrite negb_false_iff. apply Qle_bool_iff. Qed.

Lemma first_argmin_unique l k d k' d' : is_first_argmin l k d -> is_first_argmin l k' d' -> k = k'.
Proof.
  intros (Hk & Hmin & Hfst) (Hk' & Hmin' & Hfst').
  destruct (Nat.lt_trichotomy k k') as [H|[H|H]]; [|exact H|]; exfalso.
  - specialize (Hfst' k d H Hk). specialize (Hmin k' d' Hk'). apply (Qlt_not_le _ _ Hfst' Hmin).
  - specialize (Hfst k' d' H Hk'). specialize (Hmin' k d Hk). apply (Qlt_not_le _ _ Hfst Hmin').
Qed.

Lemma nanargmin_some_iff l k d : is_first_argmin l k d -> exists d', nanargmin l = Some (k,d').
Proof.
  intros H. pose proof (nanargmin_spec l) as Hn. destruct (nanargmin l) as [[k' d']|].
  - assert (k' = k) by (eapply first_argmin_unique; eassumption). subst. eauto.
  - exfalso. destruct H as (Hk & _).
    assert (Hlt: (k < length l)%nat) by (apply nth_error_Some; rewrite Hk; discriminate).
    rewrite (Hn k Hlt) in Hk. discriminate.
Qed.
