(* One-line string printers for model output (nothing parses Coq's pretty-printer). *)
From Coq Require Import List ZArith QArith Qcanon String Ascii DecimalString Decimal Bool.
Import ListNotations.
Open Scope string_scope.
Definition showZ (z:Z) : string := NilEmpty.string_of_int (Z.to_int z).
Definition showN (n:nat) : string := showZ (Z.of_nat n).
Definition showQ (q:Q) : string := showZ (Qnum q) ++ "/" ++ showZ (Zpos (Qden q)).
Definition showQc (q:Qc) : string := showQ (this q).
Definition showB (b:bool) : string := if b then "T" else "F".
Fixpoint join (sep:string) (l:list string) : string := match l with [] => "" | [x] => x | x::r => x ++ sep ++ join sep r end.
Definition showL {A} (f:A->string) (sep:string) (l:list A) : string := join sep (map f l).
Definition showO {A} (f:A->string) (o:option A) : string := match o with Some x => f x | None => "nan" end.
Definition showRow (r:list Qc) := showL showQc " " r.
Definition showMat (m:list (list Qc)) := showL showRow ";" m.
Definition showC (z:Qc*Qc) : string := showQc (fst z) ++ "," ++ showQc (snd z).
Definition showCRow (r:list (Qc*Qc)) := showL showC " " r.
Definition showCMat (m:list (list (Qc*Qc))) := showL showCRow ";" m.
(* readers used in generated case files *)
Definition q (n:Z) (d:positive) : Qc := Q2Qc (n # d).
