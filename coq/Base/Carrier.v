(* Generic numeric carrier, finite sums, list <-> function bridge.
   Everything here is closed under the global context (no axioms). *)
From Coq Require Import List Arith ZArith QArith Qcanon Lia Ring Field.
Import ListNotations.

Record Ops (R:Type) := { o0:R; o1:R; oadd:R->R->R; omul:R->R->R; osub:R->R->R; oopp:R->R; odiv:R->R->R; oinv:R->R }.
Arguments o0 {R}. Arguments o1 {R}. Arguments oadd {R}. Arguments omul {R}. Arguments osub {R}.
Arguments oopp {R}. Arguments odiv {R}. Arguments oinv {R}.

Declare Scope K_scope.
Delimit Scope K_scope with K.

Section Generic.
Variable R:Type. Variable K:Ops R.
Notation "0" := (o0 K) : K_scope. Notation "1" := (o1 K) : K_scope.
Infix "+" := (oadd K) : K_scope. Infix "*" := (omul K) : K_scope. Infix "-" := (osub K) : K_scope.
Notation "- x" := (oopp K x) : K_scope. Infix "/" := (odiv K) : K_scope.

Fixpoint sumn (n:nat) (f:nat->R) : R := match n with O => 0%K | S k => (sumn k f + f k)%K end.
Definition dot (n:nat) (u v:nat->R) := sumn n (fun k => (u k * v k)%K).
Definition tab (n:nat) (f:nat->R) : list R := map f (seq 0 n).
Definition tab2 (m n:nat) (f:nat->nat->R) : list (list R) := map (fun i => tab n (f i)) (seq 0 m).
Definition lget (l:list R) (i:nat) : R := nth i l 0%K.
Definition ent (M:list (list R)) (i j:nat) : R := nth j (nth i M []) 0%K.
Definition mmul (m n p:nat) (A B:list (list R)) := tab2 m p (fun i j => sumn n (fun k => (ent A i k * ent B k j)%K)).

Lemma tab_length n f : length (tab n f) = n.
Proof. unfold tab. rewrite map_length, seq_length. reflexivity. Qed.
Lemma tab2_length m n f : length (tab2 m n f) = m.
Proof. unfold tab2. rewrite map_length, seq_length. reflexivity. Qed.

Lemma lget_tab n f i : (i<n)%nat -> lget (tab n f) i = f i.
Proof.
  intros Hi. unfold lget, tab.
  rewrite nth_indep with (d':= f 0%nat) by (rewrite map_length, seq_length; lia).
  rewrite map_nth, seq_nth by lia. reflexivity.
Qed.

Lemma nth_tab2 m n f i : (i<m)%nat -> nth i (tab2 m n f) [] = tab n (f i).
Proof.
  intros Hi. unfold tab2.
  rewrite nth_indep with (d':= tab n (f 0%nat)) by (rewrite map_length, seq_length; lia).
  change (tab n (f 0%nat)) with ((fun i0 => tab n (f i0)) 0%nat).
  rewrite map_nth, seq_nth by lia. reflexivity.
Qed.

Lemma ent_tab2 m n f i j : (i<m)%nat -> (j<n)%nat -> ent (tab2 m n f) i j = f i j.
Proof.
  intros Hi Hj. unfold ent. rewrite nth_tab2 by assumption. apply (lget_tab n (f i) j Hj).
Qed.

Lemma sumn_ext n f g : (forall k, (k<n)%nat -> f k = g k) -> sumn n f = sumn n g.
Proof. induction n; cbn; intros H; [reflexivity|]. rewrite IHn, H by (intros; try apply H; lia). reflexivity. Qed.

Hypothesis Rth : ring_theory 0%K 1%K (oadd K) (omul K) (osub K) (oopp K) (@eq R).
Add Ring Rr : Rth.

Lemma sumn_zero n : sumn n (fun _ => 0%K) = 0%K.
Proof. induction n; cbn; [reflexivity|]. rewrite IHn. ring. Qed.
Lemma sumn_add n f g : sumn n (fun k => (f k + g k)%K) = (sumn n f + sumn n g)%K.
Proof. induction n; cbn; [ring|]. rewrite IHn. ring. Qed.
Lemma sumn_sub n f g : sumn n (fun k => (f k - g k)%K) = (sumn n f - sumn n g)%K.
Proof. induction n; cbn; [ring|]. rewrite IHn. ring. Qed.
Lemma sumn_opp n f : sumn n (fun k => (- f k)%K) = (- sumn n f)%K.
Proof. induction n; cbn; [ring|]. rewrite IHn. ring. Qed.
Lemma sumn_scal n c f : sumn n (fun k => (c * f k)%K) = (c * sumn n f)%K.
Proof. induction n; cbn; [ring|]. rewrite IHn. ring. Qed.
Lemma sumn_scal_r n c f : sumn n (fun k => (f k * c)%K) = (sumn n f * c)%K.
Proof. induction n; cbn; [ring|]. rewrite IHn. ring. Qed.
Lemma sumn_swap m n (f:nat->nat->R) : sumn m (fun i => sumn n (fun j => f i j)) = sumn n (fun j => sumn m (fun i => f i j)).
Proof. induction m; cbn. - induction n; cbn; [reflexivity|]. rewrite <- IHn. ring.
  - rewrite IHm. rewrite <- sumn_add. reflexivity. Qed.
Lemma sumn_split a b (h:nat->R) : sumn (a+b) h = (sumn a h + sumn b (fun i => h (a+i)%nat))%K.
Proof. induction b; cbn [sumn]. - rewrite Nat.add_0_r. ring.
  - replace (a + S b)%nat with (S (a+b)) by lia. cbn [sumn]. rewrite IHb. ring. Qed.
Lemma sumn_S_l n (h:nat->R) : sumn (S n) h = (h 0%nat + sumn n (fun t => h (S t)))%K.
Proof. induction n; cbn [sumn]; [ring|]. cbn [sumn] in IHn. rewrite IHn. ring. Qed.
Lemma sumn_blocks m n (f:nat->R) : sumn (n*m) f = sumn n (fun j => sumn m (fun i => f (j*m+i)%nat)).
Proof. induction n; cbn [Nat.mul sumn]; [reflexivity|].
  replace (m + n*m)%nat with (n*m + m)%nat by lia. rewrite sumn_split, IHn. reflexivity. Qed.
Lemma sumn_delta n j f : (j<n)%nat -> sumn n (fun k => ((if Nat.eqb k j then 1 else 0) * f k)%K) = f j.
Proof.
  induction n; intros Hj; [lia|]. cbn [sumn]. destruct (Nat.eqb_spec n j) as [->|Hne].
  - assert (E: sumn j (fun k => ((if Nat.eqb k j then 1 else 0) * f k)%K) = 0%K).
    { clear IHn Hj. assert (G: forall m, (m <= j)%nat -> sumn m (fun k => ((if Nat.eqb k j then 1 else 0) * f k)%K) = 0%K).
      { induction m; intros Hm; cbn [sumn]; [reflexivity|]. rewrite IHm by lia.
        destruct (Nat.eqb_spec m j); [lia|]. ring. }
      apply G; lia. }
    rewrite E. ring.
  - rewrite IHn by lia. ring.
Qed.

Theorem mmul_assoc m n p q A B C i j : (i<m)%nat -> (j<q)%nat ->
  ent (mmul m p q (mmul m n p A B) C) i j = ent (mmul m n q A (mmul n p q B C)) i j.
Proof.
  intros Hi Hj. unfold mmul. rewrite !ent_tab2 by assumption.
  transitivity (sumn p (fun k => sumn n (fun l => (ent A i l * ent B l k * ent C k j)%K))).
  - apply sumn_ext; intros k Hk. rewrite ent_tab2 by assumption. rewrite <- sumn_scal_r. reflexivity.
  - rewrite sumn_swap. apply sumn_ext; intros l Hl. rewrite ent_tab2 by assumption.
    rewrite <- sumn_scal. apply sumn_ext; intros k Hk. ring.
Qed.
End Generic.

Arguments sumn {R} K n f.
Arguments dot {R} K n u v.
Arguments tab {R} n f.
Arguments tab2 {R} m n f.
Arguments lget {R} K l i.
Arguments ent {R} K M i j.
Arguments mmul {R} K m n p A B.

(* Executable instance: canonical rationals (Leibniz equality, closed laws). *)
Definition QcOps : Ops Qc := {| o0:=0%Qc; o1:=1%Qc; oadd:=Qcplus; omul:=Qcmult; osub:=Qcminus; oopp:=Qcopp; odiv:=Qcdiv; oinv:=Qcinv |}.
Lemma QcRth : ring_theory (o0 QcOps) (o1 QcOps) (oadd QcOps) (omul QcOps) (osub QcOps) (oopp QcOps) eq.
Proof. exact Qcrt. Qed.
Lemma QcFth : field_theory (o0 QcOps) (o1 QcOps) (oadd QcOps) (omul QcOps) (osub QcOps) (oopp QcOps) (odiv QcOps) (oinv QcOps) eq.
Proof. exact Qcft. Qed.
Definition ZOps : Ops Z := {| o0:=0%Z; o1:=1%Z; oadd:=Z.add; omul:=Z.mul; osub:=Z.sub; oopp:=Z.opp; odiv:=Z.div; oinv:=fun x => x |}.
Lemma ZRth : ring_theory (o0 ZOps) (o1 ZOps) (oadd ZOps) (omul ZOps) (osub ZOps) (oopp ZOps) eq.
Proof. exact Zth. Qed.
