(* Function matrices with explicit dimensions and pointwise equality on the index range. *)
From Coq Require Import List Arith Lia Ring Setoid Morphisms.
From PyOMA.Base Require Import Carrier.

Section FM.
Variable R:Type. Variable K:Ops R.
Hypothesis Rth : ring_theory (o0 K) (o1 K) (oadd K) (omul K) (osub K) (oopp K) (@eq R).
Add Ring RrFM : Rth.
Local Open Scope K_scope.
Notation "0" := (o0 K) : K_scope. Notation "1" := (o1 K) : K_scope.
Infix "+" := (oadd K) : K_scope. Infix "*" := (omul K) : K_scope. Infix "-" := (osub K) : K_scope.

Definition fmat := nat -> nat -> R.
Definition feq (m n:nat) (A B:fmat) := forall i j, (i<m)%nat -> (j<n)%nat -> A i j = B i j.
Definition fmul (n:nat) (A B:fmat) : fmat := fun i j => sumn K n (fun k => A i k * B k j).
Definition fid : fmat := fun i j => if Nat.eqb i j then 1 else 0.
Definition ftr (A:fmat) : fmat := fun i j => A j i.
Definition fadd (A B:fmat) : fmat := fun i j => A i j + B i j.
Definition fsub (A B:fmat) : fmat := fun i j => A i j - B i j.
Definition fscal (c:R) (A:fmat) : fmat := fun i j => c * A i j.
Definition fzero : fmat := fun _ _ => 0.

Lemma feq_refl m n A : feq m n A A. Proof. intros i j _ _; reflexivity. Qed.
Lemma feq_sym m n A B : feq m n A B -> feq m n B A. Proof. intros H i j Hi Hj; symmetry; auto. Qed.
Lemma feq_trans m n A B C : feq m n A B -> feq m n B C -> feq m n A C.
Proof. intros H1 H2 i j Hi Hj; rewrite H1, H2; auto. Qed.
Global Instance feq_equiv m n : Equivalence (feq m n).
Proof. split; [intros A; apply feq_refl | intros A B; apply feq_sym | intros A B C; apply feq_trans]. Qed.

Lemma fmul_ext m n p A A' B B' : feq m n A A' -> feq n p B B' -> feq m p (fmul n A B) (fmul n A' B').
Proof. intros HA HB i j Hi Hj. unfold fmul. apply sumn_ext; intros k Hk. rewrite HA, HB; auto. Qed.
Global Instance fmul_proper m n p : Proper (feq m n ==> feq n p ==> feq m p) (fmul n).
Proof. intros A A' HA B B' HB. apply (fmul_ext m n p); assumption. Qed.
Global Instance ftr_proper m n : Proper (feq m n ==> feq n m) ftr.
Proof. intros A B H i j Hi Hj. unfold ftr. apply H; assumption. Qed.
Global Instance fadd_proper m n : Proper (feq m n ==> feq m n ==> feq m n) fadd.
Proof. intros A A' HA B B' HB i j Hi Hj. unfold fadd. rewrite HA, HB; auto. Qed.
Global Instance fsub_proper m n : Proper (feq m n ==> feq m n ==> feq m n) fsub.
Proof. intros A A' HA B B' HB i j Hi Hj. unfold fsub. rewrite HA, HB; auto. Qed.
Global Instance fscal_proper m n c : Proper (feq m n ==> feq m n) (fscal c).
Proof. intros A A' HA i j Hi Hj. unfold fscal. rewrite HA; auto. Qed.

Lemma fmul_assoc m n p q A B C : feq m q (fmul p (fmul n A B) C) (fmul n A (fmul p B C)).
Proof.
  intros i j Hi Hj. unfold fmul.
  transitivity (sumn K p (fun k => sumn K n (fun l => A i l * B l k * C k j))).
  - apply sumn_ext; intros k Hk. rewrite <- (sumn_scal_r R K Rth). reflexivity.
  - rewrite (sumn_swap R K Rth). apply sumn_ext; intros l Hl.
    rewrite <- (sumn_scal R K Rth). apply sumn_ext; intros k Hk. ring.
Qed.
Lemma fmul_id_l m n A : feq m n (fmul m fid A) A.
Proof. intros i j Hi Hj. unfold fmul, fid.
  rewrite (sumn_ext R K m _ (fun k => (if Nat.eqb k i then 1 else 0) * A k j)).
  - apply (sumn_delta R K Rth m i (fun k => A k j)); assumption.
  - intros k Hk. rewrite Nat.eqb_sym. reflexivity. Qed.
Lemma fmul_id_r m n A : feq m n (fmul n A fid) A.
Proof. intros i j Hi Hj. unfold fmul, fid.
  rewrite (sumn_ext R K n _ (fun k => (if Nat.eqb k j then 1 else 0) * A i k)).
  - apply (sumn_delta R K Rth n j (fun k => A i k)); assumption.
  - intros k Hk. ring. Qed.
Lemma ftr_fmul m n p A B : feq p m (ftr (fmul n A B)) (fmul n (ftr B) (ftr A)).
Proof. intros i j Hi Hj. unfold ftr, fmul. apply sumn_ext; intros k Hk. ring. Qed.
Lemma ftr_ftr m n A : feq m n (ftr (ftr A)) A. Proof. intros i j _ _. reflexivity. Qed.
Lemma ftr_fid n : feq n n (ftr fid) fid.
Proof. intros i j _ _. unfold ftr, fid. rewrite Nat.eqb_sym. reflexivity. Qed.
Lemma fmul_add_l m n p A B C : feq m p (fmul n (fadd A B) C) (fadd (fmul n A C) (fmul n B C)).
Proof. intros i j Hi Hj. unfold fmul, fadd. rewrite <- (sumn_add R K Rth). apply sumn_ext; intros; ring. Qed.
Lemma fmul_add_r m n p A B C : feq m p (fmul n A (fadd B C)) (fadd (fmul n A B) (fmul n A C)).
Proof. intros i j Hi Hj. unfold fmul, fadd. rewrite <- (sumn_add R K Rth). apply sumn_ext; intros; ring. Qed.
Lemma fmul_sub_l m n p A B C : feq m p (fmul n (fsub A B) C) (fsub (fmul n A C) (fmul n B C)).
Proof. intros i j Hi Hj. unfold fmul, fsub. rewrite <- (sumn_sub R K Rth). apply sumn_ext; intros; ring. Qed.
Lemma fmul_sub_r m n p A B C : feq m p (fmul n A (fsub B C)) (fsub (fmul n A B) (fmul n A C)).
Proof. intros i j Hi Hj. unfold fmul, fsub. rewrite <- (sumn_sub R K Rth). apply sumn_ext; intros; ring. Qed.
Lemma fmul_scal_r m n p c A B : feq m p (fmul n A (fscal c B)) (fscal c (fmul n A B)).
Proof. intros i j Hi Hj. unfold fmul, fscal. rewrite <- (sumn_scal R K Rth). apply sumn_ext; intros; ring. Qed.
Lemma fmul_scal_l m n p c A B : feq m p (fmul n (fscal c A) B) (fscal c (fmul n A B)).
Proof. intros i j Hi Hj. unfold fmul, fscal. rewrite <- (sumn_scal R K Rth). apply sumn_ext; intros; ring. Qed.
Lemma fmul_zero_r m n p A : feq m p (fmul n A fzero) fzero.
Proof. intros i j _ _. unfold fmul, fzero. induction n; cbn; [reflexivity|]. rewrite IHn. ring. Qed.
Lemma fmul_zero_l m n p A : feq m p (fmul n fzero A) fzero.
Proof. intros i j _ _. unfold fmul, fzero. induction n; cbn; [reflexivity|]. rewrite IHn. ring. Qed.
Lemma fadd_zero_r m n A : feq m n (fadd A fzero) A.
Proof. intros i j _ _. unfold fadd, fzero. ring. Qed.
Lemma fadd_zero_l m n A : feq m n (fadd fzero A) A.
Proof. intros i j _ _. unfold fadd, fzero. ring. Qed.

(* shift invariance: any basis of the observability column space gives a similar state matrix *)
Theorem shift_invariance_similarity m n (O1 O2 A T Ti L : fmat) :
  feq m n O2 (fmul n O1 A) ->
  feq n n (fmul n T Ti) fid ->
  feq n n (fmul m L (fmul n O1 T)) fid ->
  feq n n (fmul m L (fmul n O2 T)) (fmul n Ti (fmul n A T)).
Proof.
  intros H2 HT HL.
  rewrite H2. rewrite (fmul_assoc m n n n O1 A T).
  rewrite <- (fmul_id_l n n (fmul n A T)) at 1. rewrite <- HT.
  rewrite (fmul_assoc n n n n T Ti (fmul n A T)).
  rewrite <- (fmul_assoc m n n n O1 T).
  rewrite <- (fmul_assoc n m n n L).
  rewrite HL. apply fmul_id_l.
Qed.
End FM.

Arguments fmat R : clear implicits.
Arguments feq {R} m n A B.
Arguments fmul {R} K n A B.
Arguments fid {R} K.
Arguments ftr {R} A.
Arguments fadd {R} K A B.
Arguments fsub {R} K A B.
Arguments fscal {R} K c A.
Arguments fzero {R} K.
