(* Dimension theory over function matrices on a generic field with decidable equality.

   Carrier: (R, K:Ops R) with  Fth : field_theory ...  and  Rdec : forall x y:R, {x = y} + {x <> y}  - nothing else.
   This holds at Qc (QcFth, Qc_eq_dec), classically at the reals (Rfield, Req_EM_T), and at the complexification
   C R / COps K of a formally real field (cplx_field_theory below + EigCount.cplx_dec), so every theorem of Section Dim can
   be instantiated at COps K (Section CplxField does it for the main ones).
   All matrices are function matrices (Base/FMat.v); all statements are about the m x n window (feq), the matrices
   may hold anything outside it.

   (D1) lin_dep            : any n+1 vectors of K^n are linearly dependent (Steinitz);  lin_dep_gen : any m > n vectors.
   (D2) left_inv_is_right_inv / right_inv_is_left_inv : for n x n matrices  B A = I  <->  A B = I;
        inv_unique, left_inv_unique : the inverse is unique on the window.
   (D3) indep_two_sided    : n independent columns of K^n form a two-sided invertible matrix;
        right_inv_of_indep / left_inv_cols_indep : the two halves;  cols_indep_iff_inv : the equivalence.
   (D4) eig_indep          : eigenvectors (non-zero on the window) for pairwise different eigenvalues are independent;
        eig_indep_border   : the same when only the first r eigenvalues differ from all others and the remaining columns
                             are known to be independent among themselves (companion matrix with a zero border);
        modal_basis_exists        : n eigenpairs with pairwise different eigenvalues give  A Phi = Phi diag(lam)  with a two-sided
                             inverse Phii of the modal matrix - the witness C01_multiplicity / C01_no_spurious_pole /
                             C03_multiplicity / C05_pole_count take as hypothesis (ediag is convertible with the fdiag's);
        modal_basis_list   : the same from a NoDup list of n eigenvalues each having some eigenvector;
        spectrum_complete  : ... and then A has no other eigenvalue (with EigCount.eig_in_spectrum);
        spectrum_complete_similar : nor has any  Ti A T  with  T Ti = I.
   (D5) orth_square        : V^T V = I -> V V^T = I  for square V;  inv_transpose;
        svd_subspace_unique: two singular value decompositions of one matrix, truncated at an order that separates the
                             SQUARED retained values from the squared discarded ones, span the same column space.
   cplx_field_theory       : COps K is a field when K is a formally real field.
   Everything here is closed under the global context. *)
From Coq Require Import List Arith Lia Ring Field Setoid Morphisms Permutation Bool.
From PyOMA.Base Require Import Carrier FMat Cplx EigCount.
Import ListNotations.

(* ---------- finite choice (constructive: induction on the bound) ---------- *)
Lemma fin_choice (T:Type) (d:T) (Q:nat -> T -> Prop) (n:nat) :
  (forall j, (j < n)%nat -> exists x, Q j x) -> exists f:nat -> T, forall j, (j < n)%nat -> Q j (f j).
Proof.
  induction n as [|n IH]; intros H.
  - exists (fun _ => d). intros j Hj. lia.
  - destruct IH as [f Hf]; [intros j Hj; apply H; lia|].
    destruct (H n (Nat.lt_succ_diag_r n)) as [x Hx].
    exists (fun j => if Nat.eqb j n then x else f j). intros j Hj.
    destruct (Nat.eqb_spec j n) as [->|Hne]; [exact Hx|apply Hf; lia].
Qed.

Lemma tab_lget_id {X:Type} (d:X) (l:list X) : map (fun k => nth k l d) (seq 0 (length l)) = l.
Proof.
  apply (nth_ext _ _ d d).
  - rewrite map_length, seq_length. reflexivity.
  - intros i Hi. rewrite map_length, seq_length in Hi.
    rewrite (nth_indep _ d (nth 0 l d)) by (rewrite map_length, seq_length; exact Hi).
    change (nth 0 l d) with ((fun k => nth k l d) 0%nat). rewrite map_nth, seq_nth by exact Hi. reflexivity.
Qed.

Section Dim.
Variable R:Type. Variable K:Ops R.
Hypothesis Fth : field_theory (o0 K) (o1 K) (oadd K) (omul K) (osub K) (oopp K) (odiv K) (oinv K) (@eq R).
Hypothesis Rdec : forall x y:R, {x = y} + {x <> y}.
Add Field FfDim : Fth.
Local Open Scope K_scope.
Notation "0" := (o0 K) : K_scope. Notation "1" := (o1 K) : K_scope.
Infix "+" := (oadd K) : K_scope. Infix "*" := (omul K) : K_scope. Infix "-" := (osub K) : K_scope.
Notation "- x" := (oopp K x) : K_scope. Infix "/" := (odiv K) : K_scope.
Notation fm := (fmul K). Notation fI := (fid K).
Let Rth : ring_theory 0 1 (oadd K) (omul K) (osub K) (oopp K) (@eq R) := F_R Fth.
Let assoc := fmul_assoc R K Rth.
Let idl := fmul_id_l R K Rth.
Let idr := fmul_id_r R K Rth.
Let Hint : forall a b:R, a * b = 0 -> a = 0 \/ b = 0 := field_integral R K Fth Rdec.
Let H10 : 1 <> 0 := field_one_neq_zero R K Fth.

Lemma dim_sumn_S n (f:nat -> R) : sumn K (S n) f = sumn K n f + f n.
Proof. reflexivity. Qed.

(* ================= (D1) Steinitz: n+1 vectors of K^n are dependent ================= *)
(* v k i = i-th coordinate of the k-th vector.  Induction on n: if the last vector vanishes on the window it is itself a
   dependence; otherwise it has a non-zero coordinate q, which is eliminated from the others, and the remaining n-1
   coordinates (re-indexed by dim_skip q) fall under the induction hypothesis. *)
Definition dim_skip (q i:nat) : nat := if Nat.ltb i q then i else S i.

Theorem lin_dep : forall (n:nat) (v:nat -> nat -> R),
  exists c:nat -> R, (exists k, (k <= n)%nat /\ c k <> 0) /\
    forall i, (i < n)%nat -> sumn K (S n) (fun k => c k * v k i) = 0.
Proof.
  induction n as [|n IH]; intros v.
  - exists (fun _ => 1). split; [exists 0%nat; split; [lia|exact H10]|intros i Hi; lia].
  - destruct (fnz_spec R K Rdec (fun i => v (S n) i) (S n)) as [Hz|[Hq1 Hq2]].
    + exists (fun k => if Nat.eqb k (S n) then 1 else 0). split.
      * exists (S n). split; [lia|]. rewrite Nat.eqb_refl. exact H10.
      * intros i Hi. rewrite (dim_sumn_S (S n)). rewrite Nat.eqb_refl. cbn beta in Hz. rewrite (Hz i Hi).
        rewrite (sumn_allz R K Rth (S n)); [ring|].
        intros k Hk. destruct (Nat.eqb_spec k (S n)); [lia|ring].
    + set (q := fnz R K Rdec (fun i => v (S n) i) (S n)) in *. cbn beta in Hq2.
      set (p := v (S n) q) in *.
      set (w := fun k i => v k (dim_skip q i) - (v k q / p) * v (S n) (dim_skip q i)).
      destruct (IH w) as [c [[k0 [Hk0 Hc0]] Hc]].
      assert (Hall: forall i, (i < S n)%nat ->
                sumn K (S n) (fun k => c k * (v k i - (v k q / p) * v (S n) i)) = 0).
      { intros i Hi. destruct (Nat.eq_dec i q) as [->|Hne].
        - apply (sumn_allz R K Rth). intros k Hk. fold p. field. exact Hq2.
        - destruct (Nat.ltb_spec i q) as [Hlt|Hge].
          + assert (Hin: (i < n)%nat) by lia. pose proof (Hc i Hin) as E. unfold w, dim_skip in E.
            destruct (Nat.ltb_spec i q); [exact E|lia].
          + assert (Hin: (i - 1 < n)%nat) by lia. pose proof (Hc (i - 1)%nat Hin) as E. unfold w, dim_skip in E.
            destruct (Nat.ltb_spec (i - 1) q); [lia|].
            replace (S (i - 1)) with i in E by lia. exact E. }
      set (t := sumn K (S n) (fun k => c k * (v k q / p))).
      exists (fun k => if Nat.eqb k (S n) then - t else c k). split.
      * exists k0. split; [lia|]. destruct (Nat.eqb_spec k0 (S n)); [lia|exact Hc0].
      * intros i Hi. rewrite (dim_sumn_S (S n)). rewrite Nat.eqb_refl.
        rewrite (sumn_ext R K (S n) _ (fun k => c k * v k i)).
        2:{ intros k Hk. destruct (Nat.eqb_spec k (S n)); [lia|reflexivity]. }
        rewrite <- (Hall i Hi).
        rewrite (sumn_ext R K (S n) (fun k => c k * (v k i - (v k q / p) * v (S n) i))
                   (fun k => c k * v k i - (c k * (v k q / p)) * v (S n) i)) by (intros; ring).
        rewrite (sumn_sub R K Rth), (sumn_scal_r R K Rth). fold t. ring.
Qed.

(* any m > n vectors of K^n are dependent *)
Corollary lin_dep_gen : forall (n m:nat) (v:nat -> nat -> R), (n < m)%nat ->
  exists c:nat -> R, (exists k, (k < m)%nat /\ c k <> 0) /\
    forall i, (i < n)%nat -> sumn K m (fun k => c k * v k i) = 0.
Proof.
  intros n m v Hm. destruct (lin_dep n v) as [c [[k0 [Hk0 Hc0]] Hc]].
  exists (fun k => if Nat.leb k n then c k else 0). split.
  - exists k0. split; [lia|]. destruct (Nat.leb_spec k0 n); [exact Hc0|lia].
  - intros i Hi. replace m with (S n + (m - S n))%nat by lia. rewrite (sumn_split R K Rth).
    rewrite (sumn_ext R K (S n) _ (fun k => c k * v k i)).
    2:{ intros k Hk. destruct (Nat.leb_spec k n); [reflexivity|lia]. }
    rewrite (Hc i Hi). rewrite (sumn_allz R K Rth); [ring|].
    intros k Hk. destruct (Nat.leb_spec (S n + k) n); [lia|ring].
Qed.

(* ================= (D3) independent columns <-> invertible ================= *)
(* the m columns of the n-row matrix P are independent: no non-trivial combination vanishes on the window *)
Definition cols_indep (n m:nat) (P:fmat R) : Prop :=
  forall c:nat -> R, (forall i, (i < n)%nat -> sumn K m (fun k => P i k * c k) = 0) -> forall k, (k < m)%nat -> c k = 0.

Lemma cols_indep_ext n m P P' : feq n m P P' -> cols_indep n m P -> cols_indep n m P'.
Proof.
  intros E H c Hc. apply H. intros i Hi. rewrite <- (Hc i Hi). apply sumn_ext. intros k Hk. rewrite (E i k Hi Hk). reflexivity.
Qed.

(* a matrix with a left inverse has independent columns (any shape: B is m x n, A is n x m) *)
Lemma left_inv_cols_indep n m (A B:fmat R) : feq m m (fm n B A) fI -> cols_indep n m A.
Proof.
  intros HB c Hc k Hk.
  set (Cm := (fun (a _:nat) => c a) : fmat R).
  assert (E0: feq n 1 (fm m A Cm) (fzero K)).
  { intros i j Hi Hj. unfold fmul, fzero, Cm. apply Hc. exact Hi. }
  assert (E: feq m 1 Cm (fzero K)).
  { rewrite <- (idl m 1%nat Cm). rewrite <- HB. rewrite (assoc m n m 1%nat B A Cm). rewrite E0.
    apply (fmul_zero_r R K Rth). }
  exact (E k 0%nat Hk Nat.lt_0_1).
Qed.

(* n independent columns of K^n: every unit vector is a combination of them, i.e. P has a right inverse *)
Lemma right_inv_of_indep n (P:fmat R) : cols_indep n n P -> exists X:fmat R, feq n n (fm n P X) fI.
Proof.
  intros HP.
  assert (Hcol: forall j, (j < n)%nat -> exists x:nat -> R, forall i, (i < n)%nat -> sumn K n (fun k => P i k * x k) = fI i j).
  { intros j Hj.
    destruct (lin_dep n (fun k i => if Nat.ltb k n then P i k else fI i j)) as [c [[k0 [Hk0 Hc0]] Hc]].
    assert (Hc': forall i, (i < n)%nat -> sumn K n (fun k => c k * P i k) + c n * fI i j = 0).
    { intros i Hi. rewrite <- (Hc i Hi). rewrite (dim_sumn_S n). rewrite Nat.ltb_irrefl. f_equal.
      apply sumn_ext. intros k Hk. destruct (Nat.ltb_spec k n); [reflexivity|lia]. }
    destruct (Rdec (c n) 0) as [Hcn|Hcn].
    - exfalso. assert (Hz: forall k, (k < n)%nat -> c k = 0).
      { apply HP. intros i Hi. rewrite <- (Hc' i Hi). rewrite Hcn.
        rewrite (sumn_ext R K n _ (fun k => c k * P i k)) by (intros; ring). ring. }
      destruct (Nat.eq_dec k0 n) as [->|Hne]; [exact (Hc0 Hcn)|apply Hc0; apply Hz; lia].
    - exists (fun k => - (c k / c n)). intros i Hi.
      rewrite (sumn_ext R K n _ (fun k => (c k * P i k) * (- (1 / c n)))) by (intros; field; exact Hcn).
      rewrite (sumn_scal_r R K Rth).
      transitivity ((sumn K n (fun k => c k * P i k) + c n * fI i j) * (- (1 / c n)) + fI i j); [field; exact Hcn|].
      rewrite (Hc' i Hi). ring. }
  destruct (fin_choice (nat -> R) (fun _ => 0) _ n Hcol) as [f Hf].
  exists (fun k j => f j k). intros i j Hi Hj. unfold fmul. exact (Hf j Hj i Hi).
Qed.

Theorem indep_two_sided n (P:fmat R) : cols_indep n n P ->
  exists Pi:fmat R, feq n n (fm n P Pi) fI /\ feq n n (fm n Pi P) fI.
Proof.
  intros HP. destruct (right_inv_of_indep n P HP) as [X HX].
  pose proof (left_inv_cols_indep n n X P HX) as HXi.
  destruct (right_inv_of_indep n X HXi) as [Y HY].
  assert (E: feq n n P Y).
  { rewrite <- (idr n n P). rewrite <- HY. rewrite <- (assoc n n n n P X Y). rewrite HX. apply idl. }
  exists X. split; [exact HX|]. rewrite E. exact HY.
Qed.

(* ================= (D2) square matrices: a left inverse is a right inverse ================= *)
Theorem left_inv_is_right_inv n (A B:fmat R) : feq n n (fm n B A) fI -> feq n n (fm n A B) fI.
Proof.
  intros HB. destruct (indep_two_sided n A (left_inv_cols_indep n n A B HB)) as [X [HX1 HX2]].
  assert (E: feq n n B X).
  { rewrite <- (idr n n B). rewrite <- HX1. rewrite <- (assoc n n n n B A X). rewrite HB. apply idl. }
  rewrite E. exact HX1.
Qed.
Corollary right_inv_is_left_inv n (A B:fmat R) : feq n n (fm n A B) fI -> feq n n (fm n B A) fI.
Proof. apply left_inv_is_right_inv. Qed.

Corollary cols_indep_iff_inv n (P:fmat R) :
  cols_indep n n P <-> exists Pi:fmat R, feq n n (fm n P Pi) fI /\ feq n n (fm n Pi P) fI.
Proof.
  split; [apply indep_two_sided|]. intros [Pi [_ H]]. exact (left_inv_cols_indep n n P Pi H).
Qed.

(* inverses are unique on the window, and either one-sided inverse is THE inverse *)
Corollary inv_unique n (A B B':fmat R) : feq n n (fm n B A) fI -> feq n n (fm n A B') fI -> feq n n B B'.
Proof.
  intros H1 H2. rewrite <- (idr n n B). rewrite <- H2. rewrite <- (assoc n n n n B A B'). rewrite H1. apply idl.
Qed.
Corollary left_inv_unique n (A B B':fmat R) : feq n n (fm n B A) fI -> feq n n (fm n B' A) fI -> feq n n B B'.
Proof. intros H1 H2. apply (inv_unique n A B B' H1). apply left_inv_is_right_inv. exact H2. Qed.

(* ================= (D5) orthogonal square matrices ================= *)
Corollary orth_square n (V:fmat R) : feq n n (fm n (ftr V) V) fI -> feq n n (fm n V (ftr V)) fI.
Proof. apply left_inv_is_right_inv. Qed.
Corollary inv_transpose n (A B:fmat R) : feq n n (fm n B A) fI ->
  feq n n (fm n (ftr A) (ftr B)) fI /\ feq n n (fm n (ftr B) (ftr A)) fI.
Proof.
  intros H.
  assert (E: feq n n (fm n (ftr A) (ftr B)) fI).
  { rewrite <- (ftr_fmul R K Rth n n n B A). rewrite H. apply ftr_fid. }
  split; [exact E|]. apply right_inv_is_left_inv. exact E.
Qed.

(* ================= (D4) eigenvectors of different eigenvalues are independent ================= *)
(* column k (k < m) of Phi is an eigenvector of A (n x n) for lam k, on the window *)
Definition eig_cols (n m:nat) (A Phi:fmat R) (lam:nat -> R) : Prop :=
  forall i k, (i < n)%nat -> (k < m)%nat -> sumn K n (fun j => A i j * Phi j k) = lam k * Phi i k.
Definition col_nz (n:nat) (Phi:fmat R) (k:nat) : Prop := ~ (forall i, (i < n)%nat -> Phi i k = 0).

(* applying A - mu to a vanishing combination of eigenvectors *)
Lemma eig_comb_shift n m (A Phi:fmat R) (lam c:nat -> R) (mu:R) :
  eig_cols n m A Phi lam ->
  (forall i, (i < n)%nat -> sumn K m (fun k => Phi i k * c k) = 0) ->
  forall i, (i < n)%nat -> sumn K m (fun k => Phi i k * ((lam k - mu) * c k)) = 0.
Proof.
  intros He Hc i Hi.
  assert (E1: sumn K m (fun k => Phi i k * (lam k * c k)) = 0).
  { transitivity (sumn K m (fun k => sumn K n (fun j => A i j * (Phi j k * c k)))).
    - apply sumn_ext. intros k Hk.
      transitivity ((lam k * Phi i k) * c k); [ring|]. rewrite <- (He i k Hi Hk).
      rewrite <- (sumn_scal_r R K Rth). apply sumn_ext. intros j Hj. ring.
    - rewrite (sumn_swap R K Rth). apply (sumn_allz R K Rth). intros j Hj.
      rewrite (sumn_scal R K Rth). rewrite (Hc j Hj). ring. }
  rewrite (sumn_ext R K m _ (fun k => Phi i k * (lam k * c k) - mu * (Phi i k * c k))) by (intros; ring).
  rewrite (sumn_sub R K Rth), (sumn_scal R K Rth). rewrite E1, (Hc i Hi). ring.
Qed.

(* the first r columns: non-zero eigenvectors whose eigenvalue differs from that of every other column;
   the remaining s columns: eigenvectors (any eigenvalues) that are independent among themselves *)
Theorem eig_indep_border n (A:fmat R) (s:nat) : forall (r:nat) (Phi:fmat R) (lam:nat -> R),
  eig_cols n (r + s) A Phi lam ->
  (forall k, (k < r)%nat -> col_nz n Phi k) ->
  (forall k j, (k < r)%nat -> (j < r + s)%nat -> k <> j -> lam k <> lam j) ->
  cols_indep n s (fun i k => Phi i (r + k)%nat) ->
  cols_indep n (r + s) Phi.
Proof.
  induction r as [|r IH]; intros Phi lam He Hnz Hd Hb.
  - exact Hb.
  - assert (IHr: cols_indep n (r + s) (fun i k => Phi i (S k))).
    { apply (IH (fun i k => Phi i (S k)) (fun k => lam (S k))).
      - intros i k Hi Hk. apply (He i (S k) Hi). lia.
      - intros k Hk. apply (Hnz (S k)). lia.
      - intros k j Hk Hj Hne. apply (Hd (S k) (S j)); lia.
      - exact Hb. }
    intros c Hc.
    assert (Hs: forall t, (t < r + s)%nat -> c (S t) = 0).
    { assert (Hz: forall t, (t < r + s)%nat -> (lam (S t) - lam 0%nat) * c (S t) = 0).
      { apply IHr. intros i Hi.
        pose proof (eig_comb_shift n (S r + s) A Phi lam c (lam 0%nat) He Hc i Hi) as E.
        change (S r + s)%nat with (S (r + s)) in E. rewrite (sumn_S_l R K Rth) in E.
        rewrite <- E. ring. }
      intros t Ht. destruct (Hint _ _ (Hz t Ht)) as [E|E]; [exfalso|exact E].
      apply (Hd 0%nat (S t)); [lia|lia|lia|].
      transitivity ((lam (S t) - lam 0%nat) + lam 0%nat); [rewrite E; ring|ring]. }
    assert (H0: c 0%nat = 0).
    { destruct (Rdec (c 0%nat) 0) as [E|E]; [exact E|exfalso].
      apply (Hnz 0%nat); [lia|]. intros i Hi.
      pose proof (Hc i Hi) as Ei. change (S r + s)%nat with (S (r + s)) in Ei. rewrite (sumn_S_l R K Rth) in Ei.
      rewrite (sumn_allz R K Rth) in Ei by (intros t Ht; rewrite (Hs t Ht); ring).
      assert (Ep: Phi i 0%nat * c 0%nat = 0) by (rewrite <- Ei; ring).
      destruct (Hint _ _ Ep) as [E1|E1]; [exact E1|contradiction]. }
    intros k Hk. destruct k as [|t]; [exact H0|apply Hs; lia].
Qed.

Theorem eig_indep n m (A Phi:fmat R) (lam:nat -> R) :
  eig_cols n m A Phi lam ->
  (forall k, (k < m)%nat -> col_nz n Phi k) ->
  (forall k j, (k < m)%nat -> (j < m)%nat -> k <> j -> lam k <> lam j) ->
  cols_indep n m Phi.
Proof.
  intros He Hnz Hd. rewrite <- (Nat.add_0_r m).
  apply (eig_indep_border n A 0%nat m Phi lam).
  - rewrite Nat.add_0_r. exact He.
  - exact Hnz.
  - intros k j Hk Hj. apply Hd; lia.
  - intros c _ k Hk. lia.
Qed.

(* matrix form of eig_cols:  A Phi = Phi diag(lam)  on the window *)
Lemma eig_cols_matrix n (A Phi:fmat R) (lam:nat -> R) :
  eig_cols n n A Phi lam <-> feq n n (fm n A Phi) (fm n Phi (ediag K lam)).
Proof.
  split.
  - intros H i k Hi Hk. rewrite (fmul_ediag_r R K Rth n Phi lam i k Hk). unfold fmul. rewrite (H i k Hi Hk). ring.
  - intros H i k Hi Hk. pose proof (H i k Hi Hk) as E. rewrite (fmul_ediag_r R K Rth n Phi lam i k Hk) in E.
    unfold fmul in E. rewrite E. ring.
Qed.

(* the eigen-pair shape of the development (Proofs/P_realise.v: eigpair n A lam v, v a column matrix read at column 0) *)
Definition eigpair_col (n:nat) (A:fmat R) (lam:R) (v:fmat R) : Prop :=
  feq n 1 (fm n A v) (fscal K lam v) /\ ~ feq n 1 v (fzero K).
(* the modal matrix [v_0 | .. | v_{n-1}] *)
Definition modal_mat (v:nat -> fmat R) : fmat R := fun i k => v k i 0%nat.

Theorem modal_basis_exists n (A:fmat R) (lam:nat -> R) (v:nat -> fmat R) :
  (forall k, (k < n)%nat -> eigpair_col n A (lam k) (v k)) ->
  (forall i j, (i < n)%nat -> (j < n)%nat -> i <> j -> lam i <> lam j) ->
  cols_indep n n (modal_mat v) /\
  feq n n (fm n A (modal_mat v)) (fm n (modal_mat v) (ediag K lam)) /\
  exists Phii:fmat R, feq n n (fm n (modal_mat v) Phii) fI /\ feq n n (fm n Phii (modal_mat v)) fI.
Proof.
  intros Hv Hd.
  assert (He: eig_cols n n A (modal_mat v) lam).
  { intros i k Hi Hk. destruct (Hv k Hk) as [E _]. exact (E i 0%nat Hi Nat.lt_0_1). }
  assert (Hi: cols_indep n n (modal_mat v)).
  { apply (eig_indep n n A (modal_mat v) lam He); [|exact Hd].
    intros k Hk Hz. destruct (Hv k Hk) as [_ Hn]. apply Hn. intros i j Hi Hj.
    assert (j = 0%nat) by lia; subst j. exact (Hz i Hi). }
  split; [exact Hi|split; [apply eig_cols_matrix; exact He|apply indep_two_sided; exact Hi]].
Qed.

(* from a duplicate-free list of n eigenvalues, each with SOME eigenvector *)
Theorem modal_basis_list n (A:fmat R) (lams:list R) :
  length lams = n -> NoDup lams ->
  (forall l, In l lams -> exists v, eigpair_col n A l v) ->
  exists (Phi Phii:fmat R) (lam:nat -> R),
    tab n lam = lams /\
    (forall i j, (i < n)%nat -> (j < n)%nat -> i <> j -> lam i <> lam j) /\
    (forall k, (k < n)%nat -> eigpair_col n A (lam k) (fun i _ => Phi i k)) /\
    feq n n (fm n A Phi) (fm n Phi (ediag K lam)) /\
    feq n n (fm n Phi Phii) fI /\ feq n n (fm n Phii Phi) fI.
Proof.
  intros Hlen Hnd Hex. set (lam := fun k => nth k lams 0).
  assert (Hd: forall i j, (i < n)%nat -> (j < n)%nat -> i <> j -> lam i <> lam j).
  { intros i j Hi Hj Hne E. apply Hne. apply (proj1 (NoDup_nth lams 0) Hnd i j); [lia|lia|exact E]. }
  assert (Hv: forall k, (k < n)%nat -> exists v, eigpair_col n A (lam k) v).
  { intros k Hk. apply Hex. apply nth_In. lia. }
  destruct (fin_choice (fmat R) (fzero K) _ n Hv) as [v Hvv].
  destruct (modal_basis_exists n A lam v Hvv Hd) as [_ [H1 [Phii [H2 H3]]]].
  exists (modal_mat v), Phii, lam.
  split; [unfold tab; rewrite <- Hlen; apply tab_lget_id|].
  split; [exact Hd|]. split; [|split; [exact H1|split; [exact H2|exact H3]]].
  intros k Hk. destruct (Hvv k Hk) as [E1 E2]. split.
  - intros i j Hi Hj. assert (j = 0%nat) by lia; subst j. exact (E1 i 0%nat Hi Nat.lt_0_1).
  - intros Hz. apply E2. intros i j Hi Hj. assert (j = 0%nat) by lia; subst j. exact (Hz i 0%nat Hi Nat.lt_0_1).
Qed.

(* n pairwise different eigenvalues are the whole spectrum *)
Theorem spectrum_complete n (A:fmat R) (lams:list R) :
  length lams = n -> NoDup lams ->
  (forall l, In l lams -> exists v, eigpair_col n A l v) ->
  forall (mu:R) (w:fmat R), eigpair_col n A mu w -> In mu lams.
Proof.
  intros Hlen Hnd Hex mu w [Hw1 Hw2].
  destruct (modal_basis_list n A lams Hlen Hnd Hex) as [Phi [Phii [lam [Ht [_ [_ [H1 [H2 H3]]]]]]]].
  destruct (eig_in_spectrum R K Rth Hint Rdec n A Phi Phii lam H1 H2 H3 mu w Hw1 Hw2) as [i [Hi E]].
  rewrite <- Ht. unfold tab. apply in_map_iff. exists i. split; [symmetry; exact E|apply in_seq; lia].
Qed.
(* ... also seen through a similarity  A_hat = Ti A T  of which only  T Ti = I  is known (the other side is D2) *)
Theorem spectrum_complete_similar n (A Ah T Ti:fmat R) (lams:list R) :
  feq n n (fm n T Ti) fI -> feq n n Ah (fm n Ti (fm n A T)) ->
  length lams = n -> NoDup lams ->
  (forall l, In l lams -> exists v, eigpair_col n A l v) ->
  forall (mu:R) (w:fmat R), eigpair_col n Ah mu w -> In mu lams.
Proof.
  intros HT HAh Hlen Hnd Hex mu w [He Hnz].
  pose proof (right_inv_is_left_inv n T Ti HT) as HT'.
  assert (E: feq n n (fm n T Ah) (fm n A T)).
  { rewrite HAh. rewrite <- (assoc n n n n T Ti (fm n A T)). rewrite HT. apply idl. }
  apply (spectrum_complete n A lams Hlen Hnd Hex mu (fm n T w)). split.
  - rewrite <- (assoc n n n 1%nat A T w). rewrite <- E. rewrite (assoc n n n 1%nat T Ah w). rewrite He.
    apply (fmul_scal_r R K Rth n n 1%nat).
  - intros Hz. apply Hnz. rewrite <- (idl n 1%nat w). rewrite <- HT'. rewrite (assoc n n n 1%nat Ti T w). rewrite Hz.
    apply (fmul_zero_r R K Rth n n 1%nat).
Qed.
End Dim.

Arguments cols_indep {R} K n m P.
Arguments eig_cols {R} K n m A Phi lam.
Arguments col_nz {R} K n Phi k.
Arguments eigpair_col {R} K n A lam v.
Arguments modal_mat {R} v.

(* ================= the complexification of a formally real field is a field ================= *)
(* so every theorem of Section Dim is available at the carrier COps K (decidable equality: EigCount.cplx_dec) *)
Section CplxField.
Variable R:Type. Variable K:Ops R.
Hypothesis Fth : field_theory (o0 K) (o1 K) (oadd K) (omul K) (osub K) (oopp K) (odiv K) (oinv K) (@eq R).
Hypothesis Rdec : forall x y:R, {x = y} + {x <> y}.
Hypothesis Hreal : forall a b:R, oadd K (omul K a a) (omul K b b) = o0 K -> a = o0 K.
Notation KC := (COps K).

Lemma cplx_field_theory :
  field_theory (o0 KC) (o1 KC) (oadd KC) (omul KC) (osub KC) (oopp KC) (odiv KC) (oinv KC) (@eq (C R)).
Proof.
  constructor.
  - exact (CRth R K (F_R Fth)).
  - exact (cplx_one_neq_zero R K (field_one_neq_zero R K Fth)).
  - intros p q. reflexivity.
  - intros p Hp. apply (cinv_l R K Fth). intros E. apply Hp. exact (cnorm2_zero R K (F_R Fth) Hreal p E).
Qed.

Let CFth := cplx_field_theory.
Let Cdec := cplx_dec R Rdec.

Theorem cplx_lin_dep : forall (n:nat) (v:nat -> nat -> C R),
  exists c:nat -> C R, (exists k, (k <= n)%nat /\ c k <> c0 K) /\
    forall i, (i < n)%nat -> sumn KC (S n) (fun k => cmul K (c k) (v k i)) = c0 K.
Proof. exact (lin_dep (C R) KC CFth Cdec). Qed.

Theorem cplx_left_inv_is_right_inv n (A B:fmat (C R)) :
  feq n n (fmul KC n B A) (fid KC) -> feq n n (fmul KC n A B) (fid KC).
Proof. exact (left_inv_is_right_inv (C R) KC CFth Cdec n A B). Qed.

Theorem cplx_indep_two_sided n (P:fmat (C R)) : cols_indep KC n n P ->
  exists Pi:fmat (C R), feq n n (fmul KC n P Pi) (fid KC) /\ feq n n (fmul KC n Pi P) (fid KC).
Proof. exact (indep_two_sided (C R) KC CFth Cdec n P). Qed.

Theorem cplx_modal_basis_list n (A:fmat (C R)) (lams:list (C R)) :
  length lams = n -> NoDup lams ->
  (forall l, In l lams -> exists v, eigpair_col KC n A l v) ->
  exists (Phi Phii:fmat (C R)) (lam:nat -> C R),
    tab n lam = lams /\
    (forall i j, (i < n)%nat -> (j < n)%nat -> i <> j -> lam i <> lam j) /\
    (forall k, (k < n)%nat -> eigpair_col KC n A (lam k) (fun i _ => Phi i k)) /\
    feq n n (fmul KC n A Phi) (fmul KC n Phi (ediag KC lam)) /\
    feq n n (fmul KC n Phi Phii) (fid KC) /\ feq n n (fmul KC n Phii Phi) (fid KC).
Proof. exact (modal_basis_list (C R) KC CFth Cdec n A lams). Qed.

Theorem cplx_spectrum_complete n (A:fmat (C R)) (lams:list (C R)) :
  length lams = n -> NoDup lams ->
  (forall l, In l lams -> exists v, eigpair_col KC n A l v) ->
  forall (mu:C R) (w:fmat (C R)), eigpair_col KC n A mu w -> In mu lams.
Proof. exact (spectrum_complete (C R) KC CFth Cdec n A lams). Qed.
End CplxField.

(* ================= (D5) uniqueness of singular subspaces under a gap =================
   Two decompositions  H = U diag(S) V^T = U2 diag(S2) V2^T  (U, U2 : m x n with orthonormal columns, V, V2 : n x n
   orthogonal - by orth_square also V V^T = I) of the same matrix.  If the SQUARES of the retained values (index < ord) of
   either decomposition differ from the squares of the discarded values (ord <= index < n) of the other, and the retained
   values are non-zero, the retained left singular vectors span the same space:  U2[:, :ord] = U[:, :ord] T  with T
   two-sided invertible.  (On an ordered field with non-negative, sorted singular values the hypotheses follow from a gap
   S_{ord-1} > S_ord.  A gap on the values alone is NOT enough on a generic field: dim_example_svd_sign below.) *)
Section SingularSubspace.
Variable R:Type. Variable K:Ops R.
Hypothesis Fth : field_theory (o0 K) (o1 K) (oadd K) (omul K) (osub K) (oopp K) (odiv K) (oinv K) (@eq R).
Hypothesis Rdec : forall x y:R, {x = y} + {x <> y}.
Add Field FfSv : Fth.
Local Open Scope K_scope.
Notation "0" := (o0 K) : K_scope. Notation "1" := (o1 K) : K_scope.
Infix "+" := (oadd K) : K_scope. Infix "*" := (omul K) : K_scope. Infix "-" := (osub K) : K_scope.
Notation "- x" := (oopp K x) : K_scope. Infix "/" := (odiv K) : K_scope.
Notation fm := (fmul K). Notation fI := (fid K). Notation dg := (ediag K).
Let Rth : ring_theory 0 1 (oadd K) (omul K) (osub K) (oopp K) (@eq R) := F_R Fth.
Let assoc := fmul_assoc R K Rth.
Let idl := fmul_id_l R K Rth.
Let idr := fmul_id_r R K Rth.
Let Hint : forall a b:R, a * b = 0 -> a = 0 \/ b = 0 := field_integral R K Fth Rdec.

(* the contract of a (thin or full) singular value decomposition, the shape of Model/M_covar.v svd_contract *)
Definition svd_shape (m n k:nat) (H U:fmat R) (S:nat -> R) (V:fmat R) : Prop :=
  feq m n H (fm k (fm k U (dg S)) (ftr V)) /\ feq k k (fm m (ftr U) U) fI /\ feq k k (fm n (ftr V) V) fI.

Lemma dim_sumn_trunc n r (f:nat -> R) : (r <= n)%nat -> (forall j, (r <= j < n)%nat -> f j = 0) -> sumn K n f = sumn K r f.
Proof.
  intros Hr Hz. replace n with (r + (n - r))%nat by lia. rewrite (sumn_split R K Rth).
  rewrite (sumn_allz R K Rth (n - r)); [ring|]. intros j Hj. apply Hz. lia.
Qed.

Lemma svd_HV m n k H U S V : svd_shape m n k H U S V -> feq m k (fm n H V) (fm k U (dg S)).
Proof.
  intros [HH [_ HV]]. rewrite HH. rewrite (assoc m k n k (fm k U (dg S)) (ftr V) V). rewrite HV. apply idr.
Qed.
Lemma svd_UtH m n k H U S V : svd_shape m n k H U S V -> feq k n (fm m (ftr U) H) (fm k (dg S) (ftr V)).
Proof.
  intros [HH [HU _]]. rewrite HH. rewrite (assoc m k k n U (dg S) (ftr V)).
  rewrite <- (assoc k m k n (ftr U) U (fm k (dg S) (ftr V))). rewrite HU. apply idl.
Qed.

Section Two.
Variables (m n ord:nat) (H U:fmat R) (S:nat -> R) (V U2:fmat R) (S2:nat -> R) (V2:fmat R).
Hypothesis Hord : (ord <= n)%nat.
Hypothesis C1 : svd_shape m n n H U S V.
Hypothesis C2 : svd_shape m n n H U2 S2 V2.
Hypothesis Hgap1 : forall a b, (a < ord)%nat -> (ord <= b < n)%nat -> S a * S a <> S2 b * S2 b.
Hypothesis Hgap2 : forall a b, (a < ord)%nat -> (ord <= b < n)%nat -> S2 a * S2 a <> S b * S b.
Hypothesis HSnz : forall a, (a < ord)%nat -> S a <> 0.
Hypothesis HS2nz : forall a, (a < ord)%nat -> S2 a <> 0.

Definition ssu_W : fmat R := fm n (ftr V) V2.
Definition ssu_Z : fmat R := fm m (ftr U) U2.

Lemma ssu_rel1 i j : (i < n)%nat -> (j < n)%nat -> S i * ssu_W i j = ssu_Z i j * S2 j.
Proof.
  intros Hi Hj.
  assert (E: feq n n (fm n (dg S) ssu_W) (fm n ssu_Z (dg S2))).
  { unfold ssu_W, ssu_Z. rewrite <- (assoc n n n n (dg S) (ftr V) V2). rewrite <- (svd_UtH m n n H U S V C1).
    rewrite (assoc n m n n (ftr U) H V2). rewrite (svd_HV m n n H U2 S2 V2 C2).
    rewrite <- (assoc n m n n (ftr U) U2 (dg S2)). reflexivity. }
  pose proof (E i j Hi Hj) as E1.
  rewrite (fmul_ediag_l R K Rth n S ssu_W i j Hi), (fmul_ediag_r R K Rth n ssu_Z S2 i j Hj) in E1. exact E1.
Qed.
Lemma ssu_rel2 i j : (i < n)%nat -> (j < n)%nat -> S2 j * ssu_W i j = ssu_Z i j * S i.
Proof.
  intros Hi Hj.
  assert (E: feq n n (fm n (dg S2) (fm n (ftr V2) V)) (fm n (fm m (ftr U2) U) (dg S))).
  { rewrite <- (assoc n n n n (dg S2) (ftr V2) V). rewrite <- (svd_UtH m n n H U2 S2 V2 C2).
    rewrite (assoc n m n n (ftr U2) H V). rewrite (svd_HV m n n H U S V C1).
    rewrite <- (assoc n m n n (ftr U2) U (dg S)). reflexivity. }
  pose proof (E j i Hj Hi) as E1.
  rewrite (fmul_ediag_l R K Rth n S2 _ j i Hj), (fmul_ediag_r R K Rth n _ S j i Hi) in E1.
  assert (Ew: fm n (ftr V2) V j i = ssu_W i j).
  { unfold ssu_W, fmul, ftr. apply sumn_ext. intros k Hk. ring. }
  assert (Ez: fm m (ftr U2) U j i = ssu_Z i j).
  { unfold ssu_Z, fmul, ftr. apply sumn_ext. intros k Hk. ring. }
  rewrite Ew, Ez in E1. exact E1.
Qed.
Lemma ssu_zero i j : (i < n)%nat -> (j < n)%nat -> S i * S i <> S2 j * S2 j -> ssu_W i j = 0.
Proof.
  intros Hi Hj Hne.
  assert (E: (S i * S i - S2 j * S2 j) * ssu_W i j = 0).
  { transitivity (S i * (S i * ssu_W i j) - S2 j * (S2 j * ssu_W i j)); [ring|].
    rewrite (ssu_rel1 i j Hi Hj), (ssu_rel2 i j Hi Hj). ring. }
  destruct (Hint _ _ E) as [E0|E0]; [exfalso|exact E0].
  apply Hne. transitivity ((S i * S i - S2 j * S2 j) + S2 j * S2 j); [ring|]. rewrite E0. ring.
Qed.
Lemma ssu_off1 i j : (i < ord)%nat -> (ord <= j < n)%nat -> ssu_W i j = 0.
Proof. intros Hi Hj. apply ssu_zero; [lia|lia|]. apply Hgap1; assumption. Qed.
Lemma ssu_off2 i j : (ord <= i < n)%nat -> (j < ord)%nat -> ssu_W i j = 0.
Proof. intros Hi Hj. apply ssu_zero; [lia|lia|]. intros E. apply (Hgap2 j i Hj Hi). symmetry. exact E. Qed.

Lemma ssu_orth : feq n n (fm n ssu_W (ftr ssu_W)) fI.
Proof.
  destruct C1 as [_ [_ HV]]. destruct C2 as [_ [_ HV2]].
  pose proof (orth_square R K Fth Rdec n V2 HV2) as HV2r.
  assert (Et: feq n n (ftr ssu_W) (fm n (ftr V2) V)).
  { intros i j Hi Hj. unfold ssu_W, fmul, ftr. apply sumn_ext. intros k Hk. ring. }
  rewrite Et. unfold ssu_W. rewrite (assoc n n n n (ftr V) V2 (fm n (ftr V2) V)).
  rewrite <- (assoc n n n n V2 (ftr V2) V). rewrite HV2r. rewrite (idl n n V). exact HV.
Qed.

Definition ssu_T : fmat R := fun i j => S i * ssu_W i j / S2 j.
Definition ssu_Ti : fmat R := fun j k => S2 j * ssu_W k j / S k.

Theorem svd_subspace_core :
  feq ord ord (fm ord ssu_T ssu_Ti) fI /\ feq m ord U2 (fm ord U ssu_T).
Proof.
  split.
  - intros i k Hi Hk. unfold fmul, ssu_T, ssu_Ti.
    rewrite (sumn_ext R K ord _ (fun j => (S i / S k) * (ssu_W i j * ftr ssu_W j k))).
    2:{ intros j Hj. unfold ftr. field. split; [apply HSnz; exact Hk|apply HS2nz; exact Hj]. }
    rewrite (sumn_scal R K Rth).
    rewrite <- (dim_sumn_trunc n ord (fun j => ssu_W i j * ftr ssu_W j k) Hord).
    2:{ intros j Hj. rewrite (ssu_off1 i j Hi Hj). ring. }
    pose proof (ssu_orth i k ltac:(lia) ltac:(lia)) as E. unfold fmul at 1 in E. rewrite E. unfold fid.
    destruct (Nat.eqb_spec i k) as [->|Hne]; [field; apply HSnz; exact Hk|field; apply HSnz; exact Hk].
  - intros a j Ha Hj.
    assert (E: feq m n (fm n U2 (dg S2)) (fm n (fm n U (dg S)) ssu_W)).
    { rewrite <- (svd_HV m n n H U2 S2 V2 C2). destruct C1 as [HH _]. rewrite HH. unfold ssu_W.
      apply (assoc m n n n (fm n U (dg S)) (ftr V) V2). }
    pose proof (E a j Ha ltac:(lia)) as E1. rewrite (fmul_ediag_r R K Rth n U2 S2 a j ltac:(lia)) in E1.
    unfold fmul at 1 in E1.
    rewrite (dim_sumn_trunc n ord _ Hord) in E1.
    2:{ intros i Hi. rewrite (ssu_off2 i j Hi Hj). ring. }
    transitivity ((U2 a j * S2 j) / S2 j); [field; apply HS2nz; exact Hj|]. rewrite E1.
    change (fm ord U ssu_T a j) with (sumn K ord (fun i => U a i * ssu_T i j)).
    rewrite (sumn_ext R K ord (fun i => U a i * ssu_T i j) (fun i => (fm n U (dg S) a i * ssu_W i j) * (1 / S2 j))).
    2:{ intros i Hi. rewrite (fmul_ediag_r R K Rth n U S a i ltac:(lia)). unfold ssu_T. field. apply HS2nz; exact Hj. }
    rewrite (sumn_scal_r R K Rth). field. apply HS2nz; exact Hj.
Qed.
End Two.

Theorem svd_subspace_unique m n ord (H U:fmat R) (S:nat -> R) (V U2:fmat R) (S2:nat -> R) (V2:fmat R) :
  (ord <= n)%nat ->
  svd_shape m n n H U S V -> svd_shape m n n H U2 S2 V2 ->
  (forall a b, (a < ord)%nat -> (ord <= b < n)%nat -> S a * S a <> S2 b * S2 b /\ S2 a * S2 a <> S b * S b) ->
  (forall a, (a < ord)%nat -> S a <> 0 /\ S2 a <> 0) ->
  exists T Ti:fmat R, feq ord ord (fm ord T Ti) fI /\ feq ord ord (fm ord Ti T) fI /\ feq m ord U2 (fm ord U T).
Proof.
  intros Hord C1 C2 Hgap Hnz.
  destruct (svd_subspace_core m n ord H U S V U2 S2 V2 Hord C1 C2
              (fun a b Ha Hb => proj1 (Hgap a b Ha Hb)) (fun a b Ha Hb => proj2 (Hgap a b Ha Hb))
              (fun a Ha => proj1 (Hnz a Ha)) (fun a Ha => proj2 (Hnz a Ha))) as [E1 E2].
  exists (ssu_T n S V S2 V2), (ssu_Ti n S V S2 V2). split; [exact E1|split; [|exact E2]].
  apply (right_inv_is_left_inv R K Fth Rdec). exact E1.
Qed.
End SingularSubspace.
Arguments svd_shape {R} K m n k H U S V.

(* ================= instances: canonical rationals and Gaussian rationals ================= *)
From Coq Require Import QArith Qcanon.
Definition qc_left_inv_is_right_inv := left_inv_is_right_inv Qc QcOps QcFth Qc_eq_dec.
Definition qc_spectrum_complete := spectrum_complete Qc QcOps QcFth Qc_eq_dec.
Definition qcc_field_theory := cplx_field_theory Qc QcOps QcFth qc_formally_real.
Definition qcc_spectrum_complete := cplx_spectrum_complete Qc QcOps QcFth Qc_eq_dec qc_formally_real.

Print Assumptions lin_dep.
Print Assumptions lin_dep_gen.
Print Assumptions left_inv_cols_indep.
Print Assumptions right_inv_of_indep.
Print Assumptions indep_two_sided.
Print Assumptions left_inv_is_right_inv.
Print Assumptions cols_indep_iff_inv.
Print Assumptions left_inv_unique.
Print Assumptions orth_square.
Print Assumptions inv_transpose.
Print Assumptions eig_indep_border.
Print Assumptions eig_indep.
Print Assumptions modal_basis_exists.
Print Assumptions modal_basis_list.
Print Assumptions spectrum_complete.
Print Assumptions spectrum_complete_similar.
Print Assumptions svd_subspace_unique.
Print Assumptions cplx_field_theory.
Print Assumptions cplx_lin_dep.
Print Assumptions cplx_left_inv_is_right_inv.
Print Assumptions cplx_indep_two_sided.
Print Assumptions cplx_modal_basis_list.
Print Assumptions cplx_spectrum_complete.
Print Assumptions qcc_spectrum_complete.

(* ---------- concrete instances ---------- *)
Definition ex_dim_of (M:list (list Qc)) : fmat Qc := fun i j => ent QcOps M i j.
Definition ex_dim_A : fmat Qc := ex_dim_of [[Q2Qc 2; Q2Qc 1; Q2Qc 0]; [Q2Qc 1; Q2Qc 1; Q2Qc 1]; [Q2Qc 0; Q2Qc 1; Q2Qc 3]].
Definition ex_dim_B : fmat Qc := ex_dim_of [[Q2Qc 2; Q2Qc (-3); Q2Qc 1]; [Q2Qc (-3); Q2Qc 6; Q2Qc (-2)]; [Q2Qc 1; Q2Qc (-2); Q2Qc 1]].

(* (D2) exercised: B A = I is checked by computation, A B = I is then concluded by the theorem (and confirmed by computation) *)
Example dim_example_inverse :
  feq 3 3 (fmul QcOps 3 ex_dim_A ex_dim_B) (fid QcOps) /\
  ec_feqb 3 3 (fmul QcOps 3 ex_dim_A ex_dim_B) (fid QcOps) = true.
Proof.
  split; [|vm_compute; reflexivity].
  apply qc_left_inv_is_right_inv. apply ec_feqb_sound. vm_compute. reflexivity.
Qed.

(* (D4) exercised: [[2,0],[1,3]] has the eigenpairs (2,(1,-1)) and (3,(0,1)); hence 5 is not an eigenvalue *)
Definition ex_dim_M : fmat Qc := ex_dim_of [[Q2Qc 2; Q2Qc 0]; [Q2Qc 1; Q2Qc 3]].
Example dim_example_spectrum : forall w, ~ eigpair_col QcOps 2 ex_dim_M (Q2Qc 5) w.
Proof.
  intros w Hw.
  assert (Hin: In (Q2Qc 5) [Q2Qc 2; Q2Qc 3]).
  { apply (qc_spectrum_complete 2 ex_dim_M [Q2Qc 2; Q2Qc 3]) with (w := w); [reflexivity| | |exact Hw].
    - constructor; [intros [E|[]]; discriminate E|constructor; [intros []|constructor]].
    - intros l [<-|[<-|[]]].
      + exists (ex_dim_of [[Q2Qc 1]; [Q2Qc (-1)]]). split.
        * apply ec_feqb_sound. vm_compute. reflexivity.
        * intros E. specialize (E 0%nat 0%nat ltac:(lia) ltac:(lia)). discriminate E.
      + exists (ex_dim_of [[Q2Qc 0]; [Q2Qc 1]]). split.
        * apply ec_feqb_sound. vm_compute. reflexivity.
        * intros E. specialize (E 1%nat 0%nat ltac:(lia) ltac:(lia)). discriminate E. }
  destruct Hin as [E|[E|[]]]; discriminate E.
Qed.

(* (D5) why svd_subspace_unique asks for a gap on the SQUARES: over Qc, H = diag(1,-1) = I diag(1,-1) I^T
   = U2 diag(1,-1) V2^T with V2 a 3-4-5 rotation; both decompositions meet the contract, the "singular values" agree
   and S 0 <> S 1, yet the first column of U2 is no multiple of the first column of U *)
Definition ex_dim_H := ex_dim_of [[Q2Qc 1; Q2Qc 0]; [Q2Qc 0; Q2Qc (-1)]].
Definition ex_dim_I := ex_dim_of [[Q2Qc 1; Q2Qc 0]; [Q2Qc 0; Q2Qc 1]].
Definition ex_dim_S : nat -> Qc := fun i => lget QcOps [Q2Qc 1; Q2Qc (-1)] i.
Definition ex_dim_U2 := ex_dim_of [[Q2Qc (3#5); Q2Qc (4#5)]; [Q2Qc (-4#5); Q2Qc (3#5)]].
Definition ex_dim_V2 := ex_dim_of [[Q2Qc (3#5); Q2Qc (-4#5)]; [Q2Qc (4#5); Q2Qc (3#5)]].
Example dim_example_svd_sign :
  svd_shape QcOps 2 2 2 ex_dim_H ex_dim_I ex_dim_S ex_dim_I /\
  svd_shape QcOps 2 2 2 ex_dim_H ex_dim_U2 ex_dim_S ex_dim_V2 /\
  ex_dim_S 0%nat <> ex_dim_S 1%nat /\
  ~ exists T:fmat Qc, feq 2 1 ex_dim_U2 (fmul QcOps 1 ex_dim_I T).
Proof.
  split; [repeat split; apply ec_feqb_sound; vm_compute; reflexivity|].
  split; [repeat split; apply ec_feqb_sound; vm_compute; reflexivity|].
  split; [intros E; discriminate E|].
  intros [T E]. pose proof (E 1%nat 0%nat ltac:(lia) ltac:(lia)) as E1. unfold fmul in E1. cbn [sumn] in E1.
  change (ex_dim_I 1%nat 0%nat) with (Q2Qc 0) in E1.
  assert (E2: ex_dim_U2 1%nat 0%nat = Q2Qc 0).
  { rewrite E1. cbn [QcOps oadd omul o0]. ring. }
  discriminate E2.
Qed.
