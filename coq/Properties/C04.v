(* C04 - PreGER spectral merging is consistent with the single-setup spectral matrix.
   Statements only: each theorem is closed by [exact] of a lemma of Proofs/P_preger_sd.v.
   Model: Model/M_preger_sd.v (per frequency line, any commutative ring; executed at complex pairs over Qc).
   np.linalg.inv is an oracle (two-sided contract inv_contract), csd (SD_est entry) is an oracle (C13). *)
From Coq Require Import List Arith Lia Ring ZArith QArith Qcanon String.
From PyOMA.Base Require Import Carrier FMat Cplx Show.
From PyOMA.Model Require Import M_preger_sd.
From PyOMA.Proofs Require Import P_preger_sd P_spectral_compose.
Import ListNotations.

Section S.
Variable R:Type. Variable K:Ops R.
Hypothesis Rth : ring_theory (o0 K) (o1 K) (oadd K) (omul K) (osub K) (oopp K) (@eq R).
Local Open Scope K_scope.
Notation "1" := (o1 K) : K_scope.
Infix "+" := (oadd K) : K_scope. Infix "*" := (omul K) : K_scope. Infix "-" := (osub K) : K_scope.
Variable Rec : Type. Variable P : Type.
Variable csd csd' : P -> Rec -> Rec -> nat -> R.
Variable eqbR : R -> R -> bool.

(* reference block = mean over setups of Grr(i); roving block k = Gmr(k).inv(Grr(k)).mean; references first, then the
   roving blocks in setup order; every row is exactly one of these; total n_ref + sum n_mov rows *)
Theorem C04_structure : forall invn nr n (Gs:nat->setupG R) (X:nat->fmat R),
  let nm := fun k => nmov (Gs k) in
  let M := gmean K invn n Gs in
  (forall a b, (a < nr)%nat -> merge K invn nr n Gs X a b = invn * sumn K n (fun i => Grr (Gs i) a b)) /\
  (forall k a b, (k < n)%nat -> (a < nm k)%nat ->
     merge K invn nr n Gs X (nr + off nm k + a)%nat b = fmul K nr (fmul K nr (Gmr (Gs k)) (X k)) M a b) /\
  (forall r, (r < merge_rows nr n Gs)%nat ->
     (r < nr)%nat \/ exists k a, (k < n)%nat /\ (a < nm k)%nat /\ r = (nr + off nm k + a)%nat) /\
  (forall k a k' a', (a < nm k)%nat -> (a' < nm k')%nat -> (nr + off nm k + a = nr + off nm k' + a')%nat -> k = k' /\ a = a') /\
  (forall k a, (k < n)%nat -> (a < nm k)%nat -> (nr + off nm k + a < merge_rows nr n Gs)%nat).
Proof. exact (preger_structure R K). Qed.

(* identical reference spectra in all setups: merged = vstack(Grr, Gmr(0), Gmr(1), ...) *)
Theorem C04_identical_refs : forall invn nr n (Gs:nat->setupG R) (X:nat->fmat R) (G:fmat R),
  (forall k, (k < n)%nat -> feq nr nr (Grr (Gs k)) G) ->
  (forall k, (k < n)%nat -> inv_contract K nr (Grr (Gs k)) (X k)) ->
  ofnat K n * invn = 1 ->
  feq (merge_rows nr n Gs) nr (merge K invn nr n Gs X)
      (fun r c => if (r <? nr)%nat then G r c else vstk K n (fun k => nmov (Gs k)) (fun k => Gmr (Gs k)) (r - nr)%nat c).
Proof. exact (preger_identical_refs R K Rth). Qed.

(* the property's first sentence: setups cut from one simultaneous recording (identical reference records) =>
   merged = SD_est(all sensors ordered references, roving_0, roving_1, ..., references) at the same line, for every
   run parameter p = (nxseg, pov, method) *)
Theorem C04_simultaneous : forall invn nr n (p:P) (Y:nat->setupD Rec) (X:nat->nat->fmat R) (ref:nat->Rec) (f:nat),
  (forall k a, (k < n)%nat -> (a < nr)%nat -> d_ref (Y k) a = ref a) ->
  (forall k, (k < n)%nat -> inv_contract K nr (Grr (setup_sd csd p f (Y k))) (X f k)) ->
  ofnat K n * invn = 1 ->
  feq (merge_rows nr n (fun k => setup_sd csd p f (Y k))) nr
      (sd_preger K csd invn nr n p Y X f) (sd_est csd p (all_sensors nr n ref Y) ref f).
Proof. exact (preger_simultaneous R K Rth Rec P csd). Qed.

(* setup i multiplied by a constant (spectra by g2): only the mean reference block changes,
   mean' = mean + (g2-1)/n Grr(i); every transmissibility Gmr(k).inv(Grr(k)) and the row layout are unchanged *)
Theorem C04_gain : forall invn nr n (Gs Gs':nat->setupG R) (X X':nat->fmat R) (i:nat) (g2:R),
  (i < n)%nat ->
  (forall k, (k < n)%nat -> inv_contract K nr (Grr (Gs k)) (X k)) ->
  (forall k, (k < n)%nat -> inv_contract K nr (Grr (Gs' k)) (X' k)) ->
  (forall k, (k < n)%nat -> nmov (Gs' k) = nmov (Gs k)) ->
  (forall k, (k < n)%nat -> k <> i ->
     feq nr nr (Grr (Gs' k)) (Grr (Gs k)) /\ feq (nmov (Gs k)) nr (Gmr (Gs' k)) (Gmr (Gs k))) ->
  feq nr nr (Grr (Gs' i)) (fscal K g2 (Grr (Gs i))) ->
  feq (nmov (Gs i)) nr (Gmr (Gs' i)) (fscal K g2 (Gmr (Gs i))) ->
  let M := gmean K invn n Gs in
  let M' := fadd K M (fscal K ((g2 - 1) * invn) (Grr (Gs i))) in
  feq nr nr (gmean K invn n Gs') M' /\
  (forall k, (k < n)%nat -> feq (nmov (Gs k)) nr (transm K nr Gs' X' k) (transm K nr Gs X k)) /\
  feq (merge_rows nr n Gs) nr (merge K invn nr n Gs' X')
      (merge_with K M' nr n (fun k => nmov (Gs k)) (transm K nr Gs X)).
Proof. exact (preger_gain R K Rth). Qed.

Theorem C04_gain_data : forall invn nr n (p:P) (Y:nat->setupD Rec) (X X':nat->nat->fmat R) (i:nat) (g2:R) (scal:Rec->Rec) (f:nat),
  (i < n)%nat ->
  (forall x y, csd p (scal x) (scal y) f = g2 * csd p x y f) ->
  let Y' := fun k => if Nat.eqb k i then scaleD scal (Y k) else Y k in
  let Gs := fun k => setup_sd csd p f (Y k) in
  (forall k, (k < n)%nat -> inv_contract K nr (Grr (Gs k)) (X f k)) ->
  (forall k, (k < n)%nat -> inv_contract K nr (Grr (setup_sd csd p f (Y' k))) (X' f k)) ->
  let M' := fadd K (gmean K invn n Gs) (fscal K ((g2 - 1) * invn) (Grr (Gs i))) in
  feq (merge_rows nr n Gs) nr (sd_preger K csd invn nr n p Y' X' f)
      (merge_with K M' nr n (fun k => d_nmov (Y k)) (transm K nr Gs (X f))).
Proof. exact (preger_gain_data R K Rth Rec P csd). Qed.

(* the run parameters act only through the per-setup estimates *)
Theorem C04_call_structure : forall invn nr n (p:P) (Y:nat->setupD Rec) X f,
  sd_preger K csd invn nr n p Y X f = merge K invn nr n (fun k => setup_sd csd p f (Y k)) (X f).
Proof. exact (preger_call_structure R K Rec P csd). Qed.

Theorem C04_uses_run_params : forall invn nr n (p p':P) (Y:nat->setupD Rec) (X X':nat->nat->fmat R) (f:nat),
  (forall k a b, (k < n)%nat -> (a < nr)%nat -> (b < nr)%nat ->
     csd p (d_ref (Y k) a) (d_ref (Y k) b) f = csd' p' (d_ref (Y k) a) (d_ref (Y k) b) f) ->
  (forall k a b, (k < n)%nat -> (a < d_nmov (Y k))%nat -> (b < nr)%nat ->
     csd p (d_mov (Y k) a) (d_ref (Y k) b) f = csd' p' (d_mov (Y k) a) (d_ref (Y k) b) f) ->
  (forall k, (k < n)%nat -> inv_contract K nr (Grr (setup_sd csd p f (Y k))) (X f k)) ->
  (forall k, (k < n)%nat -> inv_contract K nr (Grr (setup_sd csd' p' f (Y k))) (X' f k)) ->
  feq (merge_rows nr n (fun k => setup_sd csd p f (Y k))) nr
      (sd_preger K csd' invn nr n p' Y X' f) (sd_preger K csd invn nr n p Y X f).
Proof. exact (preger_uses_run_params R K Rth Rec P csd csd'). Qed.

(* all spectra scaled by one constant: merged matrix scaled by it (the check feeds integer-scaled spectra) *)
Theorem C04_homogeneous : forall invn nr n (Gs Gs':nat->setupG R) (X X':nat->fmat R) (c:R),
  (forall k, (k < n)%nat -> inv_contract K nr (Grr (Gs k)) (X k)) ->
  (forall k, (k < n)%nat -> inv_contract K nr (Grr (Gs' k)) (X' k)) ->
  (forall k, (k < n)%nat -> nmov (Gs' k) = nmov (Gs k)) ->
  (forall k, (k < n)%nat -> feq nr nr (Grr (Gs' k)) (fscal K c (Grr (Gs k)))) ->
  (forall k, (k < n)%nat -> feq (nmov (Gs k)) nr (Gmr (Gs' k)) (fscal K c (Gmr (Gs k)))) ->
  feq (merge_rows nr n Gs) nr (merge K invn nr n Gs' X') (fscal K c (merge K invn nr n Gs X)).
Proof. exact (preger_homogeneous R K Rth). Qed.

(* the tables evaluated by the check (division-free, ring operations only) determine the merged matrix:
   row denominator * merged entry = numerator, for any inverse meeting the contract, 1..3 references *)
Theorem C04_exec_sound : forall docert nr (L:list (setupL R)) invn (X:nat->fmat R),
  (nr <= 3)%nat ->
  let n := List.length L in let Gs := Gs_of R K L in
  (forall k, (k < n)%nat -> inv_contract K nr (Grr (Gs k)) (X k)) ->
  ofnat K n * invn = 1 ->
  forall r c, (r < merge_rows nr n Gs)%nat -> (c < nr)%nat ->
    lget K (ff_dent (ff_tab K eqbR docert nr L)) r * merge K invn nr n Gs X r c
      = ent K (ff_numt (ff_tab K eqbR docert nr L)) r c.
Proof. exact (ff_tab_sound R K Rth eqbR). Qed.

(* list-level merged matrix: sizes, and entries = the function-level merge with the adjugate inverses *)
Theorem C04_dims : forall nr (L:list (setupL R)) M, merge_l K eqbR nr L = Ok M ->
  List.length M = merge_rows nr (List.length L) (Gs_of R K L) /\
  forall r, (r < merge_rows nr (List.length L) (Gs_of R K L))%nat -> List.length (nth r M []) = nr.
Proof. exact (merge_l_dims R K eqbR). Qed.

Theorem C04_merge_l_spec : forall nr (L:list (setupL R)) M, merge_l K eqbR nr L = Ok M ->
  let n := List.length L in
  forall r c, (r < merge_rows nr n (Gs_of R K L))%nat -> (c < nr)%nat ->
    ent K M r c = merge K (oinv K (ofnat K n)) nr n (Gs_of R K L) (X_of K (invs_l K nr L)) r c.
Proof. exact (merge_l_spec R K eqbR). Qed.
End S.

(* closed instance at the carrier the check executes: complex pairs over Qc *)
Theorem C04_identical_refs_complexQ : forall invn nr n (Gs:nat->setupG (C Qc)) (X:nat->fmat (C Qc)) (G:fmat (C Qc)),
  (forall k, (k < n)%nat -> feq nr nr (Grr (Gs k)) G) ->
  (forall k, (k < n)%nat -> inv_contract QcC nr (Grr (Gs k)) (X k)) ->
  cmul QcOps (ofnat QcC n) invn = c1 QcOps ->
  feq (merge_rows nr n Gs) nr (merge QcC invn nr n Gs X)
      (fun r c => if (r <? nr)%nat then G r c else vstk QcC n (fun k => nmov (Gs k)) (fun k => Gmr (Gs k)) (r - nr)%nat c).
Proof. exact (preger_identical_refs (C Qc) QcC (CRth Qc QcOps QcRth)). Qed.

(* ---------------------------------------------------------------------------------------------------------------
   Composition with C13: csd INSTANTIATED by the modelled estimator of Model/M_spectra.v (no oracle left for it).
   R is now the REAL sample carrier; the spectra live in complex pairs C R with the ring COps K.
   sd_par R = run parameters as the model sees them (ParPer: 'per' = Welch with window w, twiddle table tw, 1/n, scale,
   1/K, nxseg n, step = n - noverlap, K segments;  ParCor: 'cor');  sd_model K p Y Yref a b f = the modelled SD_est on
   stacked data;  welch_csd K p x y f = that model on one channel record x against one reference record y (Rec = nat -> R);
   gain_rec K g x = the record g.x.  Proofs/P_spectral_compose.v. *)
Section W.
Variable R:Type. Variable K:Ops R.
Hypothesis Rth : ring_theory (o0 K) (o1 K) (oadd K) (omul K) (osub K) (oopp K) (@eq R).

(* sd_model IS C13's model, for either method and any window / twiddle table / nxseg / overlap *)
Theorem C04_welch_model_is_C13_model :
  (forall tw w invn scale invK n step nseg,
     sd_model K (ParPer tw w invn scale invK n step nseg) = M_spectra.sd_per K tw w invn scale invK n step nseg) /\
  (forall tw we invm invn invK n nseg,
     sd_model K (ParCor tw we invm invn invK n nseg) = M_spectra.sd_cor K tw we invm invn invK n nseg).
Proof. split; reflexivity. Qed.

(* the two things C04 asks of csd hold for it: (1) entry-locality - the matrix on the stacked data is entry-wise the
   two-record estimator, which sees the samples only; (2) degree-2 homogeneity in a common real gain, in exactly the
   form of C04_gain_data's hypothesis (g2 = g.g + 0i in the complex carrier) *)
Theorem C04_welch_is_admissible_estimator : forall (p:sd_par R),
  (forall (Y Yref:M_spectra.rsig R) a b f, sd_model K p Y Yref a b f = welch_csd K p (Y a) (Yref b) f) /\
  (forall (x x' y y':nat->R) f, (forall t, x t = x' t) -> (forall t, y t = y' t) ->
     welch_csd K p x y f = welch_csd K p x' y' f) /\
  (forall (g:R) (x y:nat->R) f,
     welch_csd K p (gain_rec K g x) (gain_rec K g y) f
     = omul (COps K) (cofR K (omul K g g)) (welch_csd K p x y f)).
Proof. exact (welch_admissible R K Rth). Qed.

(* the blocks SD_PreGER keeps of a setup are blocks of that setup's modelled matrix *)
Theorem C04_setup_blocks_welch : forall (p:sd_par R) (f:nat) (d:setupD (nat->R)),
  (forall a b, Grr (setup_sd (welch_csd K) p f d) a b = sd_model K p (d_ref d) (d_ref d) a b f) /\
  (forall a b, Gmr (setup_sd (welch_csd K) p f d) a b = sd_model K p (d_mov d) (d_ref d) a b f).
Proof. exact (setup_blocks_model R K). Qed.

(* C04_gain_data with the estimator instantiated: every record of setup i multiplied by the real g; only the
   inverse contract remains as a hypothesis *)
Theorem C04_gain_data_welch : forall invn nr n (p:sd_par R) (Y:nat->setupD (nat->R)) (X X':nat->nat->fmat (C R))
    (i:nat) (g:R) (f:nat),
  (i < n)%nat ->
  let Y' := fun k => if Nat.eqb k i then scaleD (gain_rec K g) (Y k) else Y k in
  let Gs := fun k => setup_sd (welch_csd K) p f (Y k) in
  (forall k, (k < n)%nat -> inv_contract (COps K) nr (Grr (Gs k)) (X f k)) ->
  (forall k, (k < n)%nat -> inv_contract (COps K) nr (Grr (setup_sd (welch_csd K) p f (Y' k))) (X' f k)) ->
  let M' := fadd (COps K) (gmean (COps K) invn n Gs)
                 (fscal (COps K) (omul (COps K) (osub (COps K) (cofR K (omul K g g)) (o1 (COps K))) invn) (Grr (Gs i))) in
  feq (merge_rows nr n Gs) nr (sd_preger (COps K) (welch_csd K) invn nr n p Y' X' f)
      (merge_with (COps K) M' nr n (fun k => d_nmov (Y k)) (transm (COps K) nr Gs (X f))).
Proof. exact (preger_gain_data_welch R K Rth). Qed.

(* C04_simultaneous with the estimator instantiated: setups whose reference records carry the same samples =>
   merged = the modelled SD_est of (references, roving_0, roving_1, ...) against the references, at the same line,
   for either method and every parameter; only the inverse contract and n.invn = 1 remain *)
Theorem C04_simultaneous_welch : forall invn nr n (p:sd_par R) (Y:nat->setupD (nat->R)) (X:nat->nat->fmat (C R))
    (ref:nat->nat->R) (f:nat),
  (forall k a t, (k < n)%nat -> (a < nr)%nat -> d_ref (Y k) a t = ref a t) ->
  (forall k, (k < n)%nat -> inv_contract (COps K) nr (Grr (setup_sd (welch_csd K) p f (Y k))) (X f k)) ->
  omul (COps K) (ofnat (COps K) n) invn = o1 (COps K) ->
  feq (merge_rows nr n (fun k => setup_sd (welch_csd K) p f (Y k))) nr
      (sd_preger (COps K) (welch_csd K) invn nr n p Y X f)
      (fun r c => sd_model K p (all_sensors nr n ref Y) ref r c f).
Proof. exact (preger_simultaneous_welch R K Rth). Qed.
(* ... and n.invn = 1 may be checked in R when 1/n is real *)
Theorem C04_count_inverse_real : forall n (invn:R),
  omul K (ofnat K n) invn = o1 K -> omul (COps K) (ofnat (COps K) n) (cofR K invn) = o1 (COps K).
Proof. exact (count_inverse_cofR R K Rth). Qed.
End W.

Print Assumptions C04_structure.
Print Assumptions C04_identical_refs.
Print Assumptions C04_simultaneous.
Print Assumptions C04_gain.
Print Assumptions C04_gain_data.
Print Assumptions C04_call_structure.
Print Assumptions C04_uses_run_params.
Print Assumptions C04_homogeneous.
Print Assumptions C04_exec_sound.
Print Assumptions C04_dims.
Print Assumptions C04_merge_l_spec.
Print Assumptions C04_identical_refs_complexQ.
Print Assumptions C04_welch_model_is_C13_model.
Print Assumptions C04_welch_is_admissible_estimator.
Print Assumptions C04_setup_blocks_welch.
Print Assumptions C04_gain_data_welch.
Print Assumptions C04_simultaneous_welch.
Print Assumptions C04_count_inverse_real.

(* non-vacuity.  Two setups, 2 references, 1 and 2 roving sensors, Hermitian complex reference block G1 (det 91/16):
   (a) the adjugate inverse meets the two-sided contract (certificate T) and with identical reference blocks the
       merged matrix is vstack(G1, A1, A2);
   (b) gain: setup 1 has another reference block G2; multiplying its spectra by g2 = 4 leaves both transmissibilities
       unchanged and moves the mean by (4-1)/2 . G2 : the merged matrix computed from the scaled spectra equals the
       old transmissibilities applied to the new mean. *)
Open Scope string_scope.
Definition exG1 : list (list CQ) := [[(q 2 1, q 0 1); (q 1 2, q 1 4)]; [(q 1 2, q (-1) 4); (q 3 1, q 0 1)]].
Definition exG2 : list (list CQ) := [[(q 1 1, q 0 1); (q 1 3, q (-1) 1)]; [(q 1 3, q 1 1); (q 5 1, q 0 1)]].
Definition exA1 : list (list CQ) := [[(q 1 1, q 1 1); (q 2 1, q 0 1)]].
Definition exA2 : list (list CQ) := [[(q 1 3, q 1 1); (q 2 1, q 5 1)]; [(q 0 1, q 1 1); (q 7 1, q 0 1)]].
Definition exScale (g:CQ) (A:list (list CQ)) := map (map (cmul QcOps g)) A.

Example C04_example_identical :
  run_line_inv 2 [(exG1, exA1); (exG1, exA2)] = "T|" ++ showCMat (exG1 ++ exA1 ++ exA2).
Proof. vm_compute. reflexivity. Qed.

Example C04_example_gain :
  let L := [(exG1, exA1); (exG2, exA2)] in
  let L' := [(exG1, exA1); (exScale (q 4 1, q 0 1) exG2, exScale (q 4 1, q 0 1) exA2)] in
  let Gs := Gs_of CQ QcC L in
  let M' := fadd QcC (gmean QcC (q 1 2, q 0 1) 2 Gs) (fscal QcC (cmul QcOps (q 3 1, q 0 1) (q 1 2, q 0 1)) (Grr (Gs 1%nat))) in
  cert_l QcC ceqb 2 L = true /\ cert_l QcC ceqb 2 L' = true /\
  match merge_l QcC ceqb 2 L' with
  | Ok a => feqb ceqb 5 2 (fm_of QcC a) (merge_with QcC M' 2 2 (fun k => nmov (Gs k)) (transm QcC 2 Gs (X_of QcC (invs_l QcC 2 L))))
  | ErrLinAlg => false
  end = true /\
  match merge_l QcC ceqb 2 L', merge_l QcC ceqb 2 L with
  | Ok a, Ok b => ceqb (ent QcC a 0%nat 0%nat) (ent QcC b 0%nat 0%nat)      (* the mean reference block did change *)
  | _, _ => true
  end = false.
Proof. vm_compute. repeat split; reflexivity. Qed.

(* the division-free tables agree with the merged matrix on the same instance: den . merged = num, certificate T *)
Example C04_example_exec :
  let L := [(exG1, exA1); (exG2, exA2)] in
  let r := ff_tab QcC ceqb true 2 L in
  ff_cert r = true /\
  match merge_l QcC ceqb 2 L with
  | Ok M => forallb (fun i => forallb (fun j => ceqb (cmul QcOps (lget QcC (ff_dent r) i) (ent QcC M i j)) (ent QcC (ff_numt r) i j)) (seq 0 2)) (seq 0 5)
  | ErrLinAlg => false
  end = true.
Proof. vm_compute. split; reflexivity. Qed.

(* non-vacuity of the composition (exact, n = 4 twiddle table omega = -i, periodic Hann [0,1/2,1,1/2], 50 % overlap,
   8 samples = 3 segments; 'cor': 4 box-car half segments, window [1,1/2,1/4,1/2]).  One simultaneous recording: reference
   cos(2 pi t/4), roving 2 sin(2 pi t/4) (setup 0) and a broadband record (setup 1).  The 1 x 1 reference block is non-zero
   (its complex reciprocal meets the two-sided contract), 2 . 1/2 = 1, and the merged 3 x 1 matrix at line 1 equals the
   modelled SD_est of the stacked recording, for 'per' and for 'cor'; the roving entries are not zero. *)
Definition C04_ex_Y : nat -> setupD (nat -> Qc) :=
  fun k => mkD 1 (fun _ => sc_ex_cos) (fun _ => if Nat.eqb k 0 then sc_ex_sin2 else sc_ex_broad).
Example C04_example_welch_simultaneous :
  forallb (fun p =>
    let X := sc_ex_inv1 p C04_ex_Y in
    forallb (fun k => sc_ex_contract1 (Grr (setup_sd (welch_csd QcOps) p 1 (C04_ex_Y k))) (X 1%nat k)) (seq 0 2)
    && ceqb (cmul QcOps (ofnat QcC 2) (q 1 2, q 0 1)) (c1 QcOps)
    && feqb ceqb 3 1 (sd_preger QcC (welch_csd QcOps) (q 1 2, q 0 1) 1 2 p C04_ex_Y X 1)
                     (fun r c => sd_model QcOps p (all_sensors 1 2 (fun _ => sc_ex_cos) C04_ex_Y) (fun _ => sc_ex_cos) r c 1)
    && negb (ceqb (sd_preger QcC (welch_csd QcOps) (q 1 2, q 0 1) 1 2 p C04_ex_Y X 1 1%nat 0%nat) (c0 QcOps))
    && negb (ceqb (sd_preger QcC (welch_csd QcOps) (q 1 2, q 0 1) 1 2 p C04_ex_Y X 1 2%nat 0%nat) (c0 QcOps)))
    [sc_ex_per; sc_ex_cor] = true.
Proof. vm_compute. reflexivity. Qed.
(* gain: two setups with DIFFERENT reference records (cos; broadband), the records of setup 1 multiplied by g = 3: both
   inverse contracts hold and the merged matrix computed from the scaled records equals the old transmissibilities
   applied to mean + (9 - 1)/2 . Grr(1); the mean did change *)
Definition C04_ex_Yg : nat -> setupD (nat -> Qc) :=
  fun k => if Nat.eqb k 0 then mkD 1 (fun _ => sc_ex_cos) (fun _ => sc_ex_sin2) else mkD 1 (fun _ => sc_ex_broad) (fun _ => sc_ex_cos).
Example C04_example_welch_gain :
  forallb (fun p =>
    let Y := C04_ex_Yg in
    let Y' := fun k => if Nat.eqb k 1 then scaleD (gain_rec QcOps (q 3 1)) (Y k) else Y k in
    let X := sc_ex_inv1 p Y in let X' := sc_ex_inv1 p Y' in
    let Gs := fun k => setup_sd (welch_csd QcOps) p 1 (Y k) in
    let M' := fadd QcC (gmean QcC (q 1 2, q 0 1) 2 Gs)
                (fscal QcC (cmul QcOps (csub QcOps (cofR QcOps (q 9 1)) (c1 QcOps)) (q 1 2, q 0 1)) (Grr (Gs 1%nat))) in
    forallb (fun k => sc_ex_contract1 (Grr (Gs k)) (X 1%nat k)) (seq 0 2)
    && forallb (fun k => sc_ex_contract1 (Grr (setup_sd (welch_csd QcOps) p 1 (Y' k))) (X' 1%nat k)) (seq 0 2)
    && feqb ceqb 3 1 (sd_preger QcC (welch_csd QcOps) (q 1 2, q 0 1) 1 2 p Y' X' 1)
                     (merge_with QcC M' 1 2 (fun k => d_nmov (Y k)) (transm QcC 1 Gs (X 1%nat)))
    && negb (ceqb (sd_preger QcC (welch_csd QcOps) (q 1 2, q 0 1) 1 2 p Y' X' 1 0%nat 0%nat)
                  (sd_preger QcC (welch_csd QcOps) (q 1 2, q 0 1) 1 2 p Y X 1 0%nat 0%nat)))
    [sc_ex_per; sc_ex_cor] = true.
Proof. vm_compute. reflexivity. Qed.
