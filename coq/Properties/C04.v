(* C04 - PreGER spectral merging is consistent with the single-setup spectral matrix.
   Statements only: each theorem is closed by [exact] of a lemma of Proofs/P_preger_sd.v.
   Model: Model/M_preger_sd.v (per frequency line, any commutative ring; executed at complex pairs over Qc).
   np.linalg.inv is an oracle (two-sided contract inv_contract), csd (SD_est entry) is an oracle (C13). *)
From Coq Require Import List Arith Lia Ring ZArith QArith Qcanon String.
From PyOMA.Base Require Import Carrier FMat Cplx Show.
From PyOMA.Model Require Import M_preger_sd.
From PyOMA.Proofs Require Import P_preger_sd.
Import ListNotations.

Section S.
Variable R:Type. Variable K:Ops R.
Hypothesis Rth : ring_theory (o0 K) (o1 K) (oadd K) (omul K) (osub K) (oopp K) (@eq R).
Local Open Scope K_scope.
Notation "1" := (o1 K) : K_scope.
Infix "+" := (oadd K) : K_scope. Infix "*" := (omul K) : K_scope. Infix "-" := (osub K) : K_scope.
Variable Rec : Type. Variable P : Type.
Variable csd csd' : P -> Rec -> Rec -> nat -> R.
Variable eqbR : R -> R -> bool.

(* reference block = mean over setups of Grr(i); roving block k = Gmr(k).inv(Grr(k)).mean; references first, then the
   roving blocks in setup order; every row is exactly one of these; total n_ref + sum n_mov rows *)
Theorem C04_structure : forall invn nr n (Gs:nat->setupG R) (X:nat->fmat R),
  let nm := fun k => nmov (Gs k) in
  let M := gmean K invn n Gs in
  (forall a b, (a < nr)%nat -> merge K invn nr n Gs X a b = invn * sumn K n (fun i => Grr (Gs i) a b)) /\
  (forall k a b, (k < n)%nat -> (a < nm k)%nat ->
     merge K invn nr n Gs X (nr + off nm k + a)%nat b = fmul K nr (fmul K nr (Gmr (Gs k)) (X k)) M a b) /\
  (forall r, (r < merge_rows nr n Gs)%nat ->
     (r < nr)%nat \/ exists k a, (k < n)%nat /\ (a < nm k)%nat /\ r = (nr + off nm k + a)%nat) /\
  (forall k a k' a', (a < nm k)%nat -> (a' < nm k')%nat -> (nr + off nm k + a = nr + off nm k' + a')%nat -> k = k' /\ a = a') /\
  (forall k a, (k < n)%nat -> (a < nm k)%nat -> (nr + off nm k + a < merge_rows nr n Gs)%nat).
Proof. exact (preger_structure R K). Qed.

(* identical reference spectra in all setups: merged = vstack(Grr, Gmr(0), Gmr(1), ...) *)
Theorem C04_identical_refs : forall invn nr n (Gs:nat->setupG R) (X:nat->fmat R) (G:fmat R),
  (forall k, (k < n)%nat -> feq nr nr (Grr (Gs k)) G) ->
  (forall k, (k < n)%nat -> inv_contract K nr (Grr (Gs k)) (X k)) ->
  ofnat K n * invn = 1 ->
  feq (merge_rows nr n Gs) nr (merge K invn nr n Gs X)
      (fun r c => if (r <? nr)%nat then G r c else vstk K n (fun k => nmov (Gs k)) (fun k => Gmr (Gs k)) (r - nr)%nat c).
Proof. exact (preger_identical_refs R K Rth). Qed.

(* the property's first sentence: setups cut from one simultaneous recording (identical reference records) =>
   merged = SD_est(all sensors ordered references, roving_0, roving_1, ..., references) at the same line, for every
   run parameter p = (nxseg, pov, method) *)
Theorem C04_simultaneous : forall invn nr n (p:P) (Y:nat->setupD Rec) (X:nat->nat->fmat R) (ref:nat->Rec) (f:nat),
  (forall k a, (k < n)%nat -> (a < nr)%nat -> d_ref (Y k) a = ref a) ->
  (forall k, (k < n)%nat -> inv_contract K nr (Grr (setup_sd csd p f (Y k))) (X f k)) ->
  ofnat K n * invn = 1 ->
  feq (merge_rows nr n (fun k => setup_sd csd p f (Y k))) nr
      (sd_preger K csd invn nr n p Y X f) (sd_est csd p (all_sensors nr n ref Y) ref f).
Proof. exact (preger_simultaneous R K Rth Rec P csd). Qed.

(* setup i multiplied by a constant (spectra by g2): only the mean reference block changes,
   mean' = mean + (g2-1)/n Grr(i); every transmissibility Gmr(k).inv(Grr(k)) and the row layout are unchanged *)
Theorem C04_gain : forall invn nr n (Gs Gs':nat->setupG R) (X X':nat->fmat R) (i:nat) (g2:R),
  (i < n)%nat ->
  (forall k, (k < n)%nat -> inv_contract K nr (Grr (Gs k)) (X k)) ->
  (forall k, (k < n)%nat -> inv_contract K nr (Grr (Gs' k)) (X' k)) ->
  (forall k, (k < n)%nat -> nmov (Gs' k) = nmov (Gs k)) ->
  (forall k, (k < n)%nat -> k <> i ->
     feq nr nr (Grr (Gs' k)) (Grr (Gs k)) /\ feq (nmov (Gs k)) nr (Gmr (Gs' k)) (Gmr (Gs k))) ->
  feq nr nr (Grr (Gs' i)) (fscal K g2 (Grr (Gs i))) ->
  feq (nmov (Gs i)) nr (Gmr (Gs' i)) (fscal K g2 (Gmr (Gs i))) ->
  let M := gmean K invn n Gs in
  let M' := fadd K M (fscal K ((g2 - 1) * invn) (Grr (Gs i))) in
  feq nr nr (gmean K invn n Gs') M' /\
  (forall k, (k < n)%nat -> feq (nmov (Gs k)) nr (transm K nr Gs' X' k) (transm K nr Gs X k)) /\
  feq (merge_rows nr n Gs) nr (merge K invn nr n Gs' X')
      (merge_with K M' nr n (fun k => nmov (Gs k)) (transm K nr Gs X)).
Proof. exact (preger_gain R K Rth). Qed.

Theorem C04_gain_data : forall invn nr n (p:P) (Y:nat->setupD Rec) (X X':nat->nat->fmat R) (i:nat) (g2:R) (scal:Rec->Rec) (f:nat),
  (i < n)%nat ->
  (forall x y, csd p (scal x) (scal y) f = g2 * csd p x y f) ->
  let Y' := fun k => if Nat.eqb k i then scaleD scal (Y k) else Y k in
  let Gs := fun k => setup_sd csd p f (Y k) in
  (forall k, (k < n)%nat -> inv_contract K nr (Grr (Gs k)) (X f k)) ->
  (forall k, (k < n)%nat -> inv_contract K nr (Grr (setup_sd csd p f (Y' k))) (X' f k)) ->
  let M' := fadd K (gmean K invn n Gs) (fscal K ((g2 - 1) * invn) (Grr (Gs i))) in
  feq (merge_rows nr n Gs) nr (sd_preger K csd invn nr n p Y' X' f)
      (merge_with K M' nr n (fun k => d_nmov (Y k)) (transm K nr Gs (X f))).
Proof. exact (preger_gain_data R K Rth Rec P csd). Qed.

(* the run parameters act only through the per-setup estimates *)
Theorem C04_call_structure : forall invn nr n (p:P) (Y:nat->setupD Rec) X f,
  sd_preger K csd invn nr n p Y X f = merge K invn nr n (fun k => setup_sd csd p f (Y k)) (X f).
Proof. exact (preger_call_structure R K Rec P csd). Qed.

Theorem C04_uses_run_params : forall invn nr n (p p':P) (Y:nat->setupD Rec) (X X':nat->nat->fmat R) (f:nat),
  (forall k a b, (k < n)%nat -> (a < nr)%nat -> (b < nr)%nat ->
     csd p (d_ref (Y k) a) (d_ref (Y k) b) f = csd' p' (d_ref (Y k) a) (d_ref (Y k) b) f) ->
  (forall k a b, (k < n)%nat -> (a < d_nmov (Y k))%nat -> (b < nr)%nat ->
     csd p (d_mov (Y k) a) (d_ref (Y k) b) f = csd' p' (d_mov (Y k) a) (d_ref (Y k) b) f) ->
  (forall k, (k < n)%nat -> inv_contract K nr (Grr (setup_sd csd p f (Y k))) (X f k)) ->
  (forall k, (k < n)%nat -> inv_contract K nr (Grr (setup_sd csd' p' f (Y k))) (X' f k)) ->
  feq (merge_rows nr n (fun k => setup_sd csd p f (Y k))) nr
      (sd_preger K csd' invn nr n p' Y X' f) (sd_preger K csd invn nr n p Y X f).
Proof. exact (preger_uses_run_params R K Rth Rec P csd csd'). Qed.

(* all spectra scaled by one constant: merged matrix scaled by it (the check feeds integer-scaled spectra) *)
Theorem C04_homogeneous : forall invn nr n (Gs Gs':nat->setupG R) (X X':nat->fmat R) (c:R),
  (forall k, (k < n)%nat -> inv_contract K nr (Grr (Gs k)) (X k)) ->
  (forall k, (k < n)%nat -> inv_contract K nr (Grr (Gs' k)) (X' k)) ->
  (forall k, (k < n)%nat -> nmov (Gs' k) = nmov (Gs k)) ->
  (forall k, (k < n)%nat -> feq nr nr (Grr (Gs' k)) (fscal K c (Grr (Gs k)))) ->
  (forall k, (k < n)%nat -> feq (nmov (Gs k)) nr (Gmr (Gs' k)) (fscal K c (Gmr (Gs k)))) ->
  feq (merge_rows nr n Gs) nr (merge K invn nr n Gs' X') (fscal K c (merge K invn nr n Gs X)).
Proof. exact (preger_homogeneous R K Rth). Qed.

(* the tables evaluated by the check (division-free, ring operations only) determine the merged matrix:
   row denominator * merged entry = numerator, for any inverse meeting the contract, 1..3 references *)
Theorem C04_exec_sound : forall docert nr (L:list (setupL R)) invn (X:nat->fmat R),
  (nr <= 3)%nat ->
  let n := List.length L in let Gs := Gs_of R K L in
  (forall k, (k < n)%nat -> inv_contract K nr (Grr (Gs k)) (X k)) ->
  ofnat K n * invn = 1 ->
  forall r c, (r < merge_rows nr n Gs)%nat -> (c < nr)%nat ->
    lget K (ff_dent (ff_tab K eqbR docert nr L)) r * merge K invn nr n Gs X r c
      = ent K (ff_numt (ff_tab K eqbR docert nr L)) r c.
Proof. exact (ff_tab_sound R K Rth eqbR). Qed.

(* list-level merged matrix: sizes, and entries = the function-level merge with the adjugate inverses *)
Theorem C04_dims : forall nr (L:list (setupL R)) M, merge_l K eqbR nr L = Ok M ->
  List.length M = merge_rows nr (List.length L) (Gs_of R K L) /\
  forall r, (r < merge_rows nr (List.length L) (Gs_of R K L))%nat -> List.length (nth r M []) = nr.
Proof. exact (merge_l_dims R K eqbR). Qed.

Theorem C04_merge_l_spec : forall nr (L:list (setupL R)) M, merge_l K eqbR nr L = Ok M ->
  let n := List.length L in
  forall r c, (r < merge_rows nr n (Gs_of R K L))%nat -> (c < nr)%nat ->
    ent K M r c = merge K (oinv K (ofnat K n)) nr n (Gs_of R K L) (X_of K (invs_l K nr L)) r c.
Proof. exact (merge_l_spec R K eqbR). Qed.
End S.

(* closed instance at the carrier the check executes: complex pairs over Qc *)
Theorem C04_identical_refs_complexQ : forall invn nr n (Gs:nat->setupG (C Qc)) (X:nat->fmat (C Qc)) (G:fmat (C Qc)),
  (forall k, (k < n)%nat -> feq nr nr (Grr (Gs k)) G) ->
  (forall k, (k < n)%nat -> inv_contract QcC nr (Grr (Gs k)) (X k)) ->
  cmul QcOps (ofnat QcC n) invn = c1 QcOps ->
  feq (merge_rows nr n Gs) nr (merge QcC invn nr n Gs X)
      (fun r c => if (r <? nr)%nat then G r c else vstk QcC n (fun k => nmov (Gs k)) (fun k => Gmr (Gs k)) (r - nr)%nat c).
Proof. exact (preger_identical_refs (C Qc) QcC (CRth Qc QcOps QcRth)). Qed.

Print Assumptions C04_structure.
Print Assumptions C04_identical_refs.
Print Assumptions C04_simultaneous.
Print Assumptions C04_gain.
Print Assumptions C04_gain_data.
Print Assumptions C04_call_structure.
Print Assumptions C04_uses_run_params.
Print Assumptions C04_homogeneous.
Print Assumptions C04_exec_sound.
Print Assumptions C04_dims.
Print Assumptions C04_merge_l_spec.
Print Assumptions C04_identical_refs_complexQ.

(* non-vacuity.  Two setups, 2 references, 1 and 2 roving sensors, Hermitian complex reference block G1 (det 91/16):
   (a) the adjugate inverse meets the two-sided contract (certificate T) and with identical reference blocks the
       merged matrix is vstack(G1, A1, A2);
   (b) gain: setup 1 has another reference block G2; multiplying its spectra by g2 = 4 leaves both transmissibilities
       unchanged and moves the mean by (4-1)/2 . G2 : the merged matrix computed from the scaled spectra equals the
       old transmissibilities applied to the new mean. *)
Open Scope string_scope.
Definition exG1 : list (list CQ) := [[(q 2 1, q 0 1); (q 1 2, q 1 4)]; [(q 1 2, q (-1) 4); (q 3 1, q 0 1)]].
Definition exG2 : list (list CQ) := [[(q 1 1, q 0 1); (q 1 3, q (-1) 1)]; [(q 1 3, q 1 1); (q 5 1, q 0 1)]].
Definition exA1 : list (list CQ) := [[(q 1 1, q 1 1); (q 2 1, q 0 1)]].
Definition exA2 : list (list CQ) := [[(q 1 3, q 1 1); (q 2 1, q 5 1)]; [(q 0 1, q 1 1); (q 7 1, q 0 1)]].
Definition exScale (g:CQ) (A:list (list CQ)) := map (map (cmul QcOps g)) A.

Example C04_example_identical :
  run_line_inv 2 [(exG1, exA1); (exG1, exA2)] = "T|" ++ showCMat (exG1 ++ exA1 ++ exA2).
Proof. vm_compute. reflexivity. Qed.

Example C04_example_gain :
  let L := [(exG1, exA1); (exG2, exA2)] in
  let L' := [(exG1, exA1); (exScale (q 4 1, q 0 1) exG2, exScale (q 4 1, q 0 1) exA2)] in
  let Gs := Gs_of CQ QcC L in
  let M' := fadd QcC (gmean QcC (q 1 2, q 0 1) 2 Gs) (fscal QcC (cmul QcOps (q 3 1, q 0 1) (q 1 2, q 0 1)) (Grr (Gs 1%nat))) in
  cert_l QcC ceqb 2 L = true /\ cert_l QcC ceqb 2 L' = true /\
  match merge_l QcC ceqb 2 L' with
  | Ok a => feqb ceqb 5 2 (fm_of QcC a) (merge_with QcC M' 2 2 (fun k => nmov (Gs k)) (transm QcC 2 Gs (X_of QcC (invs_l QcC 2 L))))
  | ErrLinAlg => false
  end = true /\
  match merge_l QcC ceqb 2 L', merge_l QcC ceqb 2 L with
  | Ok a, Ok b => ceqb (ent QcC a 0%nat 0%nat) (ent QcC b 0%nat 0%nat)      (* the mean reference block did change *)
  | _, _ => true
  end = false.
Proof. vm_compute. repeat split; reflexivity. Qed.

(* the division-free tables agree with the merged matrix on the same instance: den . merged = num, certificate T *)
Example C04_example_exec :
  let L := [(exG1, exA1); (exG2, exA2)] in
  let r := ff_tab QcC ceqb true 2 L in
  ff_cert r = true /\
  match merge_l QcC ceqb 2 L with
  | Ok M => forallb (fun i => forallb (fun j => ceqb (cmul QcOps (lget QcC (ff_dent r) i) (ent QcC M i j)) (ent QcC (ff_numt r) i j)) (seq 0 2)) (seq 0 5)
  | ErrLinAlg => false
  end = true.
Proof. vm_compute. split; reflexivity. Qed.
