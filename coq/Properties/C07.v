(* C07 - EFDD/FSDD recover frequency and damping of an exact SDOF spectral bell; estimates unchanged under positive
   scaling of the spectral matrix.
   Statements only: each theorem is closed by [exact] of a lemma of Proofs/P_efdd.v or Proofs/P_efdd_R.v.
   Proved (the ..._partial theorems together): construction of the bell (degree 1 in Sy for both methods, with the SVD
   oracle's triple transported; closed form on a rank-one-plus-floor matrix), scale invariance of everything the
   estimator computes after the SVD, exactness of the logarithmic-decrement fit and of the (xi, fn) formulas on an exact
   decay.  NOT proved: the numerical accuracy envelope (2.5 % / 15 %) of the sampled, band-limited, zero-padded
   transform - C07_full_statement below is a Definition and asserts nothing; the envelope is covered by the oracle
   sweep of harness/props/C07.py only. *)
From Coq Require Import List Arith ZArith QArith Qcanon Reals String.
From PyOMA.Base Require Import Carrier Cplx Show.
From PyOMA.Model Require Import M_efdd.
From PyOMA.Proofs Require Import P_efdd P_efdd_R.
Import ListNotations.

(* ---------------------------------------------------------------------------------------------------------------
   A. the bell is homogeneous of degree 1 (every commutative ring, every order decision gtb, both methods, cm close
   modes): if (U,S,V) meets the SVD contract for Sy[l] then (U, c S, V) meets it for c Sy[l]; every term of the bell
   built from the transported triple is c times the original term under the ORIGINAL MAC mask (the mask sees phi and
   the singular vectors only); hence SDOFbell(c Sy) = c SDOFbell(Sy) on every line, inside and outside the band. *)
Theorem C07_efdd_bell_homogeneous_partial :
  forall (R : Type) (K : Ops R) (gtb : R -> R -> bool),
  ring_theory (o0 K) (o1 K) (oadd K) (omul K) (osub K) (oopp K) eq ->
  forall (n Nf : nat) (Sy U V : nat -> cmat R) (S : nat -> nat -> R) (c : R),
  (forall l : nat, (l < Nf)%nat -> svd_ok K n (Sy l) (U l) (V l) (S l)) ->
  (forall l : nat, (l < Nf)%nat -> svd_ok K n (cmscal K c (Sy l)) (U l) (V l) (fun k : nat => omul K c (S l k))) /\
  (forall (m : meth) (phi : cvec R) (lim : R) (l k : nat),
     bell_term K gtb m n phi (cmscal K c (Sy l)) (omul K c (S l k)) (svec_of K U l k) lim =
     (if mac_pass K gtb n phi (svec_of K U l k) lim
      then cscal K c match m with EFDD => cofR K (S l k) | FSDD => quadH K n phi (Sy l) end
      else c0 K)) /\
  (forall (m : meth) (cm : nat) (phi : cvec R) (lim : R) (lo hi l : nat),
     sdof_bell K gtb m n cm phi (fun l0 : nat => cmscal K c (Sy l0)) (fun l0 k : nat => omul K c (S l0 k))
       (svec_of K U) lim lo hi l = cscal K c (sdof_bell K gtb m n cm phi Sy S (svec_of K U) lim lo hi l)).
Proof. exact efdd_bell_homogeneous. Qed.

(* for c > 0 the transported singular values are still non-negative and non-increasing (rationals) *)
Theorem C07_singular_values_stay_sorted :
  forall (n : nat) (sg : nat -> Qc) (c : Qc), (Q2Qc 0 < c)%Qc -> sv_sorted n sg -> sv_sorted n (fun k : nat => (c * sg k)%Qc).
Proof. exact sv_sorted_scale. Qed.

(* B. Sy = s phi phi^T + eps I with a real shape phi = nrm u (u the first column of a real orthogonal Ur), FDD shape
   phi_n = a u (a <> 0), MAClim below 1, over every field: the triple (Ur, diag(s|phi|^2+eps, eps, .., eps), Ur) meets
   the SVD contract; the FDD shape passes the MAC filter on every line; the EFDD term is s|phi|^2+eps and the FSDD
   term s (phi_n.phi)^2 + eps |phi_n|^2 - both affine in s with the floor as offset. *)
Theorem C07_bell_rank_one_partial :
  forall (R : Type) (K : Ops R) (gtb : R -> R -> bool),
  field_theory (o0 K) (o1 K) (oadd K) (omul K) (osub K) (oopp K) (odiv K) (oinv K) eq ->
  forall (n : nat) (Ur : nat -> nat -> R) (nrm a s eps lim : R),
  (0 < n)%nat ->
  (forall i j : nat, (i < n)%nat -> (j < n)%nat -> sumn K n (fun k : nat => omul K (Ur k i) (Ur k j)) = kd R K i j) ->
  (forall i j : nat, (i < n)%nat -> (j < n)%nat -> sumn K n (fun k : nat => omul K (Ur i k) (Ur j k)) = kd R K i j) ->
  a <> o0 K ->
  gtb (o1 K) lim = true ->
  svd_ok K n (r1_Sy R K Ur nrm s eps) (r1_U R K Ur) (r1_U R K Ur) (r1_S R K nrm s eps) /\
  r1_S R K nrm s eps 0 =
    oadd K (omul K s (sumn K n (fun i : nat => omul K (r1_phi R K Ur nrm i) (r1_phi R K Ur nrm i)))) eps /\
  (forall k : nat, (0 < k)%nat -> r1_S R K nrm s eps k = eps) /\
  (forall l : nat, mac_pass K gtb n (r1_phin R K Ur a) (svec_of K (fun _ : nat => r1_U R K Ur) l 0) lim = true) /\
  (forall l : nat,
     bell_term K gtb EFDD n (r1_phin R K Ur a) (r1_Sy R K Ur nrm s eps) (r1_S R K nrm s eps 0)
       (svec_of K (fun _ : nat => r1_U R K Ur) l 0) lim =
     cofR K (oadd K (omul K s (sumn K n (fun i : nat => omul K (r1_phi R K Ur nrm i) (r1_phi R K Ur nrm i)))) eps)) /\
  (forall l : nat,
     bell_term K gtb FSDD n (r1_phin R K Ur a) (r1_Sy R K Ur nrm s eps) (r1_S R K nrm s eps 0)
       (svec_of K (fun _ : nat => r1_U R K Ur) l 0) lim =
     cofR K
       (oadd K
          (omul K s
             (omul K (sumn K n (fun i : nat => omul K (r1_p R K Ur a i) (r1_phi R K Ur nrm i)))
                (sumn K n (fun i : nat => omul K (r1_p R K Ur a i) (r1_phi R K Ur nrm i)))))
          (omul K eps (sumn K n (fun i : nat => omul K (r1_p R K Ur a i) (r1_p R K Ur a i)))))).
Proof. exact bell_rank_one. Qed.

(* C. scale invariance on the executable model (exact rationals): multiplying the correlation record by c > 0 changes
   NOTHING of the result - error or not, extremum indices, log arguments |m_0|/|m_k|, mean period - for every record,
   time scale, sppk and npmax. *)
Theorem C07_efdd_scale_invariant_partial :
  forall (c : Qc) (full : list Qc) (tlag : Qc) (sppk npmax : nat),
  (Q2Qc 0 < c)%Qc -> efdd_time (map (Qcmult c) full) tlag sppk npmax = efdd_time full tlag sppk npmax.
Proof. exact efdd_time_scale_invariant. Qed.

(* ... hence, for every inverse transform that is homogeneous (the only clause of the FFT contract used), the whole
   chain after the SVD is invariant under Sy -> c Sy with the transported singular values: same Fn, Xi (they are
   functions of the unchanged record: fn^2 = fn2_of Td xi^2, xi^2 = xi2_of pi^2 lam, lam from log of the ratios). *)
Theorem C07_efdd_pipeline_scale_invariant_partial :
  forall ifft_re : list QcC -> list Qc,
  (forall (c : Qc) (b : list (C Qc)), ifft_re (map (cscal QcOps c) b) = map (Qcmult c) (ifft_re b)) ->
  forall (m : meth) (n cm : nat) (phi : cvec Qc) (Sy : nat -> cmat Qc) (sig : nat -> nat -> Qc)
    (svec : nat -> nat -> cvec Qc) (lim : Qc) (lo hi Nf : nat) (tlag : Qc) (sppk npmax : nat) (c : Qc),
  (Q2Qc 0 < c)%Qc ->
  efdd_after_svd ifft_re
    (map (sdof_bell QcOps Qcgtb m n cm phi (fun l : nat => cmscal QcOps c (Sy l)) (fun l k : nat => (c * sig l k)%Qc) svec lim lo hi)
       (seq 0 Nf)) tlag sppk npmax =
  efdd_after_svd ifft_re (map (sdof_bell QcOps Qcgtb m n cm phi Sy sig svec lim lo hi) (seq 0 Nf)) tlag sppk npmax.
Proof. exact efdd_pipeline_scale_invariant. Qed.

(* the model's "first index holding the value" is np.argmin(abs(x - v)) *)
Theorem C07_index_of_is_argmin :
  forall (v : Qc) (l : list Qc) (j : nat),
  index_of v l 0 = Some j -> argmin_first (map (fun y : Qc => Qcabs (y - v)%Qc) l) = Some j.
Proof. exact index_of_argmin. Qed.

(* D. at R.  Extrema m_k = (-1)^k A rho^k of an exact decay: delta_k = k ln(1/rho), the least-squares slope the model
   computes is exactly ln(1/rho) per half period and lam = 2 ln(1/rho). *)
Theorem C07_logdec_fit_exact_partial :
  forall (A rho : R) (n : nat),
  (A <> 0)%R -> (0 < rho < 1)%R -> (2 <= n)%nat ->
  let delta := map (fun k : nat => ln (Rabs (decay_ext A rho 0) / Rabs (decay_ext A rho k))) (seq 0 n) in
  (forall k : nat, (k < n)%nat -> nth k delta 0%R = (INR k * ln (/ rho))%R) /\
  gslope ROps_c07 delta = ln (/ rho) /\ glam_of ROps_c07 Per 0%R delta = (2 * ln (/ rho))%R.
Proof. exact logdec_fit_exact. Qed.

(* xi = d/sqrt(4 pi^2 + d^2) for the decrement d = 2 pi xi/sqrt(1-xi^2), fn = fd/sqrt(1-xi^2), and the algebraic
   invariants the executable model prints (xi^2, fn^2) are the squares of the true values *)
Theorem C07_logdec_inv_partial :
  forall xi fn : R,
  (0 <= xi < 1)%R -> (0 < fn)%R ->
  let d := (2 * PI * xi / sqrt (1 - xi ^ 2))%R in
  let Td := (/ (fn * sqrt (1 - xi ^ 2)))%R in
  gxi2_of ROps_c07 (PI * PI)%R d = (xi * xi)%R /\
  gfn2_of ROps_c07 Td (xi * xi)%R = (fn * fn)%R /\
  (d / sqrt (4 * PI ^ 2 + d ^ 2))%R = xi /\ (/ Td / sqrt (1 - xi ^ 2))%R = fn.
Proof. exact logdec_inv_model. Qed.

(* the chain on the exact free decay exp(-xi wn t) cos(wd t + ph) seen at its extrema (one every half damped period) *)
Theorem C07_logdec_chain_exact_partial :
  forall (A xi fn : R) (n : nat),
  (A <> 0)%R -> (0 < xi < 1)%R -> (0 < fn)%R -> (2 <= n)%nat ->
  let wn := (2 * PI * fn)%R in
  let Td := (/ (fn * sqrt (1 - xi ^ 2)))%R in
  let rho := exp (- xi * wn * (Td / 2)) in
  let delta := map (fun k : nat => ln (Rabs (decay_ext A rho 0) / Rabs (decay_ext A rho k))) (seq 0 n) in
  let lam := glam_of ROps_c07 Per 0%R delta in
  lam = (2 * PI * xi / sqrt (1 - xi ^ 2))%R /\
  gxi2_of ROps_c07 (PI * PI)%R lam = (xi * xi)%R /\
  gfn2_of ROps_c07 Td (xi * xi)%R = (fn * fn)%R /\ (lam / sqrt (4 * PI ^ 2 + lam ^ 2))%R = xi.
Proof. exact logdec_chain_exact. Qed.

(* ---------------------------------------------------------------------------------------------------------------
   E. what is NOT proved: the accuracy envelope.  For a point of the property's quantifier the bell on the band is the
   sampled analytic density; a rational record within 1e-12 of the real part of its zero-padded orthonormal inverse
   transform, fed to the executable model with the default sppk/npmax and logarithms within 1e-12, yields estimates
   within 2.5 % / 15 %.  The definition below asserts nothing. *)
Definition C07_full_statement : Prop :=
  forall (fs fn xi nphi2 eps:R) (nxseg lo hi:nat) (corr delta:list Qc) (tlag pi2:Qc) (d:decay),
  let Nf := (nxseg / 2 + 1)%nat in
  let bw := (2 * xi * fn)%R in
  (0 < fs /\ 0.04 * fs <= fn <= 0.25 * fs /\ 0.02 <= xi <= 0.05 /\ 0 < nphi2 /\ 0 <= eps <= 1e-7 * nphi2 / (2 * xi * fn * fn) ^ 2)%R ->
  (1024 <= nxseg <= 8192)%nat -> (bw >= 4 * fs / INR nxseg)%R -> (fn * INR (nxseg / 2) / fs >= 30)%R ->
  (lo < hi < Nf)%nat -> (INR hi * fs / INR nxseg - fn >= 4 * bw - bw / 2)%R -> (lo = 0%nat \/ fn - INR lo * fs / INR nxseg >= 4 * bw - bw / 2)%R ->
  List.length corr = (5 * Nf)%nat ->
  (forall j, (j < 5 * Nf)%nat ->
     Rabs (Qc2R (nth j corr 0%Qc) - ifft_re_R Nf (analytic_bell fs fn xi nphi2 eps nxseg lo hi) j)
     <= 1e-12 * ifft_re_R Nf (analytic_bell fs fn xi nphi2 eps nxseg lo hi) 0)%R ->
  (Rabs (Qc2R tlag - INR Nf / fs) <= 1e-12 * INR Nf / fs)%R -> (Rabs (Qc2R pi2 - PI * PI) <= 1e-12)%R ->
  efdd_time corr tlag 3 20 = Ok d ->
  List.length delta = 20%nat ->
  (forall k, (k < 20)%nat -> Rabs (Qc2R (nth k delta 0%Qc) - ln (Qc2R (nth k (d_ratio d) 1%Qc))) <= 1e-12)%R ->
  let xi2 := Qc2R (xi2_of pi2 (lam_of Per 0%Qc delta)) in
  let fn2 := Qc2R (fn2_of (d_Td d) (xi2_of pi2 (lam_of Per 0%Qc delta))) in
  (Rabs (sqrt fn2 - fn) <= 0.025 * fn /\ Rabs (sqrt xi2 - xi) <= 0.15 * xi)%R.

Print Assumptions C07_efdd_bell_homogeneous_partial.
Print Assumptions C07_singular_values_stay_sorted.
Print Assumptions C07_bell_rank_one_partial.
Print Assumptions C07_efdd_scale_invariant_partial.
Print Assumptions C07_efdd_pipeline_scale_invariant_partial.
Print Assumptions C07_index_of_is_argmin.
Print Assumptions C07_logdec_fit_exact_partial.
Print Assumptions C07_logdec_inv_partial.
Print Assumptions C07_logdec_chain_exact_partial.

(* non-vacuity 1: n = 2, Ur = [[3,-4],[4,3]]/5 (orthogonal), phi = 5 u = (3,4), phi_n = phi/4 = (3/4,1), s = 2, eps = 1/100,
   MAClim = 17/20: the hypotheses of C07_bell_rank_one_partial hold and the two bells are 2*25+1/100 and
   2*(25/4)^2 + (1/100)*(25/16).  (ex_Ur, ex_corr: Model/M_efdd.v) *)
Example C07_example_bell :
  (forall i j:nat, In i [0;1]%nat -> In j [0;1]%nat ->
     sumn QcOps 2 (fun k => (ex_Ur k i * ex_Ur k j)%Qc) = kd Qc QcOps i j /\
     sumn QcOps 2 (fun k => (ex_Ur i k * ex_Ur j k)%Qc) = kd Qc QcOps i j) /\
  Qcgtb (o1 QcOps) (q 17 20) = true /\
  showC (bell_term QcOps Qcgtb EFDD 2 (r1_phin Qc QcOps ex_Ur (q 5 4)) (r1_Sy Qc QcOps ex_Ur (q 5 1) (q 2 1) (q 1 100))
           (r1_S Qc QcOps (q 5 1) (q 2 1) (q 1 100) 0) (svec_of QcOps (fun _ => r1_U Qc QcOps ex_Ur) 7 0) (q 17 20))
    = "5001/100,0/1"%string /\
  showC (bell_term QcOps Qcgtb FSDD 2 (r1_phin Qc QcOps ex_Ur (q 5 4)) (r1_Sy Qc QcOps ex_Ur (q 5 1) (q 2 1) (q 1 100))
           (r1_S Qc QcOps (q 5 1) (q 2 1) (q 1 100) 0) (svec_of QcOps (fun _ => r1_U Qc QcOps ex_Ur) 7 0) (q 17 20))
    = "5001/64,0/1"%string.
Proof.
  split; [|split; [|split]].
  - intros i j Hi Hj. cbn [In] in Hi, Hj.
    destruct Hi as [<-|[<-|[]]]; destruct Hj as [<-|[<-|[]]]; split; apply Qc_is_canon; vm_compute; reflexivity.
  - vm_compute. reflexivity.
  - vm_compute. reflexivity.
  - vm_compute. reflexivity.
Qed.

(* non-vacuity 2: a decaying oscillation of period 6 samples (x_j = (9/10)^j cos(pi j/3), 48 samples, the half record
   is analysed): the model finds the extrema 3, 6, 9, .., the fit uses those numbered 1..3, and the record multiplied
   by 3/7 gives the same output. *)
Example C07_example_decay :
  showDecay (efdd_time ex_corr (q 24 1) 1 3) = "6 9 12|1/1 1000/729 1000000/531441|144/23"%string /\
  showDecay (efdd_time (map (Qcmult (q 3 7)) ex_corr) (q 24 1) 1 3) = showDecay (efdd_time ex_corr (q 24 1) 1 3) /\
  showErr match efdd_time ex_corr (q 24 1) 5 3 with Err e => e | Ok _ => NoModel end = "E:Index"%string.
Proof. vm_compute. repeat split; reflexivity. Qed.
