(* C07 - EFDD/FSDD recover frequency and damping of an exact SDOF spectral bell; estimates unchanged under positive
   scaling of the spectral matrix.
   Statements only: each theorem is closed by [exact] of a lemma of Proofs/P_efdd.v, Proofs/P_efdd_R.v or Proofs/P_efdd_svd.v.
   Proved (the ..._partial theorems together): construction of the bell (degree 1 in Sy for both methods, with the SVD
   oracle's triple transported; closed form on a rank-one-plus-floor matrix), scale invariance of everything the
   estimator computes after the SVD, exactness of the logarithmic-decrement fit and of the (xi, fn) formulas on an exact
   decay; (section F) independence from WHICH decomposition meeting the SVD contract is used - the first singular pair is
   unique up to a unit-modulus factor under a gap, MAC does not see that factor, hence the bell and everything after it are
   equal - and the mode-shape clause in exact arithmetic (MAC = 1 for every decomposition, every n).  NOT proved: the numerical accuracy envelope (2.5 % / 15 %) of the sampled, band-limited, zero-padded
   transform - C07_full_statement below is a Definition and asserts nothing; the envelope is covered by the oracle
   sweep of harness/props/C07.py only. *)
From Coq Require Import List Arith ZArith QArith Qcanon Reals String.
From PyOMA.Base Require Import Carrier Cplx Show.
From PyOMA.Model Require Import M_efdd M_efdd_svd.
From PyOMA.Proofs Require Import P_efdd P_efdd_R P_efdd_svd.
Import ListNotations.

(* ---------------------------------------------------------------------------------------------------------------
   A. the bell is homogeneous of degree 1 (every commutative ring, every order decision gtb, both methods, cm close
   modes): if (U,S,V) meets the SVD contract for Sy[l] then (U, c S, V) meets it for c Sy[l]; every term of the bell
   built from the transported triple is c times the original term under the ORIGINAL MAC mask (the mask sees phi and
   the singular vectors only); hence SDOFbell(c Sy) = c SDOFbell(Sy) on every line, inside and outside the band. *)
Theorem C07_efdd_bell_homogeneous_partial :
  forall (R : Type) (K : Ops R) (gtb : R -> R -> bool),
  ring_theory (o0 K) (o1 K) (oadd K) (omul K) (osub K) (oopp K) eq ->
  forall (n Nf : nat) (Sy U V : nat -> cmat R) (S : nat -> nat -> R) (c : R),
  (forall l : nat, (l < Nf)%nat -> svd_ok K n (Sy l) (U l) (V l) (S l)) ->
  (forall l : nat, (l < Nf)%nat -> svd_ok K n (cmscal K c (Sy l)) (U l) (V l) (fun k : nat => omul K c (S l k))) /\
  (forall (m : meth) (phi : cvec R) (lim : R) (l k : nat),
     bell_term K gtb m n phi (cmscal K c (Sy l)) (omul K c (S l k)) (svec_of K U l k) lim =
     (if mac_pass K gtb n phi (svec_of K U l k) lim
      then cscal K c match m with EFDD => cofR K (S l k) | FSDD => quadH K n phi (Sy l) end
      else c0 K)) /\
  (forall (m : meth) (cm : nat) (phi : cvec R) (lim : R) (lo hi l : nat),
     sdof_bell K gtb m n cm phi (fun l0 : nat => cmscal K c (Sy l0)) (fun l0 k : nat => omul K c (S l0 k))
       (svec_of K U) lim lo hi l = cscal K c (sdof_bell K gtb m n cm phi Sy S (svec_of K U) lim lo hi l)).
Proof. exact efdd_bell_homogeneous. Qed.

(* for c > 0 the transported singular values are still non-negative and non-increasing (rationals) *)
Theorem C07_singular_values_stay_sorted :
  forall (n : nat) (sg : nat -> Qc) (c : Qc), (Q2Qc 0 < c)%Qc -> sv_sorted n sg -> sv_sorted n (fun k : nat => (c * sg k)%Qc).
Proof. exact sv_sorted_scale. Qed.

(* B. Sy = s phi phi^T + eps I with a real shape phi = nrm u (u the first column of a real orthogonal Ur), FDD shape
   phi_n = a u (a <> 0), MAClim below 1, over every field: the triple (Ur, diag(s|phi|^2+eps, eps, .., eps), Ur) meets
   the SVD contract; the FDD shape passes the MAC filter on every line; the EFDD term is s|phi|^2+eps and the FSDD
   term s (phi_n.phi)^2 + eps |phi_n|^2 - both affine in s with the floor as offset. *)
Theorem C07_bell_rank_one_partial :
  forall (R : Type) (K : Ops R) (gtb : R -> R -> bool),
  field_theory (o0 K) (o1 K) (oadd K) (omul K) (osub K) (oopp K) (odiv K) (oinv K) eq ->
  forall (n : nat) (Ur : nat -> nat -> R) (nrm a s eps lim : R),
  (0 < n)%nat ->
  (forall i j : nat, (i < n)%nat -> (j < n)%nat -> sumn K n (fun k : nat => omul K (Ur k i) (Ur k j)) = kd R K i j) ->
  (forall i j : nat, (i < n)%nat -> (j < n)%nat -> sumn K n (fun k : nat => omul K (Ur i k) (Ur j k)) = kd R K i j) ->
  a <> o0 K ->
  gtb (o1 K) lim = true ->
  svd_ok K n (r1_Sy R K Ur nrm s eps) (r1_U R K Ur) (r1_U R K Ur) (r1_S R K nrm s eps) /\
  r1_S R K nrm s eps 0 =
    oadd K (omul K s (sumn K n (fun i : nat => omul K (r1_phi R K Ur nrm i) (r1_phi R K Ur nrm i)))) eps /\
  (forall k : nat, (0 < k)%nat -> r1_S R K nrm s eps k = eps) /\
  (forall l : nat, mac_pass K gtb n (r1_phin R K Ur a) (svec_of K (fun _ : nat => r1_U R K Ur) l 0) lim = true) /\
  (forall l : nat,
     bell_term K gtb EFDD n (r1_phin R K Ur a) (r1_Sy R K Ur nrm s eps) (r1_S R K nrm s eps 0)
       (svec_of K (fun _ : nat => r1_U R K Ur) l 0) lim =
     cofR K (oadd K (omul K s (sumn K n (fun i : nat => omul K (r1_phi R K Ur nrm i) (r1_phi R K Ur nrm i)))) eps)) /\
  (forall l : nat,
     bell_term K gtb FSDD n (r1_phin R K Ur a) (r1_Sy R K Ur nrm s eps) (r1_S R K nrm s eps 0)
       (svec_of K (fun _ : nat => r1_U R K Ur) l 0) lim =
     cofR K
       (oadd K
          (omul K s
             (omul K (sumn K n (fun i : nat => omul K (r1_p R K Ur a i) (r1_phi R K Ur nrm i)))
                (sumn K n (fun i : nat => omul K (r1_p R K Ur a i) (r1_phi R K Ur nrm i)))))
          (omul K eps (sumn K n (fun i : nat => omul K (r1_p R K Ur a i) (r1_p R K Ur a i)))))).
Proof. exact bell_rank_one. Qed.

(* C. scale invariance on the executable model (exact rationals): multiplying the correlation record by c > 0 changes
   NOTHING of the result - error or not, extremum indices, log arguments |m_0|/|m_k|, mean period - for every record,
   time scale, sppk and npmax. *)
Theorem C07_efdd_scale_invariant_partial :
  forall (c : Qc) (full : list Qc) (tlag : Qc) (sppk npmax : nat),
  (Q2Qc 0 < c)%Qc -> efdd_time (map (Qcmult c) full) tlag sppk npmax = efdd_time full tlag sppk npmax.
Proof. exact efdd_time_scale_invariant. Qed.

(* ... hence, for every inverse transform that is homogeneous (the only clause of the FFT contract used), the whole
   chain after the SVD is invariant under Sy -> c Sy with the transported singular values: same Fn, Xi (they are
   functions of the unchanged record: fn^2 = fn2_of Td xi^2, xi^2 = xi2_of pi^2 lam, lam from log of the ratios). *)
Theorem C07_efdd_pipeline_scale_invariant_partial :
  forall ifft_re : list QcC -> list Qc,
  (forall (c : Qc) (b : list (C Qc)), ifft_re (map (cscal QcOps c) b) = map (Qcmult c) (ifft_re b)) ->
  forall (m : meth) (n cm : nat) (phi : cvec Qc) (Sy : nat -> cmat Qc) (sig : nat -> nat -> Qc)
    (svec : nat -> nat -> cvec Qc) (lim : Qc) (lo hi Nf : nat) (tlag : Qc) (sppk npmax : nat) (c : Qc),
  (Q2Qc 0 < c)%Qc ->
  efdd_after_svd ifft_re
    (map (sdof_bell QcOps Qcgtb m n cm phi (fun l : nat => cmscal QcOps c (Sy l)) (fun l k : nat => (c * sig l k)%Qc) svec lim lo hi)
       (seq 0 Nf)) tlag sppk npmax =
  efdd_after_svd ifft_re (map (sdof_bell QcOps Qcgtb m n cm phi Sy sig svec lim lo hi) (seq 0 Nf)) tlag sppk npmax.
Proof. exact efdd_pipeline_scale_invariant. Qed.

(* the model's "first index holding the value" is np.argmin(abs(x - v)) *)
Theorem C07_index_of_is_argmin :
  forall (v : Qc) (l : list Qc) (j : nat),
  index_of v l 0 = Some j -> argmin_first (map (fun y : Qc => Qcabs (y - v)%Qc) l) = Some j.
Proof. exact index_of_argmin. Qed.

(* D. at R.  Extrema m_k = (-1)^k A rho^k of an exact decay: delta_k = k ln(1/rho), the least-squares slope the model
   computes is exactly ln(1/rho) per half period and lam = 2 ln(1/rho). *)
Theorem C07_logdec_fit_exact_partial :
  forall (A rho : R) (n : nat),
  (A <> 0)%R -> (0 < rho < 1)%R -> (2 <= n)%nat ->
  let delta := map (fun k : nat => ln (Rabs (decay_ext A rho 0) / Rabs (decay_ext A rho k))) (seq 0 n) in
  (forall k : nat, (k < n)%nat -> nth k delta 0%R = (INR k * ln (/ rho))%R) /\
  gslope ROps_c07 delta = ln (/ rho) /\ glam_of ROps_c07 Per 0%R delta = (2 * ln (/ rho))%R.
Proof. exact logdec_fit_exact. Qed.

(* xi = d/sqrt(4 pi^2 + d^2) for the decrement d = 2 pi xi/sqrt(1-xi^2), fn = fd/sqrt(1-xi^2), and the algebraic
   invariants the executable model prints (xi^2, fn^2) are the squares of the true values *)
Theorem C07_logdec_inv_partial :
  forall xi fn : R,
  (0 <= xi < 1)%R -> (0 < fn)%R ->
  let d := (2 * PI * xi / sqrt (1 - xi ^ 2))%R in
  let Td := (/ (fn * sqrt (1 - xi ^ 2)))%R in
  gxi2_of ROps_c07 (PI * PI)%R d = (xi * xi)%R /\
  gfn2_of ROps_c07 Td (xi * xi)%R = (fn * fn)%R /\
  (d / sqrt (4 * PI ^ 2 + d ^ 2))%R = xi /\ (/ Td / sqrt (1 - xi ^ 2))%R = fn.
Proof. exact logdec_inv_model. Qed.

(* the chain on the exact free decay exp(-xi wn t) cos(wd t + ph) seen at its extrema (one every half damped period) *)
Theorem C07_logdec_chain_exact_partial :
  forall (A xi fn : R) (n : nat),
  (A <> 0)%R -> (0 < xi < 1)%R -> (0 < fn)%R -> (2 <= n)%nat ->
  let wn := (2 * PI * fn)%R in
  let Td := (/ (fn * sqrt (1 - xi ^ 2)))%R in
  let rho := exp (- xi * wn * (Td / 2)) in
  let delta := map (fun k : nat => ln (Rabs (decay_ext A rho 0) / Rabs (decay_ext A rho k))) (seq 0 n) in
  let lam := glam_of ROps_c07 Per 0%R delta in
  lam = (2 * PI * xi / sqrt (1 - xi ^ 2))%R /\
  gxi2_of ROps_c07 (PI * PI)%R lam = (xi * xi)%R /\
  gfn2_of ROps_c07 Td (xi * xi)%R = (fn * fn)%R /\ (lam / sqrt (4 * PI ^ 2 + lam ^ 2))%R = xi.
Proof. exact logdec_chain_exact. Qed.

(* ---------------------------------------------------------------------------------------------------------------
   F. WHICH decomposition?  numpy.linalg.svd returns one of many triples meeting its contract.
   F1. The freedom that is always there: column k of U and of V times a number t k of modulus 1 (every commutative ring). *)
Theorem C07_svd_rephased_meets_contract :
  forall (R : Type) (K : Ops R),
  ring_theory (o0 K) (o1 K) (oadd K) (omul K) (osub K) (oopp K) eq ->
  forall (n : nat) (A U V : cmat R) (S : nat -> R) (t : nat -> C R),
  (forall k : nat, (k < n)%nat -> unit_mod K (t k)) ->
  svd_ok K n A U V S -> svd_ok K n A (rephase_cols K t U) (rephase_cols K t V) S.
Proof. exact svd_ok_rephase. Qed.

(* F2. MAC does not see a unit-modulus factor on the singular vector (every commutative ring, every n, phi, a). *)
Theorem C07_mac_unit_factor :
  forall (R : Type) (K : Ops R),
  ring_theory (o0 K) (o1 K) (oadd K) (omul K) (osub K) (oopp K) eq ->
  forall (n : nat) (x a : cvec R) (t : C R), unit_mod K t -> mac K n x (rephase_vec K t a) = mac K n x a.
Proof. exact mac_rephase. Qed.

(* F3. Uniqueness (every field with decidable equality, complex matrices, Hermitian transposes): two decompositions of ONE
   matrix; if the square of S2 k differs from the squares of all S i, i <> k, and S2 k <> 0, column k of U2 is column k of U
   times a number of modulus 1 and the squared values agree.  (A gap on the values alone is not enough on a generic field:
   Base/Dim.v dim_example_svd_sign.) *)
Theorem C07_singular_vector_unique :
  forall (R : Type) (K : Ops R),
  field_theory (o0 K) (o1 K) (oadd K) (omul K) (osub K) (oopp K) (odiv K) (oinv K) eq ->
  (forall x y : R, {x = y} + {x <> y}) ->
  forall (n : nat) (A U V : cmat R) (S : nat -> R) (U2 V2 : cmat R) (S2 : nat -> R),
  svd_ok K n A U V S -> svd_ok K n A U2 V2 S2 ->
  forall k : nat, (k < n)%nat ->
  (forall i : nat, (i < n)%nat -> i <> k -> omul K (S i) (S i) <> omul K (S2 k) (S2 k)) ->
  S2 k <> o0 K ->
  exists t : C R,
    unit_mod K t /\ (forall a : nat, (a < n)%nat -> U2 a k = cmul K (U a k) t) /\
    omul K (S2 k) (S2 k) = omul K (S k) (S k).
Proof. exact svd_vector_unique. Qed.

(* F4. On an ordered formally real field (strict order ltb with four facts), with numpy's promise on the values for BOTH
   decompositions (non-negative, the first a maximum) and the property's gap in ONE of them (first value positive and strictly
   above the others): the first singular VALUE is the same number and the first singular VECTORS agree up to a unit-modulus
   factor.  Nothing is asked of the gap of the second decomposition. *)
Theorem C07_first_singular_pair_unique :
  forall (R : Type) (K : Ops R),
  field_theory (o0 K) (o1 K) (oadd K) (omul K) (osub K) (oopp K) (odiv K) (oinv K) eq ->
  (forall a b : R, oadd K (omul K a a) (omul K b b) = o0 K -> a = o0 K) ->
  forall ltb : R -> R -> bool,
  (forall a : R, ltb a a = false) ->
  (forall a b c : R, ltb a b = true -> ltb b c = true -> ltb a c = true) ->
  (forall a b : R, ltb a b = false -> ltb b a = false -> a = b) ->
  (forall c a b : R, ltb (o0 K) c = true -> ltb (omul K c a) (omul K c b) = ltb a b) ->
  forall (n : nat) (A U V : cmat R) (S : nat -> R) (U2 V2 : cmat R) (S2 : nat -> R),
  (0 < n)%nat ->
  svd_ok K n A U V S -> svd_ok K n A U2 V2 S2 ->
  sv_first_max K ltb n S -> sv_first_max K ltb n S2 -> sv_first_gap K ltb n S ->
  S2 0%nat = S 0%nat /\
  exists t : C R, unit_mod K t /\ forall a : nat, (a < n)%nat -> U2 a 0%nat = cmul K (U a 0%nat) t.
Proof. exact first_vector_unique. Qed.

(* F5. ... hence, line by line on the band [lo, hi) (line_ok: Model/M_efdd_svd.v), the first singular value, the MAC filter
   decision, the bell term and the whole SDOF bell (one mode, cm = 1, the documented default) are EQUAL for the two families of
   decompositions: both methods, every FDD shape phi, every MAC limit, every comparison gtb, every line (0 outside the band). *)
Theorem C07_bell_svd_independent :
  forall (R : Type) (K : Ops R),
  field_theory (o0 K) (o1 K) (oadd K) (omul K) (osub K) (oopp K) (odiv K) (oinv K) eq ->
  (forall a b : R, oadd K (omul K a a) (omul K b b) = o0 K -> a = o0 K) ->
  forall ltb : R -> R -> bool,
  (forall a : R, ltb a a = false) ->
  (forall a b c : R, ltb a b = true -> ltb b c = true -> ltb a c = true) ->
  (forall a b : R, ltb a b = false -> ltb b a = false -> a = b) ->
  (forall c a b : R, ltb (o0 K) c = true -> ltb (omul K c a) (omul K c b) = ltb a b) ->
  forall (n : nat) (Sy U V U2 V2 : nat -> cmat R) (S S2 : nat -> nat -> R) (lo hi : nat),
  (0 < n)%nat ->
  (forall l : nat, (lo <= l < hi)%nat -> line_ok K ltb n (Sy l) (U l) (V l) (S l) (U2 l) (V2 l) (S2 l)) ->
  forall gtb : R -> R -> bool,
  (forall l : nat, (lo <= l < hi)%nat -> S2 l 0%nat = S l 0%nat) /\
  (forall (phi : cvec R) (lim : R) (l : nat), (lo <= l < hi)%nat ->
     mac_pass K gtb n phi (svec_of K U2 l 0%nat) lim = mac_pass K gtb n phi (svec_of K U l 0%nat) lim) /\
  (forall (m : meth) (phi : cvec R) (lim : R) (l : nat), (lo <= l < hi)%nat ->
     bell_term K gtb m n phi (Sy l) (S2 l 0%nat) (svec_of K U2 l 0%nat) lim =
     bell_term K gtb m n phi (Sy l) (S l 0%nat) (svec_of K U l 0%nat) lim) /\
  (forall (m : meth) (phi : cvec R) (lim : R) (l : nat),
     sdof_bell K gtb m n 1 phi Sy S2 (svec_of K U2) lim lo hi l = sdof_bell K gtb m n 1 phi Sy S (svec_of K U) lim lo hi l).
Proof. exact bell_svd_independent. Qed.

(* F6. ... and at the rationals everything computed after the SVD (extremum indices, log arguments, period, hence Fn, Xi) is the
   same - for EVERY inverse transform (no hypothesis on it). *)
Theorem C07_efdd_pipeline_svd_independent :
  forall (ifft_re : list QcC -> list Qc) (m : meth) (n : nat) (phi : cvec Qc)
    (Sy U V U2 V2 : nat -> cmat Qc) (S S2 : nat -> nat -> Qc) (lim : Qc) (lo hi Nf : nat) (tlag : Qc) (sppk npmax : nat),
  (0 < n)%nat ->
  (forall l : nat, (lo <= l < hi)%nat -> line_ok QcOps Qcltb n (Sy l) (U l) (V l) (S l) (U2 l) (V2 l) (S2 l)) ->
  efdd_after_svd ifft_re (map (sdof_bell QcOps Qcgtb m n 1 phi Sy S2 (svec_of QcOps U2) lim lo hi) (seq 0 Nf)) tlag sppk npmax =
  efdd_after_svd ifft_re (map (sdof_bell QcOps Qcgtb m n 1 phi Sy S (svec_of QcOps U) lim lo hi) (seq 0 Nf)) tlag sppk npmax.
Proof. exact efdd_pipeline_svd_independent. Qed.

(* F7. The executable list-level model (the one the correspondence check evaluates against fdd.SDOF_bellandMS) with the stored
   vectors of every line multiplied by unit-modulus numbers ts[c] returns EXACTLY what it returns without them: band, error or
   bell; both methods, every cm, phi, MAC limit, input. *)
Theorem C07_bell_rephase_invariant :
  forall (m : meth) (n cm Nf : nat) (h f DF : Qc) (phi : list QcC) (lim : Qc) (lo0 : nat) (ts : list QcC) (lines : list line_data),
  (forall t : QcC, In t ts -> unit_mod QcOps t) ->
  sdof_bell_lt m n cm Nf h f DF phi lim lo0 ts lines = sdof_bell_l m n cm Nf h f DF phi lim lo0 lines.
Proof. exact sdof_bell_lt_invariant. Qed.

(* F8. The mode-shape clause in exact arithmetic (every field, every n, COMPLEX shape phi): for Sy = s phi phi^H + eps I and
   ANY decomposition meeting the contract, every left singular vector whose squared value differs from the squared floor is the
   shape times a number, and its MAC with the shape is exactly 1 - also as the code stores it (conjugated). *)
Theorem C07_shape_mac_one :
  forall (R : Type) (K : Ops R),
  field_theory (o0 K) (o1 K) (oadd K) (omul K) (osub K) (oopp K) (odiv K) (oinv K) eq ->
  forall (n : nat) (phi : cvec R) (s eps : R) (U V : cmat R) (S : nat -> R) (k : nat),
  (k < n)%nat ->
  svd_ok K n (r1c_Sy K phi s eps) U V S ->
  omul K (S k) (S k) <> omul K eps eps ->
  (forall i : nat, (i < n)%nat -> U i k = cmul K (phi i) (shape_c R K n phi s eps U V S k)) /\
  mac K n phi (fun i : nat => U i k) = o1 K /\
  (forall l : nat, mac K n (fun i : nat => cconj K (phi i)) (svec_of K (fun _ : nat => U) l k) = o1 K).
Proof.
  intros R K Fth n phi s eps U V S k Hk C1 Hgap.
  exact (conj (shape_collinear R K Fth n phi s eps U V S k Hk C1 Hgap)
           (conj (shape_mac_one R K Fth n phi s eps U V S k Hk C1 Hgap) (shape_mac_one_stored R K Fth n phi s eps U V S k Hk C1 Hgap))).
Qed.

(* F9. The closed form of section B for EVERY decomposition (one mode): Sy = s phi phi^T + eps I as in C07_bell_rank_one_partial,
   floor 0 <= eps < s|phi|^2 + eps, and ANY triple (U2, S2, V2) meeting the contract with non-negative values of which the
   first is a maximum: S2 0 = s|phi|^2 + eps, the FDD shape has MAC exactly 1 with the first stored vector and passes the
   filter on every line, and the SDOF bell is the closed form on the band and 0 outside, both methods. *)
Theorem C07_bell_rank_one_any_svd :
  forall (R : Type) (K : Ops R) (gtb : R -> R -> bool),
  field_theory (o0 K) (o1 K) (oadd K) (omul K) (osub K) (oopp K) (odiv K) (oinv K) eq ->
  (forall a b : R, oadd K (omul K a a) (omul K b b) = o0 K -> a = o0 K) ->
  forall ltb : R -> R -> bool,
  (forall a : R, ltb a a = false) ->
  (forall a b c : R, ltb a b = true -> ltb b c = true -> ltb a c = true) ->
  (forall a b : R, ltb a b = false -> ltb b a = false -> a = b) ->
  (forall c a b : R, ltb (o0 K) c = true -> ltb (omul K c a) (omul K c b) = ltb a b) ->
  forall (n : nat) (Ur : nat -> nat -> R) (nrm a s eps lim : R),
  (0 < n)%nat ->
  (forall i j : nat, (i < n)%nat -> (j < n)%nat -> sumn K n (fun k : nat => omul K (Ur k i) (Ur k j)) = kd R K i j) ->
  (forall i j : nat, (i < n)%nat -> (j < n)%nat -> sumn K n (fun k : nat => omul K (Ur i k) (Ur j k)) = kd R K i j) ->
  a <> o0 K ->
  gtb (o1 K) lim = true ->
  ltb eps (o0 K) = false ->
  ltb eps (r1_S R K nrm s eps 0) = true ->
  forall (U2 V2 : cmat R) (S2 : nat -> R),
  svd_ok K n (r1_Sy R K Ur nrm s eps) U2 V2 S2 ->
  sv_first_max K ltb n S2 ->
  S2 0%nat = oadd K (omul K s (sumn K n (fun i : nat => omul K (r1_phi R K Ur nrm i) (r1_phi R K Ur nrm i)))) eps /\
  (forall l : nat, mac K n (r1_phin R K Ur a) (svec_of K (fun _ : nat => U2) l 0) = o1 K) /\
  (forall l : nat, mac_pass K gtb n (r1_phin R K Ur a) (svec_of K (fun _ : nat => U2) l 0) lim = true) /\
  (forall (m : meth) (lo hi l : nat),
     sdof_bell K gtb m n 1 (r1_phin R K Ur a) (fun _ : nat => r1_Sy R K Ur nrm s eps) (fun _ : nat => S2)
       (svec_of K (fun _ : nat => U2)) lim lo hi l =
     (if Nat.leb lo l && Nat.ltb l hi
      then match m with
           | EFDD => cofR K (oadd K (omul K s (sumn K n (fun i : nat => omul K (r1_phi R K Ur nrm i) (r1_phi R K Ur nrm i)))) eps)
           | FSDD =>
               cofR K
                 (oadd K
                    (omul K s
                       (omul K (sumn K n (fun i : nat => omul K (r1_p R K Ur a i) (r1_phi R K Ur nrm i)))
                          (sumn K n (fun i : nat => omul K (r1_p R K Ur a i) (r1_phi R K Ur nrm i)))))
                    (omul K eps (sumn K n (fun i : nat => omul K (r1_p R K Ur a i) (r1_p R K Ur a i)))))
           end
      else c0 K)).
Proof. exact bell_rank_one_any_svd. Qed.

(* ---------------------------------------------------------------------------------------------------------------
   E. what is NOT proved: the accuracy envelope.  For a point of the property's quantifier the bell on the band is the
   sampled analytic density; a rational record within 1e-12 of the real part of its zero-padded orthonormal inverse
   transform, fed to the executable model with the default sppk/npmax and logarithms within 1e-12, yields estimates
   within 2.5 % / 15 %.  The definition below asserts nothing. *)
Definition C07_full_statement : Prop :=
  forall (fs fn xi nphi2 eps:R) (nxseg lo hi:nat) (corr delta:list Qc) (tlag pi2:Qc) (d:decay),
  let Nf := (nxseg / 2 + 1)%nat in
  let bw := (2 * xi * fn)%R in
  (0 < fs /\ 0.04 * fs <= fn <= 0.25 * fs /\ 0.02 <= xi <= 0.05 /\ 0 < nphi2 /\ 0 <= eps <= 1e-7 * nphi2 / (2 * xi * fn * fn) ^ 2)%R ->
  (1024 <= nxseg <= 8192)%nat -> (bw >= 4 * fs / INR nxseg)%R -> (fn * INR (nxseg / 2) / fs >= 30)%R ->
  (lo < hi < Nf)%nat -> (INR hi * fs / INR nxseg - fn >= 4 * bw - bw / 2)%R -> (lo = 0%nat \/ fn - INR lo * fs / INR nxseg >= 4 * bw - bw / 2)%R ->
  List.length corr = (5 * Nf)%nat ->
  (forall j, (j < 5 * Nf)%nat ->
     Rabs (Qc2R (nth j corr 0%Qc) - ifft_re_R Nf (analytic_bell fs fn xi nphi2 eps nxseg lo hi) j)
     <= 1e-12 * ifft_re_R Nf (analytic_bell fs fn xi nphi2 eps nxseg lo hi) 0)%R ->
  (Rabs (Qc2R tlag - INR Nf / fs) <= 1e-12 * INR Nf / fs)%R -> (Rabs (Qc2R pi2 - PI * PI) <= 1e-12)%R ->
  efdd_time corr tlag 3 20 = Ok d ->
  List.length delta = 20%nat ->
  (forall k, (k < 20)%nat -> Rabs (Qc2R (nth k delta 0%Qc) - ln (Qc2R (nth k (d_ratio d) 1%Qc))) <= 1e-12)%R ->
  let xi2 := Qc2R (xi2_of pi2 (lam_of Per 0%Qc delta)) in
  let fn2 := Qc2R (fn2_of (d_Td d) (xi2_of pi2 (lam_of Per 0%Qc delta))) in
  (Rabs (sqrt fn2 - fn) <= 0.025 * fn /\ Rabs (sqrt xi2 - xi) <= 0.15 * xi)%R.

Print Assumptions C07_efdd_bell_homogeneous_partial.
Print Assumptions C07_singular_values_stay_sorted.
Print Assumptions C07_bell_rank_one_partial.
Print Assumptions C07_efdd_scale_invariant_partial.
Print Assumptions C07_efdd_pipeline_scale_invariant_partial.
Print Assumptions C07_index_of_is_argmin.
Print Assumptions C07_logdec_fit_exact_partial.
Print Assumptions C07_logdec_inv_partial.
Print Assumptions C07_logdec_chain_exact_partial.
Print Assumptions C07_svd_rephased_meets_contract.
Print Assumptions C07_mac_unit_factor.
Print Assumptions C07_singular_vector_unique.
Print Assumptions C07_first_singular_pair_unique.
Print Assumptions C07_bell_svd_independent.
Print Assumptions C07_efdd_pipeline_svd_independent.
Print Assumptions C07_bell_rephase_invariant.
Print Assumptions C07_shape_mac_one.
Print Assumptions C07_bell_rank_one_any_svd.

(* non-vacuity 1: n = 2, Ur = [[3,-4],[4,3]]/5 (orthogonal), phi = 5 u = (3,4), phi_n = phi/4 = (3/4,1), s = 2, eps = 1/100,
   MAClim = 17/20: the hypotheses of C07_bell_rank_one_partial hold and the two bells are 2*25+1/100 and
   2*(25/4)^2 + (1/100)*(25/16).  (ex_Ur, ex_corr: Model/M_efdd.v) *)
Example C07_example_bell :
  (forall i j:nat, In i [0;1]%nat -> In j [0;1]%nat ->
     sumn QcOps 2 (fun k => (ex_Ur k i * ex_Ur k j)%Qc) = kd Qc QcOps i j /\
     sumn QcOps 2 (fun k => (ex_Ur i k * ex_Ur j k)%Qc) = kd Qc QcOps i j) /\
  Qcgtb (o1 QcOps) (q 17 20) = true /\
  showC (bell_term QcOps Qcgtb EFDD 2 (r1_phin Qc QcOps ex_Ur (q 5 4)) (r1_Sy Qc QcOps ex_Ur (q 5 1) (q 2 1) (q 1 100))
           (r1_S Qc QcOps (q 5 1) (q 2 1) (q 1 100) 0) (svec_of QcOps (fun _ => r1_U Qc QcOps ex_Ur) 7 0) (q 17 20))
    = "5001/100,0/1"%string /\
  showC (bell_term QcOps Qcgtb FSDD 2 (r1_phin Qc QcOps ex_Ur (q 5 4)) (r1_Sy Qc QcOps ex_Ur (q 5 1) (q 2 1) (q 1 100))
           (r1_S Qc QcOps (q 5 1) (q 2 1) (q 1 100) 0) (svec_of QcOps (fun _ => r1_U Qc QcOps ex_Ur) 7 0) (q 17 20))
    = "5001/64,0/1"%string.
Proof.
  split; [|split; [|split]].
  - intros i j Hi Hj. cbn [In] in Hi, Hj.
    destruct Hi as [<-|[<-|[]]]; destruct Hj as [<-|[<-|[]]]; split; apply Qc_is_canon; vm_compute; reflexivity.
  - vm_compute. reflexivity.
  - vm_compute. reflexivity.
  - vm_compute. reflexivity.
Qed.

(* non-vacuity 2: a decaying oscillation of period 6 samples (x_j = (9/10)^j cos(pi j/3), 48 samples, the half record
   is analysed): the model finds the extrema 3, 6, 9, .., the fit uses those numbered 1..3, and the record multiplied
   by 3/7 gives the same output. *)
Example C07_example_decay :
  showDecay (efdd_time ex_corr (q 24 1) 1 3) = "6 9 12|1/1 1000/729 1000000/531441|144/23"%string /\
  showDecay (efdd_time (map (Qcmult (q 3 7)) ex_corr) (q 24 1) 1 3) = showDecay (efdd_time ex_corr (q 24 1) 1 3) /\
  showErr match efdd_time ex_corr (q 24 1) 5 3 with Err e => e | Ok _ => NoModel end = "E:Index"%string.
Proof. vm_compute. repeat split; reflexivity. Qed.

(* non-vacuity 3: the hypotheses of C07_bell_svd_independent / C07_first_singular_pair_unique hold on a concrete line with two
   DIFFERENT decompositions: Sy = 2 phi phi^T + I/100, phi = (3,4), U = the 3-4-5 rotation, U2 = U diag((3+4i)/5, (5-12i)/13)
   (Model/M_efdd_svd.v); the MAC of the FDD shape (3/4, 1) with the first stored vector is 1 for both, the model's bell on the
   rephased vectors is the same string, and the hypotheses of C07_shape_mac_one hold for the second decomposition. *)
Ltac c07_qcc := apply c_eq; apply Qc_is_canon; vm_compute; reflexivity.
Ltac c07_svd2 :=
  split; [|split]; intros i j Hi Hj;
  (destruct i as [|[|i]]; [| |exfalso; apply (Nat.lt_irrefl 0); apply (Nat.lt_le_trans _ _ _ (Nat.lt_0_succ i)); apply Nat.succ_le_mono, Nat.succ_le_mono; exact Hi]);
  (destruct j as [|[|j]]; [| |exfalso; apply (Nat.lt_irrefl 0); apply (Nat.lt_le_trans _ _ _ (Nat.lt_0_succ j)); apply Nat.succ_le_mono, Nat.succ_le_mono; exact Hj]);
  c07_qcc.
Example C07_example_svd_choice :   (* with C07_example_bell: every hypothesis of F3-F6, F8, F9 on one instance *)
  line_ok QcOps Qcltb 2 ex_Sy ex_U1 ex_U1 ex_S ex_U2 ex_U2 ex_S /\
  ex_U2 0%nat 0%nat <> ex_U1 0%nat 0%nat /\
  showQc (mac QcOps 2 (r1_phin Qc QcOps ex_Ur (q 5 4)) (svec_of QcOps (fun _ => ex_U1) 0 0)) = "1/1"%string /\
  showQc (mac QcOps 2 (r1_phin Qc QcOps ex_Ur (q 5 4)) (svec_of QcOps (fun _ => ex_U2) 0 0)) = "1/1"%string /\
  svd_ok QcOps 2 (r1c_Sy QcOps (fun i => cofR QcOps (nth i [q 3 1; q 4 1] (q 0 1))) (q 2 1) (q 1 100)) ex_U2 ex_U2 ex_S /\
  (ex_S 0 * ex_S 0)%Qc <> (q 1 100 * q 1 100)%Qc /\
  Qcltb (q 1 100) (o0 QcOps) = false /\ Qcltb (q 1 100) (r1_S Qc QcOps (q 5 1) (q 2 1) (q 1 100) 0) = true.
Proof.
  split; [|split; [|split; [|split; [|split; [|split; [|split; vm_compute; reflexivity]]]]]].
  - split; [c07_svd2|split; [c07_svd2|split; [|split]]].
    + intros j Hj. destruct j as [|[|j]]; [split; vm_compute; reflexivity|split; vm_compute; reflexivity|].
      exfalso. apply (Nat.lt_irrefl 0). apply (Nat.lt_le_trans _ _ _ (Nat.lt_0_succ j)). apply Nat.succ_le_mono, Nat.succ_le_mono. exact Hj.
    + intros j Hj. destruct j as [|[|j]]; [split; vm_compute; reflexivity|split; vm_compute; reflexivity|].
      exfalso. apply (Nat.lt_irrefl 0). apply (Nat.lt_le_trans _ _ _ (Nat.lt_0_succ j)). apply Nat.succ_le_mono, Nat.succ_le_mono. exact Hj.
    + split; [vm_compute; reflexivity|]. intros j [Hj1 Hj2]. destruct j as [|[|j]].
      * exfalso. exact (Nat.lt_irrefl 0 Hj1).
      * vm_compute. reflexivity.
      * exfalso. apply (Nat.lt_irrefl 0). apply (Nat.lt_le_trans _ _ _ (Nat.lt_0_succ j)). apply Nat.succ_le_mono, Nat.succ_le_mono. exact Hj2.
  - intros E. apply (f_equal (fun z => this (cim z))) in E. vm_compute in E. discriminate E.
  - vm_compute. reflexivity.
  - vm_compute. reflexivity.
  - c07_svd2.
  - intros E. apply (f_equal this) in E. vm_compute in E. discriminate E.
Qed.

(* non-vacuity 4: the executable bell on a rank-one line with the stored vector multiplied by (3+4i)/5 - same output *)
Example C07_example_rephase :
  unit_mod QcOps (q 3 5, q 4 5) /\
  showBell (sdof_bell_lt EFDD 2 1 8 (q 1 1) (q 3 1) (q 1 1) [(q 3 4, q 0 1); (q 1 1, q 0 1)] (q 17 20) 2 [(q 3 5, q 4 5)]
              [([[(q 1801 100, q 0 1); (q 24 1, q 0 1)]; [(q 24 1, q 0 1); (q 3201 100, q 0 1)]], [q 5001 100], [[(q 3 5, q 0 1); (q 4 5, q 0 1)]]);
               ([[(q 1801 100, q 0 1); (q 24 1, q 0 1)]; [(q 24 1, q 0 1); (q 3201 100, q 0 1)]], [q 5001 100], [[(q (-3) 5, q 0 1); (q (-4) 5, q 0 1)]])])
    = "2|4|5001/100,0/1 5001/100,0/1"%string.
Proof. split; [unfold unit_mod; apply Qc_is_canon; vm_compute; reflexivity|vm_compute; reflexivity]. Qed.
