(* C06 - FDD picks the dominant line in the band and its singular vector; the stored singular values / vectors are a
   faithful decomposition.  Statements only: each theorem is closed by [exact] of a lemma of Proofs/P_fdd.v. *)
From Coq Require Import List Arith Lia Bool Ring Field String ZArith QArith Qabs Qcanon Reals.
From PyOMA.Base Require Import Carrier FMat Cplx Argmin Show.
From PyOMA.Model Require Import M_fdd.
From PyOMA.Proofs Require Import P_fdd P_spectral_compose.
From PyOMA.Proofs Require Import P_fdd_full.
Import ListNotations.

(* ---------------------------------------------------------------------------------------------------------------
   A. the pick, for every grid, every table of stored values, every selected frequency and band half-width (Q) *)

(* band limits: np.argmin|freq - x| is a nearest grid line, the FIRST one on ties *)
Theorem C06_band_limits : forall (freq:list Q) (x:Q) (k:nat), nearest freq x = Some k ->
  exists p, nth_error freq k = Some p /\
    (forall j g, nth_error freq j = Some g -> Qabs (p - x) <= Qabs (g - x))%Q /\
    (forall j g, (j < k)%nat -> nth_error freq j = Some g -> Qabs (p - x) < Qabs (g - x))%Q.
Proof. exact nearest_spec. Qed.

(* whenever FDD_mpe gets as far as an index: lo / hi are the nearest lines to f-DF / f+DF, lo <= idx < hi, and idx is
   the first line of [lo,hi) at which Sval[0,0]/Sval[1,1] is largest (ties included: <= on the band, < before idx) *)
Theorem C06_fdd_pick_spec : forall freq Sval f DF lo hi idx,
  fdd_idx freq Sval f DF = Ok (lo, hi, idx) ->
  nearest freq (f - DF) = Some lo /\ nearest freq (f + DF) = Some hi /\ first_max_on (ratio_at Sval) lo hi idx.
Proof. exact fdd_pick_spec. Qed.

(* it does get that far on every non-empty band of a well-formed table with non-zero second values ... *)
Theorem C06_fdd_pick_total : forall freq Sval (f DF:Q) lo hi s1 s2,
  nearest freq (f - DF) = Some lo -> nearest freq (f + DF) = Some hi ->
  line Sval 0 0 = Some s1 -> line Sval 1 1 = Some s2 -> List.length s1 = List.length s2 ->
  (forall y, In y (pyslice lo hi s2) -> ~ (y == 0)%Q) -> (lo < hi)%nat -> (lo < List.length s1)%nat ->
  exists idx, fdd_idx freq Sval f DF = Ok (lo, hi, idx).
Proof. exact fdd_pick_total. Qed.

(* ... an empty band is a ValueError, a table without a second singular value an IndexError, an empty grid a ValueError *)
Theorem C06_fdd_empty_band : forall freq Sval (f DF:Q) lo hi s1 s2,
  nearest freq (f - DF) = Some lo -> nearest freq (f + DF) = Some hi ->
  line Sval 0 0 = Some s1 -> line Sval 1 1 = Some s2 -> (hi <= lo)%nat -> fdd_idx freq Sval f DF = Err ValueErr.
Proof. exact fdd_empty_band. Qed.
Theorem C06_fdd_one_singular_value : forall freq Sval (f DF:Q),
  freq <> [] -> line Sval 1 1 = None -> fdd_idx freq Sval f DF = Err IndexErr.
Proof. exact fdd_one_singular_value. Qed.
Theorem C06_fdd_empty_grid : forall Sval (f DF:Q), fdd_idx [] Sval f DF = Err ValueErr.
Proof. exact fdd_empty_grid. Qed.

(* the pick is the same whether the stored values or their squares are compared: with sqrt(sigma) stored (the code)
   it is the first line where sigma1/sigma2 is largest; with sigma stored it would be that line too *)
Theorem C06_fdd_pick_either_convention : forall Sval lo hi idx, band_positive Sval lo hi ->
  (first_max_on (ratio_at Sval) lo hi idx <-> first_max_on (sqratio_at Sval) lo hi idx).
Proof. exact fdd_pick_either_convention. Qed.

(* Fn is the grid value AT the picked line, between the two band-limit lines of an increasing grid, which are the
   grid's nearest lines to f-DF and f+DF *)
Theorem C06_fdd_fn_in_band : forall freq Sval Svec f DF idx fn phi,
  increasing freq -> fdd_mpe1 freq Sval Svec f DF = Ok (idx, fn, phi) ->
  exists lo hi flo fhi, fdd_idx freq Sval f DF = Ok (lo, hi, idx) /\
    nth_error freq idx = Some fn /\ nth_error freq lo = Some flo /\ nth_error freq hi = Some fhi /\
    (flo <= fn)%Q /\ (fn < fhi)%Q /\
    (forall j g, nth_error freq j = Some g -> Qabs (flo - (f - DF)) <= Qabs (g - (f - DF)))%Q /\
    (forall j g, nth_error freq j = Some g -> Qabs (fhi - (f + DF)) <= Qabs (g - (f + DF)))%Q.
Proof. exact fdd_fn_in_band. Qed.

(* ---------------------------------------------------------------------------------------------------------------
   B. the shape *)

(* executable instance (Gaussian rationals): Phi is Svec[0,:,idx] divided by its first largest-modulus component d
   (non-zero): that component of Phi is exactly 1, every component v_i = d * Phi_i, MAC(v, Phi) = 1 *)
Theorem C06_fdd_shape : forall freq Sval Svec f DF idx fn phi,
  fdd_mpe1 freq Sval Svec f DF = Ok (idx, fn, phi) ->
  exists lo hi v p d,
    fdd_idx freq Sval f DF = Ok (lo, hi, idx) /\ nth_error freq idx = Some fn /\
    row0 Svec idx = Ok v /\ nth_error v p = Some d /\ cnorm2 QcOps d <> 0%Qc /\
    (forall j z, nth_error v j = Some z -> (cnorm2 QcOps z <= cnorm2 QcOps d)%Qc) /\
    (forall j z, (j < p)%nat -> nth_error v j = Some z -> (cnorm2 QcOps z < cnorm2 QcOps d)%Qc) /\
    List.length phi = List.length v /\ nth_error phi p = Some (c1 QcOps) /\
    (forall i z, nth_error v i = Some z -> exists y, nth_error phi i = Some y /\ z = cmul QcOps d y) /\
    mac_num QcOps (List.length v) (vecC QcOps v) (vecC QcOps phi) = mac_den QcOps (List.length v) (vecC QcOps v) (vecC QcOps phi).
Proof. exact fdd_shape. Qed.
(* Svec[0,:,idx] really is row 0, channel c, line idx of the table *)
Theorem C06_row0_spec : forall (Svec:list (list (list CQ))) k v, row0 Svec k = Ok v ->
  exists chans, nth_error Svec 0 = Some chans /\ List.length v = List.length chans /\
    forall c ln, nth_error chans c = Some ln -> exists z, nth_error ln k = Some z /\ nth_error v c = Some z.
Proof. exact (@row0_spec CQ). Qed.

Section G.
Variable R:Type. Variable K:Ops R.
Hypothesis Fth : field_theory (o0 K) (o1 K) (oadd K) (omul K) (osub K) (oopp K) (odiv K) (oinv K) (@eq R).
Let Rth := F_R Fth.

(* every field: dividing by a component d with |d|^2 <> 0 keeps the length, makes that component 1, v = d * Phi *)
Theorem C06_unity_generic : forall (d:C R) (v:list (C R)), cnorm2 K d <> o0 K ->
  List.length (unity_by K d v) = List.length v /\
  (forall p, nth_error v p = Some d -> nth_error (unity_by K d v) p = Some (c1 K)) /\
  (forall i z, nth_error v i = Some z -> exists y, nth_error (unity_by K d v) i = Some y /\ z = cmul K d y).
Proof. exact (unity_by_spec R K Fth). Qed.

(* every ring: MAC numerator |a^H b|^2 = denominator (a^H a)(b^H b) for a = d b *)
Theorem C06_mac_collinear : forall n (a b:nat -> C R) (d:C R),
  (forall k, (k < n)%nat -> a k = cmul K d (b k)) -> mac_num K n a b = mac_den K n a b.
Proof. exact (mac_collinear R K Rth). Qed.

(* -------------------------------------------------------------------------------------------------------------
   C. SD_svalsvec at one line, for EVERY result np.linalg.svd / np.sqrt may return that meets the contract
      Sy = U[:, :nc] diag(sigma) Vh,  U^H U = U U^H = I,  sq_k^2 = sigma_k        (nr x nc, nc <= nr) *)
Theorem C06_svalsvec_faithful_unitary : forall nr (U:fmat (C R)),
  feq nr nr (fmul (COps K) nr (fherm K U) U) (fid (COps K)) ->
  feq nr nr (fmul (COps K) nr U (fherm K U)) (fid (COps K)) ->
  feq nr nr (fmul (COps K) nr (svec_of K U) (fherm K (svec_of K U))) (fid (COps K)) /\
  feq nr nr (fmul (COps K) nr (fherm K (svec_of K U)) (svec_of K U)) (fid (COps K)).
Proof. exact (svec_unitary R K Rth). Qed.

(* stored values: a diagonal table carrying the square roots *)
Theorem C06_sval_diagonal : forall (sq:nat -> R) i j,
  sval_of K sq i i = sq i /\ (i <> j -> sval_of K sq i j = o0 K).
Proof. exact (fun sq i j => conj (sval_of_diag R K sq i) (sval_of_offdiag R K sq i j)). Qed.

(* the stored pair reconstructs the spectral matrix: S_vec^H diag(S_val^2) Vh = Sy *)
Theorem C06_svalsvec_faithful_recon : forall nr nc (Sy U Vh:fmat (C R)) (sigma sq:nat -> R),
  feq nr nc Sy (fmul (COps K) nc U (fmul (COps K) nc (cdiag K sigma) Vh)) ->
  (forall k, (k < nc)%nat -> omul K (sq k) (sq k) = sigma k) ->
  feq nr nc (fmul (COps K) nc (fherm K (svec_of K U)) (fmul (COps K) nc (cdiag K (sval_sq K (sval_of K sq))) Vh)) Sy.
Proof. exact (svalsvec_recon R K Rth). Qed.

(* row k of S_vec is the k-th left singular direction: (S_vec Sy)[k][j] = S_val[k,k]^2 Vh[k][j] for k < nc and 0 below;
   so row 0 is the direction belonging to the first (largest) stored value *)
Theorem C06_svalsvec_left_action : forall nr nc (Sy U Vh:fmat (C R)) (sigma sq:nat -> R),
  (nc <= nr)%nat ->
  feq nr nc Sy (fmul (COps K) nc U (fmul (COps K) nc (cdiag K sigma) Vh)) ->
  feq nr nr (fmul (COps K) nr (fherm K U) U) (fid (COps K)) ->
  (forall k, (k < nc)%nat -> omul K (sq k) (sq k) = sigma k) ->
  forall i j, (i < nr)%nat -> (j < nc)%nat ->
  fmul (COps K) nr (svec_of K U) Sy i j =
  if (i <? nc)%nat then cmul K (cofR K (sval_sq K (sval_of K sq) i)) (Vh i j) else c0 K.
Proof. exact (svec_left_action R K Rth). Qed.

(* conjugation convention: for a narrow-band response, Sy[i][j] = g conj(a_i) a_j (scipy's csd(x,y) = conj(X) Y), of
   rank one, the stored row 0 is collinear with the channels' complex amplitudes a (not with conj a):
   S_vec[0][i] a_i' = S_vec[0][i'] a_i *)
Theorem C06_narrowband_collinear : forall nr nc (Sy U Vh:fmat (C R)) (sigma:nat -> R) (a:nat -> C R) (g:R),
  (0 < nc)%nat ->
  feq nr nc Sy (fmul (COps K) nc U (fmul (COps K) nc (cdiag K sigma) Vh)) ->
  (forall k, (0 < k < nc)%nat -> sigma k = o0 K) ->
  (forall i j, (i < nr)%nat -> (j < nc)%nat -> Sy i j = cmul K (cofR K g) (cmul K (cconj K (a i)) (a j))) ->
  forall i i' j, (i < nr)%nat -> (i' < nr)%nat -> (j < nc)%nat ->
  cnorm2 K (cmul K (cofR K (sigma 0%nat)) (Vh 0%nat j)) <> o0 K ->
  cmul K (svec_of K U 0%nat i) (a i') = cmul K (svec_of K U 0%nat i') (a i).
Proof. exact (narrowband_collinear R K Fth). Qed.
End G.

(* ---------------------------------------------------------------------------------------------------------------
   D. real square roots *)
(* stored values sqrt(sigma_k) are non-negative, non-increasing, and square back to the singular values *)
Theorem C06_svalsvec_faithful_order_R : forall sigma:nat -> R,
  (forall k, 0 <= sigma k)%R -> (forall k, sigma (S k) <= sigma k)%R ->
  forall k, (0 <= sqrt (sigma k) /\ sqrt (sigma (S k)) <= sqrt (sigma k) /\ sqrt (sigma k) * sqrt (sigma k) = sigma k)%R.
Proof. exact sval_order_R. Qed.
(* sqrt(s1)/sqrt(s2) is monotone in s1/s2: the first line of the band with the largest ratio is the same line under
   either convention *)
Theorem C06_pick_sqrt_invariant_R : forall (s1 s2:nat -> R) lo hi idx,
  (forall k, (lo <= k < hi)%nat -> (0 < s1 k /\ 0 < s2 k)%R) ->
  (first_max_onR (fun k => (sqrt (s1 k) / sqrt (s2 k))%R) lo hi idx <-> first_max_onR (fun k => (s1 k / s2 k)%R) lo hi idx).
Proof. exact pick_sqrt_invariant. Qed.

(* ---------------------------------------------------------------------------------------------------------------
   E. the links composed, declaratively, over the reals with the real square root: for every spectral-matrix sequence and
   every SVD result meeting the contract at every line (sigma positive on the first nc entries), every band [lo,hi)
   (in particular the one between the nearest lines): there is a first line idx of the band where sqrt(s1)/sqrt(s2) is
   largest, it is the first line where s1/s2 is largest, the stored row 0 there (S_vec = U^H) has a non-zero component of
   largest modulus d, and Phi = row / d has MAC 1 with conj(U[:,0]), the conjugated dominant left singular vector. *)
Theorem C06_composed_R_partial :
  forall (nr nc nf:nat) (Sy U Vh:nat -> fmat (C R)) (sigma:nat -> nat -> R) (freq:nat -> R) (f DF:R) (lo hi:nat),
  (2 <= nc <= nr)%nat ->
  (forall k, (k < nf)%nat ->
     feq nr nc (Sy k) (fmul (COps ROps_c06) nc (U k) (fmul (COps ROps_c06) nc (cdiag ROps_c06 (sigma k)) (Vh k))) /\
     feq nr nr (fmul (COps ROps_c06) nr (fherm ROps_c06 (U k)) (U k)) (fid (COps ROps_c06)) /\
     feq nr nr (fmul (COps ROps_c06) nr (U k) (fherm ROps_c06 (U k))) (fid (COps ROps_c06)) /\
     (forall i, (i < nc)%nat -> 0 < sigma k i)%R /\ (forall i, sigma k (S i) <= sigma k i)%R) ->
  (lo < hi < nf)%nat ->
  exists idx (d:C R),
    first_max_onR (fun k => (sqrt (sigma k 0%nat) / sqrt (sigma k 1%nat))%R) lo hi idx /\
    first_max_onR (fun k => (sigma k 0%nat / sigma k 1%nat)%R) lo hi idx /\
    cnorm2 ROps_c06 d <> 0%R /\ (exists p, (p < nr)%nat /\ svec_of ROps_c06 (U idx) 0%nat p = d) /\
    (forall i, (i < nr)%nat -> (cnorm2 ROps_c06 (svec_of ROps_c06 (U idx) 0%nat i) <= cnorm2 ROps_c06 d)%R) /\
    mac_num ROps_c06 nr (fun i => cdiv ROps_c06 (svec_of ROps_c06 (U idx) 0%nat i) d) (fun i => cconj ROps_c06 (U idx i 0%nat))
    = mac_den ROps_c06 nr (fun i => cdiv ROps_c06 (svec_of ROps_c06 (U idx) 0%nat i) d) (fun i => cconj ROps_c06 (U idx i 0%nat)).
Proof. exact composed_R. Qed.

(* ---------------------------------------------------------------------------------------------------------------
   F. the same composition THROUGH the executable model - fdd_mpe1 run on the three-index tables that the SD_svalsvec
   model builds (tab3 of sval_of / svec_of) from a contract-meeting SVD sequence (with rational square roots): whenever
   the run returns (idx, Fn, Phi), idx is the FIRST line of the band between the nearest lines at which sigma1/sigma2 is
   largest, Fn is the grid value there, Phi has a component exactly 1 and MAC(Phi, conj U[:,0]) = 1 (numerator =
   denominator).  The statement is kept as a definition (its name is referred to elsewhere) and proved just below as
   C06_full (Proofs/P_fdd_full.v: accessor lemmas for tab3-built tables + the Qc / Q glue); C06_full_total adds that the
   run DOES return on every non-empty band. *)
Definition C06_full_statement : Prop :=
  forall (nr nc nf:nat) (Sy U Vh:nat -> fmat CQ) (sigma sq:nat -> nat -> Qc) (freq:list Q) (f DF:Q) (idx:nat) (fn:Q) (phi:list CQ),
  (2 <= nc <= nr)%nat -> List.length freq = nf -> increasing freq ->
  (forall k, (k < nf)%nat ->
     feq nr nc (Sy k) (fmul (COps QcOps) nc (U k) (fmul (COps QcOps) nc (cdiag QcOps (sigma k)) (Vh k))) /\
     feq nr nr (fmul (COps QcOps) nr (fherm QcOps (U k)) (U k)) (fid (COps QcOps)) /\
     feq nr nr (fmul (COps QcOps) nr (U k) (fherm QcOps (U k))) (fid (COps QcOps)) /\
     (forall i, (i < nc)%nat -> (0 < sq k i)%Qc /\ (sq k i * sq k i = sigma k i)%Qc) /\
     (forall i, (S i < nc)%nat -> (sq k (S i) <= sq k i)%Qc)) ->
  fdd_mpe1 freq (tab3 nc nc nf (fun i j k => this (sval_of QcOps (sq k) i j)))
                (tab3 nr nr nf (fun i j k => svec_of QcOps (U k) i j)) f DF = Ok (idx, fn, phi) ->
  exists lo hi,
    nearest freq (f - DF) = Some lo /\ nearest freq (f + DF) = Some hi /\ nth_error freq idx = Some fn /\
    first_max_on (fun k => Some (this (sigma k 0%nat / sigma k 1%nat)%Qc)) lo hi idx /\
    mac_num QcOps nr (vecC QcOps phi) (fun i => cconj QcOps (U idx i 0%nat))
    = mac_den QcOps nr (vecC QcOps phi) (fun i => cconj QcOps (U idx i 0%nat)) /\
    (exists p, nth_error phi p = Some (c1 QcOps)).

Theorem C06_full : C06_full_statement.
Proof. exact fdd_full. Qed.

(* ... and the run DOES return (no exception, no inf/nan arithmetic) on every non-empty band between the nearest lines:
   the hypothesis "fdd_mpe1 ... = Ok ..." of C06_full is met by every contract-meeting sequence *)
Theorem C06_full_total :
  forall (nr nc nf:nat) (Sy U Vh:nat -> fmat CQ) (sigma sq:nat -> nat -> Qc) (freq:list Q) (f DF:Q) (lo hi:nat),
  (2 <= nc <= nr)%nat -> List.length freq = nf ->
  (forall k, (k < nf)%nat ->
     feq nr nc (Sy k) (fmul (COps QcOps) nc (U k) (fmul (COps QcOps) nc (cdiag QcOps (sigma k)) (Vh k))) /\
     feq nr nr (fmul (COps QcOps) nr (fherm QcOps (U k)) (U k)) (fid (COps QcOps)) /\
     feq nr nr (fmul (COps QcOps) nr (U k) (fherm QcOps (U k))) (fid (COps QcOps)) /\
     (forall i, (i < nc)%nat -> (0 < sq k i)%Qc /\ (sq k i * sq k i = sigma k i)%Qc) /\
     (forall i, (S i < nc)%nat -> (sq k (S i) <= sq k i)%Qc)) ->
  nearest freq (f - DF) = Some lo -> nearest freq (f + DF) = Some hi -> (lo < hi)%nat ->
  exists idx fn phi,
    fdd_mpe1 freq (tab3 nc nc nf (fun i j k => this (sval_of QcOps (sq k) i j)))
                  (tab3 nr nr nf (fun i j k => svec_of QcOps (U k) i j)) f DF = Ok (idx, fn, phi) /\
    (lo <= idx < hi)%nat /\ List.length phi = nr.
Proof. exact fdd_full_total. Qed.

(* the table-indexing glue: T[i,j,:] of a table built by tab3 exists for in-range i, j, has c lines, and T[i,j,k] IS the
   function value for k < c (an IndexError past the end); Svec[0,:,k] is read only at an in-range line and is (f 0 j k)_j *)
Theorem C06_tab3_entry : forall (A:Type) a b c (f:nat -> nat -> nat -> A) i j k, (i < a)%nat -> (j < b)%nat ->
  exists ln, line (tab3 a b c f) i j = Some ln /\ List.length ln = c /\
    nth_error ln k = if (k <? c)%nat then Some (f i j k) else None.
Proof. exact (@tab3_entry). Qed.
Theorem C06_tab3_row0 : forall (A:Type) a b c (f:nat -> nat -> nat -> A) k v, (0 < a)%nat -> row0 (tab3 a b c f) k = Ok v ->
  List.length v = b /\ forall j, (j < b)%nat -> (k < c)%nat /\ nth_error v j = Some (f 0%nat j k).
Proof. exact (@row0_tab3). Qed.

(* ---------------------------------------------------------------------------------------------------------------
   G. composition with C13: the narrow-band clause stated from the DATA side.  The spectral matrix is no longer a
   hypothesis but the modelled 'per' estimate M_spectra.sd_per (Welch: window w, twiddle table tw, nxseg n, step, nseg
   segments) of data whose segment transforms at line k are a per-channel complex amplitude times a common factor,
   X_c^s[k] = A_c Z^s[k] (the hypothesis of C13_per_common_factor).  Proofs/P_spectral_compose.v. *)
Section H.
Variable R:Type. Variable K:Ops R.
Hypothesis Fth : field_theory (o0 K) (o1 K) (oadd K) (omul K) (osub K) (oopp K) (odiv K) (oinv K) (@eq R).

(* the modelled matrix then has exactly the rank-one form C06_narrowband_collinear assumes, with the explicit real
   factor g = dbl . scale . 1/K . sum_s |Z^s|^2 *)
Theorem C06_welch_rank_one : forall tw w invn scale invK n step nseg (Y:M_spectra.rsig R) (A Z:nat -> C R) (k nch:nat),
  (forall c s, (c < nch)%nat -> (s < nseg)%nat -> M_spectra.stft K tw w invn n step (Y c) s k = cmul K (A c) (Z s)) ->
  forall i j, (i < nch)%nat -> (j < nch)%nat ->
  M_spectra.sd_per K tw w invn scale invK n step nseg Y Y i j k
  = cmul K (cofR K (omul K (omul K (omul K (M_spectra.dbl K n k) scale) invK) (sumn K nseg (fun s => cnorm2 K (Z s)))))
           (cmul K (cconj K (A i)) (A j)).
Proof. exact (welch_rank_one R K (F_R Fth)). Qed.

(* hence, for ANY factorisation Sy = U[:, :nc] diag(sigma) Vh of that modelled matrix with sigma_q = 0 for q >= 1
   (what an SVD of a rank-one matrix returns), the stored row 0 is collinear with the channels' amplitudes A - not
   with conj A:  S_vec[0][i] A_i' = S_vec[0][i'] A_i *)
Theorem C06_narrowband_from_welch : forall tw w invn scale invK n step nseg (Y:M_spectra.rsig R) (A Z:nat -> C R)
    (k nr nc:nat) (U Vh:fmat (C R)) (sigma:nat -> R),
  (0 < nc)%nat -> (nc <= nr)%nat ->
  (forall c s, (c < nr)%nat -> (s < nseg)%nat -> M_spectra.stft K tw w invn n step (Y c) s k = cmul K (A c) (Z s)) ->
  feq nr nc (fun i j => M_spectra.sd_per K tw w invn scale invK n step nseg Y Y i j k)
      (fmul (COps K) nc U (fmul (COps K) nc (cdiag K sigma) Vh)) ->
  (forall q, (0 < q < nc)%nat -> sigma q = o0 K) ->
  forall i i' j, (i < nr)%nat -> (i' < nr)%nat -> (j < nc)%nat ->
  cnorm2 K (cmul K (cofR K (sigma 0%nat)) (Vh 0%nat j)) <> o0 K ->
  cmul K (svec_of K U 0%nat i) (A i') = cmul K (svec_of K U 0%nat i') (A i).
Proof. exact (narrowband_from_welch R K Fth). Qed.

(* ... i.e. MAC(stored row 0, amplitudes) = 1 (numerator = denominator) when some channel has a non-zero amplitude *)
Theorem C06_narrowband_from_welch_mac : forall tw w invn scale invK n step nseg (Y:M_spectra.rsig R) (A Z:nat -> C R)
    (k nr nc:nat) (U Vh:fmat (C R)) (sigma:nat -> R),
  (0 < nc)%nat -> (nc <= nr)%nat ->
  (forall c s, (c < nr)%nat -> (s < nseg)%nat -> M_spectra.stft K tw w invn n step (Y c) s k = cmul K (A c) (Z s)) ->
  feq nr nc (fun i j => M_spectra.sd_per K tw w invn scale invK n step nseg Y Y i j k)
      (fmul (COps K) nc U (fmul (COps K) nc (cdiag K sigma) Vh)) ->
  (forall q, (0 < q < nc)%nat -> sigma q = o0 K) ->
  forall i' j, (i' < nr)%nat -> (j < nc)%nat ->
  cnorm2 K (A i') <> o0 K ->
  cnorm2 K (cmul K (cofR K (sigma 0%nat)) (Vh 0%nat j)) <> o0 K ->
  mac_num K nr (svec_of K U 0%nat) A = mac_den K nr (svec_of K U 0%nat) A.
Proof. exact (narrowband_from_welch_mac R K Fth). Qed.
End H.

Print Assumptions C06_band_limits.
Print Assumptions C06_fdd_pick_spec.
Print Assumptions C06_fdd_pick_total.
Print Assumptions C06_fdd_empty_band.
Print Assumptions C06_fdd_one_singular_value.
Print Assumptions C06_fdd_empty_grid.
Print Assumptions C06_fdd_pick_either_convention.
Print Assumptions C06_fdd_fn_in_band.
Print Assumptions C06_fdd_shape.
Print Assumptions C06_row0_spec.
Print Assumptions C06_unity_generic.
Print Assumptions C06_mac_collinear.
Print Assumptions C06_svalsvec_faithful_unitary.
Print Assumptions C06_sval_diagonal.
Print Assumptions C06_svalsvec_faithful_recon.
Print Assumptions C06_svalsvec_left_action.
Print Assumptions C06_narrowband_collinear.
Print Assumptions C06_svalsvec_faithful_order_R.
Print Assumptions C06_pick_sqrt_invariant_R.
Print Assumptions C06_composed_R_partial.
Print Assumptions C06_welch_rank_one.
Print Assumptions C06_narrowband_from_welch.
Print Assumptions C06_narrowband_from_welch_mac.
Print Assumptions C06_full.
Print Assumptions C06_full_total.
Print Assumptions C06_tab3_entry.
Print Assumptions C06_tab3_row0.

(* non-vacuity 1: a 7-line grid, band [1,5) around 3/4 with DF = 1/2; the ratios on the band are 2,2,2,3 -> line 4; around 1/2 with DF = 1/2 the band [0,4) is all ties -> line 0; around
   1/2 with DF = 1/4 the band is [1,3) with the tie 2,2 -> the FIRST line 1; the shape is divided by its largest component *)
Definition ex_freq : list Q := [0#1; 1#4; 1#2; 3#4; 1#1; 5#4; 3#2]%Q.
Definition ex_Sval : list (list (list Q)) :=
  [[ [4#1;4#1;6#1;8#1;3#1;2#1;1#1]; [9#1;9#1;9#1;9#1;9#1;9#1;9#1] ];
   [ [7#1;7#1;7#1;7#1;7#1;7#1;7#1]; [2#1;2#1;3#1;4#1;1#1;1#1;1#1] ]]%Q.
Definition ex_z (a b:Z) : CQ := (q a 1, q b 1).
Definition ex_Svec : list (list (list CQ)) :=
  [[ [ex_z 1 0; ex_z 1 0; ex_z 1 1; ex_z 1 0; ex_z 0 2; ex_z 1 0; ex_z 1 0];
     [ex_z 0 1; ex_z 0 3; ex_z 3 (-4); ex_z 0 1; ex_z 1 1; ex_z 0 1; ex_z 0 1] ]].
Example C06_example_pick :
  fdd_idx ex_freq ex_Sval (3#4) (1#2) = Ok (1, 5, 4)%nat /\
  fdd_idx ex_freq ex_Sval (1#2) (1#4) = Ok (1, 3, 1)%nat /\
  show_mpe (fdd_mpe ex_freq ex_Sval ex_Svec [3#4; 1#2]%Q (1#2)) = "4@1/1@1/1,0/1 1/2,-1/2|0@0/1@1/1,0/1 0/1,1/1"%string /\
  show_mpe (fdd_mpe ex_freq ex_Sval ex_Svec [1#2]%Q (1#4)) = "1@1/4@0/1,-1/3 1/1,0/1"%string /\
  fdd_idx ex_freq ex_Sval (1#2) (0#1) = Err ValueErr /\
  fdd_idx ex_freq [[ [1#1] ]]%Q (1#2) (1#4) = Err IndexErr.
Proof. vm_compute. repeat split; reflexivity. Qed.

(* non-vacuity 2: the SVD contract is satisfiable with complex entries: U = [[3,4i],[4i,3]]/5, sigma = (4,1), sq = (2,1),
   Vh = U^H, Sy = U diag(sigma) U^H: all three residuals of the certificate are exactly zero, and the stored row 0
   applied to Sy gives sigma_0 Vh[0,:] *)
Definition ex_U : list (list CQ) := [[(q 3 5, q 0 1); (q 0 1, q 4 5)]; [(q 0 1, q 4 5); (q 3 5, q 0 1)]].
Definition ex_Vh : list (list CQ) := svec_l 2 ex_U.
Definition ex_S : list Qc := [q 4 1; q 1 1].
Definition ex_Sy : list (list CQ) :=
  tab2 2 2 (fmul (COps QcOps) 2 (fmatC ex_U) (fmul (COps QcOps) 2 (cdiag QcOps (fun k => nth k ex_S 0%Qc)) (fmatC ex_Vh))).
Example C06_example_svd :
  showCMat (svd_resid 2 2 ex_Sy ex_U ex_Vh ex_S) = "0/1,0/1 0/1,0/1;0/1,0/1 0/1,0/1"%string /\
  showCMat (unit_resid 2 ex_U) = "0/1,0/1 0/1,0/1;0/1,0/1 0/1,0/1"%string /\
  showRow (sqrt_resid [q 2 1; q 1 1] ex_S) = "0/1 0/1"%string /\
  showCRow (row0_action 2 2 (svec_l 2 ex_U) ex_Sy) = "12/5,0/1 0/1,-16/5"%string /\
  showCMat ex_Sy = "52/25,0/1 0/1,-36/25;0/1,36/25 73/25,0/1"%string.
Proof. vm_compute. repeat split; reflexivity. Qed.

(* non-vacuity 3 (composition with the spectral model): n = 4 twiddle table (omega = -i), periodic Hann [0,1/2,1,1/2], 50 %
   overlap, 3 segments; channel 0 = cos(2 pi t/4), channel 1 = (4/3) sin(2 pi t/4): at line 1 the segment transforms are
   A_c Z^s with A = (1, -4i/3), Z^s = the transform of channel 0 (non-zero).  The modelled 2 x 2 'per' matrix there is
   [[4/3, -16i/9],[16i/9, 64/27]] = U diag(100/27, 0) U^H with the UNITARY U = [[3,4i],[4i,3]]/5 of non-vacuity 2 (all
   residuals exactly zero), sigma_0 Vh[0][0] <> 0, and the stored row 0 = (3/5, -4i/5) is collinear with A. *)
Definition ex_nb_Y : M_spectra.rsig Qc := fun c => if Nat.eqb c 0 then sc_ex_cos else sc_ex_sin43.
Definition ex_nb_A : nat -> CQ := fun c => if Nat.eqb c 0 then (q 1 1, q 0 1) else (q 0 1, q (-4) 3).
Definition ex_nb_stft (c s:nat) : CQ :=
  M_spectra.stft QcOps (M_spectra.tw_of QcOps sc_ex_tw 4) (lget QcOps sc_ex_w) (q 1 4) 4 2 (ex_nb_Y c) s 1.
Definition ex_nb_Sy : list (list CQ) :=
  tab2 2 2 (fun i j => M_spectra.sd_per QcOps (M_spectra.tw_of QcOps sc_ex_tw 4) (lget QcOps sc_ex_w) (q 1 4) (q 2 3) (q 1 3) 4 2 3
                         ex_nb_Y ex_nb_Y i j 1).
Example C06_example_narrowband_from_welch :
  forallb (fun c => forallb (fun s => sc_ceqb (ex_nb_stft c s) (cmul QcOps (ex_nb_A c) (ex_nb_stft 0 s))) (seq 0 3)) (seq 0 2) = true /\
  forallb (fun s => negb (sc_ceqb (ex_nb_stft 0 s) (c0 QcOps))) (seq 0 3) = true /\
  showCMat ex_nb_Sy = "4/3,0/1 0/1,-16/9;0/1,16/9 64/27,0/1"%string /\
  showCMat (svd_resid 2 2 ex_nb_Sy ex_U ex_Vh [q 100 27; q 0 1]) = "0/1,0/1 0/1,0/1;0/1,0/1 0/1,0/1"%string /\
  showCMat (unit_resid 2 ex_U) = "0/1,0/1 0/1,0/1;0/1,0/1 0/1,0/1"%string /\
  sc_ceqb (cmul QcOps (cofR QcOps (q 100 27)) (fmatC ex_Vh 0%nat 0%nat)) (c0 QcOps) = false /\
  showCRow (tab 2 (svec_of QcOps (fmatC ex_U) 0%nat)) = "3/5,0/1 0/1,-4/5"%string /\
  sc_ceqb (cmul QcOps (svec_of QcOps (fmatC ex_U) 0%nat 0%nat) (ex_nb_A 1%nat))
          (cmul QcOps (svec_of QcOps (fmatC ex_U) 0%nat 1%nat) (ex_nb_A 0%nat)) = true.
Proof. vm_compute. repeat split; reflexivity. Qed.

(* non-vacuity 4 (C06_full / C06_full_total): five lines, at every line the unitary U of non-vacuity 2 (U^H U - I = 0 shown there;
   Sy := U diag(sigma) U^H), stored values sq = (2,1),(3,1),(5,1),(4,2),(1,1) (positive, non-increasing), sigma = sq^2.  fdd_mpe1 run on
   the tab3-built tables around 1/2 with DF = 1/4: band [1,3), sigma1/sigma2 = 9, 25 -> line 2, Fn = 1/2, and
   Phi = conj(U[:,0]) / (-4i/5) = (3i/4, 1);  MAC(Phi, conj U[:,0]): numerator = denominator = 25/16 *)
Definition exf_freq : list Q := [0#1; 1#4; 1#2; 3#4; 1#1]%Q.
Definition exf_sq (k i:nat) : Qc := nth i (nth k [[q 2 1; q 1 1]; [q 3 1; q 1 1]; [q 5 1; q 1 1]; [q 4 1; q 2 1]; [q 1 1; q 1 1]] []) 0%Qc.
Definition exf_Sval := tab3 2 2 5 (fun i j k => this (sval_of QcOps (exf_sq k) i j)).
Definition exf_Svec := tab3 2 2 5 (fun i j k => svec_of QcOps (fmatC ex_U) i j).
Example C06_example_full :
  forallb (fun k => forallb (fun i => negb (Qle_bool (this (exf_sq k i)) 0)) (seq 0 2)
                    && Qle_bool (this (exf_sq k 1%nat)) (this (exf_sq k 0%nat))) (seq 0 5) = true /\
  fdd_idx exf_freq exf_Sval (1#2) (1#4) = Ok (1, 3, 2)%nat /\
  show_mpe (fdd_mpe exf_freq exf_Sval exf_Svec [1#2]%Q (1#4)) = "2@1/2@0/1,3/4 1/1,0/1"%string /\
  showL showQc " " (map (fun k => (exf_sq k 0%nat * exf_sq k 0%nat) / (exf_sq k 1%nat * exf_sq k 1%nat))%Qc (seq 1 2)) = "9/1 25/1"%string /\
  (let phi := [(q 0 1, q 3 4); (q 1 1, q 0 1)] in let b := fun i => cconj QcOps (fmatC ex_U i 0%nat) in
   showQc (mac_num QcOps 2 (vecC QcOps phi) b) = "25/16"%string /\ showQc (mac_den QcOps 2 (vecC QcOps phi) b) = "25/16"%string).
Proof. vm_compute. repeat split; reflexivity. Qed.
