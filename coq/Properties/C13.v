(* C13 - Spectral matrix estimation (fdd.SD_est): grid, pairing, scaling and phase convention.
   Statements only: each theorem is closed by [exact] of a lemma of Proofs/P_spectra.v or Proofs/P_spectra_deep2.v.
   sd_per / sd_cor are the function-level models of Model/M_spectra.v ('per' = Welch: segments of length n every
   step samples, mean removed, window w, DFT over the twiddle table tw, average of conj(X_i) X_j over nseg segments,
   coefficient dbl * scale * invK;  'cor' = box-car half-length periodogram -> irfft -> exponential window -> rfft). *)
From Coq Require Import List Arith Bool Lia Ring Field ZArith QArith Qcanon Rdefinitions.
From PyOMA.Base Require Import Carrier Cplx Show.
From PyOMA.Model Require Import M_spectra.
From PyOMA.Proofs Require Import P_spectra P_spectra_deep2.
Import ListNotations.

(* ---------------- frequency grid (any field in which n is invertible) ---------------- *)
Section F.
Variable R:Type. Variable K:Ops R.
Hypothesis Fth : field_theory (o0 K) (o1 K) (oadd K) (omul K) (osub K) (oopp K) (odiv K) (oinv K) (@eq R).
(* n/2+1 lines; line k at k*fs/n; first line 0; spacing fs/n; last line fs/2 (even n) *)
Theorem C13_sd_grid : forall fs n, ofnat K n <> o0 K ->
  length (freq_grid K fs n) = S (n/2) /\
  (forall k, (k <= n/2)%nat -> lget K (freq_grid K fs n) k = odiv K (omul K (ofnat K k) fs) (ofnat K n)) /\
  lget K (freq_grid K fs n) 0 = o0 K /\
  (forall k, (k < n/2)%nat ->
     osub K (lget K (freq_grid K fs n) (S k)) (lget K (freq_grid K fs n) k) = odiv K fs (ofnat K n)) /\
  (Nat.even n = true -> lget K (freq_grid K fs n) (n/2) = odiv K fs (oadd K (o1 K) (o1 K))).
Proof. exact (sd_grid R K Fth). Qed.
End F.

(* ---------------- algebra of the two estimators (any commutative ring) ---------------- *)
Section S.
Variable R:Type. Variable K:Ops R.
Hypothesis Rth : ring_theory (o0 K) (o1 K) (oadd K) (omul K) (osub K) (oopp K) (@eq R).
Local Open Scope K_scope.
Infix "+" := (oadd K) : K_scope. Infix "*" := (omul K) : K_scope.
Notation CR := (C R).
Notation "x +c y" := (cadd K x y) (at level 50, left associativity).
Notation "x *c y" := (cmul K x y) (at level 40, left associativity).

(* pairing: entry (i,j) at line k is coefficient * sum over segments of conj(X of channel i) * (X of reference j):
   the channel of the first argument is the conjugated one *)
Theorem C13_per_pairing : forall tw w invn scale invK n step nseg (Y Yref:rsig R) i j k,
  sd_per K tw w invn scale invK n step nseg Y Yref i j k
  = cscal K (dbl K n k * scale * invK)
      (sumn (COps K) nseg (fun s => cconj K (stft K tw w invn n step (Y i) s k) *c stft K tw w invn n step (Yref j) s k)).
Proof. intros tw w invn scale invK n step nseg. exact (pxy_entry R K tw w invn scale invK n n step nseg). Qed.
(* ... and no other channel enters *)
Theorem C13_per_pairing_local : forall tw w invn scale invK n step nseg (Y Y' Yref Yref':rsig R) i j k,
  (forall t, Y i t = Y' i t) -> (forall t, Yref j t = Yref' j t) ->
  sd_per K tw w invn scale invK n step nseg Y Yref i j k = sd_per K tw w invn scale invK n step nseg Y' Yref' i j k.
Proof. intros tw w invn scale invK n step nseg. exact (pxy_local R K tw w invn scale invK n n step nseg). Qed.
Theorem C13_cor_pairing_local : forall tw we invm invn invK n nseg (Y Y' Yref Yref':rsig R) i j k,
  (forall t, Y i t = Y' i t) -> (forall t, Yref j t = Yref' j t) ->
  sd_cor K tw we invm invn invK n nseg Y Yref i j k = sd_cor K tw we invm invn invK n nseg Y' Yref' i j k.
Proof. exact (sd_cor_local R K). Qed.

(* bilinear in (data, reference data) *)
Theorem C13_per_add_data : forall tw w invn scale invK n step nseg (Y Z Yref:rsig R) i j k,
  sd_per K tw w invn scale invK n step nseg (sadd R K Y Z) Yref i j k
  = sd_per K tw w invn scale invK n step nseg Y Yref i j k +c sd_per K tw w invn scale invK n step nseg Z Yref i j k.
Proof. intros tw w invn scale invK n step nseg. exact (pxy_add_data R K Rth tw w invn scale invK n n step nseg). Qed.
Theorem C13_per_add_ref : forall tw w invn scale invK n step nseg (Y Yref Zref:rsig R) i j k,
  sd_per K tw w invn scale invK n step nseg Y (sadd R K Yref Zref) i j k
  = sd_per K tw w invn scale invK n step nseg Y Yref i j k +c sd_per K tw w invn scale invK n step nseg Y Zref i j k.
Proof. intros tw w invn scale invK n step nseg. exact (pxy_add_ref R K Rth tw w invn scale invK n n step nseg). Qed.
Theorem C13_per_scal : forall tw w invn scale invK n step nseg c d (Y Yref:rsig R) i j k,
  sd_per K tw w invn scale invK n step nseg (sscal R K c Y) (sscal R K d Yref) i j k
  = cscal K (c*d) (sd_per K tw w invn scale invK n step nseg Y Yref i j k).
Proof. intros tw w invn scale invK n step nseg. exact (pxy_scal R K Rth tw w invn scale invK n n step nseg). Qed.
Theorem C13_cor_add_data : forall tw we invm invn invK n nseg (Y Z Yref:rsig R) i j k,
  sd_cor K tw we invm invn invK n nseg (sadd R K Y Z) Yref i j k
  = sd_cor K tw we invm invn invK n nseg Y Yref i j k +c sd_cor K tw we invm invn invK n nseg Z Yref i j k.
Proof. exact (sd_cor_add_data R K Rth). Qed.
Theorem C13_cor_add_ref : forall tw we invm invn invK n nseg (Y Yref Zref:rsig R) i j k,
  sd_cor K tw we invm invn invK n nseg Y (sadd R K Yref Zref) i j k
  = sd_cor K tw we invm invn invK n nseg Y Yref i j k +c sd_cor K tw we invm invn invK n nseg Y Zref i j k.
Proof. exact (sd_cor_add_ref R K Rth). Qed.
Theorem C13_cor_scal : forall tw we invm invn invK n nseg c d (Y Yref:rsig R) i j k,
  sd_cor K tw we invm invn invK n nseg (sscal R K c Y) (sscal R K d Yref) i j k
  = cscal K (c*d) (sd_cor K tw we invm invn invK n nseg Y Yref i j k).
Proof. exact (sd_cor_scal R K Rth). Qed.
(* ... hence the square of a common gain *)
Theorem C13_per_gain : forall tw w invn scale invK n step nseg g (Y Yref:rsig R) i j k,
  sd_per K tw w invn scale invK n step nseg (sscal R K g Y) (sscal R K g Yref) i j k
  = cscal K (g*g) (sd_per K tw w invn scale invK n step nseg Y Yref i j k).
Proof. intros tw w invn scale invK n step nseg. exact (pxy_gain R K Rth tw w invn scale invK n n step nseg). Qed.
Theorem C13_cor_gain : forall tw we invm invn invK n nseg g (Y Yref:rsig R) i j k,
  sd_cor K tw we invm invn invK n nseg (sscal R K g Y) (sscal R K g Yref) i j k
  = cscal K (g*g) (sd_cor K tw we invm invn invK n nseg Y Yref i j k).
Proof. intros tw we invm invn invK n nseg g. exact (sd_cor_scal R K Rth tw we invm invn invK n nseg g g). Qed.

(* periodogram estimator, identical data and reference: Hermitian at every line *)
Theorem C13_per_hermitian : forall tw w invn scale invK n step nseg (Y:rsig R) i j k,
  sd_per K tw w invn scale invK n step nseg Y Y j i k = cconj K (sd_per K tw w invn scale invK n step nseg Y Y i j k).
Proof. intros tw w invn scale invK n step nseg. exact (pxy_hermitian R K Rth tw w invn scale invK n n step nseg). Qed.
(* ... and v^H S v = coefficient * sum over segments of |sum_j v_j X_j|^2 : a sum of squared moduli *)
Theorem C13_per_quadratic_form : forall tw w invn scale invK n step nseg (Y:rsig R) nch (v:nat->CR) k,
  quad R K nch v (fun i j => sd_per K tw w invn scale invK n step nseg Y Y i j k)
  = cofR K (dbl K n k * scale * invK
            * sumn K nseg (fun s => cnorm2 K (sumn (COps K) nch (fun j => v j *c stft K tw w invn n step (Y j) s k)))).
Proof. intros tw w invn scale invK n step nseg. exact (pxy_quad R K Rth tw w invn scale invK n n step nseg). Qed.
(* ... which is non-negative over every ordered carrier when scale and 1/K are *)
Theorem C13_per_psd_ordered : forall (le:R->R->Prop),
  le (o0 K) (o0 K) -> le (o0 K) (o1 K) -> (forall a b, le (o0 K) a -> le (o0 K) b -> le (o0 K) (a+b)) ->
  (forall a b, le (o0 K) a -> le (o0 K) b -> le (o0 K) (a*b)) -> (forall a, le (o0 K) (a*a)) ->
  forall tw w invn scale invK n step nseg (Y:rsig R) nch (v:nat->CR) k,
  le (o0 K) scale -> le (o0 K) invK ->
  le (o0 K) (cre (quad R K nch v (fun i j => sd_per K tw w invn scale invK n step nseg Y Y i j k)))
  /\ cim (quad R K nch v (fun i j => sd_per K tw w invn scale invK n step nseg Y Y i j k)) = o0 K.
Proof.
  intros le h1 h2 h3 h4 h5 tw w invn scale invK n step nseg.
  exact (pxy_psd R K Rth le h1 h2 h3 h4 h5 tw w invn scale invK n n step nseg).
Qed.

(* common factor: if the segment spectra of channels i and j at line k are A_i Z^s and A_j Z^s, then
   S[i][j] = conj(A_i) A_j S_zz and S[i][j] A_i = S[i][i] A_j, i.e. S[i][j]/S[i][i] = A_j/A_i:
   the ROW index carries the conjugate.  With A = amplitudes this is the sinusoid statement, with
   A_j/A_i = g omega^(k d) (omega = exp(-2 pi i/n)) it is gain g and phase -2 pi f delay of a circular delay d. *)
Theorem C13_per_common_factor : forall tw w invn scale invK n step nseg (Y:rsig R) (A:nat->CR) (Z:nat->CR) i j k,
  (forall s, (s<nseg)%nat -> stft K tw w invn n step (Y i) s k = A i *c Z s) ->
  (forall s, (s<nseg)%nat -> stft K tw w invn n step (Y j) s k = A j *c Z s) ->
  sd_per K tw w invn scale invK n step nseg Y Y i j k
  = (cconj K (A i) *c A j) *c cscal K (dbl K n k * scale * invK) (sumn (COps K) nseg (fun s => cconj K (Z s) *c Z s))
  /\ sd_per K tw w invn scale invK n step nseg Y Y i j k *c A i = sd_per K tw w invn scale invK n step nseg Y Y i i k *c A j.
Proof. intros tw w invn scale invK n step nseg. exact (pxy_common_factor R K Rth tw w invn scale invK n n step nseg). Qed.
(* time domain, both estimators: channel j = g * channel i  =>  S[i][j] = g * S[i][i] *)
Theorem C13_per_scaled_copy : forall tw w invn scale invK n step nseg g (Y:rsig R) i j k,
  (forall t, Y j t = g * Y i t) ->
  sd_per K tw w invn scale invK n step nseg Y Y i j k = cscal K g (sd_per K tw w invn scale invK n step nseg Y Y i i k).
Proof. intros tw w invn scale invK n step nseg. exact (pxy_scaled_copy R K Rth tw w invn scale invK n n step nseg). Qed.
Theorem C13_cor_scaled_copy : forall tw we invm invn invK n nseg g (Y:rsig R) i j k,
  (forall t, Y j t = g * Y i t) ->
  sd_cor K tw we invm invn invK n nseg Y Y i j k = cscal K g (sd_cor K tw we invm invn invK n nseg Y Y i i k).
Proof. exact (sd_cor_scaled_copy R K Rth). Qed.

(* integral over frequency: for a DFT twiddle table of even length n = 2(p+1) (rows orthogonal with squared norm nR = n,
   row n-k the conjugate of row k) the one-sided densities of channel i summed over the lines 0 .. n/2 equal
   scale/K * n * (energy of the windowed, mean-removed segments).  With scale = 1/(fs sum w^2) this is
   sum_k Sy[i][i][k] * fs/n = (1/K) sum_seg sum_t (w_t (y_t - mean))^2 / sum_t w_t^2, the window-weighted mean square. *)
Theorem C13_per_parseval : forall (tw:nat->nat->CR) (p:nat) (nR:R),
  (forall t t', (t < 2 * S p)%nat -> (t' < 2 * S p)%nat ->
     sumn (COps K) (2 * S p) (fun k => cconj K (tw k t) *c tw k t') = if (t =? t')%nat then cofR K nR else c0 K) ->
  (forall k t, (0 < k)%nat -> (k < 2 * S p)%nat -> (t < 2 * S p)%nat -> tw (2 * S p - k)%nat t = cconj K (tw k t)) ->
  forall (w:nat->R) (invn scale invK:R) (step nseg:nat) (Y:rsig R) i,
  sumn (COps K) (S (S p)) (fun k => sd_per K tw w invn scale invK (2 * S p) step nseg Y Y i i k)
  = cofR K (scale * invK * (nR * sumn K nseg (fun s => sumn K (2 * S p) (fun t =>
        (w t * seg_dt K invn (2 * S p) (s*step) (Y i) t) * (w t * seg_dt K invn (2 * S p) (s*step) (Y i) t))))).
Proof. exact (sd_parseval R K Rth). Qed.

(* DFT shift theorem for any table with tw k ((t+d) mod n) = tw k t * tw k d: a circular delay by d (and gain g)
   multiplies line k by g * tw k d *)
Theorem C13_dft_shift : forall (tw:nat->nat->CR) n d g (x x':nat->R) k, (d < n)%nat ->
  (forall t, (t<n)%nat -> tw k ((t + d) mod n)%nat = tw k t *c tw k d) ->
  (forall t, (t<n)%nat -> x' t = g * x ((t + (n - d)) mod n)%nat) ->
  sumn (COps K) n (fun t => cscal K (x' t) (tw k t)) = (cofR K g *c tw k d) *c sumn (COps K) n (fun t => cscal K (x t) (tw k t)).
Proof. exact (dft_shift R K Rth). Qed.
(* 'per': segments of channel j = g * segments of channel i delayed circularly by d  =>  Sy[i][j][k] = g tw k d Sy[i][i][k];
   with tw k d = exp(-2 pi i k d/n) this is gain g and phase -2 pi f delay (f = k fs/n, delay = d/fs), row = source *)
Theorem C13_per_circular_delay : forall (tw:nat->nat->CR) (w:nat->R) (invn scale invK:R) (n step nseg:nat) (Y:rsig R) i j k d g,
  (d < n)%nat ->
  (forall t, (t<n)%nat -> tw k ((t + d) mod n)%nat = tw k t *c tw k d) ->
  (forall s t, (s<nseg)%nat -> (t<n)%nat ->
     w t * seg_dt K invn n (s*step) (Y j) t
     = g * (w ((t + (n - d)) mod n)%nat * seg_dt K invn n (s*step) (Y i) ((t + (n - d)) mod n)%nat)) ->
  sd_per K tw w invn scale invK n step nseg Y Y i j k
  = (cofR K g *c tw k d) *c sd_per K tw w invn scale invK n step nseg Y Y i i k.
Proof. exact (sd_per_circular_delay R K Rth). Qed.

(* ---------------- 'cor': inverse real FFT of a delayed spectrum, and what the exponential window leaves of it ----------------
   The statement below was the round-1 formulation of the inverse-real-FFT shift theorem.  AS WRITTEN IT IS FALSE
   (C13_full_statement_refuted, after the section): numpy.fft.irfft reads only the REAL part of line 0, and nothing in the
   hypotheses fixes tw 0 d - the character property and |tw 0 d| = 1 are also satisfied by the row (-1)^t, for which
   Re(g tw 0 d Pii 0) = -g Pii 0.  The missing hypothesis is tw 0 d = 1; numpy's table has tw k t = exp(-2 pi i k t/n),
   so line 0 is exp(0) = 1 identically.  (The Nyquist line is pinned by the hypothesis tw (n/2) d = (-1)^d that was already
   there.)  The definition is kept unchanged for the record; it asserts nothing. *)
Definition C13_full_statement : Prop :=
  forall (tw:nat->nat->CR) (invn:R) (n d:nat) (g:R) (Pii Pij:nat->CR),
  (d < n)%nat -> Nat.even n = true ->
  (forall k t, (k <= n/2)%nat -> (t<n)%nat -> tw k ((t + d) mod n)%nat = tw k t *c tw k d) ->
  (forall k, (k <= n/2)%nat -> cconj K (tw k d) *c tw k d = c1 K) ->
  tw (n/2)%nat d = cofR K (alt K d) ->
  (forall k, (k <= n/2)%nat -> cim (Pii k) = o0 K) ->
  (forall k, (k <= n/2)%nat -> Pij k = (cofR K g *c tw k d) *c Pii k) ->
  forall t, (t<n)%nat -> irfft_of K tw invn n Pij t = g * irfft_of K tw invn n Pii ((t + (n - d)) mod n)%nat.
(* the corrected theorem: with tw 0 d = 1 added (and the hypothesis that Pii is real dropped - it is not needed),
   Pij k = g tw k d Pii k on the lines 0 .. n/2  =>  irfft(Pij) = g * irfft(Pii) delayed circularly by d *)
Theorem C13_irfft_circular_delay :
  forall (tw:nat->nat->CR) (invn:R) (n d:nat) (g:R) (Pii Pij:nat->CR),
  (d < n)%nat -> Nat.even n = true ->
  (forall k t, (k <= n/2)%nat -> (t<n)%nat -> tw k ((t + d) mod n)%nat = tw k t *c tw k d) ->
  (forall k, (k <= n/2)%nat -> cconj K (tw k d) *c tw k d = c1 K) ->
  tw 0%nat d = c1 K ->
  tw (n/2)%nat d = cofR K (alt K d) ->
  (forall k, (k <= n/2)%nat -> Pij k = (cofR K g *c tw k d) *c Pii k) ->
  forall t, (t<n)%nat -> irfft_of K tw invn n Pij t = g * irfft_of K tw invn n Pii ((t + (n - d)) mod n)%nat.
Proof. exact (irfft_circular_delay R K Rth). Qed.

(* 'cor' cuts consecutive box-car segments of length m = n/2, removes their mean and transforms them with nfft = n, i.e.
   ZERO-PADDED to length n.  Time domain => segment spectra: if the zero-padded segment s of channel j is g times that of
   channel i delayed circularly (mod n) by d, then X_j^s[k] = g tw k d X_i^s[k].  (A circular delay of the UNPADDED
   half-length segments would not do: tw k ((t+d) mod m) = tw k t tw k d holds for even k only.) *)
Theorem C13_cor_segment_delay : forall (tw:nat->nat->CR) (invm:R) (m n d:nat) (g:R) (Y:rsig R) i j s k,
  (m <= n)%nat -> (d < n)%nat ->
  (forall t, (t<n)%nat -> tw k ((t + d) mod n)%nat = tw k t *c tw k d) ->
  (forall t, (t<n)%nat ->
     (if (t <? m)%nat then seg_dt K invm m (s*m) (Y j) t else o0 K)
     = g * (if ((t + (n - d)) mod n <? m)%nat then seg_dt K invm m (s*m) (Y i) ((t + (n - d)) mod n)%nat else o0 K)) ->
  stft K tw (ones K) invm m m (Y j) s k = (cofR K g *c tw k d) *c stft K tw (ones K) invm m m (Y i) s k.
Proof. exact (stft_ones_delay R K Rth). Qed.
(* ... and from the segment spectra through every stage of sd_cor.  With P = the raw box-car periodogram and
   r_ab = irfft(P[a][b]) the lag-domain sequence BEFORE the exponential window we:
   (1) P[i][j] = g tw k d P[i][i] on every line, and P[i][i] is real;
   (2) r_ij t = g r_ii ((t - d) mod n): the lag sequence is delayed circularly by d, exactly;
   (3) the windowed lag sequences agree after cross-multiplication by the window at the two positions;
   (4) Sy[i][j][k] = g tw k d * rfft(we advanced by d * r_ii)[k], whereas Sy[i][i][k] = rfft(we * r_ii)[k];
   (5) if the delay only rescales the window (we ((u+d) mod n) = c we u; no window: c = 1) the ratio is exactly c g tw k d;
   (6) for a window with we (u+d) = c we u as long as u+d < n (the library's we t = 0.01^(t/n): c = 0.01^(d/n)) the ratio
       Sy[i][j]/Sy[i][i] differs from c g tw k d exactly by the contribution of the d wrapped lags n-d .. n-1 of r_ii,
       each weighted we v - c we (n-d+v) (= 0.99 we v for the library's window).
   The 30 % median tolerance which the property text grants 'cor' on broadband data (where, in addition, the delay is
   linear rather than circular) is an oracle-level statement and is NOT derived here. *)
Theorem C13_cor_spectral_delay :
  forall (tw:nat->nat->CR) (we:nat->R) (invm invn invK:R) (n nseg d:nat) (g:R) (Y:rsig R) (i j:nat),
  (d < n)%nat -> Nat.even n = true ->
  (forall k t, (k <= n/2)%nat -> (t<n)%nat -> tw k ((t + d) mod n)%nat = tw k t *c tw k d) ->
  (forall k, (k <= n/2)%nat -> cconj K (tw k d) *c tw k d = c1 K) ->
  tw 0%nat d = c1 K -> tw (n/2)%nat d = cofR K (alt K d) ->
  (forall k s, (k <= n/2)%nat -> (s<nseg)%nat ->
     stft K tw (ones K) invm (n/2) (n/2) (Y j) s k = (cofR K g *c tw k d) *c stft K tw (ones K) invm (n/2) (n/2) (Y i) s k) ->
  let P := pxy K tw (ones K) invm invm invK n (n/2) (n/2) nseg Y Y in
  let rii := irfft_of K tw invn n (P i i) in
  let rij := irfft_of K tw invn n (P i j) in
  (forall k, (k <= n/2)%nat -> P i j k = (cofR K g *c tw k d) *c P i i k /\ cim (P i i k) = o0 K) /\
  (forall t, (t<n)%nat -> rij t = g * rii ((t + (n - d)) mod n)%nat) /\
  (forall t, (t<n)%nat ->
     we ((t + (n - d)) mod n)%nat * (we t * rij t) = g * (we t * (we ((t + (n - d)) mod n)%nat * rii ((t + (n - d)) mod n)%nat))) /\
  (forall k, (k <= n/2)%nat ->
     sd_cor K tw we invm invn invK n nseg Y Y i j k
     = (cofR K g *c tw k d) *c rfft_of K tw n (fun u => we ((u + d) mod n)%nat * rii u) k) /\
  (forall c k, (k <= n/2)%nat -> (forall u, (u<n)%nat -> we ((u + d) mod n)%nat = c * we u) ->
     sd_cor K tw we invm invn invK n nseg Y Y i j k
     = (cofR K (c * g) *c tw k d) *c sd_cor K tw we invm invn invK n nseg Y Y i i k) /\
  (forall c k, (k <= n/2)%nat -> (forall u, (u + d < n)%nat -> we (u + d)%nat = c * we u) ->
     sd_cor K tw we invm invn invK n nseg Y Y i j k
     = (cofR K g *c tw k d) *c
       (cscal K c (sd_cor K tw we invm invn invK n nseg Y Y i i k)
        +c sumn (COps K) d (fun v => cscal K (osub K (we v) (c * we (n - d + v)%nat) * rii (n - d + v)%nat) (tw k (n - d + v)%nat)))).
Proof. exact (sd_cor_spectral_delay R K Rth). Qed.

(* the executed tables: n_all x n_ref x (n/2+1), entry (i,j,k) = the function-level model with scipy's derived
   parameters (step = n - noverlap, K = (Ndat - noverlap) div step, 1/n, scale = 1/(fs sum w^2), 1/K) *)
Theorem C13_per_l_shape : forall twl wl fs n nov Ndat nall nref Yl Yrefl,
  length (sd_per_l K twl wl fs n nov Ndat nall nref Yl Yrefl) = nall /\
  (forall i, (i<nall)%nat -> length (nth i (sd_per_l K twl wl fs n nov Ndat nall nref Yl Yrefl) []) = nref) /\
  (forall i j, (i<nall)%nat -> (j<nref)%nat ->
     length (nth j (nth i (sd_per_l K twl wl fs n nov Ndat nall nref Yl Yrefl) []) []) = S (n/2)).
Proof. exact (sd_per_l_shape R K). Qed.
Theorem C13_per_l_entry : forall twl wl fs n nov Ndat nall nref Yl Yrefl i j k,
  (i<nall)%nat -> (j<nref)%nat -> (k < nlines n)%nat ->
  ent3 R K (sd_per_l K twl wl fs n nov Ndat nall nref Yl Yrefl) i j k
  = sd_per K (tw_of K twl n) (lget K wl) (odiv K (o1 K) (ofnat K n))
      (odiv K (o1 K) (fs * sumn K n (fun t => lget K wl t * lget K wl t))) (odiv K (o1 K) (ofnat K (nsegs Ndat n nov)))
      n (n - nov) (nsegs Ndat n nov) (sig_of K Yl) (sig_of K Yrefl) i j k.
Proof. exact (sd_per_l_entry R K). Qed.
Theorem C13_cor_l_entry : forall twl wel n Ndat nall nref Yl Yrefl res i j k,
  sd_cor_l K twl wel n Ndat nall nref Yl Yrefl = Some res ->
  (2 <= n)%nat -> (i<nall)%nat -> (j<nref)%nat -> (k < nlines n)%nat ->
  Nat.even n = true /\
  ent3 R K res i j k
  = sd_cor K (tw_of K twl n) (lget K wel) (odiv K (o1 K) (ofnat K (n/2))) (odiv K (o1 K) (ofnat K n))
      (odiv K (o1 K) (ofnat K (nsegs Ndat (n/2) 0))) n (nsegs Ndat (n/2) 0) (sig_of K Yl) (sig_of K Yrefl) i j k.
Proof. exact (sd_cor_l_entry R K). Qed.
(* the two-carrier evaluator used for the large correspondence cases, instantiated with ONE carrier and phi = id, returns
   exactly the entries of the one-carrier model; the general case (phi any ring homomorphism, then the dyadic carrier) is
   C13_per_x_transport .. C13_cor_x_dyadic below *)
Theorem C13_per_x_id : forall twl wl fs n nov Ndat nall nref Yl Yrefl i j k,
  (i<nall)%nat -> (j<nref)%nat -> (k < nlines n)%nat ->
  ent3 R K (sd_per_x K K (fun x => x) twl wl (odiv K (o1 K) (ofnat K n)) fs n nov Ndat nall nref Yl Yrefl) i j k
  = ent3 R K (sd_per_l K twl wl fs n nov Ndat nall nref Yl Yrefl) i j k.
Proof. exact (sd_per_x_id R K Rth). Qed.
Theorem C13_cor_x_id : forall twl wel n Ndat nall nref Yl Yrefl res resx i j k,
  sd_cor_l K twl wel n Ndat nall nref Yl Yrefl = Some res ->
  sd_cor_x K K (fun x => x) twl wel (odiv K (o1 K) (ofnat K (n/2))) (odiv K (o1 K) (ofnat K n)) n Ndat nall nref Yl Yrefl = Some resx ->
  (2 <= n)%nat -> (i<nall)%nat -> (j<nref)%nat -> (k < nlines n)%nat ->
  ent3 R K resx i j k = ent3 R K res i j k.
Proof. exact (sd_cor_x_id R K Rth). Qed.
End S.

(* the round-1 statement is false over the rationals: n = 2, d = 1, g = 1, both rows of the table = (-1)^t, Pii = 1 *)
Theorem C13_full_statement_refuted : ~ C13_full_statement Qc QcOps.
Proof. exact irfft_shift_claim_refuted. Qed.

(* ---------------- the two-carrier evaluators, transported along a ring homomorphism ----------------
   sd_per_x / sd_cor_x run the sums of the model in a carrier K1 and apply the non-ring factors in K2 after phi : K1 -> K2.
   For ANY map phi that respects 0, 1, +, *, -, opp (K1 itself need not satisfy any law; K2 is a commutative ring) and maps
   the reciprocal constants handed to the evaluator to the reciprocals the model computes (phi invn1 = 1/n, phi invm1 = 1/(n/2)),
   every entry equals the entry of the ONE-carrier model over K2 run on the phi-images of the inputs. *)
Section T.
Variables (R1 R2:Type) (K1:Ops R1) (K2:Ops R2) (phi:R1->R2).
Hypothesis R2th : ring_theory (o0 K2) (o1 K2) (oadd K2) (omul K2) (osub K2) (oopp K2) (@eq R2).
Hypothesis phi_0 : phi (o0 K1) = o0 K2.
Hypothesis phi_1 : phi (o1 K1) = o1 K2.
Hypothesis phi_add : forall a b, phi (oadd K1 a b) = oadd K2 (phi a) (phi b).
Hypothesis phi_mul : forall a b, phi (omul K1 a b) = omul K2 (phi a) (phi b).
Hypothesis phi_sub : forall a b, phi (osub K1 a b) = osub K2 (phi a) (phi b).
Hypothesis phi_opp : forall a, phi (oopp K1 a) = oopp K2 (phi a).
Theorem C13_per_x_transport : forall twl wl invn1 fs n nov Ndat nall nref Yl Yrefl i j k,
  phi invn1 = odiv K2 (o1 K2) (ofnat K2 n) ->
  (i<nall)%nat -> (j<nref)%nat -> (k < nlines n)%nat ->
  ent3 R2 K2 (sd_per_x K1 K2 phi twl wl invn1 fs n nov Ndat nall nref Yl Yrefl) i j k
  = ent3 R2 K2 (sd_per_l K2 (map (cphi phi) twl) (map phi wl) fs n nov Ndat nall nref (map (map phi) Yl) (map (map phi) Yrefl)) i j k.
Proof. exact (sd_per_x_transport R1 R2 K1 K2 phi R2th phi_0 phi_1 phi_add phi_mul phi_sub phi_opp). Qed.
Theorem C13_cor_x_transport : forall twl wel invm1 invn1 n Ndat nall nref Yl Yrefl res resx i j k,
  phi invm1 = odiv K2 (o1 K2) (ofnat K2 (n/2)) -> phi invn1 = odiv K2 (o1 K2) (ofnat K2 n) ->
  sd_cor_l K2 (map (cphi phi) twl) (map phi wel) n Ndat nall nref (map (map phi) Yl) (map (map phi) Yrefl) = Some res ->
  sd_cor_x K1 K2 phi twl wel invm1 invn1 n Ndat nall nref Yl Yrefl = Some resx ->
  (2 <= n)%nat -> (i<nall)%nat -> (j<nref)%nat -> (k < nlines n)%nat ->
  ent3 R2 K2 resx i j k = ent3 R2 K2 res i j k.
Proof. exact (sd_cor_x_transport R1 R2 K1 K2 phi R2th phi_0 phi_1 phi_add phi_mul phi_sub phi_opp). Qed.
End T.
(* the scaling carrier can be exchanged afterwards by any psi : K2 -> K3 that respects 0, 1, +, * and the division
   (no law is needed in K2: this is how plain Q, whose equality is not Leibniz, is read in Qc by psi = Q2Qc) *)
Section U.
Variables (R1 R2 R3:Type) (K1:Ops R1) (K2:Ops R2) (K3:Ops R3) (phi:R1->R2) (psi:R2->R3).
Hypothesis psi_0 : psi (o0 K2) = o0 K3.
Hypothesis psi_1 : psi (o1 K2) = o1 K3.
Hypothesis psi_add : forall a b, psi (oadd K2 a b) = oadd K3 (psi a) (psi b).
Hypothesis psi_mul : forall a b, psi (omul K2 a b) = omul K3 (psi a) (psi b).
Hypothesis psi_div : forall a b, psi (odiv K2 a b) = odiv K3 (psi a) (psi b).
Theorem C13_per_x_rescale : forall twl wl invn1 fs n nov Ndat nall nref Yl Yrefl i j k,
  (i<nall)%nat -> (j<nref)%nat -> (k < nlines n)%nat ->
  cphi psi (ent3 R2 K2 (sd_per_x K1 K2 phi twl wl invn1 fs n nov Ndat nall nref Yl Yrefl) i j k)
  = ent3 R3 K3 (sd_per_x K1 K3 (fun x => psi (phi x)) twl wl invn1 (psi fs) n nov Ndat nall nref Yl Yrefl) i j k.
Proof. exact (sd_per_x_post R1 R2 R3 K1 K2 K3 phi psi psi_0 psi_1 psi_add psi_mul psi_div). Qed.
Theorem C13_cor_x_rescale : forall twl wel invm1 invn1 n Ndat nall nref Yl Yrefl res2 res3 i j k,
  sd_cor_x K1 K2 phi twl wel invm1 invn1 n Ndat nall nref Yl Yrefl = Some res2 ->
  sd_cor_x K1 K3 (fun x => psi (phi x)) twl wel invm1 invn1 n Ndat nall nref Yl Yrefl = Some res3 ->
  (i<nall)%nat -> (j<nref)%nat -> (k < nlines n)%nat ->
  cphi psi (ent3 R2 K2 res2 i j k) = ent3 R3 K3 res3 i j k.
Proof. exact (sd_cor_x_post R1 R2 R3 K1 K2 K3 phi psi psi_0 psi_1 psi_add psi_mul psi_div). Qed.
End U.
(* the dyadic carrier.  DyOpsG / dy2qG (Proofs/P_spectra_deep2.v) are the text of M_spectra.DyOps / dy2q with Bignums'
   BigZ operations replaced by an arbitrary implementation T of the integers read through toZ : T -> Z; DyOps = DyOpsG bigZ
   BigZ.add .. and dy2q = dy2qG bigZ BigZ.to_Z hold by reflexivity (P_spectra_deep2.DyOps_is_generic, dy2q_is_generic).
   Under the seven specifications below - for T = bigZ they are Bignums' lemmas BigZ.spec_add, spec_mul, spec_opp,
   spec_shiftl, spec_of_Z, spec_0, spec_1 - dy2qG is a ring homomorphism into Q up to Qeq for EVERY exponent, and what the
   harness evaluates for the large cases (sums over exact dyadics, scaling over plain Q, phi = dy2q), read in Qc, is entry
   by entry the one-carrier model over Qc of the embedded inputs (dq = Q2Qc o dy2qG).
   NOT in this file: the instance T = bigZ itself (P_spectra_deep2.sd_per_x_bigz, sd_cor_x_bigz are proved, but every
   statement that mentions BigZ makes Print Assumptions list the Uint63 primitives, and BigZ.spec_* rest on the Uint63
   specification assumptions of the standard library, which are outside this development's allow-list). *)
Section V.
Variables (T:Type) (tadd tmul:T->T->T) (topp:T->T) (tshl:T->T->T) (tofZ:Z->T) (t0 t1:T) (toZ:T->Z).
Hypothesis s_add : forall x y, toZ (tadd x y) = (toZ x + toZ y)%Z.
Hypothesis s_mul : forall x y, toZ (tmul x y) = (toZ x * toZ y)%Z.
Hypothesis s_opp : forall x, toZ (topp x) = (- toZ x)%Z.
Hypothesis s_shiftl : forall x p, toZ (tshl x p) = Z.shiftl (toZ x) (toZ p).
Hypothesis s_of_Z : forall z, toZ (tofZ z) = z.
Hypothesis s_0 : toZ t0 = 0%Z.
Hypothesis s_1 : toZ t1 = 1%Z.
Notation DyT := (DyOpsG T tadd tmul topp tshl tofZ t0 t1).
Notation d2q := (dy2qG T toZ).
Notation dqT := (dq T toZ).
Theorem C13_dyadic_hom :
  d2q (o0 DyT) == 0 /\ d2q (o1 DyT) == 1 /\
  (forall x y, d2q (oadd DyT x y) == d2q x + d2q y) /\
  (forall x y, d2q (omul DyT x y) == d2q x * d2q y) /\
  (forall x y, d2q (osub DyT x y) == d2q x - d2q y) /\
  (forall x, d2q (oopp DyT x) == - d2q x).
Proof. exact (dy2q_hom T tadd tmul topp tshl tofZ t0 t1 toZ s_add s_mul s_opp s_shiftl s_of_Z s_0 s_1). Qed.
Theorem C13_per_x_dyadic : forall twl wl invn1 (fs:Q) n nov Ndat nall nref Yl Yrefl i j k,
  dqT invn1 = odiv QcOps (o1 QcOps) (ofnat QcOps n) ->
  (i<nall)%nat -> (j<nref)%nat -> (k < nlines n)%nat ->
  cphi Q2Qc (ent3 Q QOps_spectra (sd_per_x DyT QOps_spectra d2q twl wl invn1 fs n nov Ndat nall nref Yl Yrefl) i j k)
  = ent3 Qc QcOps (sd_per_l QcOps (map (cphi dqT) twl) (map dqT wl) (Q2Qc fs) n nov Ndat nall nref
                     (map (map dqT) Yl) (map (map dqT) Yrefl)) i j k.
Proof. exact (sd_per_x_dyadic T tadd tmul topp tshl tofZ t0 t1 toZ s_add s_mul s_opp s_shiftl s_of_Z s_0 s_1). Qed.
Theorem C13_cor_x_dyadic : forall twl wel invm1 invn1 n Ndat nall nref Yl Yrefl res resx i j k,
  dqT invm1 = odiv QcOps (o1 QcOps) (ofnat QcOps (n/2)) -> dqT invn1 = odiv QcOps (o1 QcOps) (ofnat QcOps n) ->
  sd_cor_l QcOps (map (cphi dqT) twl) (map dqT wel) n Ndat nall nref (map (map dqT) Yl) (map (map dqT) Yrefl) = Some res ->
  sd_cor_x DyT QOps_spectra d2q twl wel invm1 invn1 n Ndat nall nref Yl Yrefl = Some resx ->
  (2 <= n)%nat -> (i<nall)%nat -> (j<nref)%nat -> (k < nlines n)%nat ->
  cphi Q2Qc (ent3 Q QOps_spectra resx i j k) = ent3 Qc QcOps res i j k.
Proof. exact (sd_cor_x_dyadic T tadd tmul topp tshl tofZ t0 t1 toZ s_add s_mul s_opp s_shiftl s_of_Z s_0 s_1). Qed.
End V.

(* ---------------- at the real numbers: Hermitian positive semidefinite ---------------- *)
Theorem C13_per_hermitian_psd_R :
  forall (tw:nat->nat->C Rdefinitions.R) (w:nat->Rdefinitions.R) (invn scale invK:Rdefinitions.R) (n step nseg:nat)
         (Y:rsig Rdefinitions.R),
  Rdefinitions.Rle 0%R scale -> Rdefinitions.Rle 0%R invK ->
  forall k,
   (forall i j, sd_per ROps_spectra tw w invn scale invK n step nseg Y Y j i k
                = cconj ROps_spectra (sd_per ROps_spectra tw w invn scale invK n step nseg Y Y i j k)) /\
   (forall nch (v:nat->C Rdefinitions.R),
      Rdefinitions.Rle 0%R (cre (quad _ ROps_spectra nch v (fun i j => sd_per ROps_spectra tw w invn scale invK n step nseg Y Y i j k))) /\
      cim (quad _ ROps_spectra nch v (fun i j => sd_per ROps_spectra tw w invn scale invK n step nseg Y Y i j k)) = 0%R).
Proof. exact sd_per_hpsd_R. Qed.

Print Assumptions C13_sd_grid.
Print Assumptions C13_per_pairing.
Print Assumptions C13_per_pairing_local.
Print Assumptions C13_cor_pairing_local.
Print Assumptions C13_per_add_data.
Print Assumptions C13_per_add_ref.
Print Assumptions C13_per_scal.
Print Assumptions C13_cor_add_data.
Print Assumptions C13_cor_add_ref.
Print Assumptions C13_cor_scal.
Print Assumptions C13_per_gain.
Print Assumptions C13_cor_gain.
Print Assumptions C13_per_hermitian.
Print Assumptions C13_per_quadratic_form.
Print Assumptions C13_per_psd_ordered.
Print Assumptions C13_per_common_factor.
Print Assumptions C13_per_scaled_copy.
Print Assumptions C13_cor_scaled_copy.
Print Assumptions C13_per_parseval.
Print Assumptions C13_dft_shift.
Print Assumptions C13_per_circular_delay.
Print Assumptions C13_irfft_circular_delay.
Print Assumptions C13_cor_segment_delay.
Print Assumptions C13_cor_spectral_delay.
Print Assumptions C13_full_statement_refuted.
Print Assumptions C13_per_l_shape.
Print Assumptions C13_per_l_entry.
Print Assumptions C13_cor_l_entry.
Print Assumptions C13_per_x_id.
Print Assumptions C13_cor_x_id.
Print Assumptions C13_per_x_transport.
Print Assumptions C13_cor_x_transport.
Print Assumptions C13_per_x_rescale.
Print Assumptions C13_cor_x_rescale.
Print Assumptions C13_dyadic_hom.
Print Assumptions C13_per_x_dyadic.
Print Assumptions C13_cor_x_dyadic.
Print Assumptions C13_per_hermitian_psd_R.

(* ---------------- non-vacuity: exact instance over Gaussian rationals ----------------
   n = 4 (omega = -i exactly), periodic Hann samples [0, 1/2, 1, 1/2], 50 % overlap, 8 samples (3 segments), fs = 1;
   channel 0 = cos(2 pi t/4), channel 1 = 2 cos(2 pi t/4 - pi/2): complex amplitude ratio A_1/A_0 = -2i at line 1.
   The hypotheses of C13_per_common_factor hold with A_0 = 1, A_1 = -2i, and the computed matrix shows
   S[0][1] = -2i S[0][0], S[1][0] = conj S[0][1], S[1][1] = 4 S[0][0] at that line. *)
Definition C13_ex_tw : list (Qc*Qc) := [(q 1 1, q 0 1); (q 0 1, q (-1) 1); (q (-1) 1, q 0 1); (q 0 1, q 1 1)].
Definition C13_ex_w : list Qc := [q 0 1; q 1 2; q 1 1; q 1 2].
Definition C13_ex_Y : list (list Qc) :=
  [[q 1 1;q 0 1;q (-1) 1;q 0 1;q 1 1;q 0 1;q (-1) 1;q 0 1];[q 0 1;q 2 1;q 0 1;q (-2) 1;q 0 1;q 2 1;q 0 1;q (-2) 1]].
Example C13_example_per :
  qc3 (sd_per_l QcOps C13_ex_tw C13_ex_w (q 1 1) 4 2 8 2 2 C13_ex_Y C13_ex_Y)
  = [[[(2 # 3, 0); (4 # 3, 0); (2 # 3, 0)]; [(0, 0); (0, -8 # 3); (0, 0)]];
     [[(0, 0); (0, 8 # 3); (0, 0)]; [(0, 0); (16 # 3, 0); (0, 0)]]]%Q.
Proof. vm_compute. reflexivity. Qed.
Example C13_example_common_factor_hypotheses :
  forall s, (s < 3)%nat ->
  stft QcOps (tw_of QcOps C13_ex_tw 4) (lget QcOps C13_ex_w) (q 1 4) 4 2 (sig_of QcOps C13_ex_Y 1%nat) s 1
  = cmul QcOps (q 0 1, q (-2) 1) (stft QcOps (tw_of QcOps C13_ex_tw 4) (lget QcOps C13_ex_w) (q 1 4) 4 2 (sig_of QcOps C13_ex_Y 0%nat) s 1).
Proof.
  intros s Hs. destruct s as [|[|[|s]]]; [| | |exfalso; apply (Nat.lt_irrefl 3), (Nat.le_lt_trans _ (S (S (S s)))); [apply le_n_S, le_n_S, le_n_S, Nat.le_0_l|exact Hs]];
    apply (c_eq Qc); apply Qc_is_canon; vm_compute; reflexivity.
Qed.
Example C13_example_grid : map (@this) (freq_grid QcOps (q 10 1) 8) = [0; 5 # 4; 5 # 2; 15 # 4; 5]%Q.
Proof. vm_compute. reflexivity. Qed.
Example C13_example_cor :
  option_map qc3 (sd_cor_l QcOps C13_ex_tw C13_ex_w 4 8 2 1 C13_ex_Y [[q 1 1;q 2 1;q (-1) 1;q 0 1;q 1 1;q 3 1;q (-1) 1;q 0 1]])
  = Some [[[(1 # 16, 0); (-1 # 32, 0); (0, 0)]]; [[(-1 # 8, 0); (1 # 16, 0); (0, 0)]]]%Q.
Proof. vm_compute. reflexivity. Qed.
(* the root-of-unity hypotheses of C13_per_parseval / C13_dft_shift hold for the exact table of n = 4 (p = 1, nR = 4) *)
Definition C13_ex_ceqb (x y:Qc*Qc) : bool := Qc_eq_bool (fst x) (fst y) && Qc_eq_bool (snd x) (snd y).
Example C13_example_twiddle_hypotheses :
  let tw := tw_of QcOps C13_ex_tw 4 in
  forallb (fun t => forallb (fun t' =>
     C13_ex_ceqb (sumn (COps QcOps) 4 (fun k => cmul QcOps (cconj QcOps (tw k t)) (tw k t')))
                 (if (t =? t')%nat then cofR QcOps (q 4 1) else c0 QcOps)) (seq 0 4)) (seq 0 4)
  && forallb (fun k => forallb (fun t => C13_ex_ceqb (tw (4 - k)%nat t) (cconj QcOps (tw k t))) (seq 0 4)) (seq 1 3)
  && forallb (fun k => forallb (fun t => forallb (fun d =>
       C13_ex_ceqb (tw k ((t + d) mod 4)%nat) (cmul QcOps (tw k t) (tw k d))) (seq 0 4)) (seq 0 4)) (seq 0 3)
  = true.
Proof. vm_compute. reflexivity. Qed.

(* irfft shift theorem: the exact table of n = 4, d = 1, g = 2, Pii = (3, 5+i, 7) (deliberately not real at line 1),
   Pij k = 2 tw k 1 Pii k: every hypothesis of C13_irfft_circular_delay holds, the conclusion is checked at every t, and
   irfft(Pii) is not constant *)
Definition C13_ex_Pii (k:nat) : Qc*Qc := nth k [(q 3 1, q 0 1); (q 5 1, q 1 1); (q 7 1, q 0 1)] (c0 QcOps).
Example C13_example_irfft_delay :
  let tw := tw_of QcOps C13_ex_tw 4 in
  let Pij := fun k => cmul QcOps (cmul QcOps (cofR QcOps (q 2 1)) (tw k 1%nat)) (C13_ex_Pii k) in
  forallb (fun k => forallb (fun t => C13_ex_ceqb (tw k ((t + 1) mod 4)%nat) (cmul QcOps (tw k t) (tw k 1%nat))) (seq 0 4)
                    && C13_ex_ceqb (cmul QcOps (cconj QcOps (tw k 1%nat)) (tw k 1%nat)) (c1 QcOps)) (seq 0 3)
  && C13_ex_ceqb (tw 0%nat 1%nat) (c1 QcOps) && C13_ex_ceqb (tw 2%nat 1%nat) (cofR QcOps (alt QcOps 1))
  && forallb (fun t => Qc_eq_bool (irfft_of QcOps tw (q 1 4) 4 Pij t)
                                  (q 2 1 * irfft_of QcOps tw (q 1 4) 4 C13_ex_Pii ((t + (4 - 1)) mod 4)%nat)) (seq 0 4)
  && negb (Qc_eq_bool (irfft_of QcOps tw (q 1 4) 4 C13_ex_Pii 1) (irfft_of QcOps tw (q 1 4) 4 C13_ex_Pii 2))
  = true.
Proof. vm_compute. reflexivity. Qed.
(* 'cor' with a delay: n = 8, half-length segments of 4 samples, 2 segments, d = 1, g = 2.  Exact 8th roots of unity are
   irrational, so the table is made of characters of Z/8 with values in Q(i): row k is zeta_k^t with zeta = 1, -i, -1, i, -1
   (it satisfies every hypothesis the theorems put on tw - the character property, unit modulus, row 0 = 1, row n/2 = (-1)^t -
   exactly as numpy's exp(-2 pi i k t/8) does).  Channel 0 has the zero-mean segments (1,2,-3,0), (2,-1,-1,0); channel 1 is
   2 x channel 0 delayed by one sample inside each zero-padded segment.  Checked: the hypotheses of C13_cor_segment_delay
   and C13_cor_spectral_delay (time-domain form), the window hypothesis of conclusion (6) for we t = 2^(-t), and conclusion (2)
   at every lag, with r_ii not identically zero *)
Definition C13_ex8_tw (k t:nat) : Qc*Qc := tw_of QcOps C13_ex_tw 4 (nth k [0;1;2;3;2]%nat 0%nat) t.
Definition C13_ex8_Y : list (list Qc) :=
  [[q 1 1;q 2 1;q (-3) 1;q 0 1; q 2 1;q (-1) 1;q (-1) 1;q 0 1];
   [q 0 1;q 2 1;q 4 1;q (-6) 1; q 0 1;q 4 1;q (-2) 1;q (-2) 1]].
Definition C13_ex8_we (t:nat) : Qc := nth t [q 1 1;q 1 2;q 1 4;q 1 8;q 1 16;q 1 32;q 1 64;q 1 128] 0%Qc.
Example C13_example_cor_delay :
  let tw := C13_ex8_tw in let Y := sig_of QcOps C13_ex8_Y in
  let P := pxy QcOps tw (ones QcOps) (q 1 4) (q 1 4) (q 1 2) 8 4 4 2 Y Y in
  forallb (fun k => forallb (fun t => C13_ex_ceqb (tw k ((t + 1) mod 8)%nat) (cmul QcOps (tw k t) (tw k 1%nat))) (seq 0 8)
                    && C13_ex_ceqb (cmul QcOps (cconj QcOps (tw k 1%nat)) (tw k 1%nat)) (c1 QcOps)) (seq 0 5)
  && C13_ex_ceqb (tw 0%nat 1%nat) (c1 QcOps) && C13_ex_ceqb (tw 4%nat 1%nat) (cofR QcOps (alt QcOps 1))
  && forallb (fun s => forallb (fun t =>
       Qc_eq_bool (if (t <? 4)%nat then seg_dt QcOps (q 1 4) 4 (s*4) (Y 1%nat) t else 0%Qc)
                  (q 2 1 * (if ((t + (8 - 1)) mod 8 <? 4)%nat then seg_dt QcOps (q 1 4) 4 (s*4) (Y 0%nat) ((t + (8 - 1)) mod 8)%nat else 0%Qc)))
       (seq 0 8)) (seq 0 2)
  && forallb (fun u => Qc_eq_bool (C13_ex8_we (u + 1)) (q 1 2 * C13_ex8_we u)) (seq 0 7)
  && forallb (fun t => Qc_eq_bool (irfft_of QcOps tw (q 1 8) 8 (P 0 1)%nat t)
                                  (q 2 1 * irfft_of QcOps tw (q 1 8) 8 (P 0 0)%nat ((t + (8 - 1)) mod 8)%nat)) (seq 0 8)
  && negb (Qc_eq_bool (irfft_of QcOps tw (q 1 8) 8 (P 0 0)%nat 1) 0%Qc)
  = true.
Proof. vm_compute. reflexivity. Qed.
(* dyadic carrier: the implementation T = Z (toZ = identity) satisfies the seven specifications by reflexivity; on the data of
   C13_example_per written as dyadics (Hann samples 1/2 = (1,1), 1/n = (1,2)) the two-carrier evaluator returns the table of
   C13_example_per, and C13_per_x_dyadic applies to it *)
Definition C13_exZ := DyOpsG Z Z.add Z.mul Z.opp Z.shiftl (fun z => z) 0%Z 1%Z.
Definition C13_exZ_tw : list (dyG Z * dyG Z) := [((1,0),(0,0)); ((0,0),(-1,0)); ((-1,0),(0,0)); ((0,0),(1,0))]%Z.
Definition C13_exZ_w : list (dyG Z) := [(0,0); (1,1); (1,0); (1,1)]%Z.
Definition C13_exZ_Y : list (list (dyG Z)) :=
  [[(1,0);(0,0);(-1,0);(0,0);(1,0);(0,0);(-1,0);(0,0)];[(0,0);(2,0);(0,0);(-2,0);(0,0);(2,0);(0,0);(-2,0)]]%Z.
Example C13_example_dyadic :
  dq Z (fun z => z) (1,2)%Z = odiv QcOps (o1 QcOps) (ofnat QcOps 4) /\
  map (map (map (fun z => (Qred (fst z), Qred (snd z)))))
      (sd_per_x C13_exZ QOps_spectra (dy2qG Z (fun z => z)) C13_exZ_tw C13_exZ_w (1,2)%Z 1%Q 4 2 8 2 2 C13_exZ_Y C13_exZ_Y)
  = [[[(2 # 3, 0); (4 # 3, 0); (2 # 3, 0)]; [(0, 0); (0, -8 # 3); (0, 0)]];
     [[(0, 0); (0, 8 # 3); (0, 0)]; [(0, 0); (16 # 3, 0); (0, 0)]]]%Q.
Proof. split; [apply Qc_is_canon; vm_compute; reflexivity|vm_compute; reflexivity]. Qed.
Example C13_example_dyadic_applies : forall i j k, (i<2)%nat -> (j<2)%nat -> (k < nlines 4)%nat ->
  cphi Q2Qc (ent3 Q QOps_spectra
     (sd_per_x C13_exZ QOps_spectra (dy2qG Z (fun z => z)) C13_exZ_tw C13_exZ_w (1,2)%Z 1%Q 4 2 8 2 2 C13_exZ_Y C13_exZ_Y) i j k)
  = ent3 Qc QcOps (sd_per_l QcOps (map (cphi (dq Z (fun z => z))) C13_exZ_tw) (map (dq Z (fun z => z)) C13_exZ_w) (Q2Qc 1) 4 2 8 2 2
                     (map (map (dq Z (fun z => z))) C13_exZ_Y) (map (map (dq Z (fun z => z))) C13_exZ_Y)) i j k.
Proof.
  intros i j k Hi Hj Hk.
  apply (C13_per_x_dyadic Z Z.add Z.mul Z.opp Z.shiftl (fun z => z) 0%Z 1%Z (fun z => z)
           (fun _ _ => eq_refl) (fun _ _ => eq_refl) (fun _ => eq_refl) (fun _ _ => eq_refl) (fun _ => eq_refl) eq_refl eq_refl);
    [apply Qc_is_canon; vm_compute; reflexivity|assumption|assumption|assumption].
Qed.
