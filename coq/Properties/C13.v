(* C13 - Spectral matrix estimation (fdd.SD_est): grid, pairing, scaling and phase convention.
   Statements only: each theorem is closed by [exact] of a lemma of Proofs/P_spectra.v.
   sd_per / sd_cor are the function-level models of Model/M_spectra.v ('per' = Welch: segments of length n every
   step samples, mean removed, window w, DFT over the twiddle table tw, average of conj(X_i) X_j over nseg segments,
   coefficient dbl * scale * invK;  'cor' = box-car half-length periodogram -> irfft -> exponential window -> rfft). *)
From Coq Require Import List Arith Bool Lia Ring Field ZArith QArith Qcanon Rdefinitions.
From PyOMA.Base Require Import Carrier Cplx Show.
From PyOMA.Model Require Import M_spectra.
From PyOMA.Proofs Require Import P_spectra.
Import ListNotations.

(* ---------------- frequency grid (any field in which n is invertible) ---------------- *)
Section F.
Variable R:Type. Variable K:Ops R.
Hypothesis Fth : field_theory (o0 K) (o1 K) (oadd K) (omul K) (osub K) (oopp K) (odiv K) (oinv K) (@eq R).
(* n/2+1 lines; line k at k*fs/n; first line 0; spacing fs/n; last line fs/2 (even n) *)
Theorem C13_sd_grid : forall fs n, ofnat K n <> o0 K ->
  length (freq_grid K fs n) = S (n/2) /\
  (forall k, (k <= n/2)%nat -> lget K (freq_grid K fs n) k = odiv K (omul K (ofnat K k) fs) (ofnat K n)) /\
  lget K (freq_grid K fs n) 0 = o0 K /\
  (forall k, (k < n/2)%nat ->
     osub K (lget K (freq_grid K fs n) (S k)) (lget K (freq_grid K fs n) k) = odiv K fs (ofnat K n)) /\
  (Nat.even n = true -> lget K (freq_grid K fs n) (n/2) = odiv K fs (oadd K (o1 K) (o1 K))).
Proof. exact (sd_grid R K Fth). Qed.
End F.

(* ---------------- algebra of the two estimators (any commutative ring) ---------------- *)
Section S.
Variable R:Type. Variable K:Ops R.
Hypothesis Rth : ring_theory (o0 K) (o1 K) (oadd K) (omul K) (osub K) (oopp K) (@eq R).
Local Open Scope K_scope.
Infix "+" := (oadd K) : K_scope. Infix "*" := (omul K) : K_scope.
Notation CR := (C R).
Notation "x +c y" := (cadd K x y) (at level 50, left associativity).
Notation "x *c y" := (cmul K x y) (at level 40, left associativity).

(* pairing: entry (i,j) at line k is coefficient * sum over segments of conj(X of channel i) * (X of reference j):
   the channel of the first argument is the conjugated one *)
Theorem C13_per_pairing : forall tw w invn scale invK n step nseg (Y Yref:rsig R) i j k,
  sd_per K tw w invn scale invK n step nseg Y Yref i j k
  = cscal K (dbl K n k * scale * invK)
      (sumn (COps K) nseg (fun s => cconj K (stft K tw w invn n step (Y i) s k) *c stft K tw w invn n step (Yref j) s k)).
Proof. intros tw w invn scale invK n step nseg. exact (pxy_entry R K tw w invn scale invK n n step nseg). Qed.
(* ... and no other channel enters *)
Theorem C13_per_pairing_local : forall tw w invn scale invK n step nseg (Y Y' Yref Yref':rsig R) i j k,
  (forall t, Y i t = Y' i t) -> (forall t, Yref j t = Yref' j t) ->
  sd_per K tw w invn scale invK n step nseg Y Yref i j k = sd_per K tw w invn scale invK n step nseg Y' Yref' i j k.
Proof. intros tw w invn scale invK n step nseg. exact (pxy_local R K tw w invn scale invK n n step nseg). Qed.
Theorem C13_cor_pairing_local : forall tw we invm invn invK n nseg (Y Y' Yref Yref':rsig R) i j k,
  (forall t, Y i t = Y' i t) -> (forall t, Yref j t = Yref' j t) ->
  sd_cor K tw we invm invn invK n nseg Y Yref i j k = sd_cor K tw we invm invn invK n nseg Y' Yref' i j k.
Proof. exact (sd_cor_local R K). Qed.

(* bilinear in (data, reference data) *)
Theorem C13_per_add_data : forall tw w invn scale invK n step nseg (Y Z Yref:rsig R) i j k,
  sd_per K tw w invn scale invK n step nseg (sadd R K Y Z) Yref i j k
  = sd_per K tw w invn scale invK n step nseg Y Yref i j k +c sd_per K tw w invn scale invK n step nseg Z Yref i j k.
Proof. intros tw w invn scale invK n step nseg. exact (pxy_add_data R K Rth tw w invn scale invK n n step nseg). Qed.
Theorem C13_per_add_ref : forall tw w invn scale invK n step nseg (Y Yref Zref:rsig R) i j k,
  sd_per K tw w invn scale invK n step nseg Y (sadd R K Yref Zref) i j k
  = sd_per K tw w invn scale invK n step nseg Y Yref i j k +c sd_per K tw w invn scale invK n step nseg Y Zref i j k.
Proof. intros tw w invn scale invK n step nseg. exact (pxy_add_ref R K Rth tw w invn scale invK n n step nseg). Qed.
Theorem C13_per_scal : forall tw w invn scale invK n step nseg c d (Y Yref:rsig R) i j k,
  sd_per K tw w invn scale invK n step nseg (sscal R K c Y) (sscal R K d Yref) i j k
  = cscal K (c*d) (sd_per K tw w invn scale invK n step nseg Y Yref i j k).
Proof. intros tw w invn scale invK n step nseg. exact (pxy_scal R K Rth tw w invn scale invK n n step nseg). Qed.
Theorem C13_cor_add_data : forall tw we invm invn invK n nseg (Y Z Yref:rsig R) i j k,
  sd_cor K tw we invm invn invK n nseg (sadd R K Y Z) Yref i j k
  = sd_cor K tw we invm invn invK n nseg Y Yref i j k +c sd_cor K tw we invm invn invK n nseg Z Yref i j k.
Proof. exact (sd_cor_add_data R K Rth). Qed.
Theorem C13_cor_add_ref : forall tw we invm invn invK n nseg (Y Yref Zref:rsig R) i j k,
  sd_cor K tw we invm invn invK n nseg Y (sadd R K Yref Zref) i j k
  = sd_cor K tw we invm invn invK n nseg Y Yref i j k +c sd_cor K tw we invm invn invK n nseg Y Zref i j k.
Proof. exact (sd_cor_add_ref R K Rth). Qed.
Theorem C13_cor_scal : forall tw we invm invn invK n nseg c d (Y Yref:rsig R) i j k,
  sd_cor K tw we invm invn invK n nseg (sscal R K c Y) (sscal R K d Yref) i j k
  = cscal K (c*d) (sd_cor K tw we invm invn invK n nseg Y Yref i j k).
Proof. exact (sd_cor_scal R K Rth). Qed.
(* ... hence the square of a common gain *)
Theorem C13_per_gain : forall tw w invn scale invK n step nseg g (Y Yref:rsig R) i j k,
  sd_per K tw w invn scale invK n step nseg (sscal R K g Y) (sscal R K g Yref) i j k
  = cscal K (g*g) (sd_per K tw w invn scale invK n step nseg Y Yref i j k).
Proof. intros tw w invn scale invK n step nseg. exact (pxy_gain R K Rth tw w invn scale invK n n step nseg). Qed.
Theorem C13_cor_gain : forall tw we invm invn invK n nseg g (Y Yref:rsig R) i j k,
  sd_cor K tw we invm invn invK n nseg (sscal R K g Y) (sscal R K g Yref) i j k
  = cscal K (g*g) (sd_cor K tw we invm invn invK n nseg Y Yref i j k).
Proof. intros tw we invm invn invK n nseg g. exact (sd_cor_scal R K Rth tw we invm invn invK n nseg g g). Qed.

(* periodogram estimator, identical data and reference: Hermitian at every line *)
Theorem C13_per_hermitian : forall tw w invn scale invK n step nseg (Y:rsig R) i j k,
  sd_per K tw w invn scale invK n step nseg Y Y j i k = cconj K (sd_per K tw w invn scale invK n step nseg Y Y i j k).
Proof. intros tw w invn scale invK n step nseg. exact (pxy_hermitian R K Rth tw w invn scale invK n n step nseg). Qed.
(* ... and v^H S v = coefficient * sum over segments of |sum_j v_j X_j|^2 : a sum of squared moduli *)
Theorem C13_per_quadratic_form : forall tw w invn scale invK n step nseg (Y:rsig R) nch (v:nat->CR) k,
  quad R K nch v (fun i j => sd_per K tw w invn scale invK n step nseg Y Y i j k)
  = cofR K (dbl K n k * scale * invK
            * sumn K nseg (fun s => cnorm2 K (sumn (COps K) nch (fun j => v j *c stft K tw w invn n step (Y j) s k)))).
Proof. intros tw w invn scale invK n step nseg. exact (pxy_quad R K Rth tw w invn scale invK n n step nseg). Qed.
(* ... which is non-negative over every ordered carrier when scale and 1/K are *)
Theorem C13_per_psd_ordered : forall (le:R->R->Prop),
  le (o0 K) (o0 K) -> le (o0 K) (o1 K) -> (forall a b, le (o0 K) a -> le (o0 K) b -> le (o0 K) (a+b)) ->
  (forall a b, le (o0 K) a -> le (o0 K) b -> le (o0 K) (a*b)) -> (forall a, le (o0 K) (a*a)) ->
  forall tw w invn scale invK n step nseg (Y:rsig R) nch (v:nat->CR) k,
  le (o0 K) scale -> le (o0 K) invK ->
  le (o0 K) (cre (quad R K nch v (fun i j => sd_per K tw w invn scale invK n step nseg Y Y i j k)))
  /\ cim (quad R K nch v (fun i j => sd_per K tw w invn scale invK n step nseg Y Y i j k)) = o0 K.
Proof.
  intros le h1 h2 h3 h4 h5 tw w invn scale invK n step nseg.
  exact (pxy_psd R K Rth le h1 h2 h3 h4 h5 tw w invn scale invK n n step nseg).
Qed.

(* common factor: if the segment spectra of channels i and j at line k are A_i Z^s and A_j Z^s, then
   S[i][j] = conj(A_i) A_j S_zz and S[i][j] A_i = S[i][i] A_j, i.e. S[i][j]/S[i][i] = A_j/A_i:
   the ROW index carries the conjugate.  With A = amplitudes this is the sinusoid statement, with
   A_j/A_i = g omega^(k d) (omega = exp(-2 pi i/n)) it is gain g and phase -2 pi f delay of a circular delay d. *)
Theorem C13_per_common_factor : forall tw w invn scale invK n step nseg (Y:rsig R) (A:nat->CR) (Z:nat->CR) i j k,
  (forall s, (s<nseg)%nat -> stft K tw w invn n step (Y i) s k = A i *c Z s) ->
  (forall s, (s<nseg)%nat -> stft K tw w invn n step (Y j) s k = A j *c Z s) ->
  sd_per K tw w invn scale invK n step nseg Y Y i j k
  = (cconj K (A i) *c A j) *c cscal K (dbl K n k * scale * invK) (sumn (COps K) nseg (fun s => cconj K (Z s) *c Z s))
  /\ sd_per K tw w invn scale invK n step nseg Y Y i j k *c A i = sd_per K tw w invn scale invK n step nseg Y Y i i k *c A j.
Proof. intros tw w invn scale invK n step nseg. exact (pxy_common_factor R K Rth tw w invn scale invK n n step nseg). Qed.
(* time domain, both estimators: channel j = g * channel i  =>  S[i][j] = g * S[i][i] *)
Theorem C13_per_scaled_copy : forall tw w invn scale invK n step nseg g (Y:rsig R) i j k,
  (forall t, Y j t = g * Y i t) ->
  sd_per K tw w invn scale invK n step nseg Y Y i j k = cscal K g (sd_per K tw w invn scale invK n step nseg Y Y i i k).
Proof. intros tw w invn scale invK n step nseg. exact (pxy_scaled_copy R K Rth tw w invn scale invK n n step nseg). Qed.
Theorem C13_cor_scaled_copy : forall tw we invm invn invK n nseg g (Y:rsig R) i j k,
  (forall t, Y j t = g * Y i t) ->
  sd_cor K tw we invm invn invK n nseg Y Y i j k = cscal K g (sd_cor K tw we invm invn invK n nseg Y Y i i k).
Proof. exact (sd_cor_scaled_copy R K Rth). Qed.

(* integral over frequency: for a DFT twiddle table of even length n = 2(p+1) (rows orthogonal with squared norm nR = n,
   row n-k the conjugate of row k) the one-sided densities of channel i summed over the lines 0 .. n/2 equal
   scale/K * n * (energy of the windowed, mean-removed segments).  With scale = 1/(fs sum w^2) this is
   sum_k Sy[i][i][k] * fs/n = (1/K) sum_seg sum_t (w_t (y_t - mean))^2 / sum_t w_t^2, the window-weighted mean square. *)
Theorem C13_per_parseval : forall (tw:nat->nat->CR) (p:nat) (nR:R),
  (forall t t', (t < 2 * S p)%nat -> (t' < 2 * S p)%nat ->
     sumn (COps K) (2 * S p) (fun k => cconj K (tw k t) *c tw k t') = if (t =? t')%nat then cofR K nR else c0 K) ->
  (forall k t, (0 < k)%nat -> (k < 2 * S p)%nat -> (t < 2 * S p)%nat -> tw (2 * S p - k)%nat t = cconj K (tw k t)) ->
  forall (w:nat->R) (invn scale invK:R) (step nseg:nat) (Y:rsig R) i,
  sumn (COps K) (S (S p)) (fun k => sd_per K tw w invn scale invK (2 * S p) step nseg Y Y i i k)
  = cofR K (scale * invK * (nR * sumn K nseg (fun s => sumn K (2 * S p) (fun t =>
        (w t * seg_dt K invn (2 * S p) (s*step) (Y i) t) * (w t * seg_dt K invn (2 * S p) (s*step) (Y i) t))))).
Proof. exact (sd_parseval R K Rth). Qed.

(* DFT shift theorem for any table with tw k ((t+d) mod n) = tw k t * tw k d: a circular delay by d (and gain g)
   multiplies line k by g * tw k d *)
Theorem C13_dft_shift : forall (tw:nat->nat->CR) n d g (x x':nat->R) k, (d < n)%nat ->
  (forall t, (t<n)%nat -> tw k ((t + d) mod n)%nat = tw k t *c tw k d) ->
  (forall t, (t<n)%nat -> x' t = g * x ((t + (n - d)) mod n)%nat) ->
  sumn (COps K) n (fun t => cscal K (x' t) (tw k t)) = (cofR K g *c tw k d) *c sumn (COps K) n (fun t => cscal K (x t) (tw k t)).
Proof. exact (dft_shift R K Rth). Qed.
(* 'per': segments of channel j = g * segments of channel i delayed circularly by d  =>  Sy[i][j][k] = g tw k d Sy[i][i][k];
   with tw k d = exp(-2 pi i k d/n) this is gain g and phase -2 pi f delay (f = k fs/n, delay = d/fs), row = source *)
Theorem C13_per_circular_delay : forall (tw:nat->nat->CR) (w:nat->R) (invn scale invK:R) (n step nseg:nat) (Y:rsig R) i j k d g,
  (d < n)%nat ->
  (forall t, (t<n)%nat -> tw k ((t + d) mod n)%nat = tw k t *c tw k d) ->
  (forall s t, (s<nseg)%nat -> (t<n)%nat ->
     w t * seg_dt K invn n (s*step) (Y j) t
     = g * (w ((t + (n - d)) mod n)%nat * seg_dt K invn n (s*step) (Y i) ((t + (n - d)) mod n)%nat)) ->
  sd_per K tw w invn scale invK n step nseg Y Y i j k
  = (cofR K g *c tw k d) *c sd_per K tw w invn scale invK n step nseg Y Y i i k.
Proof. exact (sd_per_circular_delay R K Rth). Qed.

(* NOT proved (a definition asserts nothing): for 'cor' the same circular delay of the half-length box-car segments
   shifts the lag-domain sequence; the exponential window then makes Sy[i][j]/Sy[i][i] only approximately
   g tw k d, which is why the property gives 'cor' a 30 % median tolerance - that clause rests on the oracle tests. *)
Definition C13_full_statement : Prop :=
  forall (tw:nat->nat->CR) (invn:R) (n d:nat) (g:R) (Pii Pij:nat->CR),
  (d < n)%nat -> Nat.even n = true ->
  (forall k t, (k <= n/2)%nat -> (t<n)%nat -> tw k ((t + d) mod n)%nat = tw k t *c tw k d) ->
  (forall k, (k <= n/2)%nat -> cconj K (tw k d) *c tw k d = c1 K) ->
  tw (n/2)%nat d = cofR K (alt K d) ->
  (forall k, (k <= n/2)%nat -> cim (Pii k) = o0 K) ->
  (forall k, (k <= n/2)%nat -> Pij k = (cofR K g *c tw k d) *c Pii k) ->
  forall t, (t<n)%nat -> irfft_of K tw invn n Pij t = g * irfft_of K tw invn n Pii ((t + (n - d)) mod n)%nat.

(* the executed tables: n_all x n_ref x (n/2+1), entry (i,j,k) = the function-level model with scipy's derived
   parameters (step = n - noverlap, K = (Ndat - noverlap) div step, 1/n, scale = 1/(fs sum w^2), 1/K) *)
Theorem C13_per_l_shape : forall twl wl fs n nov Ndat nall nref Yl Yrefl,
  length (sd_per_l K twl wl fs n nov Ndat nall nref Yl Yrefl) = nall /\
  (forall i, (i<nall)%nat -> length (nth i (sd_per_l K twl wl fs n nov Ndat nall nref Yl Yrefl) []) = nref) /\
  (forall i j, (i<nall)%nat -> (j<nref)%nat ->
     length (nth j (nth i (sd_per_l K twl wl fs n nov Ndat nall nref Yl Yrefl) []) []) = S (n/2)).
Proof. exact (sd_per_l_shape R K). Qed.
Theorem C13_per_l_entry : forall twl wl fs n nov Ndat nall nref Yl Yrefl i j k,
  (i<nall)%nat -> (j<nref)%nat -> (k < nlines n)%nat ->
  ent3 R K (sd_per_l K twl wl fs n nov Ndat nall nref Yl Yrefl) i j k
  = sd_per K (tw_of K twl n) (lget K wl) (odiv K (o1 K) (ofnat K n))
      (odiv K (o1 K) (fs * sumn K n (fun t => lget K wl t * lget K wl t))) (odiv K (o1 K) (ofnat K (nsegs Ndat n nov)))
      n (n - nov) (nsegs Ndat n nov) (sig_of K Yl) (sig_of K Yrefl) i j k.
Proof. exact (sd_per_l_entry R K). Qed.
Theorem C13_cor_l_entry : forall twl wel n Ndat nall nref Yl Yrefl res i j k,
  sd_cor_l K twl wel n Ndat nall nref Yl Yrefl = Some res ->
  (2 <= n)%nat -> (i<nall)%nat -> (j<nref)%nat -> (k < nlines n)%nat ->
  Nat.even n = true /\
  ent3 R K res i j k
  = sd_cor K (tw_of K twl n) (lget K wel) (odiv K (o1 K) (ofnat K (n/2))) (odiv K (o1 K) (ofnat K n))
      (odiv K (o1 K) (ofnat K (nsegs Ndat (n/2) 0))) n (nsegs Ndat (n/2) 0) (sig_of K Yl) (sig_of K Yrefl) i j k.
Proof. exact (sd_cor_l_entry R K). Qed.
(* the two-carrier evaluator used for the large correspondence cases, instantiated with ONE carrier and phi = id, returns
   exactly the entries of the one-carrier model (what remains unproved is only that the dyadic big-integer carrier
   embeds homomorphically into Q; the harness compares the two evaluators exactly on the small cases of every run) *)
Theorem C13_per_x_id : forall twl wl fs n nov Ndat nall nref Yl Yrefl i j k,
  (i<nall)%nat -> (j<nref)%nat -> (k < nlines n)%nat ->
  ent3 R K (sd_per_x K K (fun x => x) twl wl (odiv K (o1 K) (ofnat K n)) fs n nov Ndat nall nref Yl Yrefl) i j k
  = ent3 R K (sd_per_l K twl wl fs n nov Ndat nall nref Yl Yrefl) i j k.
Proof. exact (sd_per_x_id R K Rth). Qed.
Theorem C13_cor_x_id : forall twl wel n Ndat nall nref Yl Yrefl res resx i j k,
  sd_cor_l K twl wel n Ndat nall nref Yl Yrefl = Some res ->
  sd_cor_x K K (fun x => x) twl wel (odiv K (o1 K) (ofnat K (n/2))) (odiv K (o1 K) (ofnat K n)) n Ndat nall nref Yl Yrefl = Some resx ->
  (2 <= n)%nat -> (i<nall)%nat -> (j<nref)%nat -> (k < nlines n)%nat ->
  ent3 R K resx i j k = ent3 R K res i j k.
Proof. exact (sd_cor_x_id R K Rth). Qed.
End S.

(* ---------------- at the real numbers: Hermitian positive semidefinite ---------------- *)
Theorem C13_per_hermitian_psd_R :
  forall (tw:nat->nat->C Rdefinitions.R) (w:nat->Rdefinitions.R) (invn scale invK:Rdefinitions.R) (n step nseg:nat)
         (Y:rsig Rdefinitions.R),
  Rdefinitions.Rle 0%R scale -> Rdefinitions.Rle 0%R invK ->
  forall k,
   (forall i j, sd_per ROps_spectra tw w invn scale invK n step nseg Y Y j i k
                = cconj ROps_spectra (sd_per ROps_spectra tw w invn scale invK n step nseg Y Y i j k)) /\
   (forall nch (v:nat->C Rdefinitions.R),
      Rdefinitions.Rle 0%R (cre (quad _ ROps_spectra nch v (fun i j => sd_per ROps_spectra tw w invn scale invK n step nseg Y Y i j k))) /\
      cim (quad _ ROps_spectra nch v (fun i j => sd_per ROps_spectra tw w invn scale invK n step nseg Y Y i j k)) = 0%R).
Proof. exact sd_per_hpsd_R. Qed.

Print Assumptions C13_sd_grid.
Print Assumptions C13_per_pairing.
Print Assumptions C13_per_pairing_local.
Print Assumptions C13_cor_pairing_local.
Print Assumptions C13_per_add_data.
Print Assumptions C13_per_add_ref.
Print Assumptions C13_per_scal.
Print Assumptions C13_cor_add_data.
Print Assumptions C13_cor_add_ref.
Print Assumptions C13_cor_scal.
Print Assumptions C13_per_gain.
Print Assumptions C13_cor_gain.
Print Assumptions C13_per_hermitian.
Print Assumptions C13_per_quadratic_form.
Print Assumptions C13_per_psd_ordered.
Print Assumptions C13_per_common_factor.
Print Assumptions C13_per_scaled_copy.
Print Assumptions C13_cor_scaled_copy.
Print Assumptions C13_per_parseval.
Print Assumptions C13_dft_shift.
Print Assumptions C13_per_circular_delay.
Print Assumptions C13_per_l_shape.
Print Assumptions C13_per_l_entry.
Print Assumptions C13_cor_l_entry.
Print Assumptions C13_per_x_id.
Print Assumptions C13_cor_x_id.
Print Assumptions C13_per_hermitian_psd_R.

(* ---------------- non-vacuity: exact instance over Gaussian rationals ----------------
   n = 4 (omega = -i exactly), periodic Hann samples [0, 1/2, 1, 1/2], 50 % overlap, 8 samples (3 segments), fs = 1;
   channel 0 = cos(2 pi t/4), channel 1 = 2 cos(2 pi t/4 - pi/2): complex amplitude ratio A_1/A_0 = -2i at line 1.
   The hypotheses of C13_per_common_factor hold with A_0 = 1, A_1 = -2i, and the computed matrix shows
   S[0][1] = -2i S[0][0], S[1][0] = conj S[0][1], S[1][1] = 4 S[0][0] at that line. *)
Definition C13_ex_tw : list (Qc*Qc) := [(q 1 1, q 0 1); (q 0 1, q (-1) 1); (q (-1) 1, q 0 1); (q 0 1, q 1 1)].
Definition C13_ex_w : list Qc := [q 0 1; q 1 2; q 1 1; q 1 2].
Definition C13_ex_Y : list (list Qc) :=
  [[q 1 1;q 0 1;q (-1) 1;q 0 1;q 1 1;q 0 1;q (-1) 1;q 0 1];[q 0 1;q 2 1;q 0 1;q (-2) 1;q 0 1;q 2 1;q 0 1;q (-2) 1]].
Example C13_example_per :
  qc3 (sd_per_l QcOps C13_ex_tw C13_ex_w (q 1 1) 4 2 8 2 2 C13_ex_Y C13_ex_Y)
  = [[[(2 # 3, 0); (4 # 3, 0); (2 # 3, 0)]; [(0, 0); (0, -8 # 3); (0, 0)]];
     [[(0, 0); (0, 8 # 3); (0, 0)]; [(0, 0); (16 # 3, 0); (0, 0)]]]%Q.
Proof. vm_compute. reflexivity. Qed.
Example C13_example_common_factor_hypotheses :
  forall s, (s < 3)%nat ->
  stft QcOps (tw_of QcOps C13_ex_tw 4) (lget QcOps C13_ex_w) (q 1 4) 4 2 (sig_of QcOps C13_ex_Y 1%nat) s 1
  = cmul QcOps (q 0 1, q (-2) 1) (stft QcOps (tw_of QcOps C13_ex_tw 4) (lget QcOps C13_ex_w) (q 1 4) 4 2 (sig_of QcOps C13_ex_Y 0%nat) s 1).
Proof.
  intros s Hs. destruct s as [|[|[|s]]]; [| | |exfalso; apply (Nat.lt_irrefl 3), (Nat.le_lt_trans _ (S (S (S s)))); [apply le_n_S, le_n_S, le_n_S, Nat.le_0_l|exact Hs]];
    apply (c_eq Qc); apply Qc_is_canon; vm_compute; reflexivity.
Qed.
Example C13_example_grid : map (@this) (freq_grid QcOps (q 10 1) 8) = [0; 5 # 4; 5 # 2; 15 # 4; 5]%Q.
Proof. vm_compute. reflexivity. Qed.
Example C13_example_cor :
  option_map qc3 (sd_cor_l QcOps C13_ex_tw C13_ex_w 4 8 2 1 C13_ex_Y [[q 1 1;q 2 1;q (-1) 1;q 0 1;q 1 1;q 3 1;q (-1) 1;q 0 1]])
  = Some [[[(1 # 16, 0); (-1 # 32, 0); (0, 0)]]; [[(-1 # 8, 0); (1 # 16, 0); (0, 0)]]]%Q.
Proof. vm_compute. reflexivity. Qed.
(* the root-of-unity hypotheses of C13_per_parseval / C13_dft_shift hold for the exact table of n = 4 (p = 1, nR = 4) *)
Definition C13_ex_ceqb (x y:Qc*Qc) : bool := Qc_eq_bool (fst x) (fst y) && Qc_eq_bool (snd x) (snd y).
Example C13_example_twiddle_hypotheses :
  let tw := tw_of QcOps C13_ex_tw 4 in
  forallb (fun t => forallb (fun t' =>
     C13_ex_ceqb (sumn (COps QcOps) 4 (fun k => cmul QcOps (cconj QcOps (tw k t)) (tw k t')))
                 (if (t =? t')%nat then cofR QcOps (q 4 1) else c0 QcOps)) (seq 0 4)) (seq 0 4)
  && forallb (fun k => forallb (fun t => C13_ex_ceqb (tw (4 - k)%nat t) (cconj QcOps (tw k t))) (seq 0 4)) (seq 1 3)
  && forallb (fun k => forallb (fun t => forallb (fun d =>
       C13_ex_ceqb (tw k ((t + d) mod 4)%nat) (cmul QcOps (tw k t) (tw k d))) (seq 0 4)) (seq 0 4)) (seq 0 3)
  = true.
Proof. vm_compute. reflexivity. Qed.
