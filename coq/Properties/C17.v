(* C17 - The frequency variance equals the first-order propagation of the Hankel covariance factor.
   Statements only: each theorem is closed by [exact] of a lemma of Proofs/P_unc.v. *)
From Coq Require Import List Arith Lia Ring Field ZArith QArith Qcanon String.
From PyOMA.Base Require Import Carrier FMat Cplx Show.
From PyOMA.Model Require Import M_hankel M_unc.
From PyOMA.Proofs Require Import P_unc P_unc_family.
Import ListNotations.

Section S.
Variable R:Type. Variable K:Ops R.
Hypothesis Rth : ring_theory (o0 K) (o1 K) (oadd K) (omul K) (osub K) (oopp K) (@eq R).
Local Open Scope K_scope.
Infix "+" := (oadd K) : K_scope. Infix "*" := (omul K) : K_scope. Infix "-" := (osub K) : K_scope.
Notation "1" := (o1 K) : K_scope.

(* ---- the factor ---- *)
(* build_hank forms nb blocks of Nb = N // nb columns of the (N-1)-column stacked matrices (NumPy cuts the last slice),
   each scaled to a block-wise mean 1/Nb.  When nb divides N the mean of the block estimates is the full estimate. *)
Theorem C17_block_mean : forall (invnb invNb invN:R) (nb Nb N:nat) (Yf Yp:fmat R),
  (nb*Nb = N)%nat -> invnb * ofnat R K nb = 1 -> invNb * ofnat R K Nb = 1 -> invN * ofnat R K N = 1 ->
  forall I J, fscal K invnb (fsum K nb (blk_est K invNb Nb (N-1) Yf Yp)) I J = full_est K invN (N-1) Yf Yp I J.
Proof. exact (block_mean R K Rth). Qed.
(* more generally: whenever the slices cover every column and 1/nb * 1/Nb = 1/N *)
Theorem C17_block_mean_gen : forall (invnb invNb invN:R) (nb Nb Ncol:nat) (Yf Yp:fmat R) I J,
  (Ncol <= nb*Nb)%nat -> invnb * invNb = invN ->
  fscal K invnb (fsum K nb (blk_est K invNb Nb Ncol Yf Yp)) I J = full_est K invN Ncol Yf Yp I J.
Proof. exact (block_mean_gen R K Rth). Qed.
(* T T^T = c^2 sum_k vec(h_k - h) vec(h_k - h)^T : with c^2 = 1/(nb(nb-1)) the sample covariance of the mean *)
Theorem C17_factor_gram : forall (c cc invN invNb:R) (Nb Ncol rows nb:nat) (Yf Yp:fmat R) s t,
  c * c = cc ->
  fmul K nb (cov_factor K c invN invNb Nb Ncol rows Yf Yp) (ftr (cov_factor K c invN invNb Nb Ncol rows Yf Yp)) s t
  = cc * sumn K nb (fun k =>
      vec_col rows (fsub K (blk_est K invNb Nb Ncol Yf Yp k) (full_est K invN Ncol Yf Yp)) s *
      vec_col rows (fsub K (blk_est K invNb Nb Ncol Yf Yp k) (full_est K invN Ncol Yf Yp)) t).
Proof. exact (factor_gram R K Rth). Qed.
(* row j*rows+i of column k is c (h_k - h)[i,j]: column-stacked, deviation from the FULL estimate *)
Theorem C17_factor_entry : forall (c invN invNb:R) (Nb Ncol rows:nat) (Yf Yp:fmat R) i j k, (i < rows)%nat ->
  cov_factor K c invN invNb Nb Ncol rows Yf Yp (j*rows+i)%nat k
  = c * (blk_est K invNb Nb Ncol Yf Yp k i j - full_est K invN Ncol Yf Yp i j).
Proof. exact (factor_entry R K). Qed.

(* ---- the vectorisation the propagation step expects (np.kron acting on the factor) ---- *)
Theorem C17_vec_col_kron : forall m n (M:fmat R) (u v:nat->R),
  (forall i, (i < m)%nat -> mapply K (n*m) (kron K m m (rowv v) (fid K)) (vec_col m M) i = mapply K n M v i) /\
  (forall j, (j < n)%nat -> (0 < m)%nat -> mapply K (n*m) (kron K 1 m (fid K) (rowv u)) (vec_col m M) j = mapply K m (ftr M) u j).
Proof. exact (vec_col_kron R K Rth). Qed.

(* ---- variance = sum over factor columns of squared directional derivatives ---- *)
Theorem C17_sum_of_squares : forall d nb (J T:fmat R) a,
  fmul K nb (fmul K d J T) (ftr (fmul K d J T)) a a = sumsq K nb (fun k => mapply K d J (fun s => T s k) a).
Proof. exact (sum_of_squares R K). Qed.
Theorem C17_single_column : forall d (J T:fmat R) a,
  fmul K 1 (fmul K d J T) (ftr (fmul K d J T)) a a = mapply K d J (fun s => T s 0%nat) a * mapply K d J (fun s => T s 0%nat) a.
Proof. exact (single_column R K Rth). Qed.
Theorem C17_cov_is_JTTJ : forall p d nb (J T:fmat R),
  feq p p (fmul K nb (fmul K d J T) (ftr (fmul K d J T))) (fmul K d J (fmul K d (fmul K nb T (ftr T)) (ftr J))).
Proof. exact (cov_is_JTTJ R K Rth). Qed.

(* ---- first-order identities ---- *)
Theorem C17_dsigma : forall m n (H dH u du v dv:fmat R) (s ds:R),
  feq 1 n (fmul K m (ftr u) H) (fscal K s (ftr v)) ->
  feq 1 1 (fmul K m (ftr u) u) (fid K) ->
  feq 1 1 (fmul K m (ftr u) du) (fzero K) ->
  feq 1 1 (fmul K n (ftr v) dv) (fzero K) ->
  feq m 1 (fadd K (fmul K n dH v) (fmul K n H dv)) (fadd K (fscal K ds u) (fscal K s du)) ->
  ds = fmul K m (ftr u) (fmul K n dH v) 0%nat 0%nat.
Proof. exact (dsigma R K Rth). Qed.
Theorem C17_dA_from_dO : forall pr n (Op Om dOp dOm A dA:fmat R),
  feq n n (fadd K (fmul K n (fadd K (fmul K pr (ftr dOp) Op) (fmul K pr (ftr Op) dOp)) A) (fmul K n (fmul K pr (ftr Op) Op) dA))
          (fadd K (fmul K pr (ftr dOp) Om) (fmul K pr (ftr Op) dOm)) ->
  feq n n (fmul K n (fmul K pr (ftr Op) Op) dA)
          (fsub K (fadd K (fmul K pr (ftr dOp) Om) (fmul K pr (ftr Op) dOm))
                  (fmul K n (fadd K (fmul K pr (ftr dOp) Op) (fmul K pr (ftr Op) dOp)) A)).
Proof. exact (dA_from_dO R K Rth). Qed.
Theorem C17_dlambda : forall n (A dA phi dphi chi : fmat R) (lam dlam : R),
  feq n 1 (fmul K n A phi) (fscal K lam phi) ->
  feq 1 n (fmul K n chi A) (fscal K lam chi) ->
  feq n 1 (fadd K (fmul K n dA phi) (fmul K n A dphi)) (fadd K (fscal K dlam phi) (fscal K lam dphi)) ->
  feq 1 1 (fscal K dlam (fmul K n chi phi)) (fmul K n chi (fmul K n dA phi)).
Proof. exact (dlambda R K Rth). Qed.
(* the number the executed model computes for a pole IS (chi^H phi) d lambda, for every perturbation of the
   observability matrix, and the Q blocks are the column-stacked products it is assembled from *)
Theorem C17_dlambda_chain : forall pr n (Op Om dOp dOm A dA OO phi dphi chi:fmat R) (lam dlam:R),
  feq n n (fadd K (fmul K n (fadd K (fmul K pr (ftr dOp) Op) (fmul K pr (ftr Op) dOp)) A) (fmul K n (fmul K pr (ftr Op) Op) dA))
          (fadd K (fmul K pr (ftr dOp) Om) (fmul K pr (ftr Op) dOm)) ->
  feq n n (fmul K n OO (fmul K pr (ftr Op) Op)) (fid K) ->
  feq n 1 (fmul K n A phi) (fscal K lam phi) ->
  feq 1 n (fmul K n chi A) (fscal K lam chi) ->
  feq n 1 (fadd K (fmul K n dA phi) (fmul K n A dphi)) (fadd K (fscal K dlam phi) (fscal K lam dphi)) ->
  dlam * dlam_den K n (fun a => chi 0%nat a) (fun a => phi a 0%nat)
  = dlam_num K n (fun a => chi 0%nat a) OO
      (W_of K lam (fmul K pr (ftr Op) dOp) (fmul K pr (ftr Om) dOp) (fmul K pr (ftr Op) dOm)) (fun a => phi a 0%nat).
Proof. exact (dlambda_chain R K Rth). Qed.
Theorem C17_Q_layout : forall ordmax pl l (Obs dO:fmat R) i j, (j < ordmax)%nat ->
  M_of ordmax (Q1_of K ordmax pl Obs dO) j i = fmul K pl (ftr Obs) dO j i /\
  M_of ordmax (Q2_of K ordmax pl l Obs dO) j i = fmul K pl (ftr (fun a k => Obs (l+a)%nat k)) dO j i /\
  M_of ordmax (Q3_of K ordmax pl l Obs dO) j i = fmul K pl (ftr Obs) (fun a k => dO (l+a)%nat k) j i.
Proof. exact (Q_layout R K). Qed.

(* a change of the state basis (dObs + Obs G, i.e. dA + A G - G A) cannot move an eigenvalue sensitivity: this is why the
   correspondence compares Q1..Q3 only modulo such changes *)
Theorem C17_gauge_invariant : forall n (A G phi chi:fmat R) (lam:R),
  feq n 1 (fmul K n A phi) (fscal K lam phi) ->
  feq 1 n (fmul K n chi A) (fscal K lam chi) ->
  feq 1 1 (fmul K n chi (fmul K n (fsub K (fmul K n A G) (fmul K n G A)) phi)) (fzero K).
Proof. exact (gauge_invariant R K Rth). Qed.

(* ---- the code's singular-vector sensitivity (eqs 28-34) ---- *)
(* it solves the linearised SVD equations with the linearised unit-norm constraints (Ki: a right inverse of Ki_arg) *)
Theorem C17_du_solves_linearised : forall (m c : nat) (H dH u v Ki : fmat R) (sg isg : R),
  (0 < c)%nat ->
  feq m 1 (fmul K c H v) (fscal K sg u) ->
  feq c 1 (fmul K m (ftr H) u) (fscal K sg v) ->
  feq 1 1 (fmul K m (ftr u) u) (fid K) ->
  feq 1 1 (fmul K c (ftr v) v) (fid K) ->
  isg * sg = 1 ->
  feq c c (fmul K c (Ki_arg K m c isg H v) Ki) (fid K) ->
  (forall x : R, (1 + 1) * v (c - 1)%nat 0%nat * x = o0 K -> x = o0 K) ->
  let ds := fmul K m (ftr u) (fmul K c dH v) 0%nat 0%nat in
  feq m 1 (fadd K (fmul K c dH v) (fmul K c H (dv_code K m c isg H dH u v Ki)))
          (fadd K (fscal K ds u) (fscal K sg (du_code K m c isg H dH u v Ki))) /\
  feq c 1 (fadd K (fmul K m (ftr dH) u) (fmul K m (ftr H) (du_code K m c isg H dH u v Ki)))
          (fadd K (fscal K ds v) (fscal K sg (dv_code K m c isg H dH u v Ki))) /\
  feq 1 1 (fmul K m (ftr u) (du_code K m c isg H dH u v Ki)) (fzero K) /\
  feq 1 1 (fmul K c (ftr v) (dv_code K m c isg H dH u v Ki)) (fzero K).
Proof. exact (du_solves_linearised R K Rth). Qed.
(* and for a simple singular value that system has no other solution *)
Theorem C17_du_unique : forall (m c:nat) (H dH u v du dv du' dv':fmat R) (sg ds:R),
  simple_sv R K m c H u v sg ->
  feq 1 1 (fmul K m (ftr u) u) (fid K) ->
  feq m 1 (fadd K (fmul K c dH v) (fmul K c H dv)) (fadd K (fscal K ds u) (fscal K sg du)) ->
  feq c 1 (fadd K (fmul K m (ftr dH) u) (fmul K m (ftr H) du)) (fadd K (fscal K ds v) (fscal K sg dv)) ->
  feq 1 1 (fmul K m (ftr u) du) (fzero K) ->
  feq m 1 (fadd K (fmul K c dH v) (fmul K c H dv')) (fadd K (fscal K ds u) (fscal K sg du')) ->
  feq c 1 (fadd K (fmul K m (ftr dH) u) (fmul K m (ftr H) du')) (fadd K (fscal K ds v) (fscal K sg dv')) ->
  feq 1 1 (fmul K m (ftr u) du') (fzero K) ->
  feq m 1 du du' /\ feq c 1 dv dv'.
Proof. exact (du_unique R K Rth). Qed.

(* ---- FIRST ORDER = dual numbers a + eps a' (eps^2 = 0): the defining equations are assumed to hold to first order for the
   perturbed quantities; the conclusions identify the eps-parts with what the model computes.  Nothing is linearised by hand. ---- *)
(* left singular vector and singular value *)
Theorem C17_singular_vector_first_order_partial : forall (m c:nat) (Ht ut vt:fmat (D R)) (sgt:D R) (Ki:fmat R) (isg:R),
  (0 < c)%nat ->
  (forall x:R, x + x = o0 K -> x = o0 K) ->
  feq m 1 (fmul (DOps R K) c Ht vt) (fscal (DOps R K) sgt ut) ->
  feq c 1 (fmul (DOps R K) m (ftr Ht) ut) (fscal (DOps R K) sgt vt) ->
  feq 1 1 (fmul (DOps R K) m (ftr ut) ut) (fid (DOps R K)) ->
  feq 1 1 (fmul (DOps R K) c (ftr vt) vt) (fid (DOps R K)) ->
  simple_sv R K m c (st R Ht) (st R ut) (st R vt) (fst sgt) ->
  isg * fst sgt = 1 ->
  feq c c (fmul K c (Ki_arg K m c isg (st R Ht) (st R vt)) Ki) (fid K) ->
  (forall x, (1+1) * st R vt (c-1)%nat 0%nat * x = o0 K -> x = o0 K) ->
  feq m 1 (ep R ut) (du_code K m c isg (st R Ht) (ep R Ht) (st R ut) (st R vt) Ki) /\
  snd sgt = dsig_of K m c (fun a => st R ut a 0%nat) (ep R Ht) (fun b => st R vt b 0%nat).
Proof. exact (singular_vector_first_order R K Rth). Qed.
(* least-squares shift solution *)
Theorem C17_dA_first_order : forall pr n (Opt Omt At:fmat (D R)),
  feq n n (fmul (DOps R K) n (fmul (DOps R K) pr (ftr Opt) Opt) At) (fmul (DOps R K) pr (ftr Opt) Omt) ->
  feq n n (fmul K n (fmul K pr (ftr (st R Opt)) (st R Opt)) (ep R At))
          (fsub K (fadd K (fmul K pr (ftr (ep R Opt)) (st R Omt)) (fmul K pr (ftr (st R Opt)) (ep R Omt)))
                  (fmul K n (fadd K (fmul K pr (ftr (ep R Opt)) (st R Opt)) (fmul K pr (ftr (st R Opt)) (ep R Opt))) (st R At))).
Proof. exact (dA_first_order R K Rth). Qed.
(* eigenvalue *)
Theorem C17_dlambda_first_order : forall n (At phit:fmat (D R)) (lamt:D R) (chi:fmat R),
  feq n 1 (fmul (DOps R K) n At phit) (fscal (DOps R K) lamt phit) ->
  feq 1 n (fmul K n chi (st R At)) (fscal K (fst lamt) chi) ->
  feq 1 1 (fscal K (snd lamt) (fmul K n chi (st R phit))) (fmul K n chi (fmul K n (ep R At) (st R phit))).
Proof. exact (dlambda_first_order R K Rth). Qed.
(* the whole pole layer: observability matrix (to first order) -> eigenvalue sensitivity as the model computes it *)
Theorem C17_chain_first_order_partial : forall pr n (Opt Omt At phit:fmat (D R)) (lamt:D R) (OO chi:fmat R),
  feq n n (fmul (DOps R K) n (fmul (DOps R K) pr (ftr Opt) Opt) At) (fmul (DOps R K) pr (ftr Opt) Omt) ->
  feq n 1 (fmul (DOps R K) n At phit) (fscal (DOps R K) lamt phit) ->
  feq n n (fmul K n OO (fmul K pr (ftr (st R Opt)) (st R Opt))) (fid K) ->
  feq 1 n (fmul K n chi (st R At)) (fscal K (fst lamt) chi) ->
  snd lamt * dlam_den K n (fun a => chi 0%nat a) (fun a => st R phit a 0%nat)
  = dlam_num K n (fun a => chi 0%nat a) OO
      (W_of K (fst lamt) (fmul K pr (ftr (st R Opt)) (ep R Opt)) (fmul K pr (ftr (st R Omt)) (ep R Opt)) (fmul K pr (ftr (st R Opt)) (ep R Omt)))
      (fun a => st R phit a 0%nat).
Proof. exact (chain_first_order R K Rth). Qed.
End S.

(* the row-major vectorisation (what the code used before 6052c88) does not satisfy the identity: 2x3 witness *)
Theorem C17_vec_row_kron_refuted :
  exists (m n:nat) (M:fmat Z) (v:nat->Z) (i:nat), (i < m)%nat /\
    mapply ZOps (n*m) (kron ZOps m m (rowv v) (fid ZOps)) (vec_row n M) i <> mapply ZOps n M v i.
Proof. exact vec_row_kron_refuted. Qed.

Section SF.
Variable R:Type. Variable K:Ops R.
Hypothesis Fth : field_theory (o0 K) (o1 K) (oadd K) (omul K) (osub K) (oopp K) (odiv K) (oinv K) (@eq R).
Local Open Scope K_scope.
Infix "+" := (oadd K) : K_scope. Infix "*" := (omul K) : K_scope. Infix "-" := (osub K) : K_scope. Infix "/" := (odiv K) : K_scope.
(* the code's Jacobian row (Mat1 Mat2 Mat3 product) is  1/(2 pi) Re(conj(lam_c) dlam/(lam_d dt)) / |lam_c| *)
Theorem C17_jf_row_is : forall (inv2pi dt absc a b c d x y:R),
  dt <> o0 K -> c*c + d*d <> o0 K -> absc <> o0 K ->
  jf_row K inv2pi dt absc a b c d x y
  = inv2pi * ((a * ((c*x + d*y) / (c*c+d*d) / dt) + b * ((c*y - d*x) / (c*c+d*d) / dt)) / absc).
Proof. exact (jf_row_is R K Fth). Qed.
(* the executed, division-free form of one squared term *)
Theorem C17_jf_row_parts : forall (inv2pi dt absc a b c d nr ni er ei:R),
  dt <> o0 K -> c*c + d*d <> o0 K -> absc <> o0 K -> er*er + ei*ei <> o0 K ->
  let x := (nr*er + ni*ei) / (er*er + ei*ei) in
  let y := (ni*er - nr*ei) / (er*er + ei*ei) in
  jf_row K inv2pi dt absc a b c d x y * jf_row K inv2pi dt absc a b c d x y
  = inv2pi * inv2pi * (jf_lin K a b c d (nr*er + ni*ei) (ni*er - nr*ei) * jf_lin K a b c d (nr*er + ni*ei) (ni*er - nr*ei))
    / (((er*er + ei*ei) * dt * (c*c + d*d) * absc) * ((er*er + ei*ei) * dt * (c*c + d*d) * absc)).
Proof. exact (jf_row_parts R K Fth). Qed.

(* Obs = U sqrt(S) to first order: with rs~^2 = sigma~, the eps-part of column i of U~ diag(rs~) is the model's dObs_gen *)
Theorem C17_dObs_first_order : forall (rst sgt:nat -> D R) (Ut:fmat (D R)) a i,
  omul (DOps R K) (rst i) (rst i) = sgt i -> (o1 K + o1 K) * fst (rst i) <> o0 K ->
  snd (omul (DOps R K) (Ut a i) (rst i))
  = dObs_gen K (fun i => fst (rst i)) (fun i => snd (sgt i)) (st R Ut) (ep R Ut) a i.
Proof. exact (dObs_first_order R K Fth). Qed.
(* the realisation layer is EXECUTED with the division by 2 sqrt(sigma_i) postponed: same values *)
Theorem C17_dObs_postponed : forall (rs dsg:nat->R) (U dU:fmat R) a i, (o1 K + o1 K) * rs i <> o0 K ->
  dObs_gen K rs dsg U dU a i = dObs_num K rs dsg U dU a i / ((o1 K + o1 K) * rs i).
Proof. exact (dObs_postponed R K Fth). Qed.
Theorem C17_Q_postponed : forall ordmax pl l (Obs N:fmat R) (d:nat->R) s, d (s / ordmax)%nat <> o0 K ->
  Q1_of K ordmax pl Obs (fun a i => N a i / d i) s = Q1_of K ordmax pl Obs N s / d (s / ordmax)%nat /\
  Q2_of K ordmax pl l Obs (fun a i => N a i / d i) s = Q2_of K ordmax pl l Obs N s / d (s / ordmax)%nat /\
  Q3_of K ordmax pl l Obs (fun a i => N a i / d i) s = Q3_of K ordmax pl l Obs N s / d (s / ordmax)%nat.
Proof. exact (Q_postponed R K Fth). Qed.
End SF.

From Coq Require Import Reals.
(* ---- over the reals: the (f) row of the Jacobian is the derivative of the natural frequency.  lam_c = a + i b is ANY
   differentiable branch of log(lam_d)/dt (exp(dt lam_c) = lam_d = c + i d), f = |lam_c|/(2 pi) ---- *)
Theorem C17_jac_f : forall (dt t0:Rdefinitions.R) (a b c d : Rdefinitions.R -> Rdefinitions.R) (a' b' c' d':Rdefinitions.R),
  (dt <> 0 ->
  (forall t, c t = exp (dt * a t) * cos (dt * b t)) ->
  (forall t, d t = exp (dt * a t) * sin (dt * b t)) ->
  derivable_pt_lim a t0 a' -> derivable_pt_lim b t0 b' -> derivable_pt_lim c t0 c' -> derivable_pt_lim d t0 d' ->
  0 < a t0 * a t0 + b t0 * b t0 ->
  derivable_pt_lim (fun t => sqrt (a t * a t + b t * b t) / (2*PI)) t0
    (jf_row ROps17 (/ (2*PI)) dt (sqrt (a t0 * a t0 + b t0 * b t0)) (a t0) (b t0) (c t0) (d t0) c' d'))%R.
Proof. exact jac_f. Qed.

(* What is NOT proved (asserts nothing).  The theorems above say: IF the perturbed singular triple, realisation and eigen-pair
   satisfy their defining equations to first order, THEN their first-order parts are what the model computes, and the (f) row
   is the derivative of the frequency along any differentiable pole branch.  Missing for the property as a statement about real
   derivatives of the identification map: that such differentiable families EXIST for a simple singular value / simple
   eigenvalue (analytic perturbation theory, an implicit-function argument), stated here for the singular triple. *)
Definition C17_full_statement : Prop :=
  forall (m c:nat) (H dH u v:fmat Rdefinitions.R) (sg:Rdefinitions.R),
    feq m 1 (fmul ROps17 c H v) (fscal ROps17 sg u) -> feq c 1 (fmul ROps17 m (ftr H) u) (fscal ROps17 sg v) ->
    feq 1 1 (fmul ROps17 m (ftr u) u) (fid ROps17) -> feq 1 1 (fmul ROps17 c (ftr v) v) (fid ROps17) ->
    simple_sv Rdefinitions.R ROps17 m c H u v sg -> (sg <> 0)%R ->
    exists (ut vt:Rdefinitions.R -> fmat Rdefinitions.R) (sgt:Rdefinitions.R -> Rdefinitions.R) (du dv:fmat Rdefinitions.R) (ds:Rdefinitions.R),
      feq m 1 (ut 0%R) u /\ feq c 1 (vt 0%R) v /\ sgt 0%R = sg /\
      (forall t, feq m 1 (fmul ROps17 c (fadd ROps17 H (fscal ROps17 t dH)) (vt t)) (fscal ROps17 (sgt t) (ut t))) /\
      (forall t, feq c 1 (fmul ROps17 m (ftr (fadd ROps17 H (fscal ROps17 t dH))) (ut t)) (fscal ROps17 (sgt t) (vt t))) /\
      (forall t, feq 1 1 (fmul ROps17 m (ftr (ut t)) (ut t)) (fid ROps17)) /\
      (forall t, feq 1 1 (fmul ROps17 c (ftr (vt t)) (vt t)) (fid ROps17)) /\
      derivable_pt_lim sgt 0 ds /\
      (forall i, (i < m)%nat -> derivable_pt_lim (fun t => ut t i 0%nat) 0 (du i 0%nat)) /\
      (forall j, (j < c)%nat -> derivable_pt_lim (fun t => vt t j 0%nat) 0 (dv j 0%nat)).

(* ---- the damping (xi) row of the (f, xi) Jacobian.  Model of the second row and of the code's 2 x 2 product
   Jfx_l = 1/(dt |lam_d|^2 |lam_c|) Mat1 Mat2 Mat3: jxi_lin / jxi_row / jfx_mat in Proofs/P_unc_xi.v (M_unc.v has the first row
   only).  pct is the literal 100 of Mat1, absc = |lam_c| and inv2pi = 1/(2 pi) are the caller's kernels. ---- *)
From PyOMA.Proofs Require Import P_unc_xi.
Section SX.
Variable R:Type. Variable K:Ops R.
Hypothesis Fth : field_theory (o0 K) (o1 K) (oadd K) (omul K) (osub K) (oopp K) (odiv K) (oinv K) (@eq R).
Local Open Scope K_scope.
Infix "+" := (oadd K) : K_scope. Infix "*" := (omul K) : K_scope. Infix "-" := (osub K) : K_scope. Infix "/" := (odiv K) : K_scope.
Notation "- x" := (oopp K x) : K_scope.
(* the two rows of the code's matrix product applied to (x, y) = (Re, Im) d lam are the modelled rows jf_row and jxi_row *)
Theorem C17_jfx_rows : forall (inv2pi pct dt absc a b c d x y:R),
  dt <> o0 K -> c*c + d*d <> o0 K -> absc <> o0 K ->
  mapply K 2 (jfx_mat K inv2pi pct dt absc a b c d) (fun k => match k with 0%nat => x | _ => y end) 0%nat
    = jf_row K inv2pi dt absc a b c d x y /\
  mapply K 2 (jfx_mat K inv2pi pct dt absc a b c d) (fun k => match k with 0%nat => x | _ => y end) 1%nat
    = jxi_row K pct dt absc a b c d x y.
Proof. exact (jfx_rows R K Fth). Qed.
(* the code's second row is  pct * d(-Re(lc)/|lc|) = pct [ -Re(dlc) |lc|^2 + Re(lc) Re(conj(lc) dlc) ] / |lc|^3  with
   dlc = dlam/(lam_d dt) = da + i db;  |lc| = absc is ANY witness with absc^2 = Re(lc)^2 + Im(lc)^2 *)
Theorem C17_jxi_row_is : forall (pct dt absc a b c d x y:R),
  dt <> o0 K -> c*c + d*d <> o0 K -> absc <> o0 K -> absc * absc = a*a + b*b ->
  let da := (c*x + d*y) / (c*c + d*d) / dt in
  let db := (c*y - d*x) / (c*c + d*d) / dt in
  jxi_row K pct dt absc a b c d x y
  = pct * (((- da) * (absc * absc) + a * (a * da + b * db)) / (absc * absc * absc)).
Proof. exact (jxi_row_is R K Fth). Qed.
End SX.

(* over the reals: that bracket is the derivative of the damping ratio xi = -Re(lc)/|lc| along ANY differentiable curve
   lc(t) = a(t) + i b(t) with |lc(t0)| <> 0 ... *)
Theorem C17_xi_curve : forall (t0:Rdefinitions.R) (a b : Rdefinitions.R -> Rdefinitions.R) (a' b':Rdefinitions.R),
  (derivable_pt_lim a t0 a' -> derivable_pt_lim b t0 b' -> 0 < a t0 * a t0 + b t0 * b t0 ->
  let absc := sqrt (a t0 * a t0 + b t0 * b t0) in
  derivable_pt_lim (fun t => - a t / sqrt (a t * a t + b t * b t)) t0
    (((- a') * (absc * absc) + a t0 * (a t0 * a' + b t0 * b')) / (absc * absc * absc)))%R.
Proof. exact d_xi_curve. Qed.
(* ... and the code's (xi) row is the derivative of pct * xi for ANY differentiable branch lam_c = a + i b of log(lam_d)/dt
   (exp(dt lam_c) = lam_d = c + i d), exactly as C17_jac_f for the frequency *)
Theorem C17_jac_xi : forall (pct dt t0:Rdefinitions.R) (a b c d : Rdefinitions.R -> Rdefinitions.R) (a' b' c' d':Rdefinitions.R),
  (dt <> 0 ->
  (forall t, c t = exp (dt * a t) * cos (dt * b t)) ->
  (forall t, d t = exp (dt * a t) * sin (dt * b t)) ->
  derivable_pt_lim a t0 a' -> derivable_pt_lim b t0 b' -> derivable_pt_lim c t0 c' -> derivable_pt_lim d t0 d' ->
  0 < a t0 * a t0 + b t0 * b t0 ->
  derivable_pt_lim (fun t => pct * (- a t / sqrt (a t * a t + b t * b t))) t0
    (jxi_row ROps17 pct dt (sqrt (a t0 * a t0 + b t0 * b t0)) (a t0) (b t0) (c t0) (d t0) c' d'))%R.
Proof. exact jac_xi. Qed.

(* ---- REAL DERIVATIVES.  The dual-number hypotheses above are given their meaning: for matrix families that are differentiable at
   t = 0 and satisfy the defining equations EXACTLY on a neighbourhood of 0, the pairs (value, derivative) satisfy the dual-number
   equations (P_unc_family: sv_family_dual, ls_family_dual, eig_family_dual), hence the derivatives are what the model computes.
   What remains outside (C17_full_statement) is only the EXISTENCE of such branches for a simple singular value / eigenvalue. ---- *)
(* the perturbation the property talks about, H + t dH, is a differentiable family with derivative dH *)
Theorem C17_affine_family : forall m n (H dH:fmat Rdefinitions.R), dfam Rdefinitions.R dlim m n (affine H dH) dH.
Proof. exact dfam_affine. Qed.
(* singular value and left singular vector: along ANY differentiable branch of normalised singular triples of H(t), the derivative
   of sigma is u^T dH v and the derivative of u is the code's expression (SSI_fast eqs 28-34) *)
Theorem C17_sv_real_derivatives : forall (m c:nat) (Hf uf vf:fam Rdefinitions.R) (sf:Rdefinitions.R->Rdefinitions.R)
    (dH du dv:fmat Rdefinitions.R) (ds:Rdefinitions.R),
  dfam Rdefinitions.R dlim m c Hf dH -> dfam Rdefinitions.R dlim m 1 uf du -> dfam Rdefinitions.R dlim c 1 vf dv -> dlim sf ds ->
  near0 (fun t => feq m 1 (fmul ROps17 c (Hf t) (vf t)) (fscal ROps17 (sf t) (uf t))) ->
  near0 (fun t => feq c 1 (fmul ROps17 m (ftr (Hf t)) (uf t)) (fscal ROps17 (sf t) (vf t))) ->
  near0 (fun t => feq 1 1 (fmul ROps17 m (ftr (uf t)) (uf t)) (fid ROps17)) ->
  near0 (fun t => feq 1 1 (fmul ROps17 c (ftr (vf t)) (vf t)) (fid ROps17)) ->
  forall (Ki:fmat Rdefinitions.R) (isg:Rdefinitions.R),
  (0 < c)%nat ->
  simple_sv Rdefinitions.R ROps17 m c (Hf 0%R) (uf 0%R) (vf 0%R) (sf 0%R) ->
  (isg * sf 0 = 1)%R ->
  feq c c (fmul ROps17 c (Ki_arg ROps17 m c isg (Hf 0%R) (vf 0%R)) Ki) (fid ROps17) ->
  vf 0%R (c-1)%nat 0%nat <> 0%R ->
  feq m 1 du (du_code ROps17 m c isg (Hf 0%R) dH (uf 0%R) (vf 0%R) Ki) /\
  ds = dsig_of ROps17 m c (fun a => uf 0%R a 0%nat) dH (fun b => vf 0%R b 0%nat).
Proof. exact sv_real_derivatives. Qed.
(* least-squares state matrix: the derivative of A(t) along any differentiable branch of (O_p, O_m, A) solving the normal equations
   solves the model's linearised normal equations *)
Theorem C17_ls_real_derivative : forall pr n (Opf Omf Af:fam Rdefinitions.R) (dOp dOm dA:fmat Rdefinitions.R),
  dfam Rdefinitions.R dlim pr n Opf dOp -> dfam Rdefinitions.R dlim pr n Omf dOm -> dfam Rdefinitions.R dlim n n Af dA ->
  near0 (fun t => feq n n (fmul ROps17 n (fmul ROps17 pr (ftr (Opf t)) (Opf t)) (Af t)) (fmul ROps17 pr (ftr (Opf t)) (Omf t))) ->
  feq n n (fmul ROps17 n (fmul ROps17 pr (ftr (Opf 0%R)) (Opf 0%R)) dA)
          (fsub ROps17 (fadd ROps17 (fmul ROps17 pr (ftr dOp) (Omf 0%R)) (fmul ROps17 pr (ftr (Opf 0%R)) dOm))
                   (fmul ROps17 n (fadd ROps17 (fmul ROps17 pr (ftr dOp) (Opf 0%R)) (fmul ROps17 pr (ftr (Opf 0%R)) dOp)) (Af 0%R))).
Proof. exact (ls_derivative Rdefinitions.R ROps17 RRth17 dlim dlim_const dlim_plus dlimR_mult dlim_unique_local). Qed.
(* pole: the derivative of the (complex) eigenvalue along any differentiable branch of (observability matrices, state matrix,
   eigen-pair) is the model's d lambda = chi^H (O_p^T O_p)^-1 W phi / (chi^H phi), W built from the observability sensitivities *)
Theorem C17_pole_complex_derivative : forall pr n (Opf Omf Af phif:fam (Cplx.C Rdefinitions.R)) (lamf:Rdefinitions.R->Cplx.C Rdefinitions.R)
    (dOp dOm dA dphi:fmat (Cplx.C Rdefinitions.R)) (dlam:Cplx.C Rdefinitions.R) (OO chi:fmat (Cplx.C Rdefinitions.R)),
  dfam (Cplx.C Rdefinitions.R) dlimC pr n Opf dOp -> dfam (Cplx.C Rdefinitions.R) dlimC pr n Omf dOm -> dfam (Cplx.C Rdefinitions.R) dlimC n n Af dA ->
  near0 (fun t => feq n n (fmul (COps ROps17) n (fmul (COps ROps17) pr (ftr (Opf t)) (Opf t)) (Af t)) (fmul (COps ROps17) pr (ftr (Opf t)) (Omf t))) ->
  dfam (Cplx.C Rdefinitions.R) dlimC n 1 phif dphi -> dlimC lamf dlam ->
  near0 (fun t => feq n 1 (fmul (COps ROps17) n (Af t) (phif t)) (fscal (COps ROps17) (lamf t) (phif t))) ->
  feq n n (fmul (COps ROps17) n OO (fmul (COps ROps17) pr (ftr (Opf 0%R)) (Opf 0%R))) (fid (COps ROps17)) ->
  feq 1 n (fmul (COps ROps17) n chi (Af 0%R)) (fscal (COps ROps17) (lamf 0%R) chi) ->
  omul (COps ROps17) dlam (dlam_den (COps ROps17) n (fun a => chi 0%nat a) (fun a => phif 0%R a 0%nat))
  = dlam_num (COps ROps17) n (fun a => chi 0%nat a) OO
      (W_of (COps ROps17) (lamf 0%R) (fmul (COps ROps17) pr (ftr (Opf 0%R)) dOp) (fmul (COps ROps17) pr (ftr (Omf 0%R)) dOp)
            (fmul (COps ROps17) pr (ftr (Opf 0%R)) dOm))
      (fun a => phif 0%R a 0%nat).
Proof. exact pole_complex_derivative. Qed.

Print Assumptions C17_block_mean.
Print Assumptions C17_block_mean_gen.
Print Assumptions C17_factor_gram.
Print Assumptions C17_factor_entry.
Print Assumptions C17_vec_col_kron.
Print Assumptions C17_sum_of_squares.
Print Assumptions C17_single_column.
Print Assumptions C17_cov_is_JTTJ.
Print Assumptions C17_dsigma.
Print Assumptions C17_dA_from_dO.
Print Assumptions C17_dlambda.
Print Assumptions C17_dlambda_chain.
Print Assumptions C17_Q_layout.
Print Assumptions C17_vec_row_kron_refuted.
Print Assumptions C17_jf_row_is.
Print Assumptions C17_jf_row_parts.
Print Assumptions C17_gauge_invariant.
Print Assumptions C17_du_solves_linearised.
Print Assumptions C17_du_unique.
Print Assumptions C17_singular_vector_first_order_partial.
Print Assumptions C17_dA_first_order.
Print Assumptions C17_dlambda_first_order.
Print Assumptions C17_chain_first_order_partial.
Print Assumptions C17_dObs_first_order.
Print Assumptions C17_dObs_postponed.
Print Assumptions C17_Q_postponed.
Print Assumptions C17_jac_f.
Print Assumptions C17_jfx_rows.
Print Assumptions C17_jxi_row_is.
Print Assumptions C17_xi_curve.
Print Assumptions C17_jac_xi.
Print Assumptions C17_affine_family.
Print Assumptions C17_sv_real_derivatives.
Print Assumptions C17_ls_real_derivative.
Print Assumptions C17_pole_complex_derivative.

(* non-vacuity 1: l = r = 1, br = 1, Ndat = 7 (N = 4, three stacked columns), nb = 2, Nb = 2: the last slice is cut to one
   column, the hypotheses of C17_block_mean hold over Qc and the mean of the two block estimates is the full estimate;
   the factor is not zero. *)
Example C17_example_block_mean :
  let Y := [[Q2Qc 1; Q2Qc 2; Q2Qc 0; Q2Qc 3; Q2Qc (-1); Q2Qc 2; Q2Qc 5]]%list in
  let Yf := mm_Yf 1 1 (sig_of QcOps Y) in let Yp := mm_Yp 1 1 (sig_of QcOps Y) in
  let half := Q2Qc (1#2) in let quarter := Q2Qc (1#4) in
  (Qc_eq_bool (half * ofnat Qc QcOps 2) 1 && Qc_eq_bool (quarter * ofnat Qc QcOps 4) 1 = true)%bool /\
  showMat (tab2 2 2 (fscal QcOps half (fsum QcOps 2 (blk_est QcOps half 2 3 Yf Yp)))) = "-5/4 3/1;1/4 13/4"%string /\
  showMat (tab2 2 2 (full_est QcOps quarter 3 Yf Yp)) = "-5/4 3/1;1/4 13/4"%string /\
  showMat (unc_factor_l QcOps quarter half 1 1 1 7 2 Y Y) = "-1/4 1/4;11/4 -11/4;0/1 0/1;-17/4 17/4"%string.
Proof. vm_compute. repeat split; reflexivity. Qed.

(* non-vacuity 2: the hypotheses of C17_dlambda / C17_dsigma are satisfiable on concrete non-trivial instances (Z):
   A = [[2,1],[0,3]], phi = (1,0), chi = (1,-1), lam = 2, dA = [[1,2],[3,4]], dlam = -2, dphi = (0,-3);
   H = diag(2,1), u = v = e_0, s = 2, dH = [[5,7],[11,13]], ds = 5, du = (0, 7), dv = (0, 8)  [(H - s) du = dH v - ds u ...] *)
Example C17_example_dlambda :
  tab2 2 1 (fmul ZOps 2 exA exphi) = tab2 2 1 (fscal ZOps 2%Z exphi) /\
  tab2 1 2 (fmul ZOps 2 exchi exA) = tab2 1 2 (fscal ZOps 2%Z exchi) /\
  tab2 2 1 (fadd ZOps (fmul ZOps 2 exdA exphi) (fmul ZOps 2 exA exdphi)) = tab2 2 1 (fadd ZOps (fscal ZOps (-2)%Z exphi) (fscal ZOps 2%Z exdphi)) /\
  (fscal ZOps (-2)%Z (fmul ZOps 2 exchi exphi) 0 0 = fmul ZOps 2 exchi (fmul ZOps 2 exdA exphi) 0 0)%nat.
Proof. vm_compute. repeat split; reflexivity. Qed.

(* non-vacuity 3: the hypotheses of C17_du_solves_linearised hold on H = 2 u v^T + u2 v2^T, u = (1,0), v = (3/5,4/5) (last component
   of v non-zero), Ki the exact inverse of Ki_arg; for dH = [[1,2],[3,4]] the code's expression gives du = (0, 52/15), which is the
   classical value (2*5 + 1*2/5)/(4-1), and d sigma = 11/5 *)
Example C17_example_du :
  let H := [[q 6 5; q 8 5];[q (-4) 5; q 3 5]]%list in let dH := [[q 1 1; q 2 1];[q 3 1; q 4 1]]%list in
  let u := [q 1 1; q 0 1]%list in let v := [q 3 5; q 4 5]%list in
  let Ki := [[q 187 120; q 3 10];[q (-7) 10; q 2 5]]%list in
  showMat (tab2 2 1 (fmul QcOps 2 (fm_of QcOps H) (colm QcOps v))) = "2/1;0/1"%string /\
  showMat (tab2 2 1 (fmul QcOps 2 (ftr (fm_of QcOps H)) (colm QcOps u))) = "6/5;8/5"%string /\
  showMat (tab2 2 2 (fmul QcOps 2 (Ki_arg QcOps 2 2 (q 1 2) (fm_of QcOps H) (colm QcOps v)) (fm_of QcOps Ki))) = "1/1 0/1;0/1 1/1"%string /\
  showRow (du_code_l QcOps 2 2 (q 1 2) H dH u v Ki) = "0/1 52/15"%string /\
  showQc (dsig_of QcOps 2 2 (lget QcOps u) (fm_of QcOps dH) (lget QcOps v)) = "11/5"%string.
Proof. vm_compute. repeat split; reflexivity. Qed.

(* non-vacuity 4 (xi row): lam_c = -3 + 4i with the witness |lam_c| = 5 (5*5 = 9 + 16), lam_d = 1 + 2i, dt = 1/2, d lam = 3 - i,
   pct = 100, and 1/6 standing in for 1/(2 pi): the hypotheses of C17_jfx_rows / C17_jxi_row_is hold; the second row of the code's
   matrix product gives 544/25 = 100 * 136/625, which is 100 * [ -da |lc|^2 + a (a da + b db) ] / |lc|^3 with da = 2/5, db = -14/5;
   the first row gives jf_row *)
Example C17_example_xi_row :
  let xy := fun k => match k with 0%nat => q 3 1 | _ => q (-1) 1 end in
  let J := jfx_mat QcOps (q 1 6) (q 100 1) (q 1 2) (q 5 1) (q (-3) 1) (q 4 1) (q 1 1) (q 2 1) in
  (Qc_eq_bool (q 5 1 * q 5 1) (q (-3) 1 * q (-3) 1 + q 4 1 * q 4 1) = true) /\
  showQc (mapply QcOps 2 J xy 1%nat) = "544/25"%string /\
  showQc (jxi_row QcOps (q 100 1) (q 1 2) (q 5 1) (q (-3) 1) (q 4 1) (q 1 1) (q 2 1) (q 3 1) (q (-1) 1)) = "544/25"%string /\
  showQc (q 100 1 * ((- (q 2 5) * (q 5 1 * q 5 1) + q (-3) 1 * (q (-3) 1 * q 2 5 + q 4 1 * q (-14) 5)) / (q 5 1 * q 5 1 * q 5 1))) = "544/25"%string /\
  showQc (mapply QcOps 2 J xy 0%nat) = showQc (jf_row QcOps (q 1 6) (q 1 2) (q 5 1) (q (-3) 1) (q 4 1) (q 1 1) (q 2 1) (q 3 1) (q (-1) 1)) /\
  showQc (mapply QcOps 2 J xy 0%nat) = "-31/75"%string.
Proof. vm_compute. repeat split; reflexivity. Qed.

(* non-vacuity 5 (real derivatives): the 1 x 1 branch H(t) = 2 + 3t, u = v = 1, sigma(t) = 2 + 3t is differentiable and satisfies the
   four defining equations for every t; C17_sv_real_derivatives then says d sigma = u dH v = 3 *)
Example C17_example_family :
  let Hf := affine (fun _ _ => 2%R) (fun _ _ => 3%R) in
  let one : fam Rdefinitions.R := fun _ _ _ => 1%R in
  let sf := fun t:Rdefinitions.R => (2 + t * 3)%R in
  dfam Rdefinitions.R dlim 1 1 Hf (fun _ _ => 3%R) /\ dfam Rdefinitions.R dlim 1 1 one (fzero ROps17) /\ dlim sf 3%R /\
  near0 (fun t => feq 1 1 (fmul ROps17 1 (Hf t) (one t)) (fscal ROps17 (sf t) (one t))) /\
  near0 (fun t => feq 1 1 (fmul ROps17 1 (ftr (Hf t)) (one t)) (fscal ROps17 (sf t) (one t))) /\
  near0 (fun t => feq 1 1 (fmul ROps17 1 (ftr (one t)) (one t)) (fid ROps17)) /\
  dsig_of ROps17 1 1 (fun _ => 1%R) (fun _ _ => 3%R) (fun _ => 1%R) = 3%R.
Proof.
  cbv zeta. split; [apply dfam_affine|]. split; [apply (dfam_const Rdefinitions.R ROps17 dlim dlim_const)|].
  split; [exact (dfam_affine 1 1 (fun _ _ => 2%R) (fun _ _ => 3%R) 0%nat 0%nat Nat.lt_0_1 Nat.lt_0_1)|].
  assert (P1 : (0 < 1)%R) by exact Rlt_0_1.
  repeat split; try (exists (mkposreal 1 P1); intros t _ i j Hi Hj;
    assert (i = 0%nat) by lia; assert (j = 0%nat) by lia; subst;
    unfold fmul, fscal, ftr, fid, affine, fadd; cbn; ring).
  unfold dsig_of; cbn; ring.
Qed.
