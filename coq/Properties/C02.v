(* C02 - PoSER merging reproduces the global mode shape from re-scaled setups. *)
From Coq Require Import List Arith Lia Bool Ring Field String ZArith QArith Qcanon.
From PyOMA.Base Require Import Carrier Cplx Show.
From PyOMA.Model Require Import M_merge.
From PyOMA.Proofs Require Import P_merge.
Import ListNotations.

Section S.
Variable R:Type. Variable K:Ops R.
Hypothesis Fth : field_theory (o0 K) (o1 K) (oadd K) (omul K) (osub K) (oopp K) (odiv K) (oinv K) (@eq R).

(* One mode.  g = global (complex) shape over sensor ids; the first setup sees sensors s0 scaled by c0', setup i sees
   sensors s scaled by c; reference positions rf0 / rf point at the same sensors in the same order; g^T g over the
   reference sensors is non-zero (forced by the un-conjugated MSF).  Then the merged column is c0' * g over
   references (first setup's order) ++ roving of setup 0 ++ roving of setup 1 ++ ... : nothing of c_i survives. *)
Theorem C02_merge_recovers_global : forall (g:nat -> C R) (c0':R) (s0 rf0:list nat) (rest:list (R * list nat * list nat)),
  let refS := pick 0%nat s0 rf0 in
  (forall c s rf, In (c,s,rf) rest -> c <> o0 K /\ pick 0%nat s rf = refS) ->
  c0' <> o0 K ->
  cnorm2 K (cdotl K (map g refS) (map g refS)) <> o0 K ->
  (forall i, In i rf0 -> (i < List.length s0)%nat) ->
  (forall c s rf, In (c,s,rf) rest -> forall i, In i rf -> (i < List.length s)%nat) ->
  merge_col K (obs R K g c0' s0) rf0 (map (fun t => (obs R K g (fst (fst t)) (snd (fst t)), snd t)) rest)
  = obs R K g c0' (refS ++ drop_at s0 rf0 0%nat ++ List.concat (map (fun t => drop_at (snd (fst t)) (snd t) 0%nat) rest)).
Proof. exact (merge_recovers_global R K Fth). Qed.

(* All modes, arbitrary non-zero factor per setup and per mode. *)
Theorem C02_merge_modes_recover : forall (s0 rf0:list nat) (others:list (list nat * list nat)) (modes:list (mode_spec R)),
  let refS := pick 0%nat s0 rf0 in
  (forall i, In i rf0 -> (i < List.length s0)%nat) ->
  (forall s rf, In (s,rf) others -> pick 0%nat s rf = refS /\ forall i, In i rf -> (i < List.length s)%nat) ->
  (forall gk c0k cs, In (gk,c0k,cs) modes ->
       c0k <> o0 K /\ List.length cs = List.length others /\ (forall c, In c cs -> c <> o0 K) /\
       cnorm2 K (cdotl K (map gk refS) (map gk refS)) <> o0 K) ->
  merge_modes K rf0 (map snd others) (map (mode_cols R K s0 others) modes)
  = map (fun m => obs R K (fst (fst m)) (snd (fst m)) (merged_order s0 rf0 others)) modes.
Proof. exact (merge_modes_recover R K Fth). Qed.

(* The modal scale factor used is exactly c0/ci. *)
Theorem C02_msf_scaled : forall ci c0' (g:list (C R)),
  ci <> o0 K -> cnorm2 K (cdotl K g g) <> o0 K -> msf K (rscale K ci g) (rscale K c0' g) = odiv K c0' ci.
Proof. exact (msf_scaled R K Fth). Qed.

(* The function as called (tables sensors x modes in, table rows x modes out): for every global table G, every layout
   (sensor lists, reference positions without repeats, in range, pointing at the same sensors in the same order as the
   first setup's), every non-zero real factor per setup and per mode, and g^T g <> 0 on the reference part of every
   mode: the call succeeds (no error) and entry [row][k] is cf0 k * G[order[row]][k] with
   order = references in the first setup's order ++ roving of setup 0 ++ roving of setup 1 ++ ...              *)
Theorem C02_merge_mode_shapes_spec : forall (G:nat -> nat -> C R) (nm:nat) (cf0:nat -> R) (s0 rf0:list nat) (others:list (setup_spec R)),
  rf0 <> [] -> NoDup rf0 -> (forall i, In i rf0 -> (i < List.length s0)%nat) ->
  (forall cf s rf, In (cf,s,rf) others ->
     pick 0%nat s rf = pick 0%nat s0 rf0 /\ NoDup rf /\ forall i, In i rf -> (i < List.length s)%nat) ->
  (forall k, (k < nm)%nat ->
     cf0 k <> o0 K /\ (forall cf s rf, In (cf,s,rf) others -> cf k <> o0 K) /\
     cnorm2 K (cdotl K (map (fun s => G s k) (pick 0%nat s0 rf0)) (map (fun s => G s k) (pick 0%nat s0 rf0))) <> o0 K) ->
  merge_mode_shapes K (obs_mat R K G cf0 nm s0 :: map (fun t : setup_spec R => obs_mat R K G (fst (fst t)) nm (snd (fst t))) others)
                      (rf0 :: map (fun t : setup_spec R => snd t) others)
  = MergeOk (tab2 (List.length (order_of R s0 rf0 others)) nm
                  (fun r k => cscal K (cf0 k) (G (nth r (order_of R s0 rf0 others) 0%nat) k))).
Proof. exact (merge_mode_shapes_spec R K Fth). Qed.

(* merged frequencies / damping for mode k over the setups (rows = one list per setup): with n the number of setups,
   n * Fn = sum, n * var = sum (x - Fn)^2 (population variance, = mean of squares - square of mean),
   Fn_cov^2 * Fn^2 = var, and the ddof=1 estimate is a different number whenever the values vary.             *)
Theorem C02_poser_stats : forall (rows:list (list R)) (k:nat),
  let n := ofnat K (List.length rows) in
  let col := map (fun r => nth k r (o0 K)) rows in
  let mc := nth k (poser_stats K rows) (o0 K, o0 K) in
  (k < List.length (hd [] rows))%nat -> n <> o0 K ->
  omul K n (fst mc) = rsum K col /\
  omul K n (pvar K n col) = rsum K (sqdev R K (fst mc) col) /\
  pvar K n col = osub K (odiv K (rsum K (map (fun x => omul K x x) col)) n) (omul K (fst mc) (fst mc)) /\
  (fst mc <> o0 K -> omul K (snd mc) (omul K (fst mc) (fst mc)) = pvar K n col) /\
  (osub K n (o1 K) <> o0 K -> pvar K n col <> o0 K -> svar R K n col <> pvar K n col).
Proof. exact (poser_stats_spec R K Fth). Qed.

(* merged frequencies / damping: results equal in every setup give that mean and zero dispersion *)
Theorem C02_mean_var_const : forall (x n:R) (l:list R),
  n <> o0 K -> rsum K (map (fun _ => o1 K) l) = n -> (forall y, In y l -> y = x) ->
  mean K n l = x /\ pvar K n l = o0 K.
Proof. exact (mean_var_const R K Fth). Qed.
End S.

(* Sensor names are flattened in the very order of the merged rows: REF1..REFk, then roving names setup by setup. *)
Theorem C02_flatten_matches_merge : forall (nm:nat -> string) (s0 rf0:list nat) (others:list (list nat * list nat)),
  flatten_multi (map (fun sr => map nm (fst sr)) ((s0,rf0)::others)) (Some (map snd ((s0,rf0)::others)))
  = FlatOk (ref_names (List.length rf0) ++ map nm (drop_at s0 rf0 0%nat ++ List.concat (map (fun sr => drop_at (fst sr) (snd sr) 0%nat) others))).
Proof. exact flatten_matches_merge. Qed.
(* Row by row: the flattened names have as many entries as the merged shape has rows; rows below the number of references
   are named REF1..REFk, every later row carries the name of exactly the sensor whose value stands in that merged row
   (order_of, the row order of C02_merge_mode_shapes_spec, is this merged_order). *)
Theorem C02_names_follow_rows : forall (nm:nat -> string) (s0 rf0:list nat) (others:list (list nat * list nat)) (row:nat),
  let order := merged_order s0 rf0 others in
  let names := (ref_names (List.length rf0) ++
                map nm (drop_at s0 rf0 0%nat ++ List.concat (map (fun sr => drop_at (fst sr) (snd sr) 0%nat) others)))%list in
  flatten_multi (map (fun sr => map nm (fst sr)) ((s0,rf0)::others)) (Some (map snd ((s0,rf0)::others))) = FlatOk names /\
  List.length names = List.length order /\
  ((row < List.length rf0)%nat -> nth row names EmptyString = ("REF" ++ nat_str (S row))%string) /\
  ((List.length rf0 <= row < List.length order)%nat -> nth row names EmptyString = nm (nth row order 0%nat)).
Proof. exact names_follow_rows. Qed.
Theorem C02_order_of_merged_order : forall R s0 rf0 (others:list (setup_spec R)),
  order_of R s0 rf0 others = merged_order s0 rf0 (map (fun t : setup_spec R => (snd (fst t), snd t)) others).
Proof. exact order_of_merged_order. Qed.
Theorem C02_merged_order_length : forall s0 rf0 others,
  List.length (merged_order s0 rf0 others)
  = (List.length rf0 + List.length (drop_at s0 rf0 0%nat ++ List.concat (map (fun sr => drop_at (fst sr) (snd sr) 0%nat) others)))%nat.
Proof. exact merged_order_length. Qed.

Print Assumptions C02_merge_recovers_global.
Print Assumptions C02_merge_modes_recover.
Print Assumptions C02_msf_scaled.
Print Assumptions C02_merge_mode_shapes_spec.
Print Assumptions C02_poser_stats.
Print Assumptions C02_mean_var_const.
Print Assumptions C02_flatten_matches_merge.
Print Assumptions C02_names_follow_rows.
Print Assumptions C02_order_of_merged_order.
Print Assumptions C02_merged_order_length.

(* non-vacuity at Qc: global complex shape over 5 sensors, setups see [0;1;2] (refs at positions [2;0]) x 2 and
   [3;2;0;4] (refs at [1;2]) x (-1/2); the merged column is 2*g over sensors [2;0;1;3;4]. *)
Example C02_example :
  let g := fun s => nth s [(q 1 1, q 1 2); (q (-3) 4, q 0 1); (q 2 1, q (-1) 1); (q 1 4, q 1 1); (q (-1) 1, q 3 2)] (c0 QcOps) in
  showCRow (merge_col QcOps (obs Qc QcOps g (q 2 1) [0;1;2]%nat) [2;0]%nat [(obs Qc QcOps g (q (-1) 2) [3;2;0;4]%nat, [1;2]%nat)])
  = showCRow (obs Qc QcOps g (q 2 1) [2;0;1;3;4]%nat)
  /\ showQc (cnorm2 QcOps (cdotl QcOps (map g [2;0]%nat) (map g [2;0]%nat))) <> showQc (o0 QcOps).
Proof. split; [vm_compute; reflexivity | vm_compute; discriminate]. Qed.

(* the same at table level, two modes with different factors per setup and mode: the call returns Ok and the table
   is cf0 k * G over sensors [2;0;1;3;4] *)
Example C02_example_table :
  let G := fun s k => nth k (nth s [[(q 1 1, q 1 2); (q 2 1, q 0 1)]; [(q (-3) 4, q 0 1); (q 1 1, q 1 1)]; [(q 2 1, q (-1) 1); (q (-1) 2, q 0 1)];
                                     [(q 1 4, q 1 1); (q 3 1, q 0 1)]; [(q (-1) 1, q 3 2); (q 1 8, q (-1) 1)]] []) (c0 QcOps) in
  let cf0 := fun k => nth k [q 2 1; q (-1) 4] (q 1 1) in
  let cf1 := fun k => nth k [q (-1) 2; q 5 1] (q 1 1) in
  match merge_mode_shapes QcOps [obs_mat Qc QcOps G cf0 2 [0;1;2]%nat; obs_mat Qc QcOps G cf1 2 [3;2;0;4]%nat] [[2;0]%nat; [1;2]%nat] with
  | MergeOk m => showCMat m = showCMat (tab2 5 2 (fun r k => cscal QcOps (cf0 k) (G (nth r [2;0;1;3;4]%nat 0%nat) k)))
  | _ => False
  end.
Proof. vm_compute. reflexivity. Qed.

(* statistics on 3 setups x 2 modes: mean 2 and 5; population variance 2/3 (ddof=1 would give 1); second mode constant *)
Example C02_example_stats :
  map (fun mc => (showQc (fst mc), showQc (snd mc))) (poser_stats QcOps [[q 1 1; q 5 1]; [q 2 1; q 5 1]; [q 3 1; q 5 1]])
  = [("2/1", "1/6"); ("5/1", "0/1")]%string
  /\ showQc (pvar QcOps (q 3 1) [q 1 1; q 2 1; q 3 1]) = "2/3"%string /\ showQc (svar Qc QcOps (q 3 1) [q 1 1; q 2 1; q 3 1]) = "1/1"%string.
Proof. vm_compute. repeat split; reflexivity. Qed.
