(* C02 - PoSER merging reproduces the global mode shape from re-scaled setups. *)
From Coq Require Import List Arith Lia Bool Ring Field String ZArith QArith Qcanon.
From PyOMA.Base Require Import Carrier Cplx Show.
From PyOMA.Model Require Import M_merge M_poser.
From PyOMA.Proofs Require Import P_merge P_poser.
Import ListNotations.

Section S.
Variable R:Type. Variable K:Ops R.
Hypothesis Fth : field_theory (o0 K) (o1 K) (oadd K) (omul K) (osub K) (oopp K) (odiv K) (oinv K) (@eq R).

(* One mode.  g = global (complex) shape over sensor ids; the first setup sees sensors s0 scaled by c0', setup i sees
   sensors s scaled by c; reference positions rf0 / rf point at the same sensors in the same order; g^T g over the
   reference sensors is non-zero (forced by the un-conjugated MSF).  Then the merged column is c0' * g over
   references (first setup's order) ++ roving of setup 0 ++ roving of setup 1 ++ ... : nothing of c_i survives. *)
Theorem C02_merge_recovers_global : forall (g:nat -> C R) (c0':R) (s0 rf0:list nat) (rest:list (R * list nat * list nat)),
  let refS := pick 0%nat s0 rf0 in
  (forall c s rf, In (c,s,rf) rest -> c <> o0 K /\ pick 0%nat s rf = refS) ->
  c0' <> o0 K ->
  cnorm2 K (cdotl K (map g refS) (map g refS)) <> o0 K ->
  (forall i, In i rf0 -> (i < List.length s0)%nat) ->
  (forall c s rf, In (c,s,rf) rest -> forall i, In i rf -> (i < List.length s)%nat) ->
  merge_col K (obs R K g c0' s0) rf0 (map (fun t => (obs R K g (fst (fst t)) (snd (fst t)), snd t)) rest)
  = obs R K g c0' (refS ++ drop_at s0 rf0 0%nat ++ List.concat (map (fun t => drop_at (snd (fst t)) (snd t) 0%nat) rest)).
Proof. exact (merge_recovers_global R K Fth). Qed.

(* All modes, arbitrary non-zero factor per setup and per mode. *)
Theorem C02_merge_modes_recover : forall (s0 rf0:list nat) (others:list (list nat * list nat)) (modes:list (mode_spec R)),
  let refS := pick 0%nat s0 rf0 in
  (forall i, In i rf0 -> (i < List.length s0)%nat) ->
  (forall s rf, In (s,rf) others -> pick 0%nat s rf = refS /\ forall i, In i rf -> (i < List.length s)%nat) ->
  (forall gk c0k cs, In (gk,c0k,cs) modes ->
       c0k <> o0 K /\ List.length cs = List.length others /\ (forall c, In c cs -> c <> o0 K) /\
       cnorm2 K (cdotl K (map gk refS) (map gk refS)) <> o0 K) ->
  merge_modes K rf0 (map snd others) (map (mode_cols R K s0 others) modes)
  = map (fun m => obs R K (fst (fst m)) (snd (fst m)) (merged_order s0 rf0 others)) modes.
Proof. exact (merge_modes_recover R K Fth). Qed.

(* The modal scale factor used is exactly c0/ci. *)
Theorem C02_msf_scaled : forall ci c0' (g:list (C R)),
  ci <> o0 K -> cnorm2 K (cdotl K g g) <> o0 K -> msf K (rscale K ci g) (rscale K c0' g) = odiv K c0' ci.
Proof. exact (msf_scaled R K Fth). Qed.

(* The function as called (tables sensors x modes in, table rows x modes out): for every global table G, every layout
   (sensor lists, reference positions without repeats, in range, pointing at the same sensors in the same order as the
   first setup's), every non-zero real factor per setup and per mode, and g^T g <> 0 on the reference part of every
   mode: the call succeeds (no error) and entry [row][k] is cf0 k * G[order[row]][k] with
   order = references in the first setup's order ++ roving of setup 0 ++ roving of setup 1 ++ ...              *)
Theorem C02_merge_mode_shapes_spec : forall (G:nat -> nat -> C R) (nm:nat) (cf0:nat -> R) (s0 rf0:list nat) (others:list (setup_spec R)),
  rf0 <> [] -> NoDup rf0 -> (forall i, In i rf0 -> (i < List.length s0)%nat) ->
  (forall cf s rf, In (cf,s,rf) others ->
     pick 0%nat s rf = pick 0%nat s0 rf0 /\ NoDup rf /\ forall i, In i rf -> (i < List.length s)%nat) ->
  (forall k, (k < nm)%nat ->
     cf0 k <> o0 K /\ (forall cf s rf, In (cf,s,rf) others -> cf k <> o0 K) /\
     cnorm2 K (cdotl K (map (fun s => G s k) (pick 0%nat s0 rf0)) (map (fun s => G s k) (pick 0%nat s0 rf0))) <> o0 K) ->
  merge_mode_shapes K (obs_mat R K G cf0 nm s0 :: map (fun t : setup_spec R => obs_mat R K G (fst (fst t)) nm (snd (fst t))) others)
                      (rf0 :: map (fun t : setup_spec R => snd t) others)
  = MergeOk (tab2 (List.length (order_of R s0 rf0 others)) nm
                  (fun r k => cscal K (cf0 k) (G (nth r (order_of R s0 rf0 others) 0%nat) k))).
Proof. exact (merge_mode_shapes_spec R K Fth). Qed.

(* merged frequencies / damping for mode k over the setups (rows = one list per setup): with n the number of setups,
   n * Fn = sum, n * var = sum (x - Fn)^2 (population variance, = mean of squares - square of mean),
   Fn_cov^2 * Fn^2 = var, and the ddof=1 estimate is a different number whenever the values vary.             *)
Theorem C02_poser_stats : forall (rows:list (list R)) (k:nat),
  let n := ofnat K (List.length rows) in
  let col := map (fun r => nth k r (o0 K)) rows in
  let mc := nth k (poser_stats K rows) (o0 K, o0 K) in
  (k < List.length (hd [] rows))%nat -> n <> o0 K ->
  omul K n (fst mc) = rsum K col /\
  omul K n (pvar K n col) = rsum K (sqdev R K (fst mc) col) /\
  pvar K n col = osub K (odiv K (rsum K (map (fun x => omul K x x) col)) n) (omul K (fst mc) (fst mc)) /\
  (fst mc <> o0 K -> omul K (snd mc) (omul K (fst mc) (fst mc)) = pvar K n col) /\
  (osub K n (o1 K) <> o0 K -> pvar K n col <> o0 K -> svar R K n col <> pvar K n col).
Proof. exact (poser_stats_spec R K Fth). Qed.

(* merged frequencies / damping: results equal in every setup give that mean and zero dispersion *)
Theorem C02_mean_var_const : forall (x n:R) (l:list R),
  n <> o0 K -> rsum K (map (fun _ => o1 K) l) = n -> (forall y, In y l -> y = x) ->
  mean K n l = x /\ pvar K n l = o0 K.
Proof. exact (mean_var_const R K Fth). Qed.
(* ---- the class MultiSetup_PoSER (M_poser.v) ----
   Whatever the inputs: every record merge_results() returns for a group carries, mode by mode, the arithmetic mean over
   the group's setups and population variance / mean^2, for Fn and for Xi.  stats_ok n col mu c2 is, by definition,
     n*mu = sum col  /\  n*pvar = sum (x-mu)^2  /\  pvar = (sum x^2)/n - mu^2  /\  (mu <> 0 -> c2*mu^2 = pvar)  /\
     (n-1 <> 0 -> pvar <> 0 -> the ddof=1 estimate differs from pvar)           (C02_stats_ok_unfold below)       *)
Theorem C02_merged_stats : forall (algs:list (alg_res R)) (refl:list (list nat)) (m:merged R) (k:nat),
  merge_group K algs refl = GroupOk m -> ofnat K (List.length algs) <> o0 K ->
  ((k < List.length (hd [] (map a_fn algs)))%nat ->
     stats_ok R K (ofnat K (List.length algs)) (map (fun a : alg_res R => nth k (a_fn a) (o0 K)) algs) (nth k (m_fn m) (o0 K)) (nth k (m_fn_cov2 m) (o0 K))) /\
  ((k < List.length (hd [] (map a_xi algs)))%nat ->
     stats_ok R K (ofnat K (List.length algs)) (map (fun a : alg_res R => nth k (a_xi a) (o0 K)) algs) (nth k (m_xi m) (o0 K)) (nth k (m_xi_cov2 m) (o0 K))).
Proof. exact (merged_stats R K Fth). Qed.
Theorem C02_stats_ok_unfold : forall (n:R) (col:list R) (mu c2:R),
  stats_ok R K n col mu c2 <->
  (omul K n mu = rsum K col /\
   omul K n (pvar K n col) = rsum K (sqdev R K mu col) /\
   pvar K n col = osub K (odiv K (rsum K (map (fun x => omul K x x) col)) n) (omul K mu mu) /\
   (mu <> o0 K -> omul K c2 (omul K mu mu) = pvar K n col) /\
   (osub K n (o1 K) <> o0 K -> pvar K n col <> o0 K -> svar R K n col <> pvar K n col)).
Proof. intros n col mu c2. exact (iff_refl _). Qed.

(* End to end at the level of the class.  Layout (sensors, reference positions) per setup, at least two setups, shared by
   all algorithms; nalg >= 1 algorithms under distinct names; algorithm a has its own global table sp_G, mode count sp_nm,
   non-zero real factor sp_cf i k per setup i and mode k, Fn / Xi rows per setup (same length in every setup), and
   g^T g <> 0 on the reference part of every mode.  The SingleSetups hold, for every algorithm, the restriction of its
   global table to the setup's sensors times the factors (setups_of).  Then the constructor accepts them and
   merge_results() returns - for EVERY algorithm, under its name, in the order of the names - the record merged_of:
   Phi[row][k] = sp_cf 0 k * G[order[row]][k], order = references in the first setup's order ++ roving sensors setup by
   setup (merged_order), Fn / Xi = poser_stats of that algorithm's rows (means, population variance / mean^2).     *)
Theorem C02_class_recovers_global : forall (names:list string) (spec:nat -> alg_spec R) (nalg:nat) (s0 rf0:list nat) (rest:list (list nat * list nat)),
  let lay := (s0,rf0)::rest in
  rest <> [] -> nalg <> 0%nat -> NoDup names -> List.length names = nalg ->
  rf0 <> [] -> NoDup rf0 -> (forall i, In i rf0 -> (i < List.length s0)%nat) ->
  (forall s rf, In (s,rf) rest -> pick 0%nat s rf = pick 0%nat s0 rf0 /\ NoDup rf /\ forall i, In i rf -> (i < List.length s)%nat) ->
  (forall a, (a < nalg)%nat ->
     (forall i, (i < List.length lay)%nat ->
        List.length (sp_fn R (spec a) i) = List.length (sp_fn R (spec a) 0%nat) /\ List.length (sp_xi R (spec a) i) = List.length (sp_xi R (spec a) 0%nat)) /\
     (forall k, (k < sp_nm R (spec a))%nat ->
        (forall i, (i < List.length lay)%nat -> sp_cf R (spec a) i k <> o0 K) /\
        cnorm2 K (cdotl K (map (fun s => sp_G R (spec a) s k) (pick 0%nat s0 rf0)) (map (fun s => sp_G R (spec a) s k) (pick 0%nat s0 rf0))) <> o0 K)) ->
  poser_class K names (setups_of R K lay spec nalg) (map snd lay)
  = ClassRes (PoserOk (map (fun a => (nth a names EmptyString, merged_of R K s0 rf0 rest (spec a))) (seq 0 nalg))).
Proof. exact (poser_class_recovers_global R K Fth). Qed.
(* ... and inside that record the statistics are, mode by mode, the arithmetic mean over the setups and population
   variance / mean^2 (so Fn_cov, Xi_cov = population standard deviation / mean), for Fn and for Xi              *)
Theorem C02_class_recovers_global_stats : forall (s0 rf0:list nat) (rest:list (list nat * list nat)) (a:alg_spec R) (k:nat),
  let n := S (List.length rest) in
  ofnat K n <> o0 K ->
  ((k < List.length (sp_fn R a 0%nat))%nat ->
     stats_ok R K (ofnat K n) (map (fun i => nth k (sp_fn R a i) (o0 K)) (seq 0 n))
              (nth k (m_fn (merged_of R K s0 rf0 rest a)) (o0 K)) (nth k (m_fn_cov2 (merged_of R K s0 rf0 rest a)) (o0 K))) /\
  ((k < List.length (sp_xi R a 0%nat))%nat ->
     stats_ok R K (ofnat K n) (map (fun i => nth k (sp_xi R a i) (o0 K)) (seq 0 n))
              (nth k (m_xi (merged_of R K s0 rf0 rest a)) (o0 K)) (nth k (m_xi_cov2 (merged_of R K s0 rf0 rest a)) (o0 K))).
Proof. exact (merged_of_stats R K Fth). Qed.
End S.

(* Sensor names are flattened in the very order of the merged rows: REF1..REFk, then roving names setup by setup. *)
Theorem C02_flatten_matches_merge : forall (nm:nat -> string) (s0 rf0:list nat) (others:list (list nat * list nat)),
  flatten_multi (map (fun sr => map nm (fst sr)) ((s0,rf0)::others)) (Some (map snd ((s0,rf0)::others)))
  = FlatOk (ref_names (List.length rf0) ++ map nm (drop_at s0 rf0 0%nat ++ List.concat (map (fun sr => drop_at (fst sr) (snd sr) 0%nat) others))).
Proof. exact flatten_matches_merge. Qed.
(* Row by row: the flattened names have as many entries as the merged shape has rows; rows below the number of references
   are named REF1..REFk, every later row carries the name of exactly the sensor whose value stands in that merged row
   (order_of, the row order of C02_merge_mode_shapes_spec, is this merged_order). *)
Theorem C02_names_follow_rows : forall (nm:nat -> string) (s0 rf0:list nat) (others:list (list nat * list nat)) (row:nat),
  let order := merged_order s0 rf0 others in
  let names := (ref_names (List.length rf0) ++
                map nm (drop_at s0 rf0 0%nat ++ List.concat (map (fun sr => drop_at (fst sr) (snd sr) 0%nat) others)))%list in
  flatten_multi (map (fun sr => map nm (fst sr)) ((s0,rf0)::others)) (Some (map snd ((s0,rf0)::others))) = FlatOk names /\
  List.length names = List.length order /\
  ((row < List.length rf0)%nat -> nth row names EmptyString = ("REF" ++ nat_str (S row))%string) /\
  ((List.length rf0 <= row < List.length order)%nat -> nth row names EmptyString = nm (nth row order 0%nat)).
Proof. exact names_follow_rows. Qed.
Theorem C02_order_of_merged_order : forall R s0 rf0 (others:list (setup_spec R)),
  order_of R s0 rf0 others = merged_order s0 rf0 (map (fun t : setup_spec R => (snd (fst t), snd t)) others).
Proof. exact order_of_merged_order. Qed.
Theorem C02_merged_order_length : forall s0 rf0 others,
  List.length (merged_order s0 rf0 others)
  = (List.length rf0 + List.length (drop_at s0 rf0 0%nat ++ List.concat (map (fun sr => drop_at (fst sr) (snd sr) 0%nat) others)))%nat.
Proof. exact merged_order_length. Qed.

(* ---- the class glue, for every carrier and every input (no field law needed) ----
   A successful MultiSetup_PoSER(ref_ind, setups, names).merge_results() with distinct names: there are at least two
   setups, one record per name in the order of the names, and the record at position k is built from the k-th algorithm
   of every setup, in setup order, against ref_ind exactly as it was passed (setup s is split at ref_ind[s]):
   its Phi is merge_mode_shapes of those shapes and ref_ind, its Fn / Xi / dispersions are poser_stats of those rows. *)
Theorem C02_class_forwarding : forall R (K:Ops R) (names:list string) (setups:list (setup R)) (refl:list (list nat)) (res:list (string * merged R)),
  poser_class K names setups refl = ClassRes (PoserOk res) -> NoDup names ->
  (2 <= List.length setups)%nat /\ List.length res = List.length names /\
  forall k, (k < List.length names)%nat ->
    let algs := map (fun su : setup R => nth k su alg_dflt) setups in
    let m := snd (nth k res (EmptyString, merged_dflt)) in
    fst (nth k res (EmptyString, merged_dflt)) = nth k names EmptyString /\
    merge_mode_shapes K (map a_phi algs) refl = MergeOk (m_phi m) /\
    m_fn m = map fst (poser_stats K (map a_fn algs)) /\ m_fn_cov2 m = map snd (poser_stats K (map a_fn algs)) /\
    m_xi m = map fst (poser_stats K (map a_xi algs)) /\ m_xi_cov2 m = map snd (poser_stats K (map a_xi algs)).
Proof. exact (@class_forwarding). Qed.
(* the same as an equation, errors included: the groups are exactly the columns of the setups x algorithms table, merged
   one after the other in the order of the names, the first failing group ending the call                          *)
Theorem C02_merge_results_by_position : forall R (K:Ops R) (names:list string) (setups:list (setup R)) (refl:list (list nat)),
  NoDup names -> (forall su, In su setups -> List.length su = List.length names) ->
  merge_results K names setups refl
  = seq_groups (map (fun k => (nth k names EmptyString, merge_group K (map (fun su : setup R => nth k su alg_dflt) setups) refl))
                    (seq 0 (List.length names))).
Proof. exact (@merge_results_by_position). Qed.
(* a group yields a record exactly when its Fn rows and its Xi rows are rectangular and merge_mode_shapes succeeds on its
   shapes with ref_ind; the record holds that merged shape and the statistics of those rows, nothing else         *)
Theorem C02_merge_group_ok_iff : forall R (K:Ops R) (algs:list (alg_res R)) (refl:list (list nat)) (m:merged R),
  merge_group K algs refl = GroupOk m <->
  uniform (map a_fn algs) = true /\ uniform (map a_xi algs) = true /\
  merge_mode_shapes K (map a_phi algs) refl = MergeOk (m_phi m) /\
  m_fn m = map fst (poser_stats K (map a_fn algs)) /\ m_fn_cov2 m = map snd (poser_stats K (map a_fn algs)) /\
  m_xi m = map fst (poser_stats K (map a_xi algs)) /\ m_xi_cov2 m = map snd (poser_stats K (map a_xi algs)).
Proof. exact (@merge_group_ok_iff). Qed.
(* distinct names are needed: the names are dictionary keys, two positions with one name fall into one group.  Two setups
   x two algorithms (classes A, B) named a, a: the constructor accepts them, the single group holds four shapes for two
   reference lists, the call ends in an IndexError - whereas position by position both merges succeed.            *)
Theorem C02_by_position_dup_names_refuted : exists (names:list string) (setups:list (setup Qc)) (refl:list (list nat)),
  poser_init names setups = InitOk /\ (forall su, In su setups -> List.length su = List.length names) /\
  merge_results QcOps names setups refl = PoserIndexErr /\
  exists res, seq_groups (map (fun k => (nth k names EmptyString, merge_group QcOps (map (fun su : setup Qc => nth k su alg_dflt) setups) refl))
                              (seq 0 (List.length names))) = PoserOk res.
Proof. exact dup_names_refuted. Qed.

(* ---- flatten_sns_names, every multi-setup argument form (flatten_gen of M_poser.v) ----
   list of lists, and table (DataFrame) whose rows are padded with NaN to any common width w (needs two rows or more:
   a one-row table is a single-setup geometry): both give REF1..REFk then the roving names setup by setup - the very
   list of C02_flatten_matches_merge / C02_names_follow_rows, i.e. the order of the merged rows.                   *)
Theorem C02_flatten_forms_match_merge : forall (nm:nat -> string) (w:nat) (s0 rf0:list nat) (others:list (list nat * list nat)),
  let lay := (s0,rf0)::others in
  let names := (ref_names (List.length rf0) ++
                map nm (drop_at s0 rf0 0%nat ++ List.concat (map (fun sr : list nat * list nat => drop_at (fst sr) (snd sr) 0%nat) others)))%list in
  flatten_gen (NLists (map (fun sr : list nat * list nat => map nm (fst sr)) lay)) (Some (map snd lay)) = FlatG (map Some names) /\
  (others <> [] ->
   flatten_gen (NTable (map (fun sr : list nat * list nat => pad_row w (map nm (fst sr))) lay)) (Some (map snd lay)) = FlatG (map Some names)).
Proof. exact flatten_forms_match_merge. Qed.
Theorem C02_flatten_table_as_lists : forall (rows:list (list (option string))) (refl:option (list (list nat))),
  (2 <= List.length rows)%nat -> flatten_gen (NTable rows) refl = flatten_gen (NLists (map not_nan rows)) refl.
Proof. exact flatten_table_as_lists. Qed.
Theorem C02_flatten_table_one_row : forall (row:list (option string)) (refl:option (list (list nat))),
  flatten_gen (NTable [row]) refl = FlatG row.
Proof. exact flatten_table_one_row. Qed.
Theorem C02_flatten_lists_multi : forall (names:list (list string)) (rl:list (list nat)),
  rl <> [] -> List.length names = List.length rl ->
  flatten_lists names (Some rl) = match flatten_multi names (Some rl) with FlatOk l => FlatG (map Some l) | FlatAttrErr => FlatGAttrErr end.
Proof. exact flatten_lists_multi. Qed.

Print Assumptions C02_merge_recovers_global.
Print Assumptions C02_merge_modes_recover.
Print Assumptions C02_msf_scaled.
Print Assumptions C02_merge_mode_shapes_spec.
Print Assumptions C02_poser_stats.
Print Assumptions C02_mean_var_const.
Print Assumptions C02_flatten_matches_merge.
Print Assumptions C02_names_follow_rows.
Print Assumptions C02_order_of_merged_order.
Print Assumptions C02_merged_order_length.
Print Assumptions C02_merged_stats.
Print Assumptions C02_stats_ok_unfold.
Print Assumptions C02_class_recovers_global.
Print Assumptions C02_class_recovers_global_stats.
Print Assumptions C02_class_forwarding.
Print Assumptions C02_merge_results_by_position.
Print Assumptions C02_merge_group_ok_iff.
Print Assumptions C02_by_position_dup_names_refuted.
Print Assumptions C02_flatten_forms_match_merge.
Print Assumptions C02_flatten_table_as_lists.
Print Assumptions C02_flatten_table_one_row.
Print Assumptions C02_flatten_lists_multi.

(* non-vacuity at Qc: global complex shape over 5 sensors, setups see [0;1;2] (refs at positions [2;0]) x 2 and
   [3;2;0;4] (refs at [1;2]) x (-1/2); the merged column is 2*g over sensors [2;0;1;3;4]. *)
Example C02_example :
  let g := fun s => nth s [(q 1 1, q 1 2); (q (-3) 4, q 0 1); (q 2 1, q (-1) 1); (q 1 4, q 1 1); (q (-1) 1, q 3 2)] (c0 QcOps) in
  showCRow (merge_col QcOps (obs Qc QcOps g (q 2 1) [0;1;2]%nat) [2;0]%nat [(obs Qc QcOps g (q (-1) 2) [3;2;0;4]%nat, [1;2]%nat)])
  = showCRow (obs Qc QcOps g (q 2 1) [2;0;1;3;4]%nat)
  /\ showQc (cnorm2 QcOps (cdotl QcOps (map g [2;0]%nat) (map g [2;0]%nat))) <> showQc (o0 QcOps).
Proof. split; [vm_compute; reflexivity | vm_compute; discriminate]. Qed.

(* the same at table level, two modes with different factors per setup and mode: the call returns Ok and the table
   is cf0 k * G over sensors [2;0;1;3;4] *)
Example C02_example_table :
  let G := fun s k => nth k (nth s [[(q 1 1, q 1 2); (q 2 1, q 0 1)]; [(q (-3) 4, q 0 1); (q 1 1, q 1 1)]; [(q 2 1, q (-1) 1); (q (-1) 2, q 0 1)];
                                     [(q 1 4, q 1 1); (q 3 1, q 0 1)]; [(q (-1) 1, q 3 2); (q 1 8, q (-1) 1)]] []) (c0 QcOps) in
  let cf0 := fun k => nth k [q 2 1; q (-1) 4] (q 1 1) in
  let cf1 := fun k => nth k [q (-1) 2; q 5 1] (q 1 1) in
  match merge_mode_shapes QcOps [obs_mat Qc QcOps G cf0 2 [0;1;2]%nat; obs_mat Qc QcOps G cf1 2 [3;2;0;4]%nat] [[2;0]%nat; [1;2]%nat] with
  | MergeOk m => showCMat m = showCMat (tab2 5 2 (fun r k => cscal QcOps (cf0 k) (G (nth r [2;0;1;3;4]%nat 0%nat) k)))
  | _ => False
  end.
Proof. vm_compute. reflexivity. Qed.

(* statistics on 3 setups x 2 modes: mean 2 and 5; population variance 2/3 (ddof=1 would give 1); second mode constant *)
Example C02_example_stats :
  map (fun mc => (showQc (fst mc), showQc (snd mc))) (poser_stats QcOps [[q 1 1; q 5 1]; [q 2 1; q 5 1]; [q 3 1; q 5 1]])
  = [("2/1", "1/6"); ("5/1", "0/1")]%string
  /\ showQc (pvar QcOps (q 3 1) [q 1 1; q 2 1; q 3 1]) = "2/3"%string /\ showQc (svar Qc QcOps (q 3 1) [q 1 1; q 2 1; q 3 1]) = "1/1"%string.
Proof. vm_compute. repeat split; reflexivity. Qed.

(* the class end to end on 3 setups x 2 algorithms (classes FDD / SSI, 2 and 3 modes, different global tables, factors,
   Fn / Xi rows): hypotheses of C02_class_recovers_global hold (reference parts agree with the first setup's, g^T g <> 0
   for every algorithm and mode) and the class returns merged_of for both names                                    *)
Definition C02_exG1 := fun (s k:nat) => nth k (nth s [[(q 1 1, q 1 2); (q 2 1, q 0 1)]; [(q (-3) 4, q 0 1); (q 1 1, q 1 1)]; [(q 2 1, q (-1) 1); (q (-1) 2, q 0 1)];
                                     [(q 1 4, q 1 1); (q 3 1, q 0 1)]; [(q (-1) 1, q 3 2); (q 1 8, q (-1) 1)]] []) (c0 QcOps).
Definition C02_exspec (a:nat) : alg_spec Qc :=
  match a with
  | 0%nat => {| sp_cls := "FDD"; sp_G := C02_exG1; sp_nm := 2;
                sp_cf := fun i k => nth k (nth i [[q 2 1; q (-1) 4]; [q (-1) 2; q 5 1]; [q 3 1; q 1 2]] []) (q 1 1);
                sp_fn := fun i => nth i [[q 1 1; q 5 1]; [q 2 1; q 5 1]; [q 3 1; q 5 1]] [];
                sp_xi := fun i => nth i [[q 1 100; q 2 100]; [q 3 100; q 2 100]; [q 2 100; q 2 100]] [] |}
  | _ => {| sp_cls := "SSI"; sp_G := fun s k => (q (Z.of_nat s + 1) 1, q (Z.of_nat k) 3); sp_nm := 3;
            sp_cf := fun i k => q (Z.of_nat (i + 2 * k) + 1) 2;
            sp_fn := fun i => [q (Z.of_nat i) 1; q 7 1; q 9 2];
            sp_xi := fun i => [q 1 50] |}
  end.
Example C02_example_class :
  let rest := [([3;2;0;4], [1;2]); ([1;0;2], [2;1])]%nat in
  let lay := ([0;1;2], [2;0])%nat :: rest in
  show_class 0 99 (poser_class QcOps ["fdd"; "ssi"]%string (setups_of Qc QcOps lay C02_exspec 2) (map snd lay))
  = show_class 0 99 (ClassRes (PoserOk (map (fun a => (nth a ["fdd"; "ssi"]%string EmptyString, merged_of Qc QcOps [0;1;2]%nat [2;0]%nat rest (C02_exspec a))) (seq 0 2))))
  /\ forallb (fun sr : list nat * list nat => list_eqb Nat.eqb (pick 0%nat (fst sr) (snd sr)) [2;0]%nat) rest = true
  /\ forallb (fun a => forallb (fun k => negb (Qc_eq_bool (cnorm2 QcOps (cdotl QcOps (map (fun s => sp_G Qc (C02_exspec a) s k) [2;0]%nat)
                                                                                     (map (fun s => sp_G Qc (C02_exspec a) s k) [2;0]%nat))) (o0 QcOps)))
                                 (seq 0 (sp_nm Qc (C02_exspec a)))) (seq 0 2) = true
  /\ show_class 0 2 (poser_class QcOps ["fdd"; "ssi"]%string (setups_of Qc QcOps lay C02_exspec 2) (map snd lay))
     = "ok:fdd=2/1 5/1|1/6 0/1|1/50 1/50|1/6 0/1|4/1,-2/1 1/8,0/1;2/1,1/1 -1/2,0/1#ssi=1/1 7/1 9/2|2/3 0/1 0/1|1/50|0/1|3/2,0/1 9/2,1/2 15/2,5/3;1/2,0/1 3/2,1/2 5/2,5/3"%string.
Proof. vm_compute. repeat split; reflexivity. Qed.

(* the table form with a NaN cell inside a row: positions are counted after the NaN cells are removed *)
Example C02_example_flatten_table :
  show_flat (flatten_gen (NTable [[Some "a"; None; Some "b"]; [Some "c"; Some "d"; Some "e"]]%string) (Some [[1];[1]]%nat)) = "ok:REF1,a,c,e"%string
  /\ show_flat (flatten_gen (NTable [[Some "a"; None; Some "b"]]%string) (Some [[1]]%nat)) = "ok:a,nan,b"%string
  /\ show_flat (flatten_gen (NLists [["a"]; []]%string) (Some [[0]]%nat)) = "ok:REF1"%string
  /\ show_flat (flatten_gen (NLists [["a"]; ["b"]]%string) (Some [[0]]%nat)) = "IndexError"%string.
Proof. vm_compute. repeat split; reflexivity. Qed.
