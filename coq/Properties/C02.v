(* C02 - PoSER merging reproduces the global mode shape from re-scaled setups. *)
From Coq Require Import List Arith Lia Bool Ring Field String ZArith QArith Qcanon.
From PyOMA.Base Require Import Carrier Cplx Show.
From PyOMA.Model Require Import M_merge.
From PyOMA.Proofs Require Import P_merge.
Import ListNotations.

Section S.
Variable R:Type. Variable K:Ops R.
Hypothesis Fth : field_theory (o0 K) (o1 K) (oadd K) (omul K) (osub K) (oopp K) (odiv K) (oinv K) (@eq R).

(* One mode.  g = global (complex) shape over sensor ids; the first setup sees sensors s0 scaled by c0', setup i sees
   sensors s scaled by c; reference positions rf0 / rf point at the same sensors in the same order; g^T g over the
   reference sensors is non-zero (forced by the un-conjugated MSF).  Then the merged column is c0' * g over
   references (first setup's order) ++ roving of setup 0 ++ roving of setup 1 ++ ... : nothing of c_i survives. *)
Theorem C02_merge_recovers_global : forall (g:nat -> C R) (c0':R) (s0 rf0:list nat) (rest:list (R * list nat * list nat)),
  let refS := pick 0%nat s0 rf0 in
  (forall c s rf, In (c,s,rf) rest -> c <> o0 K /\ pick 0%nat s rf = refS) ->
  c0' <> o0 K ->
  cnorm2 K (cdotl K (map g refS) (map g refS)) <> o0 K ->
  (forall i, In i rf0 -> (i < List.length s0)%nat) ->
  (forall c s rf, In (c,s,rf) rest -> forall i, In i rf -> (i < List.length s)%nat) ->
  merge_col K (obs R K g c0' s0) rf0 (map (fun t => (obs R K g (fst (fst t)) (snd (fst t)), snd t)) rest)
  = obs R K g c0' (refS ++ drop_at s0 rf0 0%nat ++ List.concat (map (fun t => drop_at (snd (fst t)) (snd t) 0%nat) rest)).
Proof. exact (merge_recovers_global R K Fth). Qed.

(* All modes, arbitrary non-zero factor per setup and per mode. *)
Theorem C02_merge_modes_recover : forall (s0 rf0:list nat) (others:list (list nat * list nat)) (modes:list (mode_spec R)),
  let refS := pick 0%nat s0 rf0 in
  (forall i, In i rf0 -> (i < List.length s0)%nat) ->
  (forall s rf, In (s,rf) others -> pick 0%nat s rf = refS /\ forall i, In i rf -> (i < List.length s)%nat) ->
  (forall gk c0k cs, In (gk,c0k,cs) modes ->
       c0k <> o0 K /\ List.length cs = List.length others /\ (forall c, In c cs -> c <> o0 K) /\
       cnorm2 K (cdotl K (map gk refS) (map gk refS)) <> o0 K) ->
  merge_modes K rf0 (map snd others) (map (mode_cols R K s0 others) modes)
  = map (fun m => obs R K (fst (fst m)) (snd (fst m)) (merged_order s0 rf0 others)) modes.
Proof. exact (merge_modes_recover R K Fth). Qed.

(* The modal scale factor used is exactly c0/ci. *)
Theorem C02_msf_scaled : forall ci c0' (g:list (C R)),
  ci <> o0 K -> cnorm2 K (cdotl K g g) <> o0 K -> msf K (rscale K ci g) (rscale K c0' g) = odiv K c0' ci.
Proof. exact (msf_scaled R K Fth). Qed.

(* merged frequencies / damping: results equal in every setup give that mean and zero dispersion *)
Theorem C02_mean_var_const : forall (x n:R) (l:list R),
  n <> o0 K -> rsum K (map (fun _ => o1 K) l) = n -> (forall y, In y l -> y = x) ->
  mean K n l = x /\ pvar K n l = o0 K.
Proof. exact (mean_var_const R K Fth). Qed.
End S.

(* Sensor names are flattened in the very order of the merged rows: REF1..REFk, then roving names setup by setup. *)
Theorem C02_flatten_matches_merge : forall (nm:nat -> string) (s0 rf0:list nat) (others:list (list nat * list nat)),
  flatten_multi (map (fun sr => map nm (fst sr)) ((s0,rf0)::others)) (Some (map snd ((s0,rf0)::others)))
  = FlatOk (ref_names (List.length rf0) ++ map nm (drop_at s0 rf0 0%nat ++ List.concat (map (fun sr => drop_at (fst sr) (snd sr) 0%nat) others))).
Proof. exact flatten_matches_merge. Qed.
Theorem C02_merged_order_length : forall s0 rf0 others,
  List.length (merged_order s0 rf0 others)
  = (List.length rf0 + List.length (drop_at s0 rf0 0%nat ++ List.concat (map (fun sr => drop_at (fst sr) (snd sr) 0%nat) others)))%nat.
Proof. exact merged_order_length. Qed.

Print Assumptions C02_merge_recovers_global.
Print Assumptions C02_merge_modes_recover.
Print Assumptions C02_msf_scaled.
Print Assumptions C02_mean_var_const.
Print Assumptions C02_flatten_matches_merge.
Print Assumptions C02_merged_order_length.

(* non-vacuity at Qc: global complex shape over 5 sensors, setups see [0;1;2] (refs at positions [2;0]) x 2 and
   [3;2;0;4] (refs at [1;2]) x (-1/2); the merged column is 2*g over sensors [2;0;1;3;4]. *)
Example C02_example :
  let g := fun s => nth s [(q 1 1, q 1 2); (q (-3) 4, q 0 1); (q 2 1, q (-1) 1); (q 1 4, q 1 1); (q (-1) 1, q 3 2)] (c0 QcOps) in
  showCRow (merge_col QcOps (obs Qc QcOps g (q 2 1) [0;1;2]%nat) [2;0]%nat [(obs Qc QcOps g (q (-1) 2) [3;2;0;4]%nat, [1;2]%nat)])
  = showCRow (obs Qc QcOps g (q 2 1) [2;0;1;3;4]%nat)
  /\ showQc (cnorm2 QcOps (cdotl QcOps (map g [2;0]%nat) (map g [2;0]%nat))) <> showQc (o0 QcOps).
Proof. split; [vm_compute; reflexivity | vm_compute; discriminate]. Qed.
