(* C05 - pLSCF recovers an exactly rational spectrum and reports its poles.
   Statements only: each theorem is closed by [exact] of a lemma of Proofs/P_plscf.v.

   What is proved (generic commutative ring / field-free: inverses enter only as two-sided inverse matrices given
   by hypothesis, kernels np.linalg.solve / eig / log as universally quantified results meeting their contract):
   - C05_companion_eigpairs : eigenpairs (z <> 0) of the matrix rmfd2ac builds <-> latent pairs of sum_i A_i z^i, the
     output matrix maps the eigenvector to B(z) v, the zero border adds the eigenvalue 0 on vectors killed by C;
   - C05_plscf_null  : exact right matrix fraction data annihilate both blocks of the normal equations, hence M alpha = 0;
   - C05_plscf_unique: on such data the model of pLSCF returns A_i A_0^-1 ("LO") / A_i A_n^-1 ("HI") and B_i A_fix^-1;
   - C05_resid_zero_exact : the same for ANY coefficients that pass the exact division-free residual check which the
     harness evaluates on the coefficients returned by the implementation;
   - C05_poles_table_shape, C05_cell_nan_iff, C05_border_cell_nan : layout and joint NaN pattern of the pole tables;
   - C05_gj_solver_contract : the executable Gauss-Jordan kernel used to run the model meets the solve contract;
   - C05_pole_count : COUNTING (carrier without zero divisors, decidable equality): when A(z) has p m latent pairs with
     pairwise different non-zero roots forming an invertible modal matrix, the (p+1) m values any full eigen-decomposition
     of the bordered companion returns are a Permutation of those p m roots plus m zeros - one pole per root, nothing else.
   - C05_modal_invertible, C05_pole_count_free (field with decidable equality; Base/Dim.v): the modal-matrix witness of
     C05_pole_count is PROVED (eigenvectors of pairwise different eigenvalues are independent, N independent vectors of K^N
     form a two-sided invertible matrix), and of the eigen-solver only eigen-columns with a LEFT inverse are required:
     p m latent pairs with pairwise different non-zero roots and non-zero vectors -> the returned values are a Permutation
     of those roots followed by m zeros;
   - C05_pole_count_free_real : the same for what the code does - solves and companion matrix in REAL arithmetic (formally
     real field), latent roots and eigen-decomposition over its complexification.
   What is NOT proved is collected in C05_full_statement (a Definition: it asserts nothing). *)
From Coq Require Import List Arith Lia Ring ZArith QArith Qcanon Bool Permutation.
From PyOMA.Base Require Import Carrier FMat Cplx EigCount Dim.
From PyOMA.Model Require Import M_plscf.
From PyOMA.Proofs Require Import P_plscf P_eigcount_c05 P_plscf_dim.
Import ListNotations.

Section S.
Variable R:Type. Variable K:Ops R.
Hypothesis Rth : ring_theory (o0 K) (o1 K) (oadd K) (omul K) (osub K) (oopp K) (@eq R).
Local Open Scope K_scope.
Notation "0" := (o0 K) : K_scope. Notation "1" := (o1 K) : K_scope.
Infix "*" := (omul K) : K_scope.

(* --- companion realisation (plscf.rmfd2ac) ------------------------------------------------------------- *)
Theorem C05_companion_eigpairs : forall (solve:solver R)
  (Hsolve:forall d c A B X, solve d c A B = POk X -> feq d c (fmul K d A X) B)
  (m p:nat) (Ad Bn:nat -> fmat R) (Ac Cc:fmat R),
  (0 < m)%nat -> (1 <= p)%nat ->
  rmfd2ac K solve m p Ad Bn = POk (Ac, Cc) ->
  let N := (S p * m)%nat in
  (forall z zi, z * zi = 1 ->
     (forall v ApInv, feq m m (fmul K m ApInv (Ad p)) (fid K) ->
        feq m 1 (polymat_apply K m p Ad z v) (fzero K) ->
        feq N 1 (fmul K N Ac (geo_vec K m p z zi v)) (fscal K z (geo_vec K m p z zi v)) /\
        forall l, feq l 1 (fmul K N Cc (geo_vec K m p z zi v)) (polymat_apply K m p Bn z v)) /\
     (forall w, feq N 1 (fmul K N Ac w) (fscal K z w) ->
        let v := fun a c => w ((p-1)*m + a)%nat c in
        feq N 1 w (geo_vec K m p z zi v) /\ feq m 1 (polymat_apply K m p Ad z v) (fzero K))) /\
  (forall w q, (feq N q (fmul K N Ac w) (fzero K) <-> (forall J c, (J < p*m)%nat -> (c < q)%nat -> w J c = 0)) /\
               ((forall J c, (J < p*m)%nat -> (c < q)%nat -> w J c = 0) -> forall l, feq l q (fmul K N Cc w) (fzero K))).
Proof. exact (companion_eigpairs R K Rth). Qed.

(* --- normal equations (plscf.pLSCF) --------------------------------------------------------------------- *)
(* exact data Sy_o(x_k) A(x_k) = B_o(x_k) on all lines, real coefficients, any basis-function table X[k,i]
   (the code's X[k,i] = Omega_k^i for either sign of the exponent is an instance) *)
Theorem C05_plscf_null : forall (Nf Nch Nref n:nat) (X:cmat R) (Sy:nat -> nat -> nat -> C R) (A B:nat -> fmat R),
  (forall o, (o < Nref)%nat -> rmfd_fit K Nf Nch n X (Sy o) A (beta_of B o)) ->
  forall Rinv, feq (S n) (S n) (fmul K (S n) Rinv (gR K Nf X)) (fid K) ->
  (forall o, (o < Nref)%nat ->
     feq (S n) Nch (fadd K (fmul K (S n) (gR K Nf X) (beta_of B o)) (fmul K (S n * Nch) (gS K Nf Nch X Sy o) (alpha_of Nch A))) (fzero K)) /\
  feq (S n * Nch) Nch
    (fsum K Nref (fun o => fadd K (fmul K (S n) (ftr (gS K Nf Nch X Sy o)) (beta_of B o))
                                 (fmul K (S n * Nch) (gT K Nf Nch X Sy o) (alpha_of Nch A)))) (fzero K) /\
  feq (S n * Nch) Nch (fmul K (S n * Nch) (gM K Nf Nch Nref n X Sy Rinv) (alpha_of Nch A)) (fzero K).
Proof. exact (plscf_null_model R K Rth). Qed.

Theorem C05_plscf_unique : forall (solve:solver R)
  (Hsolve:forall d c A B X, solve d c A B = POk X -> feq d c (fmul K d A X) B)
  (Nf Nch Nref n:nat) (X:cmat R) (Sy:nat -> nat -> nat -> C R) (A B:nat -> fmat R),
  (forall o, (o < Nref)%nat -> rmfd_fit K Nf Nch n X (Sy o) A (beta_of B o)) ->
  forall Rinv, feq (S n) (S n) (fmul K (S n) Rinv (gR K Nf X)) (fid K) ->
               feq (S n) (S n) (fmul K (S n) (gR K Nf X) Rinv) (fid K) ->
  forall (cs:constr) (W alpha:fmat R) (beta:nat -> fmat R),
  plscf_order K solve Nf Nch Nref n cs X Sy = POk (alpha, beta) ->
  feq (n * Nch) (n * Nch) (fmul K (n * Nch) W (fblock (free_off Nch cs) (free_off Nch cs) (gM K Nf Nch Nref n X Sy Rinv))) (fid K) ->
  let Afix := fblock (fixed_off Nch n cs) 0 (alpha_of Nch A) in
  feq Nch Nch (fblock (fixed_off Nch n cs) 0 alpha) (fid K) /\
  feq (S n * Nch) Nch (fmul K Nch alpha Afix) (alpha_of Nch A) /\
  (forall o, (o < Nref)%nat -> feq (S n) Nch (fmul K Nch (beta o) Afix) (beta_of B o)).
Proof. exact (plscf_exact R K Rth). Qed.

Theorem C05_resid_zero_exact : forall (Nf Nch Nref n:nat) (X:cmat R) (Sy:nat -> nat -> nat -> C R) (A B:nat -> fmat R),
  (forall o, (o < Nref)%nat -> rmfd_fit K Nf Nch n X (Sy o) A (beta_of B o)) ->
  forall Rinv, feq (S n) (S n) (fmul K (S n) Rinv (gR K Nf X)) (fid K) ->
  forall (cs:constr) (W alpha:fmat R) (beta E1:nat -> fmat R) (E2:fmat R),
  plscf_resid_fast K Nf Nch Nref n X Sy alpha beta = (E1, E2) ->
  (forall o, (o < Nref)%nat -> feq (S n) Nch (E1 o) (fzero K)) ->
  feq (n * Nch) Nch (fblock (free_off Nch cs) 0 E2) (fzero K) ->
  feq Nch Nch (fblock (fixed_off Nch n cs) 0 alpha) (fid K) ->
  feq (n * Nch) (n * Nch) (fmul K (n * Nch) W (fblock (free_off Nch cs) (free_off Nch cs) (gM K Nf Nch Nref n X Sy Rinv))) (fid K) ->
  let Afix := fblock (fixed_off Nch n cs) 0 (alpha_of Nch A) in
  feq (S n * Nch) Nch (fmul K Nch alpha Afix) (alpha_of Nch A) /\
  (forall o, (o < Nref)%nat -> feq (S n) Nch (fmul K Nch (beta o) Afix) (beta_of B o)).
Proof. exact (resid_zero_exact R K Rth). Qed.

(* --- pole tables (plscf.ac2mp_poly, plscf.pLSCF_poles) --------------------------------------------------- *)
Theorem C05_poles_table_shape : forall (gt0:R -> bool) (ltb:R -> R -> bool) (eqz:R -> bool) (Nref:nat) (shift:R)
  (Nch ordmax:nat) (cis:list (colin R)) TF TX TP TL,
  length cis = ordmax -> (1 <= ordmax)%nat ->
  (forall k, (k < ordmax)%nat -> length (snd (nth k cis (dcol K))) = ((k+2)*Nch)%nat) ->
  poles_tables K gt0 ltb eqz Nref shift cis = (TF, TX, TP, TL) ->
  let rows := ((ordmax+1)*Nch)%nat in
  (length TF = rows /\ length TX = rows /\ length TP = rows /\ length TL = rows) /\
  (forall r, (r < rows)%nat -> length (nth r TF []) = ordmax /\ length (nth r TX []) = ordmax /\
                               length (nth r TP []) = ordmax /\ length (nth r TL []) = ordmax) /\
  forall r k, (r < rows)%nat -> (k < ordmax)%nat ->
    let ci := nth k cis (dcol K) in
    ((r < (k+2)*Nch)%nat ->
       let cl := nth r (snd ci) (dcell K) in
       tget TF r k = fn_cell K gt0 shift cl /\ tget TX r k = xi_cell K gt0 eqz shift cl /\
       tget TL r k = lam_cell K gt0 shift cl /\
       tget TP r k = phi_cell K gt0 ltb eqz Nref (length (snd ci)) (fst ci) cl) /\
    (((k+2)*Nch <= r)%nat ->
       tget TF r k = None /\ tget TX r k = None /\ tget TL r k = None /\ tget TP r k = None).
Proof. exact (poles_table_shape R K). Qed.

Theorem C05_cell_nan_iff : forall gt0 ltb eqz (eqz_spec:forall x, eqz x = true <-> x = 0) Nref shift N Cm (cl:cell R),
  (cell_L cl = None <-> cell_z cl = c0 K) ->
  let good := cell_z cl <> c0 K /\ exists l, cell_L cl = Some l /\ gt0 (cre l) = false in
  (fn_cell K gt0 shift cl <> None <-> good) /\
  (lam_cell K gt0 shift cl <> None <-> good) /\
  (xi_cell K gt0 eqz shift cl <> None <-> good /\ exists l, lam_cell K gt0 shift cl = Some l /\ cnorm2 K l <> 0) /\
  (cell_L cl <> None -> phi_cell K gt0 ltb eqz Nref N Cm cl <> None -> good) /\
  (forall l, cell_L cl = Some l -> gt0 (cre l) = false ->
     lam_cell K gt0 shift cl = Some (cadd K l (cofR K shift)) /\
     fn_cell K gt0 shift cl = Some (cnorm2 K (cadd K l (cofR K shift)))).
Proof. exact (cell_nan_iff R K). Qed.

Theorem C05_border_cell_nan : forall gt0 ltb eqz (eqz_spec:forall x, eqz x = true <-> x = 0) Nref shift
  (m p:nat) (P Bn:nat -> fmat R) (Hm:(0 < m)%nat) (Hp:(1 <= p)%nat) (cl:cell R),
  cell_L cl = None ->
  feq (S p * m) 1 (fmul K (S p * m) (comp_mat K m p P) (fun J _ => cre (nth J (cell_q cl) (c0 K)))) (fzero K) ->
  feq (S p * m) 1 (fmul K (S p * m) (comp_mat K m p P) (fun J _ => cim (nth J (cell_q cl) (c0 K)))) (fzero K) ->
  fn_cell K gt0 shift cl = None /\ xi_cell K gt0 eqz shift cl = None /\ lam_cell K gt0 shift cl = None /\
  phi_cell K gt0 ltb eqz Nref (S p * m) (out_mat K m p Bn P) cl = None.
Proof. exact (border_cell_nan R K Rth). Qed.

Theorem C05_gj_solver_contract : forall eqz (eqz_sound:forall x, eqz x = true -> x = 0) d c A B X,
  gj_solver K eqz d c A B = POk X -> feq d c (fmul K d A X) B.
Proof. exact (gj_solver_contract R K Rth). Qed.
End S.

(* --- counting the poles (plscf.rmfd2ac + np.linalg.eig) ------------------------------------------------------
   Carrier: commutative ring without zero divisors, 1 <> 0, decidable equality (every field with decidable equality;
   complexify with EigCount.cplx_integral for complex roots).  m = Nch, p = n, N = (n+1) Nch.
   Hypotheses: A_p left-invertible; p m latent pairs (z_j, v_j) of A(z) = sum_i A_i z^i with z_j zi_j = 1 (non-zero roots),
   pairwise different; the modal matrix [geo_vec z_0 v_0 | .. | geo_vec z_{pm-1} v_{pm-1} | e_pm .. e_{N-1}] two-sided
   invertible (witness Phii); eigen-solver contract Ac V = V diag(d), W V = I, V W = I.
   Conclusion: [d_0 .. d_{N-1}] is a Permutation of [z_0 .. z_{pm-1}] ++ m zeros; the non-zero returned values are a
   Permutation of the latent roots and exactly m returned values are zero (the NaN cells of C05_border_cell_nan); every
   column of V with a non-zero value is a non-zero multiple of geo_vec z_j v_j and Cc maps it to that multiple of B(z_j) v_j. *)
Section CP.
Variable R:Type. Variable K:Ops R.
Hypothesis Rth : ring_theory (o0 K) (o1 K) (oadd K) (omul K) (osub K) (oopp K) (@eq R).
Hypothesis Hint : forall a b:R, omul K a b = o0 K -> a = o0 K \/ b = o0 K.
Hypothesis H10 : o1 K <> o0 K.
Hypothesis Rdec : forall x y:R, {x = y} + {x <> y}.

Theorem C05_pole_count : forall (solve:solver R)
  (Hsolve:forall d c A B X, solve d c A B = POk X -> feq d c (fmul K d A X) B)
  (m p:nat) (Ad Bn:nat -> fmat R) (Ac Cc:fmat R),
  (0 < m)%nat -> (1 <= p)%nat ->
  rmfd2ac K solve m p Ad Bn = POk (Ac, Cc) ->
  let N := (S p * m)%nat in
  forall (z zi:nat -> R) (v:nat -> fmat R) (ApInv:fmat R),
  feq m m (fmul K m ApInv (Ad p)) (fid K) ->
  (forall j, (j < p*m)%nat -> omul K (z j) (zi j) = o1 K /\ feq m 1 (polymat_apply K m p Ad (z j) (v j)) (fzero K)) ->
  (forall i j, (i < p*m)%nat -> (j < p*m)%nat -> i <> j -> z i <> z j) ->
  forall (Phii V W:fmat R) (d:nat -> R),
  feq N N (fmul K N (comp_modal R K m p z zi v) Phii) (fid K) ->
  feq N N (fmul K N Phii (comp_modal R K m p z zi v)) (fid K) ->
  feq N N (fmul K N Ac V) (fmul K N V (ediag K d)) ->
  feq N N (fmul K N W V) (fid K) -> feq N N (fmul K N V W) (fid K) ->
  Permutation (tab N d) (tab (p*m) z ++ repeat (o0 K) m) /\
  (forall eqz:R -> bool, (forall x, eqz x = true <-> x = o0 K) ->
     Permutation (filter (fun x => negb (eqz x)) (tab N d)) (tab (p*m) z) /\ length (filter eqz (tab N d)) = m) /\
  exists (sg:nat -> nat) (c:nat -> R),
    (forall k, (k < N)%nat -> (sg k < N)%nat) /\
    (forall k k', (k < N)%nat -> (k' < N)%nat -> (sg k < p*m)%nat -> sg k = sg k' -> k = k') /\
    (forall j, (j < p*m)%nat -> exists k, (k < N)%nat /\ sg k = j) /\
    (forall k, (k < N)%nat -> (sg k < p*m)%nat ->
       d k = z (sg k) /\ c k <> o0 K /\
       (forall a, (a < N)%nat -> V a k = omul K (geo_vec K m p (z (sg k)) (zi (sg k)) (v (sg k)) a 0%nat) (c k)) /\
       (forall l r, (r < l)%nat -> fmul K N Cc V r k = omul K (polymat_apply K m p Bn (z (sg k)) (v (sg k)) r 0%nat) (c k))) /\
    (forall k, (k < N)%nat -> (p*m <= sg k)%nat -> d k = o0 K).
Proof.
  intros solve Hsolve m p Ad Bn Ac Cc Hm Hp E N z zi v ApInv Hinv Hroots Hdist Phii V W d.
  exact (companion_pole_count R K Rth Hint H10 Rdec solve Hsolve m p Ad Bn Ac Cc Hm Hp E z zi v ApInv Hinv Hroots Hdist Phii V W d).
Qed.
End CP.

(* --- counting the poles without the modal-matrix witness (Base/Dim.v) -------------------------------------------
   Carrier: a field with decidable equality (Qc; classically the reals; the complexification of a formally real field by
   Dim.cplx_field_theory + EigCount.cplx_dec).
   C05_modal_invertible: the witness Phii of C05_pole_count exists whenever the latent vectors are non-zero.
   C05_pole_count_free: hypotheses = A_p left-invertible; p m latent pairs (z_j, v_j) with z_j <> 0, v_j <> 0 on the window,
   A(z_j) v_j = 0, pairwise different roots; the eigen-solver returned eigen-columns Ac V = V diag(d) and V has a LEFT
   inverse W (independent columns; the right inverse follows from Dim.left_inv_is_right_inv).  Conclusion as C05_pole_count. *)
Section CF.
Variable R:Type. Variable K:Ops R.
Hypothesis Fth : field_theory (o0 K) (o1 K) (oadd K) (omul K) (osub K) (oopp K) (odiv K) (oinv K) (@eq R).
Hypothesis Rdec : forall x y:R, {x = y} + {x <> y}.

Theorem C05_modal_invertible : forall (solve:solver R)
  (Hsolve:forall d c A B X, solve d c A B = POk X -> feq d c (fmul K d A X) B)
  (m p:nat) (Ad Bn:nat -> fmat R) (Ac Cc:fmat R),
  (0 < m)%nat -> (1 <= p)%nat ->
  rmfd2ac K solve m p Ad Bn = POk (Ac, Cc) ->
  forall (z zi:nat -> R) (v:nat -> fmat R) (ApInv:fmat R),
  feq m m (fmul K m ApInv (Ad p)) (fid K) ->
  (forall j, (j < p*m)%nat -> omul K (z j) (zi j) = o1 K /\ feq m 1 (polymat_apply K m p Ad (z j) (v j)) (fzero K)) ->
  (forall i j, (i < p*m)%nat -> (j < p*m)%nat -> i <> j -> z i <> z j) ->
  (forall j, (j < p*m)%nat -> ~ feq m 1 (v j) (fzero K)) ->
  exists Phii:fmat R,
    feq (S p * m) (S p * m) (fmul K (S p * m) (comp_modal R K m p z zi v) Phii) (fid K) /\
    feq (S p * m) (S p * m) (fmul K (S p * m) Phii (comp_modal R K m p z zi v)) (fid K).
Proof. exact (comp_modal_invertible R K Fth Rdec). Qed.

Theorem C05_pole_count_free : forall (solve:solver R)
  (Hsolve:forall d c A B X, solve d c A B = POk X -> feq d c (fmul K d A X) B)
  (m p:nat) (Ad Bn:nat -> fmat R) (Ac Cc:fmat R),
  (0 < m)%nat -> (1 <= p)%nat ->
  rmfd2ac K solve m p Ad Bn = POk (Ac, Cc) ->
  let N := (S p * m)%nat in
  forall (z:nat -> R) (v:nat -> fmat R) (ApInv:fmat R),
  feq m m (fmul K m ApInv (Ad p)) (fid K) ->
  (forall j, (j < p*m)%nat -> z j <> o0 K /\ ~ feq m 1 (v j) (fzero K) /\
                              feq m 1 (polymat_apply K m p Ad (z j) (v j)) (fzero K)) ->
  (forall i j, (i < p*m)%nat -> (j < p*m)%nat -> i <> j -> z i <> z j) ->
  forall (V W:fmat R) (d:nat -> R),
  feq N N (fmul K N Ac V) (fmul K N V (ediag K d)) ->
  feq N N (fmul K N W V) (fid K) ->
  Permutation (tab N d) (tab (p*m) z ++ repeat (o0 K) m) /\
  (forall eqz:R -> bool, (forall x, eqz x = true <-> x = o0 K) ->
     Permutation (filter (fun x => negb (eqz x)) (tab N d)) (tab (p*m) z) /\ length (filter eqz (tab N d)) = m) /\
  exists (sg:nat -> nat) (c:nat -> R),
    (forall k, (k < N)%nat -> (sg k < N)%nat) /\
    (forall k k', (k < N)%nat -> (k' < N)%nat -> (sg k < p*m)%nat -> sg k = sg k' -> k = k') /\
    (forall j, (j < p*m)%nat -> exists k, (k < N)%nat /\ sg k = j) /\
    (forall k, (k < N)%nat -> (sg k < p*m)%nat ->
       d k = z (sg k) /\ c k <> o0 K /\
       (forall a, (a < N)%nat -> V a k = omul K (geo_vec K m p (z (sg k)) (oinv K (z (sg k))) (v (sg k)) a 0%nat) (c k)) /\
       (forall l r, (r < l)%nat -> fmul K N Cc V r k = omul K (polymat_apply K m p Bn (z (sg k)) (v (sg k)) r 0%nat) (c k))) /\
    (forall k, (k < N)%nat -> (p*m <= sg k)%nat -> d k = o0 K).
Proof. exact (companion_pole_count_free_nz R K Fth Rdec). Qed.

(* What the code does: np.linalg.solve and the companion matrix in REAL arithmetic, np.linalg.eig over the complex numbers.
   K formally real (a^2 + b^2 = 0 -> a = 0: Qc, the reals), KC = COps K its complexification, cofm = entrywise embedding.
   The latent pairs (z_j, v_j) are complex, the polynomial matrix has the real coefficients handed to rmfd2ac. *)
Hypothesis Hreal : forall a b:R, oadd K (omul K a a) (omul K b b) = o0 K -> a = o0 K.

Theorem C05_pole_count_free_real : forall (solve:solver R)
  (Hsolve:forall d c A B X, solve d c A B = POk X -> feq d c (fmul K d A X) B)
  (m p:nat) (Ad Bn:nat -> fmat R) (Ac Cc:fmat R),
  (0 < m)%nat -> (1 <= p)%nat ->
  rmfd2ac K solve m p Ad Bn = POk (Ac, Cc) ->
  let N := (S p * m)%nat in
  let KC := COps K in
  let AdC := fun i => cofm K (Ad i) in
  let BnC := fun i => cofm K (Bn i) in
  forall (z:nat -> C R) (v:nat -> fmat (C R)) (ApInv:fmat R),
  feq m m (fmul K m ApInv (Ad p)) (fid K) ->
  (forall j, (j < p*m)%nat -> z j <> c0 K /\ ~ feq m 1 (v j) (fzero KC) /\
                              feq m 1 (polymat_apply KC m p AdC (z j) (v j)) (fzero KC)) ->
  (forall i j, (i < p*m)%nat -> (j < p*m)%nat -> i <> j -> z i <> z j) ->
  forall (V W:fmat (C R)) (d:nat -> C R),
  feq N N (fmul KC N (cofm K Ac) V) (fmul KC N V (ediag KC d)) ->
  feq N N (fmul KC N W V) (fid KC) ->
  Permutation (tab N d) (tab (p*m) z ++ repeat (c0 K) m) /\
  (forall eqz:C R -> bool, (forall x, eqz x = true <-> x = c0 K) ->
     Permutation (filter (fun x => negb (eqz x)) (tab N d)) (tab (p*m) z) /\ length (filter eqz (tab N d)) = m) /\
  exists (sg:nat -> nat) (c:nat -> C R),
    (forall k, (k < N)%nat -> (sg k < N)%nat) /\
    (forall k k', (k < N)%nat -> (k' < N)%nat -> (sg k < p*m)%nat -> sg k = sg k' -> k = k') /\
    (forall j, (j < p*m)%nat -> exists k, (k < N)%nat /\ sg k = j) /\
    (forall k, (k < N)%nat -> (sg k < p*m)%nat ->
       d k = z (sg k) /\ c k <> c0 K /\
       (forall a, (a < N)%nat -> V a k = cmul K (geo_vec KC m p (z (sg k)) (cinv K (z (sg k))) (v (sg k)) a 0%nat) (c k)) /\
       (forall l r, (r < l)%nat ->
          fmul KC N (cofm K Cc) V r k = cmul K (polymat_apply KC m p BnC (z (sg k)) (v (sg k)) r 0%nat) (c k))) /\
    (forall k, (k < N)%nat -> (p*m <= sg k)%nat -> d k = c0 K).
Proof. exact (companion_pole_count_real R K Fth Rdec Hreal). Qed.
End CF.

(* The whole property, including what the theorems above take as hypotheses.  A Definition: asserts nothing.
   Counting with multiplicity is C05_pole_count_free / C05_pole_count_free_real.  PROVED there (no longer hypotheses): that
   the block-geometric vectors of the latent pairs together with the border basis form a two-sided invertible matrix
   (C05_modal_invertible: independence of eigenvectors for different eigenvalues + "N independent vectors of K^N are a
   two-sided invertible matrix", Base/Dim.v), and the right inverse of the eigenvector matrix np.linalg.eig returns (only
   a left inverse = independent columns is assumed; the bordered companion is then diagonalisable, so such a matrix exists).
   What is still missing for a proof of the statement below, precisely:
   (1) EXISTENCE of the latent pairs: that det A(z) = 0 has p m = n Nch roots over the complex numbers, each with a non-zero
       latent vector - the fundamental theorem of algebra for the matrix polynomial A(z) (no carrier here is algebraically
       closed) - and that they are pairwise different and non-zero (a genericity condition on A; repeated roots, i.e. Jordan
       blocks / counting with multiplicity > 1, and a singular A_0 are not covered); A_p left-invertible is a hypothesis
       (it holds for the "HI" constraint A_n = I and whenever np.linalg.solve succeeds exactly);
   (2) that Ro and the constrained block of M are invertible for >= 4(n+1) distinct lines on the unit circle and
       "well-conditioned" A, B (taken as hypotheses Rinv, W in C05_plscf_unique / C05_resid_zero_exact);
   (3) the transcendental map z -> log z / dt, |.|, the sign test Re(log z) <= 0, and IEEE rounding of LAPACK (the
       eigen-solver contract Ac V = V diag(d) with independent columns is exact arithmetic). *)
Definition C05_full_statement : Prop :=
  forall (R:Type) (K:Ops R) (solve:solver R) (eig:nat -> fmat R -> list (C R * list (C R))) (clogdt:C R -> option (C R))
         (gt0:R -> bool) (ltb:R -> R -> bool) (eqz:R -> bool) (Nf Nch Nref n:nat) (cs:constr) (X:cmat R)
         (Sy:nat -> nat -> nat -> C R) (A B:nat -> fmat R),
  (forall o, (o < Nref)%nat -> rmfd_fit K Nf Nch n X (Sy o) A (beta_of B o)) ->
  exists alpha beta Ac Cc,
    plscf_order K solve Nf Nch Nref n cs X Sy = POk (alpha, beta) /\
    rmfd2ac K solve Nch n (blocks_of Nch alpha) (fun i o c => beta o i c) = POk (Ac, Cc) /\
    let cells := map (fun zq => (fst zq, clogdt (fst zq), snd zq)) (eig (S n * Nch)%nat Ac) in
    length cells = (S n * Nch)%nat /\
    (* exactly one kept cell per root z <> 0 of det A(z) with Re(log z) <= 0, counted with multiplicity *)
    forall z:C R, z <> c0 K ->
      length (filter (fun cl => match lam_cell K gt0 (o0 K) cl with Some _ => true | None => false end)
                     (filter (fun cl => eqz (cnorm2 K (csub K (cell_z cl) z))) cells))
      = length (filter (fun zq => eqz (cnorm2 K (csub K (fst zq) z))) (eig (n * Nch)%nat (fun i j => Ac i j))).

Theorem C05_plscf_exact_partial : forall (R:Type) (K:Ops R)
  (Rth:ring_theory (o0 K) (o1 K) (oadd K) (omul K) (osub K) (oopp K) (@eq R)) (solve:solver R)
  (Hsolve:forall d c A B X, solve d c A B = POk X -> feq d c (fmul K d A X) B)
  (Nf Nch Nref n:nat) (X:cmat R) (Sy:nat -> nat -> nat -> C R) (A B:nat -> fmat R),
  (forall o, (o < Nref)%nat -> rmfd_fit K Nf Nch n X (Sy o) A (beta_of B o)) ->
  forall Rinv, feq (S n) (S n) (fmul K (S n) Rinv (gR K Nf X)) (fid K) ->
               feq (S n) (S n) (fmul K (S n) (gR K Nf X) Rinv) (fid K) ->
  forall (cs:constr) (W alpha:fmat R) (beta:nat -> fmat R),
  plscf_order K solve Nf Nch Nref n cs X Sy = POk (alpha, beta) ->
  feq (n * Nch) (n * Nch) (fmul K (n * Nch) W (fblock (free_off Nch cs) (free_off Nch cs) (gM K Nf Nch Nref n X Sy Rinv))) (fid K) ->
  feq (S n * Nch) Nch (fmul K Nch alpha (fblock (fixed_off Nch n cs) 0 (alpha_of Nch A))) (alpha_of Nch A).
Proof. intros R K Rth solve Hsolve Nf Nch Nref n X Sy A B Hfit Rinv Hl Hr cs W alpha beta E HW.
  exact (proj1 (proj2 (plscf_exact R K Rth solve Hsolve Nf Nch Nref n X Sy A B Hfit Rinv Hl Hr cs W alpha beta E HW))). Qed.

Print Assumptions C05_companion_eigpairs.
Print Assumptions C05_plscf_null.
Print Assumptions C05_plscf_unique.
Print Assumptions C05_resid_zero_exact.
Print Assumptions C05_poles_table_shape.
Print Assumptions C05_cell_nan_iff.
Print Assumptions C05_border_cell_nan.
Print Assumptions C05_gj_solver_contract.
Print Assumptions C05_plscf_exact_partial.
Print Assumptions C05_pole_count.
Print Assumptions C05_modal_invertible.
Print Assumptions C05_pole_count_free.
Print Assumptions C05_pole_count_free_real.

From Coq Require Import String.
From PyOMA.Base Require Import Show.
(* non-vacuity: Nch = 2, Nref = 1, n = 1, five lines on the unit circle (1, i, -1, (3+4i)/5, (5-12i)/13),
   A_0 = [[1,1],[0,3]], A_1 = [[2,0],[1,1]], B_0 = [1,2], B_1 = [0,-1]; Sy = B A^-1 exactly (Gaussian rationals).
   The executable model (Gauss-Jordan over Qc: Ro and the constrained block are invertible here) returns
   A_i A_0^-1, B_i A_0^-1 for "LO" and A_i A_1^-1, B_i A_1^-1 for "HI". *)
Definition ex_X : list (list (Qc*Qc)) := [[((q (1) 1), (q (0) 1)); ((q (1) 1), (q (0) 1))]; [((q (1) 1), (q (0) 1)); ((q (0) 1), (q (1) 1))]; [((q (1) 1), (q (0) 1)); ((q (-1) 1), (q (0) 1))]; [((q (1) 1), (q (0) 1)); ((q (3) 5), (q (4) 5))]; [((q (1) 1), (q (0) 1)); ((q (5) 13), (q (-12) 13))]].
Definition ex_Sy : list (list (list (Qc*Qc))) := [[[((q (3) 11), (q (0) 1)); ((q (-4) 37), (q (-13) 37)); ((q (-5) 1), (q (0) 1)); ((q (347) 2041), (q (-332) 2041)); ((q (1009) 10753), (q (2388) 10753))]; [((q (2) 11), (q (0) 1)); ((q (21) 37), (q (-15) 37)); ((q (4) 1), (q (0) 1)); ((q (588) 2041), (q (-492) 2041)); ((q (3934) 10753), (q (3300) 10753))]]].

Open Scope string_scope.
Example C05_example_recovery :
  show_plscf (plscf_l 5 2 1 1 LO ex_X ex_Sy) = "ok|1/1 0/1;0/1 1/1;2/1 -2/3;1/1 0/1|1/1 1/3;0/1 -1/3" /\
  show_plscf (plscf_l 5 2 1 1 HI ex_X ex_Sy) = "ok|0/1 1/1;-3/2 3/1;1/1 0/1;0/1 1/1|-1/2 2/1;1/2 -1/1".
Proof. vm_compute. split; reflexivity. Qed.

(* A(z) = A_0 + z I with A_0 = -[[1/2,1],[0,1/3]]: root z = 1/2 with v = (1,0); bordered companion (4 x 4),
   block-geometric vector (v ; z^-1 v) = (1,0,2,0) is an eigenvector for 1/2 and C maps it to B(1/2) v = 1 *)
Definition exA : list (list (list Qc)) := [[[q (-1) 2; q (-1) 1];[q 0 1; q (-1) 3]]; [[q 1 1; q 0 1];[q 0 1; q 1 1]]].
Definition exB : list (list (list Qc)) := [[[q 1 1; q 2 1]]; [[q 0 1; q (-1) 1]]].
Example C05_example_companion :
  show_rmfd (rmfd2ac_l 2 1 1 exA exB) = "ok|1/2 1/1 0/1 0/1;0/1 1/3 0/1 0/1;1/1 0/1 0/1 0/1;0/1 1/1 0/1 0/1|1/1 5/3 0/1 0/1" /\
  match rmfd2ac_l 2 1 1 exA exB with
  | POk (Ac, Cc) => showMat (mmul QcOps 4 4 1 Ac [[q 1 1];[q 0 1];[q 2 1];[q 0 1]]) ++ "|" ++ showMat (mmul QcOps 1 4 1 Cc [[q 1 1];[q 0 1];[q 2 1];[q 0 1]])
  | PLinAlgErr => "err" end = "1/2;0/1;1/1;0/1|1/1".
Proof. vm_compute. split; reflexivity. Qed.

(* pole tables: order 1 holds one cell, order 2 four cells (kept; eigenvalue 0; positive real part; kept):
   joint NaN pattern in the four tables, NaN padding below the cells of the shorter column, window correction shift = 1/4 added;
   printed "<numerator>p<k>" = numerator / 2^k *)
Definition ex_cells : list (cell Qc) :=
  [ ((q 1 2, q 0 1), Some (q (-1) 1, q 0 1), [(q 1 1, q 0 1); (q 0 1, q 0 1); (q 2 1, q 0 1); (q 0 1, q 0 1)]);
    ((q 0 1, q 0 1), None, [(q 0 1, q 0 1); (q 0 1, q 0 1); (q 1 1, q 0 1); (q 0 1, q 0 1)]);
    ((q 2 1, q 0 1), Some (q 1 1, q 0 1), [(q 1 1, q 0 1); (q 1 1, q 0 1); (q 1 2, q 0 1); (q 1 2, q 0 1)]);
    ((q 0 1, q 1 1), Some (q 0 1, q 3 2), [(q 1 1, q 1 1); (q 0 1, q 2 1); (q 1 1, q (-1) 1); (q 2 1, q 0 1)]) ].
Example C05_example_tables :
  show_poles (poles_l 1 (q 1 4) [([[q 1 1; q 2 1; q 0 1; q 0 1]], [nth 0 ex_cells ((q 0 1, q 0 1), None, [])]);
                                 ([[q 1 1; q 2 1; q 0 1; q 0 1]], ex_cells)])
  = "9p4 9p4;nan nan;nan nan;nan 37p4|3p2,9p4 3p2,9p4;nan nan;nan nan;nan -1p2,37p4|1p0,0p0@1p0,0p0 1p0,0p0@1p0,0p0;nan nan;nan nan;nan 1p0,5p0@1p0,5p0|-3p2,0p0 -3p2,0p0;nan nan;nan nan;nan 1p2,3p1".
Proof. vm_compute. reflexivity. Qed.

(* pole count: the companion example above (roots 1/2 and 1/3 of det A(z), m = 2, p = 1, N = 4) meets every hypothesis of
   C05_pole_count, with a solver output that lists the values as (0, 1/3, 0, 1/2) and mixed / rescaled eigenvectors;
   the carrier hypotheses hold at Qc *)
Example C05_example_pole_count :
  rmfd2ac QcOps qsolver 2 1 ec5_Ad ec5_Bn = POk (ec5_Ac, ec5_Cc) /\
  feq 2 2 (fmul QcOps 2 ec5_ApInv (ec5_Ad 1%nat)) (fid QcOps) /\
  (forall j, (j < 1 * 2)%nat -> omul QcOps (ec5_z j) (ec5_zi j) = o1 QcOps /\
                                feq 2 1 (polymat_apply QcOps 2 1 ec5_Ad (ec5_z j) (ec5_v j)) (fzero QcOps)) /\
  (forall i j, (i < 1 * 2)%nat -> (j < 1 * 2)%nat -> i <> j -> ec5_z i <> ec5_z j) /\
  feq 4 4 (fmul QcOps 4 (comp_modal Qc QcOps 2 1 ec5_z ec5_zi ec5_v) ec5_Phii) (fid QcOps) /\
  feq 4 4 (fmul QcOps 4 ec5_Phii (comp_modal Qc QcOps 2 1 ec5_z ec5_zi ec5_v)) (fid QcOps) /\
  feq 4 4 (fmul QcOps 4 ec5_Ac ec5_V) (fmul QcOps 4 ec5_V (ediag QcOps ec5_d)) /\
  feq 4 4 (fmul QcOps 4 ec5_W ec5_V) (fid QcOps) /\ feq 4 4 (fmul QcOps 4 ec5_V ec5_W) (fid QcOps) /\
  tab 4 ec5_d = [o0 QcOps; ec5_z 1%nat; o0 QcOps; ec5_z 0%nat].
Proof. exact ec5_hyps. Qed.
Example C05_example_carrier :
  (forall a b:Qc, omul QcOps a b = o0 QcOps -> a = o0 QcOps \/ b = o0 QcOps) /\ o1 QcOps <> o0 QcOps.
Proof. exact (conj qc_integral qc_one_neq_zero). Qed.

(* C05_pole_count_free on the same data: the carrier is a field with decidable equality; the roots and the latent vectors are
   non-zero; of the solver output only the eigen-columns and the LEFT inverse are used; the theorem then yields the pole list *)
Example C05_example_field :
  field_theory (o0 QcOps) (o1 QcOps) (oadd QcOps) (omul QcOps) (osub QcOps) (oopp QcOps) (odiv QcOps) (oinv QcOps) (@eq Qc) /\
  (forall a b:Qc, oadd QcOps (omul QcOps a a) (omul QcOps b b) = o0 QcOps -> a = o0 QcOps).
Proof. exact (conj QcFth qc_formally_real). Qed.
Example C05_example_pole_count_free :
  rmfd2ac QcOps qsolver 2 1 ec5_Ad ec5_Bn = POk (ec5_Ac, ec5_Cc) /\
  feq 2 2 (fmul QcOps 2 ec5_ApInv (ec5_Ad 1%nat)) (fid QcOps) /\
  (forall j, (j < 1 * 2)%nat -> ec5_z j <> o0 QcOps /\ ~ feq 2 1 (ec5_v j) (fzero QcOps) /\
                                feq 2 1 (polymat_apply QcOps 2 1 ec5_Ad (ec5_z j) (ec5_v j)) (fzero QcOps)) /\
  (forall i j, (i < 1 * 2)%nat -> (j < 1 * 2)%nat -> i <> j -> ec5_z i <> ec5_z j) /\
  feq 4 4 (fmul QcOps 4 ec5_Ac ec5_V) (fmul QcOps 4 ec5_V (ediag QcOps ec5_d)) /\
  feq 4 4 (fmul QcOps 4 ec5_W ec5_V) (fid QcOps).
Proof. exact ec5_free_hyps. Qed.
Example C05_example_pole_count_free_result :
  Permutation (tab 4 ec5_d) (tab 2 ec5_z ++ repeat (o0 QcOps) 2) /\
  tab 4 ec5_d = [o0 QcOps; ec5_z 1%nat; o0 QcOps; ec5_z 0%nat].
Proof. exact ec5_free_conclusion. Qed.

(* C05_pole_count_free_real at the Gaussian rationals: REAL coefficients A(z) = [[2z^2-2z+1, z],[0, 6z^2-5z+1]] (m = 2, p = 2,
   N = 6), B_0 = [1,2], B_1 = [0,-1], B_2 = [1,0]; latent pairs ((1+i)/2, (1,0)), ((1-i)/2, (1,0)), (1/2, (1,-1)),
   (1/3, (3,-5)); the companion matrix is built by the real Gauss-Jordan model; the solver output lists the values as
   (0, (1-i)/2, 1/3, 0, (1+i)/2, 1/2) with eigenvectors rescaled by i, 2, 1+i, -1 and a mixed border block; its left inverse
   is computed by Gauss-Jordan over the Gaussian rationals *)
Example C05_example_pole_count_real :
  rmfd2ac QcOps qsolver 2 2 eg_Ad eg_Bn = POk (eg_Ac, eg_Cc) /\
  feq 2 2 (fmul QcOps 2 eg_ApInv (eg_Ad 2%nat)) (fid QcOps) /\
  (forall j, (j < 2 * 2)%nat -> eg_z j <> c0 QcOps /\ ~ feq 2 1 (eg_v j) (fzero (COps QcOps)) /\
     feq 2 1 (polymat_apply (COps QcOps) 2 2 (fun i => cofm QcOps (eg_Ad i)) (eg_z j) (eg_v j)) (fzero (COps QcOps))) /\
  (forall i j, (i < 2 * 2)%nat -> (j < 2 * 2)%nat -> i <> j -> eg_z i <> eg_z j) /\
  feq 6 6 (fmul (COps QcOps) 6 (cofm QcOps eg_Ac) eg_V) (fmul (COps QcOps) 6 eg_V (ediag (COps QcOps) eg_d)) /\
  feq 6 6 (fmul (COps QcOps) 6 eg_W eg_V) (fid (COps QcOps)).
Proof. exact eg_hyps. Qed.
Example C05_example_pole_count_real_result :
  Permutation (tab 6 eg_d) (tab 4 eg_z ++ repeat (c0 QcOps) 2) /\
  tab 6 eg_d = [c0 QcOps; eg_z 1%nat; eg_z 3%nat; c0 QcOps; eg_z 0%nat; eg_z 2%nat] /\
  tab 4 eg_z = [(q 1 2, q 1 2); (q 1 2, q (-1) 2); (q 1 2, q 0 1); (q 1 3, q 0 1)].
Proof. split; [exact (proj1 eg_conclusion)|split; [exact (proj2 eg_conclusion)|reflexivity]]. Qed.
