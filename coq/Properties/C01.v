(* C01 - SSI recovers exact modal parameters from noise-free free-vibration data.
   Statements only: each theorem is closed by [exact] of a lemma of Proofs/P_realise.v, P_modal.v, P_modal_R.v,
   P_eigcount_c01.v, P_realise_dim.v (witness-free spectrum / multiplicity, through Base/Dim.v), P_compose.v.
   Numerical kernels (SVD, QR, triangular inverse, pseudo-inverse, eigen-solver, complex log) appear only as
   universally quantified results constrained by their contracts. *)
From Coq Require Import String List Arith Lia Ring Field ZArith QArith Qcanon Reals Permutation.
From PyOMA.Base Require Import Carrier FMat Cplx Show EigCount Dim.
From PyOMA.Model Require Import M_hankel M_realise M_modal.
From PyOMA.Proofs Require Import P_realise P_modal P_modal_R P_eigcount_c01 P_realise_dim.
Import ListNotations.

Section S.
Variable R:Type. Variable K:Ops R.
Hypothesis Rth : ring_theory (o0 K) (o1 K) (oadd K) (omul K) (osub K) (oopp K) (@eq R).
Local Open Scope K_scope.
Notation "0" := (o0 K) : K_scope. Notation "1" := (o1 K) : K_scope.
Infix "*" := (omul K) : K_scope.

(* (1) free decay y_t = C A^t x0: the stacked future outputs of build_hank factor as observability x state sequence,
   block i of the observability factor being C A^i *)
Theorem C01_free_decay_factor : forall l n br N (C A:fmat R) x0, (0 < l)%nat ->
  feq (hank_rows l br) N (mm_Yf l br (free_decay K n C A x0))
      (fmul K n (obs_blk K l n C A) (state_seq K n (S br + 1) A x0)).
Proof. exact (free_decay_factor R K Rth). Qed.

(* (2) hence the moment-matrix Hankel of pyoma2 is an exact product O . Gamma *)
Theorem C01_hank_factor : forall invN l r n br Ndat (C A:fmat R) x0 (Yref:sig R), (0 < l)%nat ->
  feq (hank_rows l br) (hank_cols r br)
      (hank_mm K invN l r br Ndat (free_decay K n C A x0) Yref)
      (fmul K n (obs_blk K l n C A) (mm_Gamma R K invN n r br Ndat A x0 Yref)).
Proof. exact (hank_factor R K Rth). Qed.
(* ... and so is the data-driven one, from the LQ contract *)
Theorem C01_hank_dat_factor : forall a b T n (Yf L21 L22 Q1 Q2 Ob X:fmat R),
  feq b T Yf (fadd K (fmul K a L21 (ftr Q1)) (fmul K b L22 (ftr Q2))) ->
  feq a a (fmul K T (ftr Q1) Q1) (fid K) ->
  feq b a (fmul K T (ftr Q2) Q1) (fzero K) ->
  feq b T Yf (fmul K n Ob X) ->
  feq b a L21 (fmul K n Ob (fmul K T X Q1)).
Proof. exact (hank_dat_factor R K Rth). Qed.

(* (3) the observability matrix has the block shift structure and starts with C *)
Theorem C01_obs_shift : forall l n pr (C A:fmat R), (0 < l)%nat ->
  feq pr n (rows_dn l (obs_blk K l n C A)) (fmul K n (obs_blk K l n C A) A).
Proof. exact (obs_blk_shift R K Rth). Qed.

(* (4) SVD contract + exact rank-n factorisation: Obs[:, :n] = U[:, :n] diag(sqrt sigma) is O . T with T, Ti two-sided inverses *)
Theorem C01_svd_basis : forall M N k n (H U V Ob Gam OL GR:fmat R) (sg sq sqi:nat->R), (n <= k)%nat ->
  feq M N H (fmul K k U (fmul K k (fdiag K sg) (ftr V))) ->
  feq k k (fmul K M (ftr U) U) (fid K) ->
  feq k k (fmul K N (ftr V) V) (fid K) ->
  (forall j, (n <= j < k)%nat -> sg j = 0) ->
  (forall j, (j < n)%nat -> sq j * sq j = sg j /\ sq j * sqi j = 1) ->
  feq M N H (fmul K n Ob Gam) -> feq n n (fmul K M OL Ob) (fid K) -> feq n n (fmul K N Gam GR) (fid K) ->
  let T := svd_T R K N n V (fdiag K sqi) Gam in
  let Ti := svd_Ti R K M n U (fdiag K sqi) Ob in
  feq M n (obs_scaled K U sq) (fmul K n Ob T) /\ feq n n (fmul K n T Ti) (fid K) /\ feq n n (fmul K n Ti T) (fid K).
Proof. exact (svd_basis R K Rth). Qed.

(* (5) QR contract (Q^T Q = I, R upper triangular): inv(R[:n,:n]) Q[:, :n]^T is a left inverse of O_p[:, :n], every n <= ordmax *)
Theorem C01_qr_nested : forall (pr n0 n:nat) (Op Q Rq Rni:fmat R), (n <= n0)%nat ->
  feq pr n0 Op (fmul K n0 Q Rq) ->
  feq n0 n0 (fmul K pr (ftr Q) Q) (fid K) ->
  (forall i j, (j < i)%nat -> (i < n0)%nat -> Rq i j = 0) ->
  feq n n (fmul K n Rni Rq) (fid K) ->
  feq n n (fmul K pr (fmul K n Rni (ftr Q)) Op) (fid K).
Proof. exact (qr_nested R K Rth). Qed.

(* (6) both routines return a pair similar to the true one: A_hat = Ti A T, C_hat = C T *)
Theorem C01_realisation_similar_fast : forall rows cols l k n0 n (H U V Ob Gam OL GR A C Q Rq Rni:fmat R) (sg sq sqi:nat->R),
  (n <= n0)%nat -> (n <= k)%nat -> (l <= rows)%nat ->
  feq rows cols H (fmul K k U (fmul K k (fdiag K sg) (ftr V))) ->
  feq k k (fmul K rows (ftr U) U) (fid K) -> feq k k (fmul K cols (ftr V) V) (fid K) ->
  (forall j, (n <= j < k)%nat -> sg j = 0) ->
  (forall j, (j < n)%nat -> sq j * sq j = sg j /\ sq j * sqi j = 1) ->
  feq rows cols H (fmul K n Ob Gam) -> feq n n (fmul K rows OL Ob) (fid K) -> feq n n (fmul K cols Gam GR) (fid K) ->
  feq (rows - l) n (rows_dn l Ob) (fmul K n Ob A) -> feq l n Ob C ->
  feq (rows - l) n0 (obs_scaled K U sq) (fmul K n0 Q Rq) ->
  feq n0 n0 (fmul K (rows - l) (ftr Q) Q) (fid K) ->
  (forall i j, (j < i)%nat -> (i < n0)%nat -> Rq i j = 0) ->
  feq n n (fmul K n Rni Rq) (fid K) ->
  similar_pair R K l n A C (ssi_fast_A K (rows - l) n Rni Q (rows_dn l (obs_scaled K U sq))) (ssi_C (obs_scaled K U sq))
               (svd_T R K cols n V (fdiag K sqi) Gam) (svd_Ti R K rows n U (fdiag K sqi) Ob).
Proof. exact (ssi_fast_exact R K Rth). Qed.

Theorem C01_realisation_similar_legacy : forall rows cols l k n (H U V Ob Gam OL GR A C Pinv:fmat R) (sg sq sqi:nat->R),
  (n <= k)%nat -> (l <= rows)%nat ->
  feq rows cols H (fmul K k U (fmul K k (fdiag K sg) (ftr V))) ->
  feq k k (fmul K rows (ftr U) U) (fid K) -> feq k k (fmul K cols (ftr V) V) (fid K) ->
  (forall j, (n <= j < k)%nat -> sg j = 0) ->
  (forall j, (j < n)%nat -> sq j * sq j = sg j /\ sq j * sqi j = 1) ->
  feq rows cols H (fmul K n Ob Gam) -> feq n n (fmul K rows OL Ob) (fid K) -> feq n n (fmul K cols Gam GR) (fid K) ->
  feq (rows - l) n (rows_dn l Ob) (fmul K n Ob A) -> feq l n Ob C ->
  feq n n (fmul K (rows - l) Pinv (obs_scaled K U sq)) (fid K) ->
  similar_pair R K l n A C (ssi_legacy_A K (rows - l) Pinv (rows_dn l (obs_scaled K U sq))) (ssi_C (obs_scaled K U sq))
               (svd_T R K cols n V (fdiag K sqi) Gam) (svd_Ti R K rows n U (fdiag K sqi) Ob).
Proof. exact (ssi_legacy_exact R K Rth). Qed.

(* (7) the same stated on the data: channels = noise-free free decay, H = pyoma2's moment-matrix Hankel *)
Theorem C01_exact_recovery : forall invN l r n br Ndat k n0 (C A:fmat R) (x0:nat->R) (Yref:sig R)
    (U V OL GR Q Rq Rni:fmat R) (sg sq sqi:nat->R),
  (0 < l)%nat -> (n <= n0)%nat -> (n <= k)%nat ->
  let rows := hank_rows l br in let cols := hank_cols r br in
  let H := hank_mm K invN l r br Ndat (free_decay K n C A x0) Yref in
  let Ob := obs_blk K l n C A in
  let Gam := mm_Gamma R K invN n r br Ndat A x0 Yref in
  feq rows cols H (fmul K k U (fmul K k (fdiag K sg) (ftr V))) ->
  feq k k (fmul K rows (ftr U) U) (fid K) -> feq k k (fmul K cols (ftr V) V) (fid K) ->
  (forall j, (n <= j < k)%nat -> sg j = 0) ->
  (forall j, (j < n)%nat -> sq j * sq j = sg j /\ sq j * sqi j = 1) ->
  feq n n (fmul K rows OL Ob) (fid K) -> feq n n (fmul K cols Gam GR) (fid K) ->
  feq (rows - l) n0 (obs_scaled K U sq) (fmul K n0 Q Rq) ->
  feq n0 n0 (fmul K (rows - l) (ftr Q) Q) (fid K) ->
  (forall i j, (j < i)%nat -> (i < n0)%nat -> Rq i j = 0) ->
  feq n n (fmul K n Rni Rq) (fid K) ->
  similar_pair R K l n A C (ssi_fast_A K (rows - l) n Rni Q (rows_dn l (obs_scaled K U sq))) (ssi_C (obs_scaled K U sq))
               (svd_T R K cols n V (fdiag K sqi) Gam) (svd_Ti R K rows n U (fdiag K sqi) Ob).
Proof. exact (free_decay_realisation_fast R K Rth). Qed.

Theorem C01_exact_recovery_legacy : forall invN l r n br Ndat k (C A:fmat R) (x0:nat->R) (Yref:sig R)
    (U V OL GR Pinv:fmat R) (sg sq sqi:nat->R),
  (0 < l)%nat -> (n <= k)%nat ->
  let rows := hank_rows l br in let cols := hank_cols r br in
  let H := hank_mm K invN l r br Ndat (free_decay K n C A x0) Yref in
  let Ob := obs_blk K l n C A in
  let Gam := mm_Gamma R K invN n r br Ndat A x0 Yref in
  feq rows cols H (fmul K k U (fmul K k (fdiag K sg) (ftr V))) ->
  feq k k (fmul K rows (ftr U) U) (fid K) -> feq k k (fmul K cols (ftr V) V) (fid K) ->
  (forall j, (n <= j < k)%nat -> sg j = 0) ->
  (forall j, (j < n)%nat -> sq j * sq j = sg j /\ sq j * sqi j = 1) ->
  feq n n (fmul K rows OL Ob) (fid K) -> feq n n (fmul K cols Gam GR) (fid K) ->
  feq n n (fmul K (rows - l) Pinv (obs_scaled K U sq)) (fid K) ->
  similar_pair R K l n A C (ssi_legacy_A K (rows - l) Pinv (rows_dn l (obs_scaled K U sq))) (ssi_C (obs_scaled K U sq))
               (svd_T R K cols n V (fdiag K sqi) Gam) (svd_Ti R K rows n U (fdiag K sqi) Ob).
Proof. exact (free_decay_realisation_legacy R K Rth). Qed.

(* (8) a similar pair has exactly the same complex eigenvalues; eigenvectors correspond and the observed shapes are equal *)
Theorem C01_eigpair_transport : forall l n (A C Ah Ch T Ti:fmat R) (lam:Cplx.C R),
  similar_pair R K l n A C Ah Ch T Ti ->
  (forall phi, eigpair (Cplx.C R) (COps K) n (cemb R K A) lam phi ->
     eigpair (Cplx.C R) (COps K) n (cemb R K Ah) lam (fmul (COps K) n (cemb R K Ti) phi) /\
     feq l 1 (fmul (COps K) n (cemb R K Ch) (fmul (COps K) n (cemb R K Ti) phi)) (fmul (COps K) n (cemb R K C) phi)) /\
  (forall psi, eigpair (Cplx.C R) (COps K) n (cemb R K Ah) lam psi ->
     eigpair (Cplx.C R) (COps K) n (cemb R K A) lam (fmul (COps K) n (cemb R K T) psi) /\
     feq l 1 (fmul (COps K) n (cemb R K C) (fmul (COps K) n (cemb R K T) psi)) (fmul (COps K) n (cemb R K Ch) psi)) /\
  ((exists v, eigpair (Cplx.C R) (COps K) n (cemb R K A) lam v) <-> (exists w, eigpair (Cplx.C R) (COps K) n (cemb R K Ah) lam w)).
Proof. exact (eigpair_transport R K Rth). Qed.

(* (9') the EXECUTABLE model evaluated by the correspondence check (certified least-squares left inverse over exact rationals)
   is an instance of (6): on the first n columns of any estimate Obs = O . T of a shift-invariant O it returns a pair similar to
   the true one *)
Theorem C01_exec_model_sound : forall (zerob:R -> bool), (forall x, zerob x = true -> x = 0) ->
  forall rows n l (Obs A:list (list R)), rect R rows n Obs -> (l < rows)%nat -> (0 < n)%nat ->
  realise_A K zerob l Obs = Some A ->
  exists L:fmat R,
    feq n n (fmul K (rows - l) L (mat_of R K Obs)) (fid K) /\
    feq n n (mat_of R K A) (ssi_legacy_A K (rows - l) L (rows_dn l (mat_of R K Obs))) /\
    feq l n (mat_of R K (realise_C l Obs)) (ssi_C (mat_of R K Obs)).
Proof. exact (realise_exec_sound R K Rth). Qed.
Theorem C01_exec_model_similar : forall (zerob:R -> bool), (forall x, zerob x = true -> x = 0) ->
  forall rows n l (Obs A:list (list R)) (Ob A0 C0 T Ti:fmat R),
  rect R rows n Obs -> (l < rows)%nat -> (0 < n)%nat ->
  realise_A K zerob l Obs = Some A ->
  feq rows n (mat_of R K Obs) (fmul K n Ob T) ->
  feq (rows - l) n (rows_dn l Ob) (fmul K n Ob A0) ->
  feq l n Ob C0 ->
  feq n n (fmul K n T Ti) (fid K) ->
  feq n n (mat_of R K A) (fmul K n Ti (fmul K n A0 T)) /\ feq l n (mat_of R K (realise_C l Obs)) (fmul K n C0 T).
Proof. exact (realise_exec_similar R K Rth). Qed.

(* (9) pole table of SSI_poles: cell (row, order) is the row-th value of that order; column 0 and rows >= order are NaN *)
Theorem C01_pole_table_cell : forall (X:Type) ordmax (per:nat -> list X) row col, (row < ordmax)%nat -> (col <= ordmax)%nat ->
  table_cell (pole_table ordmax per) row col = if Nat.eqb col 0 then None else nth_error (per col) row.
Proof. exact (@pole_table_cell). Qed.
Theorem C01_pole_table_filled : forall (X:Type) ordmax (per:nat -> list X) row col,
  (forall ii, length (per ii) = ii) -> (row < ordmax)%nat -> (col <= ordmax)%nat ->
  (table_cell (pole_table ordmax per) row col = None <-> (col <= row)%nat).
Proof. exact (@pole_table_filled). Qed.
End S.

Section F.
Variable R:Type. Variable K:Ops R.
Hypothesis Fth : field_theory (o0 K) (o1 K) (oadd K) (omul K) (osub K) (oopp K) (odiv K) (oinv K) (@eq R).
Variable leb : R -> R -> bool.

(* (10) unity normalisation: the selected component is one of largest modulus and becomes exactly 1 *)
Theorem C01_unity_norm_one : forall (phi:list (Cplx.C R)), phi <> [] ->
  cnorm2 K (nth (amax_idx K leb phi) phi (c0 K)) <> o0 K ->
  nth (amax_idx K leb phi) (unity_norm K leb phi) (c0 K) = c1 K.
Proof. exact (unity_norm_one R K Fth leb). Qed.
Theorem C01_unity_norm_selects_max :
  (forall a b c, leb a b = true -> leb b c = true -> leb a c = true) ->
  (forall a b, leb a b = false -> leb b a = true) ->
  forall (phi:list (Cplx.C R)) j, (j < length phi)%nat ->
  leb (cnorm2 K (nth j phi (c0 K))) (cnorm2 K (nth (amax_idx K leb phi) phi (c0 K))) = true.
Proof. exact (unity_norm_selects_max R K leb). Qed.
(* the result is a non-zero multiple of the input, hence MAC(result, input) = 1 (numerator = denominator) *)
Theorem C01_unity_norm_multiple : forall (phi:list (Cplx.C R)),
  cnorm2 K (nth (amax_idx K leb phi) phi (c0 K)) <> o0 K ->
  let c := cinv K (nth (amax_idx K leb phi) phi (c0 K)) in
  cnorm2 K c <> o0 K /\ unity_norm K leb phi = map (cmul K c) phi.
Proof. exact (unity_norm_multiple R K Fth leb). Qed.
Theorem C01_mac_multiple_is_one : forall (c:Cplx.C R) (u:list (Cplx.C R)),
  mac_num K u (map (cmul K c) u) = mac_den K u (map (cmul K c) u).
Proof. exact (mac_multiple_is_one R K Fth). Qed.
(* invariance under non-zero scaling: whatever multiple of an eigenvector the solver returns, the normalised shape is the same *)
Theorem C01_unity_norm_scale : forall (c:Cplx.C R) (phi:list (Cplx.C R)),
  (forall a b, leb (omul K (cnorm2 K c) a) (omul K (cnorm2 K c) b) = leb a b) ->
  cnorm2 K c <> o0 K -> cnorm2 K (nth (amax_idx K leb phi) phi (c0 K)) <> o0 K ->
  unity_norm K leb (map (cmul K c) phi) = unity_norm K leb phi.
Proof. exact (unity_norm_scale R K Fth leb). Qed.
End F.

(* (11) at the real numbers: discrete pole exp((a + i b) dt) below Nyquist -> fn = sqrt(a^2+b^2)/2pi, xi = -a/sqrt(a^2+b^2);
   for an underdamped mode (w, xi): fn = w/2pi and xi, exactly *)
Theorem C01_ac2mp_exact : forall (clog:R*R -> R*R) (a b dt:R),
  clog_spec clog -> (0 < dt)%R -> (- PI < b * dt <= PI)%R ->
  ac2mp_fn_xi ROps_c01 clog sqrt (2 * PI)%R dt ((exp (a * dt) * cos (b * dt))%R, (exp (a * dt) * sin (b * dt))%R)
  = ((sqrt (a * a + b * b) / (2 * PI))%R, (- a / sqrt (a * a + b * b))%R).
Proof. exact ac2mp_exact. Qed.
Theorem C01_ac2mp_modal : forall (clog:R*R -> R*R) (w xi dt:R),
  clog_spec clog -> (0 < dt)%R -> (0 < w)%R -> (0 <= xi < 1)%R -> (w * sqrt (1 - xi * xi) * dt < PI)%R ->
  let a := (- xi * w)%R in let b := (w * sqrt (1 - xi * xi))%R in
  ac2mp_fn_xi ROps_c01 clog sqrt (2 * PI)%R dt ((exp (a * dt) * cos (b * dt))%R, (exp (a * dt) * sin (b * dt))%R)
  = ((w / (2 * PI))%R, xi).
Proof. exact ac2mp_modal. Qed.

(* (12) one true underdamped simple mode through the whole chain, at the real numbers *)
Theorem C01_mode_recovery : forall l n (A Cm Ah Ch T Ti:fmat R) (clog:R*R -> R*R) (w xi dt:R) (phi:fmat (Cplx.C R)),
  similar_pair R ROps_c01 l n A Cm Ah Ch T Ti ->
  clog_spec clog -> (0 < dt)%R -> (0 < w)%R -> (0 <= xi < 1)%R -> (w * sqrt (1 - xi * xi) * dt < PI)%R ->
  let a := (- xi * w)%R in let b := (w * sqrt (1 - xi * xi))%R in
  let lam := ((exp (a * dt) * cos (b * dt))%R, (exp (a * dt) * sin (b * dt))%R) in
  eigpair (Cplx.C R) (COps ROps_c01) n (cemb R ROps_c01 A) lam phi ->
  (forall v, eigpair (Cplx.C R) (COps ROps_c01) n (cemb R ROps_c01 A) lam v ->
     exists c, cnorm2 ROps_c01 c <> 0%R /\ feq n 1 v (fscal (COps ROps_c01) c phi)) ->
  let s := col_list R l (fmul (COps ROps_c01) n (cemb R ROps_c01 Cm) phi) in
  cnorm2 ROps_c01 (nth (amax_idx ROps_c01 Rleb s) s (c0 ROps_c01)) <> 0%R ->
  (exists psi, eigpair (Cplx.C R) (COps ROps_c01) n (cemb R ROps_c01 Ah) lam psi) /\
  (forall psi, eigpair (Cplx.C R) (COps ROps_c01) n (cemb R ROps_c01 Ah) lam psi ->
     unity_norm ROps_c01 Rleb (col_list R l (fmul (COps ROps_c01) n (cemb R ROps_c01 Ch) psi)) = unity_norm ROps_c01 Rleb s) /\
  ac2mp_fn_xi ROps_c01 clog sqrt (2 * PI)%R dt lam = ((w / (2 * PI))%R, xi) /\
  (forall lam' psi, eigpair (Cplx.C R) (COps ROps_c01) n (cemb R ROps_c01 Ah) lam' psi ->
     exists v, eigpair (Cplx.C R) (COps ROps_c01) n (cemb R ROps_c01 A) lam' v).
Proof. exact C01_mode_recovery. Qed.

(* (13) MULTIPLICITY.  Carrier: commutative ring without zero divisors, 1 <> 0, decidable equality, formally real
   (a^2 + b^2 = 0 -> a = 0), complexified by Base/Cplx.v - Qc and the (classical) reals are instances.
   True system with a complete modal basis: A Phi = Phi diag(lam), Phi two-sided invertible, lam_0 .. lam_{n-1} pairwise different.
   Eigen-solver contract on the identified A_hat: A_hat V = V diag(d), W V = I (a full eigenvector matrix).
   Then the pole list [d_0 .. d_{n-1}] at order n is a Permutation of the true pole list (each true pole exactly once,
   nothing else, no repetition); the correspondence is an explicit bijection sg, and column k of C_hat V is a non-zero
   multiple of the true observed shape C Phi[:, sg k]; and if the true poles are m conjugate pairs (z, conj z) the column
   of order n = 2m of the pole table holds EXACTLY those m conjugate pairs. *)
Section M.
Variable R:Type. Variable K:Ops R.
Hypothesis Rth : ring_theory (o0 K) (o1 K) (oadd K) (omul K) (osub K) (oopp K) (@eq R).
Hypothesis Hint : forall a b:R, omul K a b = o0 K -> a = o0 K \/ b = o0 K.
Hypothesis H10 : o1 K <> o0 K.
Hypothesis Rdec : forall x y:R, {x = y} + {x <> y}.
Hypothesis Hreal : forall a b:R, oadd K (omul K a a) (omul K b b) = o0 K -> a = o0 K.

Theorem C01_multiplicity : forall l n (A Cm Ah Ch T Ti:fmat R) (Phi Phii V W:fmat (Cplx.C R)) (lam d:nat -> Cplx.C R),
  similar_pair R K l n A Cm Ah Ch T Ti ->
  feq n n (fmul (COps K) n (cemb R K A) Phi) (fmul (COps K) n Phi (fdiag (COps K) lam)) ->
  feq n n (fmul (COps K) n Phi Phii) (fid (COps K)) -> feq n n (fmul (COps K) n Phii Phi) (fid (COps K)) ->
  (forall i j, (i < n)%nat -> (j < n)%nat -> i <> j -> lam i <> lam j) ->
  feq n n (fmul (COps K) n (cemb R K Ah) V) (fmul (COps K) n V (fdiag (COps K) d)) ->
  feq n n (fmul (COps K) n W V) (fid (COps K)) ->
  Permutation (tab n d) (tab n lam) /\ NoDup (tab n d) /\
  (exists (sg:nat -> nat) (c:nat -> Cplx.C R),
     (forall k, (k < n)%nat -> (sg k < n)%nat) /\
     (forall k k', (k < n)%nat -> (k' < n)%nat -> sg k = sg k' -> k = k') /\
     (forall i, (i < n)%nat -> exists k, (k < n)%nat /\ sg k = i) /\
     (forall k, (k < n)%nat -> d k = lam (sg k)) /\
     (forall k, (k < n)%nat -> c k <> c0 K /\
        forall i, (i < l)%nat -> fmul (COps K) n (cemb R K Ch) V i k = cmul K (fmul (COps K) n (cemb R K Cm) Phi i (sg k)) (c k))) /\
  (forall mus:list (Cplx.C R), Permutation (tab n lam) (flat_map (fun z => [z; cconj K z]) mus) ->
     n = (2 * length mus)%nat /\ Permutation (tab n d) (flat_map (fun z => [z; cconj K z]) mus)).
Proof. exact (pole_multiplicity R K Rth Hint H10 Rdec Hreal). Qed.

(* ... and A_hat has no other eigenvalue at all: ANY eigen-pair of A_hat (not only those of the returned decomposition)
   carries a true pole - the inclusion stated by C01_full_statement below, under the modal-basis witness *)
Theorem C01_no_spurious_pole : forall l n (A Cm Ah Ch T Ti:fmat R) (Phi Phii:fmat (Cplx.C R)) (lam:nat -> Cplx.C R),
  similar_pair R K l n A Cm Ah Ch T Ti ->
  feq n n (fmul (COps K) n (cemb R K A) Phi) (fmul (COps K) n Phi (fdiag (COps K) lam)) ->
  feq n n (fmul (COps K) n Phi Phii) (fid (COps K)) -> feq n n (fmul (COps K) n Phii Phi) (fid (COps K)) ->
  forall (mu:Cplx.C R) (w:fmat (Cplx.C R)),
  eigpair (Cplx.C R) (COps K) n (cemb R K Ah) mu w -> exists i, (i < n)%nat /\ mu = lam i.
Proof. exact (no_spurious_pole R K Rth Hint Rdec Hreal). Qed.
End M.

(* the same at the real numbers (the carrier hypotheses hold classically) *)
Theorem C01_multiplicity_R : forall l n (A Cm Ah Ch T Ti:fmat R) (Phi Phii V W:fmat (Cplx.C R)) (lam d:nat -> Cplx.C R),
  similar_pair R ROps_c01 l n A Cm Ah Ch T Ti ->
  feq n n (fmul (COps ROps_c01) n (cemb R ROps_c01 A) Phi) (fmul (COps ROps_c01) n Phi (fdiag (COps ROps_c01) lam)) ->
  feq n n (fmul (COps ROps_c01) n Phi Phii) (fid (COps ROps_c01)) -> feq n n (fmul (COps ROps_c01) n Phii Phi) (fid (COps ROps_c01)) ->
  (forall i j, (i < n)%nat -> (j < n)%nat -> i <> j -> lam i <> lam j) ->
  feq n n (fmul (COps ROps_c01) n (cemb R ROps_c01 Ah) V) (fmul (COps ROps_c01) n V (fdiag (COps ROps_c01) d)) ->
  feq n n (fmul (COps ROps_c01) n W V) (fid (COps ROps_c01)) ->
  Permutation (tab n d) (tab n lam) /\ NoDup (tab n d) /\
  (forall mus:list (Cplx.C R), Permutation (tab n lam) (flat_map (fun z => [z; cconj ROps_c01 z]) mus) ->
     n = (2 * length mus)%nat /\ Permutation (tab n d) (flat_map (fun z => [z; cconj ROps_c01 z]) mus)).
Proof.
  intros l n A Cm Ah Ch T Ti Phi Phii V W lam d Hs H1 H2 H3 H4 H5 H6.
  destruct (pole_multiplicity_R l n A Cm Ah Ch T Ti Phi Phii V W lam d Hs H1 H2 H3 H4 H5 H6) as [Ha [Hb [_ Hc]]].
  exact (conj Ha (conj Hb Hc)).
Qed.

(* (13') THE SAME WITHOUT ANY WITNESS.  Carrier: a formally real FIELD with decidable equality (Qc; classically the reals).
   Dimension theory (Base/Dim.v: eigenvectors of pairwise different eigenvalues are independent; n independent vectors of
   K^n form a two-sided invertible matrix) produces the modal matrix Phi, Phii that (13) takes as hypothesis.  What is
   assumed about the true system is only: [lams] is a duplicate-free list of n = order complex numbers and each of them has
   SOME eigenvector of the true A (n pairwise different poles; for m underdamped modes: the m conjugate pairs, n = 2m). *)
Section MS.
Variable R:Type. Variable K:Ops R.
Hypothesis Rth : ring_theory (o0 K) (o1 K) (oadd K) (omul K) (osub K) (oopp K) (@eq R).
Hypothesis Hint : forall a b:R, omul K a b = o0 K -> a = o0 K \/ b = o0 K.
(* the eigenspace of a simple eigenvalue lam_i0 of a diagonalised matrix is the line spanned by the modal column i0
   (any commutative ring without zero divisors; used at the complexified carrier for the shape clause below) *)
Theorem C01_eigvec_simple : forall n (A Phi Phii:fmat R) (lam:nat -> R),
  feq n n (fmul K n A Phi) (fmul K n Phi (ediag K lam)) -> feq n n (fmul K n Phi Phii) (fid K) -> feq n n (fmul K n Phii Phi) (fid K) ->
  forall i0, (i0 < n)%nat -> (forall j, (j < n)%nat -> j <> i0 -> lam j <> lam i0) ->
  forall v:fmat R, feq n 1 (fmul K n A v) (fscal K (lam i0) v) -> ~ feq n 1 v (fzero K) ->
  exists y:R, y <> o0 K /\ forall a, (a < n)%nat -> v a 0%nat = omul K (Phi a i0) y.
Proof. exact (eigvec_simple R K Rth Hint). Qed.
End MS.

Section MF.
Variable R:Type. Variable K:Ops R.
Hypothesis Fth : field_theory (o0 K) (o1 K) (oadd K) (omul K) (osub K) (oopp K) (odiv K) (oinv K) (@eq R).
Hypothesis Rdec : forall x y:R, {x = y} + {x <> y}.
Hypothesis Hreal : forall a b:R, oadd K (omul K a a) (omul K b b) = o0 K -> a = o0 K.

(* the witness exists: a complete modal basis of the true system, listed in the order of lams *)
Theorem C01_modal_witness : forall n (A:fmat R) (lams:list (Cplx.C R)),
  length lams = n -> NoDup lams ->
  (forall lam, In lam lams -> exists v, eigpair (Cplx.C R) (COps K) n (cemb R K A) lam v) ->
  exists (Phi Phii:fmat (Cplx.C R)) (lam:nat -> Cplx.C R),
    tab n lam = lams /\
    (forall i j, (i < n)%nat -> (j < n)%nat -> i <> j -> lam i <> lam j) /\
    (forall k, (k < n)%nat -> eigpair (Cplx.C R) (COps K) n (cemb R K A) (lam k) (fun i _ => Phi i k)) /\
    feq n n (fmul (COps K) n (cemb R K A) Phi) (fmul (COps K) n Phi (fdiag (COps K) lam)) /\
    feq n n (fmul (COps K) n Phi Phii) (fid (COps K)) /\ feq n n (fmul (COps K) n Phii Phi) (fid (COps K)).
Proof. exact (modal_witness R K Fth Rdec Hreal). Qed.

(* C01_full_statement (below) on the generic carrier: the identified A_hat has NO eigenvalue outside the n true poles ... *)
Theorem C01_full_generic : forall l n (A Cm Ah Ch T Ti:fmat R) (lams:list (Cplx.C R)),
  similar_pair R K l n A Cm Ah Ch T Ti ->
  length lams = n -> NoDup lams ->
  (forall lam, In lam lams -> exists v, eigpair (Cplx.C R) (COps K) n (cemb R K A) lam v) ->
  forall lam', (exists w, eigpair (Cplx.C R) (COps K) n (cemb R K Ah) lam' w) -> In lam' lams.
Proof. exact (full_spectrum R K Fth Rdec Hreal). Qed.
(* ... and has every one of them: the set of eigenvalues of A_hat IS lams *)
Theorem C01_spectrum_exact : forall l n (A Cm Ah Ch T Ti:fmat R) (lams:list (Cplx.C R)),
  similar_pair R K l n A Cm Ah Ch T Ti ->
  length lams = n -> NoDup lams ->
  (forall lam, In lam lams -> exists v, eigpair (Cplx.C R) (COps K) n (cemb R K A) lam v) ->
  forall lam', (exists w, eigpair (Cplx.C R) (COps K) n (cemb R K Ah) lam' w) <-> In lam' lams.
Proof. exact (full_spectrum_iff R K Fth Rdec Hreal). Qed.

(* MULTIPLICITY, witness free.  Whatever full eigen-decomposition the solver returns for A_hat (A_hat V = V diag d, W V = I - the
   solver hypotheses of C01_multiplicity), the pole list [d_0 .. d_{n-1}] at order n is a Permutation of lams: every true pole
   exactly once, nothing else, no repetition; k -> sg k is a bijection onto the positions of lams; the pole d_k is a true pole
   and column k of C_hat V is a non-zero multiple of the true observed shape C phi for EVERY eigenvector phi of the true A at
   that pole (the eigenspace is a line, so the unity-normalised shape (10) is the true one); and if lams is m conjugate pairs
   (z, conj z), then n = 2m and order n of the pole table holds exactly these m pairs. *)
Theorem C01_multiplicity_full : forall l n (A Cm Ah Ch T Ti:fmat R) (V W:fmat (Cplx.C R)) (lams:list (Cplx.C R)) (d:nat -> Cplx.C R),
  similar_pair R K l n A Cm Ah Ch T Ti ->
  length lams = n -> NoDup lams ->
  (forall lam, In lam lams -> exists v, eigpair (Cplx.C R) (COps K) n (cemb R K A) lam v) ->
  feq n n (fmul (COps K) n (cemb R K Ah) V) (fmul (COps K) n V (fdiag (COps K) d)) ->
  feq n n (fmul (COps K) n W V) (fid (COps K)) ->
  Permutation (tab n d) lams /\ NoDup (tab n d) /\
  (exists sg:nat -> nat,
     (forall k, (k < n)%nat -> (sg k < n)%nat) /\
     (forall k k', (k < n)%nat -> (k' < n)%nat -> sg k = sg k' -> k = k') /\
     (forall i, (i < n)%nat -> exists k, (k < n)%nat /\ sg k = i) /\
     (forall k, (k < n)%nat -> d k = nth (sg k) lams (c0 K))) /\
  (forall k, (k < n)%nat ->
     (exists phi, eigpair (Cplx.C R) (COps K) n (cemb R K A) (d k) phi) /\
     forall phi, eigpair (Cplx.C R) (COps K) n (cemb R K A) (d k) phi ->
       exists c:Cplx.C R, c <> c0 K /\
         forall i, (i < l)%nat -> fmul (COps K) n (cemb R K Ch) V i k = cmul K (fmul (COps K) n (cemb R K Cm) phi i 0%nat) c) /\
  (forall mus:list (Cplx.C R), Permutation lams (flat_map (fun z => [z; cconj K z]) mus) ->
     n = (2 * length mus)%nat /\ Permutation (tab n d) (flat_map (fun z => [z; cconj K z]) mus)).
Proof. exact (pole_multiplicity_dim R K Fth Rdec Hreal). Qed.
End MF.

(* The witness-free spectrum statement at the real numbers.  PROVED (C01_full below, from C01_full_generic: the reals are a
   formally real field with - classically - decidable equality), and with it C01_spectrum_exact / C01_multiplicity_full at the
   reals.  So in exact arithmetic: noise-free free decay of an order-n system with n pairwise different poles => at model
   order n the routine's A_hat has exactly these poles, each once (m conjugate pairs at order 2m), with the true observed
   shapes up to a non-zero factor, and nothing else.
   What remains outside these theorems:
   * the composition with the extraction routine is stated separately ((14): C01_extract_*, C01_identify_then_extract,
     C01_identify_then_extract_full), over Q tables - see the note at the end of (14);
   * floating point: every statement is about exact arithmetic (generic field / reals); the float64 implementation is tied
     to the model by the correspondence runs of the harness, at a tolerance, not by a proof;
   * that the eigen-solver returns a FULL decomposition (W V = I) is its contract, as are SVD / QR / pinv in (4)-(7). *)
Definition C01_full_statement : Prop :=
  forall l n (A Cm Ah Ch T Ti:fmat R) (lams:list (Cplx.C R)),
    similar_pair R ROps_c01 l n A Cm Ah Ch T Ti ->
    length lams = n -> NoDup lams ->
    (forall lam, In lam lams -> exists v, eigpair (Cplx.C R) (COps ROps_c01) n (cemb R ROps_c01 A) lam v) ->
    forall lam', (exists w, eigpair (Cplx.C R) (COps ROps_c01) n (cemb R ROps_c01 Ah) lam' w) -> In lam' lams.
Theorem C01_full : C01_full_statement.
Proof. exact full_spectrum_R. Qed.

Theorem C01_multiplicity_full_R : forall l n (A Cm Ah Ch T Ti:fmat R) (V W:fmat (Cplx.C R)) (lams:list (Cplx.C R)) (d:nat -> Cplx.C R),
  similar_pair R ROps_c01 l n A Cm Ah Ch T Ti ->
  length lams = n -> NoDup lams ->
  (forall lam, In lam lams -> exists v, eigpair (Cplx.C R) (COps ROps_c01) n (cemb R ROps_c01 A) lam v) ->
  feq n n (fmul (COps ROps_c01) n (cemb R ROps_c01 Ah) V) (fmul (COps ROps_c01) n V (fdiag (COps ROps_c01) d)) ->
  feq n n (fmul (COps ROps_c01) n W V) (fid (COps ROps_c01)) ->
  Permutation (tab n d) lams /\ NoDup (tab n d) /\
  (exists sg:nat -> nat,
     (forall k, (k < n)%nat -> (sg k < n)%nat) /\
     (forall k k', (k < n)%nat -> (k' < n)%nat -> sg k = sg k' -> k = k') /\
     (forall i, (i < n)%nat -> exists k, (k < n)%nat /\ sg k = i) /\
     (forall k, (k < n)%nat -> d k = nth (sg k) lams (c0 ROps_c01))) /\
  (forall k, (k < n)%nat ->
     (exists phi, eigpair (Cplx.C R) (COps ROps_c01) n (cemb R ROps_c01 A) (d k) phi) /\
     forall phi, eigpair (Cplx.C R) (COps ROps_c01) n (cemb R ROps_c01 A) (d k) phi ->
       exists c:Cplx.C R, c <> c0 ROps_c01 /\
         forall i, (i < l)%nat -> fmul (COps ROps_c01) n (cemb R ROps_c01 Ch) V i k
                                  = cmul ROps_c01 (fmul (COps ROps_c01) n (cemb R ROps_c01 Cm) phi i 0%nat) c) /\
  (forall mus:list (Cplx.C R), Permutation lams (flat_map (fun z => [z; cconj ROps_c01 z]) mus) ->
     n = (2 * length mus)%nat /\ Permutation (tab n d) (flat_map (fun z => [z; cconj ROps_c01 z]) mus)).
Proof. exact pole_multiplicity_dim_R. Qed.

Print Assumptions C01_free_decay_factor.
Print Assumptions C01_hank_factor.
Print Assumptions C01_hank_dat_factor.
Print Assumptions C01_obs_shift.
Print Assumptions C01_svd_basis.
Print Assumptions C01_qr_nested.
Print Assumptions C01_realisation_similar_fast.
Print Assumptions C01_realisation_similar_legacy.
Print Assumptions C01_exact_recovery.
Print Assumptions C01_exact_recovery_legacy.
Print Assumptions C01_eigpair_transport.
Print Assumptions C01_exec_model_sound.
Print Assumptions C01_exec_model_similar.
Print Assumptions C01_pole_table_cell.
Print Assumptions C01_pole_table_filled.
Print Assumptions C01_unity_norm_one.
Print Assumptions C01_unity_norm_selects_max.
Print Assumptions C01_unity_norm_multiple.
Print Assumptions C01_mac_multiple_is_one.
Print Assumptions C01_unity_norm_scale.
Print Assumptions C01_ac2mp_exact.
Print Assumptions C01_ac2mp_modal.
Print Assumptions C01_mode_recovery.
Print Assumptions C01_multiplicity.
Print Assumptions C01_no_spurious_pole.
Print Assumptions C01_multiplicity_R.
Print Assumptions C01_eigvec_simple.
Print Assumptions C01_modal_witness.
Print Assumptions C01_full_generic.
Print Assumptions C01_spectrum_exact.
Print Assumptions C01_multiplicity_full.
Print Assumptions C01_full.
Print Assumptions C01_multiplicity_full_R.

(* non-vacuity (1): a rational instance (l=1, br=1, n=1, 3-4-5 rotation as singular vectors) meets every hypothesis of
   C01_realisation_similar_fast; the identified A_hat is the true 3/4 and T = 2 *)
Example C01_example_realisation :
  similar_pair Qc QcOps 1 1 ex_A ex_C
     (ssi_fast_A QcOps 1 1 ex_Rni ex_Q (rows_dn 1 (obs_scaled QcOps ex_U ex_sq))) (ssi_C (obs_scaled QcOps ex_U ex_sq))
     (svd_T Qc QcOps 2 1 ex_U (fdiag QcOps ex_sqi) ex_Gam) (svd_Ti Qc QcOps 2 1 ex_U (fdiag QcOps ex_sqi) ex_Ob)
  /\ ssi_fast_A QcOps 1 1 ex_Rni ex_Q (rows_dn 1 (obs_scaled QcOps ex_U ex_sq)) 0%nat 0%nat = Q2Qc (3 # 4)
  /\ svd_T Qc QcOps 2 1 ex_U (fdiag QcOps ex_sqi) ex_Gam 0%nat 0%nat = Q2Qc (2 # 1).
Proof. exact example_fast. Qed.

(* non-vacuity (2): executable model on Gaussian rationals - an exact eigen-pair of [[1/2,1/4],[-1/4,1/2]], its shape through a
   3 x 2 output matrix, unity normalised: component 1 (modulus 3) becomes exactly 1 *)
Example C01_example_modal :
  show_mode [[q 1 2; q 1 4];[q (-1) 4; q 1 2]] [[q 1 1; q 2 1];[q 0 1; q 3 1];[q 1 1; q 1 1]] (q 1 2, q 1 4) [(q 1 1, q 0 1); (q 0 1, q 1 1)]
  = "T|2/3,-1/3 1/1,0/1 1/3,-1/3|9/1 5/1"%string.
Proof. vm_compute. reflexivity. Qed.

(* non-vacuity (3): the hypotheses of C01_multiplicity are met by a Gaussian-rational instance - true A = [[1/2,1/4],[-1/4,1/2]]
   (poles 1/2 +- i/4, modes (1, +-i)), identified in the basis T = [[1,1],[0,1]], and a solver output that lists the conjugate
   pole first with rescaled eigenvectors; the returned pole list is the true one in the other order *)
Example C01_example_multiplicity :
  similar_pair Qc QcOps 1 2 ec1_A ec1_C ec1_Ah ec1_Ch ec1_T ec1_Ti /\
  feq 2 2 (fmul (COps QcOps) 2 (cemb Qc QcOps ec1_A) ec1_Phi) (fmul (COps QcOps) 2 ec1_Phi (fdiag (COps QcOps) ec1_lam)) /\
  feq 2 2 (fmul (COps QcOps) 2 ec1_Phi ec1_Phii) (fid (COps QcOps)) /\
  feq 2 2 (fmul (COps QcOps) 2 ec1_Phii ec1_Phi) (fid (COps QcOps)) /\
  (forall i j, (i < 2)%nat -> (j < 2)%nat -> i <> j -> ec1_lam i <> ec1_lam j) /\
  feq 2 2 (fmul (COps QcOps) 2 (cemb Qc QcOps ec1_Ah) ec1_V) (fmul (COps QcOps) 2 ec1_V (fdiag (COps QcOps) ec1_d)) /\
  feq 2 2 (fmul (COps QcOps) 2 ec1_W ec1_V) (fid (COps QcOps)) /\
  tab 2 ec1_d = [ec1_lam 1%nat; ec1_lam 0%nat].
Proof. exact ec1_hyps. Qed.
(* ... and so are the carrier hypotheses, at the canonical rationals *)
Example C01_example_carrier :
  (forall a b:Qc, omul QcOps a b = o0 QcOps -> a = o0 QcOps \/ b = o0 QcOps) /\ o1 QcOps <> o0 QcOps /\
  (forall a b:Qc, oadd QcOps (omul QcOps a a) (omul QcOps b b) = o0 QcOps -> a = o0 QcOps).
Proof. exact (conj qc_integral (conj qc_one_neq_zero qc_formally_real)). Qed.

(* non-vacuity (3'): the hypotheses of C01_full_generic / C01_spectrum_exact / C01_multiplicity_full (no witness) are met by a
   Gaussian-rational instance of order 4 = 2 x 2 with l = 2 outputs: true A = blockdiag([[1/2,1/4],[-1/4,1/2]],
   [[1/3,1/2],[-1/2,1/3]]) with poles l1 = 1/2 + i/4, l2 = 1/3 + i/2 and their conjugates, identified in a non-orthogonal
   basis T; the solver output lists the poles as conj l2, l1, l2, conj l1 with eigenvectors rescaled by 2, i, 1+i, -1;
   lams is literally the list of the two conjugate pairs. *)
Example C01_example_full :
  similar_pair Qc QcOps 2 4 ec2_A ec2_C ec2_Ah ec2_Ch ec2_T ec2_Ti /\
  length ec2_lams = 4%nat /\ NoDup ec2_lams /\
  (forall lam, In lam ec2_lams -> exists v, eigpair (Cplx.C Qc) (COps QcOps) 4 (cemb Qc QcOps ec2_A) lam v) /\
  feq 4 4 (fmul (COps QcOps) 4 (cemb Qc QcOps ec2_Ah) ec2_V) (fmul (COps QcOps) 4 ec2_V (fdiag (COps QcOps) ec2_d)) /\
  feq 4 4 (fmul (COps QcOps) 4 ec2_W ec2_V) (fid (COps QcOps)) /\
  ec2_lams = flat_map (fun z => [z; cconj QcOps z]) [ec2_l1; ec2_l2] /\
  tab 4 ec2_d = [cconj QcOps ec2_l2; ec2_l1; ec2_l2; cconj QcOps ec2_l1].
Proof. exact ec2_hyps. Qed.
(* ... and the canonical rationals are a formally real field (decidable equality: Qcanon.Qc_eq_dec) *)
Example C01_example_field_carrier :
  field_theory (o0 QcOps) (o1 QcOps) (oadd QcOps) (omul QcOps) (osub QcOps) (oopp QcOps) (odiv QcOps) (oinv QcOps) (@eq Qc) /\
  (forall a b:Qc, oadd QcOps (omul QcOps a a) (omul QcOps b b) = o0 QcOps -> a = o0 QcOps).
Proof. exact (conj QcFth qc_formally_real). Qed.

(* =========================================================================================================
   (14) COMPOSITION with the extraction routine (property C11, Model/M_mpe.v: mpe_explicit = SSI_mpe / pLSCF_mpe with an
   explicit order): "... and extracting modes at that order returns those values".
   Tables as in C11: Fn[row][order-column] : option Q (None = NaN), Pay = everything else moved with a pole.  Lemmas in
   Proofs/P_compose.v, proved from C11's mpe_explicit_total / mpe_whole / mpe_only_if_close: the row kept for a request is
   THE first argmin of |column - f| (distance 0 is minimal) and np.isclose(f, f) holds for every rtol >= 0.
   The names of M_mpe are written qualified because Carrier.tab / M_realise.rect are in use above. *)
From PyOMA.Proofs Require Import P_compose.
Local Open Scope Q_scope.

(* (14a) EXACT identification: column c holds for every request f a retained cell whose frequency equals f (the exact-arithmetic
   statement of C01).  Then for every rtol >= 0 the routine raises nothing and returns one pair per request, in request order:
   the frequency (== f) and the payload of the FIRST row of column c that holds f. *)
Theorem C01_extract_returns_true_modes : forall (P:Type) n m (Fn:M_mpe.tab) (Pay:list (list P)) c freq rtol,
  M_mpe.rect n m Fn -> M_mpe.rect n m Pay -> 0 <= rtol ->
  Forall (fun f => exists r g, M_mpe.cell Fn r c = Some (Some g) /\ g == f) freq ->
  exists vals, M_mpe.mpe_explicit Fn Pay freq (M_mpe.OInt c) rtol = M_mpe.Ok (vals, M_mpe.OutInt c) /\
    Forall2 (fun f vp => fst vp == f /\
               exists r, M_mpe.cell Fn r c = Some (Some (fst vp)) /\ M_mpe.cell Pay r c = Some (snd vp) /\
                         forall r' g', (r' < r)%nat -> M_mpe.cell Fn r' c = Some (Some g') -> ~ g' == f) freq vals.
Proof. exact (@extract_exact). Qed.

(* (14a') the same with the rows named: f_j occurs in column c at row r_j only => exactly the cells (r_j, c) are returned *)
Theorem C01_extract_returns_true_modes_rows : forall (P:Type) n m (Fn:M_mpe.tab) (Pay:list (list P)) c freq rows rtol,
  M_mpe.rect n m Fn -> M_mpe.rect n m Pay -> 0 <= rtol ->
  Forall2 (fun f r => exists g, M_mpe.cell Fn r c = Some (Some g) /\ g == f /\
             forall r' g', M_mpe.cell Fn r' c = Some (Some g') -> g' == f -> r' = r) freq rows ->
  exists vals, M_mpe.mpe_explicit Fn Pay freq (M_mpe.OInt c) rtol = M_mpe.Ok (vals, M_mpe.OutInt c) /\
    Forall2 (fun r vp => M_mpe.cell Fn r c = Some (Some (fst vp)) /\ M_mpe.cell Pay r c = Some (snd vp)) rows vals.
Proof. exact (@extract_exact_rows). Qed.

(* (14b) ROBUST identification: the identified frequency g_j (row r_j of column c) is within eps_j of the request f_j, every OTHER
   retained cell of that column is farther than eps_j from f_j (separation), and eps_j <= 1e-8 + rtol |f_j| (isclose margin).
   Then the routine raises nothing and returns exactly the cells (r_j, c), in request order. *)
Theorem C01_extract_robust : forall (P:Type) n m (Fn:M_mpe.tab) (Pay:list (list P)) c freq rows rtol,
  M_mpe.rect n m Fn -> M_mpe.rect n m Pay ->
  Forall2 (fun f r => exists g eps, M_mpe.cell Fn r c = Some (Some g) /\ Qabs.Qabs (g - f) <= eps /\
             (forall r' g', r' <> r -> M_mpe.cell Fn r' c = Some (Some g') -> eps < Qabs.Qabs (g' - f)) /\
             eps <= M_mpe.atol + rtol * Qabs.Qabs f) freq rows ->
  exists vals, M_mpe.mpe_explicit Fn Pay freq (M_mpe.OInt c) rtol = M_mpe.Ok (vals, M_mpe.OutInt c) /\
    Forall2 (fun r vp => M_mpe.cell Fn r c = Some (Some (fst vp)) /\ M_mpe.cell Pay r c = Some (snd vp)) rows vals.
Proof. exact (@extract_robust). Qed.

(* the common core of (14a), (14b): row r_j holds the retained pole of column c nearest to f_j (first row on ties, P_compose.nearest_row)
   and that pole is inside the isclose margin *)
Theorem C01_extract_nearest : forall (P:Type) n m (Fn:M_mpe.tab) (Pay:list (list P)) c freq rows rtol,
  M_mpe.rect n m Fn -> M_mpe.rect n m Pay ->
  Forall2 (fun f r => exists g, nearest_row Fn c f r g /\ Qabs.Qabs (g - f) <= M_mpe.atol + rtol * Qabs.Qabs f) freq rows ->
  exists vals, M_mpe.mpe_explicit Fn Pay freq (M_mpe.OInt c) rtol = M_mpe.Ok (vals, M_mpe.OutInt c) /\
    Forall2 (fun r vp => M_mpe.cell Fn r c = Some (Some (fst vp)) /\ M_mpe.cell Pay r c = Some (snd vp)) rows vals.
Proof. exact (@extract_core). Qed.

(* (14c) on the pole table of (9).  Cell type X with projections fnof : X -> Q (frequency) and payof : X -> P (damping, shape ...);
   Fn = fn_table fnof (pole_table ordmax per), Pay = pay_table payof (pole_table ordmax per) (payload of a NaN cell = None).
   If the pole list of order c is a rearrangement of the true mode list (what (13) gives for the spectrum), then whatever true
   frequencies are requested, extraction at order c returns for each of them frequency and payload of ONE true mode of that
   frequency (the one listed first at order c), and raises nothing. *)
Theorem C01_extract_pole_table : forall (X P:Type) (fnof:X -> Q) (payof:X -> P) ordmax (per:nat -> list X) c (truth:list X) freq rtol,
  (0 < c <= ordmax)%nat -> (length (per c) <= ordmax)%nat -> 0 <= rtol ->
  Permutation (per c) truth ->
  Forall (fun f => exists x, In x truth /\ fnof x == f) freq ->
  exists vals,
    M_mpe.mpe_explicit (fn_table fnof (pole_table ordmax per)) (pay_table payof (pole_table ordmax per)) freq (M_mpe.OInt c) rtol
      = M_mpe.Ok (vals, M_mpe.OutInt c) /\
    Forall2 (fun f vp => exists y, In y truth /\ fnof y == f /\ vp = (fnof y, Some (payof y))) freq vals.
Proof. exact (@extract_pole_table). Qed.

(* requesting the frequencies of a list of true modes: every answer carries the frequency of its mode and a payload [same] as
   that of the mode, provided true modes of equal frequency have [same] payloads.  (At order 2m every mode is listed twice, as a
   conjugate pair with equal fn and xi and conjugate shapes: [same] = equal xi, shapes equal up to conjugation.  With pairwise
   different frequencies [same] can be Leibniz equality.) *)
Theorem C01_extract_pole_table_modes : forall (X P:Type) (fnof:X -> Q) (payof:X -> P) (same:P -> P -> Prop) ordmax (per:nat -> list X) c
    (truth modes:list X) rtol,
  (0 < c <= ordmax)%nat -> (length (per c) <= ordmax)%nat -> 0 <= rtol ->
  Permutation (per c) truth ->
  (forall x, In x modes -> In x truth) ->
  (forall x y, In x truth -> In y truth -> fnof y == fnof x -> same (payof y) (payof x)) ->
  exists vals,
    M_mpe.mpe_explicit (fn_table fnof (pole_table ordmax per)) (pay_table payof (pole_table ordmax per)) (map fnof modes) (M_mpe.OInt c) rtol
      = M_mpe.Ok (vals, M_mpe.OutInt c) /\
    Forall2 (fun x vp => fst vp == fnof x /\ exists p, snd vp = Some p /\ same p (payof x)) modes vals.
Proof. exact (@extract_pole_table_modes). Qed.

(* (14d) (13) and (14c) chained.  Under the hypotheses of C01_multiplicity (true system with a complete modal basis and pairwise
   different poles lam_0 .. lam_{n-1}; eigen-solver contract on the identified A_hat with eigenvalues d_0 .. d_{n-1}), let column n of
   the pole table hold g(d_0) .. g(d_{n-1}) for ANY pole-wise map g into a cell type X (ac2mp: pole -> frequency, damping) read by
   fnof / payof.  Then requesting true frequencies fnof (g (lam i)) at order n returns, for each request, frequency and payload
   computed from a TRUE pole lam_i of that frequency; nothing else, no exception. *)
Section MX.
Variable R:Type. Variable K:Ops R.
Hypothesis Rth : ring_theory (o0 K) (o1 K) (oadd K) (omul K) (osub K) (oopp K) (@eq R).
Hypothesis Hint : forall a b:R, omul K a b = o0 K -> a = o0 K \/ b = o0 K.
Hypothesis H10 : o1 K <> o0 K.
Hypothesis Rdec : forall x y:R, {x = y} + {x <> y}.
Hypothesis Hreal : forall a b:R, oadd K (omul K a a) (omul K b b) = o0 K -> a = o0 K.

Theorem C01_identify_then_extract : forall l n (A Cm Ah Ch T Ti:fmat R) (Phi Phii V W:fmat (Cplx.C R)) (lam d:nat -> Cplx.C R),
  similar_pair R K l n A Cm Ah Ch T Ti ->
  feq n n (fmul (COps K) n (cemb R K A) Phi) (fmul (COps K) n Phi (fdiag (COps K) lam)) ->
  feq n n (fmul (COps K) n Phi Phii) (fid (COps K)) -> feq n n (fmul (COps K) n Phii Phi) (fid (COps K)) ->
  (forall i j, (i < n)%nat -> (j < n)%nat -> i <> j -> lam i <> lam j) ->
  feq n n (fmul (COps K) n (cemb R K Ah) V) (fmul (COps K) n V (fdiag (COps K) d)) ->
  feq n n (fmul (COps K) n W V) (fid (COps K)) ->
  forall (X P:Type) (g:Cplx.C R -> X) (fnof:X -> Q) (payof:X -> P) ordmax (per:nat -> list X) freq rtol,
  (0 < n <= ordmax)%nat -> 0 <= rtol ->
  per n = map g (tab n d) ->
  Forall (fun f => exists i, (i < n)%nat /\ fnof (g (lam i)) == f) freq ->
  exists vals,
    M_mpe.mpe_explicit (fn_table fnof (pole_table ordmax per)) (pay_table payof (pole_table ordmax per)) freq (M_mpe.OInt n) rtol
      = M_mpe.Ok (vals, M_mpe.OutInt n) /\
    Forall2 (fun f vp => exists i, (i < n)%nat /\ fnof (g (lam i)) == f /\ vp = (fnof (g (lam i)), Some (payof (g (lam i))))) freq vals.
Proof.
  intros l n A Cm Ah Ch T Ti Phi Phii V W lam d Hs H1 H2 H3 H4 H5 H6 X P g fnof payof ordmax per freq rtol Hn Hrt Hper Hall.
  destruct (C01_multiplicity R K Rth Hint H10 Rdec Hreal l n A Cm Ah Ch T Ti Phi Phii V W lam d Hs H1 H2 H3 H4 H5 H6) as [Hperm _].
  destruct (extract_pole_table_spectrum g fnof payof ordmax per n (tab n d) (tab n lam) freq rtol Hn) as (vals & Hv & H).
  - rewrite tab_length. lia.
  - exact Hrt.
  - exact Hper.
  - exact Hperm.
  - eapply Forall_impl; [|exact Hall]. intros f (i & Hi & Hf). exists (lam i). split; [|exact Hf].
    unfold tab. apply in_map. apply in_seq. lia.
  - exists vals. split; [exact Hv|]. eapply P_mpe.F2_impl; [|exact H].
    intros f vp (z & Hz & Hf & Hvp). unfold tab in Hz. apply in_map_iff in Hz. destruct Hz as (i & <- & Hi).
    apply in_seq in Hi. exists i. split; [lia|]. split; [exact Hf|exact Hvp].
Qed.
End MX.

(* (14d') the same with the witness discharged ((13') chained with (14c)): the true system is given only by its n pairwise
   different poles lams (each with some eigenvector of A); requesting frequencies fnof (g lam), lam in lams, at order n returns
   for each request frequency and payload computed from a TRUE pole of that frequency; nothing else, no exception. *)
Section MXF.
Variable R:Type. Variable K:Ops R.
Hypothesis Fth : field_theory (o0 K) (o1 K) (oadd K) (omul K) (osub K) (oopp K) (odiv K) (oinv K) (@eq R).
Hypothesis Rdec : forall x y:R, {x = y} + {x <> y}.
Hypothesis Hreal : forall a b:R, oadd K (omul K a a) (omul K b b) = o0 K -> a = o0 K.
Theorem C01_identify_then_extract_full : forall l n (A Cm Ah Ch T Ti:fmat R) (V W:fmat (Cplx.C R)) (lams:list (Cplx.C R)) (d:nat -> Cplx.C R),
  similar_pair R K l n A Cm Ah Ch T Ti ->
  length lams = n -> NoDup lams ->
  (forall lam, In lam lams -> exists v, eigpair (Cplx.C R) (COps K) n (cemb R K A) lam v) ->
  feq n n (fmul (COps K) n (cemb R K Ah) V) (fmul (COps K) n V (fdiag (COps K) d)) ->
  feq n n (fmul (COps K) n W V) (fid (COps K)) ->
  forall (X P:Type) (g:Cplx.C R -> X) (fnof:X -> Q) (payof:X -> P) ordmax (per:nat -> list X) freq rtol,
  (0 < n <= ordmax)%nat -> 0 <= rtol ->
  per n = map g (tab n d) ->
  Forall (fun f => exists lam, In lam lams /\ fnof (g lam) == f) freq ->
  exists vals,
    M_mpe.mpe_explicit (fn_table fnof (pole_table ordmax per)) (pay_table payof (pole_table ordmax per)) freq (M_mpe.OInt n) rtol
      = M_mpe.Ok (vals, M_mpe.OutInt n) /\
    Forall2 (fun f vp => exists lam, In lam lams /\ fnof (g lam) == f /\ vp = (fnof (g lam), Some (payof (g lam)))) freq vals.
Proof. exact (identify_then_extract_dim R K Fth Rdec Hreal). Qed.
End MXF.

(* What (14) does NOT cover.  M_mpe is a model over Q, so (14) speaks about tables whose stored frequencies are rationals; the
   identification results at the real numbers ((11), (12): fn = w / 2 pi, irrational in general) are not chained to it - that needs
   M_mpe / P_mpe restated over an ordered field (the proofs use only |.|, <=, < and linear arithmetic).  (14d) carries the
   pole-wise quantities (frequency, damping) through g; for the SHAPE component of a cell one more step is needed: column k of
   C_hat V is a non-zero multiple of the true shape (third conclusion of (13)) and unity normalisation cancels the factor ((10),
   C01_unity_norm_scale), so a cell type X with shapes needs per n indexed by k rather than by the pole alone.  order = "find_min"
   and order lists are C11's. *)

Print Assumptions C01_extract_returns_true_modes.
Print Assumptions C01_extract_returns_true_modes_rows.
Print Assumptions C01_extract_robust.
Print Assumptions C01_extract_nearest.
Print Assumptions C01_extract_pole_table.
Print Assumptions C01_extract_pole_table_modes.
Print Assumptions C01_identify_then_extract.
Print Assumptions C01_identify_then_extract_full.

(* non-vacuity (4): a 3 x 3 frequency table with a NaN cell (P_compose.cx_Fn; payload = cell identifier 3*row + column).
   Order 2 holds the true 5 and 10 (5 twice): hypotheses of (14a) hold; 5 -> first row holding it (row 1, cell 5), 10 -> row 0 (cell 2).
   Order 1 holds 5.000000125, 7.5, 10: hypotheses of (14b) hold with rows [0; 2]; exactly the cells 1 and 7 are returned. *)
Example C01_example_extract_exact :
  (M_mpe.rect 3 3 cx_Fn /\ M_mpe.rect 3 3 cx_Pay /\ 0 <= 1#100 /\
   Forall (fun f => exists r g, M_mpe.cell cx_Fn r 2 = Some (Some g) /\ g == f) [5#1; 10#1]) /\
  M_mpe.mpe_explicit cx_Fn cx_Pay [5#1; 10#1] (M_mpe.OInt 2) (1#100) = M_mpe.Ok ([(5#1, 5%nat); (10#1, 2%nat)], M_mpe.OutInt 2).
Proof. split; [exact cx_exact_hyps|vm_compute; reflexivity]. Qed.
Example C01_example_extract_robust :
  Forall2 (fun f r => exists g eps, M_mpe.cell cx_Fn r 1 = Some (Some g) /\ Qabs.Qabs (g - f) <= eps /\
             (forall r' g', r' <> r -> M_mpe.cell cx_Fn r' 1 = Some (Some g') -> eps < Qabs.Qabs (g' - f)) /\
             eps <= M_mpe.atol + (1#100) * Qabs.Qabs f) [5#1; 10#1] [0%nat; 2%nat] /\
  M_mpe.mpe_explicit cx_Fn cx_Pay [5#1; 10#1] (M_mpe.OInt 1) (1#100)
    = M_mpe.Ok ([(40000001#8000000, 1%nat); (10#1, 7%nat)], M_mpe.OutInt 1).
Proof. split; [exact cx_robust_hyps|vm_compute; reflexivity]. Qed.
(* non-vacuity (5): pole_table 3 cx_per with cells (fn, xi); order 2 lists the two true modes in the other order; hypotheses of (14c)
   hold and extraction at order 2 with rtol = 0 returns (5, xi = 1/50), (10, xi = 1/100) *)
Example C01_example_extract_pole_table :
  ((0 < 2 <= 3)%nat /\ (length (cx_per 2) <= 3)%nat /\ 0 <= 0 /\
   Permutation (cx_per 2) [(5#1, 1#50); (10#1, 1#100)] /\
   Forall (fun f => exists x, In x [(5#1, 1#50); (10#1, 1#100)] /\ fst x == f) [5#1; 10#1]) /\
  M_mpe.mpe_explicit (fn_table fst (pole_table 3 cx_per)) (pay_table snd (pole_table 3 cx_per)) [5#1; 10#1] (M_mpe.OInt 2) 0
    = M_mpe.Ok ([(5#1, Some (1#50)); (10#1, Some (1#100))], M_mpe.OutInt 2).
Proof. split; [exact cx_pole_hyps|vm_compute; reflexivity]. Qed.
