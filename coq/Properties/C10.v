(* C10 - Stability labels follow the soft criteria between consecutive orders.
   Statements only: each theorem is closed by [exact] of a lemma of Proofs/P_sc.v.
   Tables are arbitrary [list (list (option _))] (None = NaN), any shape, any NaN pattern, any number of orders and
   rows; [Shape] and [mac] are arbitrary (the executable instance is [cshape], [mac_q]: complex rational shapes
   with the exact MAC).  Purity/determinism: [label], [sc_apply], [sc_ssi], [sc_plscf] are Gallina functions of the
   three tables, the column range and the three tolerances. *)
From Coq Require Import String List Arith ZArith QArith Qabs Bool Lia.
From PyOMA.Base Require Import Argmin.
From PyOMA.Model Require Import M_sc M_sc_step.
From PyOMA.Proofs Require Import P_sc P_sc_step.
Import ListNotations.
Open Scope Q_scope.

(* Lab[i][o] = 1 exactly when column o is visited (c0 <= o <= c1), is not the first column (o = S o1), the pole and
   the FIRST nearest-in-frequency non-NaN pole k of column o-1 are complete, and the three strict tests hold. *)
Theorem C10_sc_label_spec : forall (Shape:Type) (mac:Shape -> Shape -> option Q) Fn Xi (Phi:list (list (option Shape))) c0 c1 efn exi ephi i o,
  label mac Fn Xi Phi c0 c1 efn exi ephi i o = true <->
  (c0 <= o <= c1)%nat /\
  exists o1 f x p k d f1 x1 p1,
    o = S o1 /\ getQ Fn i o = Some f /\ getQ Xi i o = Some x /\ getS Phi i o = Some p /\
    is_first_argmin (dists Fn o1 f) k d /\
    getQ Fn k o1 = Some f1 /\ getQ Xi k o1 = Some x1 /\ getS Phi k o1 = Some p1 /\
    (~ f == 0 /\ Qabs (f - f1) / f < efn) /\ (~ x == 0 /\ Qabs (x - x1) / x < exi) /\
    (exists v, mac p p1 = Some v /\ 1 - v < ephi).
Proof. exact sc_label_spec. Qed.

(* the same with the relative differences read as |a - a'| / |a| (the property text), on every cell whose own
   frequency and damping are positive - which is every cell of a filtered pole table *)
Theorem C10_sc_label_spec_text : forall (Shape:Type) (mac:Shape -> Shape -> option Q) Fn Xi (Phi:list (list (option Shape))) c0 c1 efn exi ephi i o,
  (forall f, getQ Fn i o = Some f -> 0 < f) -> (forall x, getQ Xi i o = Some x -> 0 < x) ->
  (label mac Fn Xi Phi c0 c1 efn exi ephi i o = true <->
   (c0 <= o <= c1)%nat /\
   exists o1 f x p k d f1 x1 p1,
     o = S o1 /\ getQ Fn i o = Some f /\ getQ Xi i o = Some x /\ getS Phi i o = Some p /\
     is_first_argmin (dists Fn o1 f) k d /\
     getQ Fn k o1 = Some f1 /\ getQ Xi k o1 = Some x1 /\ getS Phi k o1 = Some p1 /\
     (~ f == 0 /\ Qabs (f - f1) / Qabs f < efn) /\ (~ x == 0 /\ Qabs (x - x1) / Qabs x < exi) /\
     (exists v, mac p p1 = Some v /\ 1 - v < ephi)).
Proof. exact sc_label_spec_text. Qed.

(* what [is_first_argmin (dists ...)] says in terms of table cells: k is a row, its frequency is the closest to f among
   all non-NaN cells of the previous column, strictly closer than every earlier row *)
Theorem C10_sc_match_is_closest : forall Fn o1 f k d,
  is_first_argmin (dists Fn o1 f) k d ->
  (k < length Fn)%nat /\
  exists f1, getQ Fn k o1 = Some f1 /\ d = Qabs (f1 - f) /\
    (forall j fj, (j < length Fn)%nat -> getQ Fn j o1 = Some fj -> Qabs (f1 - f) <= Qabs (fj - f)) /\
    (forall j fj, (j < k)%nat -> getQ Fn j o1 = Some fj -> Qabs (f1 - f) < Qabs (fj - f)).
Proof. exact sc_match_is_closest. Qed.

Theorem C10_sc_nan_never_stable : forall (Shape:Type) (mac:Shape -> Shape -> option Q) Fn Xi (Phi:list (list (option Shape))) c0 c1 efn exi ephi i o,
  getQ Fn i o = None \/ getQ Xi i o = None \/ getS Phi i o = None ->
  label mac Fn Xi Phi c0 c1 efn exi ephi i o = false.
Proof. exact sc_nan_never_stable. Qed.

Theorem C10_sc_empty_prev_never_stable : forall (Shape:Type) (mac:Shape -> Shape -> option Q) Fn Xi (Phi:list (list (option Shape))) c0 c1 efn exi ephi i o,
  (forall k, (k < length Fn)%nat -> getQ Fn k (pred o) = None) ->
  label mac Fn Xi Phi c0 c1 efn exi ephi i o = false.
Proof. exact sc_empty_prev_never_stable. Qed.

Theorem C10_sc_first_column_never_stable : forall (Shape:Type) (mac:Shape -> Shape -> option Q) Fn Xi (Phi:list (list (option Shape))) c0 c1 efn exi ephi i,
  label mac Fn Xi Phi c0 c1 efn exi ephi i 0 = false.
Proof. exact sc_first_column_never_stable. Qed.

Theorem C10_sc_outside_range_never_stable : forall (Shape:Type) (mac:Shape -> Shape -> option Q) Fn Xi (Phi:list (list (option Shape))) c0 c1 efn exi ephi i o,
  (o < c0 \/ c1 < o)%nat -> label mac Fn Xi Phi c0 c1 efn exi ephi i o = false.
Proof. exact sc_outside_range_never_stable. Qed.

(* the label of cell (i, o) reads columns o-1 and o of the three tables and nothing else *)
Theorem C10_sc_label_local : forall (Shape:Type) (mac:Shape -> Shape -> option Q) Fn Xi (Phi:list (list (option Shape))) Fn' Xi' (Phi':list (list (option Shape))) c0 c1 efn exi ephi i o,
  length Fn = length Fn' ->
  (forall r, getQ Fn r o = getQ Fn' r o) -> (forall r, getQ Fn r (pred o) = getQ Fn' r (pred o)) ->
  (forall r, getQ Xi r o = getQ Xi' r o) -> (forall r, getQ Xi r (pred o) = getQ Xi' r (pred o)) ->
  (forall r, getS Phi r o = getS Phi' r o) -> (forall r, getS Phi r (pred o) = getS Phi' r (pred o)) ->
  label mac Fn Xi Phi c0 c1 efn exi ephi i o = label mac Fn' Xi' Phi' c0 c1 efn exi ephi i o.
Proof. exact sc_label_local. Qed.

(* what gen.SC_apply returns: a table of the shape of Fn whose entries are the labels, or IndexError *)
Theorem C10_sc_apply_spec : forall (Shape:Type) (mac:Shape -> Shape -> option Q) Fn Xi (Phi:list (list (option Shape))) c0 c1 efn exi ephi L i o,
  sc_apply mac Fn Xi Phi c0 c1 efn exi ephi = ScOk L -> (i < nrows Fn)%nat -> (o < ncols Fn)%nat ->
  (nth o (nth i L []) false = true <->
   (c0 <= o <= c1)%nat /\ stable_spec mac Fn Xi Phi efn exi ephi i o).
Proof. exact sc_apply_spec. Qed.

Theorem C10_sc_apply_dims : forall (Shape:Type) (mac:Shape -> Shape -> option Q) Fn Xi (Phi:list (list (option Shape))) c0 c1 efn exi ephi L,
  sc_apply mac Fn Xi Phi c0 c1 efn exi ephi = ScOk L ->
  length L = nrows Fn /\ forall i, (i < nrows Fn)%nat -> length (nth i L []) = ncols Fn.
Proof. exact sc_apply_dims. Qed.

Theorem C10_sc_apply_index_error_iff : forall (Shape:Type) (mac:Shape -> Shape -> option Q) Fn Xi (Phi:list (list (option Shape))) c0 c1 efn exi ephi,
  sc_apply mac Fn Xi Phi c0 c1 efn exi ephi = ScIndexErr <-> (c0 <= c1 /\ ncols Fn <= c1)%nat.
Proof. exact sc_apply_index_error_iff. Qed.

(* SSI classes: column o holds order o; stable iff ordmin <= order <= ordmax, not the first order, criteria vs order-1 *)
Theorem C10_sc_ssi_orders : forall (Shape:Type) (mac:Shape -> Shape -> option Q) Fn Xi (Phi:list (list (option Shape))) ordmin ordmax efn exi ephi L i o,
  sc_ssi mac Fn Xi Phi ordmin ordmax efn exi ephi = ScOk L -> (i < nrows Fn)%nat -> (o < ncols Fn)%nat ->
  (nth o (nth i L []) false = true <->
   (ordmin <= ssi_order_of_col o <= ordmax)%nat /\ stable_spec mac Fn Xi Phi efn exi ephi i o).
Proof. exact sc_ssi_orders. Qed.

(* pLSCF classes: column k holds order k+1; stable iff ordmin <= k+1 <= ordmax, k+1 is not the first order (k = S _
   inside stable_spec), criteria against column k-1 = order (k+1)-1 *)
Theorem C10_sc_plscf_orders : forall (Shape:Type) (mac:Shape -> Shape -> option Q) Fn Xi (Phi:list (list (option Shape))) ordmin ordmax efn exi ephi L i k,
  sc_plscf mac Fn Xi Phi ordmin ordmax efn exi ephi = ScOk L -> (i < nrows Fn)%nat -> (k < ncols Fn)%nat ->
  (nth k (nth i L []) false = true <->
   (ordmin <= plscf_order_of_col k <= ordmax)%nat /\ stable_spec mac Fn Xi Phi efn exi ephi i k).
Proof. exact sc_plscf_orders. Qed.

Theorem C10_sc_plscf_index_error_iff : forall (Shape:Type) (mac:Shape -> Shape -> option Q) Fn Xi (Phi:list (list (option Shape))) ordmin ordmax efn exi ephi,
  sc_plscf mac Fn Xi Phi ordmin ordmax efn exi ephi = ScIndexErr <->
  (1 <= ordmax /\ ordmin <= ordmax /\ ncols Fn < ordmax)%nat.
Proof. exact sc_plscf_index_error_iff. Qed.

(* the margin classifier the harness uses to decide which cells are judged never contradicts [label] *)
Theorem C10_cell_verdict_sound : forall (Shape:Type) (mac:Shape -> Shape -> option Q) Fn Xi (Phi:list (list (option Shape))) c0 c1 efn exi ephi i o,
  match cell_verdict mac Fn Xi Phi c0 c1 efn exi ephi i o with
  | VStable => label mac Fn Xi Phi c0 c1 efn exi ephi i o = true
  | VNot | VTie => label mac Fn Xi Phi c0 c1 efn exi ephi i o = false
  | VNear => True
  end.
Proof. exact cell_verdict_sound. Qed.

(* the executable MAC of the closed instance is |x^H a|^2 / ((x^H x)(a^H a)); undefined exactly for unequal lengths or a zero shape *)
Theorem C10_mac_q_some : forall x a v,
  mac_q x a = Some v -> length x = length a /\ ~ hre x x * hre a a == 0 /\ v == mac_ref x a.
Proof. exact mac_q_some. Qed.
Theorem C10_mac_q_none : forall x a,
  mac_q x a = None <-> length x <> length a \/ hre x x * hre a a == 0.
Proof. exact mac_q_none. Qed.

(* ================= the loop of gen.SC_apply for EVERY step, and the six classes (M_sc_step.v) =================
   [sc_apply_step mac Fn Xi Phi ordmin ordmax step efn exi ephi] executes the loop
   "for oo in range(ordmin, ordmax+1, step): o = int(oo/step); ... Lab[:, o] = ..." on a zero label table. *)

(* every table, NaN pattern, step, ordmin, ordmax: cell (i, c) is labelled iff a requested order oo = ordmin + j*step
   <= ordmax is looked up in column c (that order is c*step + ordmin mod step) and the criteria hold against the first
   nearest-in-frequency pole of column c-1 *)
Theorem C10_sc_step_spec : forall (Shape:Type) (mac:Shape -> Shape -> option Q) Fn Xi (Phi:list (list (option Shape))) ordmin ordmax step efn exi ephi L i c,
  sc_apply_step mac Fn Xi Phi ordmin ordmax step efn exi ephi = SsOk L -> (i < nrows Fn)%nat -> (c < ncols Fn)%nat ->
  (nth c (nth i L []) false = true <->
   (ordmin <= c * step + ordmin mod step <= ordmax)%nat /\ stable_spec mac Fn Xi Phi efn exi ephi i c).
Proof. exact sc_step_spec. Qed.

(* the arithmetic condition is "some requested order lands in column c" *)
Theorem C10_col_requested_iff : forall start stop step c,
  step <> 0%nat ->
  ((exists oo j, (oo = start + j * step /\ oo < stop /\ oo / step = c)%nat) <-> (start <= c * step + start mod step < stop)%nat).
Proof. exact col_requested_iff. Qed.

(* ordmin on the order grid (always so for step = 1): column c stands for order c*step, and it is labelled iff
   ordmin <= c*step <= ordmax and the criteria hold against the previous order's column c-1 *)
Theorem C10_sc_step_spec_aligned : forall (Shape:Type) (mac:Shape -> Shape -> option Q) Fn Xi (Phi:list (list (option Shape))) ordmin ordmax step efn exi ephi L i c,
  sc_apply_step mac Fn Xi Phi ordmin ordmax step efn exi ephi = SsOk L -> (i < nrows Fn)%nat -> (c < ncols Fn)%nat ->
  Nat.divide step ordmin ->
  (nth c (nth i L []) false = true <->
   (ordmin <= c * step <= ordmax)%nat /\ stable_spec mac Fn Xi Phi efn exi ephi i c).
Proof. exact sc_step_spec_aligned. Qed.

(* off the grid the order reading fails in both directions (replayed on gen.SC_apply by the harness: model = code) *)
Theorem C10_sc_step_order_reading_refuted :
  (exists L, sc_apply_step mac_q rf_Fn rf_Xi rf_Phi 3 3 2 (1#64) (1#16) (1#32) = SsOk L /\
             nth 1 (nth 0 L []) false = true /\ ~ (3 <= 1 * 2 <= 3)%nat) /\
  (exists L, sc_apply_step mac_q rf_Fn rf_Xi rf_Phi 1 2 2 (1#64) (1#16) (1#32) = SsOk L /\
             nth 1 (nth 0 L []) false = false /\ (1 <= 1 * 2 <= 2)%nat /\
             stable_spec mac_q rf_Fn rf_Xi rf_Phi (1#64) (1#16) (1#32) 0 1).
Proof. exact sc_step_order_reading_refuted. Qed.

Theorem C10_sc_step_never_stable : forall (Shape:Type) (mac:Shape -> Shape -> option Q) Fn Xi (Phi:list (list (option Shape))) ordmin ordmax step efn exi ephi L i c,
  sc_apply_step mac Fn Xi Phi ordmin ordmax step efn exi ephi = SsOk L -> (i < nrows Fn)%nat -> (c < ncols Fn)%nat ->
  c = 0%nat \/ (getQ Fn i c = None \/ getQ Xi i c = None \/ getS Phi i c = None) \/
  (forall k, (k < List.length Fn)%nat -> getQ Fn k (pred c) = None) \/
  ~ (ordmin <= c * step + ordmin mod step <= ordmax)%nat ->
  nth c (nth i L []) false = false.
Proof. exact sc_step_never_stable. Qed.

Theorem C10_sc_step_dims : forall (Shape:Type) (mac:Shape -> Shape -> option Q) Fn Xi (Phi:list (list (option Shape))) ordmin ordmax step efn exi ephi L,
  sc_apply_step mac Fn Xi Phi ordmin ordmax step efn exi ephi = SsOk L ->
  List.length L = nrows Fn /\ forall i, (i < nrows Fn)%nat -> List.length (nth i L []) = ncols Fn.
Proof. intros Shape mac Fn Xi Phi ordmin ordmax step. exact (sc_range_dims Shape mac Fn Xi Phi ordmin (S ordmax) step). Qed.

Theorem C10_sc_step_value_error_iff : forall (Shape:Type) (mac:Shape -> Shape -> option Q) Fn Xi (Phi:list (list (option Shape))) ordmin ordmax step efn exi ephi,
  sc_apply_step mac Fn Xi Phi ordmin ordmax step efn exi ephi = SsValueErr <-> step = 0%nat.
Proof. intros Shape mac Fn Xi Phi ordmin ordmax step. exact (sc_range_value_error_iff Shape mac Fn Xi Phi ordmin (S ordmax) step). Qed.

Theorem C10_sc_step_index_error_iff : forall (Shape:Type) (mac:Shape -> Shape -> option Q) Fn Xi (Phi:list (list (option Shape))) ordmin ordmax step efn exi ephi,
  sc_apply_step mac Fn Xi Phi ordmin ordmax step efn exi ephi = SsIndexErr <->
  step <> 0%nat /\ exists c, (ordmin <= c * step + ordmin mod step < S ordmax)%nat /\ (ncols Fn <= c)%nat.
Proof. intros Shape mac Fn Xi Phi ordmin ordmax step. exact (sc_range_index_error_iff Shape mac Fn Xi Phi ordmin (S ordmax) step). Qed.

(* the loop writes no column twice (so "unchanged on a caught exception" is 0) *)
Theorem C10_sc_step_visits_once : forall start stop step, step <> 0%nat -> NoDup (visited start stop step).
Proof. exact visited_nodup. Qed.

(* step = 1: the loop is the interval model of the theorems above, cell by cell and error by error *)
Theorem C10_sc_step1_entry : forall (Shape:Type) (mac:Shape -> Shape -> option Q) Fn Xi (Phi:list (list (option Shape))) c0 c1 efn exi ephi L i c,
  sc_apply_step mac Fn Xi Phi c0 c1 1 efn exi ephi = SsOk L -> (i < nrows Fn)%nat -> (c < ncols Fn)%nat ->
  nth c (nth i L []) false = label mac Fn Xi Phi c0 c1 efn exi ephi i c.
Proof. exact sc_step1_entry. Qed.
Theorem C10_sc_step1_error_agrees : forall (Shape:Type) (mac:Shape -> Shape -> option Q) Fn Xi (Phi:list (list (option Shape))) c0 c1 efn exi ephi,
  sc_apply_step mac Fn Xi Phi c0 c1 1 efn exi ephi = SsIndexErr <-> sc_apply mac Fn Xi Phi c0 c1 efn exi ephi = ScIndexErr.
Proof. exact sc_step1_error_agrees. Qed.

(* result.Lab of SSIdat / SSIcov / SSIdat_MS / SSIcov_MS / pLSCF / pLSCF_MS from their run parameters
   (class_lab = the loop on the arguments [class_args] builds: tolerances read from sc by key; SSI passes
   ordmin, ordmax, step; pLSCF passes max(ordmin-1,0), ordmax-1, 1) *)
Theorem C10_class_lab_spec : forall (Shape:Type) (mac:Shape -> Shape -> option Q) c p Fn Xi (Phi:list (list (option Shape))) L i col,
  class_lab mac c p Fn Xi Phi = SsOk L -> (i < nrows Fn)%nat -> (col < ncols Fn)%nat ->
  exists efn exi ephi,
    lookup "err_fn" (rp_sc p) = Some efn /\ lookup "err_xi" (rp_sc p) = Some exi /\ lookup "err_phi" (rp_sc p) = Some ephi /\
    (nth col (nth i L []) false = true <->
     (if is_plscf c then (rp_ordmin p <= class_order c p col <= rp_ordmax p)%nat
      else (rp_ordmin p <= class_order c p col + rp_ordmin p mod rp_step p <= rp_ordmax p)%nat) /\
     stable_spec mac Fn Xi Phi efn exi ephi i col).
Proof. exact class_lab_spec. Qed.

(* the property's reading, all six classes: the pole in column col is labelled iff the ORDER that column stands for
   (col+1 for pLSCF, col*step for SSI) lies in [ordmin, ordmax] and the criteria hold against column col-1 *)
Theorem C10_class_lab_spec_orders : forall (Shape:Type) (mac:Shape -> Shape -> option Q) c p Fn Xi (Phi:list (list (option Shape))) L i col,
  class_lab mac c p Fn Xi Phi = SsOk L -> (i < nrows Fn)%nat -> (col < ncols Fn)%nat ->
  is_plscf c = true \/ Nat.divide (rp_step p) (rp_ordmin p) ->
  exists efn exi ephi,
    lookup "err_fn" (rp_sc p) = Some efn /\ lookup "err_xi" (rp_sc p) = Some exi /\ lookup "err_phi" (rp_sc p) = Some ephi /\
    (nth col (nth i L []) false = true <->
     (rp_ordmin p <= class_order c p col <= rp_ordmax p)%nat /\ stable_spec mac Fn Xi Phi efn exi ephi i col).
Proof. exact class_lab_spec_orders. Qed.

(* on tables of the width the class builds (ordmax/step + 1 columns for SSI, ordmax for pLSCF) the call stays inside the table *)
Theorem C10_class_lab_total : forall (Shape:Type) (mac:Shape -> Shape -> option Q) c p Fn Xi (Phi:list (list (option Shape))) efn exi ephi,
  lookup "err_fn" (rp_sc p) = Some efn -> lookup "err_xi" (rp_sc p) = Some exi -> lookup "err_phi" (rp_sc p) = Some ephi ->
  ncols Fn = class_ncols c p -> is_plscf c = true \/ rp_step p <> 0%nat ->
  exists L, class_lab mac c p Fn Xi Phi = SsOk L.
Proof. exact class_lab_total. Qed.

Theorem C10_class_lab_key_error_iff : forall (Shape:Type) (mac:Shape -> Shape -> option Q) c p Fn Xi (Phi:list (list (option Shape))),
  (exists k, class_lab mac c p Fn Xi Phi = SsKeyErr k) <->
  lookup "err_fn" (rp_sc p) = None \/ lookup "err_xi" (rp_sc p) = None \/ lookup "err_phi" (rp_sc p) = None.
Proof. exact class_lab_key_error_iff. Qed.

(* purity: the labels are a function of the tables, ordmin, ordmax, step and the three tolerances read by key *)
Theorem C10_class_lab_pure : forall (Shape:Type) (mac:Shape -> Shape -> option Q) c p p' Fn Xi (Phi:list (list (option Shape))),
  rp_ordmin p = rp_ordmin p' -> rp_ordmax p = rp_ordmax p' -> rp_step p = rp_step p' ->
  lookup "err_fn" (rp_sc p) = lookup "err_fn" (rp_sc p') -> lookup "err_xi" (rp_sc p) = lookup "err_xi" (rp_sc p') ->
  lookup "err_phi" (rp_sc p) = lookup "err_phi" (rp_sc p') ->
  class_lab mac c p Fn Xi Phi = class_lab mac c p' Fn Xi Phi.
Proof. exact class_lab_pure. Qed.

(* ... and not of the order in which the items of sc were inserted *)
Theorem C10_class_lab_key_order : forall (Shape:Type) (mac:Shape -> Shape -> option Q) c p sc' Fn Xi (Phi:list (list (option Shape))),
  NoDup (map fst (rp_sc p)) -> Permutation.Permutation (rp_sc p) sc' ->
  class_lab mac c {| rp_ordmin := rp_ordmin p; rp_ordmax := rp_ordmax p; rp_step := rp_step p; rp_sc := sc' |} Fn Xi Phi =
  class_lab mac c p Fn Xi Phi.
Proof. exact class_lab_key_order. Qed.

Print Assumptions C10_sc_label_spec.
Print Assumptions C10_sc_label_spec_text.
Print Assumptions C10_sc_match_is_closest.
Print Assumptions C10_sc_nan_never_stable.
Print Assumptions C10_sc_empty_prev_never_stable.
Print Assumptions C10_sc_first_column_never_stable.
Print Assumptions C10_sc_outside_range_never_stable.
Print Assumptions C10_sc_label_local.
Print Assumptions C10_sc_apply_spec.
Print Assumptions C10_sc_apply_dims.
Print Assumptions C10_sc_apply_index_error_iff.
Print Assumptions C10_sc_ssi_orders.
Print Assumptions C10_sc_plscf_orders.
Print Assumptions C10_sc_plscf_index_error_iff.
Print Assumptions C10_cell_verdict_sound.
Print Assumptions C10_mac_q_some.
Print Assumptions C10_mac_q_none.
Print Assumptions C10_sc_step_spec.
Print Assumptions C10_col_requested_iff.
Print Assumptions C10_sc_step_spec_aligned.
Print Assumptions C10_sc_step_order_reading_refuted.
Print Assumptions C10_sc_step_never_stable.
Print Assumptions C10_sc_step_dims.
Print Assumptions C10_sc_step_value_error_iff.
Print Assumptions C10_sc_step_index_error_iff.
Print Assumptions C10_sc_step_visits_once.
Print Assumptions C10_sc_step1_entry.
Print Assumptions C10_sc_step1_error_agrees.
Print Assumptions C10_class_lab_spec.
Print Assumptions C10_class_lab_spec_orders.
Print Assumptions C10_class_lab_total.
Print Assumptions C10_class_lab_key_error_iff.
Print Assumptions C10_class_lab_pure.
Print Assumptions C10_class_lab_key_order.

(* non-vacuity.  2 poles x 3 columns, 2 complex channels.  Column 1 holds one pole (2 Hz, 1/32); column 2 holds a far
   pole (5 Hz) in row 0 and in row 1 a pole 1/64 Hz away, damping 1/1024 away, shape multiplied by i (MAC = 1). *)
Definition ex_Fn : list (list (option Q)) := [[None; Some 2; Some 5]; [None; None; Some (129#64)]].
Definition ex_Xi : list (list (option Q)) := [[None; Some (1#32); Some (1#16)]; [None; None; Some (33#1024)]].
Definition ex_Phi : list (list (list (option (Q*Q)))) :=
  [[[None; None]; [Some (1, 0); Some (1#2, 1#4)]; [Some (1, 0); Some (-(1), 1#2)]];
   [[None; None]; [None; None];                  [Some (0, 1); Some (-(1#4), 1#2)]]].

(* as an SSI table (orders 0,1,2), all orders requested: exactly the pole (1, order 2) is stable *)
Example C10_example_ssi :
  show_labels (ssi_labels ex_Fn ex_Xi ex_Phi 0 2 (1#64) (1#16) (1#32)) = "000;001"%string.
Proof. vm_compute. reflexivity. Qed.
(* as a pLSCF table (orders 1,2,3) with ordmin = ordmax = 3: order 3 = column 2 is labelled (the repaired call) *)
Example C10_example_plscf :
  show_labels (plscf_labels ex_Fn ex_Xi ex_Phi 3 3 (1#64) (1#16) (1#32)) = "000;001"%string /\
  show_labels (plscf_labels ex_Fn ex_Xi ex_Phi 3 4 (1#64) (1#16) (1#32)) = "IndexError"%string.
Proof. vm_compute. split; reflexivity. Qed.
(* the right-hand side of C10_sc_label_spec is inhabited on this instance *)
Example C10_example_spec :
  (0 <= 2 <= 2)%nat /\ stable_spec mac_q ex_Fn ex_Xi (norm_phi ex_Phi) (1#64) (1#16) (1#32) 1 2.
Proof. apply sc_label_spec. vm_compute. reflexivity. Qed.
(* the code divides by the signed value: a pole with negative damping passes the damping test whatever the
   difference (here |xi - xi'| / |xi| = 2 against err_xi = 1/16); such poles never occur in a filtered table *)
Example C10_example_signed_division :
  label mac_q [[None; Some 2; Some 2]] [[None; Some (1#32); Some (-(1#32))]]
        (norm_phi [[[None]; [Some (1,0)]; [Some (1,0)]]]) 0 2 (1#64) (1#16) (1#32) 0 2 = true.
Proof. vm_compute. reflexivity. Qed.

(* ---- step 2: a 2 x 4 table whose columns stand for orders 0, 2, 4, 6 (SSI axis with step 2) ---- *)
Definition st_Fn : list (list (option Q)) := [[None; Some 2; Some (129#64); Some 5]; [None; None; Some 7; Some (131#64)]].
Definition st_Xi : list (list (option Q)) := [[None; Some (1#32); Some (33#1024); Some (1#16)]; [None; None; Some (1#32); Some (1#32)]].
Definition st_Phi : list (list (list (option (Q*Q)))) :=
  [[[None; None]; [Some (1, 0); Some (1#2, 1#4)]; [Some (0, 1); Some (-(1#4), 1#2)]; [Some (1, 0); Some (-(1), 1#2)]];
   [[None; None]; [None; None];                  [Some (1, 0); Some (-(1), 1#2)];   [Some (2, 0); Some (1, 1#2)]]].
Definition st_sc : list (string * Q) := [("err_phi"%string, 1#32); ("err_fn"%string, 1#32); ("err_xi"%string, 1#16)].
(* all orders; ordmin = 4 (on the grid: order 2 is not asked for, but its poles were never stable);
   ordmin = 6: only order 6; ordmin = 3 (off the grid): columns 1, 2 are visited, order 6 is not;
   ordmax = 8: beyond the table *)
Example C10_example_step :
  show_ss (sc_apply_step mac_q st_Fn st_Xi (norm_phi st_Phi) 0 6 2 (1#32) (1#16) (1#32)) = "0010;0001"%string /\
  show_ss (sc_apply_step mac_q st_Fn st_Xi (norm_phi st_Phi) 6 6 2 (1#32) (1#16) (1#32)) = "0000;0001"%string /\
  show_ss (sc_apply_step mac_q st_Fn st_Xi (norm_phi st_Phi) 3 6 2 (1#32) (1#16) (1#32)) = "0010;0000"%string /\
  show_ss (sc_apply_step mac_q st_Fn st_Xi (norm_phi st_Phi) 0 8 2 (1#32) (1#16) (1#32)) = "IndexError"%string /\
  show_ss (sc_apply_step mac_q st_Fn st_Xi (norm_phi st_Phi) 0 6 0 (1#32) (1#16) (1#32)) = "ValueError"%string.
Proof. vm_compute. repeat split; reflexivity. Qed.
(* the hypotheses of C10_sc_step_spec_aligned and the right-hand side of its equivalence hold at (row 1, column 3 = order 6) *)
Example C10_example_step_spec :
  Nat.divide 2 4 /\ (4 <= 3 * 2 <= 6)%nat /\ stable_spec mac_q st_Fn st_Xi (norm_phi st_Phi) (1#32) (1#16) (1#32) 1 3.
Proof. split; [exists 2%nat; reflexivity|]. split; [lia|]. apply stable_at_iff. vm_compute. reflexivity. Qed.
(* class level: SSIcov with ordmin 4, ordmax 6, step 2 passes (4, 6, 2) - printed as start stop step = 4 7 2 -;
   pLSCF_MS with ordmin 3, ordmax 4 on the same table read as orders 1..4 passes (2, 3, 1); sc is read by key *)
Example C10_example_class :
  run_cls 1 4 6 2 st_sc st_Fn st_Xi st_Phi = "4 7 2 1/32 1/16 1/32|0010;0001|FFTF;FFFT"%string /\
  run_cls 5 3 4 9 st_sc st_Fn st_Xi st_Phi = "2 4 1 1/32 1/16 1/32|0010;0001|FFTF;FFFT"%string /\
  run_cls 5 3 4 9 (tl st_sc) st_Fn st_Xi st_Phi = "KeyError err_phi|KeyError err_phi|"%string /\
  ncols st_Fn = class_ncols SSIcov {| rp_ordmin := 4; rp_ordmax := 6; rp_step := 2; rp_sc := st_sc |} /\
  NoDup (map fst st_sc).
Proof.
  split; [vm_compute; reflexivity|]. split; [vm_compute; reflexivity|]. split; [vm_compute; reflexivity|].
  split; [vm_compute; reflexivity|].
  repeat constructor; cbn; intros H; repeat (destruct H as [H|H]; [discriminate|]); exact H.
Qed.
