(* C10 - Stability labels follow the soft criteria between consecutive orders.
   Statements only: each theorem is closed by [exact] of a lemma of Proofs/P_sc.v.
   Tables are arbitrary [list (list (option _))] (None = NaN), any shape, any NaN pattern, any number of orders and
   rows; [Shape] and [mac] are arbitrary (the executable instance is [cshape], [mac_q]: complex rational shapes
   with the exact MAC).  Purity/determinism: [label], [sc_apply], [sc_ssi], [sc_plscf] are Gallina functions of the
   three tables, the column range and the three tolerances. *)
From Coq Require Import String List Arith ZArith QArith Qabs Bool.
From PyOMA.Base Require Import Argmin.
From PyOMA.Model Require Import M_sc.
From PyOMA.Proofs Require Import P_sc.
Import ListNotations.
Open Scope Q_scope.

(* Lab[i][o] = 1 exactly when column o is visited (c0 <= o <= c1), is not the first column (o = S o1), the pole and
   the FIRST nearest-in-frequency non-NaN pole k of column o-1 are complete, and the three strict tests hold. *)
Theorem C10_sc_label_spec : forall (Shape:Type) (mac:Shape -> Shape -> option Q) Fn Xi (Phi:list (list (option Shape))) c0 c1 efn exi ephi i o,
  label mac Fn Xi Phi c0 c1 efn exi ephi i o = true <->
  (c0 <= o <= c1)%nat /\
  exists o1 f x p k d f1 x1 p1,
    o = S o1 /\ getQ Fn i o = Some f /\ getQ Xi i o = Some x /\ getS Phi i o = Some p /\
    is_first_argmin (dists Fn o1 f) k d /\
    getQ Fn k o1 = Some f1 /\ getQ Xi k o1 = Some x1 /\ getS Phi k o1 = Some p1 /\
    (~ f == 0 /\ Qabs (f - f1) / f < efn) /\ (~ x == 0 /\ Qabs (x - x1) / x < exi) /\
    (exists v, mac p p1 = Some v /\ 1 - v < ephi).
Proof. exact sc_label_spec. Qed.

(* the same with the relative differences read as |a - a'| / |a| (the property text), on every cell whose own
   frequency and damping are positive - which is every cell of a filtered pole table *)
Theorem C10_sc_label_spec_text : forall (Shape:Type) (mac:Shape -> Shape -> option Q) Fn Xi (Phi:list (list (option Shape))) c0 c1 efn exi ephi i o,
  (forall f, getQ Fn i o = Some f -> 0 < f) -> (forall x, getQ Xi i o = Some x -> 0 < x) ->
  (label mac Fn Xi Phi c0 c1 efn exi ephi i o = true <->
   (c0 <= o <= c1)%nat /\
   exists o1 f x p k d f1 x1 p1,
     o = S o1 /\ getQ Fn i o = Some f /\ getQ Xi i o = Some x /\ getS Phi i o = Some p /\
     is_first_argmin (dists Fn o1 f) k d /\
     getQ Fn k o1 = Some f1 /\ getQ Xi k o1 = Some x1 /\ getS Phi k o1 = Some p1 /\
     (~ f == 0 /\ Qabs (f - f1) / Qabs f < efn) /\ (~ x == 0 /\ Qabs (x - x1) / Qabs x < exi) /\
     (exists v, mac p p1 = Some v /\ 1 - v < ephi)).
Proof. exact sc_label_spec_text. Qed.

(* what [is_first_argmin (dists ...)] says in terms of table cells: k is a row, its frequency is the closest to f among
   all non-NaN cells of the previous column, strictly closer than every earlier row *)
Theorem C10_sc_match_is_closest : forall Fn o1 f k d,
  is_first_argmin (dists Fn o1 f) k d ->
  (k < length Fn)%nat /\
  exists f1, getQ Fn k o1 = Some f1 /\ d = Qabs (f1 - f) /\
    (forall j fj, (j < length Fn)%nat -> getQ Fn j o1 = Some fj -> Qabs (f1 - f) <= Qabs (fj - f)) /\
    (forall j fj, (j < k)%nat -> getQ Fn j o1 = Some fj -> Qabs (f1 - f) < Qabs (fj - f)).
Proof. exact sc_match_is_closest. Qed.

Theorem C10_sc_nan_never_stable : forall (Shape:Type) (mac:Shape -> Shape -> option Q) Fn Xi (Phi:list (list (option Shape))) c0 c1 efn exi ephi i o,
  getQ Fn i o = None \/ getQ Xi i o = None \/ getS Phi i o = None ->
  label mac Fn Xi Phi c0 c1 efn exi ephi i o = false.
Proof. exact sc_nan_never_stable. Qed.

Theorem C10_sc_empty_prev_never_stable : forall (Shape:Type) (mac:Shape -> Shape -> option Q) Fn Xi (Phi:list (list (option Shape))) c0 c1 efn exi ephi i o,
  (forall k, (k < length Fn)%nat -> getQ Fn k (pred o) = None) ->
  label mac Fn Xi Phi c0 c1 efn exi ephi i o = false.
Proof. exact sc_empty_prev_never_stable. Qed.

Theorem C10_sc_first_column_never_stable : forall (Shape:Type) (mac:Shape -> Shape -> option Q) Fn Xi (Phi:list (list (option Shape))) c0 c1 efn exi ephi i,
  label mac Fn Xi Phi c0 c1 efn exi ephi i 0 = false.
Proof. exact sc_first_column_never_stable. Qed.

Theorem C10_sc_outside_range_never_stable : forall (Shape:Type) (mac:Shape -> Shape -> option Q) Fn Xi (Phi:list (list (option Shape))) c0 c1 efn exi ephi i o,
  (o < c0 \/ c1 < o)%nat -> label mac Fn Xi Phi c0 c1 efn exi ephi i o = false.
Proof. exact sc_outside_range_never_stable. Qed.

(* the label of cell (i, o) reads columns o-1 and o of the three tables and nothing else *)
Theorem C10_sc_label_local : forall (Shape:Type) (mac:Shape -> Shape -> option Q) Fn Xi (Phi:list (list (option Shape))) Fn' Xi' (Phi':list (list (option Shape))) c0 c1 efn exi ephi i o,
  length Fn = length Fn' ->
  (forall r, getQ Fn r o = getQ Fn' r o) -> (forall r, getQ Fn r (pred o) = getQ Fn' r (pred o)) ->
  (forall r, getQ Xi r o = getQ Xi' r o) -> (forall r, getQ Xi r (pred o) = getQ Xi' r (pred o)) ->
  (forall r, getS Phi r o = getS Phi' r o) -> (forall r, getS Phi r (pred o) = getS Phi' r (pred o)) ->
  label mac Fn Xi Phi c0 c1 efn exi ephi i o = label mac Fn' Xi' Phi' c0 c1 efn exi ephi i o.
Proof. exact sc_label_local. Qed.

(* what gen.SC_apply returns: a table of the shape of Fn whose entries are the labels, or IndexError *)
Theorem C10_sc_apply_spec : forall (Shape:Type) (mac:Shape -> Shape -> option Q) Fn Xi (Phi:list (list (option Shape))) c0 c1 efn exi ephi L i o,
  sc_apply mac Fn Xi Phi c0 c1 efn exi ephi = ScOk L -> (i < nrows Fn)%nat -> (o < ncols Fn)%nat ->
  (nth o (nth i L []) false = true <->
   (c0 <= o <= c1)%nat /\ stable_spec mac Fn Xi Phi efn exi ephi i o).
Proof. exact sc_apply_spec. Qed.

Theorem C10_sc_apply_dims : forall (Shape:Type) (mac:Shape -> Shape -> option Q) Fn Xi (Phi:list (list (option Shape))) c0 c1 efn exi ephi L,
  sc_apply mac Fn Xi Phi c0 c1 efn exi ephi = ScOk L ->
  length L = nrows Fn /\ forall i, (i < nrows Fn)%nat -> length (nth i L []) = ncols Fn.
Proof. exact sc_apply_dims. Qed.

Theorem C10_sc_apply_index_error_iff : forall (Shape:Type) (mac:Shape -> Shape -> option Q) Fn Xi (Phi:list (list (option Shape))) c0 c1 efn exi ephi,
  sc_apply mac Fn Xi Phi c0 c1 efn exi ephi = ScIndexErr <-> (c0 <= c1 /\ ncols Fn <= c1)%nat.
Proof. exact sc_apply_index_error_iff. Qed.

(* SSI classes: column o holds order o; stable iff ordmin <= order <= ordmax, not the first order, criteria vs order-1 *)
Theorem C10_sc_ssi_orders : forall (Shape:Type) (mac:Shape -> Shape -> option Q) Fn Xi (Phi:list (list (option Shape))) ordmin ordmax efn exi ephi L i o,
  sc_ssi mac Fn Xi Phi ordmin ordmax efn exi ephi = ScOk L -> (i < nrows Fn)%nat -> (o < ncols Fn)%nat ->
  (nth o (nth i L []) false = true <->
   (ordmin <= ssi_order_of_col o <= ordmax)%nat /\ stable_spec mac Fn Xi Phi efn exi ephi i o).
Proof. exact sc_ssi_orders. Qed.

(* pLSCF classes: column k holds order k+1; stable iff ordmin <= k+1 <= ordmax, k+1 is not the first order (k = S _
   inside stable_spec), criteria against column k-1 = order (k+1)-1 *)
Theorem C10_sc_plscf_orders : forall (Shape:Type) (mac:Shape -> Shape -> option Q) Fn Xi (Phi:list (list (option Shape))) ordmin ordmax efn exi ephi L i k,
  sc_plscf mac Fn Xi Phi ordmin ordmax efn exi ephi = ScOk L -> (i < nrows Fn)%nat -> (k < ncols Fn)%nat ->
  (nth k (nth i L []) false = true <->
   (ordmin <= plscf_order_of_col k <= ordmax)%nat /\ stable_spec mac Fn Xi Phi efn exi ephi i k).
Proof. exact sc_plscf_orders. Qed.

Theorem C10_sc_plscf_index_error_iff : forall (Shape:Type) (mac:Shape -> Shape -> option Q) Fn Xi (Phi:list (list (option Shape))) ordmin ordmax efn exi ephi,
  sc_plscf mac Fn Xi Phi ordmin ordmax efn exi ephi = ScIndexErr <->
  (1 <= ordmax /\ ordmin <= ordmax /\ ncols Fn < ordmax)%nat.
Proof. exact sc_plscf_index_error_iff. Qed.

(* the margin classifier the harness uses to decide which cells are judged never contradicts [label] *)
Theorem C10_cell_verdict_sound : forall (Shape:Type) (mac:Shape -> Shape -> option Q) Fn Xi (Phi:list (list (option Shape))) c0 c1 efn exi ephi i o,
  match cell_verdict mac Fn Xi Phi c0 c1 efn exi ephi i o with
  | VStable => label mac Fn Xi Phi c0 c1 efn exi ephi i o = true
  | VNot | VTie => label mac Fn Xi Phi c0 c1 efn exi ephi i o = false
  | VNear => True
  end.
Proof. exact cell_verdict_sound. Qed.

(* the executable MAC of the closed instance is |x^H a|^2 / ((x^H x)(a^H a)); undefined exactly for unequal lengths or a zero shape *)
Theorem C10_mac_q_some : forall x a v,
  mac_q x a = Some v -> length x = length a /\ ~ hre x x * hre a a == 0 /\ v == mac_ref x a.
Proof. exact mac_q_some. Qed.
Theorem C10_mac_q_none : forall x a,
  mac_q x a = None <-> length x <> length a \/ hre x x * hre a a == 0.
Proof. exact mac_q_none. Qed.

Print Assumptions C10_sc_label_spec.
Print Assumptions C10_sc_label_spec_text.
Print Assumptions C10_sc_match_is_closest.
Print Assumptions C10_sc_nan_never_stable.
Print Assumptions C10_sc_empty_prev_never_stable.
Print Assumptions C10_sc_first_column_never_stable.
Print Assumptions C10_sc_outside_range_never_stable.
Print Assumptions C10_sc_label_local.
Print Assumptions C10_sc_apply_spec.
Print Assumptions C10_sc_apply_dims.
Print Assumptions C10_sc_apply_index_error_iff.
Print Assumptions C10_sc_ssi_orders.
Print Assumptions C10_sc_plscf_orders.
Print Assumptions C10_sc_plscf_index_error_iff.
Print Assumptions C10_cell_verdict_sound.
Print Assumptions C10_mac_q_some.
Print Assumptions C10_mac_q_none.

(* non-vacuity.  2 poles x 3 columns, 2 complex channels.  Column 1 holds one pole (2 Hz, 1/32); column 2 holds a far
   pole (5 Hz) in row 0 and in row 1 a pole 1/64 Hz away, damping 1/1024 away, shape multiplied by i (MAC = 1). *)
Definition ex_Fn : list (list (option Q)) := [[None; Some 2; Some 5]; [None; None; Some (129#64)]].
Definition ex_Xi : list (list (option Q)) := [[None; Some (1#32); Some (1#16)]; [None; None; Some (33#1024)]].
Definition ex_Phi : list (list (list (option (Q*Q)))) :=
  [[[None; None]; [Some (1, 0); Some (1#2, 1#4)]; [Some (1, 0); Some (-(1), 1#2)]];
   [[None; None]; [None; None];                  [Some (0, 1); Some (-(1#4), 1#2)]]].

(* as an SSI table (orders 0,1,2), all orders requested: exactly the pole (1, order 2) is stable *)
Example C10_example_ssi :
  show_labels (ssi_labels ex_Fn ex_Xi ex_Phi 0 2 (1#64) (1#16) (1#32)) = "000;001"%string.
Proof. vm_compute. reflexivity. Qed.
(* as a pLSCF table (orders 1,2,3) with ordmin = ordmax = 3: order 3 = column 2 is labelled (the repaired call) *)
Example C10_example_plscf :
  show_labels (plscf_labels ex_Fn ex_Xi ex_Phi 3 3 (1#64) (1#16) (1#32)) = "000;001"%string /\
  show_labels (plscf_labels ex_Fn ex_Xi ex_Phi 3 4 (1#64) (1#16) (1#32)) = "IndexError"%string.
Proof. vm_compute. split; reflexivity. Qed.
(* the right-hand side of C10_sc_label_spec is inhabited on this instance *)
Example C10_example_spec :
  (0 <= 2 <= 2)%nat /\ stable_spec mac_q ex_Fn ex_Xi (norm_phi ex_Phi) (1#64) (1#16) (1#32) 1 2.
Proof. apply sc_label_spec. vm_compute. reflexivity. Qed.
(* the code divides by the signed value: a pole with negative damping passes the damping test whatever the
   difference (here |xi - xi'| / |xi| = 2 against err_xi = 1/16); such poles never occur in a filtered table *)
Example C10_example_signed_division :
  label mac_q [[None; Some 2; Some 2]] [[None; Some (1#32); Some (-(1#32))]]
        (norm_phi [[[None]; [Some (1,0)]; [Some (1,0)]]]) 0 2 (1#64) (1#16) (1#32) 0 2 = true.
Proof. vm_compute. reflexivity. Qed.
