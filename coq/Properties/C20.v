(* C20 - Diagrams show exactly the identified poles at their frequency, order and damping; CMIF curves.
   Statements only: each theorem is closed by [exact] of a lemma of Proofs/P_plot.v.
   Vocabulary (Model/M_plot.v): tables are lists of rows [row][order-column], nan = None;
     rect rows cols t            t has rows rows of cols entries
     get2 t i o                  t[i][o] (None outside the table)
     pole_with_label Fn Lab l .. i o   cell (i,o) is inside the table, Lab[i][o] = l and Fn[i][o] is finite
     marker_at Fn step c m       marker m = (Fn[c], column(c) * step)
     cluster_at Fn Xi c m        marker m = (Fn[c], Xi[c])
   Whole diagrams and class methods (Model/M_plot_full.v):
     stab_diagram Fn Lab step ordmax ordmin freqlim hide cov   everything stab_plot draws: markers, four error-bar families, axis limits
     bar_at Fn Cov step c b      bar b = (Fn[c], column(c) * step, errw Cov[c] Fn[c])  - the pole's OWN deviation cell
     bar_cell Fn Cov Lab l big .. i o   retained pole with label l, finite deviation, |cov * f| <= 1/2 (big = false) / > 1/2 (big = true)
     cluster_diagram, cmif_diagram db S freq freqlim nSv        the other two functions with grid and limits (db = decibel map)
     class_plot_stab / _cluster / _cmif c res rs ..             keyword arguments a class's plot method hands to the plot function
     class_stab_diagram ..       the diagram that method returns (Called d), NotRun = raises before plotting, NoMethod
   The frequency / damping type X is arbitrary: the plotting code only moves those values. *)
From Coq Require Import String List Arith ZArith QArith Qabs Bool Lia.
From PyOMA.Model Require Import M_plot M_plot_full.
From PyOMA.Proofs Require Import P_plot P_plot_full.
Import ListNotations.

(* column-major flatten: element k of t.flatten(order="F") is t[k mod rows][k div rows] *)
Theorem C20_flatten_F_index : forall (A:Type) rows cols (t:list (list A)) k,
  rect rows cols t -> (k < rows * cols)%nat -> nth_error (flattenF t) k = get2 t (k mod rows) (k / rows).
Proof. exact (@flatten_F_index). Qed.

(* stabilisation diagram: cs / cu enumerate without repetition exactly the retained poles labelled 1 / 0; stable (unstable)
   markers correspond one-to-one, position by position, to cs (cu), each at (frequency, column * step); with hide = true
   cu is empty; rejected (nan) poles and anything outside the table are in neither enumeration: no marker. *)
Theorem C20_stab_exact : forall (X:Type) rows cols (Fn:list (list (option X))) Lab step hide,
  rect rows cols Fn -> rect rows cols Lab ->
  exists cs cu : list (nat*nat),
    NoDup cs /\ (forall i o, In (i, o) cs <-> pole_with_label Fn Lab 1 rows cols i o) /\
    Forall2 (marker_at Fn step) cs (fst (stab_markers Fn Lab step hide)) /\
    NoDup cu /\ (forall i o, In (i, o) cu <-> hide = false /\ pole_with_label Fn Lab 0 rows cols i o) /\
    Forall2 (marker_at Fn step) cu (snd (stab_markers Fn Lab step hide)).
Proof. exact (@stab_exact). Qed.

(* no marker is invented: every marker is a retained pole with the right label, drawn at column * step *)
Theorem C20_stab_marker_sound : forall (X:Type) rows cols (Fn:list (list (option X))) Lab step hide f y,
  rect rows cols Fn -> rect rows cols Lab ->
  (In (f, y) (fst (stab_markers Fn Lab step hide)) ->
     exists i o, pole_with_label Fn Lab 1 rows cols i o /\ get2 Fn i o = Some (Some f) /\ y = (Z.of_nat o * step)%Z) /\
  (In (f, y) (snd (stab_markers Fn Lab step hide)) ->
     hide = false /\ exists i o, pole_with_label Fn Lab 0 rows cols i o /\ get2 Fn i o = Some (Some f) /\ y = (Z.of_nat o * step)%Z).
Proof. exact (@stab_marker_sound). Qed.

(* labels in {0,1}, unstable poles shown: every retained pole is drawn in exactly one family ("every other retained pole") *)
Theorem C20_stab_complete_binary : forall (X:Type) rows cols (Fn:list (list (option X))) Lab step,
  rect rows cols Fn -> rect rows cols Lab ->
  (forall i o lb, get2 Lab i o = Some lb -> lb = 0%Z \/ lb = 1%Z) ->
  forall i o f, (i < rows)%nat -> (o < cols)%nat -> get2 Fn i o = Some (Some f) ->
    (pole_with_label Fn Lab 1 rows cols i o /\ ~ pole_with_label Fn Lab 0 rows cols i o /\
       In (f, (Z.of_nat o * step)%Z) (fst (stab_markers Fn Lab step false))) \/
    (pole_with_label Fn Lab 0 rows cols i o /\ ~ pole_with_label Fn Lab 1 rows cols i o /\
       In (f, (Z.of_nat o * step)%Z) (snd (stab_markers Fn Lab step false))).
Proof. exact (@stab_complete_binary). Qed.

(* cluster diagram: the same statement with markers at (frequency, damping) *)
Theorem C20_cluster_exact : forall (X:Type) rows cols (Fn Xi:list (list (option X))) Lab hide,
  rect rows cols Fn -> rect rows cols Xi -> rect rows cols Lab ->
  exists cs cu : list (nat*nat),
    NoDup cs /\ (forall i o, In (i, o) cs <-> pole2_with_label Fn Xi Lab 1 rows cols i o) /\
    Forall2 (cluster_at Fn Xi) cs (fst (cluster_markers Fn Xi Lab hide)) /\
    NoDup cu /\ (forall i o, In (i, o) cu <-> hide = false /\ pole2_with_label Fn Xi Lab 0 rows cols i o) /\
    Forall2 (cluster_at Fn Xi) cu (snd (cluster_markers Fn Xi Lab hide)).
Proof. exact (@cluster_exact). Qed.

(* both diagrams draw THE SAME poles (damping finite exactly where frequency is): one enumeration serves both *)
Theorem C20_same_poles : forall (X:Type) rows cols (Fn Xi:list (list (option X))) Lab step hide,
  rect rows cols Fn -> rect rows cols Xi -> rect rows cols Lab ->
  (forall i o, (exists f, get2 Fn i o = Some (Some f)) <-> (exists d, get2 Xi i o = Some (Some d))) ->
  exists cs cu : list (nat*nat),
    NoDup cs /\ (forall i o, In (i, o) cs <-> pole_with_label Fn Lab 1 rows cols i o) /\
    Forall2 (marker_at Fn step) cs (fst (stab_markers Fn Lab step hide)) /\
    Forall2 (cluster_at Fn Xi) cs (fst (cluster_markers Fn Xi Lab hide)) /\
    NoDup cu /\ (forall i o, In (i, o) cu <-> hide = false /\ pole_with_label Fn Lab 0 rows cols i o) /\
    Forall2 (marker_at Fn step) cu (snd (stab_markers Fn Lab step hide)) /\
    Forall2 (cluster_at Fn Xi) cu (snd (cluster_markers Fn Xi Lab hide)).
Proof. exact (@same_poles). Qed.

(* y-value versus the order argument of extraction (both SSI_mpe and pLSCF_mpe read COLUMN [order]):
   column * step is the column itself iff step = 1 (or column 0) ... *)
Theorem C20_order_value_is_column_iff : forall o step,
  (Z.of_nat o * step = Z.of_nat o)%Z <-> (step = 1%Z \/ o = 0%nat).
Proof. exact order_value_is_column_iff. Qed.

(* ... and a stable marker (f, y) of a step-1 diagram, given back to extraction as (frequency f, order y), reads the pole's
   own column and returns a pole of that column with exactly that frequency *)
Theorem C20_marker_accepted : forall rows cols (Fn:list (list (option Q))) Lab hide rtol f y,
  rect rows cols Fn -> rect rows cols Lab -> 0 <= rtol ->
  In (f, y) (fst (stab_markers Fn Lab 1 hide)) ->
  exists i o r v, y = Z.of_nat o /\ pole_with_label Fn Lab 1 rows cols i o /\ get2 Fn i o = Some (Some f) /\
                  mpe_pick Fn f rtol y = Some (r, v) /\ v == f /\ get2 Fn r o = Some (Some v).
Proof. exact marker_accepted. Qed.
(* the classes' plot methods are these instances *)
Theorem C20_class_instances : forall (X:Type) (Fn:list (list (option X))) Lab run_step hide,
  ssi_plot_stab Fn Lab run_step hide = stab_markers Fn Lab run_step hide /\
  plscf_plot_stab Fn Lab hide = stab_markers Fn Lab 1 hide.
Proof. exact (@class_instances). Qed.

(* CMIF: an admissible request (all n, or z < n) gives one curve per singular value k < m over the whole grid, equal to
   S[k][k][:] / max over the grid of S[0][0][:]; an inadmissible one is a ValueError *)
Theorem C20_cmif_spec : forall n nf S nSv, cube n nf S -> (0 < n)%nat -> (0 < nf)%nat ->
  match requested n nSv with
  | None => cmif_curves S nSv = PErr PValueErr
  | Some m => (m <= n)%nat /\ exists d0 mx cs, diag3 S 0 = Some d0 /\ is_max d0 mx /\ cmif_curves S nSv = POk cs /\
       Forall2 (fun k c => exists d, diag3 S k = Some d /\ length d = nf /\ c = map (fun v => v / mx) d) (seq 0 m) cs
  end.
Proof. exact cmif_spec. Qed.

(* the shape hypotheses are decidable; the harness evaluates these booleans on every executed case *)
Theorem C20_rectb_iff : forall (A:Type) rows cols (t:list (list A)), rectb rows cols t = true <-> rect rows cols t.
Proof. exact (@rectb_iff). Qed.
Theorem C20_cubeb_iff : forall n nf S, cubeb n nf S = true <-> cube n nf S.
Proof. exact cubeb_iff. Qed.


(* ---------------------------------------------------------------- whole diagrams: limits, error bars *)
(* the markers of the whole diagram are those of C20_stab_exact whatever limits and deviations are given; freqlim only becomes
   the x-limits; limits never change the bars; without a deviation table there is no bar; the same for the cluster diagram *)
Theorem C20_limits_only_limits : forall Fn Xi Lab step hide cov ordmax ordmin freqlim ordmax' ordmin' freqlim',
  let d := stab_diagram Fn Lab step ordmax ordmin freqlim hide cov in
  let d' := stab_diagram Fn Lab step ordmax' ordmin' freqlim' hide cov in
  let d0 := stab_diagram Fn Lab step ordmax ordmin freqlim hide None in
  let dc := cluster_diagram Fn Xi Lab ordmin freqlim hide in
  (sd_stable d, sd_unstable d) = stab_markers Fn Lab step hide /\ sd_xlim d = freqlim /\
  sd_bs_small d = sd_bs_small d' /\ sd_bs_big d = sd_bs_big d' /\ sd_bu_small d = sd_bu_small d' /\ sd_bu_big d = sd_bu_big d' /\
  sd_bs_small d0 = [] /\ sd_bs_big d0 = [] /\ sd_bu_small d0 = [] /\ sd_bu_big d0 = [] /\
  (cd_stable dc, cd_unstable dc) = cluster_markers Fn Xi Lab hide /\ cd_xlim dc = freqlim.
Proof. exact diagram_invariance. Qed.

(* error bars, exactness: ss/sb (us/ub) enumerate without repetition exactly the retained poles labelled 1 (0) with a finite
   deviation and |cov * f| <= 1/2 / > 1/2; the four bar families correspond one-to-one, position by position, to them: one
   bar per such pole at the pole's marker, with the half-width of the pole's own deviation cell; rejected poles, nan
   deviations and hidden unstable poles are in no enumeration: no bar *)
Theorem C20_errbars_exact : forall rows cols (Fn Cov:qtab) Lab step ordmax ordmin freqlim hide,
  rect rows cols Fn -> rect rows cols Lab -> rect rows cols Cov ->
  let d := stab_diagram Fn Lab step ordmax ordmin freqlim hide (Some Cov) in
  exists ss sb us ub : list (nat*nat),
    NoDup ss /\ NoDup sb /\ NoDup us /\ NoDup ub /\
    (forall i o, In (i, o) ss <-> bar_cell Fn Cov Lab 1 false rows cols i o) /\
    (forall i o, In (i, o) sb <-> bar_cell Fn Cov Lab 1 true rows cols i o) /\
    (forall i o, In (i, o) us <-> hide = false /\ bar_cell Fn Cov Lab 0 false rows cols i o) /\
    (forall i o, In (i, o) ub <-> hide = false /\ bar_cell Fn Cov Lab 0 true rows cols i o) /\
    Forall2 (bar_at Fn Cov step) ss (sd_bs_small d) /\ Forall2 (bar_at Fn Cov step) sb (sd_bs_big d) /\
    Forall2 (bar_at Fn Cov step) us (sd_bu_small d) /\ Forall2 (bar_at Fn Cov step) ub (sd_bu_big d).
Proof. exact errbars_exact. Qed.

(* the two width classes of one label are disjoint and cover the poles with a finite deviation (exactly one bar per such
   marker); the half-width is the pole's own |cov * f| when that is at most 1/2, else exactly 1/2 *)
Theorem C20_errbar_one_class_width : forall (Fn Cov:qtab) Lab l rows cols i o,
  (bar_cell Fn Cov Lab l false rows cols i o -> bar_cell Fn Cov Lab l true rows cols i o -> False) /\
  (forall cv, pole_with_label Fn Lab l rows cols i o -> get2 Cov i o = Some (Some cv) ->
     bar_cell Fn Cov Lab l false rows cols i o \/ bar_cell Fn Cov Lab l true rows cols i o) /\
  (forall cv f, (Qabs (cv * f) <= half -> errw cv f = Qabs (cv * f)) /\ (~ Qabs (cv * f) <= half -> errw cv f = half) /\
                0 <= errw cv f /\ errw cv f <= half).
Proof. exact errbar_one_class_width. Qed.

(* every bar sits on a drawn marker of its own family and carries that pole's own width (none invented, none for rejected
   poles); every drawn marker whose pole has a finite deviation carries its bar *)
Theorem C20_errbar_sound_complete : forall rows cols (Fn Cov:qtab) Lab step ordmax ordmin freqlim hide,
  rect rows cols Fn -> rect rows cols Lab -> rect rows cols Cov ->
  let d := stab_diagram Fn Lab step ordmax ordmin freqlim hide (Some Cov) in
  (forall f y e,
    (In (f, y, e) (sd_bs_small d ++ sd_bs_big d) ->
       In (f, y) (sd_stable d) /\
       exists i o cv, pole_with_label Fn Lab 1 rows cols i o /\ get2 Fn i o = Some (Some f) /\ y = (Z.of_nat o * step)%Z /\
                      get2 Cov i o = Some (Some cv) /\ e = errw cv f) /\
    (In (f, y, e) (sd_bu_small d ++ sd_bu_big d) ->
       hide = false /\ In (f, y) (sd_unstable d) /\
       exists i o cv, pole_with_label Fn Lab 0 rows cols i o /\ get2 Fn i o = Some (Some f) /\ y = (Z.of_nat o * step)%Z /\
                      get2 Cov i o = Some (Some cv) /\ e = errw cv f)) /\
  (forall i o f cv, get2 Fn i o = Some (Some f) -> get2 Cov i o = Some (Some cv) ->
    (pole_with_label Fn Lab 1 rows cols i o -> In (f, (Z.of_nat o * step)%Z, errw cv f) (sd_bs_small d ++ sd_bs_big d)) /\
    (hide = false -> pole_with_label Fn Lab 0 rows cols i o ->
       In (f, (Z.of_nat o * step)%Z, errw cv f) (sd_bu_small d ++ sd_bu_big d))).
Proof. exact errbar_sound_complete. Qed.

(* the cluster diagram draws the same poles as the stabilisation diagram, also with unstable poles shown, with error bars and
   whatever limits each of the two is given *)
Theorem C20_same_poles_full : forall rows cols (Fn Xi:qtab) Lab step hide cov ordmax ordmin freqlim ordmin' freqlim',
  rect rows cols Fn -> rect rows cols Xi -> rect rows cols Lab ->
  (forall i o, (exists f, get2 Fn i o = Some (Some f)) <-> (exists d, get2 Xi i o = Some (Some d))) ->
  let d := stab_diagram Fn Lab step ordmax ordmin freqlim hide cov in
  let dc := cluster_diagram Fn Xi Lab ordmin' freqlim' hide in
  exists cs cu : list (nat*nat),
    NoDup cs /\ (forall i o, In (i, o) cs <-> pole_with_label Fn Lab 1 rows cols i o) /\
    Forall2 (marker_at Fn step) cs (sd_stable d) /\ Forall2 (cluster_at Fn Xi) cs (cd_stable dc) /\
    NoDup cu /\ (forall i o, In (i, o) cu <-> hide = false /\ pole_with_label Fn Lab 0 rows cols i o) /\
    Forall2 (marker_at Fn step) cu (sd_unstable d) /\ Forall2 (cluster_at Fn Xi) cu (cd_unstable dc).
Proof. exact same_poles_full. Qed.

(* CMIF with its grid: an admissible request gives one Line2D per singular value k < m whose x-data is the WHOLE grid freq
   and whose y-data is db (S[k][k][j] / max S[0][0]) line by line (db = 10 log10); freqlim only becomes the x-limits; an
   inadmissible request is a ValueError; a grid of another length gives no diagram as soon as one curve is due *)
Theorem C20_cmif_full : forall (Y:Type) (db:Q->Y) n nf S freq freqlim nSv, cube n nf S -> (0 < n)%nat -> (0 < nf)%nat ->
  (length freq = nf ->
   match requested n nSv with
   | None => cmif_diagram db S freq freqlim nSv = PErr PValueErr
   | Some m => (m <= n)%nat /\ exists d0 mx dg, diag3 S 0 = Some d0 /\ is_max d0 mx /\
        cmif_diagram db S freq freqlim nSv = POk dg /\ md_xlim dg = freqlim /\
        Forall2 (fun k c => exists d, diag3 S k = Some d /\ map fst c = freq /\ map snd c = map (fun v => db (v / mx)) d)
                (seq 0 m) (md_curves dg)
   end) /\
  (length freq <> nf -> forall m, requested n nSv = Some m -> (0 < m)%nat -> cmif_diagram db S freq freqlim nSv = PErr PValueErr).
Proof. exact (@cmif_full). Qed.

(* ---------------------------------------------------------------- the classes' plot methods *)
(* plot_stab / plot_cluster / plot_CMIF of a class return the plot FUNCTION's diagram on the result's own tables: SSI classes
   with their run step and deviation table, pLSCF classes with step 1 and no deviations (hence no bars); before a run they
   raise; a class without the method has none *)
Theorem C20_class_methods_are_functions : forall (Y:Type) (db:Q->Y) c (r:pole_res qtab ztab)
  (sr:spec_res (list (list (list Q))) (list Q)) rs freqlim hide nSv,
  class_stab_diagram c (Some r) rs freqlim hide =
    (if is_ssi c then Called (stab_diagram (pr_Fn r) (pr_Lab r) (rs_step rs) (rs_ordmax rs) (rs_ordmin rs) freqlim hide (pr_cov r))
     else if is_plscf c then Called (stab_diagram (pr_Fn r) (pr_Lab r) 1 (rs_ordmax rs) (rs_ordmin rs) freqlim hide None)
     else NoMethod) /\
  class_cluster_diagram c (Some r) rs freqlim hide =
    (if (is_ssi c || is_plscf c)%bool then Called (cluster_diagram (pr_Fn r) (pr_Xi r) (pr_Lab r) (rs_ordmin rs) freqlim hide)
     else NoMethod) /\
  class_cmif_diagram db c (Some sr) freqlim nSv =
    (if is_fdd c then Called (cmif_diagram db (sr_S sr) (sr_freq sr) freqlim nSv) else NoMethod) /\
  class_stab_diagram c None rs freqlim hide = (if (is_ssi c || is_plscf c)%bool then NotRun else NoMethod) /\
  class_cluster_diagram c None rs freqlim hide = (if (is_ssi c || is_plscf c)%bool then NotRun else NoMethod) /\
  class_cmif_diagram db c None freqlim nSv = (if is_fdd c then NotRun else NoMethod) /\
  (is_plscf c = true -> exists d, class_stab_diagram c (Some r) rs freqlim hide = Called d /\
      sd_bs_small d = [] /\ sd_bs_big d = [] /\ sd_bu_small d = [] /\ sd_bu_big d = []).
Proof. exact (@class_methods_are_functions). Qed.

(* SSIcov, SSIdat_MS, SSIcov_MS forward exactly as SSIdat; pLSCF_MS as pLSCF; EFDD, FSDD, FDD_MS, EFDD_MS as FDD - for every
   type of table (the forwarding functions can only move them) *)
Theorem C20_class_family_same : forall (T L V F:Type) (res:option (pole_res T L)) (sres:option (spec_res V F)) rs freqlim hide nSv,
  (forall c, is_ssi c = true -> class_plot_stab c res rs freqlim hide = class_plot_stab SSIdat res rs freqlim hide /\
                                class_plot_cluster c res rs freqlim hide = class_plot_cluster SSIdat res rs freqlim hide) /\
  (forall c, is_plscf c = true -> class_plot_stab c res rs freqlim hide = class_plot_stab pLSCF res rs freqlim hide /\
                                  class_plot_cluster c res rs freqlim hide = class_plot_cluster pLSCF res rs freqlim hide) /\
  (forall c, is_fdd c = true -> class_plot_cmif c sres freqlim nSv = class_plot_cmif FDD sres freqlim nSv).
Proof. exact (@class_family_same). Qed.

(* class level, exactness: the diagram returned by plot_stab shows exactly the retained poles of the result's own tables, one
   marker each at (frequency, column * class step), class step = run step for SSI, 1 for pLSCF; and plot_cluster of the same
   class on the same result shows the same poles *)
Theorem C20_class_exact : forall c (r:pole_res qtab ztab) rs freqlim freqlim' hide rows cols,
  (is_ssi c || is_plscf c)%bool = true -> rect rows cols (pr_Fn r) -> rect rows cols (pr_Lab r) ->
  (exists d, class_stab_diagram c (Some r) rs freqlim hide = Called d /\ sd_xlim d = freqlim /\
   exists cs cu : list (nat*nat),
     NoDup cs /\ (forall i o, In (i, o) cs <-> pole_with_label (pr_Fn r) (pr_Lab r) 1 rows cols i o) /\
     Forall2 (marker_at (pr_Fn r) (class_step c rs)) cs (sd_stable d) /\
     NoDup cu /\ (forall i o, In (i, o) cu <-> hide = false /\ pole_with_label (pr_Fn r) (pr_Lab r) 0 rows cols i o) /\
     Forall2 (marker_at (pr_Fn r) (class_step c rs)) cu (sd_unstable d)) /\
  (rect rows cols (pr_Xi r) ->
   (forall i o, (exists f, get2 (pr_Fn r) i o = Some (Some f)) <-> (exists d, get2 (pr_Xi r) i o = Some (Some d))) ->
   exists d dc, class_stab_diagram c (Some r) rs freqlim hide = Called d /\
                class_cluster_diagram c (Some r) rs freqlim' hide = Called dc /\
   exists cs cu : list (nat*nat),
     NoDup cs /\ (forall i o, In (i, o) cs <-> pole_with_label (pr_Fn r) (pr_Lab r) 1 rows cols i o) /\
     Forall2 (marker_at (pr_Fn r) (class_step c rs)) cs (sd_stable d) /\ Forall2 (cluster_at (pr_Fn r) (pr_Xi r)) cs (cd_stable dc) /\
     NoDup cu /\ (forall i o, In (i, o) cu <-> hide = false /\ pole_with_label (pr_Fn r) (pr_Lab r) 0 rows cols i o) /\
     Forall2 (marker_at (pr_Fn r) (class_step c rs)) cu (sd_unstable d) /\ Forall2 (cluster_at (pr_Fn r) (pr_Xi r)) cu (cd_unstable dc)).
Proof. exact class_exact. Qed.

Print Assumptions C20_flatten_F_index.
Print Assumptions C20_stab_exact.
Print Assumptions C20_stab_marker_sound.
Print Assumptions C20_stab_complete_binary.
Print Assumptions C20_cluster_exact.
Print Assumptions C20_same_poles.
Print Assumptions C20_order_value_is_column_iff.
Print Assumptions C20_marker_accepted.
Print Assumptions C20_class_instances.
Print Assumptions C20_cmif_spec.
Print Assumptions C20_rectb_iff.
Print Assumptions C20_cubeb_iff.
Print Assumptions C20_limits_only_limits.
Print Assumptions C20_errbars_exact.
Print Assumptions C20_errbar_one_class_width.
Print Assumptions C20_errbar_sound_complete.
Print Assumptions C20_same_poles_full.
Print Assumptions C20_cmif_full.
Print Assumptions C20_class_methods_are_functions.
Print Assumptions C20_class_family_same.
Print Assumptions C20_class_exact.

(* non-vacuity: a 2 x 3 table (non-square), one rejected pole, a duplicated frequency, labels 0/1, step 2.
   Column-major order, y = column * step, the nan cell (0,1) nowhere, the pole (1,1) with nan damping absent from the
   cluster diagram only. *)
Example C20_example_markers :
  let Fn := [[Some (1#1); None; Some (3#1)]; [Some (3#1); Some (5#1); Some (7#2)]] in
  let Xi := [[Some (1#10); None; Some (3#10)]; [Some (4#10); None; Some (6#10)]] in
  let Lab := [[1;1;0]; [0;1;1]]%Z in
  rectb 2 3 Fn = true /\ rectb 2 3 Lab = true /\
  flattenF Fn = [Some (1#1); Some (3#1); None; Some (5#1); Some (3#1); Some (7#2)] /\
  stab_markers Fn Lab 2 false = ([(1#1, 0%Z); (5#1, 2%Z); (7#2, 4%Z)], [(3#1, 0%Z); (3#1, 4%Z)]) /\
  stab_markers Fn Lab 2 true = ([(1#1, 0%Z); (5#1, 2%Z); (7#2, 4%Z)], []) /\
  cluster_markers Fn Xi Lab false = ([(1#1, 1#10); (7#2, 6#10)], [(3#1, 4#10); (3#1, 3#10)]) /\
  mpe_pick Fn (5#1) (1#20) 1 = Some (1%nat, 5#1).
Proof. vm_compute. repeat split; reflexivity. Qed.

(* non-vacuity of the CMIF statement: 2 singular values, 3 lines, off-diagonal entries that must not be used *)
Example C20_example_cmif :
  let S := [[[1#1; 4#1; 2#1]; [9#1; 9#1; 9#1]]; [[7#1; 7#1; 7#1]; [1#2; 1#1; 3#1]]] in
  cubeb 2 3 S = true /\
  cmif_curves S None = POk [[1/4; 4/4; 2/4]; [(1#2)/4; 1/4; 3/4]] /\
  cmif_curves S (Some 1%Z) = POk [[1/4; 4/4; 2/4]] /\
  cmif_curves S (Some 2%Z) = PErr PValueErr.
Proof. vm_compute. repeat split; reflexivity. Qed.

(* non-vacuity of the error-bar statements: 2 x 3 table, step 2, unstable poles shown.  Stable pole (0,0): |cov * f| = 1/100, its own
   width; stable pole (1,1): nan deviation, a marker and no bar; stable pole (1,2): 7/10, clipped to 1/2; unstable pole (1,0): 3/2,
   clipped; unstable pole (0,2): 3/10, its own width; the rejected pole (0,1) has a finite deviation and still no bar; the limits
   are carried through unchanged; with hide = true the stable bars stay and the unstable ones vanish *)
Example C20_example_errbars :
  let Fn := [[Some (1#1); None; Some (3#1)]; [Some (3#1); Some (5#1); Some (7#2)]] in
  let Lab := [[1;1;0]; [0;1;1]]%Z in
  let Cov := [[Some (1#100); Some (1#5); Some (1#10)]; [Some (1#2); None; Some (1#5)]] in
  let d := stab_diagram Fn Lab 2 4 0 (Some (0#1, 10#1)) false (Some Cov) in
  rectb 2 3 Cov = true /\
  (sd_stable d, sd_unstable d) = stab_markers Fn Lab 2 false /\
  map (fun b => (fst b, Qred (snd b))) (sd_bs_small d) = [((1#1, 0%Z), 1#100)] /\
  map (fun b => (fst b, Qred (snd b))) (sd_bs_big d) = [((7#2, 4%Z), 1#2)] /\
  map (fun b => (fst b, Qred (snd b))) (sd_bu_small d) = [((3#1, 4%Z), 3#10)] /\
  map (fun b => (fst b, Qred (snd b))) (sd_bu_big d) = [((3#1, 0%Z), 1#2)] /\
  sd_xlim d = Some (0#1, 10#1) /\ sd_ylim d = Some (0, 5)%Z /\
  sd_bs_small (stab_diagram Fn Lab 2 4 0 None true (Some Cov)) = sd_bs_small d /\
  sd_bu_small (stab_diagram Fn Lab 2 4 0 None true (Some Cov)) = [].
Proof. vm_compute. repeat split; reflexivity. Qed.

(* non-vacuity of the class statements: an SSI class draws with its run step 3 and the result's deviations, a pLSCF class
   with step 1 and none; FDD forwards S_val / freq; shown by field NAME for the forwarding functions *)
Example C20_example_classes :
  let r := {| pr_Fn := [[Some (1#1); Some (2#1)]; [None; Some (4#1)]; [Some (5#1); None]]; pr_Xi := [[Some (1#10); Some (1#10)]; [None; Some (1#5)]; [Some (1#4); None]];
              pr_Lab := [[1;0]; [0;1]; [1;1]]%Z; pr_cov := Some [[Some (1#10); None]; [None; Some (1#4)]; [None; None]] |} in
  let rs := {| rs_step := 3; rs_ordmin := 0; rs_ordmax := 3 |}%Z in
  let names := {| pr_Fn := "Fn_poles"; pr_Xi := "Xi_poles"; pr_Lab := "Lab"; pr_cov := Some "Fn_poles_cov" |}%string in
  rectb 3 2 (pr_Fn r) = true /\ rectb 3 2 (pr_Lab r) = true /\
  map_call (fun d => (sd_stable d, sd_unstable d, length (sd_bs_small d ++ sd_bs_big d))) (class_stab_diagram SSIcov_MS (Some r) rs None false)
    = Called ([(1#1, 0%Z); (5#1, 0%Z); (4#1, 3%Z)], [(2#1, 3%Z)], 2%nat) /\
  map_call (fun d => (sd_stable d, sd_unstable d, length (sd_bs_small d ++ sd_bs_big d))) (class_stab_diagram pLSCF_MS (Some r) rs None true)
    = Called ([(1#1, 0%Z); (5#1, 0%Z); (4#1, 1%Z)], [], 0%nat) /\
  class_stab_diagram SSIdat None rs None true = NotRun /\ class_stab_diagram FDD (Some r) rs None true = NoMethod /\
  show_call show_stab_args (class_plot_stab pLSCF (Some names) rs (Some (1#1, 2#1)) true)
    = "C Fn=Fn_poles;Lab=Lab;step=1;ordmax=3;ordmin=0;freqlim=1/1,2/1;hide_poles=T;Fn_cov=None"%string /\
  show_call show_stab_args (class_plot_stab SSIcov (Some names) rs None false)
    = "C Fn=Fn_poles;Lab=Lab;step=3;ordmax=3;ordmin=0;freqlim=auto;hide_poles=F;Fn_cov=Fn_poles_cov"%string /\
  show_call show_cmif_args (class_plot_cmif FSDD (Some {| sr_S := "S_val"; sr_freq := "freq" |}%string) None (Some 2%Z))
    = "C S_val=S_val;freq=freq;freqlim=auto;nSv=2"%string.
Proof. vm_compute. repeat split; reflexivity. Qed.

(* non-vacuity of the full CMIF statement: the grid is the x-data of every curve, a grid of another length gives no diagram *)
Example C20_example_cmif_full :
  let S := [[[1#1; 4#1; 2#1]; [9#1; 9#1; 9#1]]; [[7#1; 7#1; 7#1]; [1#2; 1#1; 3#1]]] in
  let idq := fun v : Q => v in
  cmif_diagram idq S [0#1; 1#2; 1#1] (Some (0#1, 1#2)) (Some 1%Z)
    = POk {| md_curves := [[(0#1, 1/4); (1#2, 4/4); (1#1, 2/4)]]; md_xlim := Some (0#1, 1#2) |} /\
  cmif_diagram idq S [0#1; 1#2] None None = PErr PValueErr /\
  cmif_diagram idq S [0#1; 1#2; 1#1] None (Some 2%Z) = PErr PValueErr.
Proof. vm_compute. repeat split; reflexivity. Qed.
