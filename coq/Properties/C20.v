(* C20 - Diagrams show exactly the identified poles at their frequency, order and damping; CMIF curves.
   Statements only: each theorem is closed by [exact] of a lemma of Proofs/P_plot.v.
   Vocabulary (Model/M_plot.v): tables are lists of rows [row][order-column], nan = None;
     rect rows cols t            t has rows rows of cols entries
     get2 t i o                  t[i][o] (None outside the table)
     pole_with_label Fn Lab l .. i o   cell (i,o) is inside the table, Lab[i][o] = l and Fn[i][o] is finite
     marker_at Fn step c m       marker m = (Fn[c], column(c) * step)
     cluster_at Fn Xi c m        marker m = (Fn[c], Xi[c])
   The frequency / damping type X is arbitrary: the plotting code only moves those values. *)
From Coq Require Import String List Arith ZArith QArith Qabs Bool Lia.
From PyOMA.Model Require Import M_plot.
From PyOMA.Proofs Require Import P_plot.
Import ListNotations.

(* column-major flatten: element k of t.flatten(order="F") is t[k mod rows][k div rows] *)
Theorem C20_flatten_F_index : forall (A:Type) rows cols (t:list (list A)) k,
  rect rows cols t -> (k < rows * cols)%nat -> nth_error (flattenF t) k = get2 t (k mod rows) (k / rows).
Proof. exact (@flatten_F_index). Qed.

(* stabilisation diagram: cs / cu enumerate without repetition exactly the retained poles labelled 1 / 0; stable (unstable)
   markers correspond one-to-one, position by position, to cs (cu), each at (frequency, column * step); with hide = true
   cu is empty; rejected (nan) poles and anything outside the table are in neither enumeration: no marker. *)
Theorem C20_stab_exact : forall (X:Type) rows cols (Fn:list (list (option X))) Lab step hide,
  rect rows cols Fn -> rect rows cols Lab ->
  exists cs cu : list (nat*nat),
    NoDup cs /\ (forall i o, In (i, o) cs <-> pole_with_label Fn Lab 1 rows cols i o) /\
    Forall2 (marker_at Fn step) cs (fst (stab_markers Fn Lab step hide)) /\
    NoDup cu /\ (forall i o, In (i, o) cu <-> hide = false /\ pole_with_label Fn Lab 0 rows cols i o) /\
    Forall2 (marker_at Fn step) cu (snd (stab_markers Fn Lab step hide)).
Proof. exact (@stab_exact). Qed.

(* no marker is invented: every marker is a retained pole with the right label, drawn at column * step *)
Theorem C20_stab_marker_sound : forall (X:Type) rows cols (Fn:list (list (option X))) Lab step hide f y,
  rect rows cols Fn -> rect rows cols Lab ->
  (In (f, y) (fst (stab_markers Fn Lab step hide)) ->
     exists i o, pole_with_label Fn Lab 1 rows cols i o /\ get2 Fn i o = Some (Some f) /\ y = (Z.of_nat o * step)%Z) /\
  (In (f, y) (snd (stab_markers Fn Lab step hide)) ->
     hide = false /\ exists i o, pole_with_label Fn Lab 0 rows cols i o /\ get2 Fn i o = Some (Some f) /\ y = (Z.of_nat o * step)%Z).
Proof. exact (@stab_marker_sound). Qed.

(* labels in {0,1}, unstable poles shown: every retained pole is drawn in exactly one family ("every other retained pole") *)
Theorem C20_stab_complete_binary : forall (X:Type) rows cols (Fn:list (list (option X))) Lab step,
  rect rows cols Fn -> rect rows cols Lab ->
  (forall i o lb, get2 Lab i o = Some lb -> lb = 0%Z \/ lb = 1%Z) ->
  forall i o f, (i < rows)%nat -> (o < cols)%nat -> get2 Fn i o = Some (Some f) ->
    (pole_with_label Fn Lab 1 rows cols i o /\ ~ pole_with_label Fn Lab 0 rows cols i o /\
       In (f, (Z.of_nat o * step)%Z) (fst (stab_markers Fn Lab step false))) \/
    (pole_with_label Fn Lab 0 rows cols i o /\ ~ pole_with_label Fn Lab 1 rows cols i o /\
       In (f, (Z.of_nat o * step)%Z) (snd (stab_markers Fn Lab step false))).
Proof. exact (@stab_complete_binary). Qed.

(* cluster diagram: the same statement with markers at (frequency, damping) *)
Theorem C20_cluster_exact : forall (X:Type) rows cols (Fn Xi:list (list (option X))) Lab hide,
  rect rows cols Fn -> rect rows cols Xi -> rect rows cols Lab ->
  exists cs cu : list (nat*nat),
    NoDup cs /\ (forall i o, In (i, o) cs <-> pole2_with_label Fn Xi Lab 1 rows cols i o) /\
    Forall2 (cluster_at Fn Xi) cs (fst (cluster_markers Fn Xi Lab hide)) /\
    NoDup cu /\ (forall i o, In (i, o) cu <-> hide = false /\ pole2_with_label Fn Xi Lab 0 rows cols i o) /\
    Forall2 (cluster_at Fn Xi) cu (snd (cluster_markers Fn Xi Lab hide)).
Proof. exact (@cluster_exact). Qed.

(* both diagrams draw THE SAME poles (damping finite exactly where frequency is): one enumeration serves both *)
Theorem C20_same_poles : forall (X:Type) rows cols (Fn Xi:list (list (option X))) Lab step hide,
  rect rows cols Fn -> rect rows cols Xi -> rect rows cols Lab ->
  (forall i o, (exists f, get2 Fn i o = Some (Some f)) <-> (exists d, get2 Xi i o = Some (Some d))) ->
  exists cs cu : list (nat*nat),
    NoDup cs /\ (forall i o, In (i, o) cs <-> pole_with_label Fn Lab 1 rows cols i o) /\
    Forall2 (marker_at Fn step) cs (fst (stab_markers Fn Lab step hide)) /\
    Forall2 (cluster_at Fn Xi) cs (fst (cluster_markers Fn Xi Lab hide)) /\
    NoDup cu /\ (forall i o, In (i, o) cu <-> hide = false /\ pole_with_label Fn Lab 0 rows cols i o) /\
    Forall2 (marker_at Fn step) cu (snd (stab_markers Fn Lab step hide)) /\
    Forall2 (cluster_at Fn Xi) cu (snd (cluster_markers Fn Xi Lab hide)).
Proof. exact (@same_poles). Qed.

(* y-value versus the order argument of extraction (both SSI_mpe and pLSCF_mpe read COLUMN [order]):
   column * step is the column itself iff step = 1 (or column 0) ... *)
Theorem C20_order_value_is_column_iff : forall o step,
  (Z.of_nat o * step = Z.of_nat o)%Z <-> (step = 1%Z \/ o = 0%nat).
Proof. exact order_value_is_column_iff. Qed.

(* ... and a stable marker (f, y) of a step-1 diagram, given back to extraction as (frequency f, order y), reads the pole's
   own column and returns a pole of that column with exactly that frequency *)
Theorem C20_marker_accepted : forall rows cols (Fn:list (list (option Q))) Lab hide rtol f y,
  rect rows cols Fn -> rect rows cols Lab -> 0 <= rtol ->
  In (f, y) (fst (stab_markers Fn Lab 1 hide)) ->
  exists i o r v, y = Z.of_nat o /\ pole_with_label Fn Lab 1 rows cols i o /\ get2 Fn i o = Some (Some f) /\
                  mpe_pick Fn f rtol y = Some (r, v) /\ v == f /\ get2 Fn r o = Some (Some v).
Proof. exact marker_accepted. Qed.
(* the classes' plot methods are these instances *)
Theorem C20_class_instances : forall (X:Type) (Fn:list (list (option X))) Lab run_step hide,
  ssi_plot_stab Fn Lab run_step hide = stab_markers Fn Lab run_step hide /\
  plscf_plot_stab Fn Lab hide = stab_markers Fn Lab 1 hide.
Proof. exact (@class_instances). Qed.

(* CMIF: an admissible request (all n, or z < n) gives one curve per singular value k < m over the whole grid, equal to
   S[k][k][:] / max over the grid of S[0][0][:]; an inadmissible one is a ValueError *)
Theorem C20_cmif_spec : forall n nf S nSv, cube n nf S -> (0 < n)%nat -> (0 < nf)%nat ->
  match requested n nSv with
  | None => cmif_curves S nSv = PErr PValueErr
  | Some m => (m <= n)%nat /\ exists d0 mx cs, diag3 S 0 = Some d0 /\ is_max d0 mx /\ cmif_curves S nSv = POk cs /\
       Forall2 (fun k c => exists d, diag3 S k = Some d /\ length d = nf /\ c = map (fun v => v / mx) d) (seq 0 m) cs
  end.
Proof. exact cmif_spec. Qed.

(* the shape hypotheses are decidable; the harness evaluates these booleans on every executed case *)
Theorem C20_rectb_iff : forall (A:Type) rows cols (t:list (list A)), rectb rows cols t = true <-> rect rows cols t.
Proof. exact (@rectb_iff). Qed.
Theorem C20_cubeb_iff : forall n nf S, cubeb n nf S = true <-> cube n nf S.
Proof. exact cubeb_iff. Qed.

Print Assumptions C20_flatten_F_index.
Print Assumptions C20_stab_exact.
Print Assumptions C20_stab_marker_sound.
Print Assumptions C20_stab_complete_binary.
Print Assumptions C20_cluster_exact.
Print Assumptions C20_same_poles.
Print Assumptions C20_order_value_is_column_iff.
Print Assumptions C20_marker_accepted.
Print Assumptions C20_class_instances.
Print Assumptions C20_cmif_spec.
Print Assumptions C20_rectb_iff.
Print Assumptions C20_cubeb_iff.

(* non-vacuity: a 2 x 3 table (non-square), one rejected pole, a duplicated frequency, labels 0/1, step 2.
   Column-major order, y = column * step, the nan cell (0,1) nowhere, the pole (1,1) with nan damping absent from the
   cluster diagram only. *)
Example C20_example_markers :
  let Fn := [[Some (1#1); None; Some (3#1)]; [Some (3#1); Some (5#1); Some (7#2)]] in
  let Xi := [[Some (1#10); None; Some (3#10)]; [Some (4#10); None; Some (6#10)]] in
  let Lab := [[1;1;0]; [0;1;1]]%Z in
  rectb 2 3 Fn = true /\ rectb 2 3 Lab = true /\
  flattenF Fn = [Some (1#1); Some (3#1); None; Some (5#1); Some (3#1); Some (7#2)] /\
  stab_markers Fn Lab 2 false = ([(1#1, 0%Z); (5#1, 2%Z); (7#2, 4%Z)], [(3#1, 0%Z); (3#1, 4%Z)]) /\
  stab_markers Fn Lab 2 true = ([(1#1, 0%Z); (5#1, 2%Z); (7#2, 4%Z)], []) /\
  cluster_markers Fn Xi Lab false = ([(1#1, 1#10); (7#2, 6#10)], [(3#1, 4#10); (3#1, 3#10)]) /\
  mpe_pick Fn (5#1) (1#20) 1 = Some (1%nat, 5#1).
Proof. vm_compute. repeat split; reflexivity. Qed.

(* non-vacuity of the CMIF statement: 2 singular values, 3 lines, off-diagonal entries that must not be used *)
Example C20_example_cmif :
  let S := [[[1#1; 4#1; 2#1]; [9#1; 9#1; 9#1]]; [[7#1; 7#1; 7#1]; [1#2; 1#1; 3#1]]] in
  cubeb 2 3 S = true /\
  cmif_curves S None = POk [[1/4; 4/4; 2/4]; [(1#2)/4; 1/4; 3/4]] /\
  cmif_curves S (Some 1%Z) = POk [[1/4; 4/4; 2/4]] /\
  cmif_curves S (Some 2%Z) = PErr PValueErr.
Proof. vm_compute. repeat split; reflexivity. Qed.
