(* C19 - Geometry tables are validated, aligned to sensor order and mapped faithfully.
   Statements only: each theorem is closed by [exact] of a lemma of Proofs/P_geo.v.
   Model (Model/M_geo.v): check_geo1 / check_geo2 = gen.check_on_geo1 / check_on_geo2 (hence def_geo1 / def_geo2),
   flatten_names = gen.flatten_sns_names, dfphi_map = gen.dfphi_map_func, newpoints2 / arrows1 = the coordinates drawn
   by Geo2MplPlotter.plot_mode / Geo1MplPlotter.plot_mode.  The declarative predicates (wf_geo1_at, wf_geo2_at, shifted,
   kept, cell_at, clear1, clear2, ...) are defined in Proofs/P_geo.v.                                               *)
From Coq Require Import List Arith ZArith QArith Qcanon Lia Bool String Permutation.
From PyOMA.Base Require Import Carrier.
From PyOMA.Model Require Import M_geo.
From PyOMA.Proofs Require Import P_geo.
Import ListNotations.
Local Open Scope string_scope.

(* ---- re-ordering to the sensor names: row k of the re-indexed table is THE row labelled names[k] ... *)
Theorem C19_reindex_spec : forall names t, NoDup (labels t) -> incl names (labels t) ->
  forall k n, nth_error names k = Some n ->
  exists c, nth_error (rows (reindex names t)) k = Some (n, c) /\ In (n, c) (rows t) /\
            (forall c', In (n, c') (rows t) -> c' = c).
Proof. exact reindex_spec. Qed.
(* ... for EVERY row permutation of the table *)
Theorem C19_reindex_perm : forall names t t', cols t = cols t' -> Permutation (rows t) (rows t') -> NoDup (labels t) ->
  reindex names t = reindex names t'.
Proof. exact reindex_perm. Qed.

(* ---- order of the names: the documented forms; multi-setup = REF1..REFk then each setup's roving names *)
Theorem C19_flatten_forms : forall ref,
  (forall r, flatten_names (NRow r) ref = Ok r) /\ (forall l, flatten_names (NArr l) ref = Ok l) /\
  (forall l, l <> [] -> flatten_names (NList l) ref = Ok l) /\
  (forall setups r0 rl, (List.length setups <= List.length (r0::rl))%nat ->
     flatten_names (NLists setups) (Some (r0::rl)) = Ok (ref_names (List.length r0) ++ rovings setups (r0::rl))%list) /\
  (forall r1 r2 rs, flatten_names (NTab r1 r2 rs) ref = flatten_names (NLists (map somes (r1::r2::rs))) ref) /\
  (forall setups, flatten_names (NLists setups) None = Err AttrErr).
Proof. exact flatten_forms. Qed.
Theorem C19_flatten_ref_first : forall setups r0 rl names, flatten_names (NLists setups) (Some (r0::rl)) = Ok names ->
  (forall i, (i < List.length r0)%nat -> nth_error names i = Some ("REF" ++ nat_str (S i))) /\
  (forall j, nth_error names (List.length r0 + j) = nth_error (rovings setups (r0::rl)) j).
Proof. exact flatten_ref_first. Qed.
(* a setup's roving names = its entries at the positions that are not reference positions, in ascending position *)
Theorem C19_drop_at_spec : forall (l:list string) idx p,
  drop_at l idx p = map snd (filter (fun jx => negb (existsb (Nat.eqb (fst jx)) idx)) (combine (seq p (List.length l)) l)).
Proof. exact (@drop_at_spec string). Qed.

(* ---- validation: a geometry is produced iff the table set is well-formed, and it is this geometry *)
Theorem C19_geo1_ok_iff : forall fd ref g,
  check_geo1 fd ref = Ok g <-> exists nf co di names, wf_geo1_at fd ref nf co di names /\ g = geo1_of fd co di names.
Proof. exact geo1_ok_iff. Qed.
Theorem C19_geo1_valid_iff : forall fd ref, (exists g, check_geo1 fd ref = Ok g) <-> wf_geo1 fd ref.
Proof. exact geo1_valid_iff. Qed.
Theorem C19_geo2_ok_iff : forall fd ref g,
  check_geo2 fd ref = Ok g <-> exists nf pts mp names, wf_geo2_at fd ref nf pts mp names /\ g = geo2_of fd pts mp names.
Proof. exact geo2_ok_iff. Qed.
Theorem C19_geo2_valid_iff : forall fd ref, (exists g, check_geo2 fd ref = Ok g) <-> wf_geo2 fd ref.
Proof. exact geo2_valid_iff. Qed.
(* a malformed set raises ValueError - unless the names cannot be flattened (that exception) or an index table holds a string *)
Theorem C19_geo1_error_kind : forall fd ref e, check_geo1 fd ref = Err e ->
  e = ValueErr \/ (exists nf, fd_names fd = Some nf /\ flatten_names nf ref = Err e) \/ e = TypeErr.
Proof. exact geo1_error_kind. Qed.
Theorem C19_geo2_error_kind : forall fd ref e, check_geo2 fd ref = Err e ->
  e = ValueErr \/ (exists nf, fd_names fd = Some nf /\ flatten_names nf ref = Err e) \/ e = TypeErr.
Proof. exact geo2_error_kind. Qed.

(* ---- every optional sheet may be omitted: the result is the same geometry with that field None (sign: all +1);
        with no optional sheet at all, well-formedness is a predicate on the required sheets only *)
Theorem C19_geo1_optional_sheets_optional : forall fd ref g k, In k geo1_optional ->
  check_geo1 fd ref = Ok g -> check_geo1 (remove_key k fd) ref = Ok (clear1 k g).
Proof. exact geo1_optional_sheets_optional. Qed.
Theorem C19_geo2_optional_sheets_optional : forall fd ref g k, In k geo2_optional ->
  check_geo2 fd ref = Ok g -> check_geo2 (remove_key k fd) ref = Ok (clear2 k g).
Proof. exact geo2_optional_sheets_optional. Qed.
Theorem C19_geo1_required_only : forall fd ref,
  (forall k, In k geo1_optional -> getk k (drop_info (fd_tabs fd)) = None) ->
  ((exists g, check_geo1 fd ref = Ok g) <-> wf_req1 fd ref).
Proof. exact geo1_required_only. Qed.
Theorem C19_geo2_required_only : forall fd ref,
  (forall k, In k geo2_optional -> getk k (drop_info (fd_tabs fd)) = None) ->
  ((exists g, check_geo2 fd ref = Ok g) <-> wf_req2 fd ref).
Proof. exact geo2_required_only. Qed.

(* ---- one-based line / surface indices become zero-based (same shape, NaN kept); background nodes are not touched *)
Theorem C19_geo1_index_shift : forall fd ref g, check_geo1 fd ref = Ok g ->
  let d := drop_info (fd_tabs fd) in
  shifted (getk "sensors lines" d) (g1_lines g) /\ shifted (getk "BG lines" d) (g1_bgl g) /\
  shifted (getk "BG surfaces" d) (g1_bgs g) /\ kept (getk "BG nodes" d) (g1_bgn g).
Proof. exact geo1_index_shift. Qed.
Theorem C19_geo2_index_shift : forall fd ref g, check_geo2 fd ref = Ok g ->
  let d := drop_info (fd_tabs fd) in
  shifted (getk "sensors lines" d) (g2_lines g) /\ shifted (getk "sensors surfaces" d) (g2_surf g) /\
  shifted (getk "BG lines" d) (g2_bgl g) /\ shifted (getk "BG surfaces" d) (g2_bgs g) /\ kept (getk "BG nodes" d) (g2_bgn g).
Proof. exact geo2_index_shift. Qed.

(* ---- geo1: row k of coordinates and directions is the input row labelled with the k-th sensor name,
        and arrow k of a mode plot is drawn there, along that direction, scaled by phi[k] *)
Theorem C19_geo1_rows_at_sensor : forall fd ref g, check_geo1 fd ref = Ok g ->
  exists co di, getk "sensors coordinates" (drop_info (fd_tabs fd)) = Some co /\
                getk "sensors directions" (drop_info (fd_tabs fd)) = Some di /\
    labels (g1_coord g) = g1_names g /\
    forall k n, nth_error (g1_names g) k = Some n ->
      exists crow drow, In (n, crow) (rows co) /\ In (n, drow) (rows di) /\
        nth_error (body (g1_coord g)) k = Some crow /\ nth_error (g1_dir g) k = Some drow.
Proof. exact geo1_rows_at_sensor. Qed.
Theorem C19_arrows1_spec : forall g phi scale A, arrows1 g phi scale = Ok A ->
  forall k crow drow f, nth_error (body (g1_coord g)) k = Some crow -> nth_error (g1_dir g) k = Some drow -> nth_error phi k = Some f ->
    nth_error A k = Some (map cell_q crow,
                          map2 (fun c dd => oq_add (cell_q c) (oq_mul (oq_mul (cell_q dd) (Some f)) (Some scale))) crow drow).
Proof. exact arrows1_spec. Qed.

(* ---- mapping: each sensor's component at exactly the cells naming it, the prescribed combination at cells naming
        a constraint, numbers (0) and NaN as they are - for every table, constraint matrix given positionally *)
Theorem C19_dfphi_map_spec : forall phi names smap cstr M,
  NoDup names -> (forall cs, cstr = Some cs -> NoDup (labels cs)) ->
  dfphi_map phi names smap cstr = Ok M ->
  List.length M = nrows smap /\
  forall i j c, cell_at (body smap) i j = Some c ->
    exists v, cell_at M i j = Some v /\
      match c with
      | CNum x => v = Some x
      | CNaN => v = None
      | CName s =>
          (forall cs coefs, cstr = Some cs -> In (s, coefs) (rows cs) -> v = Some (dotq (map cnum coefs) phi)) /\
          ((forall cs, cstr = Some cs -> ~ In s (labels cs)) ->
           forall k p, nth_error names k = Some s -> nth_error phi k = Some p -> v = Some p)
      end.
Proof. exact dfphi_map_spec. Qed.
(* ... and through a validated geometry (mapping with NaN -> 0, constraint table completed and re-ordered to the
   sensor names): the value at a cell naming constraint c is  sum_k coef(c, names[k]) * phi[k]  with coef read from the
   ORIGINAL constraint sheet by column label (NaN or missing column = 0); zero / NaN cells give 0 *)
Theorem C19_map_faithful : forall fd ref g phi mp,
  check_geo2 fd ref = Ok g -> getk "mapping" (drop_info (fd_tabs fd)) = Some mp ->
  NoDup (g2_names g) -> g2_names g <> [] -> List.length phi = List.length (g2_names g) ->
  NoDup (labels (cstr0 fd)) -> Numeric (cstr0 fd) ->
  (forall s, In (CName s) (cells_of mp) -> In s (g2_names g) \/ In s (labels (cstr0 fd))) ->
  exists M, geo2_mapped fd ref phi = Ok M /\ List.length M = nrows mp /\
    forall i j c, cell_at (body mp) i j = Some c ->
      exists v, cell_at M i j = Some (Some v) /\
        match c with
        | CNum x => v = x
        | CNaN => v = 0%Qc
        | CName s =>
            (forall coefs, In (s, coefs) (rows (cstr0 fd)) ->
               v = dotq (map (fun n => cnum (col_lookup n (cols (cstr0 fd)) coefs)) (g2_names g)) phi) /\
            (forall k p, nth_error (g2_names g) k = Some s -> nth_error phi k = Some p -> v = p)
        end.
Proof. exact map_faithful. Qed.

(* ---- displayed coordinate = point coordinate + (mapped value of phi*scale) x the cell's sign *)
Theorem C19_displacement_spec : forall g phi scale P, newpoints2 g phi scale = Ok P ->
  exists pts mp sg M, g2_pts g = Some pts /\ g2_map g = Some mp /\ g2_sign g = Some sg /\
    dfphi_map (map (fun x => (x*scale)%Qc) phi) (g2_names g) mp (g2_cstr g) = Ok M /\
    forall i j p v s, cell_at (body pts) i j = Some p -> cell_at M i j = Some v -> cell_at (body sg) i j = Some s ->
      cell_at P i j = Some (oq_add (cell_q p) (disp v s)).
Proof. exact displacement_spec. Qed.
Theorem C19_disp_is_value_times_sign : forall v s, disp (Some v) (CNum s) = Some (v * s)%Qc.
Proof. exact disp_num. Qed.
Theorem C19_default_sign_is_one : forall t i j c, cell_at (body (ones_like t)) i j = Some c -> c = CNum 1%Qc.
Proof. exact ones_like_cell. Qed.

Print Assumptions C19_reindex_spec.
Print Assumptions C19_reindex_perm.
Print Assumptions C19_flatten_forms.
Print Assumptions C19_flatten_ref_first.
Print Assumptions C19_drop_at_spec.
Print Assumptions C19_geo1_ok_iff.
Print Assumptions C19_geo1_valid_iff.
Print Assumptions C19_geo2_ok_iff.
Print Assumptions C19_geo2_valid_iff.
Print Assumptions C19_geo1_error_kind.
Print Assumptions C19_geo2_error_kind.
Print Assumptions C19_geo1_optional_sheets_optional.
Print Assumptions C19_geo2_optional_sheets_optional.
Print Assumptions C19_geo1_required_only.
Print Assumptions C19_geo2_required_only.
Print Assumptions C19_geo1_index_shift.
Print Assumptions C19_geo2_index_shift.
Print Assumptions C19_geo1_rows_at_sensor.
Print Assumptions C19_arrows1_spec.
Print Assumptions C19_dfphi_map_spec.
Print Assumptions C19_map_faithful.
Print Assumptions C19_displacement_spec.
Print Assumptions C19_disp_is_value_times_sign.
Print Assumptions C19_default_sign_is_one.

(* non-vacuity.  geo1: three sensors listed b, a, c; tables in the order c, a, x, b (x unused); one-based lines. *)
Definition ex_q (z:Z) : Qc := Q2Qc (z#1).
Definition ex_num (l:list Z) : list cell := map (fun z => CNum (ex_q z)) l.
Definition ex_row (l:list Z) : list (option Qc) := map (fun z => Some (ex_q z)) l.
Definition ex_phi (l:list Z) : list Qc := map ex_q l.
Definition ex_fd1 : fdict := mkFd (Some (NList ["b"; "a"; "c"]))
  [("sensors coordinates", mkTbl ["x";"y";"z"] [("c", ex_num [3;0;0]%Z); ("a", ex_num [1;0;0]%Z); ("x", ex_num [9;9;9]%Z); ("b", ex_num [2;0;0]%Z)]);
   ("sensors directions",  mkTbl ["x";"y";"z"] [("c", ex_num [0;0;1]%Z); ("a", ex_num [1;0;0]%Z); ("x", ex_num [1;1;1]%Z); ("b", ex_num [0;1;0]%Z)]);
   ("sensors lines", mkTbl ["i";"j"] [("1", ex_num [1;2]%Z); ("2", ex_num [2;3]%Z)])].
Example C19_example_geo1 :
  check_geo1 ex_fd1 None = Ok (mkG1 ["b"; "a"; "c"]
     (mkTbl ["x";"y";"z"] [("b", ex_num [2;0;0]%Z); ("a", ex_num [1;0;0]%Z); ("c", ex_num [3;0;0]%Z)])
     [ex_num [0;1;0]%Z; ex_num [1;0;0]%Z; ex_num [0;0;1]%Z]
     (Some [ex_num [0;1]%Z; ex_num [1;2]%Z]) None None None) /\
  wf_geo1 ex_fd1 None /\
  (* mode shape (10, 20, 30), scale 2: the arrow of component 0 starts at sensor b = (2,0,0) and ends at (2, 20*... *)
  geo1_arrows ex_fd1 None (ex_phi [10; 20; 30]%Z) (ex_q 2) =
    Ok [ (ex_row [2; 0; 0]%Z, ex_row [2; 20; 0]%Z);
         (ex_row [1; 0; 0]%Z, ex_row [41; 0; 0]%Z);
         (ex_row [3; 0; 0]%Z, ex_row [3; 0; 60]%Z) ].
Proof. split; [vm_compute; reflexivity|]. split; [apply geo1_valid_iff; eexists; vm_compute; reflexivity|vm_compute; reflexivity]. Qed.
(* geo2: multi-setup names (REF1, then rovings u, w | m), no optional sheet except constraints given with columns in
   another order and one missing; constraint C1 = 1/2 * w + NaN(=0) * REF1; sign default +1. *)
Definition ex_fd2 : fdict := mkFd (Some (NLists [["r0"; "u"; "w"]; ["m"; "r1"]]))
  [("points coordinates", mkTbl ["x";"y";"z"] [("1", ex_num [0;0;0]%Z); ("2", ex_num [8;0;0]%Z)]);
   ("mapping", mkTbl ["x";"y";"z"] [("1", [CName "u"; CName "REF1"; CNaN]); ("2", [CName "w"; CName "C1"; CName "m"])]);
   ("constraints", mkTbl ["w"; "REF1"] [("C1", [CNum (Q2Qc (1#2)%Q); CNaN])])].
Example C19_example_geo2 :
  (exists g, check_geo2 ex_fd2 (Some [[0%nat]; [1%nat]]) = Ok g /\ g2_names g = ["REF1"; "u"; "w"; "m"] /\
     g2_cstr g = Some (mkTbl ["REF1"; "u"; "w"; "m"] [("C1", [CNum 0%Qc; CNum 0%Qc; CNum (Q2Qc (1#2)%Q); CNum 0%Qc])])) /\
  geo2_mapped ex_fd2 (Some [[0%nat]; [1%nat]]) (ex_phi [1; 2; 4; 8]%Z) =
    Ok [ex_row [2; 1; 0]%Z; ex_row [4; 2; 8]%Z] /\
  geo2_points ex_fd2 (Some [[0%nat]; [1%nat]]) (ex_phi [1; 2; 4; 8]%Z) (ex_q 3) =
    Ok [ex_row [6; 3; 0]%Z; ex_row [20; 6; 24]%Z] /\
  check_geo2 (remove_key "mapping" ex_fd2) (Some [[0%nat]; [1%nat]]) = Err ValueErr.
Proof. split; [eexists; vm_compute; repeat split; reflexivity|]. vm_compute. repeat split; reflexivity. Qed.
