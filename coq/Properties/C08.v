(* C08 - Identification is covariant under gain, channel order / orthogonal mixing and time unit; every reported mode
   shape has its largest-magnitude component equal to 1.
   Statements only: each theorem is closed by [exact] of a lemma of Proofs/P_covar.v, P_covar_pipeline.v, P_covar_dim.v.
   The property is about a pipeline  data -> Hankel / spectra -> SVD / least squares -> realisation -> eig -> (fn, xi, phi).
   What is proved, stage by stage (exact arithmetic, kernels = arguments with contracts):
     * Hankel stage (all three forms of C12: mm, R and the parametric single-lag form): gain g  =>  g^2 H ;
       channel permutation (pi on the data, rho on the references) => rows permuted within each block row, columns within
       each block column ; orthogonal (indeed any linear) mixing Q, Qr => (I (x) Q) H (I (x) Qr)^T ;
       the same three relations for every bilinear estimator (spectral lines, correlations);
     * any triple meeting the SVD contract for H transports to one meeting it for g^2 H and for (I(x)Q) H (I(x)Qr)^T ;
     * the realisation built from the transported triple has the SAME state matrix and C' = c C (c*c = g^2, the code's
       sqrt scaling) resp. C' = Q C ; a linear solve with both sides scaled keeps its solution (pLSCF alpha);
     * unity normalisation: invariant under every non-zero complex scalar, commutes with channel permutations when the
       largest modulus is attained once, its result has largest-magnitude component exactly 1 and no modulus above 1;
     * time unit: lam_c = log(lam_d)/dt  =>  dt/k multiplies lam_c and fn by k, leaves xi (and the shapes, which do not
       see dt) unchanged; every frequency grid of the code is homogeneous of degree 1 in fs; omega_j*dt of the pLSCF
       basis is free of fs.
   Composed END TO END for the covariance-driven SSI pipeline in the EXACT-RANK case (C08_pipeline_*, proofs in
   Proofs/P_covar_pipeline.v): H an exact rank-n Hankel matrix of a system (A, C) with a complete complex modal basis and
   pairwise different poles; run 1 on H and run 2 on the transformed matrix, each with ANY contract-meeting SVD triple, ANY
   square roots of the singular values, ANY left inverse in the shift solve and ANY full eigen-decomposition.  Then the pole
   list of run 2 is a Permutation of that of run 1 (also as continuous poles after a change of time unit: multiplied by
   k), every mode has exactly one partner with the same pole, and the partner shapes are identical after unity
   normalisation (gain; also no transformation at all = independence from the SVD choice), the permuted normalised
   shape (channel permutation, largest modulus attained once), proportional to the rotated shape (orthogonal mixing).
   Stated on the matrices and on the data (hank_mm, hank_R).
   Composed END TO END also for NOISY, FULL-RANK data (C08_pipeline_*_noisy, proofs in Proofs/P_covar_dim.v on Base/Dim.v):
   no exact-rank hypothesis and no "true" system; two runs, each with ANY full decomposition meeting the contract, ANY
   square roots of the retained singular values, the LEAST-SQUARES solve of the shift equation (pinv / QR solve: a left
   inverse with rows in the row space, lsq_inv) and ANY full eigen-decomposition; the order ord separates the retained from
   the discarded singular values (sv_gap_sq; on an ordered carrier with non-negative singular values - numpy's contract -
   it follows from a gap of the values, C08_sv_gap_of_values / C08_sv_gap_of_threshold); the identified poles of run 1 are
   pairwise different.  Then the same conclusions as in the exact-rank case hold for: the same matrix (independence from the
   decomposition LAPACK returns), a common gain, an orthogonal channel mixing, a channel permutation - on the matrices and
   on the data (hank_mm, hank_R).  The key step is the uniqueness of the retained singular subspace under a gap
   (C08_svd_subspace_unique).
   REFUTED: the earlier formulation C08_full_statement (a gap on the singular VALUES over an arbitrary field) is false
   as written - C08_full_statement_refuted; the contract as modelled does not say that singular values are non-negative.
   NOT proved: uniqueness of the singular VALUES themselves (the gap hypotheses relate the values of the two decompositions
   to each other instead); floating-point rounding; the data-dependent choices after the pole table (C10/C11). *)
From Coq Require Import List Arith Lia Ring Field ZArith QArith Qcanon Reals Permutation.
From PyOMA.Base Require Import Carrier FMat Cplx EigCount Dim Show.
From PyOMA.Model Require Import M_hankel M_covar.
From PyOMA.Proofs Require Import P_hankel P_covar P_realise P_covar_pipeline P_covar_dim.
Import ListNotations.

Section S.
Variable R:Type. Variable K:Ops R.
Hypothesis Rth : ring_theory (o0 K) (o1 K) (oadd K) (omul K) (osub K) (oopp K) (@eq R).
Local Open Scope K_scope.
Notation "0" := (o0 K) : K_scope. Notation "1" := (o1 K) : K_scope.
Infix "+" := (oadd K) : K_scope. Infix "*" := (omul K) : K_scope.

(* ---------------- Hankel stage ---------------- *)
Theorem C08_hank_gain_gen : forall win wt dl rl l r g (Y Yref:sig R) I J,
  hank_gen K win wt dl rl l r (sgain K g Y) (sgain K g Yref) I J = g * g * hank_gen K win wt dl rl l r Y Yref I J.
Proof. exact (hank_gain_gen R K Rth). Qed.
Theorem C08_hank_gain_mm : forall invN l r br Ndat g (Y Yref:sig R),
  feq (hank_rows l br) (hank_cols r br)
    (hank_mm K invN l r br Ndat (sgain K g Y) (sgain K g Yref)) (fscal K (g*g) (hank_mm K invN l r br Ndat Y Yref)).
Proof. exact (hank_gain_mm R K Rth). Qed.
Theorem C08_hank_gain_R : forall invn l r br Ndat g (Y Yref:sig R),
  feq (hank_rows l br) (hank_cols r br)
    (hank_R K invn l r br Ndat (sgain K g Y) (sgain K g Yref)) (fscal K (g*g) (hank_R K invn l r br Ndat Y Yref)).
Proof. exact (hank_gain_R R K Rth). Qed.

(* entry (block i, channel a ; block j, reference b) of the matrix of the permuted data is entry (i, pi a ; j, rho b) *)
Theorem C08_hank_perm_gen : forall win wt dl rl l r pi rho (Y Yref:sig R) i a j b,
  (a < l)%nat -> (b < r)%nat -> (pi a < l)%nat -> (rho b < r)%nat ->
  hank_gen K win wt dl rl l r (sperm pi Y) (sperm rho Yref) (i*l+a)%nat (j*r+b)%nat
  = hank_gen K win wt dl rl l r Y Yref (i*l+pi a)%nat (j*r+rho b)%nat.
Proof. exact (hank_perm_gen R K). Qed.
Theorem C08_hank_perm_mm : forall invN l r br Ndat pi rho (Y Yref:sig R),
  (forall a, (a < l)%nat -> (pi a < l)%nat) -> (forall b, (b < r)%nat -> (rho b < r)%nat) ->
  feq (hank_rows l br) (hank_cols r br)
    (hank_mm K invN l r br Ndat (sperm pi Y) (sperm rho Yref))
    (hank_perm_rhs l r pi rho (hank_mm K invN l r br Ndat Y Yref)).
Proof. exact (hank_perm_mm R K Rth). Qed.
Theorem C08_hank_perm_R : forall invn l r br Ndat pi rho (Y Yref:sig R),
  (forall a, (a < l)%nat -> (pi a < l)%nat) -> (forall b, (b < r)%nat -> (rho b < r)%nat) ->
  feq (hank_rows l br) (hank_cols r br)
    (hank_R K invn l r br Ndat (sperm pi Y) (sperm rho Yref))
    (hank_perm_rhs l r pi rho (hank_R K invn l r br Ndat Y Yref)).
Proof. exact (hank_perm_R R K Rth). Qed.

(* mixing: H(Q Y, Qr Yref) = (I (x) Q) H(Y, Yref) (I (x) Qr)^T, entry form and Kronecker form *)
Theorem C08_hank_mix_gen : forall win wt dl rl l r Q Qr (Y Yref:sig R) I J,
  (0 < l)%nat -> (0 < r)%nat ->
  hank_gen K win wt dl rl l r (smix K l Q Y) (smix K r Qr Yref) I J
  = hank_mix_rhs K l r Q Qr (hank_gen K win wt dl rl l r Y Yref) I J.
Proof. exact (hank_mix_gen R K Rth). Qed.
Theorem C08_hank_mix_kron : forall l r br Q Qr (H:fmat R), (0 < l)%nat -> (0 < r)%nat ->
  feq (hank_rows l br) (hank_cols r br) (hank_mix_rhs K l r Q Qr H)
      (fmul K (hank_cols r br) (fmul K (hank_rows l br) (kronI K l Q) H) (ftr (kronI K r Qr))).
Proof. exact (hank_mix_kron R K Rth). Qed.
Theorem C08_smix_pmat : forall l pi (Y:sig R) a t, (pi a < l)%nat -> smix K l (pmat K pi) Y a t = sperm pi Y a t.
Proof. exact (smix_pmat R K Rth). Qed.
Theorem C08_pmat_orth : forall n pi pinv,
  (forall a, (a < n)%nat -> (pi a < n)%nat /\ pinv (pi a) = a) ->
  (forall c, (c < n)%nat -> (pinv c < n)%nat /\ pi (pinv c) = c) ->
  feq n n (fmul K n (ftr (pmat K pi)) (pmat K pi)) (fid K).
Proof. exact (pmat_orth R K Rth). Qed.
Theorem C08_kronI_orth : forall nb l Q, (0 < l)%nat ->
  feq l l (fmul K l (ftr Q) Q) (fid K) -> feq (nb*l) (nb*l) (fmul K (nb*l) (ftr (kronI K l Q)) (kronI K l Q)) (fid K).
Proof. exact (kronI_orth R K Rth). Qed.

(* every bilinear estimator B[a][b] = sum_t sum_s w t s Y_a[t] Yref_b[s] (spectral lines, correlations) *)
Theorem C08_bil_gain : forall N w g (Y Yref:sig R) a b,
  bil_gen K N w (sgain K g Y) (sgain K g Yref) a b = g * g * bil_gen K N w Y Yref a b.
Proof. exact (bil_gain R K Rth). Qed.
Theorem C08_bil_perm : forall N w pi rho (Y Yref:sig R) a b,
  bil_gen K N w (sperm pi Y) (sperm rho Yref) a b = bil_gen K N w Y Yref (pi a) (rho b).
Proof. exact (bil_perm R K). Qed.
Theorem C08_bil_mix : forall N w l r Q Qr (Y Yref:sig R),
  feq l r (bil_gen K N w (smix K l Q Y) (smix K r Qr Yref)) (fmul K r (fmul K l Q (bil_gen K N w Y Yref)) (ftr Qr)).
Proof. exact (bil_mix R K Rth). Qed.

(* ---------------- transport of the SVD contract (for EVERY triple the kernel may return) ---------------- *)
Theorem C08_svd_gain : forall m n k c (H U:fmat R) S (V:fmat R),
  svd_contract K m n k H U S V -> svd_contract K m n k (fscal K c H) U (fun i => c * S i) V.
Proof. exact (svd_gain R K Rth). Qed.
Theorem C08_svd_orth : forall m n k (P Pr H U:fmat R) S (V:fmat R),
  svd_contract K m n k H U S V ->
  feq m m (fmul K m (ftr P) P) (fid K) -> feq n n (fmul K n (ftr Pr) Pr) (fid K) ->
  svd_contract K m n k (fmul K n (fmul K m P H) (ftr Pr)) (fmul K m P U) S (fmul K n Pr V).
Proof. exact (svd_orth R K Rth). Qed.
Theorem C08_svd_span_exact_rank_partial : forall m n k (H U:fmat R) S (V U2:fmat R) S2 S2i (V2:fmat R),
  svd_contract K m n k H U S V -> svd_contract K m n k H U2 S2 V2 ->
  (forall i, (i < k)%nat -> S2 i * S2i i = 1) ->
  feq m k U2 (fmul K k U (fmul K k (fmul K n (fmul K k (cv_diag K S) (ftr V)) V2) (cv_diag K S2i))).
Proof. exact (svd_span_exact_rank R K Rth). Qed.

(* ---------------- the realisation built from the transported triple ---------------- *)
(* Obs = U sqrt(S): with S' = (c*c) S the code's square roots are c*sqrt(S) and Obs' = c Obs *)
Theorem C08_obs_gain : forall m k c U sq S,
  (forall i, sq i * sq i = S i -> (c * sq i) * (c * sq i) = (c*c) * S i) /\
  feq m k (cv_obs K U (fun i => c * sq i)) (fscal K c (cv_obs K U sq)).
Proof. exact (obs_gain_both R K Rth). Qed.
Theorem C08_obs_orth : forall m k P U sq, feq m k (cv_obs K (fmul K m P U) sq) (fmul K m P (cv_obs K U sq)).
Proof. exact (cv_obs_orth R K Rth). Qed.
(* A = L O_m, L a left inverse of O_p: unchanged by the gain ... *)
Theorem C08_realise_gain : forall pr n c ci (L Op Om:fmat R),
  c * ci = 1 -> feq n n (fmul K pr L Op) (fid K) ->
  feq n n (fmul K pr (fscal K ci L) (fscal K c Op)) (fid K) /\
  feq n n (fmul K pr (fscal K ci L) (fscal K c Om)) (fmul K pr L Om).
Proof. exact (realise_gain R K Rth). Qed.
(* ... and by any orthogonal transformation of the rows *)
Theorem C08_realise_orth : forall pr n (Pp L Op Om:fmat R),
  feq pr pr (fmul K pr (ftr Pp) Pp) (fid K) -> feq n n (fmul K pr L Op) (fid K) ->
  feq n n (fmul K pr (fmul K pr L (ftr Pp)) (fmul K pr Pp Op)) (fid K) /\
  feq n n (fmul K pr (fmul K pr L (ftr Pp)) (fmul K pr Pp Om)) (fmul K pr L Om).
Proof. exact (realise_orth R K Rth). Qed.
(* the whole step for a channel mixing Q (a permutation is Q = pmat pi): C' = Q C, same state matrix *)
Theorem C08_realise_transport_mix : forall p l n Q (Ob L:fmat R), (0 < l)%nat ->
  feq l l (fmul K l (ftr Q) Q) (fid K) ->
  feq n n (fmul K (p*l) L Ob) (fid K) ->
  let Ob' := fmul K (S p * l) (kronI K l Q) Ob in
  let L' := fmul K (p*l) L (ftr (kronI K l Q)) in
  feq l n Ob' (fmul K l Q Ob) /\
  feq n n (fmul K (p*l) L' Ob') (fid K) /\
  feq n n (fmul K (p*l) L' (rows_from l Ob')) (fmul K (p*l) L (rows_from l Ob)).
Proof. exact (realise_transport_mix R K Rth). Qed.
Theorem C08_solve_gain_free : forall a b c (A X B:fmat R),
  feq a b (fmul K a A X) B -> feq a b (fmul K a (fscal K c A) X) (fscal K c B).
Proof. exact (solve_gain_free R K Rth). Qed.
End S.

(* ---------------- unity normalisation: any field with a decidable strict order on squared moduli ---------------- *)
Section U.
Variable R:Type. Variable K:Ops R.
Hypothesis Fth : field_theory (o0 K) (o1 K) (oadd K) (omul K) (osub K) (oopp K) (odiv K) (oinv K) (@eq R).
Local Open Scope K_scope.
Notation "0" := (o0 K) : K_scope. Notation "1" := (o1 K) : K_scope.
Infix "+" := (oadd K) : K_scope. Infix "*" := (omul K) : K_scope.
Variable ltb : R -> R -> bool.
Hypothesis lt_irrefl : forall a, ltb a a = false.
Hypothesis lt_trans : forall a b c, ltb a b = true -> ltb b c = true -> ltb a c = true.
Hypothesis lt_tricho : forall a b, ltb a b = false -> ltb b a = false -> a = b.
Hypothesis lt_mul_pos : forall c a b, ltb 0 c = true -> ltb (c*a) (c*b) = ltb a b.
Hypothesis sq_nonneg : forall a b, ltb (a*a + b*b) 0 = false.

Theorem C08_unity_norm_scale : forall s v, cnorm2 K s <> 0 ->
  cv_unity_norm K ltb (map (cmul K s) v) = cv_unity_norm K ltb v.
Proof. exact (unity_norm_scale R K Fth ltb lt_irrefl lt_tricho lt_mul_pos sq_nonneg). Qed.
Theorem C08_unity_norm_unit_max : forall v w, cv_unity_norm K ltb v = Some w ->
  length w = length v /\ cv_pivot K ltb w = c1 K /\ forall z, In z w -> ltb 1 (cnorm2 K z) = false.
Proof. exact (unity_norm_unit_max R K Fth ltb lt_irrefl lt_trans lt_tricho lt_mul_pos sq_nonneg). Qed.
Theorem C08_unity_norm_perm : forall pi v k,
  (forall i, (i < length v)%nat -> (pi i < length v)%nat) ->
  (forall c, (c < length v)%nat -> exists i, (i < length v)%nat /\ pi i = c) ->
  (k < length v)%nat ->
  (forall j, (j < length v)%nat -> j <> k -> ltb (cnorm2 K (nth j v (c0 K))) (cnorm2 K (nth k v (c0 K))) = true) ->
  cv_unity_norm K ltb (cv_vperm K pi (length v) v) = option_map (cv_vperm K pi (length v)) (cv_unity_norm K ltb v).
Proof. exact (unity_norm_perm R K Fth ltb lt_irrefl lt_trans). Qed.
End U.

(* the executed instance: Gaussian rationals *)
Theorem C08_unity_norm_scale_Qc : forall s v, cnorm2 QcOps s <> 0%Qc ->
  unity_norm_Qc (map (cmul QcOps s) v) = unity_norm_Qc v.
Proof. exact unity_norm_scale_Qc. Qed.
Theorem C08_unity_norm_unit_max_Qc : forall v w, unity_norm_Qc v = Some w ->
  length w = length v /\ cv_pivot QcOps Qc_ltb w = c1 QcOps /\ forall z, In z w -> Qc_ltb 1%Qc (cnorm2 QcOps z) = false.
Proof. exact unity_norm_unit_max_Qc. Qed.
Theorem C08_unity_norm_perm_Qc : forall pi v k,
  (forall i, (i < length v)%nat -> (pi i < length v)%nat) ->
  (forall c, (c < length v)%nat -> exists i, (i < length v)%nat /\ pi i = c) ->
  (k < length v)%nat ->
  (forall j, (j < length v)%nat -> j <> k -> Qc_ltb (cnorm2 QcOps (nth j v (c0 QcOps))) (cnorm2 QcOps (nth k v (c0 QcOps))) = true) ->
  unity_norm_Qc (cv_vperm QcOps pi (length v) v) = option_map (cv_vperm QcOps pi (length v)) (unity_norm_Qc v).
Proof. exact unity_norm_perm_Qc. Qed.

(* ---------------- time unit ---------------- *)
Section T.
Variable R:Type. Variable K:Ops R.
Hypothesis Fth : field_theory (o0 K) (o1 K) (oadd K) (omul K) (osub K) (oopp K) (odiv K) (oinv K) (@eq R).
Local Open Scope K_scope.
Notation "0" := (o0 K) : K_scope. Notation "1" := (o1 K) : K_scope.
Infix "+" := (oadd K) : K_scope. Infix "*" := (omul K) : K_scope. Infix "/" := (odiv K) : K_scope.

Theorem C08_lamc_dt_scale : forall logl dt k, dt <> 0 -> k <> 0 -> lamc K logl (dt / k) = cscal K k (lamc K logl dt).
Proof. exact (lamc_dt_scale R K Fth). Qed.
Theorem C08_mp_scale : forall lam k,
  mp_w2 K (cscal K k lam) = (k*k) * mp_w2 K lam /\ cre (cscal K k lam) = k * cre lam /\
  (k <> 0 -> cnorm2 K lam <> 0 -> mp_xi2 K (cscal K k lam) = mp_xi2 K lam).
Proof. exact (mp_scale_all R K Fth). Qed.
Theorem C08_grid_scale : forall fs n j k, fs <> 0 -> k <> 0 -> n <> 0 -> 1+1 <> 0 ->
  grid_cor K (k*fs) n j = k * grid_cor K fs n j /\ grid_per K (k*fs) n j = k * grid_per K fs n j /\
  grid_bell K (k*fs) n j = k * grid_bell K fs n j /\ grid_lin K (k*fs) n j = k * grid_lin K fs n j.
Proof. exact (grid_scale_all R K Fth). Qed.
Theorem C08_basis_arg_fs_free : forall twopi fs nfm1 j k, fs <> 0 -> k <> 0 -> nfm1 <> 0 -> 1+1 <> 0 ->
  basis_arg K twopi (k*fs) nfm1 j = basis_arg K twopi fs nfm1 j.
Proof. exact (basis_arg_fs_free R K Fth). Qed.
End T.

(* at the reals, with fn = |lam_c|/(2 pi) and xi = -Re lam_c/|lam_c| as the code has them *)
Theorem C08_ac2mp_dt_scale : forall (logl:Cplx.C R) (dt k:R), (0 < dt)%R -> (0 < k)%R -> cnorm2 cvROps logl <> 0%R ->
  lamc cvROps logl (dt / k)%R = cscal cvROps k (lamc cvROps logl dt) /\
  fn_R (lamc cvROps logl (dt / k)%R) = (k * fn_R (lamc cvROps logl dt))%R /\
  xi_R (lamc cvROps logl (dt / k)%R) = xi_R (lamc cvROps logl dt).
Proof. exact ac2mp_dt_scale. Qed.

(* ---------------- the whole covariance-driven SSI pipeline, exact-rank case ----------------
   Vocabulary (Proofs/P_covar_pipeline.v):
     exact_sys rows cols l n H Ob Gam OL GR A C   H = Ob Gam, OL Ob = I, Gam GR = I, Ob[l:] = Ob[:-l] A, Ob[:l] = C
     svd_run rows cols k n H U S V sq sqi         (U,S,V) meets svd_contract for H, S j = 0 for n <= j < k,
                                                  sq j * sq j = S j and sq j * sqi j = 1 for j < n
     ident_A rows l L U sq = L Obs[l:] , ident_C U sq = Obs  with Obs = U sqrt(S) (cv_obs), L any left inverse of Obs[:-l]
     modal_basis n A Phi Phii lam                 A Phi = Phi diag(lam) over the complex pairs, Phi two-sided invertible,
                                                  lam pairwise different
     eig_run n Ah Vv W d                          Ah Vv = Vv diag(d), W Vv = I
     two_runs .. A H H' (run 1) (run 2) ..        svd_run + left inverse for H and for H', modal_basis, eig_run for both A_n
     shape_of l n Ch Vv k                         column k of Ch Vv as a list of l complex components
     poles_shapes_agree l n d d' rel              Permutation (tab n d') (tab n d); for every complex logarithm clog and
                                                  dt, kk <> 0 the lists lamc (clog d') (dt/kk) and kk * lamc (clog d) dt are a
                                                  Permutation; every k < n has exactly one k' < n with d' k' = d k, and rel k k'
     rel_gain / rel_mix / rel_perm                shape' k' = s * shape k (s <> 0) and equal unity normalisations / the same
                                                  against the rotated shape Q (Ch Vv)[:,k] / against the permuted shape, with
                                                  unorm shape' = vperm (unorm shape) when the largest modulus is attained once *)
Section PipeRing.
Variable R:Type. Variable K:Ops R.
Hypothesis Rth : ring_theory (o0 K) (o1 K) (oadd K) (omul K) (osub K) (oopp K) (@eq R).
Local Open Scope K_scope.
Notation "0" := (o0 K) : K_scope. Notation "1" := (o1 K) : K_scope.
Infix "+" := (oadd K) : K_scope. Infix "*" := (omul K) : K_scope.

(* whatever triple, square roots and left inverse: the identified pair is similar to the true one *)
Theorem C08_pipeline_ident_similar : forall rows cols l k n (H Ob Gam OL GR A C U V L:fmat R) (S sq sqi:nat->R),
  exact_sys R K rows cols l n H Ob Gam OL GR A C ->
  svd_run R K rows cols k n H U S V sq sqi ->
  feq n n (fmul K (rows - l) L (cv_obs K U sq)) (fid K) ->
  exists T Ti, P_realise.similar_pair R K l n A C (ident_A R K rows l L U sq) (ident_C R K U sq) T Ti.
Proof. exact (ident_similar R K Rth). Qed.
(* the transformed matrices are exact Hankel matrices of (A, g C) resp. (A, Q C) *)
Theorem C08_pipeline_exact_sys_gain : forall rows cols l n (H Ob Gam OL GR A C:fmat R) g gi, g * gi = 1 ->
  exact_sys R K rows cols l n H Ob Gam OL GR A C ->
  exact_sys R K rows cols l n (fscal K (g*g) H) (fscal K g Ob) (fscal K g Gam) (fscal K gi OL) (fscal K gi GR) A (fscal K g C).
Proof. exact (exact_sys_gain R K Rth). Qed.
Theorem C08_pipeline_exact_sys_mix : forall l r br n (H Ob Gam OL GR A C Q Qr:fmat R), (0 < l)%nat -> (0 < r)%nat ->
  feq l l (fmul K l (ftr Q) Q) (fid K) -> feq r r (fmul K r (ftr Qr) Qr) (fid K) ->
  exact_sys R K (hank_rows l br) (hank_cols r br) l n H Ob Gam OL GR A C ->
  exact_sys R K (hank_rows l br) (hank_cols r br) l n
    (fmul K (hank_cols r br) (fmul K (hank_rows l br) (kronI K l Q) H) (ftr (kronI K r Qr)))
    (fmul K (hank_rows l br) (kronI K l Q) Ob) (fmul K (hank_cols r br) Gam (ftr (kronI K r Qr)))
    (fmul K (hank_rows l br) OL (ftr (kronI K l Q))) (fmul K (hank_cols r br) (kronI K r Qr) GR)
    A (fmul K l Q C).
Proof. exact (exact_sys_mix R K Rth). Qed.
(* a channel permutation is the mixing with its permutation matrix (links C08_hank_perm_* to C08_hank_mix_kron) *)
Theorem C08_hank_perm_is_mix : forall l r br pi rho (H:fmat R),
  (forall a, (a < l)%nat -> (pi a < l)%nat) -> (forall b, (b < r)%nat -> (rho b < r)%nat) ->
  feq (hank_rows l br) (hank_cols r br) (hank_perm_rhs l r pi rho H) (hank_mix_rhs K l r (pmat K pi) (pmat K rho) H).
Proof. exact (hank_perm_is_mix R K Rth). Qed.
End PipeRing.

Section Pipe.
Variable R:Type. Variable K:Ops R.
Hypothesis Fth : field_theory (o0 K) (o1 K) (oadd K) (omul K) (osub K) (oopp K) (odiv K) (oinv K) (@eq R).
Hypothesis Hreal : forall a b:R, oadd K (omul K a a) (omul K b b) = o0 K -> a = o0 K.
Local Open Scope K_scope.
Notation "0" := (o0 K) : K_scope. Notation "1" := (o1 K) : K_scope.
Infix "+" := (oadd K) : K_scope. Infix "*" := (omul K) : K_scope.
Variable ltb : R -> R -> bool.
Hypothesis lt_irrefl : forall a, ltb a a = false.
Hypothesis lt_trans : forall a b c, ltb a b = true -> ltb b c = true -> ltb a c = true.
Hypothesis lt_tricho : forall a b, ltb a b = false -> ltb b a = false -> a = b.
Hypothesis lt_mul_pos : forall c a b, ltb 0 c = true -> ltb (c*a) (c*b) = ltb a b.
Hypothesis sq_nonneg : forall a b, ltb (a*a + b*b) 0 = false.

(* (0) same matrix, two arbitrary sets of kernel answers: the result does not depend on the SVD the kernel returns *)
Theorem C08_pipeline_svd_choice : forall rows cols l n k1 k2 (H Ob Gam OL GR A Cm:fmat R)
    U V L S sq sqi U' V' L' S' sq' sqi' Phi Phii Vv W Vv' W' lam d d',
  exact_sys R K rows cols l n H Ob Gam OL GR A Cm ->
  two_runs R K rows cols l n k1 k2 A H H U V L S sq sqi U' V' L' S' sq' sqi' Phi Phii Vv W Vv' W' lam d d' ->
  poles_shapes_agree R K l n d d' (rel_gain R K ltb l n (ident_C R K U sq) Vv (ident_C R K U' sq') Vv').
Proof. exact (pipeline_svd_choice R K Fth Hreal ltb lt_irrefl lt_tricho lt_mul_pos sq_nonneg). Qed.

(* (i) common gain g (g * gi = 1): H' = g^2 H *)
Theorem C08_pipeline_gain : forall rows cols l n k1 k2 (H Ob Gam OL GR A Cm:fmat R) (g gi:R)
    U V L S sq sqi U' V' L' S' sq' sqi' Phi Phii Vv W Vv' W' lam d d',
  g * gi = 1 ->
  exact_sys R K rows cols l n H Ob Gam OL GR A Cm ->
  two_runs R K rows cols l n k1 k2 A H (fscal K (g*g) H) U V L S sq sqi U' V' L' S' sq' sqi' Phi Phii Vv W Vv' W' lam d d' ->
  poles_shapes_agree R K l n d d' (rel_gain R K ltb l n (ident_C R K U sq) Vv (ident_C R K U' sq') Vv').
Proof. exact (pipeline_gain R K Fth Hreal ltb lt_irrefl lt_tricho lt_mul_pos sq_nonneg). Qed.

(* (ii) orthogonal mixing Q of the channels, Qr of the references: H' = (I (x) Q) H (I (x) Qr)^T = hank_mix_rhs Q Qr H *)
Theorem C08_pipeline_mix : forall l r br n k1 k2 (H Ob Gam OL GR A Cm Q Qr:fmat R)
    U V L S sq sqi U' V' L' S' sq' sqi' Phi Phii Vv W Vv' W' lam d d',
  (0 < l)%nat -> (0 < r)%nat ->
  feq l l (fmul K l (ftr Q) Q) (fid K) -> feq r r (fmul K r (ftr Qr) Qr) (fid K) ->
  exact_sys R K (hank_rows l br) (hank_cols r br) l n H Ob Gam OL GR A Cm ->
  two_runs R K (hank_rows l br) (hank_cols r br) l n k1 k2 A H (hank_mix_rhs K l r Q Qr H)
           U V L S sq sqi U' V' L' S' sq' sqi' Phi Phii Vv W Vv' W' lam d d' ->
  poles_shapes_agree R K l n d d' (rel_mix R K ltb l n Q (ident_C R K U sq) Vv (ident_C R K U' sq') Vv').
Proof. exact (pipeline_mix R K Fth Hreal ltb lt_irrefl lt_tricho lt_mul_pos sq_nonneg). Qed.

(* (ii') channel permutation pi, reference permutation rho: H' = hank_perm_rhs pi rho H *)
Theorem C08_pipeline_perm : forall l r br n k1 k2 (H Ob Gam OL GR A Cm:fmat R) (pi pinv rho rhoinv:nat -> nat)
    U V L S sq sqi U' V' L' S' sq' sqi' Phi Phii Vv W Vv' W' lam d d',
  (forall a, (a < l)%nat -> (pi a < l)%nat /\ pinv (pi a) = a) ->
  (forall c, (c < l)%nat -> (pinv c < l)%nat /\ pi (pinv c) = c) ->
  (forall a, (a < r)%nat -> (rho a < r)%nat /\ rhoinv (rho a) = a) ->
  (forall c, (c < r)%nat -> (rhoinv c < r)%nat /\ rho (rhoinv c) = c) ->
  (0 < l)%nat -> (0 < r)%nat ->
  exact_sys R K (hank_rows l br) (hank_cols r br) l n H Ob Gam OL GR A Cm ->
  two_runs R K (hank_rows l br) (hank_cols r br) l n k1 k2 A H (hank_perm_rhs l r pi rho H)
           U V L S sq sqi U' V' L' S' sq' sqi' Phi Phii Vv W Vv' W' lam d d' ->
  poles_shapes_agree R K l n d d' (rel_perm R K ltb l n pi (ident_C R K U sq) Vv (ident_C R K U' sq') Vv').
Proof. exact (pipeline_perm R K Fth Hreal ltb lt_irrefl lt_trans lt_tricho lt_mul_pos sq_nonneg). Qed.

(* the same on the DATA, methods cov_mm (hank_mm) and cov_R (hank_R): run 1 on Hankel(Y, Yref), run 2 on
   Hankel(g Y, g Yref) / Hankel(Q Y, Qr Yref) / Hankel(Y[pi], Yref[rho]) *)
Theorem C08_pipeline_gain_mm : forall invN l r br Ndat n k1 k2 (Y Yref:sig R) (Ob Gam OL GR A Cm:fmat R) (g gi:R)
    U V L S sq sqi U' V' L' S' sq' sqi' Phi Phii Vv W Vv' W' lam d d',
  g * gi = 1 ->
  exact_sys R K (hank_rows l br) (hank_cols r br) l n (hank_mm K invN l r br Ndat Y Yref) Ob Gam OL GR A Cm ->
  two_runs R K (hank_rows l br) (hank_cols r br) l n k1 k2 A
           (hank_mm K invN l r br Ndat Y Yref) (hank_mm K invN l r br Ndat (sgain K g Y) (sgain K g Yref))
           U V L S sq sqi U' V' L' S' sq' sqi' Phi Phii Vv W Vv' W' lam d d' ->
  poles_shapes_agree R K l n d d' (rel_gain R K ltb l n (ident_C R K U sq) Vv (ident_C R K U' sq') Vv').
Proof.
  exact (fun invN l r br Ndat => pipeline_gain_data R K Fth Hreal ltb lt_irrefl lt_tricho lt_mul_pos sq_nonneg
           _ _ _ _ l r br (hank_mm K invN l r br Ndat) (hank_mm_is_gen R K (F_R Fth) invN l r br Ndat)).
Qed.
Theorem C08_pipeline_gain_R : forall invn l r br Ndat n k1 k2 (Y Yref:sig R) (Ob Gam OL GR A Cm:fmat R) (g gi:R)
    U V L S sq sqi U' V' L' S' sq' sqi' Phi Phii Vv W Vv' W' lam d d',
  g * gi = 1 ->
  exact_sys R K (hank_rows l br) (hank_cols r br) l n (hank_R K invn l r br Ndat Y Yref) Ob Gam OL GR A Cm ->
  two_runs R K (hank_rows l br) (hank_cols r br) l n k1 k2 A
           (hank_R K invn l r br Ndat Y Yref) (hank_R K invn l r br Ndat (sgain K g Y) (sgain K g Yref))
           U V L S sq sqi U' V' L' S' sq' sqi' Phi Phii Vv W Vv' W' lam d d' ->
  poles_shapes_agree R K l n d d' (rel_gain R K ltb l n (ident_C R K U sq) Vv (ident_C R K U' sq') Vv').
Proof.
  exact (fun invn l r br Ndat => pipeline_gain_data R K Fth Hreal ltb lt_irrefl lt_tricho lt_mul_pos sq_nonneg
           _ _ _ _ l r br (hank_R K invn l r br Ndat) (hank_R_is_gen R K (F_R Fth) invn l r br Ndat)).
Qed.
Theorem C08_pipeline_mix_mm : forall invN l r br Ndat n k1 k2 (Y Yref:sig R) (Ob Gam OL GR A Cm Q Qr:fmat R)
    U V L S sq sqi U' V' L' S' sq' sqi' Phi Phii Vv W Vv' W' lam d d',
  (0 < l)%nat -> (0 < r)%nat ->
  feq l l (fmul K l (ftr Q) Q) (fid K) -> feq r r (fmul K r (ftr Qr) Qr) (fid K) ->
  exact_sys R K (hank_rows l br) (hank_cols r br) l n (hank_mm K invN l r br Ndat Y Yref) Ob Gam OL GR A Cm ->
  two_runs R K (hank_rows l br) (hank_cols r br) l n k1 k2 A
           (hank_mm K invN l r br Ndat Y Yref) (hank_mm K invN l r br Ndat (smix K l Q Y) (smix K r Qr Yref))
           U V L S sq sqi U' V' L' S' sq' sqi' Phi Phii Vv W Vv' W' lam d d' ->
  poles_shapes_agree R K l n d d' (rel_mix R K ltb l n Q (ident_C R K U sq) Vv (ident_C R K U' sq') Vv').
Proof.
  exact (fun invN l r br Ndat => pipeline_mix_data R K Fth Hreal ltb lt_irrefl lt_tricho lt_mul_pos sq_nonneg
           _ _ _ _ l r br (hank_mm K invN l r br Ndat) (hank_mm_is_gen R K (F_R Fth) invN l r br Ndat)).
Qed.
Theorem C08_pipeline_mix_R : forall invn l r br Ndat n k1 k2 (Y Yref:sig R) (Ob Gam OL GR A Cm Q Qr:fmat R)
    U V L S sq sqi U' V' L' S' sq' sqi' Phi Phii Vv W Vv' W' lam d d',
  (0 < l)%nat -> (0 < r)%nat ->
  feq l l (fmul K l (ftr Q) Q) (fid K) -> feq r r (fmul K r (ftr Qr) Qr) (fid K) ->
  exact_sys R K (hank_rows l br) (hank_cols r br) l n (hank_R K invn l r br Ndat Y Yref) Ob Gam OL GR A Cm ->
  two_runs R K (hank_rows l br) (hank_cols r br) l n k1 k2 A
           (hank_R K invn l r br Ndat Y Yref) (hank_R K invn l r br Ndat (smix K l Q Y) (smix K r Qr Yref))
           U V L S sq sqi U' V' L' S' sq' sqi' Phi Phii Vv W Vv' W' lam d d' ->
  poles_shapes_agree R K l n d d' (rel_mix R K ltb l n Q (ident_C R K U sq) Vv (ident_C R K U' sq') Vv').
Proof.
  exact (fun invn l r br Ndat => pipeline_mix_data R K Fth Hreal ltb lt_irrefl lt_tricho lt_mul_pos sq_nonneg
           _ _ _ _ l r br (hank_R K invn l r br Ndat) (hank_R_is_gen R K (F_R Fth) invn l r br Ndat)).
Qed.
Theorem C08_pipeline_perm_mm : forall invN l r br Ndat n k1 k2 (Y Yref:sig R) (Ob Gam OL GR A Cm:fmat R) (pi pinv rho rhoinv:nat -> nat)
    U V L S sq sqi U' V' L' S' sq' sqi' Phi Phii Vv W Vv' W' lam d d',
  (forall a, (a < l)%nat -> (pi a < l)%nat /\ pinv (pi a) = a) ->
  (forall c, (c < l)%nat -> (pinv c < l)%nat /\ pi (pinv c) = c) ->
  (forall a, (a < r)%nat -> (rho a < r)%nat /\ rhoinv (rho a) = a) ->
  (forall c, (c < r)%nat -> (rhoinv c < r)%nat /\ rho (rhoinv c) = c) ->
  (0 < l)%nat -> (0 < r)%nat ->
  exact_sys R K (hank_rows l br) (hank_cols r br) l n (hank_mm K invN l r br Ndat Y Yref) Ob Gam OL GR A Cm ->
  two_runs R K (hank_rows l br) (hank_cols r br) l n k1 k2 A
           (hank_mm K invN l r br Ndat Y Yref) (hank_mm K invN l r br Ndat (sperm pi Y) (sperm rho Yref))
           U V L S sq sqi U' V' L' S' sq' sqi' Phi Phii Vv W Vv' W' lam d d' ->
  poles_shapes_agree R K l n d d' (rel_perm R K ltb l n pi (ident_C R K U sq) Vv (ident_C R K U' sq') Vv').
Proof.
  exact (fun invN l r br Ndat => pipeline_perm_data R K Fth Hreal ltb lt_irrefl lt_trans lt_tricho lt_mul_pos sq_nonneg
           _ _ _ _ l r br (hank_mm K invN l r br Ndat) (hank_mm_is_gen R K (F_R Fth) invN l r br Ndat)).
Qed.
Theorem C08_pipeline_perm_R : forall invn l r br Ndat n k1 k2 (Y Yref:sig R) (Ob Gam OL GR A Cm:fmat R) (pi pinv rho rhoinv:nat -> nat)
    U V L S sq sqi U' V' L' S' sq' sqi' Phi Phii Vv W Vv' W' lam d d',
  (forall a, (a < l)%nat -> (pi a < l)%nat /\ pinv (pi a) = a) ->
  (forall c, (c < l)%nat -> (pinv c < l)%nat /\ pi (pinv c) = c) ->
  (forall a, (a < r)%nat -> (rho a < r)%nat /\ rhoinv (rho a) = a) ->
  (forall c, (c < r)%nat -> (rhoinv c < r)%nat /\ rho (rhoinv c) = c) ->
  (0 < l)%nat -> (0 < r)%nat ->
  exact_sys R K (hank_rows l br) (hank_cols r br) l n (hank_R K invn l r br Ndat Y Yref) Ob Gam OL GR A Cm ->
  two_runs R K (hank_rows l br) (hank_cols r br) l n k1 k2 A
           (hank_R K invn l r br Ndat Y Yref) (hank_R K invn l r br Ndat (sperm pi Y) (sperm rho Yref))
           U V L S sq sqi U' V' L' S' sq' sqi' Phi Phii Vv W Vv' W' lam d d' ->
  poles_shapes_agree R K l n d d' (rel_perm R K ltb l n pi (ident_C R K U sq) Vv (ident_C R K U' sq') Vv').
Proof.
  exact (fun invn l r br Ndat => pipeline_perm_data R K Fth Hreal ltb lt_irrefl lt_trans lt_tricho lt_mul_pos sq_nonneg
           _ _ _ _ l r br (hank_R K invn l r br Ndat) (hank_R_is_gen R K (F_R Fth) invn l r br Ndat)).
Qed.
End Pipe.

(* ---------------- uniqueness of the retained singular subspace under a gap (Base/Dim.v) ---------------- *)
Section SvdGap.
Variable R:Type. Variable K:Ops R.
Hypothesis Fth : field_theory (o0 K) (o1 K) (oadd K) (omul K) (osub K) (oopp K) (odiv K) (oinv K) (@eq R).
Local Open Scope K_scope.
Notation "0" := (o0 K) : K_scope. Notation "1" := (o1 K) : K_scope.
Infix "+" := (oadd K) : K_scope. Infix "*" := (omul K) : K_scope.

(* two FULL decompositions of the same matrix, truncated at an order that separates the SQUARED retained values of either
   from the squared discarded values of the other, retained values non-zero: the retained left singular vectors span
   the same space, U2[:, :ord] = U[:, :ord] T with T two-sided invertible *)
Theorem C08_svd_subspace_unique : forall (Rdec:forall x y:R, {x = y} + {x <> y})
    m n ord (H U:fmat R) S (V U2:fmat R) S2 (V2:fmat R),
  (ord <= n)%nat ->
  svd_contract K m n n H U S V -> svd_contract K m n n H U2 S2 V2 ->
  (forall a b, (a < ord)%nat -> (ord <= b < n)%nat -> S a * S a <> S2 b * S2 b /\ S2 a * S2 a <> S b * S b) ->
  (forall a, (a < ord)%nat -> S a <> 0 /\ S2 a <> 0) ->
  exists T Ti:fmat R, feq ord ord (fmul K ord T Ti) (fid K) /\ feq ord ord (fmul K ord Ti T) (fid K) /\
    feq m ord U2 (fmul K ord U T).
Proof. exact (svd_subspace_unique_c08 R K Fth). Qed.

(* the least-squares solve (lsq_inv p n L M: L M = I and L = X M^T for some X - what pinv and the QR solve return for a
   matrix of full column rank) of M' = P M T, P with orthonormal columns and T invertible, is Ti L P^T ... *)
Theorem C08_lsq_transport : forall (Rdec:forall x y:R, {x = y} + {x <> y}) p n (M M' P T Ti L L':fmat R),
  feq p p (fmul K p (ftr P) P) (fid K) -> feq n n (fmul K n T Ti) (fid K) ->
  feq p n M' (fmul K n (fmul K p P M) T) ->
  lsq_inv R K p n L M -> lsq_inv R K p n L' M' ->
  feq n p L' (fmul K n Ti (fmul K p L (ftr P))).
Proof. exact (lsq_transport R K Fth). Qed.
(* ... hence the pair identified from Obs' (upper rows Pp Oup T, shifted rows Pp Odn T, first block Q Cb T) is similar
   to (A_1, Q C_1), although neither shift equation has an exact solution *)
Theorem C08_noisy_similar : forall (Rdec:forall x y:R, {x = y} + {x <> y}) p l n
    (Oup Odn Cb Oup' Odn' Cb' Pp Q T Ti L L':fmat R),
  feq p p (fmul K p (ftr Pp) Pp) (fid K) -> feq n n (fmul K n T Ti) (fid K) -> feq n n (fmul K n Ti T) (fid K) ->
  feq p n Oup' (fmul K n (fmul K p Pp Oup) T) -> feq p n Odn' (fmul K n (fmul K p Pp Odn) T) ->
  feq l n Cb' (fmul K n (fmul K l Q Cb) T) ->
  lsq_inv R K p n L Oup -> lsq_inv R K p n L' Oup' ->
  similar_pair R K l n (fmul K p L Odn) (fmul K l Q Cb) (fmul K p L' Odn') Cb' T Ti.
Proof. exact (noisy_similar R K Fth). Qed.

(* on an ORDERED carrier (boolean strict order, the facts of Section U) with NON-NEGATIVE singular values - numpy's
   contract - a gap of the values gives the gap of the squares *)
Variable ltb : R -> R -> bool.
Hypothesis lt_irrefl : forall a, ltb a a = false.
Hypothesis lt_trans : forall a b c, ltb a b = true -> ltb b c = true -> ltb a c = true.
Hypothesis lt_tricho : forall a b, ltb a b = false -> ltb b a = false -> a = b.
Hypothesis lt_mul_pos : forall c a b, ltb 0 c = true -> ltb (c*a) (c*b) = ltb a b.

(* sv_gap_values: all values >= 0; retained values agree index-wise and are non-zero; retained <> discarded within each
   decomposition (the hypotheses of C08_full_statement plus non-negativity and full rank on the retained part) *)
Theorem C08_sv_gap_of_values : forall n ord (S S2:nat -> R),
  (ord <= n)%nat -> sv_gap_values R K ltb n ord S S2 -> sv_gap_sq R K n ord S S2.
Proof. exact (sv_gap_of_values R K Fth ltb lt_irrefl lt_trans lt_tricho lt_mul_pos). Qed.
(* sv_gap_threshold: some tau >= 0 with retained values of both decompositions > tau >= discarded values >= 0
   (numpy: values sorted descending, tau = S[ord]) *)
Theorem C08_sv_gap_of_threshold : forall n ord (S S2:nat -> R),
  sv_gap_threshold R K ltb n ord S S2 -> sv_gap_sq R K n ord S S2.
Proof. exact (sv_gap_of_threshold R K Fth ltb lt_irrefl lt_trans lt_tricho lt_mul_pos). Qed.

(* C08_full_statement REPAIRED: its hypotheses plus non-negative singular values and non-zero retained values *)
Theorem C08_svd_subspace_unique_nonneg : forall m n ord (H U:fmat R) S (V U2:fmat R) S2 (V2:fmat R),
  (ord <= n)%nat ->
  svd_contract K m n n H U S V -> svd_contract K m n n H U2 S2 V2 ->
  (forall i, (i < n)%nat -> ltb (S i) 0 = false /\ ltb (S2 i) 0 = false) ->
  (forall i, (i < ord)%nat -> S i = S2 i /\ S i <> 0) ->
  (forall i j, (i < ord)%nat -> (ord <= j < n)%nat -> S i <> S j /\ S2 i <> S2 j) ->
  exists T Ti:fmat R, feq ord ord (fmul K ord T Ti) (fid K) /\ feq ord ord (fmul K ord Ti T) (fid K) /\
    feq m ord U2 (fmul K ord U T).
Proof. exact (svd_subspace_unique_nonneg R K Fth ltb lt_irrefl lt_trans lt_tricho lt_mul_pos). Qed.
Theorem C08_svd_subspace_unique_threshold : forall m n ord (H U:fmat R) S (V U2:fmat R) S2 (V2:fmat R) (tau:R),
  (ord <= n)%nat ->
  svd_contract K m n n H U S V -> svd_contract K m n n H U2 S2 V2 ->
  ltb tau 0 = false ->
  (forall a, (a < ord)%nat -> ltb tau (S a) = true /\ ltb tau (S2 a) = true) ->
  (forall b, (ord <= b < n)%nat ->
     ltb (S b) 0 = false /\ ltb tau (S b) = false /\ ltb (S2 b) 0 = false /\ ltb tau (S2 b) = false) ->
  exists T Ti:fmat R, feq ord ord (fmul K ord T Ti) (fid K) /\ feq ord ord (fmul K ord Ti T) (fid K) /\
    feq m ord U2 (fmul K ord U T).
Proof. exact (svd_subspace_unique_threshold R K Fth ltb lt_irrefl lt_trans lt_tricho lt_mul_pos). Qed.
End SvdGap.

(* the repaired statement at the reals, order = Rle *)
Theorem C08_svd_subspace_unique_R : forall m n ord (H U:fmat R) (S:nat -> R) (V U2:fmat R) (S2:nat -> R) (V2:fmat R),
  (ord <= n)%nat ->
  svd_contract cvROps m n n H U S V -> svd_contract cvROps m n n H U2 S2 V2 ->
  (forall i, (i < n)%nat -> (0 <= S i)%R /\ (0 <= S2 i)%R) ->
  (forall i, (i < ord)%nat -> S i = S2 i /\ S i <> 0%R) ->
  (forall i j, (i < ord)%nat -> (ord <= j < n)%nat -> S i <> S j /\ S2 i <> S2 j) ->
  exists T Ti:fmat R, feq ord ord (fmul cvROps ord T Ti) (fid cvROps) /\ feq ord ord (fmul cvROps ord Ti T) (fid cvROps) /\
    feq m ord U2 (fmul cvROps ord U T).
Proof. exact svd_subspace_unique_R. Qed.

(* ---------------- the whole covariance-driven SSI pipeline on NOISY, FULL-RANK data ----------------
   Vocabulary (Proofs/P_covar_dim.v):
     lsq_inv p n L M                              L M = I and L = X M^T for some X (pinv / QR solve of a full-column-rank M)
     noisy_run rows cols l ord H U S V L sq       (U,S,V) meets svd_contract (full: cols triplets) for H, sq j * sq j = S j for
                                                  j < ord, L is the least-squares inverse of Obs[:-l], Obs = U[:, :ord] sq
     two_runs_noisy .. H H' (run 1) (run 2) ..    noisy_run for H and for H', eig_run for both A_n = L Obs[l:], and the
                                                  poles d of run 1 pairwise different
     sv_gap_sq n ord S S'                         squares of retained values of either decomposition differ from squares of
                                                  discarded values of the other; retained values non-zero
   Conclusions exactly as in the exact-rank case (poles_shapes_agree with rel_gain / rel_mix / rel_perm). *)
Section PipeNoisy.
Variable R:Type. Variable K:Ops R.
Hypothesis Fth : field_theory (o0 K) (o1 K) (oadd K) (omul K) (osub K) (oopp K) (odiv K) (oinv K) (@eq R).
Hypothesis Hreal : forall a b:R, oadd K (omul K a a) (omul K b b) = o0 K -> a = o0 K.
Local Open Scope K_scope.
Notation "0" := (o0 K) : K_scope. Notation "1" := (o1 K) : K_scope.
Infix "+" := (oadd K) : K_scope. Infix "*" := (omul K) : K_scope.
Variable ltb : R -> R -> bool.
Hypothesis lt_irrefl : forall a, ltb a a = false.
Hypothesis lt_trans : forall a b c, ltb a b = true -> ltb b c = true -> ltb a c = true.
Hypothesis lt_tricho : forall a b, ltb a b = false -> ltb b a = false -> a = b.
Hypothesis lt_mul_pos : forall c a b, ltb 0 c = true -> ltb (c*a) (c*b) = ltb a b.
Hypothesis sq_nonneg : forall a b, ltb (a*a + b*b) 0 = false.

(* (0) the same matrix, two arbitrary decompositions / roots / eigen-solver answers: the result does not depend on the
   decomposition the SVD kernel returns *)
Theorem C08_pipeline_svd_choice_noisy : forall rows cols l ord (H:fmat R)
    U V L S sq U' V' L' S' sq' Vv W Vv' W' d d',
  (l <= rows)%nat -> (ord <= cols)%nat ->
  two_runs_noisy R K rows cols l ord H H U V L S sq U' V' L' S' sq' Vv W Vv' W' d d' ->
  sv_gap_sq R K cols ord S S' ->
  poles_shapes_agree R K l ord d d' (rel_gain R K ltb l ord (ident_C R K U sq) Vv (ident_C R K U' sq') Vv').
Proof. exact (pipeline_svd_choice_noisy R K Fth Hreal ltb lt_irrefl lt_tricho lt_mul_pos sq_nonneg). Qed.

(* (i) common gain g: H' = g^2 H; the singular values of g^2 H are g^2 S *)
Theorem C08_pipeline_gain_noisy : forall rows cols l ord (H:fmat R) (g:R)
    U V L S sq U' V' L' S' sq' Vv W Vv' W' d d',
  (l <= rows)%nat -> (ord <= cols)%nat ->
  two_runs_noisy R K rows cols l ord H (fscal K (g*g) H) U V L S sq U' V' L' S' sq' Vv W Vv' W' d d' ->
  sv_gap_sq R K cols ord (fun i => (g*g) * S i) S' ->
  poles_shapes_agree R K l ord d d' (rel_gain R K ltb l ord (ident_C R K U sq) Vv (ident_C R K U' sq') Vv').
Proof. exact (pipeline_gain_noisy R K Fth Hreal ltb lt_irrefl lt_tricho lt_mul_pos sq_nonneg). Qed.

(* (ii) orthogonal mixing Q of the channels, Qr of the references *)
Theorem C08_pipeline_mix_noisy : forall l r br ord (H Q Qr:fmat R)
    U V L S sq U' V' L' S' sq' Vv W Vv' W' d d',
  (0 < l)%nat -> (0 < r)%nat -> (ord <= hank_cols r br)%nat ->
  feq l l (fmul K l (ftr Q) Q) (fid K) -> feq r r (fmul K r (ftr Qr) Qr) (fid K) ->
  two_runs_noisy R K (hank_rows l br) (hank_cols r br) l ord H (hank_mix_rhs K l r Q Qr H)
                 U V L S sq U' V' L' S' sq' Vv W Vv' W' d d' ->
  sv_gap_sq R K (hank_cols r br) ord S S' ->
  poles_shapes_agree R K l ord d d' (rel_mix R K ltb l ord Q (ident_C R K U sq) Vv (ident_C R K U' sq') Vv').
Proof. exact (pipeline_mix_noisy R K Fth Hreal ltb lt_irrefl lt_tricho lt_mul_pos sq_nonneg). Qed.

(* (ii') channel permutation pi, reference permutation rho *)
Theorem C08_pipeline_perm_noisy : forall l r br ord (H:fmat R) (pi pinv rho rhoinv:nat -> nat)
    U V L S sq U' V' L' S' sq' Vv W Vv' W' d d',
  (forall a, (a < l)%nat -> (pi a < l)%nat /\ pinv (pi a) = a) ->
  (forall c, (c < l)%nat -> (pinv c < l)%nat /\ pi (pinv c) = c) ->
  (forall a, (a < r)%nat -> (rho a < r)%nat /\ rhoinv (rho a) = a) ->
  (forall c, (c < r)%nat -> (rhoinv c < r)%nat /\ rho (rhoinv c) = c) ->
  (0 < l)%nat -> (0 < r)%nat -> (ord <= hank_cols r br)%nat ->
  two_runs_noisy R K (hank_rows l br) (hank_cols r br) l ord H (hank_perm_rhs l r pi rho H)
                 U V L S sq U' V' L' S' sq' Vv W Vv' W' d d' ->
  sv_gap_sq R K (hank_cols r br) ord S S' ->
  poles_shapes_agree R K l ord d d' (rel_perm R K ltb l ord pi (ident_C R K U sq) Vv (ident_C R K U' sq') Vv').
Proof. exact (pipeline_perm_noisy R K Fth Hreal ltb lt_irrefl lt_trans lt_tricho lt_mul_pos sq_nonneg). Qed.

(* the same on the DATA, methods cov_mm (hank_mm) and cov_R (hank_R) *)
Theorem C08_pipeline_gain_noisy_mm : forall invN l r br Ndat ord (Y Yref:sig R) (g:R)
    U V L S sq U' V' L' S' sq' Vv W Vv' W' d d',
  (ord <= hank_cols r br)%nat ->
  two_runs_noisy R K (hank_rows l br) (hank_cols r br) l ord
                 (hank_mm K invN l r br Ndat Y Yref) (hank_mm K invN l r br Ndat (sgain K g Y) (sgain K g Yref))
                 U V L S sq U' V' L' S' sq' Vv W Vv' W' d d' ->
  sv_gap_sq R K (hank_cols r br) ord (fun i => (g*g) * S i) S' ->
  poles_shapes_agree R K l ord d d' (rel_gain R K ltb l ord (ident_C R K U sq) Vv (ident_C R K U' sq') Vv').
Proof.
  exact (fun invN l r br Ndat => pipeline_gain_noisy_data R K Fth Hreal ltb lt_irrefl lt_tricho lt_mul_pos sq_nonneg
           _ _ _ _ l r br (hank_mm K invN l r br Ndat) (hank_mm_is_gen R K (F_R Fth) invN l r br Ndat)).
Qed.
Theorem C08_pipeline_gain_noisy_R : forall invn l r br Ndat ord (Y Yref:sig R) (g:R)
    U V L S sq U' V' L' S' sq' Vv W Vv' W' d d',
  (ord <= hank_cols r br)%nat ->
  two_runs_noisy R K (hank_rows l br) (hank_cols r br) l ord
                 (hank_R K invn l r br Ndat Y Yref) (hank_R K invn l r br Ndat (sgain K g Y) (sgain K g Yref))
                 U V L S sq U' V' L' S' sq' Vv W Vv' W' d d' ->
  sv_gap_sq R K (hank_cols r br) ord (fun i => (g*g) * S i) S' ->
  poles_shapes_agree R K l ord d d' (rel_gain R K ltb l ord (ident_C R K U sq) Vv (ident_C R K U' sq') Vv').
Proof.
  exact (fun invn l r br Ndat => pipeline_gain_noisy_data R K Fth Hreal ltb lt_irrefl lt_tricho lt_mul_pos sq_nonneg
           _ _ _ _ l r br (hank_R K invn l r br Ndat) (hank_R_is_gen R K (F_R Fth) invn l r br Ndat)).
Qed.
Theorem C08_pipeline_mix_noisy_mm : forall invN l r br Ndat ord (Y Yref:sig R) (Q Qr:fmat R)
    U V L S sq U' V' L' S' sq' Vv W Vv' W' d d',
  (0 < l)%nat -> (0 < r)%nat -> (ord <= hank_cols r br)%nat ->
  feq l l (fmul K l (ftr Q) Q) (fid K) -> feq r r (fmul K r (ftr Qr) Qr) (fid K) ->
  two_runs_noisy R K (hank_rows l br) (hank_cols r br) l ord
                 (hank_mm K invN l r br Ndat Y Yref) (hank_mm K invN l r br Ndat (smix K l Q Y) (smix K r Qr Yref))
                 U V L S sq U' V' L' S' sq' Vv W Vv' W' d d' ->
  sv_gap_sq R K (hank_cols r br) ord S S' ->
  poles_shapes_agree R K l ord d d' (rel_mix R K ltb l ord Q (ident_C R K U sq) Vv (ident_C R K U' sq') Vv').
Proof.
  exact (fun invN l r br Ndat => pipeline_mix_noisy_data R K Fth Hreal ltb lt_irrefl lt_tricho lt_mul_pos sq_nonneg
           _ _ _ _ l r br (hank_mm K invN l r br Ndat) (hank_mm_is_gen R K (F_R Fth) invN l r br Ndat)).
Qed.
Theorem C08_pipeline_mix_noisy_R : forall invn l r br Ndat ord (Y Yref:sig R) (Q Qr:fmat R)
    U V L S sq U' V' L' S' sq' Vv W Vv' W' d d',
  (0 < l)%nat -> (0 < r)%nat -> (ord <= hank_cols r br)%nat ->
  feq l l (fmul K l (ftr Q) Q) (fid K) -> feq r r (fmul K r (ftr Qr) Qr) (fid K) ->
  two_runs_noisy R K (hank_rows l br) (hank_cols r br) l ord
                 (hank_R K invn l r br Ndat Y Yref) (hank_R K invn l r br Ndat (smix K l Q Y) (smix K r Qr Yref))
                 U V L S sq U' V' L' S' sq' Vv W Vv' W' d d' ->
  sv_gap_sq R K (hank_cols r br) ord S S' ->
  poles_shapes_agree R K l ord d d' (rel_mix R K ltb l ord Q (ident_C R K U sq) Vv (ident_C R K U' sq') Vv').
Proof.
  exact (fun invn l r br Ndat => pipeline_mix_noisy_data R K Fth Hreal ltb lt_irrefl lt_tricho lt_mul_pos sq_nonneg
           _ _ _ _ l r br (hank_R K invn l r br Ndat) (hank_R_is_gen R K (F_R Fth) invn l r br Ndat)).
Qed.
Theorem C08_pipeline_perm_noisy_mm : forall invN l r br Ndat ord (Y Yref:sig R) (pi pinv rho rhoinv:nat -> nat)
    U V L S sq U' V' L' S' sq' Vv W Vv' W' d d',
  (forall a, (a < l)%nat -> (pi a < l)%nat /\ pinv (pi a) = a) ->
  (forall c, (c < l)%nat -> (pinv c < l)%nat /\ pi (pinv c) = c) ->
  (forall a, (a < r)%nat -> (rho a < r)%nat /\ rhoinv (rho a) = a) ->
  (forall c, (c < r)%nat -> (rhoinv c < r)%nat /\ rho (rhoinv c) = c) ->
  (0 < l)%nat -> (0 < r)%nat -> (ord <= hank_cols r br)%nat ->
  two_runs_noisy R K (hank_rows l br) (hank_cols r br) l ord
                 (hank_mm K invN l r br Ndat Y Yref) (hank_mm K invN l r br Ndat (sperm pi Y) (sperm rho Yref))
                 U V L S sq U' V' L' S' sq' Vv W Vv' W' d d' ->
  sv_gap_sq R K (hank_cols r br) ord S S' ->
  poles_shapes_agree R K l ord d d' (rel_perm R K ltb l ord pi (ident_C R K U sq) Vv (ident_C R K U' sq') Vv').
Proof.
  exact (fun invN l r br Ndat => pipeline_perm_noisy_data R K Fth Hreal ltb lt_irrefl lt_trans lt_tricho lt_mul_pos sq_nonneg
           _ _ _ _ l r br (hank_mm K invN l r br Ndat) (hank_mm_is_gen R K (F_R Fth) invN l r br Ndat)).
Qed.
Theorem C08_pipeline_perm_noisy_R : forall invn l r br Ndat ord (Y Yref:sig R) (pi pinv rho rhoinv:nat -> nat)
    U V L S sq U' V' L' S' sq' Vv W Vv' W' d d',
  (forall a, (a < l)%nat -> (pi a < l)%nat /\ pinv (pi a) = a) ->
  (forall c, (c < l)%nat -> (pinv c < l)%nat /\ pi (pinv c) = c) ->
  (forall a, (a < r)%nat -> (rho a < r)%nat /\ rhoinv (rho a) = a) ->
  (forall c, (c < r)%nat -> (rhoinv c < r)%nat /\ rho (rhoinv c) = c) ->
  (0 < l)%nat -> (0 < r)%nat -> (ord <= hank_cols r br)%nat ->
  two_runs_noisy R K (hank_rows l br) (hank_cols r br) l ord
                 (hank_R K invn l r br Ndat Y Yref) (hank_R K invn l r br Ndat (sperm pi Y) (sperm rho Yref))
                 U V L S sq U' V' L' S' sq' Vv W Vv' W' d d' ->
  sv_gap_sq R K (hank_cols r br) ord S S' ->
  poles_shapes_agree R K l ord d d' (rel_perm R K ltb l ord pi (ident_C R K U sq) Vv (ident_C R K U' sq') Vv').
Proof.
  exact (fun invn l r br Ndat => pipeline_perm_noisy_data R K Fth Hreal ltb lt_irrefl lt_trans lt_tricho lt_mul_pos sq_nonneg
           _ _ _ _ l r br (hank_R K invn l r br Ndat) (hank_R_is_gen R K (F_R Fth) invn l r br Ndat)).
Qed.
End PipeNoisy.

(* ---------------- the earlier formulation of the remainder: REFUTED ----------------
   C08_full_statement was written down (as a Definition that asserts nothing) as the statement still missing for noisy,
   full-rank data: "two full decompositions of the same matrix whose retained singular VALUES agree and differ from the
   discarded ones span the same retained column space", over an arbitrary field.  It is FALSE as written
   (C08_full_statement_refuted below): over Qc take H = diag(1,-1) = I diag(1,-1) I^T = U2 diag(1,-1) V2^T with U2, V2 the
   3-4-5 rotations; both triples meet svd_contract, the values agree and 1 <> -1, but the first column of U2 is no multiple
   of e_0.  On a generic field a gap of the values is not a gap of the squares; numpy's singular values are non-negative,
   which svd_contract does not say.  The repaired statements are C08_svd_subspace_unique (gap of the squares),
   C08_svd_subspace_unique_nonneg / _threshold / _R (ordered carrier, non-negative values, gap of the values), and the
   pipeline consequences the old comment sketched are C08_pipeline_*_noisy above.
   Still outside every C08 theorem: uniqueness of the singular values themselves (the gap hypotheses relate the values of
   both decompositions), floating-point rounding, and the data-dependent choices made AFTER the pole table (stabilisation
   thresholds, pole selection), which are C10/C11. *)
Definition C08_full_statement : Prop :=
  forall (R:Type) (K:Ops R),
  field_theory (o0 K) (o1 K) (oadd K) (omul K) (osub K) (oopp K) (odiv K) (oinv K) (@eq R) ->
  forall m n ord (H U:fmat R) S (V U2:fmat R) S2 (V2:fmat R),
  (ord <= n)%nat -> (n <= m)%nat ->
  svd_contract K m n n H U S V -> svd_contract K m n n H U2 S2 V2 ->
  (forall i, (i < ord)%nat -> S i = S2 i) ->
  (forall i j, (i < ord)%nat -> (ord <= j < n)%nat -> S i <> S j /\ S2 i <> S2 j) ->
  exists T Ti:fmat R, feq ord ord (fmul K ord T Ti) (fid K) /\ feq m ord U2 (fmul K ord U T).

Theorem C08_full_statement_refuted : ~ C08_full_statement.
Proof. exact full_statement_refuted. Qed.

Print Assumptions C08_hank_gain_gen.
Print Assumptions C08_hank_gain_mm.
Print Assumptions C08_hank_gain_R.
Print Assumptions C08_hank_perm_gen.
Print Assumptions C08_hank_perm_mm.
Print Assumptions C08_hank_perm_R.
Print Assumptions C08_hank_mix_gen.
Print Assumptions C08_hank_mix_kron.
Print Assumptions C08_smix_pmat.
Print Assumptions C08_pmat_orth.
Print Assumptions C08_kronI_orth.
Print Assumptions C08_bil_gain.
Print Assumptions C08_bil_perm.
Print Assumptions C08_bil_mix.
Print Assumptions C08_svd_gain.
Print Assumptions C08_svd_orth.
Print Assumptions C08_svd_span_exact_rank_partial.
Print Assumptions C08_obs_gain.
Print Assumptions C08_obs_orth.
Print Assumptions C08_realise_gain.
Print Assumptions C08_realise_orth.
Print Assumptions C08_realise_transport_mix.
Print Assumptions C08_solve_gain_free.
Print Assumptions C08_unity_norm_scale.
Print Assumptions C08_unity_norm_unit_max.
Print Assumptions C08_unity_norm_perm.
Print Assumptions C08_unity_norm_scale_Qc.
Print Assumptions C08_unity_norm_unit_max_Qc.
Print Assumptions C08_unity_norm_perm_Qc.
Print Assumptions C08_lamc_dt_scale.
Print Assumptions C08_mp_scale.
Print Assumptions C08_grid_scale.
Print Assumptions C08_basis_arg_fs_free.
Print Assumptions C08_ac2mp_dt_scale.
Print Assumptions C08_pipeline_ident_similar.
Print Assumptions C08_pipeline_exact_sys_gain.
Print Assumptions C08_pipeline_exact_sys_mix.
Print Assumptions C08_hank_perm_is_mix.
Print Assumptions C08_pipeline_svd_choice.
Print Assumptions C08_pipeline_gain.
Print Assumptions C08_pipeline_mix.
Print Assumptions C08_pipeline_perm.
Print Assumptions C08_pipeline_gain_mm.
Print Assumptions C08_pipeline_gain_R.
Print Assumptions C08_pipeline_mix_mm.
Print Assumptions C08_pipeline_mix_R.
Print Assumptions C08_pipeline_perm_mm.
Print Assumptions C08_pipeline_perm_R.
Print Assumptions C08_svd_subspace_unique.
Print Assumptions C08_lsq_transport.
Print Assumptions C08_noisy_similar.
Print Assumptions C08_sv_gap_of_values.
Print Assumptions C08_sv_gap_of_threshold.
Print Assumptions C08_svd_subspace_unique_nonneg.
Print Assumptions C08_svd_subspace_unique_threshold.
Print Assumptions C08_svd_subspace_unique_R.
Print Assumptions C08_pipeline_svd_choice_noisy.
Print Assumptions C08_pipeline_gain_noisy.
Print Assumptions C08_pipeline_mix_noisy.
Print Assumptions C08_pipeline_perm_noisy.
Print Assumptions C08_pipeline_gain_noisy_mm.
Print Assumptions C08_pipeline_gain_noisy_R.
Print Assumptions C08_pipeline_mix_noisy_mm.
Print Assumptions C08_pipeline_mix_noisy_R.
Print Assumptions C08_pipeline_perm_noisy_mm.
Print Assumptions C08_pipeline_perm_noisy_R.
Print Assumptions C08_full_statement_refuted.

(* ---------------- non-vacuity ---------------- *)
(* l=3 channels, r=1 reference, br=1, Ndat=8: gain 3 and the cyclic channel permutation on integer data *)
Example C08_example_hank :
  let Y := sig_of ZOps [[1;2;3;4;5;6;7;8];[2;0;1;3;1;0;2;5];[0;1;0;-2;1;4;-1;3]]%Z in
  let Yr := sig_of ZOps [[2;0;1;3;1;0;2;5]]%Z in
  tab2 6 2 (hank_mm ZOps 1%Z 3 1 1 8 (sgain ZOps 3%Z Y) (sgain ZOps 3%Z Yr)) = tab2 6 2 (fscal ZOps 9%Z (hank_mm ZOps 1%Z 3 1 1 8 Y Yr)) /\
  tab2 6 2 (hank_R ZOps (fun _ => 1%Z) 3 1 1 8 (sperm ex_swap3 Y) Yr)
    = tab2 6 2 (hank_perm_rhs 3 1 ex_swap3 (fun b => b) (hank_R ZOps (fun _ => 1%Z) 3 1 1 8 Y Yr)) /\
  ent ZOps (tab2 6 2 (hank_R ZOps (fun _ => 1%Z) 3 1 1 8 (sperm ex_swap3 Y) Yr)) 3 1
    <> ent ZOps (tab2 6 2 (hank_R ZOps (fun _ => 1%Z) 3 1 1 8 Y Yr)) 3 1.
Proof. vm_compute. repeat split; try reflexivity. discriminate. Qed.
(* the hypotheses of C08_pmat_orth / C08_svd_orth hold for a real permutation *)
Example C08_example_pmat : feq 3 3 (fmul ZOps 3 (ftr (pmat ZOps ex_swap3)) (pmat ZOps ex_swap3)) (fid ZOps).
Proof.
  apply (pmat_orth Z ZOps ZRth 3 ex_swap3 ex_swap3i);
    intros a Ha; (destruct a as [|[|[|a]]]; [cbn; split; [lia|reflexivity]..|lia]).
Qed.
(* unity normalisation on Gaussian rationals: a tie of the moduli (|3+4i| = |5i|) goes to the first index; scaling by 2i
   changes nothing; the permuted shape (unique maximum) gives the permuted result *)
Example C08_example_unity :
  let v := [(Q2Qc 3, Q2Qc 4); (Q2Qc 0, Q2Qc 5); (Q2Qc 1, Q2Qc 0)] in
  let u := [(Q2Qc 1, Q2Qc 1); (Q2Qc 0, Q2Qc 5); (Q2Qc 1, Q2Qc 0)] in
  let sh := option_map (map (fun z : Qc*Qc => (this (fst z), this (snd z)))) in
  sh (unity_norm_Qc v) = Some [(1, 0); (4#5, 3#5); (3#25, -4#25)]%Q /\
  sh (unity_norm_Qc (map (cmul QcOps (Q2Qc 0, Q2Qc 2)) v)) = sh (unity_norm_Qc v) /\
  sh (unity_norm_Qc (cv_vperm QcOps ex_swap3 3 u)) = sh (option_map (cv_vperm QcOps ex_swap3 3) (unity_norm_Qc u)) /\
  sh (unity_norm_Qc u) = Some [(1#5, -1#5); (1, 0); (0, -1#5)]%Q /\
  unity_norm_Qc [(Q2Qc 0, Q2Qc 0); (Q2Qc 0, Q2Qc 0)] = None.
Proof. vm_compute. repeat split; reflexivity. Qed.
(* the SVD contract is satisfiable and its transport is not the identity *)
Example C08_example_svd :
  let H : fmat Z := fun i j => match i, j with 0%nat, 0%nat => 4%Z | 1%nat, 1%nat => 1%Z | _, _ => 0%Z end in
  svd_contract ZOps 2 2 2 H (fid ZOps) (fun i => match i with 0%nat => 4%Z | _ => 1%Z end) (fid ZOps).
Proof.
  cbv zeta. repeat split; intros i j Hi Hj; (destruct i as [|[|i]]; [| |lia]); (destruct j as [|[|j]]; [| |lia]); reflexivity.
Qed.

(* ---------------- non-vacuity of the composed pipeline theorems ----------------
   l = 2 channels, r = 2 references, br = 1 (H is 4 x 4), n = 2, three singular triplets (the third zero).  True system
   A = [[1/4,1/3],[-1/3,1/4]] (poles 1/4 +- i/3), C = I.  The two non-zero singular values are EQUAL, so the decomposition is
   far from unique: run 2 uses singular vectors reflected inside the singular subspace, another third vector and a NEGATIVE
   square root; the eigen-solver outputs list the poles in different orders with differently scaled eigenvectors. *)
(* every hypothesis of C08_pipeline_gain (gain 3) ... *)
Example C08_example_pipeline_gain_hyps :
  (q 3 1 * q 1 3)%Qc = 1%Qc /\
  exact_sys Qc QcOps 4 4 2 2 plx_H plx_Ob plx_Gam plx_OL plx_GR plx_A plx_Cm /\
  two_runs Qc QcOps 4 4 2 2 3 3 plx_A plx_H (fscal QcOps (q 3 1 * q 3 1)%Qc plx_H)
    plx_U plx_V plx_L plx_S plx_sq plx_sqi plx_Ug plx_Vg plx_Lg plx_Sg plx_sqg plx_sqig
    plx_Phi plx_Phii plx_Vv plx_W plx_Vvg plx_Wg plx_lam plx_d plx_dg.
Proof. exact plx_gain_hyps. Qed.
(* ... and of C08_pipeline_perm (both channels and both references swapped) hold on the instance *)
Example C08_example_pipeline_perm_hyps :
  (forall a, (a < 2)%nat -> (plx_swap a < 2)%nat /\ plx_swap (plx_swap a) = a) /\
  exact_sys Qc QcOps (hank_rows 2 1) (hank_cols 2 1) 2 2 plx_H plx_Ob plx_Gam plx_OL plx_GR plx_A plx_Cm /\
  two_runs Qc QcOps (hank_rows 2 1) (hank_cols 2 1) 2 2 3 3 plx_A plx_H (hank_perm_rhs 2 2 plx_swap plx_swap plx_H)
    plx_U plx_V plx_L plx_S plx_sq plx_sqi plx_Up plx_Vp plx_Lp plx_Sp plx_sqp plx_sqip
    plx_Phi plx_Phii plx_Vv plx_W plx_Vvp plx_Wp plx_lam plx_d plx_dp.
Proof. exact plx_perm_hyps. Qed.
(* the carrier hypotheses hold at the canonical rationals *)
Example C08_example_pipeline_carrier :
  (forall a b:Qc, oadd QcOps (omul QcOps a a) (omul QcOps b b) = o0 QcOps -> a = o0 QcOps) /\
  (forall a, Qc_ltb a a = false) /\
  (forall a b c, Qc_ltb a b = true -> Qc_ltb b c = true -> Qc_ltb a c = true) /\
  (forall a b, Qc_ltb a b = false -> Qc_ltb b a = false -> a = b) /\
  (forall c a b, Qc_ltb (o0 QcOps) c = true -> Qc_ltb (omul QcOps c a) (omul QcOps c b) = Qc_ltb a b) /\
  (forall a b, Qc_ltb (oadd QcOps (omul QcOps a a) (omul QcOps b b)) (o0 QcOps) = false).
Proof. exact (conj qc_formally_real (conj Qc_lt_irrefl (conj Qc_lt_trans (conj Qc_lt_tricho (conj Qc_lt_mul_pos Qc_sq_nonneg))))). Qed.
(* so the theorems fire on it ... *)
Example C08_example_pipeline_fires :
  poles_shapes_agree Qc QcOps 2 2 plx_d plx_dg
    (rel_gain Qc QcOps Qc_ltb 2 2 (ident_C Qc QcOps plx_U plx_sq) plx_Vv (ident_C Qc QcOps plx_Ug plx_sqg) plx_Vvg) /\
  poles_shapes_agree Qc QcOps 2 2 plx_d plx_dp
    (rel_perm Qc QcOps Qc_ltb 2 2 plx_swap (ident_C Qc QcOps plx_U plx_sq) plx_Vv (ident_C Qc QcOps plx_Up plx_sqp) plx_Vvp).
Proof. exact (conj plx_gain_fires plx_perm_fires). Qed.
(* ... and what they assert is visible by evaluation: mode 1 of run 1 and mode 0 of the gained run carry the same pole and the
   same unity-normalised shape (1, i); mode 1 of the swapped run has the swapped shape, normalised to (1, -i) *)
Example C08_example_pipeline_evaluated :
  plx_d 1%nat = plx_dg 0%nat /\ plx_d 1%nat = plx_dp 1%nat /\
  plx_sh (unity_norm_Qc (shape_of Qc QcOps 2 2 (ident_C Qc QcOps plx_Ug plx_sqg) plx_Vvg 0))
    = plx_sh (unity_norm_Qc (shape_of Qc QcOps 2 2 (ident_C Qc QcOps plx_U plx_sq) plx_Vv 1)) /\
  plx_sh (unity_norm_Qc (shape_of Qc QcOps 2 2 (ident_C Qc QcOps plx_U plx_sq) plx_Vv 1)) = Some [(1, 0); (0, 1)]%Q /\
  plx_sh (unity_norm_Qc (shape_of Qc QcOps 2 2 (ident_C Qc QcOps plx_Up plx_sqp) plx_Vvp 1))
    = plx_sh (unity_norm_Qc (cv_vperm QcOps plx_swap 2 (shape_of Qc QcOps 2 2 (ident_C Qc QcOps plx_U plx_sq) plx_Vv 1))) /\
  plx_sh (unity_norm_Qc (shape_of Qc QcOps 2 2 (ident_C Qc QcOps plx_Up plx_sqp) plx_Vvp 1)) = Some [(1, 0); (0, -1)]%Q.
Proof. exact plx_evaluated. Qed.

(* ---------------- non-vacuity of the noisy-data theorems ----------------
   l = 2 channels, r = 1 reference, br = 2: H is 6 x 3 of FULL rank 3 with singular values (4, 4, 1), order 2.  The
   discarded singular value is not zero and the shift equation has no exact solution (non-zero least-squares residual).
   Run 2 works on 9 H (gain 3) with singular vectors rotated inside the retained singular subspace, the third one negated,
   and roots (6, -6); both solves are the pseudo-inverses; poles +- 2i/3 listed in different orders. *)
(* the instance is outside the exact-rank theorems *)
Example C08_example_noisy_residual :
  fmul QcOps 2 (cv_obs QcOps nzx_U nzx_sq) (ident_A Qc QcOps 6 2 nzx_L nzx_U nzx_sq) 0%nat 0%nat
  <> rows_from 2 (cv_obs QcOps nzx_U nzx_sq) 0%nat 0%nat /\ nzx_S 2%nat <> Q2Qc 0.
Proof. exact nzx_residual. Qed.
(* every hypothesis of C08_pipeline_gain_noisy holds, the gap both in the threshold form (tau = 9) and in the squared form *)
Example C08_example_noisy_hyps :
  two_runs_noisy Qc QcOps 6 3 2 2 nzx_H (fscal QcOps (q 3 1 * q 3 1)%Qc nzx_H)
    nzx_U nzx_V nzx_L nzx_S nzx_sq nzx_Ug nzx_Vg nzx_Lg nzx_Sg nzx_sqg nzx_Vv nzx_W nzx_Vvg nzx_Wg nzx_d nzx_dg /\
  sv_gap_threshold Qc QcOps Qc_ltb 3 2 (fun i => ((q 3 1 * q 3 1) * nzx_S i)%Qc) nzx_Sg /\
  sv_gap_sq Qc QcOps 3 2 (fun i => ((q 3 1 * q 3 1) * nzx_S i)%Qc) nzx_Sg.
Proof. exact nzx_gain_hyps. Qed.
(* the hypotheses of C08_svd_subspace_unique_nonneg / C08_sv_gap_of_values hold for two different decompositions of H *)
Example C08_example_noisy_gap_values :
  svd_contract QcOps 6 3 3 nzx_H nzx_U nzx_S nzx_V /\
  svd_contract QcOps 6 3 3 nzx_H (fmul QcOps 3 nzx_U nzx_B) nzx_S (fmul QcOps 3 nzx_V nzx_B) /\
  sv_gap_values Qc QcOps Qc_ltb 3 2 nzx_S nzx_S /\
  nzx_U 0%nat 0%nat <> fmul QcOps 3 nzx_U nzx_B 0%nat 0%nat.
Proof. exact nzx_gap_values. Qed.
(* so the theorem fires ... *)
Example C08_example_noisy_fires :
  poles_shapes_agree Qc QcOps 2 2 nzx_d nzx_dg
    (rel_gain Qc QcOps Qc_ltb 2 2 (ident_C Qc QcOps nzx_U nzx_sq) nzx_Vv (ident_C Qc QcOps nzx_Ug nzx_sqg) nzx_Vvg).
Proof. exact nzx_gain_fires. Qed.
(* ... and what it asserts is visible by evaluation: mode 0 of run 1 and mode 1 of the gained run carry the pole -2i/3 and
   the same unity-normalised shape (1, i) *)
Example C08_example_noisy_evaluated :
  nzx_d 0%nat = nzx_dg 1%nat /\
  plx_sh (unity_norm_Qc (shape_of Qc QcOps 2 2 (ident_C Qc QcOps nzx_Ug nzx_sqg) nzx_Vvg 1))
    = plx_sh (unity_norm_Qc (shape_of Qc QcOps 2 2 (ident_C Qc QcOps nzx_U nzx_sq) nzx_Vv 0)) /\
  plx_sh (unity_norm_Qc (shape_of Qc QcOps 2 2 (ident_C Qc QcOps nzx_U nzx_sq) nzx_Vv 0)) = Some [(1, 0); (0, 1)]%Q.
Proof. exact nzx_evaluated. Qed.
