(* C03 - PreGER multi-setup SSI identifies the global system exactly on noise-free data; the reference / roving split
   keeps every channel intact and ordered.
   Statements only: each theorem is closed by [exact] of a lemma of Proofs/P_split.v / Proofs/P_multi_ssi.v /
   Proofs/P_eigcount_c03.v / Proofs/P_multi_ssi_dim.v. *)
From Coq Require Import List Arith Lia Ring ZArith QArith Qcanon Permutation Bool.
From PyOMA.Base Require Import Carrier FMat Cplx Show EigCount Dim.
From PyOMA.Model Require Import M_split M_multi_ssi.
From PyOMA.Proofs Require Import P_split P_multi_ssi P_eigcount_c03 P_multi_ssi_dim.
Import ListNotations.

(* ================= the reference / roving split (gen.pre_multisetup), any element type ================= *)
Section Split.
Variable R:Type. Variable K:Ops R.

(* references in the LISTED order, the other channels in ASCENDING order, every sample unchanged, nothing lost or duplicated *)
Theorem C03_split_spec : forall n (y:list (list R)) (refl:list nat),
  NoDup refl -> (forall r, In r refl -> (r < n)%nat) -> refl <> [] -> (length refl < n)%nat ->
  exists ref mov,
    split_one K n y (map Z.of_nat refl) = SplitOk (ref, mov) /\
    ref = map (chan K y) refl /\
    mov = map (chan K y) (roving_of n refl) /\
    (forall j t, (j < length refl)%nat -> nth t (nth j ref []) (o0 K) = nth (nth j refl 0%nat) (nth t y []) (o0 K)) /\
    (forall j t, (j < length (roving_of n refl))%nat ->
        nth t (nth j mov []) (o0 K) = nth (nth j (roving_of n refl) 0%nat) (nth t y []) (o0 K)) /\
    Permutation (ref ++ mov) (map (chan K y) (seq 0 n)).
Proof. exact (split_spec R K). Qed.

(* the split succeeds exactly on duplicate-free, in-range, non-empty, non-exhaustive reference lists ... *)
Theorem C03_split_err_spec : forall n (y:list (list R)) (refs:list Z),
  (exists s, split_one K n y refs = SplitOk s) <-> valid_refs n refs.
Proof. exact (split_err_spec R K). Qed.
(* ... and raises ValueError on every other list (repeated, negative or out-of-range index, no reference, no roving channel) *)
Theorem C03_split_value_error : forall n (y:list (list R)) (refs:list Z),
  ~ valid_refs n refs -> split_one K n y refs = SplitValueErr.
Proof. exact (split_value_error R K). Qed.

(* all setups: the per-setup splits, in setup order *)
Theorem C03_pre_multisetup_spec : forall (data:list (nat * list (list R))) (refl:list (list nat)),
  (length data <= length refl)%nat ->
  (forall k, (k < length data)%nat ->
     let n := fst (nth k data (0%nat, [])) in let rf := nth k refl [] in
     NoDup rf /\ (forall r, In r rf -> (r < n)%nat) /\ rf <> [] /\ (length rf < n)%nat) ->
  pre_multisetup K data (map (map Z.of_nat) refl)
  = SplitOk (map (fun dr => (map (chan K (snd (fst dr))) (snd dr),
                             map (chan K (snd (fst dr))) (roving_of (fst (fst dr)) (snd dr))))
                 (combine data refl)).
Proof. exact (pre_multisetup_spec R K). Qed.
Theorem C03_pre_multisetup_index_error : forall (data:list (nat * list (list R))) (refl:list (list Z)),
  (length refl < length data)%nat ->
  (forall k, (k < length refl)%nat -> valid_refs (fst (nth k data (0%nat, []))) (nth k refl [])) ->
  pre_multisetup K data refl = SplitIndexErr.
Proof. exact (pre_multisetup_index_error R K). Qed.
End Split.

(* ================= index sets of SSI_multi_setup ================= *)
(* ref_id = [b r + j | b < br, j < n_ref] (block-major), mov_id = [b r + n_ref + m | b < br, m < r - n_ref];
   disjoint, covering exactly the first br block rows of the (br+1) r rows of the setup's observability matrix *)
Theorem C03_ref_mov_index_sets : forall br r n_ref, (n_ref <= r)%nat ->
  length (ref_id br r n_ref) = (br * n_ref)%nat /\
  length (mov_id br r n_ref) = (br * (r - n_ref))%nat /\
  (forall b j, (b < br)%nat -> (j < n_ref)%nat -> nth (b * n_ref + j) (ref_id br r n_ref) 0%nat = (b * r + j)%nat) /\
  (forall b m, (b < br)%nat -> (m < r - n_ref)%nat -> nth (b * (r - n_ref) + m) (mov_id br r n_ref) 0%nat = (b * r + n_ref + m)%nat) /\
  (forall i, In i (ref_id br r n_ref) <-> (i < br * r /\ i mod r < n_ref)%nat) /\
  (forall i, In i (mov_id br r n_ref) <-> (i < br * r /\ n_ref <= i mod r)%nat) /\
  (forall i, ~ (In i (ref_id br r n_ref) /\ In i (mov_id br r n_ref))) /\
  (forall i, (i < br * r)%nat -> In i (ref_id br r n_ref) \/ In i (mov_id br r n_ref)).
Proof. exact ref_mov_index_sets. Qed.

(* ================= assembly, re-basing, identification: every commutative ring ================= *)
Section MS.
Variable R:Type. Variable K:Ops R.
Hypothesis Rth : ring_theory (o0 K) (o1 K) (oadd K) (omul K) (osub K) (oopp K) (@eq R).

(* layout of Obs_all *)
Theorem C03_interleave_entry_ref : forall n_ref nmov (fr:fmat R) (fm:nat -> fmat R) b j c, (j < n_ref)%nat ->
  interleave K n_ref nmov fr fm (b * nDOF n_ref nmov + j)%nat c = fr (b * n_ref + j)%nat c.
Proof. exact (interleave_entry_ref R K). Qed.
Theorem C03_interleave_entry_mov : forall n_ref nmov (fr:fmat R) (fm:nat -> fmat R) b k m c,
  (k < length nmov)%nat -> (m < nth k nmov 0%nat)%nat ->
  interleave K n_ref nmov fr fm (b * nDOF n_ref nmov + (n_ref + offset nmov k + m))%nat c
  = fm k (b * nth k nmov 0%nat + m)%nat c.
Proof. exact (interleave_entry_mov R K). Qed.

(* re-basing: whatever right-invertible T k each setup's realisation carries (gain, initial condition, SVD basis), the
   re-based roving block of setup k is the global roving block in the basis of setup 0; no T k (k > 0) survives *)
Theorem C03_rebasing_basis_free : forall br n_ref nmov n (obs L:nat -> fmat R) (Og_ref:fmat R) (Og_mov T Ti:nat -> fmat R),
  (forall k, (k < length nmov)%nat -> feq (br * n_ref) n (O_ref br n_ref nmov obs k) (fmul K n Og_ref (T k))) ->
  (forall k, (k < length nmov)%nat -> feq (br * nth k nmov 0%nat) n (O_mov br n_ref nmov obs k) (fmul K n (Og_mov k) (T k))) ->
  (forall k, (k < length nmov)%nat -> feq n n (fmul K n (T k) (Ti k)) (fid K)) ->
  (forall k, (k < length nmov)%nat -> feq n n (fmul K (br * n_ref) (L k) (O_ref br n_ref nmov obs k)) (fid K)) ->
  forall k, (k < length nmov)%nat ->
  feq (br * nth k nmov 0%nat) n (rebased K br n_ref nmov n obs L k) (fmul K n (Og_mov k) (T 0%nat)).
Proof. exact (rebasing_basis_free R K Rth). Qed.

Theorem C03_obs_all_global : forall br n_ref nmov n (obs L:nat -> fmat R) (Og_ref:fmat R) (Og_mov T Ti:nat -> fmat R),
  (forall k, (k < length nmov)%nat -> feq (br * n_ref) n (O_ref br n_ref nmov obs k) (fmul K n Og_ref (T k))) ->
  (forall k, (k < length nmov)%nat -> feq (br * nth k nmov 0%nat) n (O_mov br n_ref nmov obs k) (fmul K n (Og_mov k) (T k))) ->
  (forall k, (k < length nmov)%nat -> feq n n (fmul K n (T k) (Ti k)) (fid K)) ->
  (forall k, (k < length nmov)%nat -> feq n n (fmul K (br * n_ref) (L k) (O_ref br n_ref nmov obs k)) (fid K)) ->
  (0 < length nmov)%nat ->
  feq (br * nDOF n_ref nmov) n (obs_all K br n_ref nmov n obs L)
      (fmul K n (interleave K n_ref nmov Og_ref Og_mov) (T 0%nat)).
Proof. exact (obs_all_global R K Rth). Qed.

(* the same with SCALED left inverses L k O_ref k = d k I (d k = 1 is the pinv contract): what the integer evaluation of the
   model in the correspondence check relies on - the roving rows of setup k come out multiplied by d k, nothing else changes *)
Theorem C03_obs_all_scaled : forall br n_ref nmov n (obs L:nat -> fmat R) (Og_ref:fmat R) (Og_mov T Ti:nat -> fmat R) (d:nat -> R),
  (forall k, (k < length nmov)%nat -> feq (br * n_ref) n (O_ref br n_ref nmov obs k) (fmul K n Og_ref (T k))) ->
  (forall k, (k < length nmov)%nat -> feq (br * nth k nmov 0%nat) n (O_mov br n_ref nmov obs k) (fmul K n (Og_mov k) (T k))) ->
  (forall k, (k < length nmov)%nat -> feq n n (fmul K n (T k) (Ti k)) (fid K)) ->
  (forall k, (k < length nmov)%nat -> feq n n (fmul K (br * n_ref) (L k) (O_ref br n_ref nmov obs k)) (fscal K (d k) (fid K))) ->
  (0 < length nmov)%nat ->
  feq (br * nDOF n_ref nmov) n (obs_all K br n_ref nmov n obs L)
      (interleave K n_ref nmov (fmul K n Og_ref (T 0%nat)) (fun k => fscal K (d k) (fmul K n (Og_mov k) (T 0%nat)))).
Proof. exact (obs_all_scaled R K Rth). Qed.

(* identification (core statement, ordmax = n = state dimension): if every setup's observability matrix is the
   observability matrix of (A; references Cr, that setup's roving sensors Cm k) times an arbitrary right-invertible T k,
   pinv returns a left inverse of every reference block (all modes visible at the references) and QR meets its contract,
   then Obs_all = O_global T_0, C_hat = C_global T_0, A_hat = T_0^-1 A T_0, where the global sensors are ordered
   references, roving of setup 0, roving of setup 1, ... *)
Theorem C03_identifies_global_partial :
  forall br n_ref nmov n (obs L:nat -> fmat R) (Cr A:fmat R) (Cm T Ti:nat -> fmat R),
  (forall k, (k < length nmov)%nat ->
     feq (S br * (n_ref + nth k nmov 0%nat)) n (obs k)
         (fmul K n (obsv K n (n_ref + nth k nmov 0%nat) (stack n_ref Cr (Cm k)) A) (T k))) ->
  (forall k, (k < length nmov)%nat -> feq n n (fmul K n (T k) (Ti k)) (fid K)) ->
  (forall k, (k < length nmov)%nat -> feq n n (fmul K (br * n_ref) (L k) (O_ref br n_ref nmov obs k)) (fid K)) ->
  (0 < length nmov)%nat ->
  feq (br * nDOF n_ref nmov) n (obs_all K br n_ref nmov n obs L)
      (fmul K n (obsv K n (nDOF n_ref nmov) (C_global K n_ref nmov Cr Cm) A) (T 0%nat)) /\
  ((1 <= br)%nat ->
   feq (nDOF n_ref nmov) n (C_hat K br n_ref nmov n obs L) (fmul K n (C_global K n_ref nmov Cr Cm) (T 0%nat))) /\
  ((1 <= br)%nat -> forall Q Rq Ri : fmat R, (0 < n_ref)%nat ->
   feq ((br - 1) * nDOF n_ref nmov) n (obs_all K br n_ref nmov n obs L) (fmul K n Q Rq) ->
   feq n n (fmul K ((br - 1) * nDOF n_ref nmov) (ftr Q) Q) (fid K) ->
   feq n n (fmul K n Ri Rq) (fid K) ->
   feq n n (A_hat K br n_ref nmov n obs L Q Ri) (fmul K n (Ti 0%nat) (fmul K n A (T 0%nat)))).
Proof.
  intros br n_ref nmov n obs L Cr A Cm T Ti Hobs HT HL Hset. split; [|split].
  - exact (ms_obs_all_global R K Rth br n_ref nmov n obs L Cr A Cm T Ti Hobs HT HL Hset).
  - exact (ms_C_global R K Rth br n_ref nmov n obs L Cr A Cm T Ti Hobs HT HL Hset).
  - exact (ms_A_similar R K Rth br n_ref nmov n obs L Cr A Cm T Ti Hobs HT HL Hset).
Qed.

(* the same state matrix from ANY left inverse of O_p (the routine the correspondence check executes) *)
Theorem C03_A_similar_linv :
  forall br n_ref nmov n (obs L:nat -> fmat R) (Cr A:fmat R) (Cm T Ti:nat -> fmat R),
  (forall k, (k < length nmov)%nat ->
     feq (S br * (n_ref + nth k nmov 0%nat)) n (obs k)
         (fmul K n (obsv K n (n_ref + nth k nmov 0%nat) (stack n_ref Cr (Cm k)) A) (T k))) ->
  (forall k, (k < length nmov)%nat -> feq n n (fmul K n (T k) (Ti k)) (fid K)) ->
  (forall k, (k < length nmov)%nat -> feq n n (fmul K (br * n_ref) (L k) (O_ref br n_ref nmov obs k)) (fid K)) ->
  (0 < length nmov)%nat -> (1 <= br)%nat -> (0 < n_ref)%nat ->
  forall Lp, feq n n (fmul K ((br - 1) * nDOF n_ref nmov) Lp (obs_all K br n_ref nmov n obs L)) (fid K) ->
  feq n n (A_of_linv K br n_ref nmov n obs L Lp) (fmul K n (Ti 0%nat) (fmul K n A (T 0%nat))).
Proof.
  intros br n_ref nmov n obs L Cr A Cm T Ti Hobs HT HL Hset Hbr Hr.
  exact (ms_A_similar_linv R K Rth br n_ref nmov n obs L Cr A Cm T Ti Hobs HT HL Hset Hbr Hr).
Qed.

(* eigen-pairs: (lam, phi) of the global A <-> (lam, T_0^-1 phi) of A_hat, observed shape C_hat psi = C_global phi
   (sensor order: references, roving_0, roving_1, ...).  Valid over the complexified carrier as well. *)
Theorem C03_eigpair_transport : forall (n l:nat) (A Ah C Ch T Ti phi:fmat R) (lam:R),
  feq n n Ah (fmul K n Ti (fmul K n A T)) -> feq l n Ch (fmul K n C T) -> feq n n (fmul K n T Ti) (fid K) ->
  feq n 1 (fmul K n A phi) (fscal K lam phi) ->
  feq n 1 (fmul K n Ah (fmul K n Ti phi)) (fscal K lam (fmul K n Ti phi)) /\
  feq l 1 (fmul K n Ch (fmul K n Ti phi)) (fmul K n C phi) /\
  feq n 1 (fmul K n T (fmul K n Ti phi)) phi.
Proof. exact (eigpair_transport R K Rth). Qed.
Theorem C03_eigpair_transport_back : forall (n l:nat) (A Ah C Ch T Ti:fmat R) (lam:R),
  feq n n Ah (fmul K n Ti (fmul K n A T)) -> feq l n Ch (fmul K n C T) -> feq n n (fmul K n T Ti) (fid K) ->
  forall psi, feq n 1 (fmul K n Ah psi) (fscal K lam psi) ->
  feq n 1 (fmul K n A (fmul K n T psi)) (fscal K lam (fmul K n T psi)) /\
  feq l 1 (fmul K n C (fmul K n T psi)) (fmul K n Ch psi).
Proof. exact (eigpair_transport_back R K Rth). Qed.

(* the executed tables hold exactly the function-level matrices the theorems talk about *)
Theorem C03_obs_all_l_entry : forall br n_ref nmov n (ObsL Ll:list (list (list R))) i c,
  (i < br * nDOF n_ref nmov)%nat -> (c < n)%nat ->
  ent K (ms_obs_all_l K br n_ref nmov n ObsL Ll) i c
  = obs_all K br n_ref nmov n (fun k => fm_of K (nth k ObsL [])) (fun k => fm_of K (nth k Ll [])) i c.
Proof. exact (ms_obs_all_l_entry R K). Qed.
End MS.

Definition fdiag {R} (K:Ops R) (d:nat -> R) : fmat R := fun i j => if Nat.eqb i j then d i else o0 K.

(* ================= the modal level: multiplicity and mode shapes =================
   Carrier: commutative ring without zero divisors, 1 <> 0, decidable equality (every field with decidable equality; for
   complex poles instantiate at the complexified carrier, EigCount.cplx_integral).  Global system with a complete modal
   basis: A Phi = Phi diag(lamg), Phi two-sided invertible, lamg pairwise different.  Eigen-solver contract on the identified
   A_hat: A_hat Psi = Psi diag(lam), Psii Psi = I.  Then there is a BIJECTION sigma of the n poles with
   lam_j = lamg_(sigma j) - so [lam_0 ..] is a Permutation of [lamg_0 ..]: every global pole exactly once, nothing else -
   and column j of C_hat Psi is a non-zero multiple of the global mode shape C_global Phi[:, sigma j] (sensor order:
   references, roving_0, roving_1, ...), whatever the per-setup bases / gains T k. *)
Section MM.
Variable R:Type. Variable K:Ops R.
Hypothesis Rth : ring_theory (o0 K) (o1 K) (oadd K) (omul K) (osub K) (oopp K) (@eq R).
Hypothesis Hint : forall a b:R, omul K a b = o0 K -> a = o0 K \/ b = o0 K.
Hypothesis H10 : o1 K <> o0 K.
Hypothesis Rdec : forall x y:R, {x = y} + {x <> y}.

Theorem C03_multiplicity :
  forall br n_ref nmov n (obs L:nat -> fmat R) (Cr A:fmat R) (Cm T Ti:nat -> fmat R),
  (forall k, (k < length nmov)%nat ->
     feq (S br * (n_ref + nth k nmov 0%nat)) n (obs k)
         (fmul K n (obsv K n (n_ref + nth k nmov 0%nat) (stack n_ref Cr (Cm k)) A) (T k))) ->
  (forall k, (k < length nmov)%nat -> feq n n (fmul K n (T k) (Ti k)) (fid K)) ->
  feq n n (fmul K n (Ti 0%nat) (T 0%nat)) (fid K) ->
  (forall k, (k < length nmov)%nat -> feq n n (fmul K (br * n_ref) (L k) (O_ref br n_ref nmov obs k)) (fid K)) ->
  (0 < length nmov)%nat -> (1 <= br)%nat -> (0 < n_ref)%nat ->
  forall (Phi Phii Psi Psii:fmat R) (lamg lam:nat -> R),
  feq n n (fmul K n A Phi) (fmul K n Phi (fdiag K lamg)) ->
  feq n n (fmul K n Phi Phii) (fid K) -> feq n n (fmul K n Phii Phi) (fid K) ->
  (forall i j, (i < n)%nat -> (j < n)%nat -> i <> j -> lamg i <> lamg j) ->
  feq n n (fmul K n Psii Psi) (fid K) ->
  forall Q Rq Ri:fmat R,
  feq ((br - 1) * nDOF n_ref nmov) n (obs_all K br n_ref nmov n obs L) (fmul K n Q Rq) ->
  feq n n (fmul K ((br - 1) * nDOF n_ref nmov) (ftr Q) Q) (fid K) ->
  feq n n (fmul K n Ri Rq) (fid K) ->
  feq n n (fmul K n (A_hat K br n_ref nmov n obs L Q Ri) Psi) (fmul K n Psi (fdiag K lam)) ->
  (exists sigma : nat -> nat,
    (forall j, (j < n)%nat -> (sigma j < n)%nat) /\
    (forall i j, (i < n)%nat -> (j < n)%nat -> sigma i = sigma j -> i = j) /\
    (forall i, (i < n)%nat -> exists j, (j < n)%nat /\ sigma j = i) /\
    (forall j, (j < n)%nat -> lam j = lamg (sigma j)) /\
    (forall j, (j < n)%nat -> exists c:R, c <> o0 K /\
       forall i, (i < nDOF n_ref nmov)%nat ->
         fmul K n (C_hat K br n_ref nmov n obs L) Psi i j
         = omul K c (fmul K n (C_global K n_ref nmov Cr Cm) Phi i (sigma j)))) /\
  Permutation (tab n lam) (tab n lamg).
Proof. exact (ms_modal_qr R K Rth Hint H10 Rdec). Qed.

(* the same for the state matrix obtained from ANY left inverse of O_p (the routine the correspondence check executes) *)
Theorem C03_multiplicity_linv :
  forall br n_ref nmov n (obs L:nat -> fmat R) (Cr A:fmat R) (Cm T Ti:nat -> fmat R),
  (forall k, (k < length nmov)%nat ->
     feq (S br * (n_ref + nth k nmov 0%nat)) n (obs k)
         (fmul K n (obsv K n (n_ref + nth k nmov 0%nat) (stack n_ref Cr (Cm k)) A) (T k))) ->
  (forall k, (k < length nmov)%nat -> feq n n (fmul K n (T k) (Ti k)) (fid K)) ->
  feq n n (fmul K n (Ti 0%nat) (T 0%nat)) (fid K) ->
  (forall k, (k < length nmov)%nat -> feq n n (fmul K (br * n_ref) (L k) (O_ref br n_ref nmov obs k)) (fid K)) ->
  (0 < length nmov)%nat -> (1 <= br)%nat -> (0 < n_ref)%nat ->
  forall (Phi Phii Psi Psii:fmat R) (lamg lam:nat -> R),
  feq n n (fmul K n A Phi) (fmul K n Phi (fdiag K lamg)) ->
  feq n n (fmul K n Phi Phii) (fid K) -> feq n n (fmul K n Phii Phi) (fid K) ->
  (forall i j, (i < n)%nat -> (j < n)%nat -> i <> j -> lamg i <> lamg j) ->
  feq n n (fmul K n Psii Psi) (fid K) ->
  forall Lp:fmat R,
  feq n n (fmul K ((br - 1) * nDOF n_ref nmov) Lp (obs_all K br n_ref nmov n obs L)) (fid K) ->
  feq n n (fmul K n (A_of_linv K br n_ref nmov n obs L Lp) Psi) (fmul K n Psi (fdiag K lam)) ->
  (exists sigma : nat -> nat,
    (forall j, (j < n)%nat -> (sigma j < n)%nat) /\
    (forall i j, (i < n)%nat -> (j < n)%nat -> sigma i = sigma j -> i = j) /\
    (forall i, (i < n)%nat -> exists j, (j < n)%nat /\ sigma j = i) /\
    (forall j, (j < n)%nat -> lam j = lamg (sigma j)) /\
    (forall j, (j < n)%nat -> exists c:R, c <> o0 K /\
       forall i, (i < nDOF n_ref nmov)%nat ->
         fmul K n (C_hat K br n_ref nmov n obs L) Psi i j
         = omul K c (fmul K n (C_global K n_ref nmov Cr Cm) Phi i (sigma j)))) /\
  Permutation (tab n lam) (tab n lamg).
Proof. exact (ms_modal_linv R K Rth Hint H10 Rdec). Qed.
End MM.

(* ================= the modal level with dimension theory (Base/Dim.v): field with decidable equality =================
   C03_full_statement (below) plus ONE hypothesis, decidable equality on the carrier, word for word otherwise:
   Ti 0 . T 0 = I is no longer assumed (square matrices: T 0 . Ti 0 = I implies it, Dim.right_inv_is_left_inv), "no zero
   divisors" and 1 <> 0 follow from field_theory. *)
Theorem C03_full_dec : forall (R:Type) (K:Ops R),
  field_theory (o0 K) (o1 K) (oadd K) (omul K) (osub K) (oopp K) (odiv K) (oinv K) (@eq R) ->
  (forall x y:R, {x = y} + {x <> y}) ->
  forall br n_ref nmov n (obs L:nat -> fmat R) (Cr A:fmat R) (Cm T Ti:nat -> fmat R) (Q Rq Ri:fmat R),
  (forall k, (k < length nmov)%nat ->
     feq (S br * (n_ref + nth k nmov 0%nat)) n (obs k)
         (fmul K n (obsv K n (n_ref + nth k nmov 0%nat) (stack n_ref Cr (Cm k)) A) (T k))) ->
  (forall k, (k < length nmov)%nat -> feq n n (fmul K n (T k) (Ti k)) (fid K)) ->
  (forall k, (k < length nmov)%nat -> feq n n (fmul K (br * n_ref) (L k) (O_ref br n_ref nmov obs k)) (fid K)) ->
  (0 < length nmov)%nat -> (1 <= br)%nat -> (0 < n_ref)%nat ->
  feq ((br - 1) * nDOF n_ref nmov) n (obs_all K br n_ref nmov n obs L) (fmul K n Q Rq) ->
  feq n n (fmul K ((br - 1) * nDOF n_ref nmov) (ftr Q) Q) (fid K) ->
  feq n n (fmul K n Ri Rq) (fid K) ->
  forall (Phi Phii Psi Psii:fmat R) (lamg lam:nat -> R),
  feq n n (fmul K n A Phi) (fmul K n Phi (fdiag K lamg)) ->
  feq n n (fmul K n Phi Phii) (fid K) -> feq n n (fmul K n Phii Phi) (fid K) ->
  (forall i j, (i < n)%nat -> (j < n)%nat -> i <> j -> lamg i <> lamg j) ->
  feq n n (fmul K n (A_hat K br n_ref nmov n obs L Q Ri) Psi) (fmul K n Psi (fdiag K lam)) ->
  feq n n (fmul K n Psi Psii) (fid K) -> feq n n (fmul K n Psii Psi) (fid K) ->
  exists sigma : nat -> nat,
    (forall j, (j < n)%nat -> (sigma j < n)%nat) /\
    (forall i j, (i < n)%nat -> (j < n)%nat -> sigma i = sigma j -> i = j) /\
    (forall j, (j < n)%nat -> lam j = lamg (sigma j)) /\
    (forall j, (j < n)%nat -> exists c:R, c <> o0 K /\
       forall i, (i < nDOF n_ref nmov)%nat ->
         fmul K n (C_hat K br n_ref nmov n obs L) Psi i j
         = omul K c (fmul K n (C_global K n_ref nmov Cr Cm) Phi i (sigma j))).
Proof. exact ms_full_dec. Qed.

(* Further: the GLOBAL modal witness is discharged as well.  Instead of a modal matrix Phi with a two-sided inverse it is
   enough that the n pairwise different numbers lamg k each have SOME eigenvector v k of the global A (non-zero on the
   window): the modal matrix [v_0 | .. | v_(n-1)] is then invertible (Dim.modal_basis_exists).  Only the right inverses
   T k . Ti k = I and the left inverse Psii Psi = I of the solver output are assumed.  Conclusion as C03_multiplicity:
   a bijection sigma of the poles, lam_j = lamg_(sigma j), [lam_0 ..] a Permutation of [lamg_0 ..], and column j of
   C_hat Psi a non-zero multiple of the global mode shape C_global v_(sigma j), whatever the per-setup bases / gains. *)
Section MD.
Variable R:Type. Variable K:Ops R.
Hypothesis Fth : field_theory (o0 K) (o1 K) (oadd K) (omul K) (osub K) (oopp K) (odiv K) (oinv K) (@eq R).
Hypothesis Rdec : forall x y:R, {x = y} + {x <> y}.

Theorem C03_multiplicity_eigvecs :
  forall br n_ref nmov n (obs L:nat -> fmat R) (Cr A:fmat R) (Cm T Ti:nat -> fmat R),
  (forall k, (k < length nmov)%nat ->
     feq (S br * (n_ref + nth k nmov 0%nat)) n (obs k)
         (fmul K n (obsv K n (n_ref + nth k nmov 0%nat) (stack n_ref Cr (Cm k)) A) (T k))) ->
  (forall k, (k < length nmov)%nat -> feq n n (fmul K n (T k) (Ti k)) (fid K)) ->
  (forall k, (k < length nmov)%nat -> feq n n (fmul K (br * n_ref) (L k) (O_ref br n_ref nmov obs k)) (fid K)) ->
  (0 < length nmov)%nat -> (1 <= br)%nat -> (0 < n_ref)%nat ->
  forall (v:nat -> fmat R) (lamg:nat -> R),
  (forall k, (k < n)%nat -> feq n 1 (fmul K n A (v k)) (fscal K (lamg k) (v k)) /\ ~ feq n 1 (v k) (fzero K)) ->
  (forall i j, (i < n)%nat -> (j < n)%nat -> i <> j -> lamg i <> lamg j) ->
  forall Q Rq Ri:fmat R,
  feq ((br - 1) * nDOF n_ref nmov) n (obs_all K br n_ref nmov n obs L) (fmul K n Q Rq) ->
  feq n n (fmul K ((br - 1) * nDOF n_ref nmov) (ftr Q) Q) (fid K) ->
  feq n n (fmul K n Ri Rq) (fid K) ->
  forall (Psi Psii:fmat R) (lam:nat -> R),
  feq n n (fmul K n (A_hat K br n_ref nmov n obs L Q Ri) Psi) (fmul K n Psi (fdiag K lam)) ->
  feq n n (fmul K n Psii Psi) (fid K) ->
  (exists sigma : nat -> nat,
    (forall j, (j < n)%nat -> (sigma j < n)%nat) /\
    (forall i j, (i < n)%nat -> (j < n)%nat -> sigma i = sigma j -> i = j) /\
    (forall i, (i < n)%nat -> exists j, (j < n)%nat /\ sigma j = i) /\
    (forall j, (j < n)%nat -> lam j = lamg (sigma j)) /\
    (forall j, (j < n)%nat -> exists c:R, c <> o0 K /\
       forall i, (i < nDOF n_ref nmov)%nat ->
         fmul K n (C_hat K br n_ref nmov n obs L) Psi i j
         = omul K c (fmul K n (C_global K n_ref nmov Cr Cm) (v (sigma j)) i 0%nat))) /\
  Permutation (tab n lam) (tab n lamg).
Proof. exact (ms_modal_eigvecs_qr R K Fth Rdec). Qed.

Theorem C03_multiplicity_eigvecs_linv :
  forall br n_ref nmov n (obs L:nat -> fmat R) (Cr A:fmat R) (Cm T Ti:nat -> fmat R),
  (forall k, (k < length nmov)%nat ->
     feq (S br * (n_ref + nth k nmov 0%nat)) n (obs k)
         (fmul K n (obsv K n (n_ref + nth k nmov 0%nat) (stack n_ref Cr (Cm k)) A) (T k))) ->
  (forall k, (k < length nmov)%nat -> feq n n (fmul K n (T k) (Ti k)) (fid K)) ->
  (forall k, (k < length nmov)%nat -> feq n n (fmul K (br * n_ref) (L k) (O_ref br n_ref nmov obs k)) (fid K)) ->
  (0 < length nmov)%nat -> (1 <= br)%nat -> (0 < n_ref)%nat ->
  forall (v:nat -> fmat R) (lamg:nat -> R),
  (forall k, (k < n)%nat -> feq n 1 (fmul K n A (v k)) (fscal K (lamg k) (v k)) /\ ~ feq n 1 (v k) (fzero K)) ->
  (forall i j, (i < n)%nat -> (j < n)%nat -> i <> j -> lamg i <> lamg j) ->
  forall Lp:fmat R,
  feq n n (fmul K ((br - 1) * nDOF n_ref nmov) Lp (obs_all K br n_ref nmov n obs L)) (fid K) ->
  forall (Psi Psii:fmat R) (lam:nat -> R),
  feq n n (fmul K n (A_of_linv K br n_ref nmov n obs L Lp) Psi) (fmul K n Psi (fdiag K lam)) ->
  feq n n (fmul K n Psii Psi) (fid K) ->
  (exists sigma : nat -> nat,
    (forall j, (j < n)%nat -> (sigma j < n)%nat) /\
    (forall i j, (i < n)%nat -> (j < n)%nat -> sigma i = sigma j -> i = j) /\
    (forall i, (i < n)%nat -> exists j, (j < n)%nat /\ sigma j = i) /\
    (forall j, (j < n)%nat -> lam j = lamg (sigma j)) /\
    (forall j, (j < n)%nat -> exists c:R, c <> o0 K /\
       forall i, (i < nDOF n_ref nmov)%nat ->
         fmul K n (C_hat K br n_ref nmov n obs L) Psi i j
         = omul K c (fmul K n (C_global K n_ref nmov Cr Cm) (v (sigma j)) i 0%nat))) /\
  Permutation (tab n lam) (tab n lamg).
Proof. exact (ms_modal_eigvecs_linv R K Fth Rdec). Qed.

(* ... and the identified state matrix has NO other eigenvalue: any eigen-pair (mu, w) of A_hat, w non-zero on the window -
   not only the columns of the returned decomposition - carries one of the global poles *)
Theorem C03_no_spurious_pole :
  forall br n_ref nmov n (obs L:nat -> fmat R) (Cr A:fmat R) (Cm T Ti:nat -> fmat R),
  (forall k, (k < length nmov)%nat ->
     feq (S br * (n_ref + nth k nmov 0%nat)) n (obs k)
         (fmul K n (obsv K n (n_ref + nth k nmov 0%nat) (stack n_ref Cr (Cm k)) A) (T k))) ->
  (forall k, (k < length nmov)%nat -> feq n n (fmul K n (T k) (Ti k)) (fid K)) ->
  (forall k, (k < length nmov)%nat -> feq n n (fmul K (br * n_ref) (L k) (O_ref br n_ref nmov obs k)) (fid K)) ->
  (0 < length nmov)%nat -> (1 <= br)%nat -> (0 < n_ref)%nat ->
  forall (v:nat -> fmat R) (lamg:nat -> R),
  (forall k, (k < n)%nat -> feq n 1 (fmul K n A (v k)) (fscal K (lamg k) (v k)) /\ ~ feq n 1 (v k) (fzero K)) ->
  (forall i j, (i < n)%nat -> (j < n)%nat -> i <> j -> lamg i <> lamg j) ->
  forall Q Rq Ri:fmat R,
  feq ((br - 1) * nDOF n_ref nmov) n (obs_all K br n_ref nmov n obs L) (fmul K n Q Rq) ->
  feq n n (fmul K ((br - 1) * nDOF n_ref nmov) (ftr Q) Q) (fid K) ->
  feq n n (fmul K n Ri Rq) (fid K) ->
  forall (mu:R) (w:fmat R),
  feq n 1 (fmul K n (A_hat K br n_ref nmov n obs L Q Ri) w) (fscal K mu w) /\ ~ feq n 1 w (fzero K) ->
  exists i, (i < n)%nat /\ mu = lamg i.
Proof. exact (ms_no_spurious_qr R K Fth Rdec). Qed.

Theorem C03_no_spurious_pole_linv :
  forall br n_ref nmov n (obs L:nat -> fmat R) (Cr A:fmat R) (Cm T Ti:nat -> fmat R),
  (forall k, (k < length nmov)%nat ->
     feq (S br * (n_ref + nth k nmov 0%nat)) n (obs k)
         (fmul K n (obsv K n (n_ref + nth k nmov 0%nat) (stack n_ref Cr (Cm k)) A) (T k))) ->
  (forall k, (k < length nmov)%nat -> feq n n (fmul K n (T k) (Ti k)) (fid K)) ->
  (forall k, (k < length nmov)%nat -> feq n n (fmul K (br * n_ref) (L k) (O_ref br n_ref nmov obs k)) (fid K)) ->
  (0 < length nmov)%nat -> (1 <= br)%nat -> (0 < n_ref)%nat ->
  forall (v:nat -> fmat R) (lamg:nat -> R),
  (forall k, (k < n)%nat -> feq n 1 (fmul K n A (v k)) (fscal K (lamg k) (v k)) /\ ~ feq n 1 (v k) (fzero K)) ->
  (forall i j, (i < n)%nat -> (j < n)%nat -> i <> j -> lamg i <> lamg j) ->
  forall Lp:fmat R,
  feq n n (fmul K ((br - 1) * nDOF n_ref nmov) Lp (obs_all K br n_ref nmov n obs L)) (fid K) ->
  forall (mu:R) (w:fmat R),
  feq n 1 (fmul K n (A_of_linv K br n_ref nmov n obs L Lp) w) (fscal K mu w) /\ ~ feq n 1 w (fzero K) ->
  exists i, (i < n)%nat /\ mu = lamg i.
Proof. exact (ms_no_spurious_linv R K Fth Rdec). Qed.

(* the solver contract "Psi has a left inverse" in checkable form: an output with non-zero columns and pairwise different
   eigenvalues is two-sided invertible (eigenvectors of different eigenvalues are independent, Dim.eig_indep) *)
Theorem C03_eig_output_invertible : forall n (Ah Psi:fmat R) (lam:nat -> R),
  feq n n (fmul K n Ah Psi) (fmul K n Psi (fdiag K lam)) ->
  (forall k, (k < n)%nat -> ~ (forall i, (i < n)%nat -> Psi i k = o0 K)) ->
  (forall i j, (i < n)%nat -> (j < n)%nat -> i <> j -> lam i <> lam j) ->
  exists Psii:fmat R, feq n n (fmul K n Psi Psii) (fid K) /\ feq n n (fmul K n Psii Psi) (fid K).
Proof. exact (eig_output_invertible R K Fth Rdec). Qed.
End MD.

(* ================= complex poles of a real system =================
   K a formally real field with decidable equality (Qc; classically the reals), COps K its complexification (a field:
   Dim.cplx_field_theory).  All DATA are real matrices over K (per-setup realisations obs k, pinv outputs L k, sensors Cr /
   Cm k, state matrix A, bases T k, QR factors), read as complex ones through ms_cemb (entrywise x |-> (x, 0), the map
   cemb of C01); the poles lamg k, their eigenvectors v k and the solver output (Psi, lam) for the REAL matrix A_hat are
   complex.  Same conclusions. *)
Section MC.
Variable R:Type. Variable K:Ops R.
Hypothesis Fth : field_theory (o0 K) (o1 K) (oadd K) (omul K) (osub K) (oopp K) (odiv K) (oinv K) (@eq R).
Hypothesis Rdec : forall x y:R, {x = y} + {x <> y}.
Hypothesis Hreal : forall a b:R, oadd K (omul K a a) (omul K b b) = o0 K -> a = o0 K.

Theorem C03_multiplicity_complex :
  forall br n_ref nmov n (obs L:nat -> fmat R) (Cr A:fmat R) (Cm T Ti:nat -> fmat R),
  (forall k, (k < length nmov)%nat ->
     feq (S br * (n_ref + nth k nmov 0%nat)) n (obs k)
         (fmul K n (obsv K n (n_ref + nth k nmov 0%nat) (stack n_ref Cr (Cm k)) A) (T k))) ->
  (forall k, (k < length nmov)%nat -> feq n n (fmul K n (T k) (Ti k)) (fid K)) ->
  (forall k, (k < length nmov)%nat -> feq n n (fmul K (br * n_ref) (L k) (O_ref br n_ref nmov obs k)) (fid K)) ->
  (0 < length nmov)%nat -> (1 <= br)%nat -> (0 < n_ref)%nat ->
  forall (v:nat -> fmat (Cplx.C R)) (lamg:nat -> Cplx.C R),
  (forall k, (k < n)%nat -> feq n 1 (fmul (COps K) n (ms_cemb K A) (v k)) (fscal (COps K) (lamg k) (v k)) /\
                            ~ feq n 1 (v k) (fzero (COps K))) ->
  (forall i j, (i < n)%nat -> (j < n)%nat -> i <> j -> lamg i <> lamg j) ->
  forall Q Rq Ri:fmat R,
  feq ((br - 1) * nDOF n_ref nmov) n (obs_all K br n_ref nmov n obs L) (fmul K n Q Rq) ->
  feq n n (fmul K ((br - 1) * nDOF n_ref nmov) (ftr Q) Q) (fid K) ->
  feq n n (fmul K n Ri Rq) (fid K) ->
  forall (Psi Psii:fmat (Cplx.C R)) (lam:nat -> Cplx.C R),
  feq n n (fmul (COps K) n (ms_cemb K (A_hat K br n_ref nmov n obs L Q Ri)) Psi) (fmul (COps K) n Psi (fdiag (COps K) lam)) ->
  feq n n (fmul (COps K) n Psii Psi) (fid (COps K)) ->
  (exists sigma : nat -> nat,
    (forall j, (j < n)%nat -> (sigma j < n)%nat) /\
    (forall i j, (i < n)%nat -> (j < n)%nat -> sigma i = sigma j -> i = j) /\
    (forall i, (i < n)%nat -> exists j, (j < n)%nat /\ sigma j = i) /\
    (forall j, (j < n)%nat -> lam j = lamg (sigma j)) /\
    (forall j, (j < n)%nat -> exists c:Cplx.C R, c <> c0 K /\
       forall i, (i < nDOF n_ref nmov)%nat ->
         fmul (COps K) n (ms_cemb K (C_hat K br n_ref nmov n obs L)) Psi i j
         = cmul K c (fmul (COps K) n (ms_cemb K (C_global K n_ref nmov Cr Cm)) (v (sigma j)) i 0%nat))) /\
  Permutation (tab n lam) (tab n lamg).
Proof. exact (ms_modal_cplx_qr R K Fth Rdec Hreal). Qed.

Theorem C03_multiplicity_complex_linv :
  forall br n_ref nmov n (obs L:nat -> fmat R) (Cr A:fmat R) (Cm T Ti:nat -> fmat R),
  (forall k, (k < length nmov)%nat ->
     feq (S br * (n_ref + nth k nmov 0%nat)) n (obs k)
         (fmul K n (obsv K n (n_ref + nth k nmov 0%nat) (stack n_ref Cr (Cm k)) A) (T k))) ->
  (forall k, (k < length nmov)%nat -> feq n n (fmul K n (T k) (Ti k)) (fid K)) ->
  (forall k, (k < length nmov)%nat -> feq n n (fmul K (br * n_ref) (L k) (O_ref br n_ref nmov obs k)) (fid K)) ->
  (0 < length nmov)%nat -> (1 <= br)%nat -> (0 < n_ref)%nat ->
  forall (v:nat -> fmat (Cplx.C R)) (lamg:nat -> Cplx.C R),
  (forall k, (k < n)%nat -> feq n 1 (fmul (COps K) n (ms_cemb K A) (v k)) (fscal (COps K) (lamg k) (v k)) /\
                            ~ feq n 1 (v k) (fzero (COps K))) ->
  (forall i j, (i < n)%nat -> (j < n)%nat -> i <> j -> lamg i <> lamg j) ->
  forall Lp:fmat R,
  feq n n (fmul K ((br - 1) * nDOF n_ref nmov) Lp (obs_all K br n_ref nmov n obs L)) (fid K) ->
  forall (Psi Psii:fmat (Cplx.C R)) (lam:nat -> Cplx.C R),
  feq n n (fmul (COps K) n (ms_cemb K (A_of_linv K br n_ref nmov n obs L Lp)) Psi) (fmul (COps K) n Psi (fdiag (COps K) lam)) ->
  feq n n (fmul (COps K) n Psii Psi) (fid (COps K)) ->
  (exists sigma : nat -> nat,
    (forall j, (j < n)%nat -> (sigma j < n)%nat) /\
    (forall i j, (i < n)%nat -> (j < n)%nat -> sigma i = sigma j -> i = j) /\
    (forall i, (i < n)%nat -> exists j, (j < n)%nat /\ sigma j = i) /\
    (forall j, (j < n)%nat -> lam j = lamg (sigma j)) /\
    (forall j, (j < n)%nat -> exists c:Cplx.C R, c <> c0 K /\
       forall i, (i < nDOF n_ref nmov)%nat ->
         fmul (COps K) n (ms_cemb K (C_hat K br n_ref nmov n obs L)) Psi i j
         = cmul K c (fmul (COps K) n (ms_cemb K (C_global K n_ref nmov Cr Cm)) (v (sigma j)) i 0%nat))) /\
  Permutation (tab n lam) (tab n lamg).
Proof. exact (ms_modal_cplx_linv R K Fth Rdec Hreal). Qed.

Theorem C03_no_spurious_pole_complex :
  forall br n_ref nmov n (obs L:nat -> fmat R) (Cr A:fmat R) (Cm T Ti:nat -> fmat R),
  (forall k, (k < length nmov)%nat ->
     feq (S br * (n_ref + nth k nmov 0%nat)) n (obs k)
         (fmul K n (obsv K n (n_ref + nth k nmov 0%nat) (stack n_ref Cr (Cm k)) A) (T k))) ->
  (forall k, (k < length nmov)%nat -> feq n n (fmul K n (T k) (Ti k)) (fid K)) ->
  (forall k, (k < length nmov)%nat -> feq n n (fmul K (br * n_ref) (L k) (O_ref br n_ref nmov obs k)) (fid K)) ->
  (0 < length nmov)%nat -> (1 <= br)%nat -> (0 < n_ref)%nat ->
  forall (v:nat -> fmat (Cplx.C R)) (lamg:nat -> Cplx.C R),
  (forall k, (k < n)%nat -> feq n 1 (fmul (COps K) n (ms_cemb K A) (v k)) (fscal (COps K) (lamg k) (v k)) /\
                            ~ feq n 1 (v k) (fzero (COps K))) ->
  (forall i j, (i < n)%nat -> (j < n)%nat -> i <> j -> lamg i <> lamg j) ->
  forall Q Rq Ri:fmat R,
  feq ((br - 1) * nDOF n_ref nmov) n (obs_all K br n_ref nmov n obs L) (fmul K n Q Rq) ->
  feq n n (fmul K ((br - 1) * nDOF n_ref nmov) (ftr Q) Q) (fid K) ->
  feq n n (fmul K n Ri Rq) (fid K) ->
  forall (mu:Cplx.C R) (w:fmat (Cplx.C R)),
  feq n 1 (fmul (COps K) n (ms_cemb K (A_hat K br n_ref nmov n obs L Q Ri)) w) (fscal (COps K) mu w) /\
  ~ feq n 1 w (fzero (COps K)) ->
  exists i, (i < n)%nat /\ mu = lamg i.
Proof. exact (ms_no_spurious_cplx_qr R K Fth Rdec Hreal). Qed.

Theorem C03_no_spurious_pole_complex_linv :
  forall br n_ref nmov n (obs L:nat -> fmat R) (Cr A:fmat R) (Cm T Ti:nat -> fmat R),
  (forall k, (k < length nmov)%nat ->
     feq (S br * (n_ref + nth k nmov 0%nat)) n (obs k)
         (fmul K n (obsv K n (n_ref + nth k nmov 0%nat) (stack n_ref Cr (Cm k)) A) (T k))) ->
  (forall k, (k < length nmov)%nat -> feq n n (fmul K n (T k) (Ti k)) (fid K)) ->
  (forall k, (k < length nmov)%nat -> feq n n (fmul K (br * n_ref) (L k) (O_ref br n_ref nmov obs k)) (fid K)) ->
  (0 < length nmov)%nat -> (1 <= br)%nat -> (0 < n_ref)%nat ->
  forall (v:nat -> fmat (Cplx.C R)) (lamg:nat -> Cplx.C R),
  (forall k, (k < n)%nat -> feq n 1 (fmul (COps K) n (ms_cemb K A) (v k)) (fscal (COps K) (lamg k) (v k)) /\
                            ~ feq n 1 (v k) (fzero (COps K))) ->
  (forall i j, (i < n)%nat -> (j < n)%nat -> i <> j -> lamg i <> lamg j) ->
  forall Lp:fmat R,
  feq n n (fmul K ((br - 1) * nDOF n_ref nmov) Lp (obs_all K br n_ref nmov n obs L)) (fid K) ->
  forall (mu:Cplx.C R) (w:fmat (Cplx.C R)),
  feq n 1 (fmul (COps K) n (ms_cemb K (A_of_linv K br n_ref nmov n obs L Lp)) w) (fscal (COps K) mu w) /\
  ~ feq n 1 w (fzero (COps K)) ->
  exists i, (i < n)%nat /\ mu = lamg i.
Proof. exact (ms_no_spurious_cplx_linv R K Fth Rdec Hreal). Qed.

Theorem C03_eig_output_invertible_complex : forall n (Ah Psi:fmat (Cplx.C R)) (lam:nat -> Cplx.C R),
  feq n n (fmul (COps K) n Ah Psi) (fmul (COps K) n Psi (fdiag (COps K) lam)) ->
  (forall k, (k < n)%nat -> ~ (forall i, (i < n)%nat -> Psi i k = c0 K)) ->
  (forall i j, (i < n)%nat -> (j < n)%nat -> i <> j -> lam i <> lam j) ->
  exists Psii:fmat (Cplx.C R), feq n n (fmul (COps K) n Psi Psii) (fid (COps K)) /\ feq n n (fmul (COps K) n Psii Psi) (fid (COps K)).
Proof. exact (eig_output_invertible_cplx R K Fth Rdec Hreal). Qed.
End MC.

(* What is NOT proved (asserts nothing).  The statement below is the modal level over an ARBITRARY field.  As written it
   lacks exactly ONE hypothesis, decidable equality on the carrier (forall x y:R, {x = y} + {x <> y}), and nothing else:
   with that hypothesis added it is the theorem C03_full_dec above, word for word.  (Decidable equality is what lets one
   pick a non-zero coordinate of an eigenvector and run the elimination of Base/Dim.v on a generic carrier; it holds at Qc
   and, classically, at the reals and at their complexifications.  Ti 0 . T 0 = I, "no zero divisors" and 1 <> 0 are NOT
   missing: they are derived.)  C03_multiplicity_eigvecs / _complex above prove more than this statement under that one
   extra hypothesis (no modal matrix, bijection onto the poles, Permutation, complex poles of real data).
   Also not proved: the same with ordmax > n, every per-setup matrix zero-padded to [O_k T_k, 0] (pinv [X,0] = [X^+;0]);
   the transcendental map of ac2mp (proved for C01 at the reals); and the single-setup realisation step that delivers the
   hypothesis on obs k (C01). *)
Definition C03_full_statement : Prop :=
  forall (R:Type) (K:Ops R),
  field_theory (o0 K) (o1 K) (oadd K) (omul K) (osub K) (oopp K) (odiv K) (oinv K) (@eq R) ->
  forall br n_ref nmov n (obs L:nat -> fmat R) (Cr A:fmat R) (Cm T Ti:nat -> fmat R) (Q Rq Ri:fmat R),
  (forall k, (k < length nmov)%nat ->
     feq (S br * (n_ref + nth k nmov 0%nat)) n (obs k)
         (fmul K n (obsv K n (n_ref + nth k nmov 0%nat) (stack n_ref Cr (Cm k)) A) (T k))) ->
  (forall k, (k < length nmov)%nat -> feq n n (fmul K n (T k) (Ti k)) (fid K)) ->
  (forall k, (k < length nmov)%nat -> feq n n (fmul K (br * n_ref) (L k) (O_ref br n_ref nmov obs k)) (fid K)) ->
  (0 < length nmov)%nat -> (1 <= br)%nat -> (0 < n_ref)%nat ->
  feq ((br - 1) * nDOF n_ref nmov) n (obs_all K br n_ref nmov n obs L) (fmul K n Q Rq) ->
  feq n n (fmul K ((br - 1) * nDOF n_ref nmov) (ftr Q) Q) (fid K) ->
  feq n n (fmul K n Ri Rq) (fid K) ->
  forall (Phi Phii Psi Psii:fmat R) (lamg lam:nat -> R),
  (* global modes: A Phi = Phi diag(lamg), Phi invertible, distinct poles *)
  feq n n (fmul K n A Phi) (fmul K n Phi (fdiag K lamg)) ->
  feq n n (fmul K n Phi Phii) (fid K) -> feq n n (fmul K n Phii Phi) (fid K) ->
  (forall i j, (i < n)%nat -> (j < n)%nat -> i <> j -> lamg i <> lamg j) ->
  (* what eig returns for A_hat *)
  feq n n (fmul K n (A_hat K br n_ref nmov n obs L Q Ri) Psi) (fmul K n Psi (fdiag K lam)) ->
  feq n n (fmul K n Psi Psii) (fid K) -> feq n n (fmul K n Psii Psi) (fid K) ->
  exists sigma : nat -> nat,
    (forall j, (j < n)%nat -> (sigma j < n)%nat) /\
    (forall i j, (i < n)%nat -> (j < n)%nat -> sigma i = sigma j -> i = j) /\
    (forall j, (j < n)%nat -> lam j = lamg (sigma j)) /\
    (forall j, (j < n)%nat -> exists c:R, c <> o0 K /\
       forall i, (i < nDOF n_ref nmov)%nat ->
         fmul K n (C_hat K br n_ref nmov n obs L) Psi i j
         = omul K c (fmul K n (C_global K n_ref nmov Cr Cm) Phi i (sigma j))).

Print Assumptions C03_split_spec.
Print Assumptions C03_split_err_spec.
Print Assumptions C03_split_value_error.
Print Assumptions C03_pre_multisetup_spec.
Print Assumptions C03_pre_multisetup_index_error.
Print Assumptions C03_ref_mov_index_sets.
Print Assumptions C03_interleave_entry_ref.
Print Assumptions C03_interleave_entry_mov.
Print Assumptions C03_rebasing_basis_free.
Print Assumptions C03_obs_all_global.
Print Assumptions C03_obs_all_scaled.
Print Assumptions C03_identifies_global_partial.
Print Assumptions C03_A_similar_linv.
Print Assumptions C03_eigpair_transport.
Print Assumptions C03_eigpair_transport_back.
Print Assumptions C03_obs_all_l_entry.
Print Assumptions C03_multiplicity.
Print Assumptions C03_multiplicity_linv.
Print Assumptions C03_full_dec.
Print Assumptions C03_multiplicity_eigvecs.
Print Assumptions C03_multiplicity_eigvecs_linv.
Print Assumptions C03_no_spurious_pole.
Print Assumptions C03_no_spurious_pole_linv.
Print Assumptions C03_eig_output_invertible.
Print Assumptions C03_multiplicity_complex.
Print Assumptions C03_multiplicity_complex_linv.
Print Assumptions C03_no_spurious_pole_complex.
Print Assumptions C03_no_spurious_pole_complex_linv.
Print Assumptions C03_eig_output_invertible_complex.

(* non-vacuity 1: the split on a 3-sample, 4-channel dataset with references listed as [2;0], and its error cases *)
Example C03_example_split :
  let y := [[10;11;12;13];[20;21;22;23];[30;31;32;33]]%Z in
  split_one ZOps 4 y [2;0]%Z = SplitOk ([[12;22;32];[10;20;30]]%Z, [[11;21;31];[13;23;33]]%Z) /\
  split_one ZOps 4 y [0;0]%Z = SplitValueErr /\ split_one ZOps 4 y [4]%Z = SplitValueErr /\
  split_one ZOps 4 y [(-1)]%Z = SplitValueErr /\ split_one ZOps 4 y [] = SplitValueErr /\
  split_one ZOps 4 y [3;2;1;0]%Z = SplitValueErr /\
  pre_multisetup ZOps [(4%nat, y); (4%nat, y)] [[1]%Z] = SplitIndexErr.
Proof. vm_compute. repeat split; reflexivity. Qed.

(* non-vacuity 2: a concrete global system (one complex pole pair, A = [[0,1],[-1/2,1]]), one reference sensor, two setups
   with one roving sensor each (equal-sized blocks), br = 3, setup bases T_0 = 2 [[1,1],[0,1]] and T_1 = 1/8 [[0,1],[1,0]]
   (gains 2 and 1/8).  All hypotheses of C03_identifies_global_partial / C03_A_similar_linv hold (the left inverses are
   computed by the executable routine and checked), and the conclusions are observed on the computed matrices. *)
Definition ex_A : fmat Qc := fm_of QcOps [[q 0 1; q 1 1]; [q (-1) 2; q 1 1]].
Definition ex_Cr : fmat Qc := fm_of QcOps [[q 1 1; q 0 1]].
Definition ex_Cm (k:nat) : fmat Qc := match k with O => fm_of QcOps [[q 2 1; q 1 1]] | _ => fm_of QcOps [[q (-1) 1; q 3 1]] end.
Definition ex_T (k:nat) : fmat Qc :=
  match k with O => fm_of QcOps [[q 2 1; q 2 1]; [q 0 1; q 2 1]] | _ => fm_of QcOps [[q 0 1; q 1 8]; [q 1 8; q 0 1]] end.
Definition ex_Ti (k:nat) : fmat Qc :=
  match k with O => fm_of QcOps [[q 1 2; q (-1) 2]; [q 0 1; q 1 2]] | _ => fm_of QcOps [[q 0 1; q 8 1]; [q 8 1; q 0 1]] end.
Definition ex_obs (k:nat) : fmat Qc := fmul QcOps 2 (obsv QcOps 2 2 (stack 1 ex_Cr (ex_Cm k)) ex_A) (ex_T k).
Definition ex_L (k:nat) : fmat Qc :=
  match left_inv_l QcOps Qc_isz0 3 2 (O_ref 3 1 [1;1]%nat ex_obs k) with Some l => fm_of QcOps l | None => fzero QcOps end.
Definition ex_Lp : fmat Qc :=
  match left_inv_l QcOps Qc_isz0 6 2 (obs_all QcOps 3 1 [1;1]%nat 2 ex_obs ex_L) with Some l => fm_of QcOps l | None => fzero QcOps end.

Example C03_example_identification :
  (forall k, (k < 2)%nat -> feq (4 * 2) 2 (ex_obs k) (fmul QcOps 2 (obsv QcOps 2 2 (stack 1 ex_Cr (ex_Cm k)) ex_A) (ex_T k))) /\
  (forall k, (k < 2)%nat -> feq 2 2 (fmul QcOps 2 (ex_T k) (ex_Ti k)) (fid QcOps)) /\
  (forall k, (k < 2)%nat -> feq 2 2 (fmul QcOps (3 * 1) (ex_L k) (O_ref 3 1 [1;1]%nat ex_obs k)) (fid QcOps)) /\
  feq 2 2 (fmul QcOps ((3 - 1) * 3) ex_Lp (obs_all QcOps 3 1 [1;1]%nat 2 ex_obs ex_L)) (fid QcOps) /\
  (* conclusions, observed *)
  feq (3 * 3) 2 (obs_all QcOps 3 1 [1;1]%nat 2 ex_obs ex_L)
      (fmul QcOps 2 (obsv QcOps 2 3 (C_global QcOps 1 [1;1]%nat ex_Cr ex_Cm) ex_A) (ex_T 0%nat)) /\
  feq 2 2 (A_of_linv QcOps 3 1 [1;1]%nat 2 ex_obs ex_L ex_Lp) (fmul QcOps 2 (ex_Ti 0%nat) (fmul QcOps 2 ex_A (ex_T 0%nat))).
Proof.
  split; [|split; [|split; [|split; [|split]]]].
  - intros k _. apply feq_refl.
  - intros k Hk. destruct k as [|[|k]]; [| |lia]; apply c03_feqb_sound; vm_compute; reflexivity.
  - intros k Hk. destruct k as [|[|k]]; [| |lia]; apply c03_feqb_sound; vm_compute; reflexivity.
  - apply c03_feqb_sound; vm_compute; reflexivity.
  - apply c03_feqb_sound; vm_compute; reflexivity.
  - apply c03_feqb_sound; vm_compute; reflexivity.
Qed.

(* non-vacuity 3: the integer evaluation used by the correspondence check (adjugate-scaled left inverses, certificates)
   on the same system with integer bases T_0 = [[2,2],[0,2]], T_1 = [[0,3],[3,0]] and 4 A = [[0,4],[-2,4]] scaled out:
   here simply a 2-state integer system A = [[0,1],[-1,1]] *)
Example C03_example_integer_run :
  let A := fm_of ZOps [[0;1];[-1;1]]%Z in
  let Cr := fm_of ZOps [[1;0]]%Z in
  let Cm := fun k:nat => match k with O => fm_of ZOps [[2;1]]%Z | _ => fm_of ZOps [[-1;3]]%Z end in
  let T := fun k:nat => match k with O => fm_of ZOps [[2;2];[0;2]]%Z | _ => fm_of ZOps [[0;3];[3;0]]%Z end in
  let obsl := map (fun k => tab2 8 2 (fmul ZOps 2 (obsv ZOps 2 2 (stack 1 Cr (Cm k)) A) (T k))) [0;1]%nat in
  match ms_run ZOps (Z.eqb 0) 3 1 [1;1]%nat 2 obsl with
  | Some (cert, ds, Oall) =>
      cert = true /\ List.length ds = 2%nat /\
      (* reference rows: O_ref_global T_0 ; roving rows of setup k: d_k O_mov_k_global T_0 *)
      forallb (fun i => forallb (fun c =>
        Z.eqb (ent ZOps Oall i c)
              (interleave ZOps 1 [1;1]%nat (fmul ZOps 2 (obsv ZOps 2 1 Cr A) (T 0%nat))
                 (fun k => fscal ZOps (nth k ds 0%Z) (fmul ZOps 2 (obsv ZOps 2 1 (Cm k) A) (T 0%nat))) i c))
        (seq 0 2)) (seq 0 9) = true
  | None => False
  end.
Proof. vm_compute. repeat split; reflexivity. Qed.

(* non-vacuity 4: the hypotheses of C03_multiplicity_linv are met by a rational instance - global A = [[0,1],[-1/8,3/4]]
   (poles 1/2, 1/4, modes (1, lam)), the two-setup layout of non-vacuity 2, and a solver output for A_hat that lists the
   poles in the other order with eigenvectors scaled by 2 and 3; the carrier hypotheses hold at Qc *)
Example C03_example_multiplicity :
  (forall k, (k < 2)%nat -> feq (4 * 2) 2 (ec3_obs k) (fmul QcOps 2 (obsv QcOps 2 2 (stack 1 ec3_Cr (ec3_Cm k)) ec3_A) (ec3_T k))) /\
  (forall k, (k < 2)%nat -> feq 2 2 (fmul QcOps 2 (ec3_T k) (ec3_Ti k)) (fid QcOps)) /\
  feq 2 2 (fmul QcOps 2 (ec3_Ti 0%nat) (ec3_T 0%nat)) (fid QcOps) /\
  (forall k, (k < 2)%nat -> feq 2 2 (fmul QcOps (3 * 1) (ec3_L k) (O_ref 3 1 [1;1]%nat ec3_obs k)) (fid QcOps)) /\
  feq 2 2 (fmul QcOps 2 ec3_A ec3_Phi) (fmul QcOps 2 ec3_Phi (ediag QcOps ec3_lamg)) /\
  feq 2 2 (fmul QcOps 2 ec3_Phi ec3_Phii) (fid QcOps) /\ feq 2 2 (fmul QcOps 2 ec3_Phii ec3_Phi) (fid QcOps) /\
  (forall i j, (i < 2)%nat -> (j < 2)%nat -> i <> j -> ec3_lamg i <> ec3_lamg j) /\
  feq 2 2 (fmul QcOps 2 ec3_Psii ec3_Psi) (fid QcOps) /\
  feq 2 2 (fmul QcOps ((3 - 1) * 3) ec3_Lp (obs_all QcOps 3 1 [1;1]%nat 2 ec3_obs ec3_L)) (fid QcOps) /\
  feq 2 2 (fmul QcOps 2 (A_of_linv QcOps 3 1 [1;1]%nat 2 ec3_obs ec3_L ec3_Lp) ec3_Psi) (fmul QcOps 2 ec3_Psi (ediag QcOps ec3_lam)) /\
  tab 2 ec3_lam = [ec3_lamg 1%nat; ec3_lamg 0%nat].
Proof. exact ec3_hyps. Qed.
Example C03_example_carrier :
  (forall a b:Qc, omul QcOps a b = o0 QcOps -> a = o0 QcOps \/ b = o0 QcOps) /\ o1 QcOps <> o0 QcOps.
Proof. exact (conj qc_integral qc_one_neq_zero). Qed.

(* non-vacuity 5: the hypotheses of C03_multiplicity_eigvecs_linv / C03_no_spurious_pole_linv / C03_eig_output_invertible on
   the rational instance of non-vacuity 4 - only the two global eigenvectors (1, 1/2), (1, 1/4) are supplied (no modal
   matrix, no inverse of it, no Ti 0 . T 0 = I); the carrier is a field with decidable equality (QcFth, Qc_eq_dec) *)
Example C03_example_eigvecs :
  (forall k, (k < 2)%nat -> feq (4 * 2) 2 (ec3_obs k) (fmul QcOps 2 (obsv QcOps 2 2 (stack 1 ec3_Cr (ec3_Cm k)) ec3_A) (ec3_T k))) /\
  (forall k, (k < 2)%nat -> feq 2 2 (fmul QcOps 2 (ec3_T k) (ec3_Ti k)) (fid QcOps)) /\
  (forall k, (k < 2)%nat -> feq 2 2 (fmul QcOps (3 * 1) (ec3_L k) (O_ref 3 1 [1;1]%nat ec3_obs k)) (fid QcOps)) /\
  (forall k, (k < 2)%nat -> feq 2 1 (fmul QcOps 2 ec3_A (ec3d_v k)) (fscal QcOps (ec3_lamg k) (ec3d_v k)) /\
                            ~ feq 2 1 (ec3d_v k) (fzero QcOps)) /\
  (forall i j, (i < 2)%nat -> (j < 2)%nat -> i <> j -> ec3_lamg i <> ec3_lamg j) /\
  feq 2 2 (fmul QcOps ((3 - 1) * 3) ec3_Lp (obs_all QcOps 3 1 [1;1]%nat 2 ec3_obs ec3_L)) (fid QcOps) /\
  feq 2 2 (fmul QcOps 2 (A_of_linv QcOps 3 1 [1;1]%nat 2 ec3_obs ec3_L ec3_Lp) ec3_Psi) (fmul QcOps 2 ec3_Psi (ediag QcOps ec3_lam)) /\
  feq 2 2 (fmul QcOps 2 ec3_Psii ec3_Psi) (fid QcOps) /\
  (forall k, (k < 2)%nat -> ~ (forall i, (i < 2)%nat -> ec3_Psi i k = o0 QcOps)) /\
  (forall i j, (i < 2)%nat -> (j < 2)%nat -> i <> j -> ec3_lam i <> ec3_lam j).
Proof. exact ec3d_hyps. Qed.
(* ... and the theorems APPLIED to it: the identified poles are a permutation of the global ones, 1/3 is no eigenvalue *)
Example C03_example_eigvecs_applied :
  Permutation (tab 2 ec3_lam) (tab 2 ec3_lamg) /\
  forall w, ~ (feq 2 1 (fmul QcOps 2 (A_of_linv QcOps 3 1 [1;1]%nat 2 ec3_obs ec3_L ec3_Lp) w) (fscal QcOps (q 1 3) w) /\
               ~ feq 2 1 w (fzero QcOps)).
Proof. exact ec3d_concl. Qed.

(* non-vacuity 6: the hypotheses of C03_multiplicity_complex_linv / C03_no_spurious_pole_complex_linv at the Gaussian
   rationals COps QcOps: the REAL global system A = [[0,1],[-1/2,1]] of non-vacuity 2 has the COMPLEX pole pair (1 +- i)/2
   with modes (1, lam); two setups, real bases / gains as before; the solver output for the real A_hat lists the pair in the
   other order with eigenvectors scaled by 2i and 3.  Qc is formally real (EigCount.qc_formally_real). *)
Example C03_example_complex :
  (forall k, (k < 2)%nat -> feq (4 * 2) 2 (ecx_obs k) (fmul QcOps 2 (obsv QcOps 2 2 (stack 1 ec3_Cr (ec3_Cm k)) ecx_A) (ec3_T k))) /\
  (forall k, (k < 2)%nat -> feq 2 2 (fmul QcOps 2 (ec3_T k) (ec3_Ti k)) (fid QcOps)) /\
  (forall k, (k < 2)%nat -> feq 2 2 (fmul QcOps (3 * 1) (ecx_L k) (O_ref 3 1 [1;1]%nat ecx_obs k)) (fid QcOps)) /\
  (forall k, (k < 2)%nat -> feq 2 1 (fmul QcC 2 (ms_cemb QcOps ecx_A) (ecx_v k)) (fscal QcC (ecx_lamg k) (ecx_v k)) /\
                            ~ feq 2 1 (ecx_v k) (fzero QcC)) /\
  (forall i j, (i < 2)%nat -> (j < 2)%nat -> i <> j -> ecx_lamg i <> ecx_lamg j) /\
  feq 2 2 (fmul QcOps ((3 - 1) * 3) ecx_Lp (obs_all QcOps 3 1 [1;1]%nat 2 ecx_obs ecx_L)) (fid QcOps) /\
  feq 2 2 (fmul QcC 2 (ms_cemb QcOps (A_of_linv QcOps 3 1 [1;1]%nat 2 ecx_obs ecx_L ecx_Lp)) ecx_Psi)
          (fmul QcC 2 ecx_Psi (ediag QcC ecx_lam)) /\
  feq 2 2 (fmul QcC 2 ecx_Psii ecx_Psi) (fid QcC) /\
  tab 2 ecx_lam = [ecx_lamg 1%nat; ecx_lamg 0%nat].
Proof. exact ecx_hyps. Qed.
Example C03_example_complex_applied :
  Permutation (tab 2 ecx_lam) (tab 2 ecx_lamg) /\
  forall w, ~ (feq 2 1 (fmul QcC 2 (ms_cemb QcOps (A_of_linv QcOps 3 1 [1;1]%nat 2 ecx_obs ecx_L ecx_Lp)) w) (fscal QcC (q 1 2, q 0 1) w) /\
               ~ feq 2 1 w (fzero QcC)).
Proof. exact ecx_concl. Qed.
Example C03_example_carrier_field :
  field_theory (o0 QcOps) (o1 QcOps) (oadd QcOps) (omul QcOps) (osub QcOps) (oopp QcOps) (odiv QcOps) (oinv QcOps) (@eq Qc) /\
  (forall a b:Qc, oadd QcOps (omul QcOps a a) (omul QcOps b b) = o0 QcOps -> a = o0 QcOps).
Proof. exact (conj QcFth qc_formally_real). Qed.
