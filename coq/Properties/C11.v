(* C11 - Modal parameter extraction returns the requested pole, whole and only if close.
   Statements only: each theorem is closed by [exact] of a lemma of Proofs/P_mpe.v.
   Model: Model/M_mpe.v (ssi_mpe = SSI_mpe, plscf_mpe_explicit = pLSCF_mpe with an explicit order,
   plscf_find_min_conforming / plscf_find_min_present = pLSCF_mpe(order="find_min") as the property wants it / as it is).
   Tables: Fn[row][order-column] : option Q (None = NaN); Pay[row][order-column] = everything else the code moves with a
   pole (damping, mode shape, covariances) as ONE opaque payload, so "never a mixture of different poles" is
   "frequency and payload come from the same cell". *)
From Coq Require Import List Arith ZArith QArith Qabs Bool String.
From PyOMA.Base Require Import Argmin.
From PyOMA.Model Require Import M_mpe M_mpe_class.
From PyOMA.Proofs Require Import P_mpe P_mpe_class.
Import ListNotations.
Open Scope list_scope.
Open Scope Q_scope.

(* which order goes with which request: one order for all, or the j-th order for the j-th request *)
Theorem C11_requests_int : forall freq o j,
  nth_error (requests freq (OInt o)) j = option_map (fun f => (f, Some o)) (nth_error freq j).
Proof. exact requests_int. Qed.
Theorem C11_requests_list : forall freq os j,
  nth_error (requests freq (OList os)) j = option_map (fun f => (f, nth_error os j)) (nth_error freq j).
Proof. exact requests_list. Qed.

(* WHOLE: every returned (frequency, payload) is the content of ONE cell (row, order) of the tables, the cells being
   those selected request by request; order_out is the order that was asked for *)
Theorem C11_mpe_whole : forall (P:Type) (Fn:tab) (Pay:list (list P)) freq eo rtol vals oo,
  mpe_explicit Fn Pay freq eo rtol = Ok (vals, oo) ->
  oo = order_out_explicit eo /\
  exists sels, pick_all Fn rtol (requests freq eo) = Ok sels /\
    Forall2 (fun rc vp => cell Fn (fst rc) (snd rc) = Some (Some (fst vp)) /\ cell Pay (fst rc) (snd rc) = Some (snd vp))
            (somes sels) vals.
Proof. exact (@mpe_whole). Qed.

(* CLOSEST: the selected cell of a request (f, order c) lies in column c and its row is the first argmin of
   |Fn[.][c] - f| among the retained (non-NaN) poles of that column *)
Theorem C11_mpe_closest : forall Fn rtol reqs sels, pick_all Fn rtol reqs = Ok sels ->
  Forall2 (fun req sel => forall r c, sel = Some (r,c) ->
             snd req = Some c /\ exists col d, getcol Fn c = Some col /\ is_first_argmin (dists col (fst req)) r d) reqs sels.
Proof. exact mpe_closest. Qed.

(* ONLY IF CLOSE: with p the closest retained pole of the request's own column, the request yields that cell if
   |p - f| <= atol + rtol |f| (np.isclose against ITS OWN requested frequency f) and yields nothing otherwise *)
Theorem C11_mpe_only_if_close : forall Fn rtol reqs sels, pick_all Fn rtol reqs = Ok sels ->
  Forall2 (fun req sel => exists c col r d p,
             snd req = Some c /\ getcol Fn c = Some col /\ is_first_argmin (dists col (fst req)) r d /\
             nth_error col r = Some (Some p) /\ cell Fn r c = Some (Some p) /\
             (Qabs (p - fst req) <= atol + rtol * Qabs (fst req) -> sel = Some (r,c)) /\
             (atol + rtol * Qabs (fst req) < Qabs (p - fst req) -> sel = None)) reqs sels.
Proof. exact mpe_only_if_close. Qed.

(* no exception when every requested order exists and contains at least one retained pole *)
Theorem C11_mpe_explicit_total : forall (P:Type) n m (Fn:tab) (Pay:list (list P)) freq eo rtol, rect n m Fn -> rect n m Pay ->
  Forall (fun req => exists c r p, snd req = Some c /\ cell Fn r c = Some (Some p)) (requests freq eo) ->
  exists vals, mpe_explicit Fn Pay freq eo rtol = Ok (vals, order_out_explicit eo).
Proof. exact (@mpe_explicit_total). Qed.

(* FIND_MIN (SSI_mpe): for ascending requests with separated bands [f - rtol, f + rtol], none of them reached by the
   isclose neighbourhood of another request, the reported order i is the LEAST order-column at which every request has
   exactly one distinct stable (label 1) pole in its band and that pole is isclose to it; every returned value comes from
   column i, frequency and payload from the same stable cell, the k-th value answering the k-th request.  No order is
   reported and nothing is returned exactly when no column qualifies. *)
Theorem C11_mpe_find_min : forall (P:Type) (Fn:tab) (Pay:list (list P)) Lab freq rtol,
  ForallOrdPairs (fun f g => f + rtol < g - rtol) freq ->
  (forall f g, In f freq -> In g freq -> f = g \/ rtol + (atol + rtol * Qabs g) < Qabs (f - g)) ->
  match ssi_mpe Fn Pay Lab freq FindMin rtol with
  | Ok (vals, OutInt i) =>
      (i < ncols Fn)%nat /\ qualifies (inb rtol) 1 Lab Fn freq rtol i /\
      (forall i', (i' < i)%nat -> ~ qualifies (inb rtol) 1 Lab Fn freq rtol i') /\
      Forall2 (fun f vp => exists r p, stable_at 1 Lab Fn i r p /\ fst vp == p /\ cell Pay r i = Some (snd vp) /\
                              region (inb rtol) f p /\ isclose rtol p f = true) freq vals
  | Ok (vals, OutNone) => vals = [] /\ forall i', (i' < ncols Fn)%nat -> ~ qualifies (inb rtol) 1 Lab Fn freq rtol i'
  | Ok (_, OutList _) => False
  | Err _ => True
  end.
Proof. exact (@mpe_find_min). Qed.

(* ... and on rectangular tables it raises nothing *)
Theorem C11_mpe_find_min_total : forall (P:Type) n m (Fn:tab) (Pay:list (list P)) Lab freq rtol,
  rect n m Fn -> rect n m Lab -> rect n m Pay -> exists vals oo, ssi_mpe Fn Pay Lab freq FindMin rtol = Ok (vals, oo).
Proof. exact (@mpe_find_min_total). Qed.

(* the same statement for any band test and any stable label (the SSI and pLSCF instances are corollaries) *)
Theorem C11_mpe_find_min_gen : forall (band:Q->Q->bool) (P:Type) lv (Fn:tab) (Pay:list (list P)) Lab freq rtol,
  separated band freq -> no_reach band freq rtol ->
  match find_min_gen band lv Fn Pay Lab freq rtol with
  | Ok (vals, OutInt i) =>
      (i < ncols Fn)%nat /\ qualifies band lv Lab Fn freq rtol i /\
      (forall i', (i' < i)%nat -> ~ qualifies band lv Lab Fn freq rtol i') /\
      Forall2 (fun f vp => exists r p, stable_at lv Lab Fn i r p /\ fst vp == p /\ cell Pay r i = Some (snd vp) /\
                              region band f p /\ isclose rtol p f = true) freq vals
  | Ok (vals, OutNone) => vals = [] /\ forall i', (i' < ncols Fn)%nat -> ~ qualifies band lv Lab Fn freq rtol i'
  | Ok (_, OutList _) => False
  | Err _ => True
  end.
Proof. exact (@mpe_find_min_gen). Qed.

(* FIND_MIN (pLSCF_mpe) as the property wants it: stable = label 1, band (f - deltaf, f + deltaf) *)
Theorem C11_plscf_find_min_conforming : forall (P:Type) (Fn:tab) (Pay:list (list P)) Lab freq deltaf rtol,
  ForallOrdPairs (fun f g => f + deltaf <= g - deltaf) freq ->
  (forall f g, In f freq -> In g freq -> f = g \/ deltaf + (atol + rtol * Qabs g) <= Qabs (f - g)) ->
  match plscf_find_min_conforming Fn Pay Lab freq deltaf rtol with
  | Ok (vals, OutInt i) =>
      (i < ncols Fn)%nat /\ qualifies (inbs deltaf) 1 Lab Fn freq rtol i /\
      (forall i', (i' < i)%nat -> ~ qualifies (inbs deltaf) 1 Lab Fn freq rtol i') /\
      Forall2 (fun f vp => exists r p, stable_at 1 Lab Fn i r p /\ fst vp == p /\ cell Pay r i = Some (snd vp) /\
                              region (inbs deltaf) f p /\ isclose rtol p f = true) freq vals
  | Ok (vals, OutNone) => vals = [] /\ forall i', (i' < ncols Fn)%nat -> ~ qualifies (inbs deltaf) 1 Lab Fn freq rtol i'
  | Ok (_, OutList _) => False
  | Err _ => True
  end.
Proof. exact (@plscf_find_min_conforming_spec). Qed.

(* the PRESENT pLSCF_mpe(order="find_min") tests Lab == 7 whereas gen.SC_apply labels 0/1: on a 2 x 3 table labelled 0/1
   whose order 0 qualifies, the conforming function reports order 0 with its pole, the present code reports order 1
   and returns nothing (KNOWN_FINDINGS key C11:pLSCF_mpe:find_min-Lab7) *)
Theorem C11_plscf_find_min_refuted :
  exists (Fn:tab) (Pay:list (list nat)) (Lab:list (list Z)) (freq:list Q) (deltaf rtol:Q) vals i z,
    Forall (Forall (fun l => l = 0%Z \/ l = 1%Z)) Lab /\ rect 2 3 Fn /\ rect 2 3 Lab /\ rect 2 3 Pay /\
    ForallOrdPairs (fun f g => f + deltaf <= g - deltaf) freq /\
    plscf_find_min_conforming Fn Pay Lab freq deltaf rtol = Ok (vals, OutInt i) /\ vals <> [] /\
    plscf_find_min_present Fn Pay Lab freq deltaf rtol = Ok ([], [], z) /\ z <> Z.of_nat i.
Proof. exact plscf_find_min_refuted. Qed.

(* ... and on EVERY table without a label 7 (gen.SC_apply writes 0 and 1 only), whatever the requests and tolerances, the
   present code returns no pole and reports order (number of orders - 2) *)
Theorem C11_plscf_present_blind : forall (P:Type) (Fn:tab) (Pay:list (list P)) Lab freq deltaf rtol,
  Forall (Forall (fun l => l <> 7%Z)) Lab ->
  match plscf_find_min_present Fn Pay Lab freq deltaf rtol with
  | Ok (us, ps, z) => us = [] /\ ps = [] /\ z = (Z.of_nat (ncols Fn - 1) - 1)%Z
  | Err _ => True
  end.
Proof. exact (@plscf_present_blind). Qed.

(* np.isclose as modelled *)
Theorem C11_isclose_spec : forall rtol a b, isclose rtol a b = true <-> Qabs (a - b) <= atol + rtol * Qabs b.
Proof. exact isclose_spec. Qed.

(* ---------------------------------------------------------------------------------------------------------
   THROUGH THE CLASSES (Model/M_mpe_class.v: SSIdat.mpe, inherited by SSIcov / SSIdat_MS / SSIcov_MS, and pLSCF.mpe, inherited
   by pLSCF_MS, reached by setup.mpe(name, ...)).  X, S = entries of the damping and shape tables; CF, CX, CS = entries of
   the three covariance tables (present when calc_unc=True).  The stored arrays are separate lists here, so "never a
   mixture" reads: position k of EVERY stored array is the content of the k-th selected cell, the same cell list for all. *)

(* the hand-over: result tables, order (a column index: ordmin, step, ordmax do not enter) and rtol exactly as they are;
   the covariance tables iff the object has them; pLSCF: no covariances, and the routine's default band 0.05 *)
Theorem C11_class_handover : forall (X S CF CX CS:Type) (T:tables X S CF CX CS) rp freq ord rtol,
  ssi_args T rp freq ord rtol =
    {| fa_freq := freq; fa_Fn := Fn_poles T; fa_Xi := Xi_poles T; fa_Phi := Phi_poles T; fa_order := ord; fa_Lab := Lab T;
       fa_rtol := rtol; fa_deltaf := 1 # 20; fa_cov := cov_poles T |} /\
  plscf_args T rp freq ord rtol =
    {| fa_freq := freq; fa_Fn := Fn_poles T; fa_Xi := Xi_poles T; fa_Phi := Phi_poles T; fa_order := ord; fa_Lab := Lab T;
       fa_rtol := rtol; fa_deltaf := 1 # 20; fa_cov := None |}.
Proof. exact class_handover. Qed.

(* the method, every outcome: success = the object has tables, the routine succeeded on the handed-over arguments, ITS results
   are what is stored, sel_freq / order_in / rtol are written to the run parameters, ordmin / ordmax / step and the tables stay;
   ValueError("Run algorithm first") iff there are no tables; otherwise the routine's own exception *)
Theorem C11_class_mpe_outcome : forall (X S CF CX CS:Type) args f (A:algo X S CF CX CS) freq ord rtol,
  match class_mpe args f A freq ord rtol with
  | COk A' => exists T R, a_tabs A = Some T /\ f (args T (a_rp A) freq ord rtol) = Ok R /\ a_res A' = Some R /\
                          params_stored A A' freq ord rtol
  | CErr NotRun => a_tabs A = None
  | CErr (FunErr e) => exists T, a_tabs A = Some T /\ f (args T (a_rp A) freq ord rtol) = Err e
  | CErr NoAlg => False
  end.
Proof. exact class_mpe_outcome. Qed.

(* EXPLICIT ORDER, SSI classes: order_out is the order asked for; request by request the closest retained pole of the
   request's own column is selected iff np.isclose to that request; Fn, Xi, Phi and - exactly when the object has covariance
   tables - Fn_cov, Xi_cov, Phi_cov hold at position k the content of the k-th selected cell of their own table *)
Theorem C11_class_ssi_explicit : forall (X S CF CX CS:Type) (A A':algo X S CF CX CS) freq eo rtol,
  ssi_class_mpe A freq (Explicit eo) rtol = COk A' ->
  exists T R, a_tabs A = Some T /\ a_res A' = Some R /\ params_stored A A' freq (Explicit eo) rtol /\
    (r_order_out R = PExp (order_out_explicit eo) /\
     exists sels, pick_all (Fn_poles T) rtol (requests freq eo) = Ok sels /\
       Forall2 (fun req sel => exists c col r d p,
                  snd req = Some c /\ getcol (Fn_poles T) c = Some col /\ is_first_argmin (dists col (fst req)) r d /\
                  nth_error col r = Some (Some p) /\ cell (Fn_poles T) r c = Some (Some p) /\
                  (Qabs (p - fst req) <= atol + rtol * Qabs (fst req) -> sel = Some (r,c)) /\
                  (atol + rtol * Qabs (fst req) < Qabs (p - fst req) -> sel = None)) (requests freq eo) sels /\
       Forall2 (fun rc f => cell (Fn_poles T) (fst rc) (snd rc) = Some (Some f)) (somes sels) (r_Fn R) /\
       Forall2 (fun rc x => cell (Xi_poles T) (fst rc) (snd rc) = Some x) (somes sels) (r_Xi R) /\
       Forall2 (fun rc s => cell (Phi_poles T) (fst rc) (snd rc) = Some s) (somes sels) (r_Phi R)) /\
    forall sels, pick_all (Fn_poles T) rtol (requests freq eo) = Ok sels ->
      match cov_poles T, r_cov R with
      | None, None => True
      | Some (F, Xc, Sc), Some (fc, xc, sc) =>
          Forall2 (fun rc a => cell F (fst rc) (snd rc) = Some a) (somes sels) fc /\
          Forall2 (fun rc a => cell Xc (fst rc) (snd rc) = Some a) (somes sels) xc /\
          Forall2 (fun rc a => cell Sc (fst rc) (snd rc) = Some a) (somes sels) sc
      | _, _ => False
      end.
Proof. exact class_ssi_explicit. Qed.

(* EXPLICIT ORDER, pLSCF classes (the present code and the conforming one alike) *)
Theorem C11_class_plscf_explicit : forall (X S CF CX CS:Type) conf (A A':algo X S CF CX CS) freq eo rtol,
  plscf_class_mpe conf A freq (Explicit eo) rtol = COk A' ->
  exists T R, a_tabs A = Some T /\ a_res A' = Some R /\ params_stored A A' freq (Explicit eo) rtol /\
    (r_order_out R = PExp (order_out_explicit eo) /\
     exists sels, pick_all (Fn_poles T) rtol (requests freq eo) = Ok sels /\
       Forall2 (fun req sel => exists c col r d p,
                  snd req = Some c /\ getcol (Fn_poles T) c = Some col /\ is_first_argmin (dists col (fst req)) r d /\
                  nth_error col r = Some (Some p) /\ cell (Fn_poles T) r c = Some (Some p) /\
                  (Qabs (p - fst req) <= atol + rtol * Qabs (fst req) -> sel = Some (r,c)) /\
                  (atol + rtol * Qabs (fst req) < Qabs (p - fst req) -> sel = None)) (requests freq eo) sels /\
       Forall2 (fun rc f => cell (Fn_poles T) (fst rc) (snd rc) = Some (Some f)) (somes sels) (r_Fn R) /\
       Forall2 (fun rc x => cell (Xi_poles T) (fst rc) (snd rc) = Some x) (somes sels) (r_Xi R) /\
       Forall2 (fun rc s => cell (Phi_poles T) (fst rc) (snd rc) = Some s) (somes sels) (r_Phi R)) /\
    r_cov R = None.
Proof. exact class_plscf_explicit. Qed.

(* FIND_MIN, SSI classes: the stored order_out i is the LEAST column at which every request has exactly one distinct stable
   pole in its band, isclose to it; there are rows/poles (r_k, p_k), the k-th answering the k-th request from column i, with
   Fn[k] == p_k and Xi[k], Phi[k] and (iff the object has them) the three covariances taken from cell (r_k, i) of their
   tables; order_out None iff no column qualifies, and then every stored array is empty *)
Theorem C11_class_ssi_find_min : forall (X S CF CX CS:Type) (A A':algo X S CF CX CS) freq rtol,
  ForallOrdPairs (fun f g => f + rtol < g - rtol) freq ->
  (forall f g, In f freq -> In g freq -> f = g \/ rtol + (atol + rtol * Qabs g) < Qabs (f - g)) ->
  ssi_class_mpe A freq FindMin rtol = COk A' ->
  exists T R, a_tabs A = Some T /\ a_res A' = Some R /\ params_stored A A' freq FindMin rtol /\
    match r_order_out R with
    | PExp (OutInt i) =>
        (i < ncols (Fn_poles T))%nat /\ qualifies (inb rtol) 1 (Lab T) (Fn_poles T) freq rtol i /\
        (forall i', (i' < i)%nat -> ~ qualifies (inb rtol) 1 (Lab T) (Fn_poles T) freq rtol i') /\
        exists rps : list (nat * Q),
          Forall2 (fun f rp => stable_at 1 (Lab T) (Fn_poles T) i (fst rp) (snd rp) /\ region (inb rtol) f (snd rp) /\
                               isclose rtol (snd rp) f = true) freq rps /\
          Forall2 (fun rp fo => fo == snd rp) rps (r_Fn R) /\
          from_cells3 T R (map (fun rp => (fst rp, i)) rps) /\ from_cells_cov T R (map (fun rp => (fst rp, i)) rps)
    | PExp OutNone =>
        r_Fn R = [] /\ r_Xi R = [] /\ r_Phi R = [] /\ from_cells_cov T R [] /\
        forall i', (i' < ncols (Fn_poles T))%nat -> ~ qualifies (inb rtol) 1 (Lab T) (Fn_poles T) freq rtol i'
    | _ => False
    end.
Proof. exact class_ssi_find_min. Qed.

(* the vocabulary of the two statements above, unfolded once *)
Theorem C11_from_cells_unfold : forall (X S CF CX CS:Type) (T:tables X S CF CX CS) (R:results X S CF CX CS) cells,
  (from_cells3 T R cells <->
     Forall2 (fun rc x => cell (Xi_poles T) (fst rc) (snd rc) = Some x) cells (r_Xi R) /\
     Forall2 (fun rc s => cell (Phi_poles T) (fst rc) (snd rc) = Some s) cells (r_Phi R)) /\
  (from_cells_cov T R cells <->
     match cov_poles T, r_cov R with
     | None, None => True
     | Some (F, Xc, Sc), Some (fc, xc, sc) =>
         Forall2 (fun rc a => cell F (fst rc) (snd rc) = Some a) cells fc /\
         Forall2 (fun rc a => cell Xc (fst rc) (snd rc) = Some a) cells xc /\
         Forall2 (fun rc a => cell Sc (fst rc) (snd rc) = Some a) cells sc
     | _, _ => False
     end).
Proof. intros. split; reflexivity. Qed.

(* FIND_MIN, pLSCF classes as the property wants it (stable = label 1, the routine's default band 0.05, which the class
   does not let the caller change) *)
Theorem C11_class_plscf_find_min_conforming : forall (X S CF CX CS:Type) (A A':algo X S CF CX CS) freq rtol,
  ForallOrdPairs (fun f g => f + (1#20) <= g - (1#20)) freq ->
  (forall f g, In f freq -> In g freq -> f = g \/ (1#20) + (atol + rtol * Qabs g) <= Qabs (f - g)) ->
  plscf_class_mpe true A freq FindMin rtol = COk A' ->
  exists T R, a_tabs A = Some T /\ a_res A' = Some R /\ params_stored A A' freq FindMin rtol /\
    match r_order_out R with
    | PExp (OutInt i) =>
        (i < ncols (Fn_poles T))%nat /\ qualifies (inbs (1#20)) 1 (Lab T) (Fn_poles T) freq rtol i /\
        (forall i', (i' < i)%nat -> ~ qualifies (inbs (1#20)) 1 (Lab T) (Fn_poles T) freq rtol i') /\
        exists rps : list (nat * Q),
          Forall2 (fun f rp => stable_at 1 (Lab T) (Fn_poles T) i (fst rp) (snd rp) /\ region (inbs (1#20)) f (snd rp) /\
                               isclose rtol (snd rp) f = true) freq rps /\
          Forall2 (fun rp fo => fo == snd rp) rps (r_Fn R) /\
          from_cells3 T R (map (fun rp => (fst rp, i)) rps) /\ r_cov R = None
    | PExp OutNone =>
        r_Fn R = [] /\ r_Xi R = [] /\ r_Phi R = [] /\ r_cov R = None /\
        forall i', (i' < ncols (Fn_poles T))%nat -> ~ qualifies (inbs (1#20)) 1 (Lab T) (Fn_poles T) freq rtol i'
    | _ => False
    end.
Proof. exact class_plscf_find_min_conforming. Qed.

(* the PRESENT pLSCF classes on tables without a label 7 (gen.SC_apply writes 0 and 1 only): find_min stores no pole at all
   and order_out = number of orders - 2, whatever is asked (the known finding, seen through the class) *)
Theorem C11_class_plscf_present_blind : forall (X S CF CX CS:Type) (A A':algo X S CF CX CS) freq rtol,
  (forall T, a_tabs A = Some T -> Forall (Forall (fun l => l <> 7%Z)) (Lab T)) ->
  plscf_class_mpe false A freq FindMin rtol = COk A' ->
  exists T R, a_tabs A = Some T /\ a_res A' = Some R /\
    r_Fn R = [] /\ r_Xi R = [] /\ r_Phi R = [] /\ r_cov R = None /\
    r_order_out R = PZ (Z.of_nat (ncols (Fn_poles T) - 1) - 1)%Z.
Proof. exact class_plscf_present_blind. Qed.

(* no exception through the SSI classes on rectangular tables (explicit orders: each requested column has a retained pole) *)
Theorem C11_class_ssi_total : forall (X S CF CX CS:Type) (A:algo X S CF CX CS) T n m freq ord rtol,
  a_tabs A = Some T ->
  (rect n m (Fn_poles T) /\ rect n m (Xi_poles T) /\ rect n m (Phi_poles T) /\ rect n m (Lab T) /\
   match cov_poles T with None => True | Some (F, Xc, Sc) => rect n m F /\ rect n m Xc /\ rect n m Sc end) ->
  match ord with
  | Explicit eo => Forall (fun req => exists c r p, snd req = Some c /\ cell (Fn_poles T) r c = Some (Some p)) (requests freq eo)
  | FindMin => True
  end ->
  exists A', ssi_class_mpe A freq ord rtol = COk A'.
Proof. exact class_ssi_total. Qed.

(* setup.mpe(name, ...): exactly the algorithm registered under that name is replaced, by the outcome of its own class
   method; every other algorithm of the setup is untouched; KeyError iff no algorithm has that name; otherwise the
   exception of that algorithm's method *)
Theorem C11_setup_mpe_frame : forall (X S CF CX CS:Type) conf (st:list (string * alg X S CF CX CS)) name freq ord rtol,
  match setup_mpe conf st name freq ord rtol with
  | COk st' => exists pre g g' post, st = pre ++ (name, g) :: post /\ st' = pre ++ (name, g') :: post /\
                 (forall n h, In (n, h) pre -> n <> name) /\ alg_mpe conf g freq ord rtol = COk g'
  | CErr NoAlg => forall n h, In (n, h) st -> n <> name
  | CErr e => exists pre g post, st = pre ++ (name, g) :: post /\ (forall n h, In (n, h) pre -> n <> name) /\
                 alg_mpe conf g freq ord rtol = CErr e
  end.
Proof. exact setup_mpe_frame. Qed.


Print Assumptions C11_requests_int.
Print Assumptions C11_requests_list.
Print Assumptions C11_mpe_whole.
Print Assumptions C11_mpe_closest.
Print Assumptions C11_mpe_only_if_close.
Print Assumptions C11_mpe_explicit_total.
Print Assumptions C11_mpe_find_min.
Print Assumptions C11_mpe_find_min_total.
Print Assumptions C11_mpe_find_min_gen.
Print Assumptions C11_plscf_find_min_conforming.
Print Assumptions C11_plscf_find_min_refuted.
Print Assumptions C11_plscf_present_blind.
Print Assumptions C11_isclose_spec.
Print Assumptions C11_class_handover.
Print Assumptions C11_class_mpe_outcome.
Print Assumptions C11_class_ssi_explicit.
Print Assumptions C11_class_plscf_explicit.
Print Assumptions C11_class_ssi_find_min.
Print Assumptions C11_from_cells_unfold.
Print Assumptions C11_class_plscf_find_min_conforming.
Print Assumptions C11_class_plscf_present_blind.
Print Assumptions C11_class_ssi_total.
Print Assumptions C11_setup_mpe_frame.

(* ---------------------------------------------------------------------------------------------------------
   a non-trivial concrete instance: 4 rows x 4 orders, two modes near 5 and 10 Hz, a spurious pole at 7.5, the 10 Hz
   mode missing at order 0 and unstable at order 1, a second distinct stable pole in the 5 Hz band at order 2;
   payload = cell identifier row*4 + column *)
Definition ex_Fn : tab :=
  [[Some (5#1);   Some (81#16); Some (5#1);    Some (161#32)];
   [None;         Some (10#1);  Some (161#16); Some (10#1)];
   [Some (15#2);  None;         Some (41#8);   Some (15#2)];
   [None;         Some (15#2);  None;          None]].
Definition ex_Lab : list (list Z) := [[1;1;1;1];[0;0;1;1];[1;0;1;0];[0;1;0;0]]%Z.
Definition ex_freq : list Q := [5#1; 10#1].
Definition ex_rtol : Q := 1#8.

(* the hypotheses of C11_mpe_find_min hold for these requests *)
Example C11_ex_hyps :
  ForallOrdPairs (fun f g => f + ex_rtol < g - ex_rtol) ex_freq /\
  (forall f g, In f ex_freq -> In g ex_freq -> f = g \/ ex_rtol + (atol + ex_rtol * Qabs g) < Qabs (f - g)).
Proof.
  split; [repeat constructor|].
  intros f g [<-|[<-|[]]] [<-|[<-|[]]]; (left; reflexivity) || (right; vm_compute; reflexivity).
Qed.

(* order 0: 10 Hz missing; order 1: 10 Hz not stable; order 2: two distinct stable poles (5 and 41/8) in the 5 Hz band;
   order 3 is the first qualifying one, and both poles are returned with the payload of their own cell *)
Example C11_ex_find_min :
  showRes (ssi_mpe ex_Fn (id_tab 4 4) ex_Lab ex_freq FindMin ex_rtol) = "O 161/32@3 10/1@7|I 3"%string.
Proof. vm_compute. reflexivity. Qed.

(* explicit orders [2; 1]: request 5 Hz at order 2 gets cell (0,2); request 10 Hz at order 1 gets cell (1,1);
   with one order 0 for both, 10 Hz has no pole within 12.5 % (closest is 7.5) and only the 5 Hz pole is returned *)
Example C11_ex_explicit :
  showRes (ssi_mpe ex_Fn (id_tab 4 4) ex_Lab ex_freq (Explicit (OList [2;1]%nat)) ex_rtol) = "O 5/1@2 10/1@5|L 2 1"%string /\
  showRes (ssi_mpe ex_Fn (id_tab 4 4) ex_Lab ex_freq (Explicit (OInt 0)) ex_rtol) = "O 5/1@0|I 0"%string.
Proof. split; vm_compute; reflexivity. Qed.

(* through the classes, the same table in an object run with ordmin = 2, step = 1, covariance tables present (every moved
   table holds tag * 1000 + cell number; Xi = 1, Phi = 2, Fn_cov = 3, Xi_cov = 4, Phi_cov = 5): find_min stores order 3 and,
   in every array, cells 3 and 7; the explicit list [2; 1] stores cells 2 and 5; ordmin does not shift anything *)
Example C11_ex_class :
  showAlgo (ssi_class_mpe (mk_algo (mk_tables ex_Fn ex_Lab 4 4 true) 2 10 1) ex_freq FindMin ex_rtol)
    = "O 5/1 10/1|find_min|1/8|2 10 1|161/32 10/1|1003 1007|2003 2007|I 3|3003 3007;4003 4007;5003 5007"%string /\
  showAlgo (ssi_class_mpe (mk_algo (mk_tables ex_Fn ex_Lab 4 4 true) 2 10 1) ex_freq (Explicit (OList [2;1]%nat)) ex_rtol)
    = "O 5/1 10/1|L 2 1|1/8|2 10 1|5/1 10/1|1002 1005|2002 2005|L 2 1|3002 3005;4002 4005;5002 5005"%string /\
  showAlgo (plscf_class_mpe true (mk_algo (mk_tables ex_Fn ex_Lab 4 4 false) 0 4 1) ex_freq FindMin ex_rtol)
    = "O 5/1 10/1|find_min|1/8|0 4 1|161/32 10/1|1003 1007|2003 2007|I 3|N"%string /\
  showAlgo (plscf_class_mpe false (mk_algo (mk_tables ex_Fn ex_Lab 4 4 false) 0 4 1) ex_freq FindMin ex_rtol)
    = "O 5/1 10/1|find_min|1/8|0 4 1||||I 2|N"%string.
Proof. repeat split; vm_compute; reflexivity. Qed.

(* the hypotheses of C11_class_ssi_total hold for that object *)
Example C11_ex_class_rect :
  let T := mk_tables ex_Fn ex_Lab 4 4 true in
  rect 4 4 (Fn_poles T) /\ rect 4 4 (Xi_poles T) /\ rect 4 4 (Phi_poles T) /\ rect 4 4 (Lab T) /\
  match cov_poles T with None => True | Some (F, Xc, Sc) => rect 4 4 F /\ rect 4 4 Xc /\ rect 4 4 Sc end.
Proof. cbv zeta. unfold rect. repeat split; repeat constructor. Qed.
