(* C11 - Modal parameter extraction returns the requested pole, whole and only if close.
   Statements only: each theorem is closed by [exact] of a lemma of Proofs/P_mpe.v.
   Model: Model/M_mpe.v (ssi_mpe = SSI_mpe, plscf_mpe_explicit = pLSCF_mpe with an explicit order,
   plscf_find_min_conforming / plscf_find_min_present = pLSCF_mpe(order="find_min") as the property wants it / as it is).
   Tables: Fn[row][order-column] : option Q (None = NaN); Pay[row][order-column] = everything else the code moves with a
   pole (damping, mode shape, covariances) as ONE opaque payload, so "never a mixture of different poles" is
   "frequency and payload come from the same cell". *)
From Coq Require Import List Arith ZArith QArith Qabs Bool String.
From PyOMA.Base Require Import Argmin.
From PyOMA.Model Require Import M_mpe.
From PyOMA.Proofs Require Import P_mpe.
Import ListNotations.
Open Scope Q_scope.

(* which order goes with which request: one order for all, or the j-th order for the j-th request *)
Theorem C11_requests_int : forall freq o j,
  nth_error (requests freq (OInt o)) j = option_map (fun f => (f, Some o)) (nth_error freq j).
Proof. exact requests_int. Qed.
Theorem C11_requests_list : forall freq os j,
  nth_error (requests freq (OList os)) j = option_map (fun f => (f, nth_error os j)) (nth_error freq j).
Proof. exact requests_list. Qed.

(* WHOLE: every returned (frequency, payload) is the content of ONE cell (row, order) of the tables, the cells being
   those selected request by request; order_out is the order that was asked for *)
Theorem C11_mpe_whole : forall (P:Type) (Fn:tab) (Pay:list (list P)) freq eo rtol vals oo,
  mpe_explicit Fn Pay freq eo rtol = Ok (vals, oo) ->
  oo = order_out_explicit eo /\
  exists sels, pick_all Fn rtol (requests freq eo) = Ok sels /\
    Forall2 (fun rc vp => cell Fn (fst rc) (snd rc) = Some (Some (fst vp)) /\ cell Pay (fst rc) (snd rc) = Some (snd vp))
            (somes sels) vals.
Proof. exact (@mpe_whole). Qed.

(* CLOSEST: the selected cell of a request (f, order c) lies in column c and its row is the first argmin of
   |Fn[.][c] - f| among the retained (non-NaN) poles of that column *)
Theorem C11_mpe_closest : forall Fn rtol reqs sels, pick_all Fn rtol reqs = Ok sels ->
  Forall2 (fun req sel => forall r c, sel = Some (r,c) ->
             snd req = Some c /\ exists col d, getcol Fn c = Some col /\ is_first_argmin (dists col (fst req)) r d) reqs sels.
Proof. exact mpe_closest. Qed.

(* ONLY IF CLOSE: with p the closest retained pole of the request's own column, the request yields that cell if
   |p - f| <= atol + rtol |f| (np.isclose against ITS OWN requested frequency f) and yields nothing otherwise *)
Theorem C11_mpe_only_if_close : forall Fn rtol reqs sels, pick_all Fn rtol reqs = Ok sels ->
  Forall2 (fun req sel => exists c col r d p,
             snd req = Some c /\ getcol Fn c = Some col /\ is_first_argmin (dists col (fst req)) r d /\
             nth_error col r = Some (Some p) /\ cell Fn r c = Some (Some p) /\
             (Qabs (p - fst req) <= atol + rtol * Qabs (fst req) -> sel = Some (r,c)) /\
             (atol + rtol * Qabs (fst req) < Qabs (p - fst req) -> sel = None)) reqs sels.
Proof. exact mpe_only_if_close. Qed.

(* no exception when every requested order exists and contains at least one retained pole *)
Theorem C11_mpe_explicit_total : forall (P:Type) n m (Fn:tab) (Pay:list (list P)) freq eo rtol, rect n m Fn -> rect n m Pay ->
  Forall (fun req => exists c r p, snd req = Some c /\ cell Fn r c = Some (Some p)) (requests freq eo) ->
  exists vals, mpe_explicit Fn Pay freq eo rtol = Ok (vals, order_out_explicit eo).
Proof. exact (@mpe_explicit_total). Qed.

(* FIND_MIN (SSI_mpe): for ascending requests with separated bands [f - rtol, f + rtol], none of them reached by the
   isclose neighbourhood of another request, the reported order i is the LEAST order-column at which every request has
   exactly one distinct stable (label 1) pole in its band and that pole is isclose to it; every returned value comes from
   column i, frequency and payload from the same stable cell, the k-th value answering the k-th request.  No order is
   reported and nothing is returned exactly when no column qualifies. *)
Theorem C11_mpe_find_min : forall (P:Type) (Fn:tab) (Pay:list (list P)) Lab freq rtol,
  ForallOrdPairs (fun f g => f + rtol < g - rtol) freq ->
  (forall f g, In f freq -> In g freq -> f = g \/ rtol + (atol + rtol * Qabs g) < Qabs (f - g)) ->
  match ssi_mpe Fn Pay Lab freq FindMin rtol with
  | Ok (vals, OutInt i) =>
      (i < ncols Fn)%nat /\ qualifies (inb rtol) 1 Lab Fn freq rtol i /\
      (forall i', (i' < i)%nat -> ~ qualifies (inb rtol) 1 Lab Fn freq rtol i') /\
      Forall2 (fun f vp => exists r p, stable_at 1 Lab Fn i r p /\ fst vp == p /\ cell Pay r i = Some (snd vp) /\
                              region (inb rtol) f p /\ isclose rtol p f = true) freq vals
  | Ok (vals, OutNone) => vals = [] /\ forall i', (i' < ncols Fn)%nat -> ~ qualifies (inb rtol) 1 Lab Fn freq rtol i'
  | Ok (_, OutList _) => False
  | Err _ => True
  end.
Proof. exact (@mpe_find_min). Qed.

(* ... and on rectangular tables it raises nothing *)
Theorem C11_mpe_find_min_total : forall (P:Type) n m (Fn:tab) (Pay:list (list P)) Lab freq rtol,
  rect n m Fn -> rect n m Lab -> rect n m Pay -> exists vals oo, ssi_mpe Fn Pay Lab freq FindMin rtol = Ok (vals, oo).
Proof. exact (@mpe_find_min_total). Qed.

(* the same statement for any band test and any stable label (the SSI and pLSCF instances are corollaries) *)
Theorem C11_mpe_find_min_gen : forall (band:Q->Q->bool) (P:Type) lv (Fn:tab) (Pay:list (list P)) Lab freq rtol,
  separated band freq -> no_reach band freq rtol ->
  match find_min_gen band lv Fn Pay Lab freq rtol with
  | Ok (vals, OutInt i) =>
      (i < ncols Fn)%nat /\ qualifies band lv Lab Fn freq rtol i /\
      (forall i', (i' < i)%nat -> ~ qualifies band lv Lab Fn freq rtol i') /\
      Forall2 (fun f vp => exists r p, stable_at lv Lab Fn i r p /\ fst vp == p /\ cell Pay r i = Some (snd vp) /\
                              region band f p /\ isclose rtol p f = true) freq vals
  | Ok (vals, OutNone) => vals = [] /\ forall i', (i' < ncols Fn)%nat -> ~ qualifies band lv Lab Fn freq rtol i'
  | Ok (_, OutList _) => False
  | Err _ => True
  end.
Proof. exact (@mpe_find_min_gen). Qed.

(* FIND_MIN (pLSCF_mpe) as the property wants it: stable = label 1, band (f - deltaf, f + deltaf) *)
Theorem C11_plscf_find_min_conforming : forall (P:Type) (Fn:tab) (Pay:list (list P)) Lab freq deltaf rtol,
  ForallOrdPairs (fun f g => f + deltaf <= g - deltaf) freq ->
  (forall f g, In f freq -> In g freq -> f = g \/ deltaf + (atol + rtol * Qabs g) <= Qabs (f - g)) ->
  match plscf_find_min_conforming Fn Pay Lab freq deltaf rtol with
  | Ok (vals, OutInt i) =>
      (i < ncols Fn)%nat /\ qualifies (inbs deltaf) 1 Lab Fn freq rtol i /\
      (forall i', (i' < i)%nat -> ~ qualifies (inbs deltaf) 1 Lab Fn freq rtol i') /\
      Forall2 (fun f vp => exists r p, stable_at 1 Lab Fn i r p /\ fst vp == p /\ cell Pay r i = Some (snd vp) /\
                              region (inbs deltaf) f p /\ isclose rtol p f = true) freq vals
  | Ok (vals, OutNone) => vals = [] /\ forall i', (i' < ncols Fn)%nat -> ~ qualifies (inbs deltaf) 1 Lab Fn freq rtol i'
  | Ok (_, OutList _) => False
  | Err _ => True
  end.
Proof. exact (@plscf_find_min_conforming_spec). Qed.

(* the PRESENT pLSCF_mpe(order="find_min") tests Lab == 7 whereas gen.SC_apply labels 0/1: on a 2 x 3 table labelled 0/1
   whose order 0 qualifies, the conforming function reports order 0 with its pole, the present code reports order 1
   and returns nothing (KNOWN_FINDINGS key C11:pLSCF_mpe:find_min-Lab7) *)
Theorem C11_plscf_find_min_refuted :
  exists (Fn:tab) (Pay:list (list nat)) (Lab:list (list Z)) (freq:list Q) (deltaf rtol:Q) vals i z,
    Forall (Forall (fun l => l = 0%Z \/ l = 1%Z)) Lab /\ rect 2 3 Fn /\ rect 2 3 Lab /\ rect 2 3 Pay /\
    ForallOrdPairs (fun f g => f + deltaf <= g - deltaf) freq /\
    plscf_find_min_conforming Fn Pay Lab freq deltaf rtol = Ok (vals, OutInt i) /\ vals <> [] /\
    plscf_find_min_present Fn Pay Lab freq deltaf rtol = Ok ([], [], z) /\ z <> Z.of_nat i.
Proof. exact plscf_find_min_refuted. Qed.

(* ... and on EVERY table without a label 7 (gen.SC_apply writes 0 and 1 only), whatever the requests and tolerances, the
   present code returns no pole and reports order (number of orders - 2) *)
Theorem C11_plscf_present_blind : forall (P:Type) (Fn:tab) (Pay:list (list P)) Lab freq deltaf rtol,
  Forall (Forall (fun l => l <> 7%Z)) Lab ->
  match plscf_find_min_present Fn Pay Lab freq deltaf rtol with
  | Ok (us, ps, z) => us = [] /\ ps = [] /\ z = (Z.of_nat (ncols Fn - 1) - 1)%Z
  | Err _ => True
  end.
Proof. exact (@plscf_present_blind). Qed.

(* np.isclose as modelled *)
Theorem C11_isclose_spec : forall rtol a b, isclose rtol a b = true <-> Qabs (a - b) <= atol + rtol * Qabs b.
Proof. exact isclose_spec. Qed.

Print Assumptions C11_requests_int.
Print Assumptions C11_requests_list.
Print Assumptions C11_mpe_whole.
Print Assumptions C11_mpe_closest.
Print Assumptions C11_mpe_only_if_close.
Print Assumptions C11_mpe_explicit_total.
Print Assumptions C11_mpe_find_min.
Print Assumptions C11_mpe_find_min_total.
Print Assumptions C11_mpe_find_min_gen.
Print Assumptions C11_plscf_find_min_conforming.
Print Assumptions C11_plscf_find_min_refuted.
Print Assumptions C11_plscf_present_blind.
Print Assumptions C11_isclose_spec.

(* ---------------------------------------------------------------------------------------------------------
   a non-trivial concrete instance: 4 rows x 4 orders, two modes near 5 and 10 Hz, a spurious pole at 7.5, the 10 Hz
   mode missing at order 0 and unstable at order 1, a second distinct stable pole in the 5 Hz band at order 2;
   payload = cell identifier row*4 + column *)
Definition ex_Fn : tab :=
  [[Some (5#1);   Some (81#16); Some (5#1);    Some (161#32)];
   [None;         Some (10#1);  Some (161#16); Some (10#1)];
   [Some (15#2);  None;         Some (41#8);   Some (15#2)];
   [None;         Some (15#2);  None;          None]].
Definition ex_Lab : list (list Z) := [[1;1;1;1];[0;0;1;1];[1;0;1;0];[0;1;0;0]]%Z.
Definition ex_freq : list Q := [5#1; 10#1].
Definition ex_rtol : Q := 1#8.

(* the hypotheses of C11_mpe_find_min hold for these requests *)
Example C11_ex_hyps :
  ForallOrdPairs (fun f g => f + ex_rtol < g - ex_rtol) ex_freq /\
  (forall f g, In f ex_freq -> In g ex_freq -> f = g \/ ex_rtol + (atol + ex_rtol * Qabs g) < Qabs (f - g)).
Proof.
  split; [repeat constructor|].
  intros f g [<-|[<-|[]]] [<-|[<-|[]]]; (left; reflexivity) || (right; vm_compute; reflexivity).
Qed.

(* order 0: 10 Hz missing; order 1: 10 Hz not stable; order 2: two distinct stable poles (5 and 41/8) in the 5 Hz band;
   order 3 is the first qualifying one, and both poles are returned with the payload of their own cell *)
Example C11_ex_find_min :
  showRes (ssi_mpe ex_Fn (id_tab 4 4) ex_Lab ex_freq FindMin ex_rtol) = "O 161/32@3 10/1@7|I 3"%string.
Proof. vm_compute. reflexivity. Qed.

(* explicit orders [2; 1]: request 5 Hz at order 2 gets cell (0,2); request 10 Hz at order 1 gets cell (1,1);
   with one order 0 for both, 10 Hz has no pole within 12.5 % (closest is 7.5) and only the 5 Hz pole is returned *)
Example C11_ex_explicit :
  showRes (ssi_mpe ex_Fn (id_tab 4 4) ex_Lab ex_freq (Explicit (OList [2;1]%nat)) ex_rtol) = "O 5/1@2 10/1@5|L 2 1"%string /\
  showRes (ssi_mpe ex_Fn (id_tab 4 4) ex_Lab ex_freq (Explicit (OInt 0)) ex_rtol) = "O 5/1@0|I 0"%string.
Proof. split; vm_compute; reflexivity. Qed.
