(* C14 - Preprocessing composes, metadata stays truthful, rollback restores the start.
   Statements only: each theorem is closed by [exact] of a lemma of Proofs/P_prep.v.
   sg = true: SingleSetup, sg = false: MultiSetup_PreGER;  [run false] is the property-conforming model (it is what
   MultiSetup_PreGER does, and what SingleSetup does except for the stored duration), [run true] the model of the
   present SingleSetup duration formula.  Every theorem quantifies over ALL histories [ops]. *)
From Coq Require Import List ZArith QArith Qcanon String Bool.
From PyOMA.Model Require Import M_prep M_prep_mem.
From PyOMA.Proofs Require Import P_prep P_prep_mem.
Import ListNotations.
Local Open Scope string_scope.
Local Open Scope list_scope.

(* the current data are the operations issued after the last rollback, applied in order to the initial data (the
   filter designed for the sampling frequency current at that moment); the stored split is the ref/mov split of exactly
   these data; add_algorithms hands over exactly that split and that fs, and changes nothing else *)
Theorem C14_prep_composes : forall sg fs0 refs ds s0, init_state sg fs0 refs ds = POk s0 ->
  forall ops s, run false sg s0 ops = POk s ->
    (cur s, fs s) = apply_ops (since_rb ops) (ds, fs0)
    /\ mk_data sg refs (cur s) = POk (data s)
    /\ forall nm, exists s', run false sg s0 (ops ++ [AddAlg nm]) = POk s'
         /\ bound s' = bound s ++ [(nm, (data s, fs s))]
         /\ cur s' = cur s /\ data s' = data s /\ fs s' = fs s /\ dt s' = dt s /\ Ndats s' = Ndats s /\ Ts s' = Ts s.
Proof. exact prep_composes. Qed.

(* add_algorithms(alg) re-binds: afterwards the instance nm holds the data and fs of the setup at that moment, whether or
   not it had been added before (either model); what every other instance holds, and the setup itself, are untouched *)
Theorem C14_prep_rebind : forall pc sg s0 ops s nm, run pc sg s0 ops = POk s ->
  exists s', run pc sg s0 (ops ++ [AddAlg nm]) = POk s'
    /\ alg_lookup nm (bound s') = Some (data s, fs s)
    /\ (forall nm', nm' <> nm -> alg_lookup nm' (bound s') = alg_lookup nm' (bound s))
    /\ cur s' = cur s /\ data s' = data s /\ fs s' = fs s /\ dt s' = dt s /\ Ndats s' = Ndats s /\ Ts s' = Ts s.
Proof. exact prep_rebind. Qed.

(* what an algorithm received stays in the log unchanged, whatever is called afterwards (either model) *)
Theorem C14_prep_bound_stable : forall pc sg s0 ops more s s',
  run pc sg s0 ops = POk s -> run pc sg s0 (ops ++ more) = POk s' -> exists l, bound s' = bound s ++ l.
Proof. exact prep_bound_stable. Qed.

(* fs = fs0 / product of the decimation factors since the last rollback, dt = 1/fs, sample counts = array lengths,
   duration = samples x dt *)
Theorem C14_prep_metadata : forall sg fs0 refs ds s0, fs0 <> 0%Qc -> init_state sg fs0 refs ds = POk s0 ->
  forall ops s, run false sg s0 ops = POk s ->
    fs s = (fs0 / qprod (since_rb ops))%Qc
    /\ (dt s * fs s = 1)%Qc
    /\ Ndats s = map tlen (cur s)
    /\ Ts s = map (fun n => (Qc_of_nat n * dt s)%Qc) (Ndats s).
Proof. exact prep_metadata. Qed.

(* rollback never fails and restores data, split, fs, dt, sample counts, durations (and leaves the initial copy and
   the algorithms' data alone) *)
Theorem C14_prep_rollback : forall sg fs0 refs ds s0, init_state sg fs0 refs ds = POk s0 ->
  forall ops s1, run false sg s0 ops = POk s1 ->
    exists s, run false sg s0 (ops ++ [Rollback]) = POk s
      /\ cur s = ds /\ data s = data s0 /\ mk_data sg refs ds = POk (data s)
      /\ fs s = fs0 /\ dt s = (/ fs0)%Qc /\ Ndats s = map tlen ds
      /\ Ts s = map (fun n => (Qc_of_nat n * / fs0)%Qc) (map tlen ds)
      /\ ref s = refs /\ init s = ds /\ init_fs s = fs0 /\ init_ref s = refs
      /\ bound s = bound s1.
Proof. exact prep_rollback. Qed.

(* a history whose keywords are all documented ones (n, ftype, zero_phase / type, bp, overwrite_data) never raises *)
Theorem C14_prep_kw_total : forall sg fs0 refs ds s0, init_state sg fs0 refs ds = POk s0 ->
  forall ops, Forall op_documented ops -> exists s, run false sg s0 ops = POk s.
Proof. exact run_total. Qed.

(* ... and an undocumented keyword is a TypeError (so the theorem above is not vacuous totality) *)
Theorem C14_prep_kw_unknown : forall pc sg s,
  (forall q kw, kw_ok dec_names kw = false -> step pc sg s (Decimate q kw) = PErr TypeErr) /\
  (forall kw, kw_ok det_names kw = false -> step pc sg s (Detrend kw) = PErr TypeErr).
Proof. exact kw_unknown_typeerr. Qed.

(* a call that raises (undocumented keyword: TypeError; a call SciPy refuses: marked [ScipyRaises]) leaves EVERY component
   of the state as it was, and the session continues: the state reached by a history containing failing calls is the state
   reached by the history of its successful calls alone - to which all the theorems of this file apply (either model) *)
Theorem C14_prep_failed_call_noop : forall pc sg,
  (forall s o e, step pc sg s o = PErr e -> step_keep pc sg s o = (Some e, s)) /\
  (forall s, step_keep pc sg s ScipyRaises = (Some ValueErr, s)) /\
  (forall ops s, run pc sg s (succ_ops pc sg s ops) = POk (run_keep pc sg s ops)
                 /\ Forall (fun o => o <> ScipyRaises) (succ_ops pc sg s ops)).
Proof.
  intros pc sg. split; [exact (failed_call_noop pc sg)|]. split; [exact (scipy_raises_noop pc sg)|].
  intros ops s. split; [exact (run_keep_succ pc sg ops s)|exact (succ_ops_ok pc sg ops s)].
Qed.

(* the stored initial copy (data, fs, reference layout) is the same after every history *)
Theorem C14_prep_init_immutable : forall sg fs0 refs ds s0, init_state sg fs0 refs ds = POk s0 ->
  forall ops s, run false sg s0 ops = POk s -> init s = ds /\ init_fs s = fs0 /\ init_ref s = refs /\ ref s = refs.
Proof. exact prep_init_immutable. Qed.

(* the model of the present SingleSetup code differs from the conforming one in the stored durations only, so the
   five theorems above hold of it for every component but Ts *)
Theorem C14_present_same_but_T : forall sg s0 ops s, run true sg s0 ops = POk s ->
  exists s', run false sg s0 ops = POk s' /\ same_but_T s s'.
Proof. exact present_same_but_T. Qed.

(* KNOWN FINDING (KNOWN_FINDINGS.txt, key C14:SingleSetup.decimate_data:T): the present SingleSetup.decimate_data
   stores T = Ndat*dt/q; witness: 600 samples at 100 Hz decimated by 4 -> 150 samples, dt = 1/25, T stored 3/2, not 6 *)
Theorem C14_single_T_refuted : exists fs0 ds s0 ops s,
  fs0 <> 0%Qc /\ init_state true fs0 [] ds = POk s0 /\ run true true s0 ops = POk s
  /\ Ts s <> map (fun n => (Qc_of_nat n * dt s)%Qc) (Ndats s).
Proof. exact single_T_refuted. Qed.

(* the abbreviations of the model's printers ("=", "^k n c") rest on a sound structural comparison *)
Theorem C14_printer_term_eqb_sound : forall a b, term_eqb a b = true -> a = b.
Proof. exact term_eqb_eq. Qed.

(* ------------------------------------------------------------------------------------------------------------------
   MEMORY LAYER (Model/M_prep_mem.v): buffers with identities.  [mm ms] says which buffer ids the user, the stored initial
   copy (_initial_data / _initial_datasets), the current data (data / datasets), the handed-over data and every algorithm
   hold, [hp] what every buffer contains (a M_prep term / view, READ from the heap by every call) and whether its dtype is
   floating, [m_log] what every call read, allocated and wrote.  [st ms] is the M_prep state; the calls of [mrun] succeed
   exactly when those of [run] do.  First argument [ow] of mstep / mrun:  false = THE PRESENT CODE (BaseSetup._detrend_data
   drops overwrite_data before calling SciPy, repo commit f6a83e1);  true = the code before that commit (the keyword reached
   SciPy, which then detrends floating buffers in place).  All theorems quantify over ALL histories,
   detrend_data(overwrite_data=True) included; those stated for every [ow] hold of both variants. *)
Local Open Scope nat_scope.

(* THE PRESENT CODE: "no call ever modifies the arrays the user passed in or the stored initial copy", and what an algorithm
   was handed stays what it was, at full strength: for every history (overwrite_data=True included) every logged write set is
   empty and every existing buffer keeps its content through every later history; hence the user's arrays hold what the
   user passed, the stored copy of any moment holds the initial data (content and dtype), the buffers handed over at any
   moment - what an algorithm added then holds - hold the data of that moment, and bindings are never dropped *)
Theorem C14_mem_nothing_ever_written : forall pc sg fs0 refs ds fl ms0, minit sg fs0 refs ds fl = POk ms0 ->
  forall ops more ms1 ms2, mrun false pc sg ms0 ops = POk ms1 -> mrun false pc sg ms0 (ops ++ more) = POk ms2 ->
    Forall (fun e => e_writes e = []) (m_log (mm ms2))
    /\ nx (mm ms1) <= nx (mm ms2) /\ (forall i, i < nx (mm ms1) -> hp (mm ms2) i = hp (mm ms1) i)
    /\ m_user (mm ms2) = m_user (mm ms0) /\ map (fun i => bc (hp (mm ms2) i)) (m_user (mm ms2)) = map Whole ds
    /\ map (hp (mm ms2)) (m_init (mm ms1)) = map (fun t => {| bc := Whole t; bfl := tflag fl t |}) ds
    /\ map (fun i => bc (hp (mm ms2) i)) (m_data (mm ms1)) = data (st ms1)
    /\ (forall nm ids, In (nm, ids) (m_bound (mm ms1)) -> In (nm, ids) (m_bound (mm ms2))).
Proof. exact mem_nothing_ever_written. Qed.

(* the memory model runs exactly the histories the term model runs, with the same term-level state (either variant) *)
Theorem C14_mem_same_histories : forall ow pc sg ms0 ops,
  (forall ms, mrun ow pc sg ms0 ops = POk ms -> run pc sg (st ms0) ops = POk (st ms))
  /\ (forall s, run pc sg (st ms0) ops = POk s -> exists ms, mrun ow pc sg ms0 ops = POk ms /\ st ms = s).
Proof. intros ow pc sg ms0 ops. split; [exact (mrun_st ow pc sg ms0 ops)|exact (mrun_total ow pc sg ms0 ops)]. Qed.

(* the constructor works ON the user's arrays (current data = the user's buffers) and stores a copy in other buffers; after
   EVERY history the contents of the current-data buffers, of the handed-over buffers and of the stored copy are those of
   the term model (so C14_prep_composes / _rollback / _init_immutable speak about what the buffers hold); SingleSetup hands
   over the current data buffer itself, PreGER separate ref/mov buffers; every id in use is allocated (either variant) *)
Theorem C14_mem_coherent : forall ow pc sg fs0 refs ds fl ms0, minit sg fs0 refs ds fl = POk ms0 ->
  init_state sg fs0 refs ds = POk (st ms0)
  /\ m_cur (mm ms0) = m_user (mm ms0) /\ disjoint (m_user (mm ms0)) (m_init (mm ms0))
  /\ map (fun i => bc (hp (mm ms0) i)) (m_user (mm ms0)) = map Whole ds
  /\ forall ops ms, mrun ow pc sg ms0 ops = POk ms ->
       run pc sg (st ms0) ops = POk (st ms)
       /\ map (fun i => bc (hp (mm ms) i)) (m_cur (mm ms)) = map Whole (cur (st ms))
       /\ map (fun i => bc (hp (mm ms) i)) (m_data (mm ms)) = data (st ms)
       /\ map (hp (mm ms)) (m_init (mm ms)) = map (fun t => {| bc := Whole t; bfl := tflag fl t |}) ds
       /\ (if sg then m_data (mm ms) = m_cur (mm ms)
           else disjoint (m_data (mm ms)) (m_cur (mm ms)) /\ disjoint (m_data (mm ms)) (m_init (mm ms)))
       /\ (forall i, In i (m_user (mm ms) ++ m_init (mm ms) ++ m_cur (mm ms) ++ m_data (mm ms)) -> i < nx (mm ms)).
Proof. exact mem_coherent. Qed.

(* the stored initial copy, EITHER variant: after every history it holds the user's initial data (content and dtype), the
   next call leaves those buffers as they are, and whatever a call writes is a buffer of the current data, not of the stored
   copy, written in the variant ow = true only, by a detrend call with overwrite_data truthy, a linear type, a floating dtype *)
Theorem C14_mem_init_copy_intact : forall ow pc sg fs0 refs ds fl ms0, minit sg fs0 refs ds fl = POk ms0 ->
  forall ops ms, mrun ow pc sg ms0 ops = POk ms ->
    map (hp (mm ms)) (m_init (mm ms)) = map (fun t => {| bc := Whole t; bfl := tflag fl t |}) ds
    /\ forall o ms', mstep ow pc sg ms o = POk ms' ->
         map (hp (mm ms')) (m_init (mm ms)) = map (fun t => {| bc := Whole t; bfl := tflag fl t |}) ds
         /\ forall j, In j (e_writes (last_effect (mm ms'))) ->
              In j (m_cur (mm ms)) /\ ~ In j (m_init (mm ms)) /\ ow = true
              /\ exists kw, o = Detrend kw /\ kw_overwrite kw = true /\ kw_linear kw = true /\ bfl (hp (mm ms) j) = true.
Proof. exact mem_init_copy_intact. Qed.

(* either variant: as long as overwrite_data does not reach SciPy (ow = false) or no later detrend call asks for it, NO buffer
   that exists is written and every later write set is empty *)
Theorem C14_mem_no_overwrite_frozen : forall ow pc sg fs0 refs ds fl ms0, minit sg fs0 refs ds fl = POk ms0 ->
  forall ops more ms1 ms2, ow = false \/ Forall op_no_overwrite more ->
    mrun ow pc sg ms0 ops = POk ms1 -> mrun ow pc sg ms0 (ops ++ more) = POk ms2 ->
    nx (mm ms1) <= nx (mm ms2)
    /\ (forall i, i < nx (mm ms1) -> hp (mm ms2) i = hp (mm ms1) i)
    /\ exists l, m_log (mm ms2) = m_log (mm ms1) ++ l /\ Forall (fun e => e_writes e = []) l.
Proof. exact mem_no_overwrite_frozen. Qed.

(* either variant, in-place calls allowed: a buffer that is neither current data nor stored copy is never written again, and
   never becomes current data or stored copy again *)
Theorem C14_mem_frozen_outside : forall ow pc sg fs0 refs ds fl ms0, minit sg fs0 refs ds fl = POk ms0 ->
  forall ops more ms1 ms2, mrun ow pc sg ms0 ops = POk ms1 -> mrun ow pc sg ms0 (ops ++ more) = POk ms2 ->
    forall i, i < nx (mm ms1) -> ~ In i (m_cur (mm ms1)) -> ~ In i (m_init (mm ms1)) ->
      hp (mm ms2) i = hp (mm ms1) i /\ ~ In i (m_cur (mm ms2)) /\ ~ In i (m_init (mm ms2)).
Proof. exact mem_frozen_outside. Qed.

(* add_algorithms(alg): alg holds the very buffers the setup hands over at that moment (an alias, not a copy); nothing is
   read, allocated or written; what the other instances hold is untouched *)
Theorem C14_mem_bind : forall ow pc sg ms0 ops ms nm, mrun ow pc sg ms0 ops = POk ms ->
  exists ms', mrun ow pc sg ms0 (ops ++ [AddAlg nm]) = POk ms'
    /\ malg_lookup nm (m_bound (mm ms')) = Some (m_data (mm ms))
    /\ (forall nm', nm' <> nm -> malg_lookup nm' (m_bound (mm ms')) = malg_lookup nm' (m_bound (mm ms)))
    /\ hp (mm ms') = hp (mm ms) /\ nx (mm ms') = nx (mm ms) /\ m_user (mm ms') = m_user (mm ms)
    /\ m_init (mm ms') = m_init (mm ms) /\ m_cur (mm ms') = m_cur (mm ms) /\ m_data (mm ms') = m_data (mm ms)
    /\ last_effect (mm ms') = {| e_reads := []; e_allocs := []; e_writes := [] |}.
Proof. exact mem_bind. Qed.

Theorem C14_mem_bound_stable : forall ow pc sg fs0 refs ds fl ms0, minit sg fs0 refs ds fl = POk ms0 ->
  forall ops more ms1 ms2, mrun ow pc sg ms0 ops = POk ms1 -> mrun ow pc sg ms0 (ops ++ more) = POk ms2 ->
    exists l, m_bound (mm ms2) = m_bound (mm ms1) ++ l.
Proof. exact mem_bound_stable. Qed.

(* MultiSetup_PreGER, either variant: the buffers handed over at any moment hold the ref/mov split of the data of that moment
   and are never written by any later call, in-place detrending included *)
Theorem C14_mem_preger_alg_frozen : forall ow pc fs0 refs ds fl ms0, minit false fs0 refs ds fl = POk ms0 ->
  forall ops more ms1 ms2, mrun ow pc false ms0 ops = POk ms1 -> mrun ow pc false ms0 (ops ++ more) = POk ms2 ->
    map (fun i => bc (hp (mm ms1) i)) (m_data (mm ms1)) = data (st ms1)
    /\ forall i, In i (m_data (mm ms1)) ->
         hp (mm ms2) i = hp (mm ms1) i /\ ~ In i (m_cur (mm ms2)) /\ ~ In i (m_init (mm ms2)).
Proof. exact mem_preger_alg_frozen. Qed.

(* either variant: the user's arrays are the same buffers throughout, and one that is no longer among the current data (after
   any decimation, filtering, rollback, or copying detrend) is never written again and never current data again *)
Theorem C14_mem_user_frozen_once_left : forall ow pc sg fs0 refs ds fl ms0, minit sg fs0 refs ds fl = POk ms0 ->
  forall ops more ms1 ms2, mrun ow pc sg ms0 ops = POk ms1 -> mrun ow pc sg ms0 (ops ++ more) = POk ms2 ->
    m_user (mm ms2) = m_user (mm ms0)
    /\ forall u, In u (m_user (mm ms0)) -> ~ In u (m_cur (mm ms1)) -> hp (mm ms2) u = hp (mm ms1) u /\ ~ In u (m_cur (mm ms2)).
Proof. exact mem_user_frozen_once_left. Qed.

(* rollback (either variant) installs as current data the SAME buffers that were the stored copy (no copy back), stores a NEW
   deepcopy of them (fresh ids) as the stored copy, writes nothing; both hold the user's initial data; they are disjoint *)
Theorem C14_mem_rollback_alias : forall ow pc sg fs0 refs ds fl ms0, minit sg fs0 refs ds fl = POk ms0 ->
  forall ops ms ms', mrun ow pc sg ms0 ops = POk ms -> mrun ow pc sg ms0 (ops ++ [Rollback]) = POk ms' ->
    m_cur (mm ms') = m_init (mm ms)
    /\ m_init (mm ms') = seq (nx (mm ms)) (List.length (m_init (mm ms)))
    /\ (forall i, (i < nx (mm ms))%nat -> hp (mm ms') i = hp (mm ms) i)
    /\ map (hp (mm ms')) (m_cur (mm ms')) = map (fun t => {| bc := Whole t; bfl := tflag fl t |}) ds
    /\ map (hp (mm ms')) (m_init (mm ms')) = map (fun t => {| bc := Whole t; bfl := tflag fl t |}) ds
    /\ disjoint (m_init (mm ms')) (m_cur (mm ms'))
    /\ e_writes (last_effect (mm ms')) = [].
Proof. exact mem_rollback_alias. Qed.

(* REPAIRED DEFECT (KNOWN_FINDINGS.txt: fixed f6a83e1), kept as a theorem about the variant ow = true: when overwrite_data
   reaches SciPy the immutability clause is false.  Witness 1: SingleSetup on a 600x3 float array, add_algorithms,
   detrend_data(overwrite_data=True): buffer 0 is the user's array, the current data AND what the algorithm holds; the call
   writes it; it then holds the detrended data; the stored copy is intact.  Witness 2: PreGER with a float and an integer
   dataset: the float user array is written, the integer one is not; the algorithm's ref/mov buffers keep the undetrended split.
   (C14_mem_nothing_ever_written is the statement that holds of the present code on the same histories.) *)
Theorem C14_mem_overwrite_inplace_variant_refuted :
  (exists ms0 ms, minit true (Q2Qc (100#1)) [] [Init 0 600 3] (fun _ => true) = POk ms0
     /\ mrun true false true ms0 [AddAlg 1; Detrend ow_kw] = POk ms
     /\ m_user (mm ms) = [0] /\ malg_lookup 1 (m_bound (mm ms)) = Some [0] /\ m_cur (mm ms) = [0]
     /\ e_writes (last_effect (mm ms)) = [0]
     /\ bc (hp (mm ms0) 0) = Whole (Init 0 600 3) /\ bc (hp (mm ms) 0) = Whole (Det ow_kw (Init 0 600 3))
     /\ map (hp (mm ms)) (m_init (mm ms)) = [{| bc := Whole (Init 0 600 3); bfl := true |}])
  /\ (exists ms0 ms, minit false (Q2Qc (100#1)) [[0]; [1]] [Init 0 600 3; Init 1 640 2] (fun k => Nat.eqb k 0) = POk ms0
     /\ mrun true false false ms0 [AddAlg 1; Detrend ow_kw] = POk ms
     /\ m_user (mm ms) = [0; 1] /\ e_writes (last_effect (mm ms)) = [0]
     /\ map (fun i => bc (hp (mm ms) i)) (m_user (mm ms)) = [Whole (Det ow_kw (Init 0 600 3)); Whole (Init 1 640 2)]
     /\ malg_lookup 1 (m_bound (mm ms)) = Some [4; 5]
     /\ map (fun i => bc (hp (mm ms) i)) [4; 5] = [Split (Init 0 600 3) [0] [1; 2]; Split (Init 1 640 2) [1] [0]])%nat.
Proof. exact mem_overwrite_inplace_variant_refuted. Qed.
Local Close Scope nat_scope.

Print Assumptions C14_prep_composes.
Print Assumptions C14_prep_rebind.
Print Assumptions C14_prep_bound_stable.
Print Assumptions C14_prep_metadata.
Print Assumptions C14_prep_rollback.
Print Assumptions C14_prep_kw_total.
Print Assumptions C14_prep_kw_unknown.
Print Assumptions C14_prep_failed_call_noop.
Print Assumptions C14_prep_init_immutable.
Print Assumptions C14_present_same_but_T.
Print Assumptions C14_single_T_refuted.
Print Assumptions C14_printer_term_eqb_sound.
Print Assumptions C14_mem_same_histories.
Print Assumptions C14_mem_coherent.
Print Assumptions C14_mem_init_copy_intact.
Print Assumptions C14_mem_no_overwrite_frozen.
Print Assumptions C14_mem_frozen_outside.
Print Assumptions C14_mem_bind.
Print Assumptions C14_mem_bound_stable.
Print Assumptions C14_mem_preger_alg_frozen.
Print Assumptions C14_mem_user_frozen_once_left.
Print Assumptions C14_mem_rollback_alias.
Print Assumptions C14_mem_overwrite_inplace_variant_refuted.
Print Assumptions C14_mem_nothing_ever_written.

(* non-vacuity: a PreGER object with two datasets (800x3 with references [2;0], 840x4 with references [1;3]) at 1000 Hz can be
   built, and the documentation's own history  filter -> decimate(ftype="fir") -> add_algorithms(alg) -> detrend -> rollback -> decimate
   -> add_algorithms(the same alg) runs without error; its final state is the single decimation by 2 of the initial data at 500 Hz,
   and that is what the re-added algorithm holds. *)
Example C14_example :
  let fs0 := Q2Qc (1000#1) in
  let ds := inits [(800,3);(840,4)]%nat in
  let refs := [[2;0];[1;3]]%nat in
  let ops := [Filter (W2 (Q2Qc (1#2)) (Q2Qc (2#1))) 2 "bandpass"; Decimate 3 [("ftype", VStr "fir")]; AddAlg 7;
              Detrend [("type", VStr "constant")]; Rollback; Decimate 2 []; AddAlg 7] in
  Forall op_documented ops /\
  exists s0 s, init_state false fs0 refs ds = POk s0 /\ run false false s0 ops = POk s
    /\ cur s = [Dec 2 [] (Init 0 800 3); Dec 2 [] (Init 1 840 4)]
    /\ data s = [Split (Dec 2 [] (Init 0 800 3)) [2;0] [1]; Split (Dec 2 [] (Init 1 840 4)) [1;3] [0;2]]%nat
    /\ Ndats s = [400; 420]%nat
    /\ map (fun x : Qc => this x) [fs s; dt s] = [500#1; 1#500]
    /\ map (fun x : Qc => this x) (Ts s) = [4#5; 21#25]
    /\ List.length (bound s) = 2%nat
    /\ alg_lookup 7 (bound s) = Some (data s, fs s).
Proof.
  cbv zeta. split; [repeat constructor|].
  eexists. eexists. split; [vm_compute; reflexivity|]. split; [vm_compute; reflexivity|].
  vm_compute. repeat split; reflexivity.
Qed.

(* non-vacuity of the failing-call theorem: 64 samples decimated by 3 leave 22, on which SciPy refuses the IIR decimation by 2
   (padding needs more than 27): the refused call and an undocumented keyword change nothing, the later detrend applies *)
Example C14_example_failed_calls :
  let ops := [Decimate 3 []; ScipyRaises; Detrend [("typ", VStr "linear")]; Detrend []] in
  exists s0, init_state true (Q2Qc (100#1)) [] (inits [(64,3)]%nat) = POk s0
    /\ succ_ops false true s0 ops = [Decimate 3 []; Detrend []]
    /\ cur (run_keep false true s0 ops) = [Det [] (Dec 3 [] (Init 0 64 3))]
    /\ Ndats (run_keep false true s0 ops) = [22]%nat
    /\ map (fun x : Qc => this x) [fs (run_keep false true s0 ops); dt (run_keep false true s0 ops)] = [100#3; 3#100].
Proof. cbv zeta. eexists. split; [vm_compute; reflexivity|]. vm_compute. repeat split; reflexivity. Qed.

(* non-vacuity of the memory theorems, present code (ow = false): a PreGER object on a float64 (buffer 0) and an int16 (buffer 1)
   record; the history add_algorithms(7) -> detrend_data(overwrite_data=True) -> rollback -> detrend_data(overwrite_data=True) ->
   decimate_data(2) runs and writes NOTHING: both detrend calls put their results in fresh buffers (6, 7 and 14, 15); the user's
   arrays and the stored copy (fresh buffers 10, 11 after the rollback; 2, 3 are then the current data) hold the initial data;
   algorithm 7 still holds buffers 4, 5 with the split of the initial data.  Under the variant ow = true the same history writes
   the user's float array (buffer 0) and then buffer 2. *)
Example C14_example_mem :
  let ops := [AddAlg 7; Detrend ow_kw; Rollback; Detrend ow_kw; Decimate 2 []] in
  exists ms0 ms msv, minit false (Q2Qc (100#1)) [[0; 1]; [1]]%nat (inits [(600, 3); (640, 2)]%nat) (fun k => Nat.eqb k 0) = POk ms0
    /\ mrun false false false ms0 ops = POk ms
    /\ m_user (mm ms0) = [0; 1]%nat /\ m_cur (mm ms0) = [0; 1]%nat /\ m_init (mm ms0) = [2; 3]%nat /\ m_data (mm ms0) = [4; 5]%nat
    /\ map e_writes (m_log (mm ms)) = [[]; []; []; []; []; []]%nat
    /\ m_init (mm ms) = [10; 11]%nat /\ malg_lookup 7 (m_bound (mm ms)) = Some [4; 5]%nat
    /\ map (fun i => bc (hp (mm ms) i)) [0; 1; 2; 3; 10; 11; 4]%nat
       = [Whole (Init 0 600 3); Whole (Init 1 640 2); Whole (Init 0 600 3); Whole (Init 1 640 2); Whole (Init 0 600 3); Whole (Init 1 640 2);
          Split (Init 0 600 3) [0; 1] [2]]%nat
    /\ map (fun i => bc (hp (mm ms) i)) (m_cur (mm ms))
       = [Whole (Dec 2 [] (Det ow_kw (Init 0 600 3))); Whole (Dec 2 [] (Det ow_kw (Init 1 640 2)))]
    /\ mrun true false false ms0 ops = POk msv
    /\ map e_writes (m_log (mm msv)) = [[]; []; [0]; []; [2]; []]%nat
    /\ map (fun i => bc (hp (mm msv) i)) [0; 1]%nat = [Whole (Det ow_kw (Init 0 600 3)); Whole (Init 1 640 2)].
Proof.
  cbv zeta. eexists. eexists. eexists. split; [vm_compute; reflexivity|]. split; [vm_compute; reflexivity|].
  do 9 (split; [vm_compute; reflexivity|]). split; [vm_compute; reflexivity|]. vm_compute. split; reflexivity.
Qed.
