(* C14 - Preprocessing composes, metadata stays truthful, rollback restores the start.
   Statements only: each theorem is closed by [exact] of a lemma of Proofs/P_prep.v.
   sg = true: SingleSetup, sg = false: MultiSetup_PreGER;  [run false] is the property-conforming model (it is what
   MultiSetup_PreGER does, and what SingleSetup does except for the stored duration), [run true] the model of the
   present SingleSetup duration formula.  Every theorem quantifies over ALL histories [ops]. *)
From Coq Require Import List ZArith QArith Qcanon String Bool.
From PyOMA.Model Require Import M_prep.
From PyOMA.Proofs Require Import P_prep.
Import ListNotations.
Local Open Scope string_scope.
Local Open Scope list_scope.

(* the current data are the operations issued after the last rollback, applied in order to the initial data (the
   filter designed for the sampling frequency current at that moment); the stored split is the ref/mov split of exactly
   these data; add_algorithms hands over exactly that split and that fs, and changes nothing else *)
Theorem C14_prep_composes : forall sg fs0 refs ds s0, init_state sg fs0 refs ds = POk s0 ->
  forall ops s, run false sg s0 ops = POk s ->
    (cur s, fs s) = apply_ops (since_rb ops) (ds, fs0)
    /\ mk_data sg refs (cur s) = POk (data s)
    /\ forall nm, exists s', run false sg s0 (ops ++ [AddAlg nm]) = POk s'
         /\ bound s' = bound s ++ [(nm, (data s, fs s))]
         /\ cur s' = cur s /\ data s' = data s /\ fs s' = fs s /\ dt s' = dt s /\ Ndats s' = Ndats s /\ Ts s' = Ts s.
Proof. exact prep_composes. Qed.

(* add_algorithms(alg) re-binds: afterwards the instance nm holds the data and fs of the setup at that moment, whether or
   not it had been added before (either model); what every other instance holds, and the setup itself, are untouched *)
Theorem C14_prep_rebind : forall pc sg s0 ops s nm, run pc sg s0 ops = POk s ->
  exists s', run pc sg s0 (ops ++ [AddAlg nm]) = POk s'
    /\ alg_lookup nm (bound s') = Some (data s, fs s)
    /\ (forall nm', nm' <> nm -> alg_lookup nm' (bound s') = alg_lookup nm' (bound s))
    /\ cur s' = cur s /\ data s' = data s /\ fs s' = fs s /\ dt s' = dt s /\ Ndats s' = Ndats s /\ Ts s' = Ts s.
Proof. exact prep_rebind. Qed.

(* what an algorithm received stays in the log unchanged, whatever is called afterwards (either model) *)
Theorem C14_prep_bound_stable : forall pc sg s0 ops more s s',
  run pc sg s0 ops = POk s -> run pc sg s0 (ops ++ more) = POk s' -> exists l, bound s' = bound s ++ l.
Proof. exact prep_bound_stable. Qed.

(* fs = fs0 / product of the decimation factors since the last rollback, dt = 1/fs, sample counts = array lengths,
   duration = samples x dt *)
Theorem C14_prep_metadata : forall sg fs0 refs ds s0, fs0 <> 0%Qc -> init_state sg fs0 refs ds = POk s0 ->
  forall ops s, run false sg s0 ops = POk s ->
    fs s = (fs0 / qprod (since_rb ops))%Qc
    /\ (dt s * fs s = 1)%Qc
    /\ Ndats s = map tlen (cur s)
    /\ Ts s = map (fun n => (Qc_of_nat n * dt s)%Qc) (Ndats s).
Proof. exact prep_metadata. Qed.

(* rollback never fails and restores data, split, fs, dt, sample counts, durations (and leaves the initial copy and
   the algorithms' data alone) *)
Theorem C14_prep_rollback : forall sg fs0 refs ds s0, init_state sg fs0 refs ds = POk s0 ->
  forall ops s1, run false sg s0 ops = POk s1 ->
    exists s, run false sg s0 (ops ++ [Rollback]) = POk s
      /\ cur s = ds /\ data s = data s0 /\ mk_data sg refs ds = POk (data s)
      /\ fs s = fs0 /\ dt s = (/ fs0)%Qc /\ Ndats s = map tlen ds
      /\ Ts s = map (fun n => (Qc_of_nat n * / fs0)%Qc) (map tlen ds)
      /\ ref s = refs /\ init s = ds /\ init_fs s = fs0 /\ init_ref s = refs
      /\ bound s = bound s1.
Proof. exact prep_rollback. Qed.

(* a history whose keywords are all documented ones (n, ftype, zero_phase / type, bp, overwrite_data) never raises *)
Theorem C14_prep_kw_total : forall sg fs0 refs ds s0, init_state sg fs0 refs ds = POk s0 ->
  forall ops, Forall op_documented ops -> exists s, run false sg s0 ops = POk s.
Proof. exact run_total. Qed.

(* ... and an undocumented keyword is a TypeError (so the theorem above is not vacuous totality) *)
Theorem C14_prep_kw_unknown : forall pc sg s,
  (forall q kw, kw_ok dec_names kw = false -> step pc sg s (Decimate q kw) = PErr TypeErr) /\
  (forall kw, kw_ok det_names kw = false -> step pc sg s (Detrend kw) = PErr TypeErr).
Proof. exact kw_unknown_typeerr. Qed.

(* a call that raises (undocumented keyword: TypeError; a call SciPy refuses: marked [ScipyRaises]) leaves EVERY component
   of the state as it was, and the session continues: the state reached by a history containing failing calls is the state
   reached by the history of its successful calls alone - to which all the theorems of this file apply (either model) *)
Theorem C14_prep_failed_call_noop : forall pc sg,
  (forall s o e, step pc sg s o = PErr e -> step_keep pc sg s o = (Some e, s)) /\
  (forall s, step_keep pc sg s ScipyRaises = (Some ValueErr, s)) /\
  (forall ops s, run pc sg s (succ_ops pc sg s ops) = POk (run_keep pc sg s ops)
                 /\ Forall (fun o => o <> ScipyRaises) (succ_ops pc sg s ops)).
Proof.
  intros pc sg. split; [exact (failed_call_noop pc sg)|]. split; [exact (scipy_raises_noop pc sg)|].
  intros ops s. split; [exact (run_keep_succ pc sg ops s)|exact (succ_ops_ok pc sg ops s)].
Qed.

(* the stored initial copy (data, fs, reference layout) is the same after every history *)
Theorem C14_prep_init_immutable : forall sg fs0 refs ds s0, init_state sg fs0 refs ds = POk s0 ->
  forall ops s, run false sg s0 ops = POk s -> init s = ds /\ init_fs s = fs0 /\ init_ref s = refs /\ ref s = refs.
Proof. exact prep_init_immutable. Qed.

(* the model of the present SingleSetup code differs from the conforming one in the stored durations only, so the
   five theorems above hold of it for every component but Ts *)
Theorem C14_present_same_but_T : forall sg s0 ops s, run true sg s0 ops = POk s ->
  exists s', run false sg s0 ops = POk s' /\ same_but_T s s'.
Proof. exact present_same_but_T. Qed.

(* KNOWN FINDING (KNOWN_FINDINGS.txt, key C14:SingleSetup.decimate_data:T): the present SingleSetup.decimate_data
   stores T = Ndat*dt/q; witness: 600 samples at 100 Hz decimated by 4 -> 150 samples, dt = 1/25, T stored 3/2, not 6 *)
Theorem C14_single_T_refuted : exists fs0 ds s0 ops s,
  fs0 <> 0%Qc /\ init_state true fs0 [] ds = POk s0 /\ run true true s0 ops = POk s
  /\ Ts s <> map (fun n => (Qc_of_nat n * dt s)%Qc) (Ndats s).
Proof. exact single_T_refuted. Qed.

(* the abbreviations of the model's printers ("=", "^k n c") rest on a sound structural comparison *)
Theorem C14_printer_term_eqb_sound : forall a b, term_eqb a b = true -> a = b.
Proof. exact term_eqb_eq. Qed.

Print Assumptions C14_prep_composes.
Print Assumptions C14_prep_rebind.
Print Assumptions C14_prep_bound_stable.
Print Assumptions C14_prep_metadata.
Print Assumptions C14_prep_rollback.
Print Assumptions C14_prep_kw_total.
Print Assumptions C14_prep_kw_unknown.
Print Assumptions C14_prep_failed_call_noop.
Print Assumptions C14_prep_init_immutable.
Print Assumptions C14_present_same_but_T.
Print Assumptions C14_single_T_refuted.
Print Assumptions C14_printer_term_eqb_sound.

(* non-vacuity: a PreGER object with two datasets (800x3 with references [2;0], 840x4 with references [1;3]) at 1000 Hz can be
   built, and the documentation's own history  filter -> decimate(ftype="fir") -> add_algorithms(alg) -> detrend -> rollback -> decimate
   -> add_algorithms(the same alg) runs without error; its final state is the single decimation by 2 of the initial data at 500 Hz,
   and that is what the re-added algorithm holds. *)
Example C14_example :
  let fs0 := Q2Qc (1000#1) in
  let ds := inits [(800,3);(840,4)]%nat in
  let refs := [[2;0];[1;3]]%nat in
  let ops := [Filter (W2 (Q2Qc (1#2)) (Q2Qc (2#1))) 2 "bandpass"; Decimate 3 [("ftype", VStr "fir")]; AddAlg 7;
              Detrend [("type", VStr "constant")]; Rollback; Decimate 2 []; AddAlg 7] in
  Forall op_documented ops /\
  exists s0 s, init_state false fs0 refs ds = POk s0 /\ run false false s0 ops = POk s
    /\ cur s = [Dec 2 [] (Init 0 800 3); Dec 2 [] (Init 1 840 4)]
    /\ data s = [Split (Dec 2 [] (Init 0 800 3)) [2;0] [1]; Split (Dec 2 [] (Init 1 840 4)) [1;3] [0;2]]%nat
    /\ Ndats s = [400; 420]%nat
    /\ map (fun x : Qc => this x) [fs s; dt s] = [500#1; 1#500]
    /\ map (fun x : Qc => this x) (Ts s) = [4#5; 21#25]
    /\ List.length (bound s) = 2%nat
    /\ alg_lookup 7 (bound s) = Some (data s, fs s).
Proof.
  cbv zeta. split; [repeat constructor|].
  eexists. eexists. split; [vm_compute; reflexivity|]. split; [vm_compute; reflexivity|].
  vm_compute. repeat split; reflexivity.
Qed.

(* non-vacuity of the failing-call theorem: 64 samples decimated by 3 leave 22, on which SciPy refuses the IIR decimation by 2
   (padding needs more than 27): the refused call and an undocumented keyword change nothing, the later detrend applies *)
Example C14_example_failed_calls :
  let ops := [Decimate 3 []; ScipyRaises; Detrend [("typ", VStr "linear")]; Detrend []] in
  exists s0, init_state true (Q2Qc (100#1)) [] (inits [(64,3)]%nat) = POk s0
    /\ succ_ops false true s0 ops = [Decimate 3 []; Detrend []]
    /\ cur (run_keep false true s0 ops) = [Det [] (Dec 3 [] (Init 0 64 3))]
    /\ Ndats (run_keep false true s0 ops) = [22]%nat
    /\ map (fun x : Qc => this x) [fs (run_keep false true s0 ops); dt (run_keep false true s0 ops)] = [100#3; 3#100].
Proof. cbv zeta. eexists. split; [vm_compute; reflexivity|]. vm_compute. repeat split; reflexivity. Qed.
