(* C15 - Runs are gated, deterministic, isolated, persistent; PoSER validates its inputs.
   Statements only: each theorem is closed by [exact] of a lemma of Proofs/P_orch.v.
   Model (Model/M_orch.v): a setup = data, fs and an insertion-ordered dict name -> algorithm; an algorithm = class,
   parameters, binding (data, fs handed over by add_algorithms), result, modes.  A result is the uninterpreted term
   [Run cls params data fs].  [step s o = (exception or none, state after)].  [exec h s] = state after the call history h. *)
From Coq Require Import String List Arith Bool Lia.
From PyOMA.Model Require Import M_orch M_orch2.
From PyOMA.Proofs Require Import P_orch P_orch2 P_orch12.
Import ListNotations.

(* ---- gates: an exception, and nothing at all is stored (the whole setup, run parameters included, is unchanged) *)
Theorem C15_gate_run : forall s a x, lookup a (s_algs s) = Some x -> (a_bound x = None \/ a_params x = None) ->
  step s (RunByName a) = (Some ValueErr, s).
Proof. exact gate_run. Qed.

Theorem C15_gate_run_unknown : forall s a, lookup a (s_algs s) = None -> step s (RunByName a) = (Some KeyErr, s).
Proof. exact gate_run_unknown. Qed.

(* ... and the gate is exact: the run goes through precisely when data, fs and parameters are there *)
Theorem C15_run_ok_iff : forall s a, fst (step s (RunByName a)) = None <->
  exists x p d f, lookup a (s_algs s) = Some x /\ a_params x = Some p /\ a_bound x = Some (d,f).
Proof. exact run_ok_iff. Qed.

Theorem C15_gate_mpe : forall s a x args, lookup a (s_algs s) = Some x -> a_result x = None ->
  step s (Mpe a args) = (Some ValueErr, s).
Proof. exact gate_mpe. Qed.

Theorem C15_mpe_ok_iff : forall s a args, fst (step s (Mpe a args)) = None <->
  exists x r, lookup a (s_algs s) = Some x /\ a_result x = Some r.
Proof. exact mpe_ok_iff. Qed.

(* over histories: after ANY history without a run_by_name(a) / run_all, mpe(a) raises and leaves the state alone *)
Theorem C15_gate_mpe_history : forall d0 f0 h a args, (forall o, In o h -> is_run o a = false) ->
  let s := exec h (new_setup d0 f0) in
  step s (Mpe a args) = (Some (match lookup a (s_algs s) with None => KeyErr | Some _ => ValueErr end), s).
Proof. exact never_run_mpe_gated. Qed.

(* every call but run_all is atomic; a raising run_all has stored the results of the algorithms before the failing one
   and has touched neither the failing one nor those after it *)
Theorem C15_exception_stores_nothing : forall s o, o <> RunAll -> fst (step s o) <> None -> snd (step s o) = s.
Proof. exact err_unchanged. Qed.

Theorem C15_run_all_exception : forall s e, fst (step s RunAll) = Some e ->
  exists pre n x post, s_algs s = pre ++ (n,x)::post /\ run_alg x = inl e /\ e = ValueErr /\
    (a_bound x = None \/ a_params x = None) /\
    (forall ny, In ny pre -> exists y', run_alg (snd ny) = inr y') /\
    snd (step s RunAll) = set_algs s (map ran_or_same pre ++ (n,x)::post).
Proof. exact run_all_err. Qed.

(* ---- the result is a function of the algorithm's own inputs, for every history on a new setup:
   class, parameters and binding are those of the latest add (reference semantics [last_add], which never looks at a
   result), and a stored result is exactly Run of them. *)
Theorem C15_binding_is_last_add : forall d0 f0 h a,
  option_map binding_of (lookup a (s_algs (exec h (new_setup d0 f0)))) = last_add d0 f0 h a.
Proof. exact binding_is_last_add. Qed.

Theorem C15_result_function_of_own_inputs : forall d0 f0 h a x r,
  lookup a (s_algs (exec h (new_setup d0 f0))) = Some x -> a_result x = Some r ->
  exists c p d f, last_add d0 f0 h a = Some (c, Some p, Some (d,f)) /\
                  a_cls x = c /\ a_params x = Some p /\ a_bound x = Some (d,f) /\ r = Run c p d f.
Proof. exact result_function_of_own_inputs. Qed.

Theorem C15_modes_need_result : forall d0 f0 h a x m,
  lookup a (s_algs (exec h (new_setup d0 f0))) = Some x -> a_mpe x = Some m ->
  exists r args, a_result x = Some r /\ m = Extract r args.
Proof. exact modes_need_result. Qed.

(* ---- isolation: a call that does not name a leaves a's entry (parameters, binding, result, modes) untouched;
   only preprocessing changes the setup's data / fs; nothing but add(a) changes a's class, parameters, binding *)
Theorem C15_frame : forall s o a, targets o a = false -> lookup a (s_algs (snd (step s o))) = lookup a (s_algs s).
Proof. exact frame. Qed.

Theorem C15_frame_data : forall s o, (forall d f, o <> Rebind d f) ->
  s_data (snd (step s o)) = s_data s /\ s_fs (snd (step s o)) = s_fs s.
Proof. exact frame_data. Qed.

Theorem C15_binding_frame : forall s o a, is_add o a = false ->
  option_map binding_of (lookup a (s_algs (snd (step s o)))) = option_map binding_of (lookup a (s_algs s)).
Proof. exact step_keeps_binding. Qed.

(* ---- determinism / order independence: once a holds a result, no history without add(a) - other algorithms running,
   run_all, repeated runs, mpe, preprocessing, save/load - changes that result *)
Theorem C15_result_stable : forall h s a x r, wf_setup s -> (forall o, In o h -> is_add o a = false) ->
  lookup a (s_algs s) = Some x -> a_result x = Some r ->
  exists x', lookup a (s_algs (exec h s)) = Some x' /\ a_result x' = Some r /\ binding_of x' = binding_of x.
Proof. exact result_stable. Qed.

Theorem C15_reachable_wf : forall d0 f0 h, wf_setup (exec h (new_setup d0 f0)).
Proof. exact reachable_wf. Qed.

Theorem C15_idempotent_rerun : forall s a, fst (step s (RunByName a)) = None ->
  step (snd (step s (RunByName a))) (RunByName a) = (None, snd (step s (RunByName a))).
Proof. exact idempotent_rerun. Qed.

Theorem C15_idempotent_run_all : forall s, fst (step s RunAll) = None ->
  step (snd (step s RunAll)) RunAll = (None, snd (step s RunAll)).
Proof. exact idempotent_run_all. Qed.

(* ---- run_all = run_by_name over the names in dict order, stopping at the first exception *)
Theorem C15_run_all_is_fold : forall s, NoDup (map fst (s_algs s)) -> step s RunAll = run_names s (map fst (s_algs s)).
Proof. exact run_all_is_fold. Qed.

Theorem C15_run_all_is_fold_reachable : forall d0 f0 h,
  let s := exec h (new_setup d0 f0) in step s RunAll = run_names s (map fst (s_algs s)).
Proof. exact run_all_is_fold_reachable. Qed.

(* ---- persistence: save + load is the identity, anywhere in a history *)
Theorem C15_saveload_id : forall s, step s SaveLoad = (None, s).
Proof. exact saveload_id. Qed.

Theorem C15_saveload_anywhere : forall h1 h2 s, exec (h1 ++ SaveLoad :: h2) s = exec (h1 ++ h2) s /\
  trace (h1 ++ SaveLoad :: h2) s = trace h1 s ++ None :: trace h2 (exec h1 s).
Proof. exact saveload_anywhere. Qed.

(* ---- PoSER: accepted iff at least two setups, none without algorithms, every type list equal to the first one in
   order, one name per algorithm, every algorithm run, every algorithm with modes extracted *)
Theorem C15_poser_ok_iff : forall ss names, poser_ok ss names = true <->
  2 <= length ss /\
  (forall s, In s ss -> s <> []) /\
  (forall s, In s ss -> types_of s = types_of (hd [] ss)) /\
  length names = length (hd [] ss) /\
  (forall s, In s ss -> forall c st, In (c,st) s -> st <> NotRun) /\
  (forall s, In s ss -> forall c st, In (c,st) s -> st = Extracted).
Proof. exact poser_ok_iff. Qed.

(* one name per algorithm = as many list ENTRIES as algorithms: only the length of the name list matters, so a list with
   repeats is judged by its number of entries (["one";"one"] fits two algorithms, ["one";"one";"two"] does not) *)
Theorem C15_poser_counts_name_entries : forall ss n1 n2, length n1 = length n2 -> poser_check ss n1 = poser_check ss n2.
Proof. exact poser_check_names_length. Qed.

Theorem C15_state_of_extracted : forall x,
  state_of x = Extracted <-> (exists r, a_result x = Some r) /\ (exists m, a_mpe x = Some m).
Proof. exact state_of_extracted. Qed.

(* ================================================================================================================
   The instance machine (Model/M_orch2.v): algorithm INSTANCES the caller keeps a handle on, a dict name -> instance
   (BaseSetup as inherited by SingleSetup and MultiSetup_PreGER), set_run_params, add_algorithms on one or several
   instances (the same one again, two with one name), rollback.  [mstep s o = (exception or none, state after)],
   [mexec h s] = state after the call history h, [new_mstate d f heap] = a new setup around instances constructed before. *)

(* ---- gates: an exception, and the whole state - every instance, the dict, the data - is as before *)
Theorem C15_inst_gate_run : forall s a i x, dlookup a (m_dict s) = Some i -> nth_error (m_heap s) i = Some x ->
  (i_data x = None \/ i_fs x = None \/ i_params x = None) -> mstep s (MRun a) = (Some ValueE, s).
Proof. exact mgate_run. Qed.

Theorem C15_inst_gate_run_unknown : forall s a, dlookup a (m_dict s) = None -> mstep s (MRun a) = (Some KeyE, s).
Proof. exact mgate_run_unknown. Qed.

Theorem C15_inst_run_ok_iff : forall s a, fst (mstep s (MRun a)) = None <->
  exists i x p d f, dlookup a (m_dict s) = Some i /\ nth_error (m_heap s) i = Some x /\
                    i_params x = Some p /\ i_data x = Some d /\ i_fs x = Some f.
Proof. exact mrun_ok_iff. Qed.

Theorem C15_inst_gate_mpe : forall s a i x args, dlookup a (m_dict s) = Some i -> nth_error (m_heap s) i = Some x ->
  i_result x = None -> mstep s (MMpe a args) = (Some ValueE, s).
Proof. exact mgate_mpe. Qed.

(* after ANY history without run_by_name(a) / run_all on instances constructed beforehand - whatever was added, re-added,
   given new parameters, rolled back - mpe(a) raises and leaves the state alone *)
Theorem C15_inst_gate_mpe_history : forall d0 f0 heap h a args, (forall j y, nth_error heap j = Some y -> fresh_inst y) ->
  (forall o, In o h -> is_mrun o a = false) ->
  let s := mexec h (new_mstate d0 f0 heap) in
  mstep s (MMpe a args) = (Some (match dlookup a (m_dict s) with None => KeyE | Some _ => ValueE end), s).
Proof. exact mnever_run_mpe_gated. Qed.

Theorem C15_inst_never_run_no_result : forall d0 f0 heap h i x, (forall j y, nth_error heap j = Some y -> fresh_inst y) ->
  nth_error heap i = Some x -> (forall o, In o h -> is_mrun o (i_name x) = false) ->
  exists x', nth_error (m_heap (mexec h (new_mstate d0 f0 heap))) i = Some x' /\ i_result x' = None /\ ident_of x' = ident_of x.
Proof. exact mnever_run_no_result. Qed.

(* every call but run_all and add_algorithms is atomic ... *)
Theorem C15_inst_exception_stores_nothing : forall s o, o <> MRunAll -> (forall l, o <> MAdd l) ->
  fst (mstep s o) <> None -> snd (mstep s o) = s.
Proof. exact merr_unchanged. Qed.

(* ... add_algorithms that raises (a setup whose fs is None) has stored no parameter, result or mode and has not touched the
   dict: _set_data overwrote data and fs of the FIRST instance handed over, nothing else ... *)
Theorem C15_inst_add_exception : forall s l e, fst (mstep s (MAdd l)) = Some e ->
  m_dict (snd (mstep s (MAdd l))) = m_dict s /\ m_data (snd (mstep s (MAdd l))) = m_data s /\ m_fs (snd (mstep s (MAdd l))) = m_fs s /\
  (forall j, option_map stored_of (nth_error (m_heap (snd (mstep s (MAdd l)))) j) = option_map stored_of (nth_error (m_heap s) j)) /\
  (forall j, j <> hd 0 l -> nth_error (m_heap (snd (mstep s (MAdd l)))) j = nth_error (m_heap s) j) /\
  (e = NameE /\ snd (mstep s (MAdd l)) = s \/ e = TypeE /\ m_fs s = None).
Proof. exact madd_exception. Qed.

(* ... and run_all that raises has run exactly the dict entries before the failing one *)
Theorem C15_inst_run_all_exception : forall s e, fst (mstep s MRunAll) = Some e ->
  exists pre n i post, m_dict s = pre ++ (n,i) :: post /\
    run_entries pre (m_heap s) = (None, m_heap (snd (mstep s MRunAll))) /\
    snd (mstep s MRunAll) = set_heap s (m_heap (snd (mstep s MRunAll))) /\
    (nth_error (m_heap (snd (mstep s MRunAll))) i = None /\ e = KeyE \/
     exists x, nth_error (m_heap (snd (mstep s MRunAll))) i = Some x /\ run_inst x = inl e /\ e = ValueE /\
               (i_data x = None \/ i_fs x = None \/ i_params x = None)).
Proof. exact mrun_all_exception. Qed.

(* ---- the result is a function of the instance's own inputs AT ITS LATEST RUN, over every history: after any history h1, a
   successful run_by_name(a) and any h2 without a run of that name (set_run_params on this very instance, adding it again,
   a namesake taking its dict entry, other algorithms running, mpe, preprocessing, rollback, save/load) the instance holds
   Run of its class and of the parameters, data and fs it had when run_by_name(a) was called *)
Theorem C15_inst_result_is_latest_run : forall h1 a h2 s0 i x p d f, wf_m s0 ->
  dlookup a (m_dict (mexec h1 s0)) = Some i -> nth_error (m_heap (mexec h1 s0)) i = Some x ->
  i_params x = Some p -> i_data x = Some d -> i_fs x = Some f ->
  (forall o, In o h2 -> is_mrun o a = false) ->
  exists x', nth_error (m_heap (mexec (h1 ++ MRun a :: h2) s0)) i = Some x' /\
             i_result x' = Some (Run (i_cls x) p d f) /\ ident_of x' = ident_of x.
Proof. exact mresult_is_latest_run. Qed.

Theorem C15_inst_result_is_latest_run_all : forall h1 h2 s0 n i, wf_m s0 ->
  fst (mstep (mexec h1 s0) MRunAll) = None -> In (n,i) (m_dict (mexec h1 s0)) ->
  (forall o, In o h2 -> is_mrun o n = false) ->
  exists x p d f x', nth_error (m_heap (mexec h1 s0)) i = Some x /\ i_params x = Some p /\ i_data x = Some d /\ i_fs x = Some f /\
    nth_error (m_heap (mexec (h1 ++ MRunAll :: h2) s0)) i = Some x' /\ i_result x' = Some (Run (i_cls x) p d f).
Proof. exact mresult_is_latest_run_all. Qed.

Theorem C15_inst_reachable_wf : forall d0 f0 heap h, (forall j y, nth_error heap j = Some y -> fresh_inst y) ->
  wf_m (mexec h (new_mstate d0 f0 heap)).
Proof. intros d0 f0 heap h H. exact (mexec_wf h _ (wf_mnew d0 f0 heap H)). Qed.

(* ---- set_run_params: the parameters of that instance and nothing else anywhere; a later run uses them *)
Theorem C15_inst_set_params : forall s i x p, nth_error (m_heap s) i = Some x ->
  mstep s (MSet i p) = (None, set_heap s (set_nth i (set_params p x) (m_heap s))).
Proof. exact mset_spec. Qed.

Theorem C15_inst_set_then_run : forall s i x a p d f, wf_m s -> dlookup a (m_dict s) = Some i -> nth_error (m_heap s) i = Some x ->
  i_data x = Some d -> i_fs x = Some f ->
  exists x', nth_error (m_heap (mexec [MSet i p; MRun a] s)) i = Some x' /\ i_result x' = Some (Run (i_cls x) p d f) /\
             i_params x' = Some p.
Proof. exact mset_then_run. Qed.

(* ---- what each kind of call can change, for EVERY instance: only a run changes a result (add_algorithms and
   set_run_params keep an earlier one), only set_run_params changes parameters, only add_algorithms changes data / fs / dt,
   name and class never change *)
Theorem C15_inst_result_kept : forall s o j, o <> MRunAll -> (forall a, o <> MRun a) ->
  option_map i_result (nth_error (m_heap (snd (mstep s o))) j) = option_map i_result (nth_error (m_heap s) j).
Proof. exact mstep_keeps_result. Qed.

Theorem C15_inst_modes_kept : forall s o j, o <> MRunAll -> (forall a, o <> MRun a) -> (forall a args, o <> MMpe a args) ->
  option_map i_modes (nth_error (m_heap (snd (mstep s o))) j) = option_map i_modes (nth_error (m_heap s) j).
Proof. exact mstep_keeps_modes. Qed.

Theorem C15_inst_params_frame : forall s o j, (forall i p, o <> MSet i p) ->
  option_map i_params (nth_error (m_heap (snd (mstep s o))) j) = option_map i_params (nth_error (m_heap s) j).
Proof. exact mstep_keeps_params. Qed.

Theorem C15_inst_binding_frame : forall s o j, (forall l, o <> MAdd l) ->
  option_map binding3 (nth_error (m_heap (snd (mstep s o))) j) = option_map binding3 (nth_error (m_heap s) j).
Proof. exact mstep_keeps_binding. Qed.

Theorem C15_inst_identity : forall s o j,
  option_map ident_of (nth_error (m_heap (snd (mstep s o))) j) = option_map ident_of (nth_error (m_heap s) j).
Proof. exact mstep_ident. Qed.

(* ---- isolation: an instance the call cannot reach (names are resolved through the dict) is untouched in every field *)
Theorem C15_inst_frame : forall s o i, touches s o i = false -> nth_error (m_heap (snd (mstep s o))) i = nth_error (m_heap s) i.
Proof. exact mframe. Qed.

Theorem C15_inst_frame_data : forall s o, (forall d f, o <> MRebind d f) -> o <> MRollback ->
  m_data (snd (mstep s o)) = m_data s /\ m_fs (snd (mstep s o)) = m_fs s.
Proof. exact mframe_data. Qed.

Theorem C15_inst_frame_dict : forall s o, (forall l, o <> MAdd l) -> o <> MRollback -> m_dict (snd (mstep s o)) = m_dict s.
Proof. exact mframe_dict. Qed.

(* ---- add_algorithms: one instance; several = one after the other; the same one again; a namesake *)
Theorem C15_inst_add_one : forall s i x f, m_fs s = Some f -> nth_error (m_heap s) i = Some x ->
  mstep s (MAdd [i]) = (None, mkM (m_data s) (m_fs s) (m_init s) (set_nth i (bind_full (m_data s) f x) (m_heap s))
                                  (dupsert (i_name x) i (m_dict s))).
Proof. exact madd_one_spec. Qed.

Theorem C15_inst_add_list : forall s i t f, m_fs s = Some f -> forallb (fun j => Nat.ltb j (length (m_heap s))) (i::t) = true ->
  snd (mstep s (MAdd (i::t))) = snd (mstep (snd (mstep s (MAdd [i]))) (MAdd t)) /\ fst (mstep s (MAdd (i::t))) = None.
Proof. exact madd_cons. Qed.

Theorem C15_inst_add_same_again : forall s i x f, wf_m s -> m_fs s = Some f -> nth_error (m_heap s) i = Some x ->
  dlookup (i_name x) (m_dict s) = Some i ->
  let s' := snd (mstep s (MAdd [i])) in
  nth_error (m_heap s') i = Some (bind_full (m_data s) f x) /\ map fst (m_dict s') = map fst (m_dict s) /\
  dlookup (i_name x) (m_dict s') = Some i /\ (forall j, j <> i -> nth_error (m_heap s') j = nth_error (m_heap s) j).
Proof. exact madd_same_again. Qed.

Theorem C15_inst_add_namesake : forall s i j y f, wf_m s -> m_fs s = Some f -> nth_error (m_heap s) j = Some y ->
  dlookup (i_name y) (m_dict s) = Some i -> i <> j ->
  let s' := snd (mstep s (MAdd [j])) in
  dlookup (i_name y) (m_dict s') = Some j /\ map fst (m_dict s') = map fst (m_dict s) /\
  nth_error (m_heap s') i = nth_error (m_heap s) i /\ (forall n, ~ In (n,i) (m_dict s')).
Proof. exact madd_namesake. Qed.

Theorem C15_inst_orphan_untouched : forall s o i, (forall n, ~ In (n,i) (m_dict s)) ->
  (forall l, o = MAdd l -> existsb (Nat.eqb i) l = false) -> (forall p, o <> MSet i p) ->
  nth_error (m_heap (snd (mstep s o))) i = nth_error (m_heap s) i.
Proof. exact orphan_untouched. Qed.

(* ---- re-runs, run_all as a fold, persistence, rollback *)
Theorem C15_inst_idempotent_rerun : forall s a, fst (mstep s (MRun a)) = None ->
  mstep (snd (mstep s (MRun a))) (MRun a) = (None, snd (mstep s (MRun a))).
Proof. exact midempotent_rerun. Qed.

Theorem C15_inst_idempotent_run_all : forall s, fst (mstep s MRunAll) = None ->
  mstep (snd (mstep s MRunAll)) MRunAll = (None, snd (mstep s MRunAll)).
Proof. exact midempotent_run_all. Qed.

Theorem C15_inst_run_all_is_fold_reachable : forall d0 f0 heap h, (forall j y, nth_error heap j = Some y -> fresh_inst y) ->
  let s := mexec h (new_mstate d0 f0 heap) in mstep s MRunAll = mrun_names s (map fst (m_dict s)).
Proof. exact mrun_all_is_fold_reachable. Qed.

Theorem C15_inst_saveload_anywhere : forall h1 h2 s, mstep s MSaveLoad = (None, s) /\ mexec (h1 ++ MSaveLoad :: h2) s = mexec (h1 ++ h2) s.
Proof. intros h1 h2 s. split; [exact (msaveload_id s)|exact (msaveload_anywhere h1 h2 s)]. Qed.

Theorem C15_inst_rollback : forall s a,
  mstep s MRollback = (None, mkM (Some (fst (m_init s))) (Some (snd (m_init s))) (m_init s) (m_heap s) []) /\
  mstep (snd (mstep s MRollback)) (MRun a) = (Some KeyE, snd (mstep s MRollback)).
Proof. intros s a. split; [exact (mrollback_spec s)|exact (mrollback_forgets s a)]. Qed.

(* ---- the two machines agree: every history of the first machine (add = a fresh instance) on a new setup IS a history of the
   instance machine on a new setup around the instances its adds construct ([compile]: the k-th add becomes MAdd [k]) - same
   exceptions call by call, same final state seen through the dict ([abs]); so every theorem above about [exec] speaks about
   the instance machine on such histories, and one call corresponds to one call from every well-formed state *)
Theorem C15_first_machine_embeds : forall d0 f0 h,
  exec h (new_setup d0 f0) = abs (mexec (fst (compile 0 h)) (new_mstate d0 f0 (snd (compile 0 h)))) /\
  trace h (new_setup d0 f0) = map abs_err (mtrace (fst (compile 0 h)) (new_mstate d0 f0 (snd (compile 0 h)))).
Proof. exact first_machine_embeds. Qed.

Theorem C15_machines_step : forall s o o1, wf_m s -> op_of o = Some o1 ->
  step (abs s) o1 = (abs_err (fst (mstep s o)), abs (snd (mstep s o))).
Proof. exact sim_step. Qed.

Theorem C15_machines_add : forall s i x, wf_m s -> nth_error (m_heap s) i = Some x -> ~ In i (map snd (m_dict s)) ->
  i_result x = None -> i_modes x = None ->
  step (abs s) (Add (i_name x) (i_cls x) (i_params x)) = (abs_err (fst (mstep s (MAdd [i]))), abs (snd (mstep s (MAdd [i])))).
Proof. exact sim_add. Qed.

Print Assumptions C15_gate_run.
Print Assumptions C15_gate_run_unknown.
Print Assumptions C15_run_ok_iff.
Print Assumptions C15_gate_mpe.
Print Assumptions C15_mpe_ok_iff.
Print Assumptions C15_gate_mpe_history.
Print Assumptions C15_exception_stores_nothing.
Print Assumptions C15_run_all_exception.
Print Assumptions C15_binding_is_last_add.
Print Assumptions C15_result_function_of_own_inputs.
Print Assumptions C15_modes_need_result.
Print Assumptions C15_frame.
Print Assumptions C15_frame_data.
Print Assumptions C15_binding_frame.
Print Assumptions C15_result_stable.
Print Assumptions C15_reachable_wf.
Print Assumptions C15_idempotent_rerun.
Print Assumptions C15_idempotent_run_all.
Print Assumptions C15_run_all_is_fold.
Print Assumptions C15_run_all_is_fold_reachable.
Print Assumptions C15_saveload_id.
Print Assumptions C15_saveload_anywhere.
Print Assumptions C15_poser_ok_iff.
Print Assumptions C15_poser_counts_name_entries.
Print Assumptions C15_state_of_extracted.
Print Assumptions C15_inst_gate_run.
Print Assumptions C15_inst_gate_run_unknown.
Print Assumptions C15_inst_run_ok_iff.
Print Assumptions C15_inst_gate_mpe.
Print Assumptions C15_inst_gate_mpe_history.
Print Assumptions C15_inst_never_run_no_result.
Print Assumptions C15_inst_exception_stores_nothing.
Print Assumptions C15_inst_add_exception.
Print Assumptions C15_inst_run_all_exception.
Print Assumptions C15_inst_result_is_latest_run.
Print Assumptions C15_inst_result_is_latest_run_all.
Print Assumptions C15_inst_reachable_wf.
Print Assumptions C15_inst_set_params.
Print Assumptions C15_inst_set_then_run.
Print Assumptions C15_inst_result_kept.
Print Assumptions C15_inst_modes_kept.
Print Assumptions C15_inst_params_frame.
Print Assumptions C15_inst_binding_frame.
Print Assumptions C15_inst_identity.
Print Assumptions C15_inst_frame.
Print Assumptions C15_inst_frame_data.
Print Assumptions C15_inst_frame_dict.
Print Assumptions C15_inst_add_one.
Print Assumptions C15_inst_add_list.
Print Assumptions C15_inst_add_same_again.
Print Assumptions C15_inst_add_namesake.
Print Assumptions C15_inst_orphan_untouched.
Print Assumptions C15_inst_idempotent_rerun.
Print Assumptions C15_inst_idempotent_run_all.
Print Assumptions C15_inst_run_all_is_fold_reachable.
Print Assumptions C15_inst_saveload_anywhere.
Print Assumptions C15_inst_rollback.
Print Assumptions C15_first_machine_embeds.
Print Assumptions C15_machines_step.
Print Assumptions C15_machines_add.

(* non-vacuity.  Classes 1, 2; parameters 7, 8; data 10 (fs 50), replaced by data 11 (fs 25) by a preprocessing call.
   a=0 is added and run on the old data, b=1 is added after the rebinding: each result is Run of its OWN inputs;
   the mpe before the run and the run of an algorithm without parameters are gated. *)
Example C15_example_history :
  let h := [Add 0 1 (Some 7); Mpe 0 3; RunByName 0; Rebind (Some 11) (Some 25); Add 1 2 (Some 8); Add 2 1 None;
            RunAll; Mpe 0 3; SaveLoad; RunByName 0; RunByName 5] in
  trace h (new_setup 10 50) =
    [None; Some ValueErr; None; None; None; None; Some ValueErr; None; None; None; Some KeyErr] /\
  s_algs (exec h (new_setup 10 50)) =
    [(0, mkAlg 1 (Some 7) (Some (10,50)) (Some (Run 1 7 10 50)) None);
     (1, mkAlg 2 (Some 8) (Some (11,25)) (Some (Run 2 8 11 25)) None);
     (2, mkAlg 1 None (Some (11,25)) None None)] /\
  last_add 10 50 h 0 = Some (1, Some 7, Some (10,50)) /\ last_add 10 50 h 1 = Some (2, Some 8, Some (11,25)).
Proof. vm_compute. repeat split; reflexivity. Qed.

(* PoSER: accepted / each of the five clauses firing *)
Example C15_example_poser :
  let ok := [(1,Extracted);(2,Extracted)] in
  poser_check [ok; ok] [0;1] = None /\
  poser_check [ok] [0;1] = Some 1 /\
  poser_check [ok; []] [0;1] = Some 2 /\
  poser_check [ok; [(2,Extracted);(1,Extracted)]] [0;1] = Some 3 /\
  poser_check [ok; ok; ok] [0] = Some 4 /\
  poser_check [ok; [(1,Extracted);(2,Ran)]] [0;1] = Some 5 /\
  poser_check [ok; [(1,NotRun);(2,Extracted)]] [0;1] = Some 5 /\
  poser_check [ok; ok] [7;7] = None /\          (* right number of entries, a repeated name *)
  poser_check [ok; ok] [7;7;8] = Some 4 /\      (* two distinct names but three entries *)
  poser_check [ok; ok] [7;8;7;8] = Some 4.
Proof. vm_compute. repeat split; reflexivity. Qed.

(* the instance machine.  Instances 0 and 1 share the name 0 (classes 1 and 4), instance 2 (name 1, class 2) is built without
   parameters.  run_all gates at instance 2 until set_run_params gives it parameters 21; it then runs on data 0 / fs 16, is given
   parameters 20 and re-bound to data 3 / fs 8 by a second add: the RESULT stays Run 2 21 0 16 while the modes are extracted
   under the new parameters and dt.  Instance 1 takes the dict entry of its namesake 0, which keeps its result Run 1 10 0 16 and
   is later given parameters 11 through the caller's handle; after rollback the name is unknown; one add_algorithms call with both
   namesakes leaves the last one in the dict. *)
Example C15_example_instances :
  let heap := [new_inst 0 1 (Some 10); new_inst 0 4 (Some 41); new_inst 1 2 None] in
  let h := [MAdd [0;2]; MRunAll; MSet 2 21; MRunAll; MMpe 1 200; MSet 2 20; MRebind (Some 3) (Some 8); MAdd [2]; MMpe 1 200;
            MAdd [1]; MRun 0; MMpe 0 401; MSaveLoad; MSet 0 11; MRollback; MRun 0; MAdd [0;1]; MRun 0] in
  (forall j y, nth_error heap j = Some y -> fresh_inst y) /\
  mtrace h (new_mstate 0 16 heap) =
    [None; Some ValueE; None; None; None; None; None; None; None; None; None; None; None; None; None; Some KeyE; None; None] /\
  m_dict (mexec h (new_mstate 0 16 heap)) = [(0,1)] /\
  m_heap (mexec h (new_mstate 0 16 heap)) =
    [mkInst 0 1 (Some 11) (Some 0) (Some 16) (Some 16) (Some (Run 1 10 0 16)) None;
     mkInst 0 4 (Some 41) (Some 0) (Some 16) (Some 16) (Some (Run 4 41 0 16)) None;
     mkInst 1 2 (Some 20) (Some 3) (Some 8) (Some 8) (Some (Run 2 21 0 16)) (Some (Extract2 (Run 2 21 0 16) 20 (Some 3) (Some 8) 200))] /\
  (* a setup without fs: the add raises TypeError, the first instance is half re-bound (data new, fs None, dt old), its run gates *)
  mtrace [MAdd [0]; MRun 0; MRebind (Some 0) None; MAdd [0;1]; MRun 0] (new_mstate 0 16 heap) = [None; None; None; Some TypeE; Some ValueE] /\
  nth_error (m_heap (mexec [MAdd [0]; MRun 0; MRebind (Some 5) None; MAdd [0;1]; MRun 0] (new_mstate 0 16 heap))) 0 =
    Some (mkInst 0 1 (Some 10) (Some 5) None (Some 16) (Some (Run 1 10 0 16)) None).
Proof.
  cbn zeta. split.
  - intros [|[|[|j]]] y H; cbn in H; try (destruct j; discriminate); injection H as <-; repeat split.
  - vm_compute. repeat split; reflexivity.
Qed.
