(* C15 - Runs are gated, deterministic, isolated, persistent; PoSER validates its inputs.
   Statements only: each theorem is closed by [exact] of a lemma of Proofs/P_orch.v.
   Model (Model/M_orch.v): a setup = data, fs and an insertion-ordered dict name -> algorithm; an algorithm = class,
   parameters, binding (data, fs handed over by add_algorithms), result, modes.  A result is the uninterpreted term
   [Run cls params data fs].  [step s o = (exception or none, state after)].  [exec h s] = state after the call history h. *)
From Coq Require Import String List Arith Bool Lia.
From PyOMA.Model Require Import M_orch.
From PyOMA.Proofs Require Import P_orch.
Import ListNotations.

(* ---- gates: an exception, and nothing at all is stored (the whole setup, run parameters included, is unchanged) *)
Theorem C15_gate_run : forall s a x, lookup a (s_algs s) = Some x -> (a_bound x = None \/ a_params x = None) ->
  step s (RunByName a) = (Some ValueErr, s).
Proof. exact gate_run. Qed.

Theorem C15_gate_run_unknown : forall s a, lookup a (s_algs s) = None -> step s (RunByName a) = (Some KeyErr, s).
Proof. exact gate_run_unknown. Qed.

(* ... and the gate is exact: the run goes through precisely when data, fs and parameters are there *)
Theorem C15_run_ok_iff : forall s a, fst (step s (RunByName a)) = None <->
  exists x p d f, lookup a (s_algs s) = Some x /\ a_params x = Some p /\ a_bound x = Some (d,f).
Proof. exact run_ok_iff. Qed.

Theorem C15_gate_mpe : forall s a x args, lookup a (s_algs s) = Some x -> a_result x = None ->
  step s (Mpe a args) = (Some ValueErr, s).
Proof. exact gate_mpe. Qed.

Theorem C15_mpe_ok_iff : forall s a args, fst (step s (Mpe a args)) = None <->
  exists x r, lookup a (s_algs s) = Some x /\ a_result x = Some r.
Proof. exact mpe_ok_iff. Qed.

(* over histories: after ANY history without a run_by_name(a) / run_all, mpe(a) raises and leaves the state alone *)
Theorem C15_gate_mpe_history : forall d0 f0 h a args, (forall o, In o h -> is_run o a = false) ->
  let s := exec h (new_setup d0 f0) in
  step s (Mpe a args) = (Some (match lookup a (s_algs s) with None => KeyErr | Some _ => ValueErr end), s).
Proof. exact never_run_mpe_gated. Qed.

(* every call but run_all is atomic; a raising run_all has stored the results of the algorithms before the failing one
   and has touched neither the failing one nor those after it *)
Theorem C15_exception_stores_nothing : forall s o, o <> RunAll -> fst (step s o) <> None -> snd (step s o) = s.
Proof. exact err_unchanged. Qed.

Theorem C15_run_all_exception : forall s e, fst (step s RunAll) = Some e ->
  exists pre n x post, s_algs s = pre ++ (n,x)::post /\ run_alg x = inl e /\ e = ValueErr /\
    (a_bound x = None \/ a_params x = None) /\
    (forall ny, In ny pre -> exists y', run_alg (snd ny) = inr y') /\
    snd (step s RunAll) = set_algs s (map ran_or_same pre ++ (n,x)::post).
Proof. exact run_all_err. Qed.

(* ---- the result is a function of the algorithm's own inputs, for every history on a new setup:
   class, parameters and binding are those of the latest add (reference semantics [last_add], which never looks at a
   result), and a stored result is exactly Run of them. *)
Theorem C15_binding_is_last_add : forall d0 f0 h a,
  option_map binding_of (lookup a (s_algs (exec h (new_setup d0 f0)))) = last_add d0 f0 h a.
Proof. exact binding_is_last_add. Qed.

Theorem C15_result_function_of_own_inputs : forall d0 f0 h a x r,
  lookup a (s_algs (exec h (new_setup d0 f0))) = Some x -> a_result x = Some r ->
  exists c p d f, last_add d0 f0 h a = Some (c, Some p, Some (d,f)) /\
                  a_cls x = c /\ a_params x = Some p /\ a_bound x = Some (d,f) /\ r = Run c p d f.
Proof. exact result_function_of_own_inputs. Qed.

Theorem C15_modes_need_result : forall d0 f0 h a x m,
  lookup a (s_algs (exec h (new_setup d0 f0))) = Some x -> a_mpe x = Some m ->
  exists r args, a_result x = Some r /\ m = Extract r args.
Proof. exact modes_need_result. Qed.

(* ---- isolation: a call that does not name a leaves a's entry (parameters, binding, result, modes) untouched;
   only preprocessing changes the setup's data / fs; nothing but add(a) changes a's class, parameters, binding *)
Theorem C15_frame : forall s o a, targets o a = false -> lookup a (s_algs (snd (step s o))) = lookup a (s_algs s).
Proof. exact frame. Qed.

Theorem C15_frame_data : forall s o, (forall d f, o <> Rebind d f) ->
  s_data (snd (step s o)) = s_data s /\ s_fs (snd (step s o)) = s_fs s.
Proof. exact frame_data. Qed.

Theorem C15_binding_frame : forall s o a, is_add o a = false ->
  option_map binding_of (lookup a (s_algs (snd (step s o)))) = option_map binding_of (lookup a (s_algs s)).
Proof. exact step_keeps_binding. Qed.

(* ---- determinism / order independence: once a holds a result, no history without add(a) - other algorithms running,
   run_all, repeated runs, mpe, preprocessing, save/load - changes that result *)
Theorem C15_result_stable : forall h s a x r, wf_setup s -> (forall o, In o h -> is_add o a = false) ->
  lookup a (s_algs s) = Some x -> a_result x = Some r ->
  exists x', lookup a (s_algs (exec h s)) = Some x' /\ a_result x' = Some r /\ binding_of x' = binding_of x.
Proof. exact result_stable. Qed.

Theorem C15_reachable_wf : forall d0 f0 h, wf_setup (exec h (new_setup d0 f0)).
Proof. exact reachable_wf. Qed.

Theorem C15_idempotent_rerun : forall s a, fst (step s (RunByName a)) = None ->
  step (snd (step s (RunByName a))) (RunByName a) = (None, snd (step s (RunByName a))).
Proof. exact idempotent_rerun. Qed.

Theorem C15_idempotent_run_all : forall s, fst (step s RunAll) = None ->
  step (snd (step s RunAll)) RunAll = (None, snd (step s RunAll)).
Proof. exact idempotent_run_all. Qed.

(* ---- run_all = run_by_name over the names in dict order, stopping at the first exception *)
Theorem C15_run_all_is_fold : forall s, NoDup (map fst (s_algs s)) -> step s RunAll = run_names s (map fst (s_algs s)).
Proof. exact run_all_is_fold. Qed.

Theorem C15_run_all_is_fold_reachable : forall d0 f0 h,
  let s := exec h (new_setup d0 f0) in step s RunAll = run_names s (map fst (s_algs s)).
Proof. exact run_all_is_fold_reachable. Qed.

(* ---- persistence: save + load is the identity, anywhere in a history *)
Theorem C15_saveload_id : forall s, step s SaveLoad = (None, s).
Proof. exact saveload_id. Qed.

Theorem C15_saveload_anywhere : forall h1 h2 s, exec (h1 ++ SaveLoad :: h2) s = exec (h1 ++ h2) s /\
  trace (h1 ++ SaveLoad :: h2) s = trace h1 s ++ None :: trace h2 (exec h1 s).
Proof. exact saveload_anywhere. Qed.

(* ---- PoSER: accepted iff at least two setups, none without algorithms, every type list equal to the first one in
   order, one name per algorithm, every algorithm run, every algorithm with modes extracted *)
Theorem C15_poser_ok_iff : forall ss names, poser_ok ss names = true <->
  2 <= length ss /\
  (forall s, In s ss -> s <> []) /\
  (forall s, In s ss -> types_of s = types_of (hd [] ss)) /\
  length names = length (hd [] ss) /\
  (forall s, In s ss -> forall c st, In (c,st) s -> st <> NotRun) /\
  (forall s, In s ss -> forall c st, In (c,st) s -> st = Extracted).
Proof. exact poser_ok_iff. Qed.

(* one name per algorithm = as many list ENTRIES as algorithms: only the length of the name list matters, so a list with
   repeats is judged by its number of entries (["one";"one"] fits two algorithms, ["one";"one";"two"] does not) *)
Theorem C15_poser_counts_name_entries : forall ss n1 n2, length n1 = length n2 -> poser_check ss n1 = poser_check ss n2.
Proof. exact poser_check_names_length. Qed.

Theorem C15_state_of_extracted : forall x,
  state_of x = Extracted <-> (exists r, a_result x = Some r) /\ (exists m, a_mpe x = Some m).
Proof. exact state_of_extracted. Qed.

Print Assumptions C15_gate_run.
Print Assumptions C15_gate_run_unknown.
Print Assumptions C15_run_ok_iff.
Print Assumptions C15_gate_mpe.
Print Assumptions C15_mpe_ok_iff.
Print Assumptions C15_gate_mpe_history.
Print Assumptions C15_exception_stores_nothing.
Print Assumptions C15_run_all_exception.
Print Assumptions C15_binding_is_last_add.
Print Assumptions C15_result_function_of_own_inputs.
Print Assumptions C15_modes_need_result.
Print Assumptions C15_frame.
Print Assumptions C15_frame_data.
Print Assumptions C15_binding_frame.
Print Assumptions C15_result_stable.
Print Assumptions C15_reachable_wf.
Print Assumptions C15_idempotent_rerun.
Print Assumptions C15_idempotent_run_all.
Print Assumptions C15_run_all_is_fold.
Print Assumptions C15_run_all_is_fold_reachable.
Print Assumptions C15_saveload_id.
Print Assumptions C15_saveload_anywhere.
Print Assumptions C15_poser_ok_iff.
Print Assumptions C15_poser_counts_name_entries.
Print Assumptions C15_state_of_extracted.

(* non-vacuity.  Classes 1, 2; parameters 7, 8; data 10 (fs 50), replaced by data 11 (fs 25) by a preprocessing call.
   a=0 is added and run on the old data, b=1 is added after the rebinding: each result is Run of its OWN inputs;
   the mpe before the run and the run of an algorithm without parameters are gated. *)
Example C15_example_history :
  let h := [Add 0 1 (Some 7); Mpe 0 3; RunByName 0; Rebind (Some 11) (Some 25); Add 1 2 (Some 8); Add 2 1 None;
            RunAll; Mpe 0 3; SaveLoad; RunByName 0; RunByName 5] in
  trace h (new_setup 10 50) =
    [None; Some ValueErr; None; None; None; None; Some ValueErr; None; None; None; Some KeyErr] /\
  s_algs (exec h (new_setup 10 50)) =
    [(0, mkAlg 1 (Some 7) (Some (10,50)) (Some (Run 1 7 10 50)) None);
     (1, mkAlg 2 (Some 8) (Some (11,25)) (Some (Run 2 8 11 25)) None);
     (2, mkAlg 1 None (Some (11,25)) None None)] /\
  last_add 10 50 h 0 = Some (1, Some 7, Some (10,50)) /\ last_add 10 50 h 1 = Some (2, Some 8, Some (11,25)).
Proof. vm_compute. repeat split; reflexivity. Qed.

(* PoSER: accepted / each of the five clauses firing *)
Example C15_example_poser :
  let ok := [(1,Extracted);(2,Extracted)] in
  poser_check [ok; ok] [0;1] = None /\
  poser_check [ok] [0;1] = Some 1 /\
  poser_check [ok; []] [0;1] = Some 2 /\
  poser_check [ok; [(2,Extracted);(1,Extracted)]] [0;1] = Some 3 /\
  poser_check [ok; ok; ok] [0] = Some 4 /\
  poser_check [ok; [(1,Extracted);(2,Ran)]] [0;1] = Some 5 /\
  poser_check [ok; [(1,NotRun);(2,Extracted)]] [0;1] = Some 5 /\
  poser_check [ok; ok] [7;7] = None /\          (* right number of entries, a repeated name *)
  poser_check [ok; ok] [7;7;8] = Some 4 /\      (* two distinct names but three entries *)
  poser_check [ok; ok] [7;8;7;8] = Some 4.
Proof. vm_compute. repeat split; reflexivity. Qed.
