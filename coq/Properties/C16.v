(* C16 - Interactive pole picking hands over exactly the picked (frequency, order) pairs.
   Statements only: each theorem is closed by [exact] of a lemma of Proofs/P_pick.v.
   The specification [allowed] / [allowedP] (Model/M_pick.v) is a relation on multisets of (frequency, column) pairs
   with the freedom the property leaves; [steps pick st acts st'] is ANY history of allowed steps.  The harness
   checks with [allowed] that every recorded transition of the real handlers is such a step. *)
From Coq Require Import List Arith ZArith QArith Qabs Bool Permutation.
From PyOMA.Base Require Import Argmin.
From PyOMA.Model Require Import M_mpe M_pick M_pick_hist M_pick_mpe.
From PyOMA.Proofs Require Import P_pick P_pick_hist P_pick_mpe.
Import ListNotations.
Open Scope Q_scope.

(* the executable checker decides the declarative relation *)
Theorem C16_checker_decides_spec : forall pick st a st', allowed pick st a st' = true <-> allowedP pick st a st'.
Proof. exact allowed_iff. Qed.

(* what a click designates: the first column nearest to y (in range), then the first retained cell of that column
   nearest to x; the handler raises exactly when there is no column or that column has no retained pole *)
Theorem C16_nearest_order : forall n y o, nearest_col n y = Some o ->
  (o < n)%nat /\
  (forall j, (j < n)%nat -> absdist y (inject_Z (Z.of_nat o)) <= absdist y (inject_Z (Z.of_nat j))) /\
  (forall j, (j < o)%nat -> absdist y (inject_Z (Z.of_nat o)) < absdist y (inject_Z (Z.of_nat j))).
Proof. exact nearest_col_spec. Qed.
Theorem C16_pick_designates : forall tbl x y f o, pick_ssi tbl x y = Picked (f, o) -> designates_ssi tbl x y f o.
Proof. exact pick_ssi_spec. Qed.
Theorem C16_pick_raises_iff : forall tbl x y, pick_ssi tbl x y = PickRaises <->
  (tbl = [] \/ exists o col, nearest_col (length tbl) y = Some o /\ nth_error tbl o = Some col /\
                             forall j, (j < length col)%nat -> nth_error col j = Some None).
Proof. exact pick_ssi_raises_iff. Qed.
Theorem C16_pick_designates_fdd : forall freq x y f k, pick_fdd freq x y = Picked (f, k) -> designates_fdd freq x f k.
Proof. exact pick_fdd_spec. Qed.

(* pick_inv: after ANY history of allowed steps, for ANY table: the modifier is what the keys say; every selected
   pair is a retained cell of the table at its order and is the pair designated by one of the picking clicks of the
   history; the selection is a sub-multiset of the picks made, with at most one pair missing per deselecting click *)
Theorem C16_pick_inv : forall tbl acts st, steps (pick_ssi tbl) init_state acts st ->
    shift st = shift_after false acts /\
    (forall f o, In (f, o) (sel st) ->
       retained_cell tbl f o /\ exists x y, In (x, y) (eff_clicks false acts) /\ designates_ssi tbl x y f o) /\
    (exists removed, Permutation (sel st ++ removed) (picks_made (pick_ssi tbl) acts) /\ (length removed <= ndesel false acts)%nat).
Proof. exact pick_inv_ssi. Qed.
Theorem C16_pick_inv_fdd : forall freq acts st, steps (pick_fdd freq) init_state acts st ->
    shift st = shift_after false acts /\
    (forall f k, In (f, k) (sel st) ->
       nth_error freq k = Some f /\ exists x y, In (x, y) (eff_clicks false acts) /\ designates_fdd freq x f k) /\
    (exists removed, Permutation (sel st ++ removed) (picks_made (pick_fdd freq) acts) /\ (length removed <= ndesel false acts)%nat).
Proof. exact pick_inv_fdd. Qed.

(* single steps *)
Theorem C16_pick_adds_designated : forall pick st x y st',
  allowed pick st (Click BLeft x y) st' = true -> shift st = true ->
  shift st' = true /\ Permutation (designated pick (x, y) ++ sel st) (sel st').
Proof. exact pick_adds_designated. Qed.
Theorem C16_deselect_removes_one : forall pick st b x y st',
  allowed pick st (Click b x y) st' = true -> shift st = true -> (b = BRight \/ b = BMiddle) ->
  shift st' = shift st /\
  (sel st = [] -> sel st' = []) /\
  (sel st <> [] ->
     exists e, In e (sel st) /\ Permutation (sel st) (e :: sel st') /\ length (sel st) = S (length (sel st')) /\
               (b = BMiddle -> forall e2, In e2 (sel st) -> absdist x (fst e) <= absdist x (fst e2))).
Proof. exact deselect_removes_one. Qed.
Theorem C16_noshift_noop : forall pick st b x y st',
  shift st = false -> allowed pick st (Click b x y) st' = true ->
  shift st' = false /\ Permutation (sel st) (sel st') /\ impl_step pick st (Click b x y) = st.
Proof. exact noshift_noop. Qed.
Theorem C16_nonpicking_noop : forall pick st a st',
  allowed pick st a st' = true ->
  match a with
  | KeyDown => shift st' = true /\ Permutation (sel st) (sel st')
  | KeyUp => shift st' = false /\ Permutation (sel st) (sel st')
  | KeyOther | Click BOther _ _ => shift st' = shift st /\ Permutation (sel st) (sel st')
  | ClickOut b =>   (* click outside the axes: nothing, or (right button, modifier held) exactly one pair less *)
      shift st' = shift st /\
      (Permutation (sel st) (sel st') \/
       (shift st = true /\ b = BRight /\
        exists e, In e (sel st) /\ Permutation (sel st) (e :: sel st') /\ length (sel st) = S (length (sel st'))))
  | _ => True
  end.
Proof. exact nonpicking_noop. Qed.

(* hand-over: the two lists handed to extraction zip back to the selection, and extraction with the per-mode order
   list returns exactly those frequencies (from a row of the column of their own order) and those orders, in the
   same positions, for every rtol >= 0 *)
Theorem C16_handover_exact : forall tbl rtol acts st, 0 <= rtol -> reduced_table tbl ->
  steps (pick_ssi tbl) init_state acts st ->
  combine (fst (result st)) (snd (result st)) = sel st /\
  exists rows, mpe_of_result tbl rtol (result st) = MOk rows (map snd (sel st)) /\
               map snd rows = map fst (sel st) /\
               Forall2 (fun rp e => exists col, nth_error tbl (snd e) = Some col /\
                                                nth_error col (fst rp) = Some (Some (fst e))) rows (sel st).
Proof. exact handover_exact. Qed.
(* irrespective of the order of the clicks *)
Theorem C16_pick_order_irrelevant : forall pick acts acts' st st',
  steps pick init_state acts st -> steps pick init_state acts' st' ->
  ndesel false acts = 0%nat -> ndesel false acts' = 0%nat ->
  Permutation (eff_clicks false acts) (eff_clicks false acts') ->
  Permutation (sel st) (picks_made pick acts) /\ Permutation (sel st) (sel st').
Proof. exact pick_order_irrelevant. Qed.

(* the present code's resolution (stable sort of the PAIRS by frequency, pop() / pop(i) on both lists) is allowed,
   so every run of it is a history of allowed steps, and it keeps the selection sorted by frequency *)
Theorem C16_impl_choice_allowed : forall pick st a, allowed pick st a (impl_step pick st a) = true.
Proof. exact impl_choice_allowed. Qed.
Theorem C16_run_impl_steps : forall pick acts, steps pick init_state acts (run_impl pick acts).
Proof. exact run_impl_steps. Qed.
Theorem C16_impl_keeps_sorted : forall pick acts, sorted_f (sel (run_impl pick acts)).
Proof. exact impl_keeps_sorted. Qed.

(* ---- the dialog refines into the extraction of C11 (Model/M_mpe.v: mpe_explicit, the model of SSI_mpe / pLSCF_mpe with an
   order LIST): for EVERY history of allowed steps on EVERY table, the two lists handed over, fed to that extraction with the
   caller's rtol >= 0, return in the same positions - orders repeated or not, the same pole selected twice or not - the
   whole pole of each selected pair: its own frequency, and the payload (damping, shape, covariances) of the SAME cell, which
   is the first row of that order holding this frequency and the very cell a picking click of the history designated;
   order_out is the list of the picked orders.  [Fn] row-major as in C11, [tbl] its columns as in the dialog. *)
Theorem C16_handover_whole_pole : forall (P:Type) (Fn:tab) (Pay:list (list P)) (tbl:table) (rtol:Q) acts st,
  0 <= rtol -> columns_of Fn tbl -> reduced_table tbl -> pay_covers Fn Pay ->
  steps (pick_ssi tbl) init_state acts st ->
  exists vals,
    handover Fn Pay rtol (result st) = Ok (vals, OutList (map snd (sel st))) /\
    Forall2 (own_pole Fn Pay tbl acts) vals (sel st).
Proof. exact @handover_whole_pole. Qed.
Theorem C16_handover_lists : forall (P:Type) (Fn:tab) (Pay:list (list P)) (tbl:table) (rtol:Q) acts st,
  0 <= rtol -> columns_of Fn tbl -> reduced_table tbl -> pay_covers Fn Pay ->
  steps (pick_ssi tbl) init_state acts st ->
  exists vals, handover Fn Pay rtol (result st) = Ok (vals, OutList (snd (result st))) /\
               map fst vals = fst (result st) /\ length vals = length (sel st).
Proof. exact @handover_lists. Qed.
(* the whole of mpe_from_plot (dialog resolved as in the present code, then extraction) on a rectangular table *)
Theorem C16_mpe_from_plot_whole_pole : forall (P:Type) n m (Fn:tab) (Pay:list (list P)) (rtol:Q) acts,
  0 <= rtol -> rect n m Fn -> pay_covers Fn Pay ->
  (forall tbl, cols_of m Fn = Some tbl -> reduced_table tbl) ->
  exists tbl vals,
    cols_of m Fn = Some tbl /\
    mpe_from_plot_impl m Fn Pay rtol acts = Ok (vals, OutList (map snd (sel (run_impl (pick_ssi tbl) acts)))) /\
    Forall2 (own_pole Fn Pay tbl acts) vals (sel (run_impl (pick_ssi tbl) acts)).
Proof. exact @mpe_from_plot_impl_whole_pole. Qed.
(* the side conditions above hold for every rectangular table with payload tables of the same shape *)
Theorem C16_cols_of_columns : forall m Fn tbl, cols_of m Fn = Some tbl -> columns_of Fn tbl /\ length tbl = m.
Proof. exact cols_of_columns. Qed.
Theorem C16_cols_of_rect : forall n m Fn, rect n m Fn -> exists tbl, cols_of m Fn = Some tbl.
Proof. exact cols_of_rect. Qed.
Theorem C16_pay_covers_rect : forall (P:Type) n m (Fn:tab) (Pay:list (list P)), rect n m Fn -> rect n m Pay -> pay_covers Fn Pay.
Proof. exact @pay_covers_rect. Qed.

(* ---- events that neither pick nor deselect nor change the modifier (other keys, pointer motion, scrolling, button
   releases, menu entries = KeyOther; clicks with another button, clicks without the modifier, clicks outside the axes other
   than a deselect-one) are irrelevant, for EVERY history: dropped ([strip]) or interleaved anywhere, (a) the present code's
   resolution ends in literally the same state, (b) every history of allowed steps has a counterpart on the stripped history
   with the same modifier and the same multiset of pairs, and (c) conversely *)
Theorem C16_inert_events_irrelevant : forall pick acts,
  run_impl pick (strip false acts) = run_impl pick acts /\
  (forall st, steps pick init_state acts st ->
     exists t, steps pick init_state (strip false acts) t /\ same_selection t st) /\
  (forall st, steps pick init_state (strip false acts) st -> steps pick init_state acts st).
Proof. exact inert_events_irrelevant. Qed.
Theorem C16_same_acting_same_selection : forall pick acts acts', strip false acts = strip false acts' ->
  run_impl pick acts = run_impl pick acts' /\
  result (run_impl pick acts) = result (run_impl pick acts') /\
  (forall st, steps pick init_state acts st -> exists t, steps pick init_state acts' t /\ same_selection t st).
Proof. exact same_acting_same_selection. Qed.
Theorem C16_strip_normal_form : forall l sh, strip sh (strip sh l) = strip sh l.
Proof. exact strip_idem. Qed.

(* ---- deselect-nearest in the present code, tie rule explicit: the entry removed is the one at the FIRST position of the
   selection whose distance to the click is minimal (strictly closer than every entry before it), every other entry
   stays in place; and since the selection is kept sorted by frequency, among several entries at minimal distance the one
   of LOWEST frequency goes *)
Theorem C16_deselect_nearest_first_minimal : forall pick st x y, shift st = true -> sel st <> [] ->
  exists i e, nth_error (sel st) i = Some e /\
    impl_step pick st (Click BMiddle x y) = mkst true (firstn i (sel st) ++ skipn (S i) (sel st)) /\
    sel st = firstn i (sel st) ++ e :: skipn (S i) (sel st) /\
    (forall e2, In e2 (sel st) -> absdist x (fst e) <= absdist x (fst e2)) /\
    (forall j e2, (j < i)%nat -> nth_error (sel st) j = Some e2 -> absdist x (fst e) < absdist x (fst e2)).
Proof. exact impl_deselect_nearest. Qed.
Theorem C16_deselect_nearest_tie_rule : forall pick acts x y,
  let st := run_impl pick acts in
  shift st = true -> sel st <> [] ->
  exists i e, nth_error (sel st) i = Some e /\
    sel (impl_step pick st (Click BMiddle x y)) = firstn i (sel st) ++ skipn (S i) (sel st) /\
    sel st = firstn i (sel st) ++ e :: skipn (S i) (sel st) /\
    (forall e2, In e2 (sel st) -> absdist x (fst e) <= absdist x (fst e2)) /\
    (forall e2, In e2 (sel st) -> absdist x (fst e2) == absdist x (fst e) -> fst e <= fst e2) /\
    (forall j e2, (j < i)%nat -> nth_error (sel st) j = Some e2 -> absdist x (fst e) < absdist x (fst e2)).
Proof. exact impl_deselect_nearest_tie. Qed.

Print Assumptions C16_checker_decides_spec.
Print Assumptions C16_nearest_order.
Print Assumptions C16_pick_designates.
Print Assumptions C16_pick_raises_iff.
Print Assumptions C16_pick_designates_fdd.
Print Assumptions C16_pick_inv.
Print Assumptions C16_pick_inv_fdd.
Print Assumptions C16_pick_adds_designated.
Print Assumptions C16_deselect_removes_one.
Print Assumptions C16_noshift_noop.
Print Assumptions C16_nonpicking_noop.
Print Assumptions C16_handover_exact.
Print Assumptions C16_pick_order_irrelevant.
Print Assumptions C16_impl_choice_allowed.
Print Assumptions C16_run_impl_steps.
Print Assumptions C16_impl_keeps_sorted.
Print Assumptions C16_handover_whole_pole.
Print Assumptions C16_handover_lists.
Print Assumptions C16_mpe_from_plot_whole_pole.
Print Assumptions C16_cols_of_columns.
Print Assumptions C16_cols_of_rect.
Print Assumptions C16_pay_covers_rect.
Print Assumptions C16_inert_events_irrelevant.
Print Assumptions C16_same_acting_same_selection.
Print Assumptions C16_strip_normal_form.
Print Assumptions C16_deselect_nearest_first_minimal.
Print Assumptions C16_deselect_nearest_tie_rule.

(* non-vacuity.  Table of 3 orders x 3 rows with a NaN, column-major: order 0 = [3, nan, 12], order 1 = [10, 4, nan],
   order 2 = [nan, 5, 11].  The history of the repaired defect: modifier down, pick 10 Hz at order 1, then 5 Hz at
   order 2 (clicks slightly off the poles). *)
Definition C16_tbl : table :=
  [[Some (3#1); None; Some (12#1)]; [Some (10#1); Some (4#1); None]; [None; Some (5#1); Some (11#1)]].
Definition C16_hist : list action := [KeyDown; Click BLeft (39#4) (5#4); Click BLeft (21#4) (7#4)].

Example C16_example_history :
  result (run_impl (pick_ssi C16_tbl) C16_hist) = ([5#1; 10#1], [2%nat; 1%nat]) /\
  mpe_of_result C16_tbl (1#100) (result (run_impl (pick_ssi C16_tbl) C16_hist)) = MOk [(1%nat, 5#1); (0%nat, 10#1)] [2%nat; 1%nat] /\
  picks_made (pick_ssi C16_tbl) C16_hist = [(10#1, 1%nat); (5#1, 2%nat)] /\
  (* the state of the defect (frequencies sorted, orders left in click order) is rejected by the checker *)
  allowed (pick_ssi C16_tbl) (mkst true [(10#1, 1%nat)]) (Click BLeft (21#4) (7#4)) (mkst true [(5#1, 1%nat); (10#1, 2%nat)]) = false /\
  (* deselect-nearest must take the nearest: removing 10 for a click at 6 is rejected, removing 5 is accepted *)
  allowed (pick_ssi C16_tbl) (mkst true [(5#1, 2%nat); (10#1, 1%nat)]) (Click BMiddle (6#1) 0) (mkst true [(5#1, 2%nat)]) = false /\
  allowed (pick_ssi C16_tbl) (mkst true [(5#1, 2%nat); (10#1, 1%nat)]) (Click BMiddle (6#1) 0) (mkst true [(10#1, 1%nat)]) = true /\
  (* a pick in an all-NaN situation: none here; a click without the modifier changes nothing *)
  run_impl (pick_ssi C16_tbl) [Click BLeft (10#1) 1] = init_state.
Proof. vm_compute. repeat split; reflexivity. Qed.

(* the hypotheses of C16_handover_exact / C16_pick_inv hold for this instance *)
Example C16_example_hypotheses :
  0 <= 1#100 /\ reduced_table C16_tbl /\
  steps (pick_ssi C16_tbl) init_state C16_hist (run_impl (pick_ssi C16_tbl) C16_hist) /\
  ndesel false C16_hist = 0%nat.
Proof.
  split; [discriminate|]. split; [|split; [apply run_impl_steps|reflexivity]].
  intros col r p Hin Hn. cbn in Hin.
  repeat (destruct Hin as [Hin|Hin]; [subst col; repeat (destruct r as [|r]; cbn in Hn; [inversion Hn; reflexivity || discriminate|]); destruct r; discriminate|]).
  destruct Hin.
Qed.

(* the same table row-major, as C11 reads it; payload = cell identifiers 3*row + order.  A history with interleaved
   non-acting events, REPEATED orders (1, 2, 2, 1) and the same pole (5 Hz at order 2) selected twice *)
Definition C16_Fn : tab :=
  [[Some (3#1); Some (10#1); None]; [None; Some (4#1); Some (5#1)]; [Some (12#1); None; Some (11#1)]].
Definition C16_hist2 : list action :=
  [Click BLeft (3#1) 0; KeyOther; KeyDown; Click BLeft (39#4) (5#4); ClickOut BMiddle; Click BLeft (21#4) (7#4); KeyOther;
   Click BOther (12#1) 0; Click BLeft (4#1) (3#4); Click BLeft (5#1) (2#1); KeyUp; Click BMiddle (5#1) 0].

Example C16_example_handover :
  cols_of 3 C16_Fn = Some C16_tbl /\
  strip false C16_hist2 = [KeyDown; Click BLeft (39#4) (5#4); Click BLeft (21#4) (7#4); Click BLeft (4#1) (3#4); Click BLeft (5#1) (2#1); KeyUp] /\
  result (run_impl (pick_ssi C16_tbl) C16_hist2) = ([4#1; 5#1; 5#1; 10#1], [1%nat; 2%nat; 2%nat; 1%nat]) /\
  mpe_from_plot_impl 3 C16_Fn (id_tab 3 3) (1#100) C16_hist2
    = Ok ([(4#1, 4%nat); (5#1, 5%nat); (5#1, 5%nat); (10#1, 1%nat)], OutList [1%nat; 2%nat; 2%nat; 1%nat]) /\
  mpe_from_plot_impl 3 C16_Fn (id_tab 3 3) (1#100) (strip false C16_hist2) = mpe_from_plot_impl 3 C16_Fn (id_tab 3 3) (1#100) C16_hist2 /\
  pick_ssi_cell C16_tbl (21#4) (7#4) = Some (1%nat, 2%nat, 5#1) /\
  (* deselect-nearest on an exact tie: 4 Hz and 5 Hz (twice) selected, click at 4.5 Hz: the 4 Hz entry goes *)
  sel (impl_step (pick_ssi C16_tbl) (mkst true [(4#1, 1%nat); (5#1, 2%nat); (5#1, 2%nat); (10#1, 1%nat)]) (Click BMiddle (9#2) 0))
    = [(5#1, 2%nat); (5#1, 2%nat); (10#1, 1%nat)].
Proof. vm_compute. repeat split; reflexivity. Qed.

(* the hypotheses of C16_handover_whole_pole / C16_mpe_from_plot_whole_pole / C16_deselect_nearest_tie_rule hold here *)
Example C16_example_handover_hypotheses :
  0 <= 1#100 /\ rect 3 3 C16_Fn /\ rect 3 3 (id_tab 3 3) /\ columns_of C16_Fn C16_tbl /\ pay_covers C16_Fn (id_tab 3 3) /\
  (forall tbl, cols_of 3 C16_Fn = Some tbl -> reduced_table tbl) /\
  steps (pick_ssi C16_tbl) init_state C16_hist2 (run_impl (pick_ssi C16_tbl) C16_hist2) /\
  (let st := run_impl (pick_ssi C16_tbl) [KeyDown; Click BLeft (4#1) (3#4); Click BLeft (5#1) (2#1)] in shift st = true /\ sel st <> []).
Proof.
  assert (HR : rect 3 3 C16_Fn) by (split; [reflexivity|repeat constructor]).
  assert (HP : rect 3 3 (id_tab 3 3)) by (split; [reflexivity|repeat constructor]).
  split; [discriminate|]. split; [exact HR|]. split; [exact HP|].
  split; [apply (cols_of_columns 3 C16_Fn C16_tbl); reflexivity|].
  split; [exact (pay_covers_rect 3 3 C16_Fn (id_tab 3 3) HR HP)|].
  split; [|split; [apply run_impl_steps|split; [reflexivity|discriminate]]].
  intros tbl H. vm_compute in H. inversion H. subst tbl. exact (proj1 (proj2 C16_example_hypotheses)).
Qed.
