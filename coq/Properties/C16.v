(* C16 - Interactive pole picking hands over exactly the picked (frequency, order) pairs.
   Statements only: each theorem is closed by [exact] of a lemma of Proofs/P_pick.v.
   The specification [allowed] / [allowedP] (Model/M_pick.v) is a relation on multisets of (frequency, column) pairs
   with the freedom the property leaves; [steps pick st acts st'] is ANY history of allowed steps.  The harness
   checks with [allowed] that every recorded transition of the real handlers is such a step. *)
From Coq Require Import List Arith ZArith QArith Qabs Bool Permutation.
From PyOMA.Base Require Import Argmin.
From PyOMA.Model Require Import M_pick.
From PyOMA.Proofs Require Import P_pick.
Import ListNotations.
Open Scope Q_scope.

(* the executable checker decides the declarative relation *)
Theorem C16_checker_decides_spec : forall pick st a st', allowed pick st a st' = true <-> allowedP pick st a st'.
Proof. exact allowed_iff. Qed.

(* what a click designates: the first column nearest to y (in range), then the first retained cell of that column
   nearest to x; the handler raises exactly when there is no column or that column has no retained pole *)
Theorem C16_nearest_order : forall n y o, nearest_col n y = Some o ->
  (o < n)%nat /\
  (forall j, (j < n)%nat -> absdist y (inject_Z (Z.of_nat o)) <= absdist y (inject_Z (Z.of_nat j))) /\
  (forall j, (j < o)%nat -> absdist y (inject_Z (Z.of_nat o)) < absdist y (inject_Z (Z.of_nat j))).
Proof. exact nearest_col_spec. Qed.
Theorem C16_pick_designates : forall tbl x y f o, pick_ssi tbl x y = Picked (f, o) -> designates_ssi tbl x y f o.
Proof. exact pick_ssi_spec. Qed.
Theorem C16_pick_raises_iff : forall tbl x y, pick_ssi tbl x y = PickRaises <->
  (tbl = [] \/ exists o col, nearest_col (length tbl) y = Some o /\ nth_error tbl o = Some col /\
                             forall j, (j < length col)%nat -> nth_error col j = Some None).
Proof. exact pick_ssi_raises_iff. Qed.
Theorem C16_pick_designates_fdd : forall freq x y f k, pick_fdd freq x y = Picked (f, k) -> designates_fdd freq x f k.
Proof. exact pick_fdd_spec. Qed.

(* pick_inv: after ANY history of allowed steps, for ANY table: the modifier is what the keys say; every selected
   pair is a retained cell of the table at its order and is the pair designated by one of the picking clicks of the
   history; the selection is a sub-multiset of the picks made, with at most one pair missing per deselecting click *)
Theorem C16_pick_inv : forall tbl acts st, steps (pick_ssi tbl) init_state acts st ->
    shift st = shift_after false acts /\
    (forall f o, In (f, o) (sel st) ->
       retained_cell tbl f o /\ exists x y, In (x, y) (eff_clicks false acts) /\ designates_ssi tbl x y f o) /\
    (exists removed, Permutation (sel st ++ removed) (picks_made (pick_ssi tbl) acts) /\ (length removed <= ndesel false acts)%nat).
Proof. exact pick_inv_ssi. Qed.
Theorem C16_pick_inv_fdd : forall freq acts st, steps (pick_fdd freq) init_state acts st ->
    shift st = shift_after false acts /\
    (forall f k, In (f, k) (sel st) ->
       nth_error freq k = Some f /\ exists x y, In (x, y) (eff_clicks false acts) /\ designates_fdd freq x f k) /\
    (exists removed, Permutation (sel st ++ removed) (picks_made (pick_fdd freq) acts) /\ (length removed <= ndesel false acts)%nat).
Proof. exact pick_inv_fdd. Qed.

(* single steps *)
Theorem C16_pick_adds_designated : forall pick st x y st',
  allowed pick st (Click BLeft x y) st' = true -> shift st = true ->
  shift st' = true /\ Permutation (designated pick (x, y) ++ sel st) (sel st').
Proof. exact pick_adds_designated. Qed.
Theorem C16_deselect_removes_one : forall pick st b x y st',
  allowed pick st (Click b x y) st' = true -> shift st = true -> (b = BRight \/ b = BMiddle) ->
  shift st' = shift st /\
  (sel st = [] -> sel st' = []) /\
  (sel st <> [] ->
     exists e, In e (sel st) /\ Permutation (sel st) (e :: sel st') /\ length (sel st) = S (length (sel st')) /\
               (b = BMiddle -> forall e2, In e2 (sel st) -> absdist x (fst e) <= absdist x (fst e2))).
Proof. exact deselect_removes_one. Qed.
Theorem C16_noshift_noop : forall pick st b x y st',
  shift st = false -> allowed pick st (Click b x y) st' = true ->
  shift st' = false /\ Permutation (sel st) (sel st') /\ impl_step pick st (Click b x y) = st.
Proof. exact noshift_noop. Qed.
Theorem C16_nonpicking_noop : forall pick st a st',
  allowed pick st a st' = true ->
  match a with
  | KeyDown => shift st' = true /\ Permutation (sel st) (sel st')
  | KeyUp => shift st' = false /\ Permutation (sel st) (sel st')
  | KeyOther | Click BOther _ _ => shift st' = shift st /\ Permutation (sel st) (sel st')
  | ClickOut b =>   (* click outside the axes: nothing, or (right button, modifier held) exactly one pair less *)
      shift st' = shift st /\
      (Permutation (sel st) (sel st') \/
       (shift st = true /\ b = BRight /\
        exists e, In e (sel st) /\ Permutation (sel st) (e :: sel st') /\ length (sel st) = S (length (sel st'))))
  | _ => True
  end.
Proof. exact nonpicking_noop. Qed.

(* hand-over: the two lists handed to extraction zip back to the selection, and extraction with the per-mode order
   list returns exactly those frequencies (from a row of the column of their own order) and those orders, in the
   same positions, for every rtol >= 0 *)
Theorem C16_handover_exact : forall tbl rtol acts st, 0 <= rtol -> reduced_table tbl ->
  steps (pick_ssi tbl) init_state acts st ->
  combine (fst (result st)) (snd (result st)) = sel st /\
  exists rows, mpe_of_result tbl rtol (result st) = MOk rows (map snd (sel st)) /\
               map snd rows = map fst (sel st) /\
               Forall2 (fun rp e => exists col, nth_error tbl (snd e) = Some col /\
                                                nth_error col (fst rp) = Some (Some (fst e))) rows (sel st).
Proof. exact handover_exact. Qed.
(* irrespective of the order of the clicks *)
Theorem C16_pick_order_irrelevant : forall pick acts acts' st st',
  steps pick init_state acts st -> steps pick init_state acts' st' ->
  ndesel false acts = 0%nat -> ndesel false acts' = 0%nat ->
  Permutation (eff_clicks false acts) (eff_clicks false acts') ->
  Permutation (sel st) (picks_made pick acts) /\ Permutation (sel st) (sel st').
Proof. exact pick_order_irrelevant. Qed.

(* the present code's resolution (stable sort of the PAIRS by frequency, pop() / pop(i) on both lists) is allowed,
   so every run of it is a history of allowed steps, and it keeps the selection sorted by frequency *)
Theorem C16_impl_choice_allowed : forall pick st a, allowed pick st a (impl_step pick st a) = true.
Proof. exact impl_choice_allowed. Qed.
Theorem C16_run_impl_steps : forall pick acts, steps pick init_state acts (run_impl pick acts).
Proof. exact run_impl_steps. Qed.
Theorem C16_impl_keeps_sorted : forall pick acts, sorted_f (sel (run_impl pick acts)).
Proof. exact impl_keeps_sorted. Qed.

Print Assumptions C16_checker_decides_spec.
Print Assumptions C16_nearest_order.
Print Assumptions C16_pick_designates.
Print Assumptions C16_pick_raises_iff.
Print Assumptions C16_pick_designates_fdd.
Print Assumptions C16_pick_inv.
Print Assumptions C16_pick_inv_fdd.
Print Assumptions C16_pick_adds_designated.
Print Assumptions C16_deselect_removes_one.
Print Assumptions C16_noshift_noop.
Print Assumptions C16_nonpicking_noop.
Print Assumptions C16_handover_exact.
Print Assumptions C16_pick_order_irrelevant.
Print Assumptions C16_impl_choice_allowed.
Print Assumptions C16_run_impl_steps.
Print Assumptions C16_impl_keeps_sorted.

(* non-vacuity.  Table of 3 orders x 3 rows with a NaN, column-major: order 0 = [3, nan, 12], order 1 = [10, 4, nan],
   order 2 = [nan, 5, 11].  The history of the repaired defect: modifier down, pick 10 Hz at order 1, then 5 Hz at
   order 2 (clicks slightly off the poles). *)
Definition C16_tbl : table :=
  [[Some (3#1); None; Some (12#1)]; [Some (10#1); Some (4#1); None]; [None; Some (5#1); Some (11#1)]].
Definition C16_hist : list action := [KeyDown; Click BLeft (39#4) (5#4); Click BLeft (21#4) (7#4)].

Example C16_example_history :
  result (run_impl (pick_ssi C16_tbl) C16_hist) = ([5#1; 10#1], [2%nat; 1%nat]) /\
  mpe_of_result C16_tbl (1#100) (result (run_impl (pick_ssi C16_tbl) C16_hist)) = MOk [(1%nat, 5#1); (0%nat, 10#1)] [2%nat; 1%nat] /\
  picks_made (pick_ssi C16_tbl) C16_hist = [(10#1, 1%nat); (5#1, 2%nat)] /\
  (* the state of the defect (frequencies sorted, orders left in click order) is rejected by the checker *)
  allowed (pick_ssi C16_tbl) (mkst true [(10#1, 1%nat)]) (Click BLeft (21#4) (7#4)) (mkst true [(5#1, 1%nat); (10#1, 2%nat)]) = false /\
  (* deselect-nearest must take the nearest: removing 10 for a click at 6 is rejected, removing 5 is accepted *)
  allowed (pick_ssi C16_tbl) (mkst true [(5#1, 2%nat); (10#1, 1%nat)]) (Click BMiddle (6#1) 0) (mkst true [(5#1, 2%nat)]) = false /\
  allowed (pick_ssi C16_tbl) (mkst true [(5#1, 2%nat); (10#1, 1%nat)]) (Click BMiddle (6#1) 0) (mkst true [(10#1, 1%nat)]) = true /\
  (* a pick in an all-NaN situation: none here; a click without the modifier changes nothing *)
  run_impl (pick_ssi C16_tbl) [Click BLeft (10#1) 1] = init_state.
Proof. vm_compute. repeat split; reflexivity. Qed.

(* the hypotheses of C16_handover_exact / C16_pick_inv hold for this instance *)
Example C16_example_hypotheses :
  0 <= 1#100 /\ reduced_table C16_tbl /\
  steps (pick_ssi C16_tbl) init_state C16_hist (run_impl (pick_ssi C16_tbl) C16_hist) /\
  ndesel false C16_hist = 0%nat.
Proof.
  split; [discriminate|]. split; [|split; [apply run_impl_steps|reflexivity]].
  intros col r p Hin Hn. cbn in Hin.
  repeat (destruct Hin as [Hin|Hin]; [subst col; repeat (destruct r as [|r]; cbn in Hn; [inversion Hn; reflexivity || discriminate|]); destruct r; discriminate|]).
  destruct Hin.
Qed.
