(* C12 - The SSI Hankel/Toeplitz matrix has the prescribed lag, channel and block layout.
   Statements only: each theorem is closed by [exact] of a lemma of Proofs/P_hankel.v. *)
From Coq Require Import List Arith Lia Ring ZArith QArith Qcanon.
From PyOMA.Base Require Import Carrier FMat.
From PyOMA.Model Require Import M_hankel.
From PyOMA.Proofs Require Import P_hankel P_hankel_basis.
Import ListNotations.

Section S.
Variable R:Type. Variable K:Ops R.
Hypothesis Rth : ring_theory (o0 K) (o1 K) (oadd K) (omul K) (osub K) (oopp K) (@eq R).
Local Open Scope K_scope.
Infix "+" := (oadd K) : K_scope. Infix "*" := (omul K) : K_scope.

(* moment-matrix method: entry (block i, channel a; block j, reference b) is invN times the sum over one
   contiguous window of Y_a[t + (i+j+1)] * Yref_b[t]: one single lag i+j+1, data leading, uniform weight. *)
Theorem C12_mm_entry : forall invN l r br Ndat (Y Yref:sig R) i a j b,
  (i <= br)%nat -> (a < l)%nat -> (j <= br)%nat -> (b < r)%nat ->
  hank_mm K invN l r br Ndat Y Yref (i*l+a)%nat (j*r+b)%nat
  = invN * sumn K (mm_N br Ndat - 1) (fun t => Y a ((S br - j + t) + (i+j+1))%nat * Yref b (S br - j + t)%nat).
Proof. exact (hank_mm_entry R K). Qed.

(* correlation (Toeplitz) method: one single lag br+i-j, reference leading, uniform weight 1/(Ndat-lag). *)
Theorem C12_R_entry : forall invn l r br Ndat (Y Yref:sig R) i a j b,
  (i <= br)%nat -> (a < l)%nat -> (j <= br)%nat -> (b < r)%nat ->
  hank_R K invn l r br Ndat Y Yref (i*l+a)%nat (j*r+b)%nat
  = invn (Ndat - (br+i-j))%nat * sumn K (Ndat - (br+i-j)) (fun t => Y a t * Yref b (t + (br+i-j))%nat).
Proof. exact (hank_R_entry R K). Qed.

(* both are instances of the parametric single-lag/uniform-weight form, on the whole index range *)
Theorem C12_mm_is_gen : forall invN l r br Ndat (Y Yref:sig R),
  feq (hank_rows l br) (hank_cols r br) (hank_mm K invN l r br Ndat Y Yref)
    (hank_gen K (mm_win br Ndat) (fun _ _ => invN) mm_dl (fun _ _ => 0%nat) l r Y Yref).
Proof. exact (hank_mm_is_gen R K Rth). Qed.
Theorem C12_R_is_gen : forall invn l r br Ndat (Y Yref:sig R),
  feq (hank_rows l br) (hank_cols r br) (hank_R K invn l r br Ndat Y Yref)
    (hank_gen K (R_win br Ndat) (fun i j => invn (Ndat - (br+i-j))%nat) (fun _ _ => 0%nat) (R_rl br) l r Y Yref).
Proof. exact (hank_R_is_gen R K Rth). Qed.

(* bilinearity, for every window / weight / lag table *)
Theorem C12_gen_add_data : forall win wt dl rl l r (Y Z Yref:sig R) I J,
  hank_gen K win wt dl rl l r (sadd R K Y Z) Yref I J
  = hank_gen K win wt dl rl l r Y Yref I J + hank_gen K win wt dl rl l r Z Yref I J.
Proof. exact (hank_gen_add_data R K Rth). Qed.
Theorem C12_gen_add_ref : forall win wt dl rl l r (Y Yref Zref:sig R) I J,
  hank_gen K win wt dl rl l r Y (sadd R K Yref Zref) I J
  = hank_gen K win wt dl rl l r Y Yref I J + hank_gen K win wt dl rl l r Y Zref I J.
Proof. exact (hank_gen_add_ref R K Rth). Qed.
Theorem C12_gen_scal : forall win wt dl rl l r c d (Y Yref:sig R) I J,
  hank_gen K win wt dl rl l r (sscal R K c Y) (sscal R K d Yref) I J = c * d * hank_gen K win wt dl rl l r Y Yref I J.
Proof. exact (hank_gen_scal R K Rth). Qed.

(* shape: (br+1) block rows of all l channels, (br+1) block columns of the r reference channels *)
Theorem C12_dims : forall invN invn l r br Ndat Yl Yrefl,
  length (hank_mm_l K invN l r br Ndat Yl Yrefl) = (S br * l)%nat /\
  length (hank_R_l K invn l r br Ndat Yl Yrefl) = (S br * l)%nat /\
  (forall I, (I < S br * l)%nat -> length (nth I (hank_mm_l K invN l r br Ndat Yl Yrefl) []) = (S br * r)%nat) /\
  (forall I, (I < S br * l)%nat -> length (nth I (hank_R_l K invn l r br Ndat Yl Yrefl) []) = (S br * r)%nat).
Proof. exact (hank_dims R K). Qed.

(* data-driven method: from the LQ contract, the Gram matrix of the returned block L21 is that of the
   orthogonal projection of the future outputs on the past reference outputs. *)
Theorem C12_dat_gram : forall (a b T : nat) (Yp Yf L11 L11i L21 L22 Q1 Q2 W : fmat R),
  feq a T Yp (fmul K a L11 (ftr Q1)) ->
  feq b T Yf (fadd K (fmul K a L21 (ftr Q1)) (fmul K b L22 (ftr Q2))) ->
  feq a a (fmul K T (ftr Q1) Q1) (fid K) ->
  feq b a (fmul K T (ftr Q2) Q1) (fzero K) ->
  feq a a (fmul K a L11 L11i) (fid K) ->
  feq a a (fmul K a L11i L11) (fid K) ->
  feq a a (fmul K a W (fmul K T Yp (ftr Yp))) (fid K) ->
  feq b b (fmul K a L21 (ftr L21))
          (fmul K a (fmul K a (fmul K T Yf (ftr Yp)) W) (ftr (fmul K T Yf (ftr Yp)))).
Proof. exact (hank_dat_gram R K Rth). Qed.
(* "the bilinear map is determined completely by evaluating it on all pairs of unit impulses": for a fixed shape (l channels,
   r references, N samples), ANY map of (data, reference data) that is additive and homogeneous in each argument and reads its
   arguments only inside the shape is the double sum of its impulse-pair values weighted by the samples ... *)
Theorem C12_bilinear_expansion : forall l r N (F:sig R -> sig R -> R), bilinear_on R K l r N F -> forall Y Z,
  F Y Z = sumn K l (fun a => sumn K N (fun s => sumn K r (fun b => sumn K N (fun t =>
            Y a s * Z b t * F (imp R K a s) (imp R K b t))))).
Proof. exact (bilinear_expansion R K Rth). Qed.
(* ... hence two such maps that agree on every impulse pair agree on all data *)
Theorem C12_determined_by_impulses : forall l r N F G,
  bilinear_on R K l r N F -> bilinear_on R K l r N G ->
  (forall a s b t, (a < l)%nat -> (s < N)%nat -> (b < r)%nat -> (t < N)%nat ->
     F (imp R K a s) (imp R K b t) = G (imp R K a s) (imp R K b t)) ->
  forall Y Z, F Y Z = G Y Z.
Proof. exact (determined_by_impulses R K Rth). Qed.
(* every entry of the model's two covariance matrices is such a map on records of Ndat samples (it reads no sample at or
   beyond Ndat: a window running off the record would break the first clause) *)
Theorem C12_mm_bilinear : forall invN l r br Ndat I J,
  (0 < l)%nat -> (0 < r)%nat -> (I < hank_rows l br)%nat -> (J < hank_cols r br)%nat ->
  bilinear_on R K l r Ndat (fun Y Z => hank_mm K invN l r br Ndat Y Z I J).
Proof. exact (hank_mm_bilinear R K Rth). Qed.
Theorem C12_R_bilinear : forall invn l r br Ndat I J,
  (0 < l)%nat -> (0 < r)%nat -> (I < hank_rows l br)%nat -> (J < hank_cols r br)%nat ->
  bilinear_on R K l r Ndat (fun Y Z => hank_R K invn l r br Ndat Y Z I J).
Proof. exact (hank_R_bilinear R K Rth). Qed.
(* what the check's exhaustive basis evaluation establishes: an implementation entry that is bilinear on the shape and agrees
   with the model on all impulse pairs IS the model's entry on ALL data of that shape *)
Theorem C12_impl_equals_mm : forall invN l r br Ndat I J (F:sig R -> sig R -> R),
  (0 < l)%nat -> (0 < r)%nat -> (I < hank_rows l br)%nat -> (J < hank_cols r br)%nat ->
  bilinear_on R K l r Ndat F ->
  (forall a s b t, (a < l)%nat -> (s < Ndat)%nat -> (b < r)%nat -> (t < Ndat)%nat ->
     F (imp R K a s) (imp R K b t) = hank_mm K invN l r br Ndat (imp R K a s) (imp R K b t) I J) ->
  forall Y Z, F Y Z = hank_mm K invN l r br Ndat Y Z I J.
Proof. exact (impl_equals_mm R K Rth). Qed.
Theorem C12_impl_equals_R : forall invn l r br Ndat I J (F:sig R -> sig R -> R),
  (0 < l)%nat -> (0 < r)%nat -> (I < hank_rows l br)%nat -> (J < hank_cols r br)%nat ->
  bilinear_on R K l r Ndat F ->
  (forall a s b t, (a < l)%nat -> (s < Ndat)%nat -> (b < r)%nat -> (t < Ndat)%nat ->
     F (imp R K a s) (imp R K b t) = hank_R K invn l r br Ndat (imp R K a s) (imp R K b t) I J) ->
  forall Y Z, F Y Z = hank_R K invn l r br Ndat Y Z I J.
Proof. exact (impl_equals_R R K Rth). Qed.
(* "the sign convention being the same in every block": the correlation matrix is block-Toeplitz for every size - blocks with
   the same br+i-j are equal entry by entry (the moment matrix shares only the lag i+j+1 between such blocks, its averaging
   window starts at br+1-j: C12_mm_entry) *)
Theorem C12_R_block_toeplitz : forall invn l r br Ndat (Y Yref:sig R) i j i' j' a b,
  (i <= br)%nat -> (j <= br)%nat -> (i' <= br)%nat -> (j' <= br)%nat -> (a < l)%nat -> (b < r)%nat ->
  (br + i - j = br + i' - j')%nat ->
  hank_R K invn l r br Ndat Y Yref (i*l+a)%nat (j*r+b)%nat = hank_R K invn l r br Ndat Y Yref (i'*l+a)%nat (j'*r+b)%nat.
Proof. exact (hank_R_block_toeplitz R K). Qed.
End S.

Print Assumptions C12_mm_entry.
Print Assumptions C12_R_entry.
Print Assumptions C12_mm_is_gen.
Print Assumptions C12_R_is_gen.
Print Assumptions C12_gen_add_data.
Print Assumptions C12_gen_add_ref.
Print Assumptions C12_gen_scal.
Print Assumptions C12_dims.
Print Assumptions C12_dat_gram.
Print Assumptions C12_bilinear_expansion.
Print Assumptions C12_determined_by_impulses.
Print Assumptions C12_mm_bilinear.
Print Assumptions C12_R_bilinear.
Print Assumptions C12_impl_equals_mm.
Print Assumptions C12_impl_equals_R.
Print Assumptions C12_R_block_toeplitz.

(* non-vacuity: l=2, r=1, br=1, Ndat=8, integer data; block (1,1), channel 1, reference 0 *)
Example C12_example :
  let Y := [[1;2;3;4;5;6;7;8];[2;0;1;3;1;0;2;5]]%Z in let Yr := [[2;0;1;3;1;0;2;5]]%Z in
  ent ZOps (hank_mm_l ZOps 1%Z 2 1 1 8 Y Yr) 3 1 = (1*0 + 0*1 + 2*3 + 5*1)%Z /\
  ent ZOps (hank_R_l ZOps (fun _ => 1%Z) 2 1 1 8 Y Yr) 3 1 = (2*0+0*1+1*3+3*1+1*0+0*2+2*5)%Z.
Proof. vm_compute. split; reflexivity. Qed.

(* non-vacuity of the basis theorems: the (block 1, channel 1; block 1, reference 0) entry of the l=2, r=1, br=1, Ndat=8
   moment matrix over Z is a bilinear map on that shape, and its impulse expansion evaluated on the example data gives the
   entry itself *)
Example C12_example_basis :
  bilinear_on Z ZOps 2 1 8 (fun Y Yr => hank_mm ZOps 1%Z 2 1 1 8 Y Yr 3%nat 1%nat) /\
  let Y := sig_of ZOps [[1;2;3;4;5;6;7;8];[2;0;1;3;1;0;2;5]]%Z in let Yr := sig_of ZOps [[2;0;1;3;1;0;2;5]]%Z in
  sumn ZOps 2 (fun a => sumn ZOps 8 (fun s => sumn ZOps 1 (fun b => sumn ZOps 8 (fun t =>
     (Y a s * Yr b t * hank_mm ZOps 1%Z 2 1 1 8 (imp Z ZOps a s) (imp Z ZOps b t) 3%nat 1%nat)%Z))))
  = hank_mm ZOps 1%Z 2 1 1 8 Y Yr 3%nat 1%nat.
Proof. split; [apply (C12_mm_bilinear Z ZOps ZRth); unfold hank_rows, hank_cols; lia | vm_compute; reflexivity]. Qed.
