(* C18 - Mode-shape indicators (gen.MAC / MPC / MPD / MCF / MSF) are bounded, scale-invariant and exact on
   collinear shapes.  Statements only: each theorem is closed by [exact] of a lemma of Proofs/P_indicators(_R).v.
   Part 1: any field (closed under the global context).  Part 2: the real numbers of the standard library
   (order: bounds, Cauchy-Schwarz, the arccos side of MPD; sqrt/arccos/comparisons are Section variables with contracts). *)
From Coq Require Import List Arith Lia Ring Field ZArith QArith Qcanon Reals.
From Coq Require String.
From PyOMA.Base Require Import Carrier Cplx.
From PyOMA.Model Require Import M_indicators.
From PyOMA.Proofs Require Import P_indicators P_indicators_R.
Import ListNotations.

Section S.
Variable R:Type. Variable K:Ops R.
Hypothesis Fth : field_theory (o0 K) (o1 K) (oadd K) (omul K) (osub K) (oopp K) (odiv K) (oinv K) (@eq R).
Local Open Scope K_scope.
Notation "0" := (o0 K) : K_scope. Notation "1" := (o1 K) : K_scope.
Infix "+" := (oadd K) : K_scope. Infix "*" := (omul K) : K_scope.

(* MAC is unchanged when either shape is multiplied by a complex number of non-zero modulus *)
Theorem C18_mac_scale : forall n (c d:C R) (x a:cvec R),
  cnorm2 K c <> 0 -> cnorm2 K d <> 0 -> nrm2 K n x <> 0 -> nrm2 K n a <> 0 ->
  mac K n (vscale K c x) (vscale K d a) = mac K n x a.
Proof. exact (mac_scale R K Fth). Qed.

(* MAC of two sets: one row per shape of the first set, one column per shape of the second, every entry is the
   pairwise MAC (normalised per pair), and MAC(X,A)[i][j] = MAC(A,X)[j][i] *)
Theorem C18_mac_matrix_shape_transpose : forall n mX mA (X A:nat -> cvec R),
  length (mac_mat K n mX mA X A) = mX /\
  (forall i, (i < mX)%nat -> length (nth i (mac_mat K n mX mA X A) []) = mA) /\
  (forall i j, (i < mX)%nat -> (j < mA)%nat ->
     ent K (mac_mat K n mX mA X A) i j = mac K n (X i) (A j) /\
     ent K (mac_mat K n mX mA X A) i j = ent K (mac_mat K n mA mX A X) j i).
Proof. exact (mac_matrix_shape_transpose R K Fth). Qed.

(* a complex multiple of a real vector has MAC 1 with that vector (both argument orders) *)
Theorem C18_mac_collinear : forall n (c:C R) (v:nat->R), cnorm2 K c <> 0 -> rdot K n v v <> 0 ->
  mac K n (vscale K c (vreal K v)) (vreal K v) = 1 /\ mac K n (vreal K v) (vscale K c (vreal K v)) = 1.
Proof. exact (mac_collinear R K Fth). Qed.

(* hence MAC(c x, x) = 1 for every non-zero complex shape x as well *)
Theorem C18_mac_self : forall n (c:C R) (x:cvec R), cnorm2 K c <> 0 -> nrm2 K n x <> 0 ->
  mac K n x x = 1 /\ mac K n (vscale K c x) x = 1 /\ mac K n x (vscale K c x) = 1.
Proof.
  exact (fun n c x Hc Hx => conj (mac_self R K Fth n x Hx)
    (conj (eq_trans (mac_scale_l R K Fth n c x x Hc Hx Hx) (mac_self R K Fth n x Hx))
          (eq_trans (mac_scale_r R K Fth n c x x Hc Hx Hx) (mac_self R K Fth n x Hx)))).
Qed.

(* MCF: scale invariance, 0 on collinear shapes *)
Theorem C18_mcf_scale : forall n (c:C R) (phi:cvec R), cnorm2 K c <> 0 -> nrm2 K n phi <> 0 ->
  mcf K n (vscale K c phi) = mcf K n phi.
Proof. exact (mcf_scale R K Fth). Qed.
Theorem C18_mcf_collinear : forall n (c:C R) (v:nat->R), cnorm2 K c <> 0 -> rdot K n v v <> 0 ->
  mcf K n (vscale K c (vreal K v)) = 0.
Proof. exact (mcf_collinear R K Fth). Qed.

(* MPC: whatever pair of eigenvalues the eigenvalue routine returns (sum = trace, product = determinant) and
   whatever the (non-zero) covariance normalisation, the value is (tr^2 - 4 det)/tr^2 of the centred sums *)
Theorem C18_mpc_eig : forall tr det l0 l1, l0 + l1 = tr -> l0 * l1 = det -> tr <> 0 ->
  odiv K (omul K (osub K l0 l1) (osub K l0 l1)) (omul K (l0 + l1) (l0 + l1)) = mpc_of K tr det.
Proof. exact (mpc_eig R K Fth). Qed.
Theorem C18_mpc_factor : forall f n (phi:cvec R), f <> 0 -> cov_tr K 1 n phi <> 0 -> mpc_f K f n phi = mpc K n phi.
Proof. exact (mpc_factor R K Fth). Qed.
Theorem C18_mpc_scale : forall f n (c:C R) (phi:cvec R), cnorm2 K c <> 0 -> cov_tr K f n phi <> 0 ->
  cov_tr K f n (vscale K c phi) = cnorm2 K c * cov_tr K f n phi /\
  cov_det K f n (vscale K c phi) = cnorm2 K c * cnorm2 K c * cov_det K f n phi /\
  mpc_f K f n (vscale K c phi) = mpc_f K f n phi.
Proof.
  exact (fun f n c phi Hc Ht => conj (proj1 (cov_scale R K Fth f n c phi))
          (conj (proj2 (cov_scale R K Fth f n c phi)) (mpc_f_scale R K Fth f n c phi Hc Ht))).
Qed.
(* partial: needs a real vector of non-zero variance (see C18_full_statement and C18_known_mpc_zero_variance) *)
Theorem C18_mpc_collinear_partial : forall f n (c:C R) (v:nat->R),
  f <> 0 -> cnorm2 K c <> 0 -> rdot K n (cen K n v) (cen K n v) <> 0 -> mpc_f K f n (vscale K c (vreal K v)) = 1.
Proof. exact (mpc_f_collinear R K Fth). Qed.

(* MSF(v, c v) = c (indeed Re c for complex c); partial: needs v^T v <> 0 (no conjugation in gen.MSF) *)
Theorem C18_msf_exact_partial : forall n (v:cvec R) (c:C R) (r:R), cnorm2 K (tdot K n v v) <> 0 ->
  msf K n v (vscale K c v) = cre c /\ msf K n v (vscale K (cofR K r) v) = r.
Proof. exact (fun n v c r H => conj (msf_exact_c R K Fth n v c H) (msf_exact R K Fth n v r H)). Qed.

(* finite, never NaN (None) on collinear shapes - and exactly where the present code does return NaN *)
Theorem C18_never_nan_partial : forall (isz:R->bool), (forall x, isz x = true <-> x = 0) ->
  forall n (c:C R) (v:nat->R), cnorm2 K c <> 0 -> rdot K n v v <> 0 ->
  mac_o K isz n (vscale K c (vreal K v)) (vreal K v) = Some 1 /\
  mcf_o K isz n (vscale K c (vreal K v)) = Some 0 /\
  (cov_factor K n <> 0 -> rdot K n (cen K n v) (cen K n v) <> 0 -> mpc_o K isz n (vscale K c (vreal K v)) = Some 1) /\
  (forall (w:cvec R) (r:R), cnorm2 K (tdot K n w w) <> 0 -> msf_o K isz n w (vscale K (cofR K r) w) = Some r).
Proof.
  exact (fun isz Hs n c v Hc Hv => conj (mac_o_collinear R K Fth isz Hs n c v Hc Hv)
    (conj (mcf_o_collinear R K Fth isz Hs n c v Hc Hv)
    (conj (fun Hf Hvar => mpc_o_collinear R K Fth isz Hs n c v Hf Hc Hvar)
          (fun w r Hw => msf_o_exact R K Fth isz Hs n w r Hw)))).
Qed.
Theorem C18_known_nan : forall (isz:R->bool), (forall x, isz x = true <-> x = 0) ->
  (forall n (c:C R) (v:nat->R), rdot K n (cen K n v) (cen K n v) = 0 -> mpc_o K isz n (vscale K c (vreal K v)) = None) /\
  (forall n (v y:cvec R), tdot K n v v = c0 K -> msf_o K isz n v y = None).
Proof. exact (fun isz Hs => conj (mpc_o_zero_variance R K Fth isz Hs) (msf_o_null R K Fth isz Hs)). Qed.

(* MPD, algebraic side: scaling the shape and rotating the witness leaves every arccos argument unchanged and
   multiplies every squared weight by |c|^2; on a collinear shape every argument is clip(1) *)
Theorem C18_mpd_terms_scale : forall (leb:R->R->bool) (isz:R->bool), (forall x, isz x = true <-> x = 0) ->
  forall n (c:C R) (phi:cvec R) v0 v1, cnorm2 K c <> 0 -> v0 * v0 + v1 * v1 <> 0 ->
  mpd_terms K leb isz n (vscale K c phi) (rot0 R K c v0 v1) (rot1 R K c v0 v1)
  = map (fun t => (cnorm2 K c * fst t, snd t)) (mpd_terms K leb isz n phi v0 v1).
Proof. exact (fun leb isz Hs => mpd_terms_scale R K Fth leb isz Hs). Qed.
Theorem C18_mpd_terms_collinear : forall (leb:R->R->bool) (isz:R->bool), (forall x, isz x = true <-> x = 0) ->
  forall n (c:C R) (u:nat->R) v0 v1, cnorm2 K c <> 0 -> v0 * v0 + v1 * v1 <> 0 -> cre c * v0 + cim c * v1 = 0 ->
  forall t, In t (mpd_terms K leb isz n (vscale K c (vreal K u)) v0 v1) -> snd t = clip01 K leb 1.
Proof. exact (fun leb isz Hs => mpd_terms_collinear R K Fth leb isz Hs). Qed.
End S.

(* ---------------- Part 2: over the real numbers ---------------- *)
Local Open Scope R_scope.
Notation RK := ROps_ind.

(* at R the algebraic side conditions mean what the property says: c <> 0, the shape is not the zero vector *)
Theorem C18_R_nonzero : forall n (c:C R) (x:cvec R),
  (cnorm2 RK c = 0 <-> c = c0 RK) /\ (nrm2 RK n x <> 0 <-> exists k, (k < n)%nat /\ x k <> c0 RK).
Proof. exact (fun n c x => conj (cnorm2_zero_iff c) (nrm2_nonzero_iff n x)). Qed.

Theorem C18_mac_bounds : forall n (x a:cvec R), nrm2 RK n x <> 0 -> nrm2 RK n a <> 0 -> 0 <= mac RK n x a <= 1.
Proof. exact mac_bounds. Qed.
Theorem C18_mcf_bounds : forall n (phi:cvec R), nrm2 RK n phi <> 0 -> 0 <= mcf RK n phi <= 1.
Proof. exact mcf_bounds. Qed.
Theorem C18_mpc_bounds : forall f n (phi:cvec R), cov_tr RK f n phi <> 0 -> 0 <= mpc_f RK f n phi <= 1.
Proof. exact mpc_bounds. Qed.

Section MPD.
Variable leb : R -> R -> bool.
Variable isz : R -> bool.
Hypothesis leb_spec : forall a b, leb a b = true <-> a <= b.
Hypothesis isz_spec : forall x, isz x = true <-> x = 0.
(* NumPy's sqrt and arccos enter through these clauses only *)
Variable sqrtf acosf : R -> R.
Hypothesis sqrt_pos : forall x, 0 < x -> 0 < sqrtf x.
Hypothesis sqrt_unit : forall x, 0 <= x <= 1 -> 0 <= sqrtf x <= 1.
Hypothesis sqrt_one : sqrtf 1 = 1.
Hypothesis acos_range : forall x, 0 <= x <= 1 -> 0 <= acosf x <= PI / 2.
Hypothesis acos_one : acosf 1 = 0.

(* 0 <= MPD <= pi/2 for every shape with a non-zero component and EVERY witness vector *)
Theorem C18_mpd_bounds : forall n (phi:cvec R) v0 v1 k, (k < n)%nat -> phi k <> c0 RK ->
  0 <= mpd_val RK sqrtf acosf (mpd_terms RK leb isz n phi v0 v1) <= PI / 2.
Proof. exact (mpd_bounds leb isz leb_spec isz_spec sqrtf acosf sqrt_pos sqrt_unit acos_range). Qed.
(* the clip of the repaired code is the identity in exact arithmetic *)
Theorem C18_mpd_clip_noop : forall (z:C R) v0 v1, v0 * v0 + v1 * v1 <> 0 -> cnorm2 RK z <> 0 ->
  0 <= mpd_arg RK z v0 v1 <= 1 /\ clip01 RK leb (mpd_arg RK z v0 v1) = mpd_arg RK z v0 v1.
Proof. exact (fun z v0 v1 Hv Hz => conj (mpd_arg_range z v0 v1 Hv Hz) (mpd_clip_noop leb leb_spec z v0 v1 Hv Hz)). Qed.
(* MPD = 0, with a strictly positive weight sum (finite, not 0/0), for a complex multiple of a real vector and
   any witness meeting the contract of the second right-singular vector *)
Theorem C18_mpd_collinear : forall n (c:C R) (u:nat->R) v0 v1 l, c <> c0 RK -> (exists k, (k < n)%nat /\ u k <> 0) ->
  svd_min_contract n (vscale RK c (vreal RK u)) v0 v1 l ->
  mpd_val RK sqrtf acosf (mpd_terms RK leb isz n (vscale RK c (vreal RK u)) v0 v1) = 0 /\
  0 < mpd_wtot RK sqrtf (mpd_terms RK leb isz n (vscale RK c (vreal RK u)) v0 v1).
Proof. exact (mpd_collinear leb isz leb_spec isz_spec sqrtf acosf sqrt_pos sqrt_unit sqrt_one acos_range acos_one). Qed.
(* MPD is unchanged by a non-zero complex factor: the rotated witness is a witness for the scaled shape and gives the same value *)
Theorem C18_mpd_scale : (forall a b, 0 <= a -> 0 <= b -> sqrtf (a * b) = sqrtf a * sqrtf b) ->
  forall n (c:C R) (phi:cvec R) v0 v1 l k, c <> c0 RK -> (k < n)%nat -> phi k <> c0 RK ->
  svd_min_contract n phi v0 v1 l ->
  svd_min_contract n (vscale RK c phi) (rot0 R RK c v0 v1) (rot1 R RK c v0 v1) (cnorm2 RK c * l) /\
  mpd_val RK sqrtf acosf (mpd_terms RK leb isz n (vscale RK c phi) (rot0 R RK c v0 v1) (rot1 R RK c v0 v1))
  = mpd_val RK sqrtf acosf (mpd_terms RK leb isz n phi v0 v1).
Proof.
  exact (fun Hm n c phi v0 v1 l k Hc Hk Hz Hs => conj (svd_contract_scale n c phi v0 v1 l Hc Hs)
    (mpd_scale leb isz leb_spec isz_spec sqrtf acosf sqrt_pos sqrt_unit acos_range Hm n c phi v0 v1 k Hc (proj1 Hs) Hk Hz)).
Qed.
End MPD.

(* the Section hypotheses are satisfiable: stdlib sqrt / acos and decidable comparisons *)
Theorem C18_contracts_satisfiable :
  (forall a b, leb_R a b = true <-> a <= b) /\ (forall x, isz_R x = true <-> x = 0) /\
  (forall x, 0 < x -> 0 < sqrt x) /\ (forall x, 0 <= x <= 1 -> 0 <= sqrt x <= 1) /\ sqrt 1 = 1 /\
  (forall x, 0 <= x <= 1 -> 0 <= acos x <= PI / 2) /\ acos 1 = 0 /\
  (forall a b, 0 <= a -> 0 <= b -> sqrt (a * b) = sqrt a * sqrt b).
Proof.
  exact (conj leb_R_spec (conj isz_R_spec (conj sqrt_lt_R0 (conj sqrt_unit_std (conj sqrt_1
        (conj acos_range_std (conj acos_1 sqrt_mult))))))).
Qed.

(* The full property.  It is NOT a theorem of the model of the present code: the two starred clauses fail exactly on the
   inputs of C18_known_nan (recorded KNOWN findings C18:MPC:zero-variance-nan and C18:MSF:null-bilinear-nan); everything
   else is proved above (the ..._partial theorems carry the extra hypothesis).  Asserts nothing. *)
Definition C18_full_statement : Prop :=
  forall (isz:R->bool), (forall x, isz x = true <-> x = 0) ->
  forall n (c:C R) (v:nat->R), c <> c0 RK -> (exists k, (k < n)%nat /\ v k <> 0) ->
    mac_o RK isz n (vscale RK c (vreal RK v)) (vreal RK v) = Some 1 /\
    mcf_o RK isz n (vscale RK c (vreal RK v)) = Some 0 /\
    mpc_o RK isz n (vscale RK c (vreal RK v)) = Some 1 (* starred: fails when v has zero variance *) /\
    (forall (w:cvec R) (r:R), (exists k, (k < n)%nat /\ w k <> c0 RK) ->
       msf_o RK isz n w (vscale RK (cofR RK r) w) = Some r) (* starred: fails when w^T w = 0 *).

Print Assumptions C18_mac_scale.
Print Assumptions C18_mac_matrix_shape_transpose.
Print Assumptions C18_mac_collinear.
Print Assumptions C18_mac_self.
Print Assumptions C18_mcf_scale.
Print Assumptions C18_mcf_collinear.
Print Assumptions C18_mpc_eig.
Print Assumptions C18_mpc_factor.
Print Assumptions C18_mpc_scale.
Print Assumptions C18_mpc_collinear_partial.
Print Assumptions C18_msf_exact_partial.
Print Assumptions C18_never_nan_partial.
Print Assumptions C18_known_nan.
Print Assumptions C18_mpd_terms_scale.
Print Assumptions C18_mpd_terms_collinear.
Print Assumptions C18_R_nonzero.
Print Assumptions C18_mac_bounds.
Print Assumptions C18_mcf_bounds.
Print Assumptions C18_mpc_bounds.
Print Assumptions C18_mpd_bounds.
Print Assumptions C18_mpd_clip_noop.
Print Assumptions C18_mpd_collinear.
Print Assumptions C18_mpd_scale.
Print Assumptions C18_contracts_satisfiable.

(* non-vacuity on the executed instance (Qc): the pinned test vector, a collinear shape (1+2i)*[1,2,3] with the witness
   (2,-1) orthogonal to (1,2), a MAC matrix of a 3x2 against a 3x1 set, and the two known NaN inputs *)
Local Close Scope R_scope.
Import String.
Definition C18_ex_q (z:Z) : Qc := Q2Qc (z # 1).
Definition C18_ex_c (a b:Z) : Qc * Qc := (C18_ex_q a, C18_ex_q b).
Example C18_example :
  let x := [C18_ex_c 1 2; C18_ex_c 2 3; C18_ex_c 3 4] in
  let col := [C18_ex_c 1 2; C18_ex_c 2 4; C18_ex_c 3 6] in
  let v := [C18_ex_c 1 0; C18_ex_c 2 0; C18_ex_c 3 0] in
  (showOQ (mcf_l x) = "24/1849" /\ showOQ (mpc_l x) = "1/1" /\
   showRes showOQ (mac_vec_l col v) = "1/1" /\ showOQ (mcf_l col) = "0/1" /\ showOQ (mpc_l col) = "1/1" /\
   showRes showOQ (msf_l x (map (fun z => (Qcmult (C18_ex_q 3) (fst z), Qcmult (C18_ex_q 3) (snd z))) x)) = "3/1" /\
   showTerms (mpd_terms_l col (C18_ex_q 2) (C18_ex_q (-1))) = "5/1,1/1 20/1,1/1 45/1,1/1" /\
   showRes showOMat
     (mac_mat_l [[C18_ex_c 1 2; C18_ex_c 1 0]; [C18_ex_c 1 2; C18_ex_c 1 3]; [C18_ex_c 0 0; C18_ex_c 1 1]]
                [[C18_ex_c 1 2]; [C18_ex_c 1 2]; [C18_ex_c 0 1]]) = "10/11;85/143" /\
   showRes showOMat (mac_mat_l [[C18_ex_c 1 2]] [[C18_ex_c 1 2]; [C18_ex_c 1 2]]) = "ShapeErr" /\
   showOQ (mpc_l [C18_ex_c 1 2; C18_ex_c 1 2; C18_ex_c 1 2]) = "nan" /\
   showRes showOQ (msf_l [C18_ex_c 1 0; C18_ex_c 0 1] [C18_ex_c 2 0; C18_ex_c 0 2]) = "nan")%string.
Proof. vm_compute. repeat split; reflexivity. Qed.
