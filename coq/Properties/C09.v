(* C09 - Hard validation criteria are enforced soundly, completely and consistently after an SSI or pLSCF run.
   Statements only: each theorem is closed by [exact] of a lemma of Proofs/P_hc.v.
   Vocabulary (Model/M_hc.v): [run_ssi]/[run_pl] = the mask sequence of SSIdat(_MS).run / pLSCF(_MS).run on the
   UNFILTERED tables s; [ssi_keep h s i o] = "(conj enabled -> the conjugate of pole (i,o) occurs in the eigenvalue
   table) /\ 0 < xi < xi_max /\ MPC >= mpc_lim /\ MPD <= mpd_lim /\ (covariances present -> Fn_cov < cov_max)";
   [tbl_spec K t0 t i o] = "forall v, cell t i o = Some v <-> cell t0 i o = Some v /\ K" (None = nan). *)
From Coq Require Import List Arith ZArith QArith Bool Lia.
From PyOMA.Base Require Import Argmin.
From PyOMA.Model Require Import M_hc.
From PyOMA.Proofs Require Import P_hc.
Import ListNotations.
Open Scope Q_scope.

Section S.
Variable E : Type.                                 (* mode-shape entries *)
Variable EC : Type.                                (* mode-shape covariance entries *)
Variable mpc mpd : list (option E) -> option Q.    (* gen.MPC / gen.MPD, None = nan or raised: any functions *)

(* the four call sites are these two sequences *)
Theorem C09_call_sites :
  run_SSIdat E EC mpc mpd = run_ssi E EC mpc mpd /\ run_SSIdat_MS E EC mpc mpd = run_ssi E EC mpc mpd /\
  run_pLSCF E mpc mpd = run_pl E mpc mpd /\ run_pLSCF_MS E mpc mpd = run_pl E mpc mpd.
Proof. exact (conj eq_refl (conj eq_refl (conj eq_refl eq_refl))). Qed.

(* SSIdat / SSIcov / SSIdat_MS / SSIcov_MS: for every table set, NaN pattern and criteria record, cell (i,o) of the
   frequency, damping, mode-shape (every channel), eigenvalue, damping-covariance and shape-covariance tables is
   Some v after the run iff it was Some v before and the pole meets every enabled criterion; values unchanged. *)
Theorem C09_sound_complete_ssi : forall (h:hcrit) (s:ssi_tabs E EC) (i o:nat),
  let r := run_ssi E EC mpc mpd h s in
  let K := ssi_keep E EC mpc mpd h s i o in
  tbl_spec K (sFn s) (sFn r) i o /\ tbl_spec K (sXi s) (sXi r) i o /\ tbl3_spec K (sPhi s) (sPhi r) i o
  /\ tbl_spec K (sLam s) (sLam r) i o /\ otbl_spec K (sXiC s) (sXiC r) i o /\ otbl3_spec K (sPhiC s) (sPhiC r) i o.
Proof. exact (hc_sound_complete_ssi E EC mpc mpd). Qed.

(* the frequency-covariance table itself is returned as Fn_cov*mask with zeros turned into nan: the same statement
   holds for it when no surviving pole has a covariance equal to 0 (hypothesis forced by that idiom) *)
Theorem C09_sound_complete_ssi_cov : forall (h:hcrit) (s:ssi_tabs E EC),
  (forall F i o c, sFnC s = Some F -> cell F i o = Some c -> ssi_keep E EC mpc mpd h s i o -> ~ c == 0) ->
  forall i o, otbl_spec (ssi_keep E EC mpc mpd h s i o) (sFnC s) (sFnC (run_ssi E EC mpc mpd h s)) i o.
Proof. exact (hc_sound_complete_ssi_cov E EC mpc mpd). Qed.

(* one NaN pattern: where the unfiltered tables are jointly defined / jointly blank (flag b), the returned frequency,
   damping, mode-shape, eigenvalue, frequency-covariance and damping-covariance tables are jointly defined / blank
   (flag b'), and b' holds exactly when b does and the pole meets the criteria *)
Theorem C09_joint_nan_ssi : forall (h:hcrit) (s:ssi_tabs E EC),
  (forall F i o c, sFnC s = Some F -> cell F i o = Some c -> ssi_keep E EC mpc mpd h s i o -> ~ c == 0) ->
  forall i o b, ssi_joint E EC s i o b ->
  exists b', ssi_joint E EC (run_ssi E EC mpc mpd h s) i o b' /\ (b' = true <-> b = true /\ ssi_keep E EC mpc mpd h s i o).
Proof. exact (hc_joint_nan_ssi E EC mpc mpd). Qed.

(* "its complex conjugate is present" read on the RESULT: the code evaluates the conjugate criterion on the
   unfiltered eigenvalue table; when the other criteria decide alike for a pole and its conjugate (what exact
   conjugate pairs give), every eigenvalue left in the returned table has its conjugate left in the returned table *)
Theorem C09_conj_closed_ssi : forall (h:hcrit) (s:ssi_tabs E EC), hc_conj_on h = true ->
  (forall i o i' o' z z', cell (sLam s) i o = Some z -> cell (sLam s) i' o' = Some z' -> ceq z' (cconjq z) ->
     (ssi_other E EC mpc mpd h s i o <-> ssi_other E EC mpc mpd h s i' o')) ->
  forall i o z, cell (sLam (run_ssi E EC mpc mpd h s)) i o = Some z ->
  exists i' o' z', cell (sLam (run_ssi E EC mpc mpd h s)) i' o' = Some z' /\ ceq z' (cconjq z).
Proof. exact (hc_conj_closed_ssi E EC mpc mpd). Qed.

(* rows and orders are never dropped: every returned table has the dimensions of the unfiltered frequency table *)
Theorem C09_shape_ssi : forall (h:hcrit) (s:ssi_tabs E EC), wf_ssi E EC s = true ->
  let r := run_ssi E EC mpc mpd h s in let d := dims (sFn s) in
  dims (sFn r) = d /\ dims (sXi r) = d /\ dims (sPhi r) = d /\ dims (sLam r) = d
  /\ odimsP (sFnC r) d /\ odimsP (sXiC r) d /\ odimsP (sPhiC r) d.
Proof. exact (hc_shape_ssi E EC mpc mpd). Qed.

(* pLSCF / pLSCF_MS: returned tables are frequency, damping, mode shape *)
Theorem C09_sound_complete_pl : forall (h:hcrit) (s:pl_tabs E) (i o:nat),
  let r := run_pl E mpc mpd h s in
  let K := pl_keep E mpc mpd h s i o in
  tbl_spec K (pFn s) (pFn r) i o /\ tbl_spec K (pXi s) (pXi r) i o /\ tbl3_spec K (pPhi s) (pPhi r) i o.
Proof. exact (hc_sound_complete_pl E mpc mpd). Qed.

Theorem C09_joint_nan_pl : forall (h:hcrit) (s:pl_tabs E) i o b,
  pl_joint E s i o b ->
  exists b', pl_joint E (run_pl E mpc mpd h s) i o b' /\ (b' = true <-> b = true /\ pl_keep E mpc mpd h s i o).
Proof. exact (hc_joint_nan_pl E mpc mpd). Qed.

Theorem C09_conj_closed_pl : forall (h:hcrit) (s:pl_tabs E), hc_conj_on h = true ->
  (forall i o i' o' z z', cell (pLam s) i o = Some z -> cell (pLam s) i' o' = Some z' -> ceq z' (cconjq z) ->
     (pl_other E mpc mpd h s i o <-> pl_other E mpc mpd h s i' o')) ->
  forall i o, pl_keep E mpc mpd h s i o ->
  exists z i' o' z', cell (pLam s) i o = Some z /\ cell (pLam s) i' o' = Some z' /\ ceq z' (cconjq z)
                     /\ pl_keep E mpc mpd h s i' o'.
Proof. exact (hc_conj_closed_pl E mpc mpd). Qed.

Theorem C09_shape_pl : forall (h:hcrit) (s:pl_tabs E), wf_pl E s = true ->
  let r := run_pl E mpc mpd h s in
  dims (pFn r) = dims (pFn s) /\ dims (pXi r) = dims (pFn s) /\ dims (pPhi r) = dims (pFn s).
Proof. exact (hc_shape_pl E mpc mpd). Qed.
End S.

Print Assumptions C09_call_sites.
Print Assumptions C09_sound_complete_ssi.
Print Assumptions C09_sound_complete_ssi_cov.
Print Assumptions C09_joint_nan_ssi.
Print Assumptions C09_conj_closed_ssi.
Print Assumptions C09_shape_ssi.
Print Assumptions C09_sound_complete_pl.
Print Assumptions C09_joint_nan_pl.
Print Assumptions C09_conj_closed_pl.
Print Assumptions C09_shape_pl.

(* ---------------------------------------------------------------------------------------------------------------
   Non-vacuity.  2 rows x 6 orders, 2 channels, shapes as tokens, indicator values listed per cell (row-major).
   order 0: empty; order 1: a conjugate pair that meets everything; order 2: pair with xi = 1/2 > xi_max;
   order 3: two poles without conjugate; order 4: pair with MPC below the limit (row 0) / MPD above (row 1 too:
   both indicators are bad for both, so that the pair is treated alike); order 5: pair with covariance >= cov_max. *)
Definition ex_def : list (list bool) := [[false;true;true;true;true;true];[false;true;true;true;true;true]].
Definition ex_mpc : list (option Q) := [None; Some (9#10); Some (9#10); Some (9#10); Some (1#10); Some (9#10);
                                        None; Some (9#10); Some (9#10); Some (9#10); Some (1#10); Some (9#10)].
Definition ex_mpd : list (option Q) := [None; Some (1#10); Some (1#10); Some (1#10); Some (1#1); Some (1#10);
                                        None; Some (1#10); Some (1#10); Some (1#10); Some (1#1); Some (1#10)].
Definition ex_h : hcrit := {| hc_conj_on := true; hc_xi_max := 1#5; hc_mpc_lim := 1#2; hc_mpd_lim := 1#2; hc_cov_max := 1#4 |}.
Definition ex_s : ssi_tabs nat nat :=
  {| sFn  := [[None; Some (1#1); Some (2#1); Some (3#1); Some (4#1); Some (5#1)]; [None; Some (1#1); Some (2#1); Some (7#2); Some (4#1); Some (5#1)]];
     sXi  := [[None; Some (1#10); Some (1#2); Some (1#10); Some (1#10); Some (1#10)]; [None; Some (1#10); Some (1#2); Some (1#10); Some (1#10); Some (1#10)]];
     sPhi := tok_tbl3 2 6 2 ex_def;
     sLam := [[None; Some (-1#1, 2#1); Some (-1#1, 3#1); Some (-1#1, 4#1); Some (-1#1, 6#1); Some (-1#1, 7#1)];
              [None; Some (-1#1, -2#1); Some (-1#1, -3#1); Some (-2#1, 5#1); Some (-1#1, -6#1); Some (-1#1, -7#1)]];
     sFnC := Some [[None; Some (1#100); Some (1#100); Some (1#100); Some (1#100); Some (1#2)]; [None; Some (1#100); Some (1#100); Some (1#100); Some (1#100); Some (1#2)]];
     sXiC := Some [[None; Some (1#50); Some (1#50); Some (1#50); Some (1#50); Some (1#50)]; [None; Some (1#50); Some (1#50); Some (1#50); Some (1#50); Some (1#50)]];
     sPhiC := None |}.
Definition ex_run := run_ssi nat nat (tok_ind 2 ex_mpc) (tok_ind 2 ex_mpd) ex_h ex_s.
Definition pat {A} (t:tbl A) : list (list bool) := map (map is_some) t.

(* only the order-1 pair survives, in every table, with its values unchanged *)
Example C09_example_run :
  let keep := [[false;true;false;false;false;false];[false;true;false;false;false;false]] in
  wf_ssi nat nat ex_s = true /\
  pat (sFn ex_run) = keep /\ pat (sXi ex_run) = keep /\ pat (sLam ex_run) = keep /\
  option_map pat (sFnC ex_run) = Some keep /\ option_map pat (sXiC ex_run) = Some keep /\
  map (map (map is_some)) (sPhi ex_run) = [[[false;false];[true;true];[false;false];[false;false];[false;false];[false;false]];
                                           [[false;false];[true;true];[false;false];[false;false];[false;false];[false;false]]] /\
  cell (sXi ex_run) 1 1 = Some (1#10) /\ cell (sLam ex_run) 1 1 = Some (-1#1, -2#1) /\ cell3 (sPhi ex_run) 1 1 1 = Some 15%nat.
Proof. vm_compute. repeat split; reflexivity. Qed.

(* the hypotheses of C09_sound_complete_ssi_cov / C09_joint_nan_ssi / C09_conj_closed_ssi hold on this instance *)
Example C09_example_hyps :
  (forall F i o c, sFnC ex_s = Some F -> cell F i o = Some c ->
     ssi_keep nat nat (tok_ind 2 ex_mpc) (tok_ind 2 ex_mpd) ex_h ex_s i o -> ~ c == 0) /\
  ssi_joint nat nat ex_s 1 1 true /\ ssi_joint nat nat ex_s 0 0 false /\
  (forall i o i' o' z z', cell (sLam ex_s) i o = Some z -> cell (sLam ex_s) i' o' = Some z' -> ceq z' (cconjq z) ->
     (ssi_other nat nat (tok_ind 2 ex_mpc) (tok_ind 2 ex_mpd) ex_h ex_s i o <->
      ssi_other nat nat (tok_ind 2 ex_mpc) (tok_ind 2 ex_mpd) ex_h ex_s i' o')).
Proof.
  split; [|split; [|split]].
  - intros F i o c HF Hc _. inversion HF; subst F. clear HF.
    assert (Hin: In c (elems [[None; Some (1#100); Some (1#100); Some (1#100); Some (1#100); Some (1#2)];
                              [None; Some (1#100); Some (1#100); Some (1#100); Some (1#100); Some (1#2)]]))
      by (apply In_elems; exists i, o; exact Hc).
    cbn in Hin. intros Hz. repeat (destruct Hin as [<-|Hin]; [discriminate Hz|]). exact Hin.
  - unfold ssi_joint. repeat split; try reflexivity.
    + intros k Hk. vm_compute in Hk. destruct k as [|[|k]]; [reflexivity|reflexivity|lia].
    + intros F HF. inversion HF. reflexivity.
    + intros X HX. inversion HX. reflexivity.
  - unfold ssi_joint. repeat split; try reflexivity.
    + intros k Hk. vm_compute in Hk. destruct k as [|[|k]]; [reflexivity|reflexivity|lia].
    + intros F HF. inversion HF. reflexivity.
    + intros X HX. inversion HX. reflexivity.
  - intros i o i' o' z z' Hz Hz' He. rewrite <- !ssi_otherb_iff.
    destruct i as [|[|i]]; destruct o as [|[|[|[|[|[|o]]]]]]; vm_compute in Hz; try discriminate Hz;
    try (destruct i; vm_compute in Hz; discriminate Hz); try (destruct o; vm_compute in Hz; discriminate Hz);
    destruct i' as [|[|i']]; destruct o' as [|[|[|[|[|[|o']]]]]]; vm_compute in Hz'; try discriminate Hz';
    try (destruct i'; vm_compute in Hz'; discriminate Hz'); try (destruct o'; vm_compute in Hz'; discriminate Hz');
    inversion Hz; subst z; inversion Hz'; subst z'; destruct He as [He1 He2];
    vm_compute in He1; vm_compute in He2; try discriminate He1; try discriminate He2;
    vm_compute; tauto.
Qed.

(* the hypothesis of C09_sound_complete_ssi_cov is necessary: a surviving pole whose covariance is exactly 0 is
   blanked in the frequency-covariance table alone *)
Example C09_example_zero_cov :
  let s := {| sFn := [[Some (1#1)]]; sXi := [[Some (1#10)]]; sPhi := tok_tbl3 1 1 2 [[true]]; sLam := [[Some (-1#1, 0#1)]];
              sFnC := Some [[Some (0#1)]]; sXiC := Some [[Some (1#50)]]; sPhiC := @None (tbl3 nat) |} in
  let r := run_ssi nat nat (tok_ind 2 [Some (9#10)]) (tok_ind 2 [Some (1#10)]) ex_h s in
  cell (sFn r) 0 0 = Some (1#1) /\ option_map (fun F => cell F 0 0) (sFnC r) = Some None.
Proof. vm_compute. split; reflexivity. Qed.
