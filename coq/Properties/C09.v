(* C09 - Hard validation criteria are enforced soundly, completely and consistently after an SSI or pLSCF run.
   Statements only: each theorem is closed by [exact] of a lemma of Proofs/P_hc.v.
   Vocabulary (Model/M_hc.v): [run_ssi]/[run_pl] = the mask sequence of SSIdat(_MS).run / pLSCF(_MS).run on the
   UNFILTERED tables s; [ssi_keep h s i o] = "(conj enabled -> the conjugate of pole (i,o) occurs in the eigenvalue
   table) /\ 0 < xi < xi_max /\ MPC >= mpc_lim /\ MPD <= mpd_lim /\ (covariances present -> Fn_cov < cov_max)";
   [tbl_spec K t0 t i o] = "forall v, cell t i o = Some v <-> cell t0 i o = Some v /\ K" (None = nan). *)
From Coq Require Import List Arith ZArith QArith Bool Lia.
From Coq Require Import Qcanon Field.
From PyOMA.Base Require Import Argmin Carrier Cplx.
From PyOMA.Model Require Import M_hc M_indicators M_hc_inst.
From PyOMA.Proofs Require Import P_hc P_hc_inst.
Import ListNotations.
Open Scope Q_scope.

Section S.
Variable E : Type.                                 (* mode-shape entries *)
Variable EC : Type.                                (* mode-shape covariance entries *)
Variable mpc mpd : list (option E) -> option Q.    (* gen.MPC / gen.MPD, None = nan or raised: any functions *)

(* the four call sites are these two sequences *)
Theorem C09_call_sites :
  run_SSIdat E EC mpc mpd = run_ssi E EC mpc mpd /\ run_SSIdat_MS E EC mpc mpd = run_ssi E EC mpc mpd /\
  run_pLSCF E mpc mpd = run_pl E mpc mpd /\ run_pLSCF_MS E mpc mpd = run_pl E mpc mpd.
Proof. exact (conj eq_refl (conj eq_refl (conj eq_refl eq_refl))). Qed.

(* SSIdat / SSIcov / SSIdat_MS / SSIcov_MS: for every table set, NaN pattern and criteria record, cell (i,o) of the
   frequency, damping, mode-shape (every channel), eigenvalue, damping-covariance and shape-covariance tables is
   Some v after the run iff it was Some v before and the pole meets every enabled criterion; values unchanged. *)
Theorem C09_sound_complete_ssi : forall (h:hcrit) (s:ssi_tabs E EC) (i o:nat),
  let r := run_ssi E EC mpc mpd h s in
  let K := ssi_keep E EC mpc mpd h s i o in
  tbl_spec K (sFn s) (sFn r) i o /\ tbl_spec K (sXi s) (sXi r) i o /\ tbl3_spec K (sPhi s) (sPhi r) i o
  /\ tbl_spec K (sLam s) (sLam r) i o /\ otbl_spec K (sXiC s) (sXiC r) i o /\ otbl3_spec K (sPhiC s) (sPhiC r) i o.
Proof. exact (hc_sound_complete_ssi E EC mpc mpd). Qed.

(* the frequency-covariance table itself is returned as Fn_cov*mask with zeros turned into nan: the same statement
   holds for it when no surviving pole has a covariance equal to 0 (hypothesis forced by that idiom) *)
Theorem C09_sound_complete_ssi_cov : forall (h:hcrit) (s:ssi_tabs E EC),
  (forall F i o c, sFnC s = Some F -> cell F i o = Some c -> ssi_keep E EC mpc mpd h s i o -> ~ c == 0) ->
  forall i o, otbl_spec (ssi_keep E EC mpc mpd h s i o) (sFnC s) (sFnC (run_ssi E EC mpc mpd h s)) i o.
Proof. exact (hc_sound_complete_ssi_cov E EC mpc mpd). Qed.

(* one NaN pattern: where the unfiltered tables are jointly defined / jointly blank (flag b), the returned frequency,
   damping, mode-shape, eigenvalue, frequency-covariance and damping-covariance tables are jointly defined / blank
   (flag b'), and b' holds exactly when b does and the pole meets the criteria *)
Theorem C09_joint_nan_ssi : forall (h:hcrit) (s:ssi_tabs E EC),
  (forall F i o c, sFnC s = Some F -> cell F i o = Some c -> ssi_keep E EC mpc mpd h s i o -> ~ c == 0) ->
  forall i o b, ssi_joint E EC s i o b ->
  exists b', ssi_joint E EC (run_ssi E EC mpc mpd h s) i o b' /\ (b' = true <-> b = true /\ ssi_keep E EC mpc mpd h s i o).
Proof. exact (hc_joint_nan_ssi E EC mpc mpd). Qed.

(* "its complex conjugate is present" read on the RESULT: the code evaluates the conjugate criterion on the
   unfiltered eigenvalue table; when the other criteria decide alike for a pole and its conjugate (what exact
   conjugate pairs give), every eigenvalue left in the returned table has its conjugate left in the returned table *)
Theorem C09_conj_closed_ssi : forall (h:hcrit) (s:ssi_tabs E EC), hc_conj_on h = true ->
  (forall i o i' o' z z', cell (sLam s) i o = Some z -> cell (sLam s) i' o' = Some z' -> ceq z' (cconjq z) ->
     (ssi_other E EC mpc mpd h s i o <-> ssi_other E EC mpc mpd h s i' o')) ->
  forall i o z, cell (sLam (run_ssi E EC mpc mpd h s)) i o = Some z ->
  exists i' o' z', cell (sLam (run_ssi E EC mpc mpd h s)) i' o' = Some z' /\ ceq z' (cconjq z).
Proof. exact (hc_conj_closed_ssi E EC mpc mpd). Qed.

(* rows and orders are never dropped: every returned table has the dimensions of the unfiltered frequency table *)
Theorem C09_shape_ssi : forall (h:hcrit) (s:ssi_tabs E EC), wf_ssi E EC s = true ->
  let r := run_ssi E EC mpc mpd h s in let d := dims (sFn s) in
  dims (sFn r) = d /\ dims (sXi r) = d /\ dims (sPhi r) = d /\ dims (sLam r) = d
  /\ odimsP (sFnC r) d /\ odimsP (sXiC r) d /\ odimsP (sPhiC r) d.
Proof. exact (hc_shape_ssi E EC mpc mpd). Qed.

(* pLSCF / pLSCF_MS: returned tables are frequency, damping, mode shape *)
Theorem C09_sound_complete_pl : forall (h:hcrit) (s:pl_tabs E) (i o:nat),
  let r := run_pl E mpc mpd h s in
  let K := pl_keep E mpc mpd h s i o in
  tbl_spec K (pFn s) (pFn r) i o /\ tbl_spec K (pXi s) (pXi r) i o /\ tbl3_spec K (pPhi s) (pPhi r) i o.
Proof. exact (hc_sound_complete_pl E mpc mpd). Qed.

Theorem C09_joint_nan_pl : forall (h:hcrit) (s:pl_tabs E) i o b,
  pl_joint E s i o b ->
  exists b', pl_joint E (run_pl E mpc mpd h s) i o b' /\ (b' = true <-> b = true /\ pl_keep E mpc mpd h s i o).
Proof. exact (hc_joint_nan_pl E mpc mpd). Qed.

Theorem C09_conj_closed_pl : forall (h:hcrit) (s:pl_tabs E), hc_conj_on h = true ->
  (forall i o i' o' z z', cell (pLam s) i o = Some z -> cell (pLam s) i' o' = Some z' -> ceq z' (cconjq z) ->
     (pl_other E mpc mpd h s i o <-> pl_other E mpc mpd h s i' o')) ->
  forall i o, pl_keep E mpc mpd h s i o ->
  exists z i' o' z', cell (pLam s) i o = Some z /\ cell (pLam s) i' o' = Some z' /\ ceq z' (cconjq z)
                     /\ pl_keep E mpc mpd h s i' o'.
Proof. exact (hc_conj_closed_pl E mpc mpd). Qed.

Theorem C09_shape_pl : forall (h:hcrit) (s:pl_tabs E), wf_pl E s = true ->
  let r := run_pl E mpc mpd h s in
  dims (pFn r) = dims (pFn s) /\ dims (pXi r) = dims (pFn s) /\ dims (pPhi r) = dims (pFn s).
Proof. exact (hc_shape_pl E mpc mpd). Qed.
End S.

(* ---------------------------------------------------------------------------------------------------------------
   Order axis.  [sel_ssi sel s] = the table set whose column j is column sel[j] of s, for ANY list sel of orders
   (0, step, 2*step, ...; gaps; permuted; repeated).  [cell_spec K c0 c] = "forall v, c = Some v <-> c0 = Some v /\ K". *)
Section O.
Variable E : Type.
Variable EC : Type.
Variable mpc mpd : list (option E) -> option Q.

(* column j of every table returned for the orders sel holds exactly the poles of order n = sel[j] of the unfiltered
   solution that meet the criteria: damping, MPC, MPD and covariance of the pole itself - no reference to the labels n, j
   or to any other column - and the conjugate criterion among the eigenvalues handed over *)
Theorem C09_sound_complete_ssi_sel : forall (h:hcrit) (s:ssi_tabs E EC) (sel:list nat), cols_ok sel (sPhi s) ->
  forall i j n, nth_error sel j = Some n ->
  let r := run_ssi E EC mpc mpd h (sel_ssi sel s) in
  let K := (hc_conj_on h = true -> has_conj (sel_cols None sel (sLam s)) i j) /\ ssi_other E EC mpc mpd h s i n in
  cell_spec K (cell (sFn s) i n) (cell (sFn r) i j) /\ cell_spec K (cell (sXi s) i n) (cell (sXi r) i j)
  /\ (forall k, cell_spec K (cell3 (sPhi s) i n k) (cell3 (sPhi r) i j k))
  /\ cell_spec K (cell (sLam s) i n) (cell (sLam r) i j) /\ ocell_spec K (sXiC s) (sXiC r) i n j.
Proof. exact (hc_sound_complete_ssi_sel E EC mpc mpd). Qed.

(* when the conjugate of a pole sits in the column of the pole (one eigenvalue problem per order), running the criteria
   on any selection of orders gives the restriction of the full result: K is the criterion of C09_sound_complete_ssi *)
Theorem C09_sound_complete_ssi_orders : forall (h:hcrit) (s:ssi_tabs E EC) (sel:list nat), cols_ok sel (sPhi s) ->
  conj_local (sLam s) -> forall i j n, nth_error sel j = Some n ->
  let r := run_ssi E EC mpc mpd h (sel_ssi sel s) in
  let K := ssi_keep E EC mpc mpd h s i n in
  cell_spec K (cell (sFn s) i n) (cell (sFn r) i j) /\ cell_spec K (cell (sXi s) i n) (cell (sXi r) i j)
  /\ (forall k, cell_spec K (cell3 (sPhi s) i n k) (cell3 (sPhi r) i j k))
  /\ cell_spec K (cell (sLam s) i n) (cell (sLam r) i j) /\ ocell_spec K (sXiC s) (sXiC r) i n j.
Proof. exact (hc_sound_complete_ssi_orders E EC mpc mpd). Qed.

Theorem C09_sound_complete_pl_sel : forall (h:hcrit) (s:pl_tabs E) (sel:list nat), cols_ok sel (pPhi s) ->
  forall i j n, nth_error sel j = Some n ->
  let r := run_pl E mpc mpd h (sel_pl sel s) in
  let K := (hc_conj_on h = true -> has_conj (sel_cols None sel (pLam s)) i j) /\ pl_other E mpc mpd h s i n in
  cell_spec K (cell (pFn s) i n) (cell (pFn r) i j) /\ cell_spec K (cell (pXi s) i n) (cell (pXi r) i j)
  /\ (forall k, cell_spec K (cell3 (pPhi s) i n k) (cell3 (pPhi r) i j k)).
Proof. exact (hc_sound_complete_pl_sel E mpc mpd). Qed.
End O.

(* ---------------------------------------------------------------------------------------------------------------
   Indicators instantiated.  Generic carrier (every field): gen.MPC (np.cov + eigenvalues, Model/M_indicators.v) and the
   arccos arguments of gen.MPD do not see the sign of the imaginary part of the shape; [vconj] = entry-wise conjugate. *)
Theorem C09_mpc_conj : forall (R:Type) (K:Ops R),
  field_theory (o0 K) (o1 K) (oadd K) (omul K) (osub K) (oopp K) (odiv K) (oinv K) (@eq R) ->
  forall (isz:R -> bool) (n:nat) (phi:cvec R),
  mpc_o K isz n (vconj R K phi) = mpc_o K isz n phi /\ forall f, mpc_f K f n (vconj R K phi) = mpc_f K f n phi.
Proof. exact (fun R K Fth isz n phi => conj (mpc_o_conj R K Fth isz n phi) (fun f => mpc_f_conj R K Fth f n phi)). Qed.

(* the (weight^2, cosine^2) terms of gen.MPD for the conjugate shape and the mirrored singular vector (v0, -v1), or any
   non-zero multiple of it, are those of the shape with (v0, v1) *)
Theorem C09_mpd_terms_conj : forall (R:Type) (K:Ops R),
  field_theory (o0 K) (o1 K) (oadd K) (omul K) (osub K) (oopp K) (odiv K) (oinv K) (@eq R) ->
  forall (leb:R -> R -> bool) (isz:R -> bool), (forall x, isz x = true <-> x = o0 K) ->
  forall (n:nat) (phi:cvec R) (c v0 v1:R), c <> o0 K -> oadd K (omul K v0 v0) (omul K v1 v1) <> o0 K ->
  mpd_terms K leb isz n (vconj R K phi) (omul K c v0) (oopp K (omul K c v1)) = mpd_terms K leb isz n phi v0 v1.
Proof. exact mpd_terms_conj. Qed.

(* table cells: shapes are lists of optional Gaussian rationals; [mpc_inst], [mpd_inst sv2 sqrtf acosf] are gen.MPC / gen.MPD
   as HC_phi_comp sees them (None = nan or raised).  sv2 = np.linalg.svd (second right-singular vector), sqrtf / acosf =
   np.sqrt / np.arccos: ANY functions; the only contract used is that the vector returned for [Re, -Im] is a non-zero
   multiple of the mirror image of the one returned for [Re, Im], neither being the null vector. *)
Theorem C09_indicators_conj_inst : forall (v:shape),
  mpc_inst (conj_shape v) = mpc_inst v /\
  forall (sv2:list QcCplx -> Qc * Qc) (sqrtf acosf:Qc -> Qc),
  (forall x, qc_nz2 (sv2 x)) ->
  (forall x, exists c:Qc, c <> 0%Qc /\ sv2 (map cj x) = ((c * fst (sv2 x))%Qc, (- (c * snd (sv2 x)))%Qc)) ->
  mpd_inst sv2 sqrtf acosf (conj_shape v) = mpd_inst sv2 sqrtf acosf v.
Proof. exact (fun v => conj (mpc_inst_conj v) (fun sv2 sq ac H1 H2 => mpd_inst_conj sv2 sq ac H1 H2 v)). Qed.

(* ac2mp's damping ratio -(Re lam / abs lam) of the conjugate eigenvalue: abs = any function blind to the sign of Im *)
Theorem C09_damping_conj : forall (absf:cplx -> Q), (forall z z', ceq z' (cconjq z) -> absf z' == absf z) ->
  forall z z', ceq z' (cconjq z) -> oqeq (xi_of absf z') (xi_of absf z).
Proof. exact xi_of_conj. Qed.

(* conjugate closure WITHOUT any assumption on how the criteria decide: the unfiltered tables are as SSI_poles builds
   them - Xi is the damping of Lambds cell by cell ([xi_table]); every pole whose conjugate occurs in Lambds has a mirror
   image in the tables: conjugate eigenvalue, conjugate shape, same frequency covariance ([mirror_ssi]) - and then every
   eigenvalue left in the returned table has its conjugate left in the returned table, for all criteria values *)
Theorem C09_conj_closed_ssi_inst : forall (EC:Type) (absf:cplx -> Q) (sv2:list QcCplx -> Qc * Qc) (sqrtf acosf:Qc -> Qc),
  (forall z z', ceq z' (cconjq z) -> absf z' == absf z) ->
  (forall x, qc_nz2 (sv2 x)) ->
  (forall x, exists c:Qc, c <> 0%Qc /\ sv2 (map cj x) = ((c * fst (sv2 x))%Qc, (- (c * snd (sv2 x)))%Qc)) ->
  forall (h:hcrit) (s:ssi_tabs QcCplx EC), hc_conj_on h = true ->
  xi_table absf (sLam s) (sXi s) -> mirror_ssi s ->
  let r := run_ssi QcCplx EC mpc_inst (mpd_inst sv2 sqrtf acosf) h s in
  forall i o z, cell (sLam r) i o = Some z -> exists i' o' z', cell (sLam r) i' o' = Some z' /\ ceq z' (cconjq z).
Proof. exact (fun EC absf sv2 sq ac H1 H2 H3 => hc_conj_closed_ssi_inst absf sv2 sq ac H1 H2 H3 EC). Qed.

Theorem C09_conj_closed_pl_inst : forall (absf:cplx -> Q) (sv2:list QcCplx -> Qc * Qc) (sqrtf acosf:Qc -> Qc),
  (forall z z', ceq z' (cconjq z) -> absf z' == absf z) ->
  (forall x, qc_nz2 (sv2 x)) ->
  (forall x, exists c:Qc, c <> 0%Qc /\ sv2 (map cj x) = ((c * fst (sv2 x))%Qc, (- (c * snd (sv2 x)))%Qc)) ->
  forall (h:hcrit) (s:pl_tabs QcCplx), hc_conj_on h = true ->
  xi_table absf (pLam s) (pXi s) -> mirror_pl s ->
  forall i o, pl_keep QcCplx mpc_inst (mpd_inst sv2 sqrtf acosf) h s i o ->
  exists z i' o' z', cell (pLam s) i o = Some z /\ cell (pLam s) i' o' = Some z' /\ ceq z' (cconjq z)
                     /\ pl_keep QcCplx mpc_inst (mpd_inst sv2 sqrtf acosf) h s i' o'.
Proof. exact hc_conj_closed_pl_inst. Qed.

(* the mirror-image hypothesis in executable form: [mirror_ssib nr nc s] / [mirror_plb nr nc s] (every defined eigenvalue cell
   lies inside nr x nc; every pole whose conjugate occurs has a cell with the conjugate eigenvalue, the entry-wise conjugate
   shape and an equal frequency covariance) is evaluated by the harness on unfiltered tables of real runs *)
Theorem C09_mirror_structure_sound : forall (EC:Type) (nr nc:nat),
  (forall s:ssi_tabs QcCplx EC, mirror_ssib nr nc s = true -> mirror_ssi s) /\
  (forall s:pl_tabs QcCplx, mirror_plb nr nc s = true -> mirror_pl s).
Proof. exact (fun EC nr nc => conj (mirror_ssib_sound EC nr nc) (mirror_plb_sound nr nc)). Qed.

(* "the other criteria decide alike for a pole and its mirror image" is now a theorem (it was a hypothesis of
   C09_conj_closed_ssi) *)
Theorem C09_decide_alike_ssi : forall (EC:Type) (absf:cplx -> Q) (sv2:list QcCplx -> Qc * Qc) (sqrtf acosf:Qc -> Qc),
  (forall z z', ceq z' (cconjq z) -> absf z' == absf z) ->
  (forall x, qc_nz2 (sv2 x)) ->
  (forall x, exists c:Qc, c <> 0%Qc /\ sv2 (map cj x) = ((c * fst (sv2 x))%Qc, (- (c * snd (sv2 x)))%Qc)) ->
  forall (h:hcrit) (s:ssi_tabs QcCplx EC) i o i' o',
  xi_table absf (sLam s) (sXi s) -> mirror_cell (sLam s) (sPhi s) i o i' o' ->
  (forall F, sFnC s = Some F -> oqeq (cell F i' o') (cell F i o)) ->
  ssi_other QcCplx EC mpc_inst (mpd_inst sv2 sqrtf acosf) h s i o ->
  ssi_other QcCplx EC mpc_inst (mpd_inst sv2 sqrtf acosf) h s i' o'.
Proof. exact (fun EC absf sv2 sq ac H1 H2 H3 => ssi_other_mirror absf sv2 sq ac H1 H2 H3 EC). Qed.

Print Assumptions C09_call_sites.
Print Assumptions C09_sound_complete_ssi.
Print Assumptions C09_sound_complete_ssi_cov.
Print Assumptions C09_joint_nan_ssi.
Print Assumptions C09_conj_closed_ssi.
Print Assumptions C09_shape_ssi.
Print Assumptions C09_sound_complete_pl.
Print Assumptions C09_joint_nan_pl.
Print Assumptions C09_conj_closed_pl.
Print Assumptions C09_shape_pl.
Print Assumptions C09_sound_complete_ssi_sel.
Print Assumptions C09_sound_complete_ssi_orders.
Print Assumptions C09_sound_complete_pl_sel.
Print Assumptions C09_mpc_conj.
Print Assumptions C09_mpd_terms_conj.
Print Assumptions C09_indicators_conj_inst.
Print Assumptions C09_damping_conj.
Print Assumptions C09_conj_closed_ssi_inst.
Print Assumptions C09_conj_closed_pl_inst.
Print Assumptions C09_decide_alike_ssi.
Print Assumptions C09_mirror_structure_sound.

(* ---------------------------------------------------------------------------------------------------------------
   Non-vacuity.  2 rows x 6 orders, 2 channels, shapes as tokens, indicator values listed per cell (row-major).
   order 0: empty; order 1: a conjugate pair that meets everything; order 2: pair with xi = 1/2 > xi_max;
   order 3: two poles without conjugate; order 4: pair with MPC below the limit (row 0) / MPD above (row 1 too:
   both indicators are bad for both, so that the pair is treated alike); order 5: pair with covariance >= cov_max. *)
Definition ex_def : list (list bool) := [[false;true;true;true;true;true];[false;true;true;true;true;true]].
Definition ex_mpc : list (option Q) := [None; Some (9#10); Some (9#10); Some (9#10); Some (1#10); Some (9#10);
                                        None; Some (9#10); Some (9#10); Some (9#10); Some (1#10); Some (9#10)].
Definition ex_mpd : list (option Q) := [None; Some (1#10); Some (1#10); Some (1#10); Some (1#1); Some (1#10);
                                        None; Some (1#10); Some (1#10); Some (1#10); Some (1#1); Some (1#10)].
Definition ex_h : hcrit := {| hc_conj_on := true; hc_xi_max := 1#5; hc_mpc_lim := 1#2; hc_mpd_lim := 1#2; hc_cov_max := 1#4 |}.
Definition ex_s : ssi_tabs nat nat :=
  {| sFn  := [[None; Some (1#1); Some (2#1); Some (3#1); Some (4#1); Some (5#1)]; [None; Some (1#1); Some (2#1); Some (7#2); Some (4#1); Some (5#1)]];
     sXi  := [[None; Some (1#10); Some (1#2); Some (1#10); Some (1#10); Some (1#10)]; [None; Some (1#10); Some (1#2); Some (1#10); Some (1#10); Some (1#10)]];
     sPhi := tok_tbl3 2 6 2 ex_def;
     sLam := [[None; Some (-1#1, 2#1); Some (-1#1, 3#1); Some (-1#1, 4#1); Some (-1#1, 6#1); Some (-1#1, 7#1)];
              [None; Some (-1#1, -2#1); Some (-1#1, -3#1); Some (-2#1, 5#1); Some (-1#1, -6#1); Some (-1#1, -7#1)]];
     sFnC := Some [[None; Some (1#100); Some (1#100); Some (1#100); Some (1#100); Some (1#2)]; [None; Some (1#100); Some (1#100); Some (1#100); Some (1#100); Some (1#2)]];
     sXiC := Some [[None; Some (1#50); Some (1#50); Some (1#50); Some (1#50); Some (1#50)]; [None; Some (1#50); Some (1#50); Some (1#50); Some (1#50); Some (1#50)]];
     sPhiC := None |}.
Definition ex_run := run_ssi nat nat (tok_ind 2 ex_mpc) (tok_ind 2 ex_mpd) ex_h ex_s.
Definition pat {A} (t:tbl A) : list (list bool) := map (map is_some) t.

(* only the order-1 pair survives, in every table, with its values unchanged *)
Example C09_example_run :
  let keep := [[false;true;false;false;false;false];[false;true;false;false;false;false]] in
  wf_ssi nat nat ex_s = true /\
  pat (sFn ex_run) = keep /\ pat (sXi ex_run) = keep /\ pat (sLam ex_run) = keep /\
  option_map pat (sFnC ex_run) = Some keep /\ option_map pat (sXiC ex_run) = Some keep /\
  map (map (map is_some)) (sPhi ex_run) = [[[false;false];[true;true];[false;false];[false;false];[false;false];[false;false]];
                                           [[false;false];[true;true];[false;false];[false;false];[false;false];[false;false]]] /\
  cell (sXi ex_run) 1 1 = Some (1#10) /\ cell (sLam ex_run) 1 1 = Some (-1#1, -2#1) /\ cell3 (sPhi ex_run) 1 1 1 = Some 15%nat.
Proof. vm_compute. repeat split; reflexivity. Qed.

(* the hypotheses of C09_sound_complete_ssi_cov / C09_joint_nan_ssi / C09_conj_closed_ssi hold on this instance *)
Example C09_example_hyps :
  (forall F i o c, sFnC ex_s = Some F -> cell F i o = Some c ->
     ssi_keep nat nat (tok_ind 2 ex_mpc) (tok_ind 2 ex_mpd) ex_h ex_s i o -> ~ c == 0) /\
  ssi_joint nat nat ex_s 1 1 true /\ ssi_joint nat nat ex_s 0 0 false /\
  (forall i o i' o' z z', cell (sLam ex_s) i o = Some z -> cell (sLam ex_s) i' o' = Some z' -> ceq z' (cconjq z) ->
     (ssi_other nat nat (tok_ind 2 ex_mpc) (tok_ind 2 ex_mpd) ex_h ex_s i o <->
      ssi_other nat nat (tok_ind 2 ex_mpc) (tok_ind 2 ex_mpd) ex_h ex_s i' o')).
Proof.
  split; [|split; [|split]].
  - intros F i o c HF Hc _. inversion HF; subst F. clear HF.
    assert (Hin: In c (elems [[None; Some (1#100); Some (1#100); Some (1#100); Some (1#100); Some (1#2)];
                              [None; Some (1#100); Some (1#100); Some (1#100); Some (1#100); Some (1#2)]]))
      by (apply In_elems; exists i, o; exact Hc).
    cbn in Hin. intros Hz. repeat (destruct Hin as [<-|Hin]; [discriminate Hz|]). exact Hin.
  - unfold ssi_joint. repeat split; try reflexivity.
    + intros k Hk. vm_compute in Hk. destruct k as [|[|k]]; [reflexivity|reflexivity|lia].
    + intros F HF. inversion HF. reflexivity.
    + intros X HX. inversion HX. reflexivity.
  - unfold ssi_joint. repeat split; try reflexivity.
    + intros k Hk. vm_compute in Hk. destruct k as [|[|k]]; [reflexivity|reflexivity|lia].
    + intros F HF. inversion HF. reflexivity.
    + intros X HX. inversion HX. reflexivity.
  - intros i o i' o' z z' Hz Hz' He. rewrite <- !ssi_otherb_iff.
    destruct i as [|[|i]]; destruct o as [|[|[|[|[|[|o]]]]]]; vm_compute in Hz; try discriminate Hz;
    try (destruct i; vm_compute in Hz; discriminate Hz); try (destruct o; vm_compute in Hz; discriminate Hz);
    destruct i' as [|[|i']]; destruct o' as [|[|[|[|[|[|o']]]]]]; vm_compute in Hz'; try discriminate Hz';
    try (destruct i'; vm_compute in Hz'; discriminate Hz'); try (destruct o'; vm_compute in Hz'; discriminate Hz');
    inversion Hz; subst z; inversion Hz'; subst z'; destruct He as [He1 He2];
    vm_compute in He1; vm_compute in He2; try discriminate He1; try discriminate He2;
    vm_compute; tauto.
Qed.

(* the hypothesis of C09_sound_complete_ssi_cov is necessary: a surviving pole whose covariance is exactly 0 is
   blanked in the frequency-covariance table alone *)
Example C09_example_zero_cov :
  let s := {| sFn := [[Some (1#1)]]; sXi := [[Some (1#10)]]; sPhi := tok_tbl3 1 1 2 [[true]]; sLam := [[Some (-1#1, 0#1)]];
              sFnC := Some [[Some (0#1)]]; sXiC := Some [[Some (1#50)]]; sPhiC := @None (tbl3 nat) |} in
  let r := run_ssi nat nat (tok_ind 2 [Some (9#10)]) (tok_ind 2 [Some (1#10)]) ex_h s in
  cell (sFn r) 0 0 = Some (1#1) /\ option_map (fun F => cell F 0 0) (sFnC r) = Some None.
Proof. vm_compute. split; reflexivity. Qed.

(* ---------------------------------------------------------------------------------------------------------------
   Non-vacuity of the instantiated theorems.  2 rows x 2 orders, 3 channels, shapes as Gaussian rationals.
   order 0: a conjugate pair with conjugate shapes; order 1: a real eigenvalue with a real shape (its own mirror image)
   and a pole without conjugate.  abs := |z|^2, sv2 := the constant vector (0,1), sqrt := id, arccos := 1 - x
   (the theorems hold for every choice; these are rational stand-ins so that the run can be evaluated). *)
Definition qh (a:Z) (b:positive) : Qc := Q2Qc (a # b).
Definition ex2_v : shape := [Some (qh 1 1, qh 0 1); Some (qh 1 2, qh 1 4); Some (qh (-1) 2, qh 1 4)].
Definition ex2_w : shape := [Some (qh 1 1, qh 0 1); Some (qh 1 2, qh 0 1); Some (qh (-1) 1, qh 0 1)].
Definition ex2_u : shape := [Some (qh 1 1, qh 1 1); Some (qh 1 2, qh (-1) 1); Some (qh 0 1, qh 1 3)].
Definition ex2_abs (z:cplx) : Q := fst z * fst z + snd z * snd z.
Definition ex2_sv2 (x:list QcCplx) : Qc * Qc := (qh 0 1, qh 1 1).
Definition ex2_sqrt (x:Qc) : Qc := x.
Definition ex2_acos (x:Qc) : Qc := (1 - x)%Qc.
Definition ex2_s : ssi_tabs QcCplx nat :=
  {| sFn := [[Some (1#1); Some (2#1)]; [Some (1#1); Some (3#1)]];
     sXi := [[Some (1#5); Some (1#2)]; [Some (1#5); Some (2#13)]];
     sPhi := [[ex2_v; ex2_w]; [conj_shape ex2_v; ex2_u]];
     sLam := [[Some (-1#1, 2#1); Some (-2#1, 0#1)]; [Some (-1#1, -2#1); Some (-2#1, 3#1)]];
     sFnC := Some [[Some (1#100); Some (1#50)]; [Some (1#100); Some (1#25)]];
     sXiC := Some [[Some (1#10); Some (1#10)]; [Some (1#10); Some (1#10)]]; sPhiC := None |}.
Definition ex2_h : hcrit := {| hc_conj_on := true; hc_xi_max := 3#5; hc_mpc_lim := 1#2; hc_mpd_lim := 1#2; hc_cov_max := 1#30 |}.
Definition ex2_run := run_ssi QcCplx nat mpc_inst (mpd_inst ex2_sv2 ex2_sqrt ex2_acos) ex2_h ex2_s.
Definition ex2_run_sel := run_ssi QcCplx nat mpc_inst (mpd_inst ex2_sv2 ex2_sqrt ex2_acos) ex2_h (sel_ssi [1%nat; 0%nat; 1%nat] ex2_s).

(* the kernel contracts and the table-structure hypotheses of C09_conj_closed_ssi_inst hold on this instance *)
Example C09_example_inst_hyps :
  (forall z z', ceq z' (cconjq z) -> ex2_abs z' == ex2_abs z) /\
  (forall x, qc_nz2 (ex2_sv2 x)) /\
  (forall x, exists c:Qc, c <> 0%Qc /\ ex2_sv2 (map cj x) = ((c * fst (ex2_sv2 x))%Qc, (- (c * snd (ex2_sv2 x)))%Qc)) /\
  xi_table ex2_abs (sLam ex2_s) (sXi ex2_s) /\ mirror_ssi ex2_s /\
  cols_ok [1%nat; 0%nat; 1%nat] (sPhi ex2_s) /\ conj_local (sLam ex2_s).
Proof.
  split; [|split; [|split; [|split; [|split; [|split]]]]].
  - intros z z' [H1 H2]. unfold ex2_abs. cbn [cconjq fst snd] in H1, H2. rewrite H1, H2. ring.
  - intros x H. vm_compute in H. discriminate H.
  - intros x. exists (qh (-1) 1). split; [intros H; vm_compute in H; discriminate H|].
    unfold ex2_sv2. cbn [fst snd]. f_equal; apply Qc_is_canon; vm_compute; reflexivity.
  - intros i o z Hz.
    destruct i as [|[|i]]; destruct o as [|[|o]]; vm_compute in Hz; try discriminate Hz;
    try (destruct i; vm_compute in Hz; discriminate Hz); try (destruct o; vm_compute in Hz; discriminate Hz);
    inversion Hz; subst z; vm_compute; reflexivity.
  - intros i o Hc. apply conj_okb_iff in Hc.
    destruct i as [|[|i]]; destruct o as [|[|o]]; vm_compute in Hc; try discriminate Hc;
    try (destruct i; vm_compute in Hc; discriminate Hc); try (destruct o; vm_compute in Hc; discriminate Hc).
    + exists 1%nat, 0%nat. split.
      * exists (-1#1, 2#1), (-1#1, -2#1), ex2_v. repeat split; reflexivity.
      * intros F HF. inversion HF; subst F. vm_compute. reflexivity.
    + exists 0%nat, 1%nat. split.
      * exists (-2#1, 0#1), (-2#1, 0#1), ex2_w. repeat split; reflexivity.
      * intros F HF. inversion HF; subst F. vm_compute. reflexivity.
    + exists 0%nat, 0%nat. split.
      * exists (-1#1, -2#1), (-1#1, 2#1), (conj_shape ex2_v). repeat split; reflexivity.
      * intros F HF. inversion HF; subst F. vm_compute. reflexivity.
  - intros r n Hr Hn. cbn in Hr, Hn. destruct Hr as [<-|[<-|[]]]; destruct Hn as [<-|[<-|[<-|[]]]]; cbn; lia.
  - intros i o Hc. apply conj_okb_iff in Hc.
    destruct i as [|[|i]]; destruct o as [|[|o]]; vm_compute in Hc; try discriminate Hc;
    try (destruct i; vm_compute in Hc; discriminate Hc); try (destruct o; vm_compute in Hc; discriminate Hc).
    + exists (-1#1, 2#1), 1%nat, (-1#1, -2#1). repeat split; reflexivity.
    + exists (-2#1, 0#1), 0%nat, (-2#1, 0#1). repeat split; reflexivity.
    + exists (-1#1, -2#1), 0%nat, (-1#1, 2#1). repeat split; reflexivity.
Qed.

(* the pair and the real pole survive in every table with unchanged values, the pole without conjugate goes; on the
   order columns [1;0;1] the result is the same poles, relabelled *)
Example C09_example_inst_run :
  let keep := [[true;true];[true;false]] in
  pat (sFn ex2_run) = keep /\ pat (sLam ex2_run) = keep /\ option_map pat (sFnC ex2_run) = Some keep
  /\ cell (sLam ex2_run) 1 0 = Some (-1#1, -2#1) /\ vget (sPhi ex2_run) 1 0 = Some (conj_shape ex2_v)
  /\ map (map mpc_inst) (sPhi ex2_s) = [[Some (793 # 841); Some 1]; [Some (793 # 841); Some (8521 # 19321)]]
  /\ map (map (mpd_inst ex2_sv2 ex2_sqrt ex2_acos)) (sPhi ex2_s) = [[Some (1 # 13); Some 0]; [Some (1 # 13); Some (76 # 121)]]
  /\ pat (sFn ex2_run_sel) = [[true;true;true];[false;true;false]]
  /\ cell (sLam ex2_run_sel) 1 1 = Some (-1#1, -2#1).
Proof. vm_compute. repeat split; reflexivity. Qed.

(* the executable form of the mirror-image hypothesis holds on the instance (and fails when one shape of the pair is not
   the conjugate of the other) *)
Example C09_example_mirrorb :
  mirror_ssib 2 2 ex2_s = true /\
  mirror_ssib 2 2 {| sFn := sFn ex2_s; sXi := sXi ex2_s; sPhi := [[ex2_v; ex2_w]; [ex2_v; ex2_u]]; sLam := sLam ex2_s;
                     sFnC := sFnC ex2_s; sXiC := sXiC ex2_s; sPhiC := sPhiC ex2_s |} = false.
Proof. vm_compute. split; reflexivity. Qed.
