(* C20 - proofs about Model/M_plot_full.v: error bars (one per drawn marker with a finite deviation, at the marker, with the
   pole's own width), axis limits never change the markers, the cluster diagram and the stabilisation diagram with error
   bars draw the same poles, CMIF curves over the whole grid, the classes' plot methods are the plot functions on the
   result tables.  Closed under the global context. *)
From Coq Require Import String List Arith ZArith QArith Qabs Bool Lia ZifyBool.
From PyOMA.Model Require Import M_plot M_plot_full.
From PyOMA.Proofs Require Import P_plot.
Import ListNotations.

(* ------------------------------------------------------------------ generic facts *)
Lemma zipw2_get2 {A B C} (g:A->B->C) (a:list (list A)) (b:list (list B)) i o x y :
  get2 a i o = Some x -> get2 b i o = Some y -> get2 (zipw (zipw g) a b) i o = Some (g x y).
Proof.
  unfold get2. intros H1 H2. rewrite zipw_nth_error.
  destruct (nth_error a i) as [ra|]; [|discriminate]. destruct (nth_error b i) as [rb|]; [|discriminate].
  rewrite zipw_nth_error, H1, H2. reflexivity.
Qed.
Lemma zipw2_rect {A B C} (g:A->B->C) rows cols (a:list (list A)) (b:list (list B)) :
  rect rows cols a -> rect rows cols b -> rect rows cols (zipw (zipw g) a b).
Proof.
  intros [Hl1 Ha1] [Hl2 Ha2]. split.
  - rewrite zipw_length; congruence.
  - apply zipw_Forall_length; assumption.
Qed.

Lemma bars_index {Y} (x:list (option Q)) : forall (y:list Y) (xe:list (option Q)) N,
  length x = N -> length y = N -> length xe = N ->
  bars x y xe = flat_map (fun k => match nth_error x k, nth_error y k, nth_error xe k with
                                   | Some (Some f), Some v, Some (Some e) => [(f, v, e)] | _, _, _ => [] end) (seq 0 N).
Proof.
  induction x as [|a x IH]; intros y xe N Hx Hy He.
  - cbn in Hx. subst N. reflexivity.
  - destruct y as [|b y]; [cbn in *; lia|]. destruct xe as [|e xe]; [cbn in *; lia|]. destruct N as [|N]; [discriminate|].
    rewrite flat_map_seq_S. unfold bars. cbn [combine flat_map nth_error]. fold (bars x y xe).
    rewrite (IH y xe N) by (cbn in *; lia). destruct a, e; reflexivity.
Qed.

Lemma map_fst_combine {A B} (a:list A) : forall (b:list B), length a = length b -> map fst (combine a b) = a.
Proof. induction a as [|x a IH]; intros [|y b] H; cbn in *; try reflexivity; try discriminate. rewrite IH by lia. reflexivity. Qed.
Lemma map_snd_combine {A B} (a:list A) : forall (b:list B), length a = length b -> map snd (combine a b) = b.
Proof. induction a as [|x a IH]; intros [|y b] H; cbn in *; try reflexivity; try discriminate. rewrite IH by lia. reflexivity. Qed.

(* ------------------------------------------------------------------ markers do not depend on limits / deviations *)
Lemma stab_diagram_markers Fn Lab step ordmax ordmin freqlim hide cov :
  (sd_stable (stab_diagram Fn Lab step ordmax ordmin freqlim hide cov),
   sd_unstable (stab_diagram Fn Lab step ordmax ordmin freqlim hide cov)) = stab_markers Fn Lab step hide.
Proof. unfold stab_diagram, stab_markers. cbn [sd_stable sd_unstable]. destruct hide; reflexivity. Qed.

Lemma stab_diagram_limits Fn Lab step ordmax ordmin freqlim hide cov :
  sd_xlim (stab_diagram Fn Lab step ordmax ordmin freqlim hide cov) = freqlim /\
  sd_ylim (stab_diagram Fn Lab step ordmax ordmin freqlim hide cov) = (if hide then None else Some (ordmin, (ordmax + 1)%Z)).
Proof. split; reflexivity. Qed.

(* frequency limits, order limits and deviations never change which markers exist; the limits never change the bars *)
Theorem limits_only_limits Fn Lab step hide cov ordmax ordmin freqlim ordmax' ordmin' freqlim' cov' :
  let d := stab_diagram Fn Lab step ordmax ordmin freqlim hide cov in
  let d' := stab_diagram Fn Lab step ordmax' ordmin' freqlim' hide cov' in
  sd_stable d = sd_stable d' /\ sd_unstable d = sd_unstable d' /\
  (cov = cov' -> sd_bs_small d = sd_bs_small d' /\ sd_bs_big d = sd_bs_big d' /\
                 sd_bu_small d = sd_bu_small d' /\ sd_bu_big d = sd_bu_big d') /\
  sd_xlim d = freqlim /\ sd_xlim d' = freqlim'.
Proof.
  cbn zeta. split; [reflexivity|]. split; [reflexivity|]. split; [|split; reflexivity].
  intros <-. repeat split; reflexivity.
Qed.

Lemma cluster_diagram_markers Fn Xi Lab ordmin freqlim hide :
  (cd_stable (cluster_diagram Fn Xi Lab ordmin freqlim hide), cd_unstable (cluster_diagram Fn Xi Lab ordmin freqlim hide))
  = cluster_markers Fn Xi Lab hide /\ cd_xlim (cluster_diagram Fn Xi Lab ordmin freqlim hide) = freqlim.
Proof. unfold cluster_diagram. cbn [cd_stable cd_unstable cd_xlim]. split; [symmetry; apply surjective_pairing|reflexivity]. Qed.

(* without a deviation table there is no bar *)
Lemma no_cov_no_bars Fn Lab step ordmax ordmin freqlim hide :
  let d := stab_diagram Fn Lab step ordmax ordmin freqlim hide None in
  sd_bs_small d = [] /\ sd_bs_big d = [] /\ sd_bu_small d = [] /\ sd_bu_big d = [].
Proof.
  cbn zeta. unfold stab_diagram. cbn [sd_bs_small sd_bs_big sd_bu_small sd_bu_big map].
  assert (H : forall Y (x:list (option Q)) (y:list Y), bars x y [] = []).
  { intros Y x y. unfold bars. destruct (combine x y); reflexivity. }
  rewrite !H. destruct hide; repeat split; reflexivity.
Qed.

(* ------------------------------------------------------------------ error bars *)
Definition selb (l:Z) (big:bool) (Fn Cov:qtab) (Lab:ztab) (c:nat*nat) : bool :=
  match get2 Lab (fst c) (snd c), get2 Fn (fst c) (snd c), get2 Cov (fst c) (snd c) with
  | Some lb, Some (Some f), Some (Some cv) => Z.eqb lb l && Bool.eqb (Qle_bool (Qabs (cv * f)) half) (negb big)
  | _, _, _ => false
  end.

Lemma selb_iff l big (Fn Cov:qtab) Lab rows cols i o :
  ((i < rows /\ o < cols)%nat /\ selb l big Fn Cov Lab (i, o) = true) <-> bar_cell Fn Cov Lab l big rows cols i o.
Proof.
  unfold selb, bar_cell, pole_with_label. cbn [fst snd]. split.
  - intros [[Hi Ho] H]. destruct (get2 Lab i o) as [lb|]; [|discriminate].
    destruct (get2 Fn i o) as [[f|]|]; try discriminate. destruct (get2 Cov i o) as [[cv|]|]; try discriminate.
    apply andb_true_iff in H. destruct H as [H1 H2]. apply Z.eqb_eq in H1. apply eqb_prop in H2. subst lb.
    split; [repeat split; eauto|]. exists cv, f. repeat split; try reflexivity. exact H2.
  - intros ((Hi & Ho & HLab & f0 & HFn0) & cv & f & HCov & HFn & Hq). rewrite HLab, HFn, HCov.
    split; [split; assumption|]. rewrite Z.eqb_refl, Hq. cbn. apply eqb_reflx.
Qed.

Definition xerr_pick (big:bool) : option Q -> option Q := if big then xerr_big else xerr_small.

Lemma bars_half l big rows cols (Fn Cov:qtab) Lab step :
  rect rows cols Fn -> rect rows cols Lab -> rect rows cols Cov ->
  Forall2 (bar_at Fn Cov step) (cells rows cols (selb l big Fn Cov Lab))
          (bars (flattenF (where_lab l Lab Fn)) (order_axis rows (rows * cols) step)
                (map (xerr_pick big) (flattenF (xerr_tab Cov Fn)))).
Proof.
  intros HF HL HC. pose proof (where_lab_rect l rows cols Lab Fn HL HF) as HW.
  pose proof (zipw2_rect xerr_cell rows cols Cov Fn HC HF) as HX. fold (xerr_tab Cov Fn) in HX.
  rewrite (bars_index _ _ _ (rows * cols))
    by (try rewrite map_length; try apply flattenF_length; try apply order_axis_length; assumption).
  unfold cells. rewrite filter_as_flat_map, flat_map_map_comp.
  apply Forall2_flat_map. intros k Hk. apply in_seq in Hk.
  rewrite nth_error_map_opt.
  rewrite !(flatten_F_index rows cols) by (try assumption; lia). rewrite order_axis_nth by lia.
  assert (Hr : rows <> 0%nat) by nia.
  assert (Hi : (k mod rows < rows)%nat) by (apply Nat.mod_upper_bound; exact Hr).
  assert (Ho : (k / rows < cols)%nat) by (apply Nat.div_lt_upper_bound; lia).
  destruct (rect_get2 _ _ _ _ _ HL Hi Ho) as (lb & HLab). destruct (rect_get2 _ _ _ _ _ HF Hi Ho) as (v & HFn).
  destruct (rect_get2 _ _ _ _ _ HC Hi Ho) as (cv & HCov).
  rewrite (where_lab_get2 l Lab Fn _ _ lb v HLab HFn).
  unfold xerr_tab. rewrite (zipw2_get2 xerr_cell Cov Fn _ _ cv v HCov HFn).
  unfold selb, cell_of. cbn [fst snd option_map]. rewrite HLab, HFn, HCov.
  unfold xerr_pick, xerr_small, xerr_big.
  destruct v as [f|]; destruct cv as [c|]; cbn [xerr_cell]; destruct (Z.eqb lb l); destruct big; cbn [andb negb];
    try (apply Forall2_nil).
  all: destruct (Qle_bool (Qabs (c * f)) half) eqn:Eq; cbn [Bool.eqb]; try (apply Forall2_nil);
    (apply Forall2_cons; [|apply Forall2_nil]); unfold bar_at; cbn [fst snd];
    (split; [exact HFn|]); (split; [reflexivity|]); exists c; (split; [exact HCov|]); unfold errw; rewrite Eq; reflexivity.
Qed.

Lemma stab_diagram_bars_unfold rows cols (Fn Cov:qtab) Lab step ordmax ordmin freqlim hide :
  rect rows cols Fn -> rect rows cols Lab ->
  let d := stab_diagram Fn Lab step ordmax ordmin freqlim hide (Some Cov) in
  let y := order_axis rows (rows * cols) step in
  let xe := flattenF (xerr_tab Cov Fn) in
  sd_bs_small d = bars (flattenF (where_lab 1 Lab Fn)) y (map (xerr_pick false) xe) /\
  sd_bs_big d = bars (flattenF (where_lab 1 Lab Fn)) y (map (xerr_pick true) xe) /\
  sd_bu_small d = (if hide then [] else bars (flattenF (where_lab 0 Lab Fn)) y (map (xerr_pick false) xe)) /\
  sd_bu_big d = (if hide then [] else bars (flattenF (where_lab 0 Lab Fn)) y (map (xerr_pick true) xe)).
Proof.
  intros HF HL. cbn zeta. unfold stab_diagram. cbn [sd_bs_small sd_bs_big sd_bu_small sd_bu_big].
  pose proof (where_lab_rect 1 rows cols Lab Fn HL HF) as H1. pose proof (where_lab_rect 0 rows cols Lab Fn HL HF) as H0.
  rewrite (flattenF_length rows cols _ H1). destruct H1 as [E1 _]. destruct H0 as [E0 _]. rewrite E1, E0.
  repeat split; reflexivity.
Qed.

(* ERROR BARS, exactness.  ss / sb (us / ub) enumerate without repetition exactly the retained poles labelled 1 (0) whose
   deviation is finite and whose |cov * f| is <= 1/2 / > 1/2; the four bar families are in one-to-one positional
   correspondence with them: one bar per such pole, centred at the pole's marker (frequency, column * step), with
   half-width errw of the pole's OWN deviation cell; rejected poles, poles with a nan deviation and - with hide = true -
   unstable poles are in no enumeration: no bar. *)
Theorem errbars_exact rows cols (Fn Cov:qtab) Lab step ordmax ordmin freqlim hide :
  rect rows cols Fn -> rect rows cols Lab -> rect rows cols Cov ->
  let d := stab_diagram Fn Lab step ordmax ordmin freqlim hide (Some Cov) in
  exists ss sb us ub : list (nat*nat),
    NoDup ss /\ NoDup sb /\ NoDup us /\ NoDup ub /\
    (forall i o, In (i, o) ss <-> bar_cell Fn Cov Lab 1 false rows cols i o) /\
    (forall i o, In (i, o) sb <-> bar_cell Fn Cov Lab 1 true rows cols i o) /\
    (forall i o, In (i, o) us <-> hide = false /\ bar_cell Fn Cov Lab 0 false rows cols i o) /\
    (forall i o, In (i, o) ub <-> hide = false /\ bar_cell Fn Cov Lab 0 true rows cols i o) /\
    Forall2 (bar_at Fn Cov step) ss (sd_bs_small d) /\ Forall2 (bar_at Fn Cov step) sb (sd_bs_big d) /\
    Forall2 (bar_at Fn Cov step) us (sd_bu_small d) /\ Forall2 (bar_at Fn Cov step) ub (sd_bu_big d).
Proof.
  intros HF HL HC. cbn zeta.
  destruct (stab_diagram_bars_unfold rows cols Fn Cov Lab step ordmax ordmin freqlim hide HF HL) as (E1 & E2 & E3 & E4).
  rewrite E1, E2, E3, E4.
  exists (cells rows cols (selb 1 false Fn Cov Lab)), (cells rows cols (selb 1 true Fn Cov Lab)),
         (if hide then [] else cells rows cols (selb 0 false Fn Cov Lab)),
         (if hide then [] else cells rows cols (selb 0 true Fn Cov Lab)).
  split; [apply cells_NoDup|]. split; [apply cells_NoDup|].
  split; [destruct hide; [constructor|apply cells_NoDup]|]. split; [destruct hide; [constructor|apply cells_NoDup]|].
  split; [intros i o; rewrite cells_In; apply selb_iff|]. split; [intros i o; rewrite cells_In; apply selb_iff|].
  split.
  { intros i o. destruct hide.
    - split; [intros []|intros [H _]; discriminate].
    - rewrite cells_In, selb_iff. tauto. }
  split.
  { intros i o. destruct hide.
    - split; [intros []|intros [H _]; discriminate].
    - rewrite cells_In, selb_iff. tauto. }
  split; [apply bars_half; assumption|]. split; [apply bars_half; assumption|].
  split; destruct hide; try constructor; apply bars_half; assumption.
Qed.

(* a pole with a finite deviation is in exactly one of the two width classes *)
Lemma bar_cell_exclusive (Fn Cov:qtab) Lab l rows cols i o :
  bar_cell Fn Cov Lab l false rows cols i o -> bar_cell Fn Cov Lab l true rows cols i o -> False.
Proof.
  intros (_ & cv & f & HC & HF & Hq) (_ & cv' & f' & HC' & HF' & Hq').
  rewrite HC in HC'. rewrite HF in HF'. inversion HC'; inversion HF'; subst. rewrite Hq in Hq'. discriminate.
Qed.
Lemma bar_cell_total (Fn Cov:qtab) Lab l rows cols i o cv :
  pole_with_label Fn Lab l rows cols i o -> get2 Cov i o = Some (Some cv) ->
  bar_cell Fn Cov Lab l false rows cols i o \/ bar_cell Fn Cov Lab l true rows cols i o.
Proof.
  intros HP HC. pose proof HP as (_ & _ & _ & f & HF).
  destruct (Qle_bool (Qabs (cv * f)) half) eqn:Eq; [left|right]; (split; [exact HP|]); exists cv, f; repeat split; assumption.
Qed.

(* every bar sits on a drawn marker of its own family and carries that pole's own width; nothing is invented *)
Corollary errbar_sound rows cols (Fn Cov:qtab) Lab step ordmax ordmin freqlim hide f y e :
  rect rows cols Fn -> rect rows cols Lab -> rect rows cols Cov ->
  let d := stab_diagram Fn Lab step ordmax ordmin freqlim hide (Some Cov) in
  (In (f, y, e) (sd_bs_small d ++ sd_bs_big d) ->
     In (f, y) (sd_stable d) /\
     exists i o cv, pole_with_label Fn Lab 1 rows cols i o /\ get2 Fn i o = Some (Some f) /\ y = (Z.of_nat o * step)%Z /\
                    get2 Cov i o = Some (Some cv) /\ e = errw cv f) /\
  (In (f, y, e) (sd_bu_small d ++ sd_bu_big d) ->
     hide = false /\ In (f, y) (sd_unstable d) /\
     exists i o cv, pole_with_label Fn Lab 0 rows cols i o /\ get2 Fn i o = Some (Some f) /\ y = (Z.of_nat o * step)%Z /\
                    get2 Cov i o = Some (Some cv) /\ e = errw cv f).
Proof.
  intros HF HL HC. cbn zeta.
  destruct (errbars_exact rows cols Fn Cov Lab step ordmax ordmin freqlim hide HF HL HC)
    as (ss & sb & us & ub & _ & _ & _ & _ & Hss & Hsb & Hus & Hub & F1 & F2 & F3 & F4).
  pose proof (stab_diagram_markers Fn Lab step ordmax ordmin freqlim hide (Some Cov)) as EM.
  destruct (stab_exact rows cols Fn Lab step hide HF HL) as (cs & cu & _ & Hcs & G1 & _ & Hcu & G2).
  rewrite <- EM in G1, G2. cbn [fst snd] in G1, G2.
  assert (Hmk : forall (ms:list (Q*Z)) (cl:list (nat*nat)) i o, Forall2 (marker_at Fn step) cl ms -> In (i, o) cl ->
                 get2 Fn i o = Some (Some f) -> In (f, (Z.of_nat o * step)%Z) ms).
  { intros ms cl i o F Hin HFn. destruct (Forall2_In_l _ _ _ _ F Hin) as ([f' y'] & Hm & Hg & Hy). cbn [fst snd] in *.
    rewrite HFn in Hg. inversion Hg; subst. exact Hm. }
  split; intros Hin; apply in_app_or in Hin.
  - assert (Hc : exists i o, (bar_cell Fn Cov Lab 1 false rows cols i o \/ bar_cell Fn Cov Lab 1 true rows cols i o) /\
                             bar_at Fn Cov step (i, o) (f, y, e)).
    { destruct Hin as [Hin|Hin].
      - destruct (Forall2_In_r _ _ _ _ F1 Hin) as ([i o] & Hc & Hb). exists i, o. split; [left; apply Hss; exact Hc|exact Hb].
      - destruct (Forall2_In_r _ _ _ _ F2 Hin) as ([i o] & Hc & Hb). exists i, o. split; [right; apply Hsb; exact Hc|exact Hb]. }
    destruct Hc as (i & o & Hbc & HFn & Hy & cv & HCov & He). cbn [fst snd] in *.
    assert (HP : pole_with_label Fn Lab 1 rows cols i o) by (destruct Hbc as [[H _]|[H _]]; exact H).
    split.
    + subst y. apply (Hmk _ cs i o G1); [apply Hcs; exact HP|exact HFn].
    + exists i, o, cv. split; [exact HP|]. split; [exact HFn|]. split; [exact Hy|]. split; [exact HCov|exact He].
  - assert (Hc : exists i o, hide = false /\
                             (bar_cell Fn Cov Lab 0 false rows cols i o \/ bar_cell Fn Cov Lab 0 true rows cols i o) /\
                             bar_at Fn Cov step (i, o) (f, y, e)).
    { destruct Hin as [Hin|Hin].
      - destruct (Forall2_In_r _ _ _ _ F3 Hin) as ([i o] & Hc & Hb). apply Hus in Hc. destruct Hc as [Hh Hc].
        exists i, o. split; [exact Hh|]. split; [left; exact Hc|exact Hb].
      - destruct (Forall2_In_r _ _ _ _ F4 Hin) as ([i o] & Hc & Hb). apply Hub in Hc. destruct Hc as [Hh Hc].
        exists i, o. split; [exact Hh|]. split; [right; exact Hc|exact Hb]. }
    destruct Hc as (i & o & Hh & Hbc & HFn & Hy & cv & HCov & He). cbn [fst snd] in *.
    assert (HP : pole_with_label Fn Lab 0 rows cols i o) by (destruct Hbc as [[H _]|[H _]]; exact H).
    split; [exact Hh|]. split.
    + subst y. apply (Hmk _ cu i o G2); [apply Hcu; split; [exact Hh|exact HP]|exact HFn].
    + exists i, o, cv. split; [exact HP|]. split; [exact HFn|]. split; [exact Hy|]. split; [exact HCov|exact He].
Qed.

(* every drawn marker whose pole has a finite deviation carries its bar (stable always, unstable when shown) *)
Corollary errbar_complete rows cols (Fn Cov:qtab) Lab step ordmax ordmin freqlim hide i o f cv :
  rect rows cols Fn -> rect rows cols Lab -> rect rows cols Cov ->
  get2 Fn i o = Some (Some f) -> get2 Cov i o = Some (Some cv) ->
  let d := stab_diagram Fn Lab step ordmax ordmin freqlim hide (Some Cov) in
  (pole_with_label Fn Lab 1 rows cols i o -> In (f, (Z.of_nat o * step)%Z, errw cv f) (sd_bs_small d ++ sd_bs_big d)) /\
  (hide = false -> pole_with_label Fn Lab 0 rows cols i o ->
     In (f, (Z.of_nat o * step)%Z, errw cv f) (sd_bu_small d ++ sd_bu_big d)).
Proof.
  intros HF HL HC HFn HCov. cbn zeta.
  destruct (errbars_exact rows cols Fn Cov Lab step ordmax ordmin freqlim hide HF HL HC)
    as (ss & sb & us & ub & _ & _ & _ & _ & Hss & Hsb & Hus & Hub & F1 & F2 & F3 & F4).
  assert (Hbar : forall (bs:list (Q*Z*Q)) (cl:list (nat*nat)), Forall2 (bar_at Fn Cov step) cl bs -> In (i, o) cl ->
                 In (f, (Z.of_nat o * step)%Z, errw cv f) bs).
  { intros bs cl F Hin. destruct (Forall2_In_l _ _ _ _ F Hin) as ([[f' y'] e'] & Hm & Hg & Hy & cv' & Hc' & He').
    cbn [fst snd] in *. rewrite HFn in Hg. rewrite HCov in Hc'. inversion Hg; inversion Hc'; subst. exact Hm. }
  split.
  - intros HP. apply in_or_app. destruct (bar_cell_total Fn Cov Lab 1 rows cols i o cv HP HCov) as [H|H].
    + left. apply (Hbar _ ss F1). apply Hss. exact H.
    + right. apply (Hbar _ sb F2). apply Hsb. exact H.
  - intros Hh HP. apply in_or_app. destruct (bar_cell_total Fn Cov Lab 0 rows cols i o cv HP HCov) as [H|H].
    + left. apply (Hbar _ us F3). apply Hus. split; assumption.
    + right. apply (Hbar _ ub F4). apply Hub. split; assumption.
Qed.

(* the width: the pole's own |cov * f| when that is at most 1/2, else exactly 1/2 *)
Lemma errw_spec cv f : (Qabs (cv * f) <= half -> errw cv f = Qabs (cv * f)) /\ (~ Qabs (cv * f) <= half -> errw cv f = half) /\
                       0 <= errw cv f /\ errw cv f <= half.
Proof.
  unfold errw. destruct (Qle_bool (Qabs (cv * f)) half) eqn:E.
  - apply Qle_bool_iff in E. split; [intros _; reflexivity|]. split; [tauto|]. split; [apply Qabs_nonneg|exact E].
  - assert (N : ~ Qabs (cv * f) <= half) by (intros H; apply Qle_bool_iff in H; congruence).
    split; [tauto|]. split; [intros _; reflexivity|]. split; [unfold half, Qle; cbn; lia|apply Qle_refl].
Qed.

(* ------------------------------------------------------------------ same poles, full diagrams *)
Theorem same_poles_full rows cols (Fn Xi:qtab) Lab step hide cov ordmax ordmin freqlim ordmin' freqlim' :
  rect rows cols Fn -> rect rows cols Xi -> rect rows cols Lab ->
  (forall i o, (exists f, get2 Fn i o = Some (Some f)) <-> (exists d, get2 Xi i o = Some (Some d))) ->
  let d := stab_diagram Fn Lab step ordmax ordmin freqlim hide cov in
  let dc := cluster_diagram Fn Xi Lab ordmin' freqlim' hide in
  exists cs cu : list (nat*nat),
    NoDup cs /\ (forall i o, In (i, o) cs <-> pole_with_label Fn Lab 1 rows cols i o) /\
    Forall2 (marker_at Fn step) cs (sd_stable d) /\ Forall2 (cluster_at Fn Xi) cs (cd_stable dc) /\
    NoDup cu /\ (forall i o, In (i, o) cu <-> hide = false /\ pole_with_label Fn Lab 0 rows cols i o) /\
    Forall2 (marker_at Fn step) cu (sd_unstable d) /\ Forall2 (cluster_at Fn Xi) cu (cd_unstable dc).
Proof.
  intros HF HX HL Hsame. cbn zeta.
  pose proof (stab_diagram_markers Fn Lab step ordmax ordmin freqlim hide cov) as EM.
  destruct (same_poles rows cols Fn Xi Lab step hide HF HX HL Hsame) as (cs & cu & H1 & H2 & H3 & H4 & H5 & H6 & H7 & H8).
  rewrite <- EM in H3, H7. cbn [fst snd] in H3, H7.
  exists cs, cu. exact (conj H1 (conj H2 (conj H3 (conj H4 (conj H5 (conj H6 (conj H7 H8))))))).
Qed.

(* ------------------------------------------------------------------ CMIF with grid and limits *)
Theorem cmif_full_spec {Y} (db:Q->Y) n nf S freq freqlim nSv : cube n nf S -> (0 < n)%nat -> (0 < nf)%nat -> length freq = nf ->
  match requested n nSv with
  | None => cmif_diagram db S freq freqlim nSv = PErr PValueErr
  | Some m => (m <= n)%nat /\ exists d0 mx dg, diag3 S 0 = Some d0 /\ is_max d0 mx /\
       cmif_diagram db S freq freqlim nSv = POk dg /\ md_xlim dg = freqlim /\
       Forall2 (fun k c => exists d, diag3 S k = Some d /\ map fst c = freq /\ map snd c = map (fun v => db (v / mx)) d)
               (seq 0 m) (md_curves dg)
  end.
Proof.
  intros HS Hn Hnf Hfreq. pose proof (cmif_spec n nf S nSv HS Hn Hnf) as H. unfold cmif_diagram.
  destruct (requested n nSv) as [m|]; [|rewrite H; reflexivity].
  destruct H as (Hm & d0 & mx & cs & Hd0 & Hmx & Hcs & HF). split; [exact Hm|].
  rewrite Hcs.
  assert (Hall : forallb (fun c => Nat.eqb (length c) (length freq)) cs = true).
  { apply forallb_forall. intros c Hc. destruct (Forall2_In_r _ _ _ _ HF Hc) as (k & _ & d & _ & Hl & ->).
    rewrite map_length. apply Nat.eqb_eq. congruence. }
  rewrite Hall. exists d0, mx. eexists. split; [exact Hd0|]. split; [exact Hmx|]. split; [reflexivity|].
  cbn [md_xlim md_curves]. split; [reflexivity|].
  clear Hall Hcs. induction HF as [|k c ks cs' (d & Hd & Hl & Hc) _ IH]; cbn [map]; constructor; [|exact IH].
  exists d. split; [exact Hd|]. subst c.
  split; [apply map_fst_combine|rewrite map_snd_combine, map_map; [reflexivity|]]; rewrite !map_length; congruence.
Qed.

(* a grid of another length than the singular-value array: no diagram as soon as one curve is due *)
Lemma cmif_grid_mismatch {Y} (db:Q->Y) n nf S freq freqlim nSv m : cube n nf S -> (0 < n)%nat -> (0 < nf)%nat ->
  length freq <> nf -> requested n nSv = Some m -> (0 < m)%nat -> cmif_diagram db S freq freqlim nSv = PErr PValueErr.
Proof.
  intros HS Hn Hnf Hfreq Hreq Hm. pose proof (cmif_spec n nf S nSv HS Hn Hnf) as H. rewrite Hreq in H.
  destruct H as (_ & d0 & mx & cs & _ & _ & Hcs & HF). unfold cmif_diagram. rewrite Hcs.
  destruct m as [|m]; [lia|]. cbn [seq] in HF. inversion HF as [|k c ks cs' HR _ E1 E2]. destruct HR as (d & _ & Hl & Hc). subst cs c.
  cbn [forallb]. rewrite map_length, Hl.
  destruct (Nat.eqb nf (length freq)) eqn:E; [apply Nat.eqb_eq in E; congruence|reflexivity].
Qed.

(* ------------------------------------------------------------------ the classes' plot methods *)
(* plot_stab of a class = stab_plot on the result's own tables with the class's step *)
Theorem class_stab_is_function c (r:pole_res qtab ztab) rs freqlim hide :
  class_stab_diagram c (Some r) rs freqlim hide =
    (if is_ssi c then Called (stab_diagram (pr_Fn r) (pr_Lab r) (rs_step rs) (rs_ordmax rs) (rs_ordmin rs) freqlim hide (pr_cov r))
     else if is_plscf c then Called (stab_diagram (pr_Fn r) (pr_Lab r) 1 (rs_ordmax rs) (rs_ordmin rs) freqlim hide None)
     else NoMethod) /\
  class_stab_diagram c None rs freqlim hide = (if (is_ssi c || is_plscf c)%bool then NotRun else NoMethod).
Proof. destruct c; split; reflexivity. Qed.

Theorem class_cluster_is_function c (r:pole_res qtab ztab) rs freqlim hide :
  class_cluster_diagram c (Some r) rs freqlim hide =
    (if (is_ssi c || is_plscf c)%bool then Called (cluster_diagram (pr_Fn r) (pr_Xi r) (pr_Lab r) (rs_ordmin rs) freqlim hide)
     else NoMethod) /\
  class_cluster_diagram c None rs freqlim hide = (if (is_ssi c || is_plscf c)%bool then NotRun else NoMethod).
Proof. destruct c; split; reflexivity. Qed.

Theorem class_cmif_is_function {Y} (db:Q->Y) c (r:spec_res (list (list (list Q))) (list Q)) freqlim nSv :
  class_cmif_diagram db c (Some r) freqlim nSv =
    (if is_fdd c then Called (cmif_diagram db (sr_S r) (sr_freq r) freqlim nSv) else NoMethod) /\
  class_cmif_diagram db c None freqlim nSv = (if is_fdd c then NotRun else NoMethod).
Proof. destruct c; split; reflexivity. Qed.

(* the multi-setup classes and the derived classes forward exactly as their base class *)
Theorem class_family_same {T L V F} (res:option (pole_res T L)) (sres:option (spec_res V F)) rs freqlim hide nSv :
  (forall c, is_ssi c = true -> class_plot_stab c res rs freqlim hide = class_plot_stab SSIdat res rs freqlim hide /\
                                class_plot_cluster c res rs freqlim hide = class_plot_cluster SSIdat res rs freqlim hide) /\
  (forall c, is_plscf c = true -> class_plot_stab c res rs freqlim hide = class_plot_stab pLSCF res rs freqlim hide /\
                                  class_plot_cluster c res rs freqlim hide = class_plot_cluster pLSCF res rs freqlim hide) /\
  (forall c, is_fdd c = true -> class_plot_cmif c sres freqlim nSv = class_plot_cmif FDD sres freqlim nSv).
Proof. repeat split; destruct c; try discriminate; reflexivity. Qed.

(* CLASS LEVEL, exactness: the stabilisation diagram returned by a class's plot_stab shows exactly the retained poles of the
   result's own tables, one marker each at (frequency, column * class step); class step = the run step for SSI, 1 for pLSCF *)
Theorem class_stab_exact c (r:pole_res qtab ztab) rs freqlim hide rows cols :
  (is_ssi c || is_plscf c)%bool = true -> rect rows cols (pr_Fn r) -> rect rows cols (pr_Lab r) ->
  exists d, class_stab_diagram c (Some r) rs freqlim hide = Called d /\ sd_xlim d = freqlim /\
  exists cs cu : list (nat*nat),
    NoDup cs /\ (forall i o, In (i, o) cs <-> pole_with_label (pr_Fn r) (pr_Lab r) 1 rows cols i o) /\
    Forall2 (marker_at (pr_Fn r) (class_step c rs)) cs (sd_stable d) /\
    NoDup cu /\ (forall i o, In (i, o) cu <-> hide = false /\ pole_with_label (pr_Fn r) (pr_Lab r) 0 rows cols i o) /\
    Forall2 (marker_at (pr_Fn r) (class_step c rs)) cu (sd_unstable d).
Proof.
  intros Hc HF HL.
  assert (E : exists cov, class_stab_diagram c (Some r) rs freqlim hide =
                          Called (stab_diagram (pr_Fn r) (pr_Lab r) (class_step c rs) (rs_ordmax rs) (rs_ordmin rs) freqlim hide cov)).
  { destruct c; try discriminate; eexists; reflexivity. }
  destruct E as (cov & E). eexists. split; [exact E|]. split; [reflexivity|].
  pose proof (stab_diagram_markers (pr_Fn r) (pr_Lab r) (class_step c rs) (rs_ordmax rs) (rs_ordmin rs) freqlim hide cov) as EM.
  destruct (stab_exact rows cols (pr_Fn r) (pr_Lab r) (class_step c rs) hide HF HL) as (cs & cu & H1 & H2 & H3 & H4 & H5 & H6).
  rewrite <- EM in H3, H6. cbn [fst snd] in H3, H6. exists cs, cu.
  exact (conj H1 (conj H2 (conj H3 (conj H4 (conj H5 H6))))).
Qed.

(* CLASS LEVEL, same poles: plot_stab and plot_cluster of one class on one result show the same poles *)
Theorem class_same_poles c (r:pole_res qtab ztab) rs freqlim freqlim' hide rows cols :
  (is_ssi c || is_plscf c)%bool = true ->
  rect rows cols (pr_Fn r) -> rect rows cols (pr_Xi r) -> rect rows cols (pr_Lab r) ->
  (forall i o, (exists f, get2 (pr_Fn r) i o = Some (Some f)) <-> (exists d, get2 (pr_Xi r) i o = Some (Some d))) ->
  exists d dc, class_stab_diagram c (Some r) rs freqlim hide = Called d /\
               class_cluster_diagram c (Some r) rs freqlim' hide = Called dc /\
  exists cs cu : list (nat*nat),
    NoDup cs /\ (forall i o, In (i, o) cs <-> pole_with_label (pr_Fn r) (pr_Lab r) 1 rows cols i o) /\
    Forall2 (marker_at (pr_Fn r) (class_step c rs)) cs (sd_stable d) /\ Forall2 (cluster_at (pr_Fn r) (pr_Xi r)) cs (cd_stable dc) /\
    NoDup cu /\ (forall i o, In (i, o) cu <-> hide = false /\ pole_with_label (pr_Fn r) (pr_Lab r) 0 rows cols i o) /\
    Forall2 (marker_at (pr_Fn r) (class_step c rs)) cu (sd_unstable d) /\ Forall2 (cluster_at (pr_Fn r) (pr_Xi r)) cu (cd_unstable dc).
Proof.
  intros Hc HF HX HL Hsame.
  assert (E : exists cov, class_stab_diagram c (Some r) rs freqlim hide =
                          Called (stab_diagram (pr_Fn r) (pr_Lab r) (class_step c rs) (rs_ordmax rs) (rs_ordmin rs) freqlim hide cov)).
  { destruct c; try discriminate; eexists; reflexivity. }
  destruct E as (cov & E).
  assert (E2 : class_cluster_diagram c (Some r) rs freqlim' hide =
               Called (cluster_diagram (pr_Fn r) (pr_Xi r) (pr_Lab r) (rs_ordmin rs) freqlim' hide)).
  { destruct c; try discriminate; reflexivity. }
  eexists. eexists. split; [exact E|]. split; [exact E2|].
  exact (same_poles_full rows cols (pr_Fn r) (pr_Xi r) (pr_Lab r) (class_step c rs) hide cov (rs_ordmax rs) (rs_ordmin rs) freqlim
                         (rs_ordmin rs) freqlim' HF HX HL Hsame).
Qed.

(* CLASS LEVEL, error bars: only the SSI classes draw them, from the result's own deviation table *)
Theorem class_errbars c (r:pole_res qtab ztab) rs freqlim hide :
  (is_plscf c = true -> exists d, class_stab_diagram c (Some r) rs freqlim hide = Called d /\
      sd_bs_small d = [] /\ sd_bs_big d = [] /\ sd_bu_small d = [] /\ sd_bu_big d = []) /\
  (is_ssi c = true -> class_stab_diagram c (Some r) rs freqlim hide =
      Called (stab_diagram (pr_Fn r) (pr_Lab r) (rs_step rs) (rs_ordmax rs) (rs_ordmin rs) freqlim hide (pr_cov r))).
Proof.
  split; intros Hc.
  - eexists. split; [destruct c; try discriminate; reflexivity|].
    apply (no_cov_no_bars (pr_Fn r) (pr_Lab r) 1 (rs_ordmax rs) (rs_ordmin rs) freqlim hide).
  - destruct c; try discriminate; reflexivity.
Qed.

(* ------------------------------------------------------------------ grouped statements (one audit each in Properties/C20.v) *)
Theorem errbar_sound_complete rows cols (Fn Cov:qtab) Lab step ordmax ordmin freqlim hide :
  rect rows cols Fn -> rect rows cols Lab -> rect rows cols Cov ->
  let d := stab_diagram Fn Lab step ordmax ordmin freqlim hide (Some Cov) in
  (forall f y e,
    (In (f, y, e) (sd_bs_small d ++ sd_bs_big d) ->
       In (f, y) (sd_stable d) /\
       exists i o cv, pole_with_label Fn Lab 1 rows cols i o /\ get2 Fn i o = Some (Some f) /\ y = (Z.of_nat o * step)%Z /\
                      get2 Cov i o = Some (Some cv) /\ e = errw cv f) /\
    (In (f, y, e) (sd_bu_small d ++ sd_bu_big d) ->
       hide = false /\ In (f, y) (sd_unstable d) /\
       exists i o cv, pole_with_label Fn Lab 0 rows cols i o /\ get2 Fn i o = Some (Some f) /\ y = (Z.of_nat o * step)%Z /\
                      get2 Cov i o = Some (Some cv) /\ e = errw cv f)) /\
  (forall i o f cv, get2 Fn i o = Some (Some f) -> get2 Cov i o = Some (Some cv) ->
    (pole_with_label Fn Lab 1 rows cols i o -> In (f, (Z.of_nat o * step)%Z, errw cv f) (sd_bs_small d ++ sd_bs_big d)) /\
    (hide = false -> pole_with_label Fn Lab 0 rows cols i o ->
       In (f, (Z.of_nat o * step)%Z, errw cv f) (sd_bu_small d ++ sd_bu_big d))).
Proof.
  intros HF HL HC. cbn zeta. split.
  - intros f y e. exact (errbar_sound rows cols Fn Cov Lab step ordmax ordmin freqlim hide f y e HF HL HC).
  - intros i o f cv HFn HCov. exact (errbar_complete rows cols Fn Cov Lab step ordmax ordmin freqlim hide i o f cv HF HL HC HFn HCov).
Qed.

Theorem errbar_one_class_width (Fn Cov:qtab) Lab l rows cols i o :
  (bar_cell Fn Cov Lab l false rows cols i o -> bar_cell Fn Cov Lab l true rows cols i o -> False) /\
  (forall cv, pole_with_label Fn Lab l rows cols i o -> get2 Cov i o = Some (Some cv) ->
     bar_cell Fn Cov Lab l false rows cols i o \/ bar_cell Fn Cov Lab l true rows cols i o) /\
  (forall cv f, (Qabs (cv * f) <= half -> errw cv f = Qabs (cv * f)) /\ (~ Qabs (cv * f) <= half -> errw cv f = half) /\
                0 <= errw cv f /\ errw cv f <= half).
Proof. split; [apply bar_cell_exclusive|]. split; [intros cv; apply bar_cell_total|exact errw_spec]. Qed.

Theorem diagram_invariance Fn Xi Lab step hide cov ordmax ordmin freqlim ordmax' ordmin' freqlim' :
  let d := stab_diagram Fn Lab step ordmax ordmin freqlim hide cov in
  let d' := stab_diagram Fn Lab step ordmax' ordmin' freqlim' hide cov in
  let d0 := stab_diagram Fn Lab step ordmax ordmin freqlim hide None in
  let dc := cluster_diagram Fn Xi Lab ordmin freqlim hide in
  (sd_stable d, sd_unstable d) = stab_markers Fn Lab step hide /\ sd_xlim d = freqlim /\
  sd_bs_small d = sd_bs_small d' /\ sd_bs_big d = sd_bs_big d' /\ sd_bu_small d = sd_bu_small d' /\ sd_bu_big d = sd_bu_big d' /\
  sd_bs_small d0 = [] /\ sd_bs_big d0 = [] /\ sd_bu_small d0 = [] /\ sd_bu_big d0 = [] /\
  (cd_stable dc, cd_unstable dc) = cluster_markers Fn Xi Lab hide /\ cd_xlim dc = freqlim.
Proof.
  cbn zeta. split; [apply stab_diagram_markers|]. split; [reflexivity|].
  split; [reflexivity|]. split; [reflexivity|]. split; [reflexivity|]. split; [reflexivity|].
  destruct (no_cov_no_bars Fn Lab step ordmax ordmin freqlim hide) as (A & B & C & D).
  split; [exact A|]. split; [exact B|]. split; [exact C|]. split; [exact D|]. apply cluster_diagram_markers.
Qed.

Theorem cmif_full {Y} (db:Q->Y) n nf S freq freqlim nSv : cube n nf S -> (0 < n)%nat -> (0 < nf)%nat ->
  (length freq = nf ->
   match requested n nSv with
   | None => cmif_diagram db S freq freqlim nSv = PErr PValueErr
   | Some m => (m <= n)%nat /\ exists d0 mx dg, diag3 S 0 = Some d0 /\ is_max d0 mx /\
        cmif_diagram db S freq freqlim nSv = POk dg /\ md_xlim dg = freqlim /\
        Forall2 (fun k c => exists d, diag3 S k = Some d /\ map fst c = freq /\ map snd c = map (fun v => db (v / mx)) d)
                (seq 0 m) (md_curves dg)
   end) /\
  (length freq <> nf -> forall m, requested n nSv = Some m -> (0 < m)%nat -> cmif_diagram db S freq freqlim nSv = PErr PValueErr).
Proof.
  intros HS Hn Hnf. split.
  - intros Hl. apply (cmif_full_spec db n nf S freq freqlim nSv); assumption.
  - intros Hl m Hr Hm. apply (cmif_grid_mismatch db n nf S freq freqlim nSv m); assumption.
Qed.

Theorem class_methods_are_functions {Y} (db:Q->Y) c (r:pole_res qtab ztab) (sr:spec_res (list (list (list Q))) (list Q))
  rs freqlim hide nSv :
  class_stab_diagram c (Some r) rs freqlim hide =
    (if is_ssi c then Called (stab_diagram (pr_Fn r) (pr_Lab r) (rs_step rs) (rs_ordmax rs) (rs_ordmin rs) freqlim hide (pr_cov r))
     else if is_plscf c then Called (stab_diagram (pr_Fn r) (pr_Lab r) 1 (rs_ordmax rs) (rs_ordmin rs) freqlim hide None)
     else NoMethod) /\
  class_cluster_diagram c (Some r) rs freqlim hide =
    (if (is_ssi c || is_plscf c)%bool then Called (cluster_diagram (pr_Fn r) (pr_Xi r) (pr_Lab r) (rs_ordmin rs) freqlim hide)
     else NoMethod) /\
  class_cmif_diagram db c (Some sr) freqlim nSv =
    (if is_fdd c then Called (cmif_diagram db (sr_S sr) (sr_freq sr) freqlim nSv) else NoMethod) /\
  class_stab_diagram c None rs freqlim hide = (if (is_ssi c || is_plscf c)%bool then NotRun else NoMethod) /\
  class_cluster_diagram c None rs freqlim hide = (if (is_ssi c || is_plscf c)%bool then NotRun else NoMethod) /\
  class_cmif_diagram db c None freqlim nSv = (if is_fdd c then NotRun else NoMethod) /\
  (is_plscf c = true -> exists d, class_stab_diagram c (Some r) rs freqlim hide = Called d /\
      sd_bs_small d = [] /\ sd_bs_big d = [] /\ sd_bu_small d = [] /\ sd_bu_big d = []).
Proof.
  split; [apply class_stab_is_function|]. split; [apply class_cluster_is_function|].
  split; [apply (class_cmif_is_function db)|]. split; [apply (class_stab_is_function c r)|].
  split; [apply (class_cluster_is_function c r)|]. split; [apply (class_cmif_is_function db c sr)|].
  apply class_errbars.
Qed.

Theorem class_exact c (r:pole_res qtab ztab) rs freqlim freqlim' hide rows cols :
  (is_ssi c || is_plscf c)%bool = true -> rect rows cols (pr_Fn r) -> rect rows cols (pr_Lab r) ->
  (exists d, class_stab_diagram c (Some r) rs freqlim hide = Called d /\ sd_xlim d = freqlim /\
   exists cs cu : list (nat*nat),
     NoDup cs /\ (forall i o, In (i, o) cs <-> pole_with_label (pr_Fn r) (pr_Lab r) 1 rows cols i o) /\
     Forall2 (marker_at (pr_Fn r) (class_step c rs)) cs (sd_stable d) /\
     NoDup cu /\ (forall i o, In (i, o) cu <-> hide = false /\ pole_with_label (pr_Fn r) (pr_Lab r) 0 rows cols i o) /\
     Forall2 (marker_at (pr_Fn r) (class_step c rs)) cu (sd_unstable d)) /\
  (rect rows cols (pr_Xi r) ->
   (forall i o, (exists f, get2 (pr_Fn r) i o = Some (Some f)) <-> (exists d, get2 (pr_Xi r) i o = Some (Some d))) ->
   exists d dc, class_stab_diagram c (Some r) rs freqlim hide = Called d /\
                class_cluster_diagram c (Some r) rs freqlim' hide = Called dc /\
   exists cs cu : list (nat*nat),
     NoDup cs /\ (forall i o, In (i, o) cs <-> pole_with_label (pr_Fn r) (pr_Lab r) 1 rows cols i o) /\
     Forall2 (marker_at (pr_Fn r) (class_step c rs)) cs (sd_stable d) /\ Forall2 (cluster_at (pr_Fn r) (pr_Xi r)) cs (cd_stable dc) /\
     NoDup cu /\ (forall i o, In (i, o) cu <-> hide = false /\ pole_with_label (pr_Fn r) (pr_Lab r) 0 rows cols i o) /\
     Forall2 (marker_at (pr_Fn r) (class_step c rs)) cu (sd_unstable d) /\ Forall2 (cluster_at (pr_Fn r) (pr_Xi r)) cu (cd_unstable dc)).
Proof.
  intros Hc HF HL. split.
  - apply class_stab_exact; assumption.
  - intros HX Hsame. apply class_same_poles; assumption.
Qed.
