(* C11 - lemmas about the model of SSI_mpe / pLSCF_mpe (Model/M_mpe.v). *)
From Coq Require Import List Arith ZArith QArith Qabs Bool Lia Sorted Setoid Morphisms.
From PyOMA.Base Require Import Argmin.
From PyOMA.Model Require Import M_mpe.
Import ListNotations.
Open Scope Q_scope.

(* ------------------------------------------------------------------------------------------------------- *)
(* tables *)

Lemma getcol_nth {A} (T:list (list A)) c col : getcol T c = Some col ->
  length col = length T /\ forall r, (r < length T)%nat -> nth_error col r = cell T r c.
Proof.
  revert col. induction T as [|row T IH]; intros col H; cbn [getcol] in H.
  - inversion H; subst. split; [reflexivity|]. intros r Hr. cbn in Hr. lia.
  - destruct (nth_error row c) as [x|] eqn:Ex; [|discriminate].
    destruct (getcol T c) as [l|] eqn:El; [|discriminate]. inversion H; subst; clear H.
    destruct (IH l eq_refl) as [Hlen Hnth]. split; [cbn; lia|].
    intros [|r] Hr; unfold cell; cbn [nth_error].
    + symmetry; exact Ex.
    + cbn in Hr. rewrite Hnth by lia. reflexivity.
Qed.

Lemma getcol_cell {A} (T:list (list A)) c col r x : getcol T c = Some col -> nth_error col r = Some x -> cell T r c = Some x.
Proof.
  intros H Hx. destruct (getcol_nth T c col H) as [Hlen Hnth].
  rewrite <- Hnth; [exact Hx|]. rewrite <- Hlen. apply nth_error_Some. rewrite Hx. discriminate.
Qed.

Lemma getcol_some {A} (T:list (list A)) c : (forall row, In row T -> (c < length row)%nat) -> exists col, getcol T c = Some col.
Proof.
  induction T as [|row T IH]; intros H; cbn [getcol].
  - eauto.
  - destruct (nth_error row c) as [x|] eqn:Ex.
    + destruct IH as [l Hl]; [intros; apply H; right; assumption|]. rewrite Hl. eauto.
    + exfalso. apply nth_error_None in Ex. specialize (H row (or_introl eq_refl)). lia.
Qed.

Lemma getcol_map {A B} (g:A->B) (T:list (list A)) c : getcol (map (map g) T) c = option_map (map g) (getcol T c).
Proof.
  induction T as [|row T IH]; cbn [map getcol option_map]; [reflexivity|].
  rewrite nth_error_map, IH. destruct (nth_error row c); cbn; [|reflexivity].
  destruct (getcol T c); reflexivity.
Qed.

Lemma cell_rect {A} n m (T:list (list A)) r c : rect n m T -> (r < n)%nat -> (c < m)%nat -> exists x, cell T r c = Some x.
Proof.
  intros [Hn Hm] Hr Hc. unfold cell.
  destruct (nth_error T r) as [row|] eqn:Er.
  - rewrite Forall_forall in Hm. specialize (Hm row (nth_error_In _ _ Er)).
    destruct (nth_error row c) as [x|] eqn:Ex; [eauto|]. apply nth_error_None in Ex. lia.
  - apply nth_error_None in Er. lia.
Qed.

(* ------------------------------------------------------------------------------------------------------- *)
(* np.isclose *)

Lemma isclose_spec rtol a b : isclose rtol a b = true <-> Qabs (a - b) <= atol + rtol * Qabs b.
Proof. unfold isclose. apply Qle_bool_iff. Qed.

Lemma isclose_false rtol a b : isclose rtol a b = false <-> atol + rtol * Qabs b < Qabs (a - b).
Proof.
  unfold isclose. split.
  - intros H. apply Qnot_le_lt. intros Hle. apply Qle_bool_iff in Hle. congruence.
  - intros H. destruct (Qle_bool _ _) eqn:E; [|reflexivity]. apply Qle_bool_iff in E. exfalso. apply (Qlt_not_le _ _ H E).
Qed.

Lemma isclose_Qeq rtol a a' b : a == a' -> isclose rtol a b = isclose rtol a' b.
Proof.
  intros H. destruct (isclose rtol a' b) eqn:E.
  - apply isclose_spec. apply isclose_spec in E. rewrite H. exact E.
  - apply isclose_false. apply isclose_false in E. rewrite H. exact E.
Qed.

(* ------------------------------------------------------------------------------------------------------- *)
(* distances *)

Lemma dists_nth col f r : nth_error (dists col f) r =
  match nth_error col r with Some (Some p) => Some (Some (Qabs (p - f))) | Some None => Some None | None => None end.
Proof. unfold dists. rewrite nth_error_map. destruct (nth_error col r) as [[p|]|]; reflexivity. Qed.

Lemma dists_some col f r d : nth_error (dists col f) r = Some (Some d) -> exists p, nth_error col r = Some (Some p) /\ d = Qabs (p - f).
Proof. rewrite dists_nth. destruct (nth_error col r) as [[p|]|]; intros H; inversion H. eauto. Qed.

(* ------------------------------------------------------------------------------------------------------- *)
(* explicit order: one request *)

Lemma pick1_spec Fn rtol f oc s : pick1 Fn rtol f oc = Ok s ->
  exists c col r d p, oc = Some c /\ getcol Fn c = Some col /\ is_first_argmin (dists col f) r d /\
    nth_error col r = Some (Some p) /\ d = Qabs (p - f) /\
    s = (if isclose rtol p f then Some (r,c) else None).
Proof.
  unfold pick1. destruct oc as [c|]; [|discriminate].
  destruct (getcol Fn c) as [col|] eqn:Ec; [|discriminate].
  pose proof (nanargmin_spec (dists col f)) as Hs.
  destruct (nanargmin (dists col f)) as [[r d]|]; [|discriminate].
  destruct (dists_some col f r d (proj1 Hs)) as (p & Hp & Hd). rewrite Hp.
  intros H. exists c, col, r, d, p. repeat split; try assumption; try (destruct Hs as (?&?&?); assumption).
  destruct (isclose rtol p f); inversion H; reflexivity.
Qed.

(* the defensive branch of pick1 is dead, and the exceptions are exactly: order list too short / column out of
   range (IndexError), no retained pole at that order (ValueError of np.nanargmin) *)
Lemma pick1_err Fn rtol f oc e : pick1 Fn rtol f oc = Err e ->
  (e = IndexErr /\ (oc = None \/ exists c, oc = Some c /\ getcol Fn c = None)) \/
  (e = ValueErr /\ exists c col, oc = Some c /\ getcol Fn c = Some col /\ forall r, (r < length col)%nat -> nth_error col r = Some None).
Proof.
  unfold pick1. destruct oc as [c|]; [|intros H; inversion H; left; auto].
  destruct (getcol Fn c) as [col|] eqn:Ec; [|intros H; inversion H; left; split; [reflexivity|right; eauto]].
  pose proof (nanargmin_spec (dists col f)) as Hs.
  destruct (nanargmin (dists col f)) as [[r d]|].
  - destruct (dists_some col f r d (proj1 Hs)) as (p & Hp & Hd). rewrite Hp. destruct (isclose rtol p f); discriminate.
  - intros H; inversion H. right. split; [reflexivity|]. exists c, col. split; [reflexivity|]. split; [exact Ec|].
    intros r Hr. assert (Hr' : (r < length (dists col f))%nat) by (unfold dists; rewrite map_length; exact Hr).
    specialize (Hs r Hr'). rewrite dists_nth in Hs.
    destruct (nth_error col r) as [[p|]|] eqn:E; try discriminate; try reflexivity.
Qed.

Lemma pick1_total Fn rtol f c col r p : getcol Fn c = Some col -> nth_error col r = Some (Some p) ->
  exists s, pick1 Fn rtol f (Some c) = Ok s.
Proof.
  intros Hc Hp. destruct (pick1 Fn rtol f (Some c)) as [s|e] eqn:E; [eauto|exfalso].
  destruct (pick1_err _ _ _ _ _ E) as [[_ [H|(c'&H&Hn)]]|[_ (c'&col'&H&Hg&Hall)]]; try discriminate.
  - inversion H; subst. congruence.
  - inversion H; subst. rewrite Hc in Hg. inversion Hg; subst.
    rewrite Hall in Hp; [discriminate|]. apply nth_error_Some. rewrite Hp. discriminate.
Qed.

(* ------------------------------------------------------------------------------------------------------- *)
(* explicit order: all requests *)

Definition sel_ok (Fn:tab) (rtol:Q) (req:Q * option nat) (sel:option (nat*nat)) : Prop :=
  exists c col r d p, snd req = Some c /\ getcol Fn c = Some col /\ is_first_argmin (dists col (fst req)) r d /\
    nth_error col r = Some (Some p) /\ d = Qabs (p - fst req) /\
    sel = (if isclose rtol p (fst req) then Some (r,c) else None).

Lemma pick_all_spec Fn rtol reqs sels : pick_all Fn rtol reqs = Ok sels -> Forall2 (sel_ok Fn rtol) reqs sels.
Proof.
  revert sels. induction reqs as [|[f oc] t IH]; intros sels H; cbn [pick_all] in H.
  - inversion H. constructor.
  - destruct (pick1 Fn rtol f oc) as [s|e] eqn:E1; [|discriminate].
    destruct (pick_all Fn rtol t) as [l|e] eqn:E2; [|discriminate]. inversion H; subst.
    constructor; [|apply IH; reflexivity].
    destruct (pick1_spec _ _ _ _ _ E1) as (c&col&r&d&p&H1&H2&H3&H4&H5&H6).
    exists c, col, r, d, p. cbn [fst snd]. exact (conj H1 (conj H2 (conj H3 (conj H4 (conj H5 H6))))).
Qed.

Theorem mpe_closest Fn rtol reqs sels : pick_all Fn rtol reqs = Ok sels ->
  Forall2 (fun req sel => forall r c, sel = Some (r,c) ->
             snd req = Some c /\ exists col d, getcol Fn c = Some col /\ is_first_argmin (dists col (fst req)) r d) reqs sels.
Proof.
  intros H. apply pick_all_spec in H. induction H as [|req sel reqs sels H1 H2 IH]; constructor; [|exact IH].
  intros r c Hs. destruct H1 as (c'&col&r'&d&p&Hc&Hg&Ha&Hp&Hd&Hsel). rewrite Hsel in Hs.
  destruct (isclose rtol p (fst req)); inversion Hs; subst r' c'. split; [exact Hc|]. exists col, d. split; assumption.
Qed.

Theorem mpe_only_if_close Fn rtol reqs sels : pick_all Fn rtol reqs = Ok sels ->
  Forall2 (fun req sel => exists c col r d p,
             snd req = Some c /\ getcol Fn c = Some col /\ is_first_argmin (dists col (fst req)) r d /\
             nth_error col r = Some (Some p) /\ cell Fn r c = Some (Some p) /\
             (Qabs (p - fst req) <= atol + rtol * Qabs (fst req) -> sel = Some (r,c)) /\
             (atol + rtol * Qabs (fst req) < Qabs (p - fst req) -> sel = None)) reqs sels.
Proof.
  intros H. apply pick_all_spec in H. induction H as [|req sel reqs sels H1 H2 IH]; constructor; [|exact IH].
  destruct H1 as (c&col&r&d&p&Hc&Hg&Ha&Hp&Hd&Hsel). exists c, col, r, d, p.
  split; [exact Hc|]. split; [exact Hg|]. split; [exact Ha|]. split; [exact Hp|]. split; [|split].
  - eapply getcol_cell; eassumption.
  - intros Hle. apply isclose_spec in Hle. rewrite Hle in Hsel. exact Hsel.
  - intros Hlt. apply isclose_false in Hlt. rewrite Hlt in Hsel. exact Hsel.
Qed.

(* which order goes with which request *)
Lemma requests_int freq o j : nth_error (requests freq (OInt o)) j = option_map (fun f => (f, Some o)) (nth_error freq j).
Proof. unfold requests. rewrite nth_error_map. reflexivity. Qed.

Lemma requests_list freq os j : nth_error (requests freq (OList os)) j = option_map (fun f => (f, nth_error os j)) (nth_error freq j).
Proof.
  unfold requests. revert os j. induction freq as [|f t IH]; intros os j; cbn [zip_orders].
  - destruct j; reflexivity.
  - destruct os as [|o os']; destruct j as [|j]; cbn [nth_error option_map]; try reflexivity.
    + rewrite IH. destruct (nth_error t j); cbn; [|reflexivity]. destruct j; reflexivity.
    + apply IH.
Qed.

Lemma requests_length freq eo : length (requests freq eo) = length freq.
Proof.
  destruct eo as [o|os]; unfold requests; [apply map_length|].
  revert os. induction freq as [|f t IH]; intros os; cbn [zip_orders]; [reflexivity|].
  destruct os; cbn [length]; rewrite IH; reflexivity.
Qed.

(* ------------------------------------------------------------------------------------------------------- *)
(* the returned values: each one is the content of one cell *)

Lemma gather_spec {P} Fn (Pay:list (list P)) cells vals : gather Fn Pay cells = Ok vals ->
  Forall2 (fun rc vp => cell Fn (fst rc) (snd rc) = Some (Some (fst vp)) /\ cell Pay (fst rc) (snd rc) = Some (snd vp)) cells vals.
Proof.
  revert vals. induction cells as [|[r c] t IH]; intros vals H; cbn [gather] in H.
  - inversion H. constructor.
  - destruct (cell Fn r c) as [[v|]|] eqn:E1; try discriminate.
    destruct (cell Pay r c) as [p|] eqn:E2; try discriminate.
    destruct (gather Fn Pay t) as [l|e]; [|discriminate]. inversion H; subst.
    constructor; [cbn; split; assumption|apply IH; reflexivity].
Qed.

Theorem mpe_whole {P} Fn (Pay:list (list P)) freq eo rtol vals oo :
  mpe_explicit Fn Pay freq eo rtol = Ok (vals, oo) ->
  oo = order_out_explicit eo /\
  exists sels, pick_all Fn rtol (requests freq eo) = Ok sels /\
    Forall2 (fun rc vp => cell Fn (fst rc) (snd rc) = Some (Some (fst vp)) /\ cell Pay (fst rc) (snd rc) = Some (snd vp))
            (somes sels) vals.
Proof.
  unfold mpe_explicit. destruct (pick_all Fn rtol (requests freq eo)) as [sels|e]; [|discriminate].
  destruct (gather Fn Pay (somes sels)) as [v|e] eqn:Eg; [|discriminate].
  intros H; inversion H; subst. split; [reflexivity|]. exists sels. split; [reflexivity|]. apply gather_spec. exact Eg.
Qed.

(* no exception on the inputs the property quantifies over: every requested order exists, contains at least one
   retained pole, and the payload tables have the shape of the frequency table *)
Lemma pick_all_total Fn rtol reqs :
  Forall (fun req => exists c col r p, snd req = Some c /\ getcol Fn c = Some col /\ nth_error col r = Some (Some p)) reqs ->
  exists sels, pick_all Fn rtol reqs = Ok sels.
Proof.
  induction 1 as [|[f oc] t H1 H2 IH]; cbn [pick_all]; [eauto|].
  destruct H1 as (c&col&r&p&Hc&Hg&Hp). cbn in Hc. subst oc.
  destruct (pick1_total Fn rtol f c col r p Hg Hp) as [s Hs]. rewrite Hs.
  destruct IH as [l Hl]. rewrite Hl. eauto.
Qed.

Lemma gather_total {P} n m Fn (Pay:list (list P)) cells : rect n m Pay ->
  Forall (fun rc => (fst rc < n)%nat /\ (snd rc < m)%nat /\ exists v, cell Fn (fst rc) (snd rc) = Some (Some v)) cells ->
  exists vals, gather Fn Pay cells = Ok vals.
Proof.
  intros HP. induction 1 as [|[r c] t H1 H2 IH]; cbn [gather]; [eauto|].
  destruct H1 as (Hr&Hc&v&Hv). cbn [fst snd] in *. rewrite Hv.
  destruct (cell_rect n m Pay r c HP Hr Hc) as [x Hx]. rewrite Hx. destruct IH as [l Hl]. rewrite Hl. eauto.
Qed.

Theorem mpe_explicit_total {P} n m Fn (Pay:list (list P)) freq eo rtol : rect n m Fn -> rect n m Pay ->
  Forall (fun req => exists c r p, snd req = Some c /\ cell Fn r c = Some (Some p)) (requests freq eo) ->
  exists vals, mpe_explicit Fn Pay freq eo rtol = Ok (vals, order_out_explicit eo).
Proof.
  intros HF HP Hreq. unfold mpe_explicit.
  assert (Hcol : forall c r p, cell Fn r c = Some (Some p) -> (r < n)%nat /\ (c < m)%nat /\ exists col, getcol Fn c = Some col).
  { intros c r p Hc. unfold cell in Hc. destruct (nth_error Fn r) as [row|] eqn:Er; [|discriminate].
    destruct HF as [Hn Hm]. rewrite Forall_forall in Hm.
    assert (Hcm : (c < m)%nat) by (rewrite <- (Hm row (nth_error_In _ _ Er)); apply nth_error_Some; rewrite Hc; discriminate).
    split; [rewrite <- Hn; apply nth_error_Some; rewrite Er; discriminate|]. split; [exact Hcm|].
    apply getcol_some. intros row' Hin. rewrite (Hm row' Hin). exact Hcm. }
  destruct (pick_all_total Fn rtol (requests freq eo)) as [sels Hs].
  { eapply Forall_impl; [|exact Hreq]. intros req (c&r&p&Hc&Hp). destruct (Hcol c r p Hp) as (Hr&Hcm&col&Hg).
    exists c, col, r, p. repeat split; try assumption.
    destruct (getcol_nth Fn c col Hg) as [_ Hnth]. rewrite Hnth; [exact Hp|]. destruct HF as [Hn _]. lia. }
  rewrite Hs.
  destruct (gather_total n m Fn Pay (somes sels) HP) as [vals Hv].
  { apply pick_all_spec in Hs. clear Hreq. induction Hs as [|req sel reqs sels H1 H2 IH]; cbn [somes]; [constructor|].
    destruct H1 as (c&col&r&d&p&Hc&Hg&Ha&Hp&Hd&Hsel).
    destruct sel as [[r' c']|]; [|exact IH]. constructor; [|exact IH].
    destruct (isclose rtol p (fst req)); inversion Hsel; subst. cbn [fst snd].
    pose proof (getcol_cell Fn c col r (Some p) Hg Hp) as Hcell. destruct (Hcol c r p Hcell) as (Hr&Hcm&_).
    repeat split; try assumption. eauto. }
  rewrite Hv. eauto.
Qed.
