(* C11 - lemmas about the model of SSI_mpe / pLSCF_mpe (Model/M_mpe.v). *)
From Coq Require Import List Arith ZArith QArith Qabs Bool Lia Sorted Setoid Morphisms.
From PyOMA.Base Require Import Argmin.
From PyOMA.Model Require Import M_mpe.
Import ListNotations.
Open Scope Q_scope.

(* ------------------------------------------------------------------------------------------------------- *)
(* tables *)

Lemma getcol_nth {A} (T:list (list A)) c col : getcol T c = Some col ->
  length col = length T /\ forall r, (r < length T)%nat -> nth_error col r = cell T r c.
Proof.
  revert col. induction T as [|row T IH]; intros col H; cbn [getcol] in H.
  - inversion H; subst. split; [reflexivity|]. intros r Hr. cbn in Hr. lia.
  - destruct (nth_error row c) as [x|] eqn:Ex; [|discriminate].
    destruct (getcol T c) as [l|] eqn:El; [|discriminate]. inversion H; subst; clear H.
    destruct (IH l eq_refl) as [Hlen Hnth]. split; [cbn; lia|].
    intros [|r] Hr; unfold cell; cbn [nth_error].
    + symmetry; exact Ex.
    + cbn in Hr. rewrite Hnth by lia. reflexivity.
Qed.

Lemma getcol_cell {A} (T:list (list A)) c col r x : getcol T c = Some col -> nth_error col r = Some x -> cell T r c = Some x.
Proof.
  intros H Hx. destruct (getcol_nth T c col H) as [Hlen Hnth].
  rewrite <- Hnth; [exact Hx|]. rewrite <- Hlen. apply nth_error_Some. rewrite Hx. discriminate.
Qed.

Lemma getcol_some {A} (T:list (list A)) c : (forall row, In row T -> (c < length row)%nat) -> exists col, getcol T c = Some col.
Proof.
  induction T as [|row T IH]; intros H; cbn [getcol].
  - eauto.
  - destruct (nth_error row c) as [x|] eqn:Ex.
    + destruct IH as [l Hl]; [intros; apply H; right; assumption|]. rewrite Hl. eauto.
    + exfalso. apply nth_error_None in Ex. specialize (H row (or_introl eq_refl)). lia.
Qed.

Lemma getcol_map {A B} (g:A->B) (T:list (list A)) c : getcol (map (map g) T) c = option_map (map g) (getcol T c).
Proof.
  induction T as [|row T IH]; cbn [map getcol option_map]; [reflexivity|].
  rewrite nth_error_map, IH. destruct (nth_error row c); cbn; [|reflexivity].
  destruct (getcol T c); reflexivity.
Qed.

Lemma cell_rect {A} n m (T:list (list A)) r c : rect n m T -> (r < n)%nat -> (c < m)%nat -> exists x, cell T r c = Some x.
Proof.
  intros [Hn Hm] Hr Hc. unfold cell.
  destruct (nth_error T r) as [row|] eqn:Er.
  - rewrite Forall_forall in Hm. specialize (Hm row (nth_error_In _ _ Er)).
    destruct (nth_error row c) as [x|] eqn:Ex; [eauto|]. apply nth_error_None in Ex. lia.
  - apply nth_error_None in Er. lia.
Qed.

(* ------------------------------------------------------------------------------------------------------- *)
(* np.isclose *)

Lemma isclose_spec rtol a b : isclose rtol a b = true <-> Qabs (a - b) <= atol + rtol * Qabs b.
Proof. unfold isclose. apply Qle_bool_iff. Qed.

Lemma isclose_false rtol a b : isclose rtol a b = false <-> atol + rtol * Qabs b < Qabs (a - b).
Proof.
  unfold isclose. split.
  - intros H. apply Qnot_le_lt. intros Hle. apply Qle_bool_iff in Hle. congruence.
  - intros H. destruct (Qle_bool _ _) eqn:E; [|reflexivity]. apply Qle_bool_iff in E. exfalso. apply (Qlt_not_le _ _ H E).
Qed.

Lemma isclose_Qeq rtol a a' b : a == a' -> isclose rtol a b = isclose rtol a' b.
Proof.
  intros H. destruct (isclose rtol a' b) eqn:E.
  - apply isclose_spec. apply isclose_spec in E. rewrite H. exact E.
  - apply isclose_false. apply isclose_false in E. rewrite H. exact E.
Qed.

(* ------------------------------------------------------------------------------------------------------- *)
(* distances *)

Lemma dists_nth col f r : nth_error (dists col f) r =
  match nth_error col r with Some (Some p) => Some (Some (Qabs (p - f))) | Some None => Some None | None => None end.
Proof. unfold dists. rewrite nth_error_map. destruct (nth_error col r) as [[p|]|]; reflexivity. Qed.

Lemma dists_some col f r d : nth_error (dists col f) r = Some (Some d) -> exists p, nth_error col r = Some (Some p) /\ d = Qabs (p - f).
Proof. rewrite dists_nth. destruct (nth_error col r) as [[p|]|]; intros H; inversion H. eauto. Qed.

(* ------------------------------------------------------------------------------------------------------- *)
(* explicit order: one request *)

Lemma pick1_spec Fn rtol f oc s : pick1 Fn rtol f oc = Ok s ->
  exists c col r d p, oc = Some c /\ getcol Fn c = Some col /\ is_first_argmin (dists col f) r d /\
    nth_error col r = Some (Some p) /\ d = Qabs (p - f) /\
    s = (if isclose rtol p f then Some (r,c) else None).
Proof.
  unfold pick1. destruct oc as [c|]; [|discriminate].
  destruct (getcol Fn c) as [col|] eqn:Ec; [|discriminate].
  pose proof (nanargmin_spec (dists col f)) as Hs.
  destruct (nanargmin (dists col f)) as [[r d]|]; [|discriminate].
  destruct (dists_some col f r d (proj1 Hs)) as (p & Hp & Hd). rewrite Hp.
  intros H. exists c, col, r, d, p. repeat split; try assumption; try (destruct Hs as (?&?&?); assumption).
  destruct (isclose rtol p f); inversion H; reflexivity.
Qed.

(* the defensive branch of pick1 is dead, and the exceptions are exactly: order list too short / column out of
   range (IndexError), no retained pole at that order (ValueError of np.nanargmin) *)
Lemma pick1_err Fn rtol f oc e : pick1 Fn rtol f oc = Err e ->
  (e = IndexErr /\ (oc = None \/ exists c, oc = Some c /\ getcol Fn c = None)) \/
  (e = ValueErr /\ exists c col, oc = Some c /\ getcol Fn c = Some col /\ forall r, (r < length col)%nat -> nth_error col r = Some None).
Proof.
  unfold pick1. destruct oc as [c|]; [|intros H; inversion H; left; auto].
  destruct (getcol Fn c) as [col|] eqn:Ec; [|intros H; inversion H; left; split; [reflexivity|right; eauto]].
  pose proof (nanargmin_spec (dists col f)) as Hs.
  destruct (nanargmin (dists col f)) as [[r d]|].
  - destruct (dists_some col f r d (proj1 Hs)) as (p & Hp & Hd). rewrite Hp. destruct (isclose rtol p f); discriminate.
  - intros H; inversion H. right. split; [reflexivity|]. exists c, col. split; [reflexivity|]. split; [exact Ec|].
    intros r Hr. assert (Hr' : (r < length (dists col f))%nat) by (unfold dists; rewrite map_length; exact Hr).
    specialize (Hs r Hr'). rewrite dists_nth in Hs.
    destruct (nth_error col r) as [[p|]|] eqn:E; try discriminate; try reflexivity.
Qed.

Lemma pick1_total Fn rtol f c col r p : getcol Fn c = Some col -> nth_error col r = Some (Some p) ->
  exists s, pick1 Fn rtol f (Some c) = Ok s.
Proof.
  intros Hc Hp. destruct (pick1 Fn rtol f (Some c)) as [s|e] eqn:E; [eauto|exfalso].
  destruct (pick1_err _ _ _ _ _ E) as [[_ [H|(c'&H&Hn)]]|[_ (c'&col'&H&Hg&Hall)]]; try discriminate.
  - inversion H; subst. congruence.
  - inversion H; subst. rewrite Hc in Hg. inversion Hg; subst.
    rewrite Hall in Hp; [discriminate|]. apply nth_error_Some. rewrite Hp. discriminate.
Qed.

(* ------------------------------------------------------------------------------------------------------- *)
(* explicit order: all requests *)

Definition sel_ok (Fn:tab) (rtol:Q) (req:Q * option nat) (sel:option (nat*nat)) : Prop :=
  exists c col r d p, snd req = Some c /\ getcol Fn c = Some col /\ is_first_argmin (dists col (fst req)) r d /\
    nth_error col r = Some (Some p) /\ d = Qabs (p - fst req) /\
    sel = (if isclose rtol p (fst req) then Some (r,c) else None).

Lemma pick_all_spec Fn rtol reqs sels : pick_all Fn rtol reqs = Ok sels -> Forall2 (sel_ok Fn rtol) reqs sels.
Proof.
  revert sels. induction reqs as [|[f oc] t IH]; intros sels H; cbn [pick_all] in H.
  - inversion H. constructor.
  - destruct (pick1 Fn rtol f oc) as [s|e] eqn:E1; [|discriminate].
    destruct (pick_all Fn rtol t) as [l|e] eqn:E2; [|discriminate]. inversion H; subst.
    constructor; [|apply IH; reflexivity].
    destruct (pick1_spec _ _ _ _ _ E1) as (c&col&r&d&p&H1&H2&H3&H4&H5&H6).
    exists c, col, r, d, p. cbn [fst snd]. exact (conj H1 (conj H2 (conj H3 (conj H4 (conj H5 H6))))).
Qed.

Theorem mpe_closest Fn rtol reqs sels : pick_all Fn rtol reqs = Ok sels ->
  Forall2 (fun req sel => forall r c, sel = Some (r,c) ->
             snd req = Some c /\ exists col d, getcol Fn c = Some col /\ is_first_argmin (dists col (fst req)) r d) reqs sels.
Proof.
  intros H. apply pick_all_spec in H. induction H as [|req sel reqs sels H1 H2 IH]; constructor; [|exact IH].
  intros r c Hs. destruct H1 as (c'&col&r'&d&p&Hc&Hg&Ha&Hp&Hd&Hsel). rewrite Hsel in Hs.
  destruct (isclose rtol p (fst req)); inversion Hs; subst r' c'. split; [exact Hc|]. exists col, d. split; assumption.
Qed.

Theorem mpe_only_if_close Fn rtol reqs sels : pick_all Fn rtol reqs = Ok sels ->
  Forall2 (fun req sel => exists c col r d p,
             snd req = Some c /\ getcol Fn c = Some col /\ is_first_argmin (dists col (fst req)) r d /\
             nth_error col r = Some (Some p) /\ cell Fn r c = Some (Some p) /\
             (Qabs (p - fst req) <= atol + rtol * Qabs (fst req) -> sel = Some (r,c)) /\
             (atol + rtol * Qabs (fst req) < Qabs (p - fst req) -> sel = None)) reqs sels.
Proof.
  intros H. apply pick_all_spec in H. induction H as [|req sel reqs sels H1 H2 IH]; constructor; [|exact IH].
  destruct H1 as (c&col&r&d&p&Hc&Hg&Ha&Hp&Hd&Hsel). exists c, col, r, d, p.
  split; [exact Hc|]. split; [exact Hg|]. split; [exact Ha|]. split; [exact Hp|]. split; [|split].
  - eapply getcol_cell; eassumption.
  - intros Hle. apply isclose_spec in Hle. rewrite Hle in Hsel. exact Hsel.
  - intros Hlt. apply isclose_false in Hlt. rewrite Hlt in Hsel. exact Hsel.
Qed.

(* which order goes with which request *)
Lemma requests_int freq o j : nth_error (requests freq (OInt o)) j = option_map (fun f => (f, Some o)) (nth_error freq j).
Proof. unfold requests. rewrite nth_error_map. reflexivity. Qed.

Lemma requests_list freq os j : nth_error (requests freq (OList os)) j = option_map (fun f => (f, nth_error os j)) (nth_error freq j).
Proof.
  unfold requests. revert os j. induction freq as [|f t IH]; intros os j; cbn [zip_orders].
  - destruct j; reflexivity.
  - destruct os as [|o os']; destruct j as [|j]; cbn [nth_error option_map]; try reflexivity.
    + rewrite IH. destruct (nth_error t j); cbn; [|reflexivity]. destruct j; reflexivity.
    + apply IH.
Qed.

Lemma requests_length freq eo : length (requests freq eo) = length freq.
Proof.
  destruct eo as [o|os]; unfold requests; [apply map_length|].
  revert os. induction freq as [|f t IH]; intros os; cbn [zip_orders]; [reflexivity|].
  destruct os; cbn [length]; rewrite IH; reflexivity.
Qed.

(* ------------------------------------------------------------------------------------------------------- *)
(* the returned values: each one is the content of one cell *)

Lemma gather_spec {P} Fn (Pay:list (list P)) cells vals : gather Fn Pay cells = Ok vals ->
  Forall2 (fun rc vp => cell Fn (fst rc) (snd rc) = Some (Some (fst vp)) /\ cell Pay (fst rc) (snd rc) = Some (snd vp)) cells vals.
Proof.
  revert vals. induction cells as [|[r c] t IH]; intros vals H; cbn [gather] in H.
  - inversion H. constructor.
  - destruct (cell Fn r c) as [[v|]|] eqn:E1; try discriminate.
    destruct (cell Pay r c) as [p|] eqn:E2; try discriminate.
    destruct (gather Fn Pay t) as [l|e]; [|discriminate]. inversion H; subst.
    constructor; [cbn; split; assumption|apply IH; reflexivity].
Qed.

Theorem mpe_whole {P} Fn (Pay:list (list P)) freq eo rtol vals oo :
  mpe_explicit Fn Pay freq eo rtol = Ok (vals, oo) ->
  oo = order_out_explicit eo /\
  exists sels, pick_all Fn rtol (requests freq eo) = Ok sels /\
    Forall2 (fun rc vp => cell Fn (fst rc) (snd rc) = Some (Some (fst vp)) /\ cell Pay (fst rc) (snd rc) = Some (snd vp))
            (somes sels) vals.
Proof.
  unfold mpe_explicit. destruct (pick_all Fn rtol (requests freq eo)) as [sels|e]; [|discriminate].
  destruct (gather Fn Pay (somes sels)) as [v|e] eqn:Eg; [|discriminate].
  intros H; inversion H; subst. split; [reflexivity|]. exists sels. split; [reflexivity|]. apply gather_spec. exact Eg.
Qed.

(* no exception on the inputs the property quantifies over: every requested order exists, contains at least one
   retained pole, and the payload tables have the shape of the frequency table *)
Lemma pick_all_total Fn rtol reqs :
  Forall (fun req => exists c col r p, snd req = Some c /\ getcol Fn c = Some col /\ nth_error col r = Some (Some p)) reqs ->
  exists sels, pick_all Fn rtol reqs = Ok sels.
Proof.
  induction 1 as [|[f oc] t H1 H2 IH]; cbn [pick_all]; [eauto|].
  destruct H1 as (c&col&r&p&Hc&Hg&Hp). cbn in Hc. subst oc.
  destruct (pick1_total Fn rtol f c col r p Hg Hp) as [s Hs]. rewrite Hs.
  destruct IH as [l Hl]. rewrite Hl. eauto.
Qed.

Lemma gather_total {P} n m Fn (Pay:list (list P)) cells : rect n m Pay ->
  Forall (fun rc => (fst rc < n)%nat /\ (snd rc < m)%nat /\ exists v, cell Fn (fst rc) (snd rc) = Some (Some v)) cells ->
  exists vals, gather Fn Pay cells = Ok vals.
Proof.
  intros HP. induction 1 as [|[r c] t H1 H2 IH]; cbn [gather]; [eauto|].
  destruct H1 as (Hr&Hc&v&Hv). cbn [fst snd] in *. rewrite Hv.
  destruct (cell_rect n m Pay r c HP Hr Hc) as [x Hx]. rewrite Hx. destruct IH as [l Hl]. rewrite Hl. eauto.
Qed.

Theorem mpe_explicit_total {P} n m Fn (Pay:list (list P)) freq eo rtol : rect n m Fn -> rect n m Pay ->
  Forall (fun req => exists c r p, snd req = Some c /\ cell Fn r c = Some (Some p)) (requests freq eo) ->
  exists vals, mpe_explicit Fn Pay freq eo rtol = Ok (vals, order_out_explicit eo).
Proof.
  intros HF HP Hreq. unfold mpe_explicit.
  assert (Hcol : forall c r p, cell Fn r c = Some (Some p) -> (r < n)%nat /\ (c < m)%nat /\ exists col, getcol Fn c = Some col).
  { intros c r p Hc. unfold cell in Hc. destruct (nth_error Fn r) as [row|] eqn:Er; [|discriminate].
    destruct HF as [Hn Hm]. rewrite Forall_forall in Hm.
    assert (Hcm : (c < m)%nat) by (rewrite <- (Hm row (nth_error_In _ _ Er)); apply nth_error_Some; rewrite Hc; discriminate).
    split; [rewrite <- Hn; apply nth_error_Some; rewrite Er; discriminate|]. split; [exact Hcm|].
    apply getcol_some. intros row' Hin. rewrite (Hm row' Hin). exact Hcm. }
  destruct (pick_all_total Fn rtol (requests freq eo)) as [sels Hs].
  { eapply Forall_impl; [|exact Hreq]. intros req (c&r&p&Hc&Hp). destruct (Hcol c r p Hp) as (Hr&Hcm&col&Hg).
    exists c, col, r, p. repeat split; try assumption.
    destruct (getcol_nth Fn c col Hg) as [_ Hnth]. rewrite Hnth; [exact Hp|]. destruct HF as [Hn _]. lia. }
  rewrite Hs.
  destruct (gather_total n m Fn Pay (somes sels) HP) as [vals Hv].
  { apply pick_all_spec in Hs. clear Hreq. induction Hs as [|req sel reqs sels H1 H2 IH]; cbn [somes]; [constructor|].
    destruct H1 as (c&col&r&d&p&Hc&Hg&Ha&Hp&Hd&Hsel).
    destruct sel as [[r' c']|]; [|exact IH]. constructor; [|exact IH].
    destruct (isclose rtol p (fst req)); inversion Hsel; subst. cbn [fst snd].
    pose proof (getcol_cell Fn c col r (Some p) Hg Hp) as Hcell. destruct (Hcol c r p Hcell) as (Hr&Hcm&_).
    repeat split; try assumption. eauto. }
  rewrite Hv. eauto.
Qed.

(* ======================================================================================================= *)
(* order = "find_min" *)
From Coq Require Import Lqa.

(* generic list facts *)
Lemma in_somes {A} (l:list (option A)) x : In x (somes l) <-> In (Some x) l.
Proof.
  induction l as [|[y|] t IH]; cbn [somes In].
  - tauto.
  - rewrite IH. split; intros [H|H]; auto. left; congruence. inversion H; auto.
  - rewrite IH. split; [auto|]. intros [H|H]; [discriminate|auto].
Qed.

Lemma Forall_exists_Forall2 {A B} (R:A->B->Prop) l : Forall (fun a => exists b, R a b) l -> exists l', Forall2 R l l'.
Proof. induction 1 as [|a t [b Hb] _ [l' IH]]; [exists []; constructor|exists (b::l'); constructor; assumption]. Qed.

Lemma F2_length {A B} (R:A->B->Prop) l1 l2 : Forall2 R l1 l2 -> length l1 = length l2.
Proof. induction 1; cbn; [reflexivity|lia]. Qed.

Lemma F2_impl {A B} (R S:A->B->Prop) l1 l2 : (forall a b, R a b -> S a b) -> Forall2 R l1 l2 -> Forall2 S l1 l2.
Proof. intros H. induction 1; constructor; auto. Qed.

Lemma FOP_tail {A} (R:A->A->Prop) a l : ForallOrdPairs R (a::l) -> ForallOrdPairs R l.
Proof. intros H; inversion H; assumption. Qed.

Lemma Forall2_nth {A B} (R:A->B->Prop) l1 l2 : Forall2 R l1 l2 ->
  forall k a b, nth_error l1 k = Some a -> nth_error l2 k = Some b -> R a b.
Proof.
  induction 1 as [|x y t u Hxy H IH]; intros k a b Ha Hb; destruct k; cbn in *; try discriminate.
  - inversion Ha; inversion Hb; subst; assumption.
  - eapply IH; eassumption.
Qed.

Lemma Forall2_from_nth {A B} (R:A->B->Prop) l1 l2 : length l1 = length l2 ->
  (forall k a b, nth_error l1 k = Some a -> nth_error l2 k = Some b -> R a b) -> Forall2 R l1 l2.
Proof.
  revert l2. induction l1 as [|a t IH]; intros [|b u] Hl H; cbn in Hl; try discriminate; constructor.
  - apply (H 0%nat); reflexivity.
  - apply IH; [lia|]. intros k x y Hx Hy. apply (H (S k)); assumption.
Qed.

Lemma Forall2_comp {A B C} (R:A->B->Prop) (S:B->C->Prop) l1 l2 l3 : Forall2 R l1 l2 -> Forall2 S l2 l3 ->
  Forall2 (fun a c => exists b, R a b /\ S b c) l1 l3.
Proof.
  intros H. revert l3. induction H as [|a b t u Hab H IH]; intros l3 H3; inversion H3; subst; constructor; eauto.
Qed.

Lemma FOP_nth {A} (R:A->A->Prop) l : ForallOrdPairs R l ->
  forall m k a b, (m < k)%nat -> nth_error l m = Some a -> nth_error l k = Some b -> R a b.
Proof.
  induction 1 as [|x t Hx H IH]; intros m k a b Hmk Ha Hb.
  - destruct m; discriminate.
  - destruct k as [|k]; [lia|]. cbn in Hb. destruct m as [|m]; cbn in Ha.
    + inversion Ha; subst. rewrite Forall_forall in Hx. apply Hx. eapply nth_error_In; eassumption.
    + apply (IH m k); [lia|assumption|assumption].
Qed.

Lemma nth_error_len_some {A} (l:list A) k : (k < length l)%nat -> exists x, nth_error l k = Some x.
Proof. intros H. destruct (nth_error l k) eqn:E; [eauto|]. apply nth_error_None in E. lia. Qed.

(* np.unique *)
Lemma insert_u_in x l y : In y (insert_u x l) -> y = x \/ In y l.
Proof.
  induction l as [|z t IH]; cbn [insert_u]; [intros [H|[]]; auto|].
  destruct (x ?= z); cbn [In]; intros H.
  - right; exact H.
  - destruct H as [H|H]; [left; symmetry; exact H|right; exact H].
  - destruct H as [H|H]; [auto|]. destruct (IH H); auto.
Qed.

Lemma insert_u_keeps x l y : In y l -> In y (insert_u x l).
Proof.
  induction l as [|z t IH]; cbn [insert_u]; [intros []|]. intros H.
  destruct (x ?= z); cbn [In]; [exact H|right; exact H|]. destruct H; auto.
Qed.

Lemma insert_u_has x l : exists y, In y (insert_u x l) /\ y == x.
Proof.
  induction l as [|z t IH]; cbn [insert_u]; [exists x; split; [left; reflexivity|reflexivity]|].
  destruct (x ?= z) eqn:E.
  - apply Qeq_alt in E. exists z. split; [left; reflexivity|symmetry; exact E].
  - exists x. split; [left; reflexivity|reflexivity].
  - destruct IH as (y&Hy&Hyx). exists y. split; [right; exact Hy|exact Hyx].
Qed.

Lemma insert_u_sorted x l : StronglySorted Qlt l -> StronglySorted Qlt (insert_u x l).
Proof.
  induction 1 as [|z t Ht IH Hz]; cbn [insert_u].
  - constructor; constructor.
  - destruct (x ?= z) eqn:E.
    + constructor; assumption.
    + apply Qlt_alt in E. constructor; [constructor; assumption|]. constructor; [exact E|].
      rewrite Forall_forall in *. intros w Hw. specialize (Hz w Hw). lra.
    + apply Qgt_alt in E. constructor; [exact IH|]. rewrite Forall_forall in *. intros w Hw.
      destruct (insert_u_in _ _ _ Hw) as [Hw'|Hw']; [subst; exact E|apply Hz; exact Hw'].
Qed.

Lemma uniq_sorted_sorted l : StronglySorted Qlt (uniq_sorted l).
Proof. induction l as [|x t IH]; cbn; [constructor|apply insert_u_sorted; exact IH]. Qed.

Lemma uniq_sorted_in l y : In y (uniq_sorted l) -> In y l.
Proof.
  induction l as [|x t IH]; cbn [uniq_sorted fold_right]; [auto|]. intros H.
  destruct (insert_u_in _ _ _ H) as [H'|H']; [left; auto|right; apply IH; exact H'].
Qed.

Lemma uniq_sorted_has l x : In x l -> exists y, In y (uniq_sorted l) /\ y == x.
Proof.
  induction l as [|z t IH]; [intros []|]. cbn [uniq_sorted fold_right]. intros [H|H].
  - subst. apply insert_u_has.
  - destruct (IH H) as (y&Hy&Hyx). exists y. split; [apply insert_u_keeps; exact Hy|exact Hyx].
Qed.

(* two strictly increasing lists with the same elements up to == are equal element by element *)
Lemma sorted_Qeq_ext l1 : forall l2, StronglySorted Qlt l1 -> StronglySorted Qlt l2 ->
  (forall x, In x l1 -> exists y, In y l2 /\ x == y) -> (forall y, In y l2 -> exists x, In x l1 /\ x == y) ->
  Forall2 Qeq l1 l2.
Proof.
  induction l1 as [|a t IH]; intros [|b u] S1 S2 H12 H21.
  - constructor.
  - destruct (H21 b (or_introl eq_refl)) as (x & [] & _).
  - destruct (H12 a (or_introl eq_refl)) as (y & [] & _).
  - inversion S1 as [|? ? S1t F1]; inversion S2 as [|? ? S2u F2]; subst.
    rewrite Forall_forall in F1, F2.
    assert (Hab : a == b).
    { destruct (H12 a (or_introl eq_refl)) as (y & [Hy|Hy] & Hay); [subst; exact Hay|].
      destruct (H21 b (or_introl eq_refl)) as (x & [Hx|Hx] & Hxb); [subst; exact Hxb|].
      exfalso. specialize (F1 x Hx). specialize (F2 y Hy). lra. }
    constructor; [exact Hab|]. apply IH; try assumption.
    + intros x Hx. destruct (H12 x (or_intror Hx)) as (y & [Hy|Hy] & Hxy); [|eauto].
      subst y. exfalso. specialize (F1 x Hx). lra.
    + intros y Hy. destruct (H21 y (or_intror Hy)) as (x & [Hx|Hx] & Hxy); [|eauto].
      subst x. exfalso. specialize (F2 y Hy). lra.
Qed.

(* tables built by map2 *)
Lemma nth_error_map2 {A B C} (h:A->B->C) l1 l2 n :
  nth_error (map2 h l1 l2) n = match nth_error l1 n, nth_error l2 n with Some a, Some b => Some (h a b) | _, _ => None end.
Proof.
  revert l2 n. induction l1 as [|a t IH]; intros [|b u] [|n]; cbn [map2 nth_error]; try reflexivity.
  - destruct (nth_error t n); reflexivity.
  - apply IH.
Qed.

Lemma cell_map2 {A B C} (h:A->B->C) L F r c :
  cell (map2 (map2 h) L F) r c = match cell L r c, cell F r c with Some a, Some b => Some (h a b) | _, _ => None end.
Proof.
  unfold cell. rewrite nth_error_map2.
  destruct (nth_error L r) as [rl|]; [|reflexivity]. destruct (nth_error F r) as [rf|].
  - apply nth_error_map2.
  - destruct (nth_error rl c); reflexivity.
Qed.

Lemma cell_lab_tab lv Lab Fn r c p : cell (lab_tab lv Lab Fn) r c = Some (Some p) <-> stable_at lv Lab Fn c r p.
Proof.
  unfold lab_tab, stable_at. rewrite cell_map2.
  destruct (cell Lab r c) as [l|]; [|split; [discriminate|intros [H _]; discriminate]].
  destruct (cell Fn r c) as [x|]; [|split; [discriminate|intros [_ H]; discriminate]].
  destruct (Z.eqb l lv) eqn:E.
  - apply Z.eqb_eq in E. subst. split; [intros H; inversion H; auto|intros [_ H]; inversion H; reflexivity].
  - apply Z.eqb_neq in E. split; [discriminate|]. intros [H _]. inversion H. contradiction.
Qed.

Lemma col_lab_tab lv Lab Fn i scol p : getcol (lab_tab lv Lab Fn) i = Some scol ->
  (In (Some p) scol <-> exists r, stable_at lv Lab Fn i r p).
Proof.
  intros Hg. destruct (getcol_nth _ _ _ Hg) as [Hlen Hnth]. split.
  - intros Hin. destruct (In_nth_error _ _ Hin) as [r Hr]. exists r. apply cell_lab_tab. eapply getcol_cell; eassumption.
  - intros [r Hr]. apply cell_lab_tab in Hr.
    assert (Hlt : (r < length (lab_tab lv Lab Fn))%nat).
    { unfold cell in Hr. destruct (nth_error (lab_tab lv Lab Fn) r) eqn:E; [|discriminate]. apply nth_error_Some. rewrite E. discriminate. }
    rewrite <- (Hnth r Hlt) in Hr. eapply nth_error_In; exact Hr.
Qed.

Section Band.
Variable band : Q -> Q -> bool.

Lemma aggv_none freq p : (forall f, In f freq -> band f p = false) -> aggv band freq p == 0.
Proof.
  induction freq as [|a t IH]; intros H; unfold aggv; cbn [map sumQ]; [reflexivity|].
  rewrite (H a (or_introl eq_refl)). fold (aggv band t p). rewrite IH; [lra|]. intros f Hf. apply H. right; exact Hf.
Qed.

Lemma aggv_sep freq p : separated band freq -> (exists f, In f freq /\ band f p = true) -> aggv band freq p == p.
Proof.
  unfold separated. induction 1 as [|a t Ha Ht IH]; intros (f & Hf & Hb); [destruct Hf|].
  rewrite Forall_forall in Ha. unfold aggv; cbn [map sumQ]; fold (aggv band t p).
  destruct Hf as [Hf|Hf].
  - subst f. rewrite Hb. rewrite aggv_none; [lra|]. intros g Hg. destruct (band g p) eqn:E; [|reflexivity].
    exfalso. specialize (Ha g Hg p p Hb E). lra.
  - destruct (band a p) eqn:E.
    + exfalso. specialize (Ha f Hf p p E Hb). lra.
    + rewrite IH by eauto. lra.
Qed.

Lemma agg_cell_some freq o s : separated band freq -> agg_cell band freq o = Some s ->
  exists p, o = Some p /\ s == p /\ ~ p == 0 /\ exists f, In f freq /\ band f p = true.
Proof.
  intros Hs. destruct o as [p|]; cbn [agg_cell]; [|discriminate].
  destruct (Qeq_bool (aggv band freq p) 0) eqn:E; [discriminate|]. intros H; inversion H; subst s; clear H.
  apply Qeq_bool_neq in E. exists p. split; [reflexivity|].
  assert (Hex : exists f, In f freq /\ band f p = true).
  { destruct (existsb (fun f => band f p) freq) eqn:Ex; [apply existsb_exists in Ex; exact Ex|].
    exfalso. apply E. apply aggv_none. intros f Hf. destruct (band f p) eqn:Eb; [|reflexivity].
    assert (existsb (fun f => band f p) freq = true) by (apply existsb_exists; eauto). congruence. }
  pose proof (aggv_sep freq p Hs Hex) as Heq. split; [exact Heq|]. split; [|exact Hex].
  intros Hp0. apply E. rewrite Heq. exact Hp0.
Qed.

Lemma agg_cell_in freq p f : separated band freq -> In f freq -> region band f p ->
  exists s, agg_cell band freq (Some p) = Some s /\ s == p.
Proof.
  intros Hs Hf [Hb Hnz]. cbn [agg_cell].
  pose proof (aggv_sep freq p Hs (ex_intro _ f (conj Hf Hb))) as Heq.
  destruct (Qeq_bool (aggv band freq p) 0) eqn:E.
  - apply Qeq_bool_iff in E. exfalso. apply Hnz. rewrite <- Heq. exact E.
  - eauto.
Qed.

(* V = non-NaN entries of one aggregated column *)
Lemma agg_V_elem freq scol s : separated band freq -> In s (somes (agg_col band freq scol)) ->
  exists p, In (Some p) scol /\ agg_cell band freq (Some p) = Some s /\ s == p /\ ~ p == 0 /\ exists f, In f freq /\ band f p = true.
Proof.
  intros Hs Hin. apply in_somes in Hin. unfold agg_col in Hin. apply in_map_iff in Hin. destruct Hin as (o & Ho & Hin).
  destruct (agg_cell_some freq o s Hs Ho) as (p & -> & H1 & H2 & H3). exists p. auto.
Qed.

Lemma agg_V_has freq scol p f : separated band freq -> In (Some p) scol -> In f freq -> region band f p ->
  exists s, In s (somes (agg_col band freq scol)) /\ s == p.
Proof.
  intros Hs Hin Hf Hr. destruct (agg_cell_in freq p f Hs Hf Hr) as (s & Hc & Hsp). exists s. split; [|exact Hsp].
  apply in_somes. unfold agg_col. apply in_map_iff. exists (Some p). auto.
Qed.

Lemma agg_row_info freq rtol f p0 s u : separated band freq -> no_reach band freq rtol -> In f freq ->
  agg_cell band freq (Some p0) = Some s -> s == u -> isclose rtol u f = true ->
  region band f p0 /\ isclose rtol p0 f = true /\ u == p0.
Proof.
  intros Hs Hn Hf Hc Hsu Hcl. destruct (agg_cell_some freq (Some p0) s Hs Hc) as (p & Hp & Hsp & Hnz & g & Hg & Hb).
  inversion Hp; subst p; clear Hp.
  assert (Hup : u == p0) by (rewrite <- Hsu; exact Hsp).
  assert (Hcl' : isclose rtol p0 f = true) by (rewrite <- (isclose_Qeq rtol u p0 f Hup); exact Hcl).
  assert (g = f) by (eapply Hn; eassumption). subst g.
  split; [split; assumption|]. split; assumption.
Qed.

Lemma forallb_combine_Forall2 {A B} (t:A*B->bool) l1 l2 : length l1 = length l2 -> forallb t (combine l1 l2) = true ->
  Forall2 (fun a b => t (a,b) = true) l1 l2.
Proof.
  revert l2. induction l1 as [|a u IH]; intros [|b v] Hl H; cbn in *; try discriminate; constructor.
  - apply andb_true_iff in H. tauto.
  - apply IH; [lia|]. apply andb_true_iff in H. tauto.
Qed.

Definition col_spec (rtol:Q) (scol:list (option Q)) (f:Q) (p:Q) : Prop :=
  In (Some p) scol /\ region band f p /\ isclose rtol p f = true /\
  forall p', In (Some p') scol -> region band f p' -> p' == p.

(* a qualifying column: the k-th distinct value is THE stable pole of the k-th request *)
Lemma qual_sound freq rtol scol : separated band freq -> no_reach band freq rtol ->
  length (uniq_sorted (somes (agg_col band freq scol))) = length freq ->
  forallb (fun uf => isclose rtol (fst uf) (snd uf)) (combine (uniq_sorted (somes (agg_col band freq scol))) freq) = true ->
  Forall2 (fun f u => In u (somes (agg_col band freq scol)) /\ isclose rtol u f = true /\
                      exists p, u == p /\ col_spec rtol scol f p) freq (uniq_sorted (somes (agg_col band freq scol))).
Proof.
  intros Hs Hn Hlen Hall. set (V := somes (agg_col band freq scol)) in *. set (us := uniq_sorted V) in *.
  pose proof (forallb_combine_Forall2 _ us freq Hlen Hall) as Hcl. cbn [fst snd] in Hcl.
  apply Forall2_from_nth; [symmetry; exact Hlen|]. intros k f u Hf Hu.
  pose proof (Forall2_nth _ _ _ Hcl k u f Hu Hf) as Hcuf.
  assert (HuV : In u V) by (apply uniq_sorted_in; eapply nth_error_In; exact Hu).
  split; [exact HuV|]. split; [exact Hcuf|].
  destruct (agg_V_elem freq scol u Hs HuV) as (p & Hpin & Hpc & _).
  assert (Hfin : In f freq) by (eapply nth_error_In; exact Hf).
  destruct (agg_row_info freq rtol f p u u Hs Hn Hfin Hpc (Qeq_refl u) Hcuf) as (Hreg & Hclp & Hup).
  exists p. split; [exact Hup|]. split; [exact Hpin|]. split; [exact Hreg|]. split; [exact Hclp|].
  intros p' Hp'in Hp'reg.
  destruct (agg_V_has freq scol p' f Hs Hp'in Hfin Hp'reg) as (s' & Hs'V & Hs'p').
  destruct (uniq_sorted_has V s' Hs'V) as (y & Hy & Hys'). fold us in Hy.
  destruct (In_nth_error _ _ Hy) as [m Hm].
  assert (HyV : In y V) by (apply uniq_sorted_in; exact Hy).
  destruct (nth_error_len_some freq m) as [fm Hfm]; [rewrite <- Hlen; apply nth_error_Some; rewrite Hm; discriminate|].
  pose proof (Forall2_nth _ _ _ Hcl m y fm Hm Hfm) as Hcym.
  destruct (agg_V_elem freq scol y Hs HyV) as (q & Hqin & Hqc & _).
  assert (Hfmin : In fm freq) by (eapply nth_error_In; exact Hfm).
  destruct (agg_row_info freq rtol fm q y y Hs Hn Hfmin Hqc (Qeq_refl y) Hcym) as ([Hbq _] & _ & Hyq).
  destruct Hp'reg as [Hbp' _]. destruct Hreg as [Hbp _].
  destruct (Nat.lt_trichotomy m k) as [Hmk|[Hmk|Hmk]].
  - exfalso. pose proof (FOP_nth _ _ Hs m k fm f Hmk Hfm Hf q p' Hbq Hbp') as Hlt. lra.
  - subst m. rewrite Hu in Hm. inversion Hm; subst y. lra.
  - exfalso. pose proof (FOP_nth _ _ Hs k m f fm Hmk Hf Hfm p' q Hbp' Hbq) as Hlt. lra.
Qed.

Lemma sorted_of_sep freq ps : separated band freq -> Forall2 (fun f p => band f p = true) freq ps -> StronglySorted Qlt ps.
Proof.
  unfold separated. intros Hs. revert ps. induction Hs as [|a t Ha Ht IH]; intros ps H2; inversion H2; subst; constructor.
  - apply IH; assumption.
  - rewrite Forall_forall in *. intros q Hq. destruct (In_nth_error _ _ Hq) as [k Hk].
    match goal with H : Forall2 _ t _ |- _ => rename H into H2t end.
    destruct (nth_error_len_some t k) as [g Hg]; [rewrite (F2_length _ _ _ H2t); apply nth_error_Some; rewrite Hk; discriminate|].
    pose proof (Forall2_nth _ _ _ H2t k g q Hg Hk) as Hbq. cbn in Hbq.
    apply (Ha g (nth_error_In _ _ Hg) y q); assumption.
Qed.

Lemma close_all rtol (R:Q->Q->Prop) freq : forall ps us, (forall f p, R f p -> isclose rtol p f = true) ->
  Forall2 R freq ps -> Forall2 Qeq us ps ->
  forallb (fun uf => isclose rtol (fst uf) (snd uf)) (combine us freq) = true.
Proof.
  induction freq as [|f t IH]; intros ps us HR Hps Heq.
  - inversion Hps; subst. inversion Heq; subst. reflexivity.
  - inversion Hps as [|? p ? ps' Hfp Hps']; subst. inversion Heq as [|u ? us' ? Hup Heq']; subst.
    cbn [combine forallb fst snd]. apply andb_true_iff. split.
    + rewrite (isclose_Qeq rtol u p f Hup). apply HR. exact Hfp.
    + apply (IH ps'); assumption.
Qed.

Lemma qual_complete freq rtol scol : separated band freq ->
  Forall (fun f => exists p, col_spec rtol scol f p) freq ->
  length (uniq_sorted (somes (agg_col band freq scol))) = length freq /\
  forallb (fun uf => isclose rtol (fst uf) (snd uf)) (combine (uniq_sorted (somes (agg_col band freq scol))) freq) = true.
Proof.
  intros Hs Hall. set (V := somes (agg_col band freq scol)) in *. set (us := uniq_sorted V) in *.
  destruct (Forall_exists_Forall2 _ _ Hall) as [ps Hps].
  assert (Hsorted : StronglySorted Qlt ps).
  { apply (sorted_of_sep freq ps Hs). eapply F2_impl; [|exact Hps]. intros f p (_ & [Hb _] & _). exact Hb. }
  assert (Heq : Forall2 Qeq us ps).
  { apply sorted_Qeq_ext; [apply uniq_sorted_sorted|exact Hsorted| |].
    - intros x Hx. assert (HxV : In x V) by (apply uniq_sorted_in; exact Hx).
      destruct (agg_V_elem freq scol x Hs HxV) as (p & Hpin & _ & Hxp & Hnz & g & Hg & Hbg).
      destruct (In_nth_error _ _ Hg) as [k Hk].
      destruct (nth_error_len_some ps k) as [pk Hpk]; [rewrite <- (F2_length _ _ _ Hps); apply nth_error_Some; rewrite Hk; discriminate|].
      destruct (Forall2_nth _ _ _ Hps k g pk Hk Hpk) as (_ & _ & _ & Huniq).
      exists pk. split; [eapply nth_error_In; exact Hpk|]. rewrite Hxp. apply Huniq; [exact Hpin|split; assumption].
    - intros y Hy. destruct (In_nth_error _ _ Hy) as [k Hk].
      destruct (nth_error_len_some freq k) as [g Hg]; [rewrite (F2_length _ _ _ Hps); apply nth_error_Some; rewrite Hk; discriminate|].
      destruct (Forall2_nth _ _ _ Hps k g y Hg Hk) as (Hyin & Hreg & _ & _).
      destruct (agg_V_has freq scol y g Hs Hyin (nth_error_In _ _ Hg) Hreg) as (s & HsV & Hsy).
      destruct (uniq_sorted_has V s HsV) as (x & Hx & Hxs). exists x. split; [exact Hx|]. rewrite Hxs. exact Hsy. }
  assert (Hlen : length us = length freq) by (rewrite (F2_length _ _ _ Heq); symmetry; apply (F2_length _ _ _ Hps)).
  split; [exact Hlen|].
  apply (close_all rtol (col_spec rtol scol) freq ps us); [|exact Hps|exact Heq].
  intros f p (_ & _ & Hcl & _). exact Hcl.
Qed.
End Band.

(* ------------------------------------------------------------------------------------------------------- *)
(* from one column to the tables *)

Lemma F2_Forall_l {A B} (R:A->B->Prop) l1 l2 : Forall2 R l1 l2 -> Forall (fun a => exists b, R a b) l1.
Proof. induction 1; constructor; eauto. Qed.

Lemma first_some_spec {A} (g:nat->option A) n : forall i0,
  match first_some g n i0 with
  | Some (i,a) => (i0 <= i < i0 + n)%nat /\ g i = Some a /\ forall j, (i0 <= j < i)%nat -> g j = None
  | None => forall j, (i0 <= j < i0 + n)%nat -> g j = None
  end.
Proof.
  induction n as [|n IH]; intros i0; cbn [first_some].
  - intros j Hj. lia.
  - destruct (g i0) as [a|] eqn:E.
    + split; [lia|]. split; [exact E|]. intros j Hj. lia.
    + specialize (IH (S i0)). destruct (first_some g n (S i0)) as [[i a]|].
      * destruct IH as (H1 & H2 & H3). split; [lia|]. split; [exact H2|]. intros j Hj.
        destruct (Nat.eq_dec j i0) as [->|Hne]; [exact E|apply H3; lia].
      * intros j Hj. destruct (Nat.eq_dec j i0) as [->|Hne]; [exact E|apply IH; lia].
Qed.

Lemma nearest_exact acol u r d : In u (somes acol) -> is_first_argmin (dists acol u) r d ->
  exists s, nth_error acol r = Some (Some s) /\ s == u.
Proof.
  intros Hin (Hr & Hmin & _). destruct (dists_some _ _ _ _ Hr) as (s & Hs & Hd). exists s. split; [exact Hs|].
  apply in_somes in Hin. destruct (In_nth_error _ _ Hin) as [j Hj].
  assert (Hdj : nth_error (dists acol u) j = Some (Some (Qabs (u - u)))) by (rewrite dists_nth, Hj; reflexivity).
  specialize (Hmin j _ Hdj). subst d.
  assert (H0 : Qabs (u - u) == 0) by (setoid_replace (u - u) with 0 by ring; reflexivity).
  rewrite H0 in Hmin. apply Qabs_Qle_condition in Hmin. lra.
Qed.

Lemma rows_of_spec acol us : forall urs, (forall u, In u us -> In u (somes acol)) -> rows_of acol us = Ok urs ->
  Forall2 (fun u ur => fst ur = u /\ exists s, nth_error acol (snd ur) = Some (Some s) /\ s == u) us urs.
Proof.
  induction us as [|u t IH]; intros urs Hin H; cbn [rows_of] in H.
  - inversion H. constructor.
  - pose proof (nanargmin_spec (dists acol u)) as Hsp.
    destruct (nanargmin (dists acol u)) as [[r d]|]; [|discriminate].
    destruct (rows_of acol t) as [l|e] eqn:El; [|discriminate]. inversion H; subst.
    constructor; [|apply IH; [intros; apply Hin; right; assumption|reflexivity]].
    cbn [fst snd]. split; [reflexivity|]. eapply nearest_exact; [apply Hin; left; reflexivity|exact Hsp].
Qed.

Lemma rows_of_total acol us : (forall u, In u us -> In u (somes acol)) -> exists urs, rows_of acol us = Ok urs.
Proof.
  induction us as [|u t IH]; intros Hin; cbn [rows_of]; [eauto|].
  pose proof (nanargmin_spec (dists acol u)) as Hsp.
  destruct (nanargmin (dists acol u)) as [[r d]|].
  - destruct IH as [l Hl]; [intros; apply Hin; right; assumption|]. rewrite Hl. eauto.
  - exfalso. specialize (Hin u (or_introl eq_refl)). apply in_somes in Hin. destruct (In_nth_error _ _ Hin) as [j Hj].
    assert (Hlt : (j < length (dists acol u))%nat).
    { unfold dists. rewrite map_length. apply nth_error_Some. rewrite Hj. discriminate. }
    specialize (Hsp j Hlt). rewrite dists_nth, Hj in Hsp. discriminate.
Qed.

Lemma payloads_spec {P} (Pay:list (list P)) c urs : forall vals, payloads Pay c urs = Ok vals ->
  Forall2 (fun ur vp => fst vp = fst ur /\ cell Pay (snd ur) c = Some (snd vp)) urs vals.
Proof.
  induction urs as [|[u r] t IH]; intros vals H; cbn [payloads] in H.
  - inversion H. constructor.
  - destruct (cell Pay r c) as [p|] eqn:Ec; [|discriminate].
    destruct (payloads Pay c t) as [l|e]; [|discriminate]. inversion H; subst.
    constructor; [cbn; auto|apply IH; reflexivity].
Qed.

Section FindMin.
Variable band : Q -> Q -> bool.

Lemma qualifies_col lv Lab Fn freq rtol i scol : getcol (lab_tab lv Lab Fn) i = Some scol ->
  (qualifies band lv Lab Fn freq rtol i <-> Forall (fun f => exists p, col_spec band rtol scol f p) freq).
Proof.
  intros Hg. unfold qualifies. split; intros H; (eapply Forall_impl; [|exact H]); intros f.
  - intros (r & p & Hst & Hreg & Hcl & Hu). exists p. split; [apply (col_lab_tab lv Lab Fn i scol p Hg); eauto|].
    split; [exact Hreg|]. split; [exact Hcl|]. intros p' Hin Hreg'.
    apply (col_lab_tab lv Lab Fn i scol p' Hg) in Hin. destruct Hin as [r' Hr']. eapply Hu; eassumption.
  - intros (p & Hin & Hreg & Hcl & Hu). apply (col_lab_tab lv Lab Fn i scol p Hg) in Hin. destruct Hin as [r Hr].
    exists r, p. split; [exact Hr|]. split; [exact Hreg|]. split; [exact Hcl|]. intros r' p' Hst Hreg'.
    apply Hu; [apply (col_lab_tab lv Lab Fn i scol p' Hg); eauto|exact Hreg'].
Qed.

Lemma getcol_agg freq S i acol : getcol (agg_tab band freq S) i = Some acol ->
  exists scol, getcol S i = Some scol /\ acol = agg_col band freq scol.
Proof.
  unfold agg_tab, agg_col. rewrite getcol_map. destruct (getcol S i) as [scol|]; cbn; [|discriminate].
  intros H; inversion H. eauto.
Qed.

Lemma col_test_none lv Lab Fn freq rtol i : separated band freq ->
  col_test (agg_tab band freq (lab_tab lv Lab Fn)) freq rtol i = None -> ~ qualifies band lv Lab Fn freq rtol i.
Proof.
  intros Hs. unfold col_test. destruct (getcol (agg_tab band freq (lab_tab lv Lab Fn)) i) as [acol|] eqn:Ea; [|discriminate].
  destruct (getcol_agg _ _ _ _ Ea) as (scol & Hsc & ->). unfold qual_col.
  intros Hq Hqual. apply (qualifies_col lv Lab Fn freq rtol i scol Hsc) in Hqual.
  destruct (qual_complete band freq rtol scol Hs Hqual) as [Hlen Hall].
  rewrite Hlen, Nat.eqb_refl, Hall in Hq. discriminate.
Qed.

Lemma col_test_ok lv Lab Fn freq rtol i urs : separated band freq -> no_reach band freq rtol ->
  col_test (agg_tab band freq (lab_tab lv Lab Fn)) freq rtol i = Some (Ok urs) ->
  qualifies band lv Lab Fn freq rtol i /\
  Forall2 (fun f ur => exists p, stable_at lv Lab Fn i (snd ur) p /\ fst ur == p /\ region band f p /\ isclose rtol p f = true) freq urs.
Proof.
  intros Hs Hn. unfold col_test. destruct (getcol (agg_tab band freq (lab_tab lv Lab Fn)) i) as [acol|] eqn:Ea; [|discriminate].
  destruct (getcol_agg _ _ _ _ Ea) as (scol & Hsc & ->). unfold qual_col.
  destruct (length (uniq_sorted (somes (agg_col band freq scol))) =? length freq)%nat eqn:El; [|discriminate].
  destruct (forallb _ _) eqn:Ef; cbn [andb]; [|discriminate]. intros H; inversion H as [Hrows]; clear H.
  apply Nat.eqb_eq in El. pose proof (qual_sound band freq rtol scol Hs Hn El Ef) as Hsound. split.
  - apply (qualifies_col lv Lab Fn freq rtol i scol Hsc). apply F2_Forall_l in Hsound.
    eapply Forall_impl; [|exact Hsound]. intros f (u & _ & _ & p & _ & Hspec). eauto.
  - assert (Hin : forall u, In u (uniq_sorted (somes (agg_col band freq scol))) -> In u (somes (agg_col band freq scol)))
      by (intros u; apply uniq_sorted_in).
    pose proof (rows_of_spec _ _ urs Hin Hrows) as Hr.
    pose proof (Forall2_comp _ _ _ _ _ Hsound Hr) as Hc.
    clear Hr Hsound Hrows Hin.
    assert (Hgen : forall fs urs0, (forall f, In f fs -> In f freq) ->
             Forall2 (fun a c => exists b, (In b (somes (agg_col band freq scol)) /\ isclose rtol b a = true /\
                                            exists p, b == p /\ col_spec band rtol scol a p) /\
                                           (fst c = b /\ exists s, nth_error (agg_col band freq scol) (snd c) = Some (Some s) /\ s == b)) fs urs0 ->
             Forall2 (fun f ur => exists p, stable_at lv Lab Fn i (snd ur) p /\ fst ur == p /\ region band f p /\ isclose rtol p f = true) fs urs0).
    { intros fs urs0 Hsub H2. induction H2 as [|f ur fs' urs' H1 H2 IH]; constructor.
      - destruct H1 as (u & (HuV & Hcl & _) & (Hfst & s & Hnth & Hsu)).
        unfold agg_col in Hnth. rewrite nth_error_map in Hnth.
        destruct (nth_error scol (snd ur)) as [o|] eqn:Eo; [|discriminate]. cbn [option_map] in Hnth.
        destruct o as [p0|]; [|discriminate]. inversion Hnth as [Hagg]; clear Hnth.
        destruct (agg_row_info band freq rtol f p0 s u Hs Hn (Hsub f (or_introl eq_refl)) Hagg Hsu Hcl) as (Hreg & Hclp & Hup).
        exists p0. split; [|split; [rewrite Hfst; exact Hup|split; assumption]].
        apply cell_lab_tab. eapply getcol_cell; eassumption.
      - apply IH. intros g Hg. apply Hsub. right; exact Hg. }
    apply Hgen; [auto|exact Hc].
Qed.

Theorem mpe_find_min_gen {P} lv Fn (Pay:list (list P)) Lab freq rtol :
  separated band freq -> no_reach band freq rtol ->
  match find_min_gen band lv Fn Pay Lab freq rtol with
  | Ok (vals, OutInt i) =>
      (i < ncols Fn)%nat /\ qualifies band lv Lab Fn freq rtol i /\
      (forall i', (i' < i)%nat -> ~ qualifies band lv Lab Fn freq rtol i') /\
      Forall2 (fun f vp => exists r p, stable_at lv Lab Fn i r p /\ fst vp == p /\ cell Pay r i = Some (snd vp) /\
                              region band f p /\ isclose rtol p f = true) freq vals
  | Ok (vals, OutNone) => vals = [] /\ forall i', (i' < ncols Fn)%nat -> ~ qualifies band lv Lab Fn freq rtol i'
  | Ok (_, OutList _) => False
  | Err _ => True
  end.
Proof.
  intros Hs Hn. unfold find_min_gen.
  pose proof (first_some_spec (col_test (agg_tab band freq (lab_tab lv Lab Fn)) freq rtol) (ncols Fn) 0) as Hfs.
  destruct (first_some _ _ _) as [[i [urs|e]]|].
  - destruct Hfs as (Hrange & Hgi & Hbefore).
    destruct (payloads Pay i urs) as [vals|e] eqn:Ep; [|exact I].
    destruct (col_test_ok lv Lab Fn freq rtol i urs Hs Hn Hgi) as [Hq Hrows].
    split; [lia|]. split; [exact Hq|]. split.
    + intros i' Hi'. apply col_test_none; [exact Hs|]. apply Hbefore. lia.
    + pose proof (Forall2_comp _ _ _ _ _ Hrows (payloads_spec Pay i urs vals Ep)) as Hc.
      eapply F2_impl; [|exact Hc]. intros f vp (ur & (p & Hst & Hfp & Hreg & Hcl) & (Hfst & Hcell)).
      exists (snd ur), p. rewrite Hfst. auto.
  - exact I.
  - split; [reflexivity|]. intros i' Hi'. apply col_test_none; [exact Hs|]. apply Hfs. lia.
Qed.
End FindMin.

(* ------------------------------------------------------------------------------------------------------- *)
(* no exception on rectangular tables *)

Lemma map2_length {A B C} (h:A->B->C) l1 : forall l2, length l1 = length l2 -> length (map2 h l1 l2) = length l1.
Proof. induction l1 as [|a t IH]; intros [|b u] H; cbn in *; try discriminate; [reflexivity|]. rewrite IH; lia. Qed.

Lemma rect_map2 {A B C} (h:A->B->C) n m L : forall F, rect n m L -> rect n m F -> rect n m (map2 (map2 h) L F).
Proof.
  intros F [HnL HmL] [HnF HmF]. split.
  - rewrite map2_length; [exact HnL|congruence].
  - clear HnL HnF. revert F HmF. induction HmL as [|rl L' Hrl HL' IH]; intros F HmF; [constructor|].
    destruct F as [|rf F']; [constructor|]. inversion HmF as [|? ? Hrf HF']. cbn [map2]. constructor; [|apply IH; assumption].
    rewrite map2_length; [exact Hrl|congruence].
Qed.

Lemma rect_map {A B} (g:A->B) n m T : rect n m T -> rect n m (map (map g) T).
Proof.
  intros [Hn Hm]. split; [rewrite map_length; exact Hn|]. rewrite Forall_forall in *. intros row Hin.
  apply in_map_iff in Hin. destruct Hin as (r0 & <- & Hr0). rewrite map_length. apply Hm. exact Hr0.
Qed.

Lemma getcol_rect {A} n m (T:list (list A)) i : rect n m T -> (i < m)%nat -> exists col, getcol T i = Some col.
Proof. intros [_ Hm] Hi. apply getcol_some. rewrite Forall_forall in Hm. intros row Hin. rewrite (Hm row Hin). exact Hi. Qed.

Lemma ncols_rect {A} n m (T:list (list A)) i : rect n m T -> (i < ncols T)%nat -> ncols T = m /\ (0 < n)%nat.
Proof.
  intros [Hn Hm] Hi. destruct T as [|row T']; cbn [ncols] in *; [lia|]. inversion Hm; subst. split; [reflexivity|cbn; lia].
Qed.

Lemma rows_of_bound acol us : forall urs, rows_of acol us = Ok urs -> Forall (fun ur => (snd ur < length acol)%nat) urs.
Proof.
  induction us as [|u t IH]; intros urs H; cbn [rows_of] in H.
  - inversion H. constructor.
  - pose proof (nanargmin_spec (dists acol u)) as Hsp.
    destruct (nanargmin (dists acol u)) as [[r d]|]; [|discriminate].
    destruct (rows_of acol t) as [l|e]; [|discriminate]. inversion H; subst. constructor; [|apply IH; reflexivity].
    cbn [snd]. destruct Hsp as (Hr & _). destruct (dists_some _ _ _ _ Hr) as (s & Hs & _).
    apply nth_error_Some. rewrite Hs. discriminate.
Qed.

Lemma payloads_total {P} n m (Pay:list (list P)) c urs : rect n m Pay -> (c < m)%nat ->
  Forall (fun ur => (snd ur < n)%nat) urs -> exists vals, payloads Pay c urs = Ok vals.
Proof.
  intros HP Hc. induction 1 as [|[u r] t H1 H2 IH]; cbn [payloads]; [eauto|]. cbn [snd] in H1.
  destruct (cell_rect n m Pay r c HP H1 Hc) as [x Hx]. rewrite Hx. destruct IH as [l Hl]. rewrite Hl. eauto.
Qed.

Theorem find_min_gen_total {P} band lv n m Fn (Pay:list (list P)) Lab freq rtol :
  rect n m Fn -> rect n m Lab -> rect n m Pay ->
  exists vals oo, find_min_gen band lv Fn Pay Lab freq rtol = Ok (vals, oo).
Proof.
  intros HF HL HP. unfold find_min_gen.
  assert (HA : rect n m (agg_tab band freq (lab_tab lv Lab Fn))).
  { unfold agg_tab, agg_col. apply rect_map. unfold lab_tab. apply rect_map2; assumption. }
  pose proof (first_some_spec (col_test (agg_tab band freq (lab_tab lv Lab Fn)) freq rtol) (ncols Fn) 0) as Hfs.
  destruct (first_some _ _ _) as [[i x]|]; [|eauto].
  destruct Hfs as (Hrange & Hgi & _).
  destruct (ncols_rect n m Fn i HF) as [Hnc Hn0]; [lia|].
  assert (Him : (i < m)%nat) by lia.
  unfold col_test in Hgi. destruct (getcol_rect n m _ i HA Him) as [acol Hac]. rewrite Hac in Hgi.
  unfold qual_col in Hgi. destruct (_ && _)%bool; [|discriminate]. inversion Hgi as [Hrows]; clear Hgi.
  destruct (rows_of_total acol (uniq_sorted (somes acol)) (uniq_sorted_in (somes acol))) as [urs Hurs].
  rewrite Hurs. pose proof (rows_of_bound _ _ _ Hurs) as Hb.
  destruct (getcol_nth _ _ _ Hac) as [Hlen _]. destruct HA as [HAn _]. rewrite Hlen, HAn in Hb.
  destruct (payloads_total n m Pay i urs HP Him Hb) as [vals Hv]. rewrite Hv. eauto.
Qed.

(* ------------------------------------------------------------------------------------------------------- *)
(* the two concrete bands *)

Lemma inb_spec rtol f p : inb rtol f p = true <-> f - rtol <= p /\ p <= f + rtol.
Proof. unfold inb. rewrite andb_true_iff, !Qle_bool_iff. tauto. Qed.

Lemma inbs_spec d f p : inbs d f p = true <-> f - d < p /\ p < f + d.
Proof. unfold inbs. rewrite andb_true_iff, !Qlt_bool_iff. tauto. Qed.

Lemma FOP_impl {A} (R S:A->A->Prop) l : (forall a b, R a b -> S a b) -> ForallOrdPairs R l -> ForallOrdPairs S l.
Proof. intros H. induction 1 as [|a t Ha Ht IH]; constructor; [|exact IH]. eapply Forall_impl; [|exact Ha]. apply H. Qed.

Lemma separated_inb rtol freq : ForallOrdPairs (fun f g => f + rtol < g - rtol) freq -> separated (inb rtol) freq.
Proof.
  apply FOP_impl. intros f g Hfg p p' Hp Hp'. apply inb_spec in Hp. apply inb_spec in Hp'. lra.
Qed.

Lemma separated_inbs d freq : ForallOrdPairs (fun f g => f + d <= g - d) freq -> separated (inbs d) freq.
Proof.
  apply FOP_impl. intros f g Hfg p p' Hp Hp'. apply inbs_spec in Hp. apply inbs_spec in Hp'. lra.
Qed.

Lemma no_reach_inb rtol freq :
  (forall f g, In f freq -> In g freq -> f = g \/ rtol + (atol + rtol * Qabs g) < Qabs (f - g)) -> no_reach (inb rtol) freq rtol.
Proof.
  intros H f g p Hf Hg Hb Hc. destruct (H f g Hf Hg) as [Heq|Hlt]; [exact Heq|exfalso].
  apply inb_spec in Hb. apply isclose_spec in Hc. set (B := atol + rtol * Qabs g) in *.
  apply Qabs_Qle_condition in Hc.
  assert (Hle : Qabs (f - g) <= rtol + B) by (apply Qabs_Qle_condition; split; lra). lra.
Qed.

Lemma no_reach_inbs d rtol freq :
  (forall f g, In f freq -> In g freq -> f = g \/ d + (atol + rtol * Qabs g) <= Qabs (f - g)) -> no_reach (inbs d) freq rtol.
Proof.
  intros H f g p Hf Hg Hb Hc. destruct (H f g Hf Hg) as [Heq|Hlt]; [exact Heq|exfalso].
  apply inbs_spec in Hb. apply isclose_spec in Hc. set (B := atol + rtol * Qabs g) in *.
  apply Qabs_Qle_condition in Hc.
  assert (Hle : Qabs (f - g) < d + B).
  { destruct (Qlt_le_dec (f - g) 0) as [Hneg|Hpos].
    - rewrite Qabs_neg by lra. lra.
    - rewrite Qabs_pos by lra. lra. }
  lra.
Qed.

(* SSI_mpe(order="find_min") *)
Theorem mpe_find_min {P} Fn (Pay:list (list P)) Lab freq rtol :
  ForallOrdPairs (fun f g => f + rtol < g - rtol) freq ->
  (forall f g, In f freq -> In g freq -> f = g \/ rtol + (atol + rtol * Qabs g) < Qabs (f - g)) ->
  match ssi_mpe Fn Pay Lab freq FindMin rtol with
  | Ok (vals, OutInt i) =>
      (i < ncols Fn)%nat /\ qualifies (inb rtol) 1 Lab Fn freq rtol i /\
      (forall i', (i' < i)%nat -> ~ qualifies (inb rtol) 1 Lab Fn freq rtol i') /\
      Forall2 (fun f vp => exists r p, stable_at 1 Lab Fn i r p /\ fst vp == p /\ cell Pay r i = Some (snd vp) /\
                              region (inb rtol) f p /\ isclose rtol p f = true) freq vals
  | Ok (vals, OutNone) => vals = [] /\ forall i', (i' < ncols Fn)%nat -> ~ qualifies (inb rtol) 1 Lab Fn freq rtol i'
  | Ok (_, OutList _) => False
  | Err _ => True
  end.
Proof.
  intros H1 H2. exact (mpe_find_min_gen (inb rtol) 1 Fn Pay Lab freq rtol (separated_inb rtol freq H1) (no_reach_inb rtol freq H2)).
Qed.

Theorem mpe_find_min_total {P} n m Fn (Pay:list (list P)) Lab freq rtol :
  rect n m Fn -> rect n m Lab -> rect n m Pay -> exists vals oo, ssi_mpe Fn Pay Lab freq FindMin rtol = Ok (vals, oo).
Proof. apply find_min_gen_total. Qed.

(* pLSCF_mpe(order="find_min") as the property wants it (stable = label 1) *)
Theorem plscf_find_min_conforming_spec {P} Fn (Pay:list (list P)) Lab freq deltaf rtol :
  ForallOrdPairs (fun f g => f + deltaf <= g - deltaf) freq ->
  (forall f g, In f freq -> In g freq -> f = g \/ deltaf + (atol + rtol * Qabs g) <= Qabs (f - g)) ->
  match plscf_find_min_conforming Fn Pay Lab freq deltaf rtol with
  | Ok (vals, OutInt i) =>
      (i < ncols Fn)%nat /\ qualifies (inbs deltaf) 1 Lab Fn freq rtol i /\
      (forall i', (i' < i)%nat -> ~ qualifies (inbs deltaf) 1 Lab Fn freq rtol i') /\
      Forall2 (fun f vp => exists r p, stable_at 1 Lab Fn i r p /\ fst vp == p /\ cell Pay r i = Some (snd vp) /\
                              region (inbs deltaf) f p /\ isclose rtol p f = true) freq vals
  | Ok (vals, OutNone) => vals = [] /\ forall i', (i' < ncols Fn)%nat -> ~ qualifies (inbs deltaf) 1 Lab Fn freq rtol i'
  | Ok (_, OutList _) => False
  | Err _ => True
  end.
Proof.
  intros H1 H2. exact (mpe_find_min_gen (inbs deltaf) 1 Fn Pay Lab freq rtol (separated_inbs deltaf freq H1) (no_reach_inbs deltaf rtol freq H2)).
Qed.

(* ------------------------------------------------------------------------------------------------------- *)
(* the present pLSCF code selects Lab == 7; gen.SC_apply writes 0/1: refutation witness *)
Definition wit_Fn : tab := [[Some (5#1); Some (5#1); Some (5#1)]; [None; Some (9#1); None]].
Definition wit_Lab : list (list Z) := [[1;1;1];[0;0;0]]%Z.
Definition wit_Pay : list (list nat) := id_tab 2 3.
Definition wit_freq : list Q := [5#1].

Theorem plscf_find_min_refuted :
  exists (Fn:tab) (Pay:list (list nat)) (Lab:list (list Z)) (freq:list Q) (deltaf rtol:Q) vals i z,
    Forall (Forall (fun l => l = 0%Z \/ l = 1%Z)) Lab /\ rect 2 3 Fn /\ rect 2 3 Lab /\ rect 2 3 Pay /\
    ForallOrdPairs (fun f g => f + deltaf <= g - deltaf) freq /\
    plscf_find_min_conforming Fn Pay Lab freq deltaf rtol = Ok (vals, OutInt i) /\ vals <> [] /\
    plscf_find_min_present Fn Pay Lab freq deltaf rtol = Ok ([], [], z) /\ z <> Z.of_nat i.
Proof.
  exists wit_Fn, wit_Pay, wit_Lab, wit_freq, (1#20), (1#100). eexists. exists 0%nat, 1%Z.
  split; [repeat (apply Forall_cons || apply Forall_nil); ((left; reflexivity) || (right; reflexivity))|].
  split; [split; [reflexivity|repeat constructor]|].
  split; [split; [reflexivity|repeat constructor]|]. split; [split; [reflexivity|repeat constructor]|].
  split; [repeat constructor|]. split; [vm_compute; reflexivity|]. split; [discriminate|].
  split; [vm_compute; reflexivity|discriminate].
Qed.

(* ... and not only on the witness: whatever the table, if no label equals 7 (gen.SC_apply writes 0 and 1 only) the present
   code returns no pole at all and reports the last-but-one order *)
Lemma map2_row_blind lv (rl:list Z) : forall (rf:list (option Q)), Forall (fun l => l <> lv) rl ->
  Forall (fun o => o = None) (map2 (fun (l:Z) (p:option Q) => if Z.eqb l lv then p else None) rl rf).
Proof.
  induction rl as [|l t IH]; intros [|p u] H; cbn [map2]; try constructor.
  - inversion H as [|? ? Hl Ht]; subst. destruct (Z.eqb l lv) eqn:E; [apply Z.eqb_eq in E; contradiction|reflexivity].
  - apply IH. inversion H; assumption.
Qed.

Lemma lab_tab_blind lv Lab : forall Fn, Forall (Forall (fun l => l <> lv)) Lab ->
  Forall (Forall (fun o => o = None)) (lab_tab lv Lab Fn).
Proof.
  unfold lab_tab. induction Lab as [|rl L IH]; intros [|rf F] H; cbn [map2]; try constructor.
  - apply map2_row_blind. inversion H; assumption.
  - apply IH. inversion H; assumption.
Qed.

Lemma agg_tab_blind band freq S : Forall (Forall (fun o => o = None)) S -> Forall (Forall (fun o => o = None)) (agg_tab band freq S).
Proof.
  unfold agg_tab, agg_col. intros H. induction H as [|row S' Hrow HS IH]; cbn [map]; constructor; [|exact IH].
  induction Hrow as [|o row' Ho Hrow' IH']; cbn [map]; constructor; [subst; reflexivity|exact IH'].
Qed.

Lemma getcol_blind (T:tab) i : forall col, Forall (Forall (fun o => o = None)) T -> getcol T i = Some col -> somes col = [].
Proof.
  induction T as [|row T IH]; intros col H Hg; cbn [getcol] in Hg.
  - inversion Hg. reflexivity.
  - destruct (nth_error row i) as [x|] eqn:Ex; [|discriminate]. destruct (getcol T i) as [l|] eqn:El; [|discriminate].
    inversion Hg; subst. inversion H as [|? ? Hrow HT]; subst. rewrite Forall_forall in Hrow.
    rewrite (Hrow x (nth_error_In _ _ Ex)). cbn [somes]. apply IH; [exact HT|reflexivity].
Qed.

Lemma plscf_scan_blind (A:tab) freq rtol last : Forall (Forall (fun o => o = None)) A ->
  forall fuel i z us, plscf_scan A freq rtol last fuel i = Ok (z, us) -> us = [] /\ z = (Z.of_nat last - 1)%Z.
Proof.
  intros HA. induction fuel as [|fuel IH]; intros i z us H; cbn [plscf_scan] in H; [discriminate|].
  destruct (getcol A i) as [col|] eqn:Ec; [|discriminate].
  rewrite (getcol_blind A i col HA Ec) in H. cbn [uniq_sorted fold_right combine existsb] in H. rewrite andb_false_r in H.
  destruct (i =? last)%nat eqn:Ei.
  - apply Nat.eqb_eq in Ei. inversion H; subst. auto.
  - eapply IH; exact H.
Qed.

Theorem plscf_present_blind {P} Fn (Pay:list (list P)) Lab freq deltaf rtol :
  Forall (Forall (fun l => l <> 7%Z)) Lab ->
  match plscf_find_min_present Fn Pay Lab freq deltaf rtol with
  | Ok (us, ps, z) => us = [] /\ ps = [] /\ z = (Z.of_nat (ncols Fn - 1) - 1)%Z
  | Err _ => True
  end.
Proof.
  intros HL. unfold plscf_find_min_present, plscf_find_min_lab.
  pose proof (agg_tab_blind (inbs deltaf) freq _ (lab_tab_blind 7 Lab Fn HL)) as HA.
  destruct (plscf_scan _ freq rtol (ncols Fn - 1) (ncols Fn) 0) as [[z us]|e] eqn:Es; [|exact I].
  destruct (plscf_scan_blind _ freq rtol (ncols Fn - 1) HA _ _ _ _ Es) as [-> ->].
  destruct (getcol _ _) as [b|] eqn:Eb; [|exact I].
  rewrite (getcol_blind _ _ b HA Eb). auto.
Qed.
