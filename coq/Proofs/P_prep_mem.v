(* C14 - lemmas about the memory layer M_prep_mem.v: which buffers every history of calls reads, allocates, writes,
   stores and hands over. *)
From Coq Require Import List ZArith QArith Qcanon String Bool Arith PArith Lia.
From PyOMA.Model Require Import M_prep M_prep_mem.
From PyOMA.Proofs Require Import P_prep.
Import ListNotations.
Local Open Scope list_scope.
Local Open Scope nat_scope.

(* ---------------------------------------------------------------- heaps -------------------------------------- *)
Lemma halloc_old : forall h n bs j, j < n -> halloc h n bs j = h j.
Proof.
  intros h n bs j H. unfold halloc. destruct (Nat.leb n j) eqn:E; [apply Nat.leb_le in E; lia|reflexivity].
Qed.
Lemma halloc_new : forall h n bs k, k < List.length bs -> halloc h n bs (n + k) = nth k bs no_buf.
Proof.
  intros h n bs k H. unfold halloc.
  replace (Nat.leb n (n + k)) with true by (symmetry; apply Nat.leb_le; lia).
  replace (Nat.ltb (n + k) (n + List.length bs)) with true by (symmetry; apply Nat.ltb_lt; lia).
  cbn [andb]. f_equal. lia.
Qed.
Lemma halloc_seq : forall h n bs, map (halloc h n bs) (seq n (List.length bs)) = bs.
Proof.
  intros h n bs. apply (nth_ext _ _ (halloc h n bs 0) no_buf).
  - rewrite map_length, seq_length. reflexivity.
  - intros k Hk. rewrite map_length, seq_length in Hk.
    rewrite (map_nth (halloc h n bs)), seq_nth by exact Hk. apply halloc_new. exact Hk.
Qed.
Lemma hupd_out : forall h ids f j, ~ In j ids -> hupd h ids f j = h j.
Proof.
  intros h ids f j H. unfold hupd. destruct (existsb (Nat.eqb j) ids) eqn:E; [|reflexivity].
  apply existsb_exists in E. destruct E as (x & Hx & Hjx). apply Nat.eqb_eq in Hjx. subst x. contradiction.
Qed.
Lemma hupd_in : forall h ids f j, In j ids -> hupd h ids f j = f (h j).
Proof.
  intros h ids f j H. unfold hupd. replace (existsb (Nat.eqb j) ids) with true; [reflexivity|].
  symmetry. apply existsb_exists. exists j. split; [exact H|apply Nat.eqb_refl].
Qed.

(* ---------------------------------------------------------------- lists -------------------------------------- *)
Lemma map_combine_r : forall {X Y Z W} (F:X -> Z -> W) (g:Y -> Z) l1 l2,
  map (fun p => F (fst p) (g (snd p))) (combine l1 l2) = map (fun p => F (fst p) (snd p)) (combine l1 (map g l2)).
Proof. intros X Y Z W F g l1. induction l1 as [|x r IH]; intros [|y l2]; cbn; try reflexivity. f_equal. apply IH. Qed.
Lemma map_combine_l : forall {X Y Z W} (F:Z -> Y -> W) (g:X -> Z) l1 l2,
  map (fun p => F (g (fst p)) (snd p)) (combine l1 l2) = map (fun p => F (fst p) (snd p)) (combine (map g l1) l2).
Proof. intros X Y Z W F g l1. induction l1 as [|x r IH]; intros [|y l2]; cbn; try reflexivity. f_equal. apply IH. Qed.
Lemma combine_map_self : forall {X Z W} (F:X -> Z -> W) (f:X -> Z) l,
  map (fun p => F (fst p) (snd p)) (combine l (map f l)) = map (fun x => F x (f x)) l.
Proof. intros X Z W F f l. induction l as [|x r IH]; cbn; [reflexivity|]. f_equal. exact IH. Qed.

Lemma oc_pick : forall {A} (c:nat -> bool) (G R:nat -> A) ids n,
  map G (seq n (List.length ids)) = map R ids ->
  map G (map (fun p => if c (fst p) then fst p else snd p) (combine ids (seq n (List.length ids))))
  = map (fun a => if c a then G a else R a) ids.
Proof.
  intros A c G R ids n H. rewrite map_map.
  transitivity (map (fun p => (fun a z => if c a then G a else z) (fst p) (G (snd p))) (combine ids (seq n (List.length ids)))).
  { apply map_ext. intros [a b]. cbn [fst snd]. destruct (c a); reflexivity. }
  rewrite (map_combine_r (fun a z => if c a then G a else z) G). rewrite H.
  apply (combine_map_self (fun a z => if c a then G a else z) R).
Qed.

Lemma whole_terms : forall (g:nat -> view) ids ts, map g ids = map Whole ts -> map (fun i => vterm (g i)) ids = ts.
Proof.
  intros g ids ts H. apply (f_equal (map vterm)) in H. rewrite !map_map in H. cbn [vterm] in H. rewrite map_id in H. exact H.
Qed.

(* ---------------------------------------------------------------- the ref/mov split read back from the heap --- *)
Lemma mk_views_resplit : forall c refs vs, mk_views refs c = POk vs ->
  map (fun p => resplit (fst p) (snd p)) (combine c vs) = vs /\ List.length vs = List.length c.
Proof.
  induction c as [|t cr IH]; intros refs vs H; cbn [mk_views] in H.
  - inversion H. split; reflexivity.
  - destruct refs as [|rf rr]; [discriminate|]. destruct (mov_ids (tnch t) rf) as [mv|]; [|discriminate].
    destruct (mk_views rr cr) as [vs1|e] eqn:E; [|discriminate]. inversion H; subst vs.
    destruct (IH rr vs1 E) as [H1 H2]. cbn [combine map fst snd resplit List.length]. rewrite H1, H2. split; reflexivity.
Qed.
Lemma mk_data_resplit : forall sg refs c vs, mk_data sg refs c = POk vs ->
  map (fun p => resplit (fst p) (snd p)) (combine c vs) = vs /\ List.length vs = List.length c /\ (sg = true -> vs = map Whole c).
Proof.
  intros sg refs c vs H. unfold mk_data in H. destruct sg.
  - inversion H; subst vs. split; [|split; [apply map_length|reflexivity]].
    rewrite (combine_map_self resplit Whole). apply map_ext. reflexivity.
  - destruct (mk_views_resplit c refs vs H) as [H1 H2]. split; [exact H1|]. split; [exact H2|discriminate].
Qed.

Lemma md_spec : forall sg h n c vs refs ts,
  (forall i, In i c -> i < n) -> map (fun i => bc (h i)) c = map Whole ts -> mk_data sg refs ts = POk vs ->
  n <= md_next sg h n c vs
  /\ (forall j, j < n -> md_heap sg h n c vs j = h j)
  /\ (forall i, In i (md_ids sg h n c vs) -> i < md_next sg h n c vs)
  /\ map (fun i => bc (md_heap sg h n c vs i)) (md_ids sg h n c vs) = vs
  /\ (if sg then md_ids sg h n c vs = c else forall i, In i (md_ids sg h n c vs) -> n <= i).
Proof.
  intros sg h n c vs refs ts Hb Hc Hm. destruct (mk_data_resplit _ _ _ _ Hm) as (Hr & Hl & Hs).
  unfold md_next, md_heap, md_ids. destruct sg.
  - split; [lia|]. split; [reflexivity|]. split; [exact Hb|]. split; [|reflexivity]. rewrite (Hs eq_refl). exact Hc.
  - split; [lia|]. split; [intros j Hj; apply halloc_old; exact Hj|].
    split; [intros i Hi; apply in_seq in Hi; lia|]. split; [|intros i Hi; apply in_seq in Hi; lia].
    rewrite <- (map_map (halloc h n (md_bufs h c vs)) bc), halloc_seq. unfold md_bufs. rewrite map_map. cbn [bc].
    rewrite (map_combine_l resplit (fun i => bterm (h i))).
    replace (map (fun i => bterm (h i)) c) with ts; [exact Hr|]. symmetry. exact (whole_terms (fun i => bc (h i)) c ts Hc).
Qed.

(* ---------------------------------------------------------------- the loop over the current arrays ----------- *)
Lemma oc_spec : forall f ip m ts,
  (forall i, In i (m_cur m) -> i < nx m) -> map (fun i => bc (hp m i)) (m_cur m) = map Whole ts ->
  (forall j, j < nx m -> ~ In j (oc_writes ip m) -> oc_heap f ip m j = hp m j)
  /\ (forall j, In j (oc_cur ip m) -> (In j (m_cur m) /\ ip (hp m j) = true) \/ (nx m <= j < oc_next m))
  /\ map (fun i => bc (oc_heap f ip m i)) (oc_cur ip m) = map Whole (map f ts)
  /\ (forall i, In i (oc_writes ip m) -> In i (m_cur m) /\ ip (hp m i) = true).
Proof.
  intros f ip m ts Hb Hc.
  assert (Hw : forall i, In i (oc_writes ip m) <-> In i (m_cur m) /\ ip (hp m i) = true).
  { intro i. unfold oc_writes. apply filter_In. }
  assert (Hold : forall j, j < nx m -> ~ In j (oc_writes ip m) -> oc_heap f ip m j = hp m j).
  { intros j Hj Hn. unfold oc_heap. rewrite halloc_old by exact Hj. apply hupd_out. exact Hn. }
  split; [exact Hold|]. split; [|split; [|intros i Hi; apply Hw; exact Hi]].
  - intros j Hj. unfold oc_cur in Hj. apply in_map_iff in Hj. destruct Hj as ([a b] & Hab & Hin). cbn [fst snd] in Hab.
    pose proof (in_combine_l _ _ _ _ Hin) as Ha. pose proof (in_combine_r _ _ _ _ Hin) as Hb'. apply in_seq in Hb'.
    unfold oc_next. destruct (ip (hp m a)) eqn:E; subst j; [left; split; assumption|right; lia].
  - unfold oc_cur.
    rewrite (oc_pick (fun a => ip (hp m a)) (fun i => bc (oc_heap f ip m i)) (fun a => Whole (f (bterm (hp m a))))).
    + rewrite map_map. rewrite <- (whole_terms (fun i => bc (hp m i)) (m_cur m) ts Hc). rewrite map_map.
      apply map_ext_in. intros a Ha. destruct (ip (hp m a)) eqn:E; [|reflexivity].
      unfold oc_heap. rewrite halloc_old by (apply Hb; exact Ha). rewrite hupd_in by (apply Hw; split; assumption). reflexivity.
    + rewrite <- (map_map (oc_heap f ip m) bc). unfold oc_heap at 1.
      replace (List.length (m_cur m)) with (List.length (map (fun i => {| bc := Whole (f (bterm (hp m i))); bfl := true |}) (m_cur m)))
        by apply map_length.
      rewrite halloc_seq, map_map. reflexivity.
Qed.

(* ---------------------------------------------------------------- the invariant of every history ------------- *)
Record MInv (sg:bool) (ds:list term) (fl:nat -> bool) (ms:mstate) : Prop := mkMInv {
  iv_user : forall i, In i (m_user (mm ms)) -> i < nx (mm ms);
  iv_init : forall i, In i (m_init (mm ms)) -> i < nx (mm ms);
  iv_cur : forall i, In i (m_cur (mm ms)) -> i < nx (mm ms);
  iv_data : forall i, In i (m_data (mm ms)) -> i < nx (mm ms);
  iv_ccur : map (fun i => bc (hp (mm ms) i)) (m_cur (mm ms)) = map Whole (cur (st ms));
  iv_cdata : map (fun i => bc (hp (mm ms) i)) (m_data (mm ms)) = data (st ms);
  iv_cinit : map (hp (mm ms)) (m_init (mm ms)) = map (fun t => {| bc := Whole t; bfl := tflag fl t |}) ds;
  iv_st : init (st ms) = ds;
  iv_ic : disjoint (m_init (mm ms)) (m_cur (mm ms));
  iv_ui : disjoint (m_user (mm ms)) (m_init (mm ms));
  iv_sg : if sg then m_data (mm ms) = m_cur (mm ms)
          else disjoint (m_data (mm ms)) (m_cur (mm ms)) /\ disjoint (m_data (mm ms)) (m_init (mm ms))
}.

(* what one successful call does to the memory *)
Definition Eff (ow:bool) (ms:mstate) (o:op) (ms':mstate) : Prop :=
  nx (mm ms) <= nx (mm ms')
  /\ m_log (mm ms') = m_log (mm ms) ++ [last_effect (mm ms')]
  /\ (forall j, In j (e_writes (last_effect (mm ms'))) ->
        In j (m_cur (mm ms)) /\ ow = true /\ exists kw, o = Detrend kw /\ det_inplace kw (hp (mm ms) j) = true)
  /\ (forall j, j < nx (mm ms) -> ~ In j (e_writes (last_effect (mm ms'))) -> hp (mm ms') j = hp (mm ms) j)
  /\ (forall j, In j (m_cur (mm ms')) -> In j (m_cur (mm ms)) \/ In j (m_init (mm ms)) \/ nx (mm ms) <= j)
  /\ (forall j, In j (m_init (mm ms')) -> In j (m_init (mm ms)) \/ nx (mm ms) <= j)
  /\ m_user (mm ms') = m_user (mm ms)
  /\ exists l, m_bound (mm ms') = m_bound (mm ms) ++ l.

Lemma upd_cur_log : forall sg m s' f ip,
  e_writes (last_effect (upd_cur sg m s' f ip)) = oc_writes ip m
  /\ m_log (upd_cur sg m s' f ip) = m_log m ++ [last_effect (upd_cur sg m s' f ip)].
Proof. intros. unfold last_effect, upd_cur. cbv zeta. cbn [m_log]. rewrite last_last. split; reflexivity. Qed.

Lemma upd_cur_spec : forall ow sg ds fl s m s' f ip refs o,
  MInv sg ds fl {| st := s; mm := m |} ->
  cur s' = map f (cur s) -> mk_data sg refs (cur s') = POk (data s') -> init s' = init s ->
  (forall j, ip (hp m j) = true -> ow = true /\ exists kw, o = Detrend kw /\ det_inplace kw (hp m j) = true) ->
  MInv sg ds fl {| st := s'; mm := upd_cur sg m s' f ip |}
  /\ Eff ow {| st := s; mm := m |} o {| st := s'; mm := upd_cur sg m s' f ip |}.
Proof.
  intros ow sg ds fl s m s' f ip refs o [Hu Hi Hc Hd Hcc Hcd Hci Hst Hic Hui Hsg] Hcur Hmk Hin Hip. cbn [st mm] in *.
  destruct (oc_spec f ip m (cur s) Hc Hcc) as (Hold & Hmem & Hcont & Hw).
  assert (Hb2 : forall i, In i (oc_cur ip m) -> i < oc_next m).
  { intros i Hi'. destruct (Hmem i Hi') as [[Ha _]|Hr]; [|lia]. unfold oc_next. specialize (Hc i Ha). lia. }
  rewrite <- Hcur in Hcont.
  destruct (md_spec sg (oc_heap f ip m) (oc_next m) (oc_cur ip m) (data s') refs (cur s') Hb2 Hcont Hmk) as (Hn3 & Hh3 & Hbd & Hcd' & Hsg').
  assert (Hnn : nx m <= oc_next m) by (unfold oc_next; lia).
  assert (Hinit_same : forall i, In i (m_init m) -> md_heap sg (oc_heap f ip m) (oc_next m) (oc_cur ip m) (data s') i = hp m i).
  { intros i Hi'. rewrite Hh3 by (specialize (Hi i Hi'); lia). apply Hold; [apply Hi; exact Hi'|].
    intro Hx. apply Hw in Hx. exact (Hic i Hi' (proj1 Hx)). }
  split.
  - constructor; cbn [st mm upd_cur hp nx m_user m_init m_cur m_data].
    + intros i Hi'. specialize (Hu i Hi'). lia.
    + intros i Hi'. specialize (Hi i Hi'). lia.
    + intros i Hi'. specialize (Hb2 i Hi'). lia.
    + exact Hbd.
    + rewrite <- Hcont. apply map_ext_in. intros i Hi'. rewrite Hh3 by (apply Hb2; exact Hi'). reflexivity.
    + exact Hcd'.
    + rewrite <- Hci. apply map_ext_in. exact Hinit_same.
    + rewrite Hin. exact Hst.
    + intros i Hi' Hx. destruct (Hmem i Hx) as [[Ha _]|Hr]; [exact (Hic i Hi' Ha)|]. specialize (Hi i Hi'). lia.
    + exact Hui.
    + destruct sg; [exact Hsg'|]. split.
      * intros i Hi' Hx. specialize (Hsg' i Hi'). specialize (Hb2 i Hx). lia.
      * intros i Hi' Hx. specialize (Hsg' i Hi'). specialize (Hi i Hx). lia.
  - unfold Eff. cbn [st mm]. destruct (upd_cur_log sg m s' f ip) as [Hlw Hll]. rewrite Hlw.
    split; [unfold upd_cur; cbv zeta; cbn [nx]; lia|]. split; [exact Hll|].
    unfold upd_cur. cbv zeta. cbn [hp nx m_user m_init m_cur m_data m_bound m_log].
    split; [intros j Hj; apply Hw in Hj; split; [exact (proj1 Hj)|exact (Hip j (proj2 Hj))]|].
    split; [intros j Hj Hn; rewrite Hh3 by lia; apply Hold; assumption|].
    split; [intros j Hj; destruct (Hmem j Hj) as [[Ha _]|Hr]; [left; exact Ha|right; right; lia]|].
    split; [intros j Hj; left; exact Hj|]. split; [reflexivity|]. exists []. symmetry. apply app_nil_r.
Qed.

(* ---------------------------------------------------------------- deepcopy + re-installation (constructor, rollback) *)
Definition ds_bufs (fl:nat -> bool) (ds:list term) : list buf := map (fun t => {| bc := Whole t; bfl := tflag fl t |}) ds.

Lemma install_spec : forall sg h n src vs refs ds fl,
  (forall i, In i src -> i < n) -> map h src = ds_bufs fl ds -> mk_data sg refs ds = POk vs ->
  let h1 := halloc h n (map h src) in let n1 := n + List.length src in
  n1 <= md_next sg h1 n1 src vs
  /\ (forall j, j < n -> md_heap sg h1 n1 src vs j = h j)
  /\ (forall i, In i (md_ids sg h1 n1 src vs) -> i < md_next sg h1 n1 src vs)
  /\ map (fun i => bc (md_heap sg h1 n1 src vs i)) (md_ids sg h1 n1 src vs) = vs
  /\ (if sg then md_ids sg h1 n1 src vs = src else forall i, In i (md_ids sg h1 n1 src vs) -> n1 <= i)
  /\ map (fun i => bc (md_heap sg h1 n1 src vs i)) src = map Whole ds
  /\ map (md_heap sg h1 n1 src vs) (seq n (List.length src)) = ds_bufs fl ds.
Proof.
  intros sg h n src vs refs ds fl Hb Hsrc Hmk h1 n1.
  assert (Hb1 : forall i, In i src -> i < n1) by (intros i Hi; specialize (Hb i Hi); unfold n1; lia).
  assert (Hc1 : map (fun i => bc (h1 i)) src = map Whole ds).
  { transitivity (map (fun i => bc (h i)) src).
    - apply map_ext_in. intros i Hi. unfold h1. rewrite halloc_old by (apply Hb; exact Hi). reflexivity.
    - rewrite <- (map_map h bc), Hsrc. unfold ds_bufs. rewrite map_map. reflexivity. }
  destruct (md_spec sg h1 n1 src vs refs ds Hb1 Hc1 Hmk) as (Hn3 & Hh3 & Hbd & Hcd & Hsg).
  split; [exact Hn3|]. split; [intros j Hj; rewrite Hh3 by (unfold n1; lia); unfold h1; apply halloc_old; exact Hj|].
  split; [exact Hbd|]. split; [exact Hcd|]. split; [exact Hsg|]. split.
  - rewrite <- Hc1. apply map_ext_in. intros i Hi. rewrite Hh3 by (apply Hb1; exact Hi). reflexivity.
  - transitivity (map h1 (seq n (List.length src))).
    + apply map_ext_in. intros i Hi. apply in_seq in Hi. apply Hh3. unfold n1. lia.
    + unfold h1. replace (List.length src) with (List.length (map h src)) by apply map_length. rewrite halloc_seq. exact Hsrc.
Qed.

Lemma rollback_log : forall sg m s',
  e_writes (last_effect (mem_rollback sg m s')) = []
  /\ m_log (mem_rollback sg m s') = m_log m ++ [last_effect (mem_rollback sg m s')].
Proof. intros. unfold last_effect, mem_rollback. cbv zeta. cbn [m_log]. rewrite last_last. split; reflexivity. Qed.

Lemma rollback_spec : forall ow sg ds fl s m s' refs,
  MInv sg ds fl {| st := s; mm := m |} ->
  cur s' = init s -> mk_data sg refs (cur s') = POk (data s') -> init s' = init s ->
  MInv sg ds fl {| st := s'; mm := mem_rollback sg m s' |}
  /\ Eff ow {| st := s; mm := m |} Rollback {| st := s'; mm := mem_rollback sg m s' |}.
Proof.
  intros ow sg ds fl s m s' refs [Hu Hi Hc Hd Hcc Hcd Hci Hst Hic Hui Hsg] Hcur Hmk Hin. cbn [st mm] in *.
  rewrite Hcur, Hst in Hmk.
  destruct (install_spec sg (hp m) (nx m) (m_init m) (data s') refs ds fl Hi Hci Hmk) as (Hn3 & Hh3 & Hbd & Hcd' & Hsg' & Hcs & Hcn).
  split.
  - constructor; unfold mem_rollback; cbv zeta; cbn [st mm hp nx m_user m_init m_cur m_data].
    + intros i Hi'. specialize (Hu i Hi'). lia.
    + intros i Hi'. apply in_seq in Hi'. lia.
    + intros i Hi'. specialize (Hi i Hi'). lia.
    + exact Hbd.
    + rewrite Hcur, Hst. exact Hcs.
    + exact Hcd'.
    + exact Hcn.
    + rewrite Hin. exact Hst.
    + intros i Hi' Hx. apply in_seq in Hi'. specialize (Hi i Hx). lia.
    + intros i Hi' Hx. apply in_seq in Hx. specialize (Hu i Hi'). lia.
    + destruct sg; [exact Hsg'|]. split.
      * intros i Hi' Hx. specialize (Hsg' i Hi'). specialize (Hi i Hx). lia.
      * intros i Hi' Hx. specialize (Hsg' i Hi'). apply in_seq in Hx. lia.
  - unfold Eff. cbn [st mm]. destruct (rollback_log sg m s') as [Hlw Hll]. rewrite Hlw.
    split; [unfold mem_rollback; cbv zeta; cbn [nx]; lia|]. split; [exact Hll|].
    unfold mem_rollback. cbv zeta. cbn [hp nx m_user m_init m_cur m_data m_bound m_log].
    split; [intros j []|]. split; [intros j Hj _; apply Hh3; exact Hj|].
    split; [intros j Hj; right; left; exact Hj|]. split; [intros j Hj; apply in_seq in Hj; right; lia|].
    split; [reflexivity|]. exists []. symmetry. apply app_nil_r.
Qed.

Lemma add_spec : forall ow sg ds fl s m s' nm,
  MInv sg ds fl {| st := s; mm := m |} -> cur s' = cur s -> data s' = data s -> init s' = init s ->
  MInv sg ds fl {| st := s'; mm := mem_add m nm |} /\ Eff ow {| st := s; mm := m |} (AddAlg nm) {| st := s'; mm := mem_add m nm |}.
Proof.
  intros ow sg ds fl s m s' nm [Hu Hi Hc Hd Hcc Hcd Hci Hst Hic Hui Hsg] H1 H2 H3. cbn [st mm] in *. split.
  - constructor; cbn [st mm mem_add hp nx m_user m_init m_cur m_data]; try assumption.
    + rewrite H1. exact Hcc.
    + rewrite H2. exact Hcd.
    + rewrite H3. exact Hst.
  - unfold Eff. cbn [st mm]. unfold last_effect, mem_add. cbn [m_log hp nx m_user m_init m_cur m_bound]. rewrite last_last. cbn [e_writes].
    split; [lia|]. split; [reflexivity|]. split; [intros j []|]. split; [reflexivity|].
    split; [intros j Hj; left; exact Hj|]. split; [intros j Hj; left; exact Hj|]. split; [reflexivity|]. eexists. reflexivity.
Qed.

Lemma mstep_spec : forall ow pc sg ds fl ms o ms', MInv sg ds fl ms -> mstep ow pc sg ms o = POk ms' -> MInv sg ds fl ms' /\ Eff ow ms o ms'.
Proof.
  intros ow pc sg ds fl [s m] o ms' HI H. unfold mstep in H. cbn [st mm] in H.
  destruct (step pc sg s o) as [s'|e] eqn:E; [|discriminate]. inversion H; subst ms'; clear H.
  destruct o; cbn [step] in E; cbn [mem_step].
  - destruct (kw_ok dec_names kw); [|discriminate].
    destruct (mk_data sg (ref s) (map (Dec q kw) (cur s))) as [vs|e] eqn:Hm; [|discriminate]. inversion E; subst s'; clear E.
    apply (upd_cur_spec ow sg ds fl s m _ (Dec q kw) (fun _ => false) (ref s) (Decimate q kw) HI); cbn [cur data init]; try reflexivity; [exact Hm|].
    intros j Hj. discriminate Hj.
  - destruct (kw_ok det_names kw); [|discriminate].
    destruct (mk_data sg (ref s) (map (Det kw) (cur s))) as [vs|e] eqn:Hm; [|discriminate]. inversion E; subst s'; clear E.
    apply (upd_cur_spec ow sg ds fl s m _ (Det kw) (fun b => ow && det_inplace kw b) (ref s) (Detrend kw) HI); unfold with_data; cbn [cur data init]; try reflexivity; [exact Hm|].
    intros j Hj. apply andb_true_iff in Hj. destruct Hj as [Hj1 Hj2]. split; [exact Hj1|]. exists kw. split; [reflexivity|exact Hj2].
  - destruct (mk_data sg (ref s) (map (Filt (fs s) w ord bt) (cur s))) as [vs|e] eqn:Hm; [|discriminate]. inversion E; subst s'; clear E.
    apply (upd_cur_spec ow sg ds fl s m _ (Filt (fs s) w ord bt) (fun _ => false) (ref s) (Filter w ord bt) HI); unfold with_data; cbn [cur data init]; try reflexivity; [exact Hm|].
    intros j Hj. discriminate Hj.
  - destruct (init_state sg (init_fs s) (init_ref s) (init s)) as [sI|e] eqn:EI; [|discriminate]. inversion E; subst s'; clear E.
    destruct (init_fields _ _ _ _ _ EI) as (Hc & Hd & _ & _ & _ & _ & _ & Hi0 & _).
    apply (rollback_spec ow sg ds fl s m _ (init_ref s) HI); cbn [cur data init]; [exact Hc|rewrite Hc; exact Hd|exact Hi0].
  - inversion E; subst s'; clear E. apply (add_spec ow sg ds fl s m _ nm HI); reflexivity.
  - discriminate E.
Qed.

Lemma minit_spec : forall sg fs0 refs ds fl ms0, minit sg fs0 refs ds fl = POk ms0 ->
  MInv sg ds fl ms0 /\ init_state sg fs0 refs ds = POk (st ms0)
  /\ m_cur (mm ms0) = m_user (mm ms0) /\ m_bound (mm ms0) = [] /\ List.length (m_user (mm ms0)) = List.length ds.
Proof.
  intros sg fs0 refs ds fl ms0 H. unfold minit in H. destruct (init_state sg fs0 refs ds) as [s0|e] eqn:E; [|discriminate].
  inversion H; subst ms0; clear H. cbn [st mm m_cur m_user m_bound].
  destruct (init_fields _ _ _ _ _ E) as (Hc & Hd & _ & _ & _ & _ & _ & Hi0 & _).
  set (h0 := halloc (fun _ => no_buf) 0 (ds_bufs fl ds)).
  assert (Hb : forall i, In i (seq 0 (List.length ds)) -> i < List.length ds) by (intros i Hi; apply in_seq in Hi; lia).
  assert (Hsrc : map h0 (seq 0 (List.length ds)) = ds_bufs fl ds).
  { unfold h0. replace (List.length ds) with (List.length (ds_bufs fl ds)) by apply map_length. apply halloc_seq. }
  destruct (install_spec sg h0 (List.length ds) (seq 0 (List.length ds)) (data s0) refs ds fl Hb Hsrc Hd) as (Hn3 & Hh3 & Hbd & Hcd' & Hsg' & Hcs & Hcn).
  fold (ds_bufs fl ds). fold h0.
  split; [|split; [reflexivity|split; [reflexivity|split; [reflexivity|apply seq_length]]]].
  pose proof (seq_length (List.length ds) 0) as Hsl.
  constructor; cbn [st mm hp nx m_user m_init m_cur m_data].
  - intros i Hi. specialize (Hb i Hi). lia.
  - intros i Hi. apply in_seq in Hi. lia.
  - intros i Hi. specialize (Hb i Hi). lia.
  - exact Hbd.
  - rewrite Hc. exact Hcs.
  - exact Hcd'.
  - exact Hcn.
  - exact Hi0.
  - intros i Hi Hx. apply in_seq in Hi. apply in_seq in Hx. lia.
  - intros i Hi Hx. apply in_seq in Hi. apply in_seq in Hx. lia.
  - destruct sg; [exact Hsg'|]. split.
    + intros i Hi Hx. specialize (Hsg' i Hi). apply in_seq in Hx. lia.
    + intros i Hi Hx. specialize (Hsg' i Hi). apply in_seq in Hx. lia.
Qed.

(* ---------------------------------------------------------------- histories ---------------------------------- *)
Lemma mrun_snoc : forall ow pc sg ms0 ops o,
  mrun ow pc sg ms0 (ops ++ [o]) = bindp (mrun ow pc sg ms0 ops) (fun ms => mstep ow pc sg ms o).
Proof. intros. unfold mrun. rewrite fold_left_app. reflexivity. Qed.

Lemma mrun_inv : forall ow pc sg ds fl ms0, MInv sg ds fl ms0 -> forall ops ms, mrun ow pc sg ms0 ops = POk ms -> MInv sg ds fl ms.
Proof.
  intros ow pc sg ds fl ms0 H0 ops. induction ops as [|o ops IH] using rev_ind; intros ms H.
  - cbn in H. inversion H; subst ms. exact H0.
  - rewrite mrun_snoc in H. destruct (mrun ow pc sg ms0 ops) as [ms1|e]; [|discriminate]. cbn [bindp] in H.
    exact (proj1 (mstep_spec ow pc sg ds fl ms1 o ms (IH ms1 eq_refl) H)).
Qed.

(* the term layer of the memory model IS M_prep: the same calls succeed, with the same term-level state *)
Lemma mrun_st : forall ow pc sg ms0 ops ms, mrun ow pc sg ms0 ops = POk ms -> run pc sg (st ms0) ops = POk (st ms).
Proof.
  intros ow pc sg ms0 ops. induction ops as [|o ops IH] using rev_ind; intros ms H.
  - cbn in H. inversion H; subst ms. reflexivity.
  - rewrite mrun_snoc in H. destruct (mrun ow pc sg ms0 ops) as [ms1|e]; [|discriminate]. cbn [bindp] in H.
    rewrite run_snoc, (IH ms1 eq_refl). cbn [bindp]. unfold mstep in H.
    destruct (step pc sg (st ms1) o) as [s'|e]; [|discriminate]. inversion H; subst ms. reflexivity.
Qed.
Lemma mrun_total : forall ow pc sg ms0 ops s, run pc sg (st ms0) ops = POk s -> exists ms, mrun ow pc sg ms0 ops = POk ms /\ st ms = s.
Proof.
  intros ow pc sg ms0 ops. induction ops as [|o ops IH] using rev_ind; intros s H.
  - cbn in H. inversion H; subst s. exists ms0. split; reflexivity.
  - rewrite run_snoc in H. destruct (run pc sg (st ms0) ops) as [s1|e]; [|discriminate]. cbn [bindp] in H.
    destruct (IH s1 eq_refl) as (ms1 & H1 & Hs1). rewrite mrun_snoc, H1. cbn [bindp]. unfold mstep. rewrite Hs1, H.
    eexists. split; reflexivity.
Qed.

(* a property of (state reached by ops, state reached by ops ++ more) that holds for more = [] and survives every call *)
Lemma ext_ind : forall ow pc sg ds fl ms0 (P:mstate -> mstate -> Prop), MInv sg ds fl ms0 ->
  (forall ms1, MInv sg ds fl ms1 -> P ms1 ms1) ->
  (forall ms1 ms o ms', MInv sg ds fl ms1 -> MInv sg ds fl ms -> P ms1 ms -> mstep ow pc sg ms o = POk ms' -> P ms1 ms') ->
  forall ops more ms1 ms2, mrun ow pc sg ms0 ops = POk ms1 -> mrun ow pc sg ms0 (ops ++ more) = POk ms2 -> P ms1 ms2.
Proof.
  intros ow pc sg ds fl ms0 P H0 Hrefl Hstep ops more. induction more as [|o more IH] using rev_ind; intros ms1 ms2 H1 H2.
  - rewrite app_nil_r, H1 in H2. inversion H2; subst ms2. apply Hrefl. exact (mrun_inv ow pc sg ds fl ms0 H0 ops ms1 H1).
  - rewrite app_assoc, mrun_snoc in H2. destruct (mrun ow pc sg ms0 (ops ++ more)) as [ms|e] eqn:E; [|discriminate]. cbn [bindp] in H2.
    apply (Hstep ms1 ms o ms2); [exact (mrun_inv ow pc sg ds fl ms0 H0 ops ms1 H1)|exact (mrun_inv ow pc sg ds fl ms0 H0 _ ms E)|exact (IH ms1 ms H1 eq_refl)|exact H2].
Qed.

(* ---------------------------------------------------------------- the theorems ------------------------------- *)
(* buffer contents agree with the term-level model after every history, in-place calls included *)
Lemma mem_coherent : forall ow pc sg fs0 refs ds fl ms0, minit sg fs0 refs ds fl = POk ms0 ->
  init_state sg fs0 refs ds = POk (st ms0)
  /\ m_cur (mm ms0) = m_user (mm ms0) /\ disjoint (m_user (mm ms0)) (m_init (mm ms0))
  /\ map (fun i => bc (hp (mm ms0) i)) (m_user (mm ms0)) = map Whole ds
  /\ forall ops ms, mrun ow pc sg ms0 ops = POk ms ->
       run pc sg (st ms0) ops = POk (st ms)
       /\ map (fun i => bc (hp (mm ms) i)) (m_cur (mm ms)) = map Whole (cur (st ms))
       /\ map (fun i => bc (hp (mm ms) i)) (m_data (mm ms)) = data (st ms)
       /\ map (hp (mm ms)) (m_init (mm ms)) = ds_bufs fl ds
       /\ (if sg then m_data (mm ms) = m_cur (mm ms)
           else disjoint (m_data (mm ms)) (m_cur (mm ms)) /\ disjoint (m_data (mm ms)) (m_init (mm ms)))
       /\ (forall i, In i (m_user (mm ms) ++ m_init (mm ms) ++ m_cur (mm ms) ++ m_data (mm ms)) -> i < nx (mm ms)).
Proof.
  intros ow pc sg fs0 refs ds fl ms0 H. destruct (minit_spec _ _ _ _ _ _ H) as (HI & Hst & Hcu & _ & _).
  split; [exact Hst|]. split; [exact Hcu|]. split; [exact (iv_ui _ _ _ _ HI)|].
  split; [rewrite <- Hcu; destruct (init_fields _ _ _ _ _ Hst) as (Hc & _); rewrite <- Hc; exact (iv_ccur _ _ _ _ HI)|].
  intros ops ms Hr. pose proof (mrun_inv ow pc sg ds fl ms0 HI ops ms Hr) as [Hu Hi Hc Hd Hcc Hcd Hci Hs Hic Hui Hsg].
  split; [exact (mrun_st _ _ _ _ _ _ Hr)|]. split; [exact Hcc|]. split; [exact Hcd|]. split; [exact Hci|]. split; [exact Hsg|].
  intros i Hi'. apply in_app_or in Hi'. destruct Hi' as [Hx|Hx]; [exact (Hu i Hx)|].
  apply in_app_or in Hx. destruct Hx as [Hx|Hx]; [exact (Hi i Hx)|].
  apply in_app_or in Hx. destruct Hx as [Hx|Hx]; [exact (Hc i Hx)|exact (Hd i Hx)].
Qed.

(* the stored initial copy: after EVERY history (in-place calls included) it holds the user's initial data with their
   dtype, and no call writes into it: a write goes to a buffer of the current data, only by a detrend call with
   overwrite_data truthy, a linear type and a floating buffer *)
Lemma mem_init_copy_intact : forall ow pc sg fs0 refs ds fl ms0, minit sg fs0 refs ds fl = POk ms0 ->
  forall ops ms, mrun ow pc sg ms0 ops = POk ms ->
    map (hp (mm ms)) (m_init (mm ms)) = ds_bufs fl ds
    /\ forall o ms', mstep ow pc sg ms o = POk ms' ->
         map (hp (mm ms')) (m_init (mm ms)) = ds_bufs fl ds
         /\ forall j, In j (e_writes (last_effect (mm ms'))) ->
              In j (m_cur (mm ms)) /\ ~ In j (m_init (mm ms)) /\ ow = true
              /\ exists kw, o = Detrend kw /\ kw_overwrite kw = true /\ kw_linear kw = true /\ bfl (hp (mm ms) j) = true.
Proof.
  intros ow pc sg fs0 refs ds fl ms0 H ops ms Hr. destruct (minit_spec _ _ _ _ _ _ H) as (HI & _).
  pose proof (mrun_inv ow pc sg ds fl ms0 HI ops ms Hr) as HM. split; [exact (iv_cinit _ _ _ _ HM)|].
  intros o ms' Hs. destruct (mstep_spec ow pc sg ds fl ms o ms' HM Hs) as (_ & _ & _ & Hw & Hh & _).
  assert (Hwj : forall j, In j (e_writes (last_effect (mm ms'))) -> In j (m_cur (mm ms)) /\ ~ In j (m_init (mm ms))).
  { intros j Hj. destruct (Hw j Hj) as (Hc & _). split; [exact Hc|]. intro Hx. exact (iv_ic _ _ _ _ HM j Hx Hc). }
  split.
  - unfold ds_bufs. rewrite <- (iv_cinit _ _ _ _ HM). apply map_ext_in. intros i Hi. apply Hh; [exact (iv_init _ _ _ _ HM i Hi)|].
    intro Hx. exact (proj2 (Hwj i Hx) Hi).
  - intros j Hj. destruct (Hwj j Hj) as (Hc & Hn). split; [exact Hc|]. split; [exact Hn|].
    destruct (Hw j Hj) as (_ & Hot & kw & Ho & Hip). split; [exact Hot|]. exists kw. split; [exact Ho|]. unfold det_inplace in Hip.
    apply andb_true_iff in Hip. destruct Hip as [Hip Hf]. apply andb_true_iff in Hip. destruct Hip as [Ho' Hl]. auto.
Qed.

(* without overwrite_data no call writes anything: every buffer that exists - the user's arrays, the stored copy, what
   any algorithm holds - keeps its content through every later history; all recorded write sets are empty *)
Lemma no_overwrite_step : forall ow pc sg ds fl ms o ms', MInv sg ds fl ms -> ow = false \/ op_no_overwrite o -> mstep ow pc sg ms o = POk ms' ->
  e_writes (last_effect (mm ms')) = [].
Proof.
  intros ow pc sg ds fl ms o ms' HM Ho Hs. destruct (mstep_spec ow pc sg ds fl ms o ms' HM Hs) as (_ & _ & _ & Hw & _).
  destruct (e_writes (last_effect (mm ms'))) as [|j r] eqn:E; [reflexivity|].
  destruct (Hw j (or_introl eq_refl)) as (_ & Hot & kw & Hk & Hip). destruct Ho as [Ho|Ho]; [congruence|]. subst o. cbn [op_no_overwrite] in Ho.
  unfold det_inplace in Hip. rewrite Ho in Hip. discriminate Hip.
Qed.
Lemma mem_no_overwrite_frozen : forall ow pc sg fs0 refs ds fl ms0, minit sg fs0 refs ds fl = POk ms0 ->
  forall ops more ms1 ms2, ow = false \/ Forall op_no_overwrite more ->
    mrun ow pc sg ms0 ops = POk ms1 -> mrun ow pc sg ms0 (ops ++ more) = POk ms2 ->
    nx (mm ms1) <= nx (mm ms2)
    /\ (forall i, i < nx (mm ms1) -> hp (mm ms2) i = hp (mm ms1) i)
    /\ exists l, m_log (mm ms2) = m_log (mm ms1) ++ l /\ Forall (fun e => e_writes e = []) l.
Proof.
  intros ow pc sg fs0 refs ds fl ms0 H ops more. destruct (minit_spec _ _ _ _ _ _ H) as (HI & _).
  induction more as [|o more IH] using rev_ind; intros ms1 ms2 HF H1 H2.
  - rewrite app_nil_r, H1 in H2. inversion H2; subst ms2. split; [lia|]. split; [reflexivity|]. exists []. split; [symmetry; apply app_nil_r|constructor].
  - assert (HF1 : ow = false \/ Forall op_no_overwrite more).
    { destruct HF as [HF|HF]; [left; exact HF|right]. apply Forall_app in HF. exact (proj1 HF). }
    assert (Ho : ow = false \/ op_no_overwrite o).
    { destruct HF as [HF|HF]; [left; exact HF|right]. apply Forall_app in HF. destruct HF as [_ HF2]. inversion HF2; assumption. }
    rewrite app_assoc, mrun_snoc in H2. destruct (mrun ow pc sg ms0 (ops ++ more)) as [ms|e] eqn:E; [|discriminate]. cbn [bindp] in H2.
    destruct (IH ms1 ms HF1 H1 eq_refl) as (Hn & Hh & l & Hl & HlF).
    pose proof (mrun_inv ow pc sg ds fl ms0 HI _ ms E) as HM.
    destruct (mstep_spec ow pc sg ds fl ms o ms2 HM H2) as (_ & Hn' & Hlog & _ & Hh' & _).
    pose proof (no_overwrite_step ow pc sg ds fl ms o ms2 HM Ho H2) as Hw. rewrite Hw in Hh'.
    split; [lia|]. split; [intros i Hi; rewrite Hh' by (try lia; intros []); apply Hh; exact Hi|].
    exists (l ++ [last_effect (mm ms2)]). split; [rewrite Hlog, Hl, app_assoc; reflexivity|].
    apply Forall_app. split; [exact HlF|]. constructor; [exact Hw|constructor].
Qed.

(* a buffer that is neither one of the current data nor one of the stored copy is never written again and never becomes
   current data or stored copy again - whatever is called, in-place detrending included *)
Lemma mem_frozen_outside : forall ow pc sg fs0 refs ds fl ms0, minit sg fs0 refs ds fl = POk ms0 ->
  forall ops more ms1 ms2, mrun ow pc sg ms0 ops = POk ms1 -> mrun ow pc sg ms0 (ops ++ more) = POk ms2 ->
    forall i, i < nx (mm ms1) -> ~ In i (m_cur (mm ms1)) -> ~ In i (m_init (mm ms1)) ->
      hp (mm ms2) i = hp (mm ms1) i /\ ~ In i (m_cur (mm ms2)) /\ ~ In i (m_init (mm ms2)).
Proof.
  intros ow pc sg fs0 refs ds fl ms0 H ops more ms1 ms2 H1 H2 i Hi Hc Hin. destruct (minit_spec _ _ _ _ _ _ H) as (HI & _).
  apply (ext_ind ow pc sg ds fl ms0
           (fun a b => i < nx (mm a) -> ~ In i (m_cur (mm a)) -> ~ In i (m_init (mm a)) ->
                       nx (mm a) <= nx (mm b) /\ hp (mm b) i = hp (mm a) i /\ ~ In i (m_cur (mm b)) /\ ~ In i (m_init (mm b))) HI)
    with (ops := ops) (more := more) (ms1 := ms1) (ms2 := ms2) in Hi; try assumption.
  - destruct Hi as (_ & Hi). exact Hi.
  - intros a _ _ Ha1 Ha2. split; [lia|]. split; [reflexivity|]. split; assumption.
  - intros a b o b' _ HMb IHab Hs Ha0 Ha1 Ha2. destruct (IHab Ha0 Ha1 Ha2) as (Hn & Hh & Hc' & Hi').
    destruct (mstep_spec ow pc sg ds fl b o b' HMb Hs) as (_ & Hn' & _ & Hw & Hh' & Hcur & Hini & _).
    split; [lia|]. split; [|split].
    + rewrite <- Hh. apply Hh'; [lia|]. intro Hx. exact (Hc' (proj1 (Hw i Hx))).
    + intro Hx. destruct (Hcur i Hx) as [Hy|[Hy|Hy]]; [exact (Hc' Hy)|exact (Hi' Hy)|lia].
    + intro Hx. destruct (Hini i Hx) as [Hy|Hy]; [exact (Hi' Hy)|lia].
Qed.

(* add_algorithms hands over the very buffers the setup holds (SingleSetup: the current data buffer; PreGER: the ref/mov
   buffers of the current split): nothing is read, allocated or written *)
Lemma malg_lookup_snoc_same : forall nm v log, malg_lookup nm (log ++ [(nm, v)]) = Some v.
Proof. intros. unfold malg_lookup. rewrite rev_app_distr. cbn [rev app find fst snd]. rewrite Nat.eqb_refl. reflexivity. Qed.
Lemma malg_lookup_snoc_other : forall nm nm' v log, nm' <> nm -> malg_lookup nm' (log ++ [(nm, v)]) = malg_lookup nm' log.
Proof.
  intros nm nm' v log Hne. unfold malg_lookup. rewrite rev_app_distr. cbn [rev app find fst snd].
  destruct (Nat.eqb nm nm') eqn:E; [apply Nat.eqb_eq in E; congruence|reflexivity].
Qed.
Lemma mem_bind : forall ow pc sg ms0 ops ms nm, mrun ow pc sg ms0 ops = POk ms ->
  exists ms', mrun ow pc sg ms0 (ops ++ [AddAlg nm]) = POk ms'
    /\ malg_lookup nm (m_bound (mm ms')) = Some (m_data (mm ms))
    /\ (forall nm', nm' <> nm -> malg_lookup nm' (m_bound (mm ms')) = malg_lookup nm' (m_bound (mm ms)))
    /\ hp (mm ms') = hp (mm ms) /\ nx (mm ms') = nx (mm ms) /\ m_user (mm ms') = m_user (mm ms)
    /\ m_init (mm ms') = m_init (mm ms) /\ m_cur (mm ms') = m_cur (mm ms) /\ m_data (mm ms') = m_data (mm ms)
    /\ last_effect (mm ms') = {| e_reads := []; e_allocs := []; e_writes := [] |}.
Proof.
  intros ow pc sg ms0 ops ms nm H. rewrite mrun_snoc, H. cbn [bindp]. unfold mstep. cbn [step]. eexists. split; [reflexivity|].
  cbn [mm st mem_step]. unfold mem_add, last_effect. cbn [hp nx m_user m_init m_cur m_data m_bound m_log]. rewrite last_last.
  split; [apply malg_lookup_snoc_same|]. split; [intros nm' Hne; apply malg_lookup_snoc_other; exact Hne|]. repeat split; reflexivity.
Qed.
Lemma mem_bound_stable : forall ow pc sg fs0 refs ds fl ms0, minit sg fs0 refs ds fl = POk ms0 ->
  forall ops more ms1 ms2, mrun ow pc sg ms0 ops = POk ms1 -> mrun ow pc sg ms0 (ops ++ more) = POk ms2 ->
    exists l, m_bound (mm ms2) = m_bound (mm ms1) ++ l.
Proof.
  intros ow pc sg fs0 refs ds fl ms0 H ops more ms1 ms2 H1 H2. destruct (minit_spec _ _ _ _ _ _ H) as (HI & _).
  apply (ext_ind ow pc sg ds fl ms0 (fun a b => exists l, m_bound (mm b) = m_bound (mm a) ++ l) HI) with (ops := ops) (more := more); try assumption.
  - intros a _. exists []. symmetry. apply app_nil_r.
  - intros a b o b' _ HMb [l Hl] Hs. destruct (mstep_spec ow pc sg ds fl b o b' HMb Hs) as (_ & _ & _ & _ & _ & _ & _ & _ & l' & Hl').
    exists (l ++ l'). rewrite Hl', Hl, app_assoc. reflexivity.
Qed.

(* MultiSetup_PreGER: what add_algorithms hands over is never written by any later call (in-place detrending included),
   and never becomes the setup's current data or stored copy *)
Lemma mem_preger_alg_frozen : forall ow pc fs0 refs ds fl ms0, minit false fs0 refs ds fl = POk ms0 ->
  forall ops more ms1 ms2, mrun ow pc false ms0 ops = POk ms1 -> mrun ow pc false ms0 (ops ++ more) = POk ms2 ->
    map (fun i => bc (hp (mm ms1) i)) (m_data (mm ms1)) = data (st ms1)
    /\ forall i, In i (m_data (mm ms1)) ->
         hp (mm ms2) i = hp (mm ms1) i /\ ~ In i (m_cur (mm ms2)) /\ ~ In i (m_init (mm ms2)).
Proof.
  intros ow pc fs0 refs ds fl ms0 H ops more ms1 ms2 H1 H2. destruct (minit_spec _ _ _ _ _ _ H) as (HI & _).
  pose proof (mrun_inv ow pc false ds fl ms0 HI ops ms1 H1) as HM. split; [exact (iv_cdata _ _ _ _ HM)|].
  intros i Hi. destruct (iv_sg _ _ _ _ HM) as [Hdc Hdi].
  exact (mem_frozen_outside ow pc false fs0 refs ds fl ms0 H ops more ms1 ms2 H1 H2 i (iv_data _ _ _ _ HM i Hi) (Hdc i Hi) (Hdi i Hi)).
Qed.

(* the user's arrays: the setup works ON them until its current data move elsewhere; a user array that is no longer among
   the current data is never written again *)
Lemma mem_user_frozen_once_left : forall ow pc sg fs0 refs ds fl ms0, minit sg fs0 refs ds fl = POk ms0 ->
  forall ops more ms1 ms2, mrun ow pc sg ms0 ops = POk ms1 -> mrun ow pc sg ms0 (ops ++ more) = POk ms2 ->
    m_user (mm ms2) = m_user (mm ms0)
    /\ forall u, In u (m_user (mm ms0)) -> ~ In u (m_cur (mm ms1)) -> hp (mm ms2) u = hp (mm ms1) u /\ ~ In u (m_cur (mm ms2)).
Proof.
  intros ow pc sg fs0 refs ds fl ms0 H ops more ms1 ms2 H1 H2. destruct (minit_spec _ _ _ _ _ _ H) as (HI & _).
  assert (Hus : forall ops' ms, mrun ow pc sg ms0 ops' = POk ms -> m_user (mm ms) = m_user (mm ms0)).
  { intros ops' ms Hr.
    apply (ext_ind ow pc sg ds fl ms0 (fun a b => m_user (mm b) = m_user (mm a)) HI) with (ops := []) (more := ops'); try assumption; try reflexivity.
    intros a b o b' _ HMb Hab Hs. destruct (mstep_spec ow pc sg ds fl b o b' HMb Hs) as (_ & _ & _ & _ & _ & _ & _ & Hu & _). congruence. }
  split; [exact (Hus _ ms2 H2)|]. intros u Hu Hc. pose proof (mrun_inv ow pc sg ds fl ms0 HI ops ms1 H1) as HM.
  rewrite <- (Hus _ ms1 H1) in Hu.
  destruct (mem_frozen_outside ow pc sg fs0 refs ds fl ms0 H ops more ms1 ms2 H1 H2 u (iv_user _ _ _ _ HM u Hu) Hc (iv_ui _ _ _ _ HM u Hu)) as (Ha & Hb & _).
  split; assumption.
Qed.

(* rollback: the buffers that WERE the stored copy become the current data (same ids, nothing is copied back), and a
   NEW deepcopy of them becomes the stored copy; nothing is written *)
Lemma mem_rollback_alias : forall ow pc sg fs0 refs ds fl ms0, minit sg fs0 refs ds fl = POk ms0 ->
  forall ops ms ms', mrun ow pc sg ms0 ops = POk ms -> mrun ow pc sg ms0 (ops ++ [Rollback]) = POk ms' ->
    m_cur (mm ms') = m_init (mm ms)
    /\ m_init (mm ms') = seq (nx (mm ms)) (List.length (m_init (mm ms)))
    /\ (forall i, i < nx (mm ms) -> hp (mm ms') i = hp (mm ms) i)
    /\ map (hp (mm ms')) (m_cur (mm ms')) = ds_bufs fl ds
    /\ map (hp (mm ms')) (m_init (mm ms')) = ds_bufs fl ds
    /\ disjoint (m_init (mm ms')) (m_cur (mm ms'))
    /\ e_writes (last_effect (mm ms')) = [].
Proof.
  intros ow pc sg fs0 refs ds fl ms0 H ops ms ms' H1 H2. destruct (minit_spec _ _ _ _ _ _ H) as (HI & _).
  pose proof (mrun_inv ow pc sg ds fl ms0 HI ops ms H1) as HM. pose proof (mrun_inv ow pc sg ds fl ms0 HI _ ms' H2) as HM'.
  rewrite mrun_snoc, H1 in H2. cbn [bindp] in H2.
  destruct (mstep_spec ow pc sg ds fl ms Rollback ms' HM H2) as (_ & _ & _ & _ & Hh & _).
  unfold mstep in H2. destruct (step pc sg (st ms) Rollback) as [s'|e]; [|discriminate]. inversion H2; subst ms'; clear H2.
  cbn [mm st mem_step] in *. destruct (rollback_log sg (mm ms) s') as [Hlw _]. rewrite Hlw in Hh.
  assert (Hfr : forall i, i < nx (mm ms) -> hp (mem_rollback sg (mm ms) s') i = hp (mm ms) i) by (intros i Hi; apply Hh; [exact Hi|intros []]).
  split; [reflexivity|]. split; [reflexivity|]. split; [exact Hfr|]. split.
  - change (m_cur (mem_rollback sg (mm ms) s')) with (m_init (mm ms)). unfold ds_bufs. rewrite <- (iv_cinit _ _ _ _ HM).
    apply map_ext_in. intros i Hi. apply Hfr. exact (iv_init _ _ _ _ HM i Hi).
  - split; [exact (iv_cinit _ _ _ _ HM')|]. split; [exact (iv_ic _ _ _ _ HM')|exact Hlw].
Qed.

(* the user's buffers are the same ids throughout *)
Lemma m_user_const : forall ow pc sg fs0 refs ds fl ms0, minit sg fs0 refs ds fl = POk ms0 ->
  forall ops ms, mrun ow pc sg ms0 ops = POk ms -> m_user (mm ms) = m_user (mm ms0).
Proof.
  intros ow pc sg fs0 refs ds fl ms0 H ops ms Hr. destruct (minit_spec _ _ _ _ _ _ H) as (HI & _).
  apply (ext_ind ow pc sg ds fl ms0 (fun a b => m_user (mm b) = m_user (mm a)) HI) with (ops := []) (more := ops); try assumption; try reflexivity.
  intros a b o b' _ HMb Hab Hs. destruct (mstep_spec ow pc sg ds fl b o b' HMb Hs) as (_ & _ & _ & _ & _ & _ & _ & Hu & _). congruence.
Qed.
Lemma minit_log : forall sg fs0 refs ds fl ms0, minit sg fs0 refs ds fl = POk ms0 -> Forall (fun e => e_writes e = []) (m_log (mm ms0)).
Proof.
  intros sg fs0 refs ds fl ms0 H. unfold minit in H. destruct (init_state sg fs0 refs ds) as [s0|e]; [|discriminate].
  inversion H; subst ms0. cbn [mm m_log]. constructor; [reflexivity|constructor].
Qed.

(* THE PRESENT CODE (ow = false: overwrite_data never reaches SciPy).  The immutability clause at full strength, for every
   history, detrend_data(overwrite_data=True) included: every logged write set is empty; every buffer that exists keeps its
   content through every later history - so the user's arrays hold what the user passed, the stored copy of any moment
   holds the initial data, and the buffers handed over at any moment (what an algorithm added then holds) hold the data of
   that moment; bindings are never dropped *)
Lemma mem_nothing_ever_written : forall pc sg fs0 refs ds fl ms0, minit sg fs0 refs ds fl = POk ms0 ->
  forall ops more ms1 ms2, mrun false pc sg ms0 ops = POk ms1 -> mrun false pc sg ms0 (ops ++ more) = POk ms2 ->
    Forall (fun e => e_writes e = []) (m_log (mm ms2))
    /\ nx (mm ms1) <= nx (mm ms2) /\ (forall i, i < nx (mm ms1) -> hp (mm ms2) i = hp (mm ms1) i)
    /\ m_user (mm ms2) = m_user (mm ms0) /\ map (fun i => bc (hp (mm ms2) i)) (m_user (mm ms2)) = map Whole ds
    /\ map (hp (mm ms2)) (m_init (mm ms1)) = ds_bufs fl ds
    /\ map (fun i => bc (hp (mm ms2) i)) (m_data (mm ms1)) = data (st ms1)
    /\ (forall nm ids, In (nm, ids) (m_bound (mm ms1)) -> In (nm, ids) (m_bound (mm ms2))).
Proof.
  intros pc sg fs0 refs ds fl ms0 H ops more ms1 ms2 H1 H2. destruct (minit_spec _ _ _ _ _ _ H) as (HI & _).
  pose proof (mrun_inv false pc sg ds fl ms0 HI ops ms1 H1) as HM1.
  destruct (mem_no_overwrite_frozen false pc sg fs0 refs ds fl ms0 H [] (ops ++ more) ms0 ms2 (or_introl eq_refl) eq_refl H2) as (_ & Hh0 & l & Hl & HlF).
  destruct (mem_no_overwrite_frozen false pc sg fs0 refs ds fl ms0 H ops more ms1 ms2 (or_introl eq_refl) H1 H2) as (Hn & Hh & _).
  split; [rewrite Hl; apply Forall_app; split; [exact (minit_log _ _ _ _ _ _ H)|exact HlF]|].
  split; [exact Hn|]. split; [exact Hh|].
  pose proof (m_user_const false pc sg fs0 refs ds fl ms0 H _ ms2 H2) as Hu. split; [exact Hu|]. split.
  - rewrite Hu. destruct (mem_coherent false pc sg fs0 refs ds fl ms0 H) as (_ & _ & _ & Huc & _). rewrite <- Huc.
    apply map_ext_in. intros i Hi. rewrite Hh0; [reflexivity|exact (iv_user _ _ _ _ HI i Hi)].
  - split; [|split].
    + unfold ds_bufs. rewrite <- (iv_cinit _ _ _ _ HM1). apply map_ext_in. intros i Hi. apply Hh. exact (iv_init _ _ _ _ HM1 i Hi).
    + rewrite <- (iv_cdata _ _ _ _ HM1). apply map_ext_in. intros i Hi. rewrite Hh; [reflexivity|exact (iv_data _ _ _ _ HM1 i Hi)].
    + intros nm ids Hin. destruct (mem_bound_stable false pc sg fs0 refs ds fl ms0 H ops more ms1 ms2 H1 H2) as [l' Hl']. rewrite Hl'. apply in_or_app. left. exact Hin.
Qed.

(* REFUTED FOR THE VARIANT ow = true (the code before repo commit f6a83e1, where overwrite_data reached SciPy): "no call ever
   modifies the arrays the user passed in" and "what an algorithm was handed stays as it was" are false of that variant
   once detrend_data(overwrite_data=True) is called: on SingleSetup the user's float array IS
   the current data and IS what the algorithm holds, and SciPy detrends it in place; on PreGER the user's arrays are
   detrended in place (the algorithm's ref/mov copies are not touched, by mem_preger_alg_frozen) *)
Definition ow_kw : kwargs := [("overwrite_data"%string, VBool true)].
Lemma mem_overwrite_inplace_variant_refuted :
  (exists ms0 ms, minit true (Q2Qc (100#1)) [] [Init 0 600 3] (fun _ => true) = POk ms0
     /\ mrun true false true ms0 [AddAlg 1; Detrend ow_kw] = POk ms
     /\ m_user (mm ms) = [0] /\ malg_lookup 1 (m_bound (mm ms)) = Some [0] /\ m_cur (mm ms) = [0]
     /\ e_writes (last_effect (mm ms)) = [0]
     /\ bc (hp (mm ms0) 0) = Whole (Init 0 600 3) /\ bc (hp (mm ms) 0) = Whole (Det ow_kw (Init 0 600 3))
     /\ map (hp (mm ms)) (m_init (mm ms)) = [{| bc := Whole (Init 0 600 3); bfl := true |}])
  /\ (exists ms0 ms, minit false (Q2Qc (100#1)) [[0]; [1]] [Init 0 600 3; Init 1 640 2] (fun k => Nat.eqb k 0) = POk ms0
     /\ mrun true false false ms0 [AddAlg 1; Detrend ow_kw] = POk ms
     /\ m_user (mm ms) = [0; 1] /\ e_writes (last_effect (mm ms)) = [0]
     /\ map (fun i => bc (hp (mm ms) i)) (m_user (mm ms)) = [Whole (Det ow_kw (Init 0 600 3)); Whole (Init 1 640 2)]
     /\ malg_lookup 1 (m_bound (mm ms)) = Some [4; 5]
     /\ map (fun i => bc (hp (mm ms) i)) [4; 5] = [Split (Init 0 600 3) [0] [1; 2]; Split (Init 1 640 2) [1] [0]]).
Proof.
  split.
  - eexists. eexists. split; [vm_compute; reflexivity|]. split; [vm_compute; reflexivity|]. vm_compute. repeat split; reflexivity.
  - eexists. eexists. split; [vm_compute; reflexivity|]. split; [vm_compute; reflexivity|]. vm_compute. repeat split; reflexivity.
Qed.
