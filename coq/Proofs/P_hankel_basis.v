(* C12 - "the bilinear map is determined completely by evaluating it on all pairs of unit impulses".
   For a fixed shape (l channels, r reference channels, N samples) every map of (data, reference data) that is additive and
   homogeneous in each argument and reads its arguments only inside the shape equals the double sum of its values on impulse
   pairs weighted by the data; so two such maps that agree on the impulse pairs agree everywhere.  The model's entries
   (parametric form, moment-matrix method, correlation method) are such maps, so an implementation that is bilinear and
   agrees with the model on the basis computes the model's matrix on all data of that shape. *)
From Coq Require Import List Arith Lia Ring Setoid Morphisms Bool.
From PyOMA.Base Require Import Carrier FMat.
From PyOMA.Model Require Import M_hankel.
From PyOMA.Proofs Require Import P_hankel.
Import ListNotations.

Section B.
Variable R:Type. Variable K:Ops R.
Hypothesis Rth : ring_theory (o0 K) (o1 K) (oadd K) (omul K) (osub K) (oopp K) (@eq R).
Add Ring RrHB : Rth.
Local Open Scope K_scope.
Notation "0" := (o0 K) : K_scope.
Notation "1" := (o1 K) : K_scope.
Infix "+" := (oadd K) : K_scope. Infix "*" := (omul K) : K_scope.

(* agreement of two records on the first c channels and n samples *)
Definition eqS (c n:nat) (Y Y':sig R) : Prop := forall a t, (a < c)%nat -> (t < n)%nat -> Y a t = Y' a t.
Lemma eqS_refl c n Y : eqS c n Y Y.  Proof. intros a t _ _; reflexivity. Qed.
Lemma eqS_sym c n Y Y' : eqS c n Y Y' -> eqS c n Y' Y.  Proof. intros H a t Ha Ht; symmetry; apply H; assumption. Qed.
Lemma eqS_trans c n Y Y' Y'' : eqS c n Y Y' -> eqS c n Y' Y'' -> eqS c n Y Y''.
Proof. intros H1 H2 a t Ha Ht. rewrite H1, H2 by assumption. reflexivity. Qed.

(* one scalar output (one matrix entry) as a function of (data, reference data) *)
Record bilinear_on (l r N:nat) (F:sig R -> sig R -> R) : Prop := {
  bl_ext    : forall Y Y' Z Z', eqS l N Y Y' -> eqS r N Z Z' -> F Y Z = F Y' Z';
  bl_add_l  : forall Y Y' Z, F (sadd R K Y Y') Z = F Y Z + F Y' Z;
  bl_scal_l : forall c Y Z, F (sscal R K c Y) Z = c * F Y Z;
  bl_add_r  : forall Y Z Z', F Y (sadd R K Z Z') = F Y Z + F Y Z';
  bl_scal_r : forall c Y Z, F Y (sscal R K c Z) = c * F Y Z }.

(* unit impulse: channel a, sample s *)
Definition imp (a s:nat) : sig R := fun a' t => if Nat.eqb a' a && Nat.eqb t s then 1 else 0.
Definition szero : sig R := fun _ _ => 0.
Definition ssum (n:nat) (f:nat -> sig R) : sig R := fun a t => sumn K n (fun k => f k a t).

Section Fixed.
Variables l r N : nat.
Variable F : sig R -> sig R -> R.
Hypothesis HF : bilinear_on l r N F.

Lemma F_zero_l Z : F szero Z = 0.
Proof.
  rewrite (bl_ext _ _ _ _ HF szero (sscal R K 0 szero) Z Z).
  - rewrite (bl_scal_l _ _ _ _ HF). ring.
  - intros a t _ _. unfold sscal, szero. ring.
  - apply eqS_refl.
Qed.
Lemma F_zero_r Y : F Y szero = 0.
Proof.
  rewrite (bl_ext _ _ _ _ HF Y Y szero (sscal R K 0 szero)).
  - rewrite (bl_scal_r _ _ _ _ HF). ring.
  - apply eqS_refl.
  - intros a t _ _. unfold sscal, szero. ring.
Qed.

Lemma F_ssum_l n f Z : F (ssum n f) Z = sumn K n (fun k => F (f k) Z).
Proof.
  induction n as [|n IH]; cbn [sumn].
  - apply F_zero_l.
  - rewrite <- IH, <- (bl_add_l _ _ _ _ HF). apply (bl_ext _ _ _ _ HF); [|apply eqS_refl].
    intros a t _ _. reflexivity.
Qed.
Lemma F_ssum_r n f Y : F Y (ssum n f) = sumn K n (fun k => F Y (f k)).
Proof.
  induction n as [|n IH]; cbn [sumn].
  - apply F_zero_r.
  - rewrite <- IH, <- (bl_add_r _ _ _ _ HF). apply (bl_ext _ _ _ _ HF); [apply eqS_refl|].
    intros a t _ _. reflexivity.
Qed.

(* a record is, inside the shape, the sum of its samples times impulses *)
Definition expand (c n:nat) (Y:sig R) : sig R :=
  ssum c (fun a => ssum n (fun s => sscal R K (Y a s) (imp a s))).
Lemma expand_eq c n Y : eqS c n Y (expand c n Y).
Proof.
  intros a' t' Ha Ht. unfold expand, ssum, sscal, imp.
  transitivity (sumn K c (fun a => (if Nat.eqb a a' then 1 else 0) * Y a t')).
  - rewrite (sumn_delta R K Rth c a' (fun a => Y a t') Ha). reflexivity.
  - apply sumn_ext; intros a Hac.
    destruct (Nat.eqb_spec a a') as [->|Hne].
    + rewrite Nat.eqb_refl. cbn [andb].
      transitivity (sumn K n (fun s => (if Nat.eqb s t' then 1 else 0) * Y a' s)).
      * rewrite (sumn_delta R K Rth n t' (fun s => Y a' s) Ht). ring.
      * apply sumn_ext; intros s _. rewrite (Nat.eqb_sym t' s). ring.
    + replace (Nat.eqb a' a) with false by (symmetry; apply Nat.eqb_neq; congruence). cbn [andb].
      transitivity (sumn K n (fun _ => 0)); [rewrite (sumn_zero R K Rth); ring|].
      apply sumn_ext; intros s _. ring.
Qed.

Theorem bilinear_expansion Y Z :
  F Y Z = sumn K l (fun a => sumn K N (fun s => sumn K r (fun b => sumn K N (fun t =>
            Y a s * Z b t * F (imp a s) (imp b t))))).
Proof.
  rewrite (bl_ext _ _ _ _ HF Y (expand l N Y) Z (expand r N Z) (expand_eq l N Y) (expand_eq r N Z)).
  unfold expand at 1. rewrite F_ssum_l. apply sumn_ext; intros a _.
  rewrite F_ssum_l. apply sumn_ext; intros s _.
  rewrite (bl_scal_l _ _ _ _ HF). unfold expand. rewrite F_ssum_r.
  rewrite <- (sumn_scal R K Rth). apply sumn_ext; intros b _.
  rewrite F_ssum_r. rewrite <- (sumn_scal R K Rth). apply sumn_ext; intros t _.
  rewrite (bl_scal_r _ _ _ _ HF). ring.
Qed.
End Fixed.

Theorem determined_by_impulses l r N F G :
  bilinear_on l r N F -> bilinear_on l r N G ->
  (forall a s b t, (a < l)%nat -> (s < N)%nat -> (b < r)%nat -> (t < N)%nat -> F (imp a s) (imp b t) = G (imp a s) (imp b t)) ->
  forall Y Z, F Y Z = G Y Z.
Proof.
  intros HF HG Hb Y Z. rewrite (bilinear_expansion l r N F HF), (bilinear_expansion l r N G HG).
  apply sumn_ext; intros a Ha. apply sumn_ext; intros s Hs. apply sumn_ext; intros b Hbb. apply sumn_ext; intros t Ht.
  rewrite Hb by assumption. reflexivity.
Qed.

(* ---- the model's entries are such maps ---- *)
Lemma suml_ext_in {A} (f g:A->R) xs : (forall t, In t xs -> f t = g t) -> suml K (map f xs) = suml K (map g xs).
Proof. induction xs as [|x xs IH]; intros H; cbn [map suml]; [reflexivity|].
  rewrite (H x) by (left; reflexivity). rewrite IH; [reflexivity|]. intros t Ht; apply H; right; exact Ht. Qed.

Theorem hank_gen_bilinear win wt dl rl l r N I J :
  (0 < l)%nat -> (0 < r)%nat ->
  (forall t, In t (win (I / l)%nat (J / r)%nat) -> (t + dl (I / l) (J / r) < N)%nat /\ (t + rl (I / l) (J / r) < N)%nat) ->
  bilinear_on l r N (fun Y Z => hank_gen K win wt dl rl l r Y Z I J).
Proof.
  intros Hl Hr Hw. split.
  - intros Y Y' Z Z' HY HZ. unfold hank_gen. cbv zeta. f_equal. apply suml_ext_in; intros t Ht.
    destruct (Hw t Ht) as [H1 H2].
    rewrite (HY (I mod l)%nat (t + dl (I/l) (J/r))%nat) by (try apply Nat.mod_upper_bound; lia).
    rewrite (HZ (J mod r)%nat (t + rl (I/l) (J/r))%nat) by (try apply Nat.mod_upper_bound; lia).
    reflexivity.
  - intros Y Y' Z. apply (hank_gen_add_data R K Rth).
  - intros c Y Z. transitivity (hank_gen K win wt dl rl l r (sscal R K c Y) (sscal R K 1 Z) I J).
    + unfold hank_gen, sscal. cbv zeta. f_equal. apply (suml_ext R K); intros t. ring.
    + rewrite (hank_gen_scal R K Rth). ring.
  - intros Y Z Z'. apply (hank_gen_add_ref R K Rth).
  - intros c Y Z. transitivity (hank_gen K win wt dl rl l r (sscal R K 1 Y) (sscal R K c Z) I J).
    + unfold hank_gen, sscal. cbv zeta. f_equal. apply (suml_ext R K); intros t. ring.
    + rewrite (hank_gen_scal R K Rth). ring.
Qed.

(* transport along entry-wise equality on the index range *)
Lemma bilinear_on_ext l r N F G : (forall Y Z, F Y Z = G Y Z) -> bilinear_on l r N G -> bilinear_on l r N F.
Proof.
  intros E [e al sl ar sr]. split.
  - intros Y Y' Z Z' HY HZ. rewrite !E. apply e; assumption.
  - intros. rewrite !E. apply al.
  - intros. rewrite !E. apply sl.
  - intros. rewrite !E. apply ar.
  - intros. rewrite !E. apply sr.
Qed.

(* moment-matrix method: every entry reads samples below Ndat only *)
Theorem hank_mm_bilinear invN l r br Ndat I J :
  (0 < l)%nat -> (0 < r)%nat -> (I < hank_rows l br)%nat -> (J < hank_cols r br)%nat ->
  bilinear_on l r Ndat (fun Y Z => hank_mm K invN l r br Ndat Y Z I J).
Proof.
  intros Hl Hr HI HJ.
  apply (bilinear_on_ext l r Ndat _
          (fun Y Z => hank_gen K (mm_win br Ndat) (fun _ _ => invN) mm_dl (fun _ _ => 0%nat) l r Y Z I J)).
  - intros Y Z. apply (hank_mm_is_gen R K Rth invN l r br Ndat Y Z I J HI HJ).
  - apply hank_gen_bilinear; [assumption|assumption|].
    destruct (idx_lt_blk I l br Hl HI) as [Hi _]. destruct (idx_lt_blk J r br Hr HJ) as [Hj _].
    intros t Ht. unfold mm_win in Ht. apply in_seq in Ht. unfold mm_dl, mm_N in *. lia.
Qed.

(* correlation method *)
Theorem hank_R_bilinear invn l r br Ndat I J :
  (0 < l)%nat -> (0 < r)%nat -> (I < hank_rows l br)%nat -> (J < hank_cols r br)%nat ->
  bilinear_on l r Ndat (fun Y Z => hank_R K invn l r br Ndat Y Z I J).
Proof.
  intros Hl Hr HI HJ.
  apply (bilinear_on_ext l r Ndat _
          (fun Y Z => hank_gen K (R_win br Ndat) (fun i j => invn (Ndat - (br+i-j))%nat) (fun _ _ => 0%nat) (R_rl br) l r Y Z I J)).
  - intros Y Z. apply (hank_R_is_gen R K Rth invn l r br Ndat Y Z I J HI HJ).
  - apply hank_gen_bilinear; [assumption|assumption|].
    intros t Ht. unfold R_win in Ht. apply in_seq in Ht. unfold R_rl in *. lia.
Qed.

(* what the exhaustive basis evaluation establishes: an implementation entry that is bilinear and agrees with the model on
   all impulse pairs IS the model's entry on all data of that shape *)
Corollary impl_equals_mm invN l r br Ndat I J (F:sig R -> sig R -> R) :
  (0 < l)%nat -> (0 < r)%nat -> (I < hank_rows l br)%nat -> (J < hank_cols r br)%nat ->
  bilinear_on l r Ndat F ->
  (forall a s b t, (a < l)%nat -> (s < Ndat)%nat -> (b < r)%nat -> (t < Ndat)%nat ->
     F (imp a s) (imp b t) = hank_mm K invN l r br Ndat (imp a s) (imp b t) I J) ->
  forall Y Z, F Y Z = hank_mm K invN l r br Ndat Y Z I J.
Proof.
  intros Hl Hr HI HJ HF Hb. apply (determined_by_impulses l r Ndat F _ HF); [|exact Hb].
  apply hank_mm_bilinear; assumption.
Qed.
Corollary impl_equals_R invn l r br Ndat I J (F:sig R -> sig R -> R) :
  (0 < l)%nat -> (0 < r)%nat -> (I < hank_rows l br)%nat -> (J < hank_cols r br)%nat ->
  bilinear_on l r Ndat F ->
  (forall a s b t, (a < l)%nat -> (s < Ndat)%nat -> (b < r)%nat -> (t < Ndat)%nat ->
     F (imp a s) (imp b t) = hank_R K invn l r br Ndat (imp a s) (imp b t) I J) ->
  forall Y Z, F Y Z = hank_R K invn l r br Ndat Y Z I J.
Proof.
  intros Hl Hr HI HJ HF Hb. apply (determined_by_impulses l r Ndat F _ HF); [|exact Hb].
  apply hank_R_bilinear; assumption.
Qed.

(* ---- structure: the correlation matrix is block-Toeplitz for every size (the moment matrix is not exactly block-Hankel:
   its averaging window starts at br+1-j, only the lag i+j+1 is shared - C12_mm_entry) ---- *)
Theorem hank_R_block_toeplitz invn l r br Ndat (Y Yref:sig R) i j i' j' a b :
  (i <= br)%nat -> (j <= br)%nat -> (i' <= br)%nat -> (j' <= br)%nat -> (a < l)%nat -> (b < r)%nat ->
  (br + i - j = br + i' - j')%nat ->
  hank_R K invn l r br Ndat Y Yref (i*l+a)%nat (j*r+b)%nat = hank_R K invn l r br Ndat Y Yref (i'*l+a)%nat (j'*r+b)%nat.
Proof.
  intros Hi Hj Hi' Hj' Ha Hb E. rewrite !hank_R_entry by assumption. rewrite E. reflexivity.
Qed.
End B.
